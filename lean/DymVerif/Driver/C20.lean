import DymVerif.Driver.Common
import DymVerif.Gen.Ante
import DymVerif.Gen.Guards
/-
  Driver/C20 — replays the C20 op lines on M-Ante / M-Guards with the *generated* tables.

  reset                              -> ok          (forget aliases and owners)
  ty <alias> <goType>                -> ok          (alias for a Go message type; id via Gen.Ante.typeNames)
  tx <k> T1 … Tk                     -> ok | rej deep | rej ethtx <alias> | rej disabled <alias>
                                        | rej grant <alias> | rej unpack
       T ::= <alias> <authAlias|-> <bad:0|1> <k> T1 … Tk
  path <i,j,…|-> <k> T1 … Tk         -> at <alias> depth <d> | none      (M-Ante `reach`)
  xo <alias> <critURL|-> <ncURL|->   -> ok          (alias for a set of extension options; only the first critical one routes)
  rtx <extAlias|-> <mode:d|c|r> <k> T1 … Tk
                                     -> the `tx` observations | rej noteth | rej unknown-ext
                                        (M-Ante `runAnte` over the regenerated route table; r = ReCheckTx)
  wrappers                           -> sorted Go types of the wrappers that execute packed messages
  stored <G|P> <leaf>                -> <verdict of the submission> | <verdict of group.MsgExec or ->
  rows                               -> number of Msg rows of the regenerated guard table (= routed custom-module message types)
  signer <module.Msg>                -> Go field path of the message's signer (regenerated table)
  own <obj> <actor>                  -> ok          (fixture: object `obj` is owned by actor)
  fix <what> [a<i>]                  -> ok          (fixture maintenance; `fix buy a<i>`: new buy order of actor i = object 5;
                                                    `fix tick`: a minute passes; `fix subject`: a new frozen IBC client)
  ext <typeURL> <signer>             -> rej         (any message with an Authority field from a non-authority signer)
  ext <typeURL> gov                  -> na          (the authority's own run: no verdict on content here, harness monitors only)
  priv <module.Msg> <obj> <signer> <valid:0|1> <obj:a<i>,…|->
                                     -> ok | rej    signer ::= gov | a<i> | m<i>
-/
namespace DymVerif.Driver.C20
open DymVerif DymVerif.Ante DymVerif.Driver

structure St where
  aliases : List (String × Nat) := []
  exts : List (String × Option String) := []
  owners : Owners := []

def tyId (goName : String) : Nat :=
  match Gen.Ante.typeNames.find? (fun p => p.2 = goName) with
  | some p => p.1
  | none => tyOther

def aliasId (s : St) (a : String) : Nat := (s.aliases.lookup a).getD tyOther

def aliasOf (s : St) (id : Nat) : String :=
  match s.aliases.find? (fun p => p.2 = id) with
  | some p => p.1
  | none => "?"

mutual
partial def parseMsg (s : St) : List String → Option (Msg × List String)
  | ty :: au :: bad :: k :: rest =>
    match parseMsgs s (nat! k) rest with
    | some (inner, rest') =>
      some (.node (aliasId s ty) inner (if au = "-" then tyOther else aliasId s au) (bad = "1"), rest')
    | none => none
  | _ => none
partial def parseMsgs (s : St) : Nat → List String → Option (List Msg × List String)
  | 0, rest => some ([], rest)
  | n + 1, rest =>
    match parseMsg s rest with
    | some (m, rest') =>
      match parseMsgs s n rest' with
      | some (ms, rest'') => some (m :: ms, rest'')
      | none => none
    | none => none
end

def showErr (s : St) : Option Err → String
  | none => "ok"
  | some .deep => "rej deep"
  | some (.invalidType t) => "rej ethtx " ++ aliasOf s t
  | some (.disabled t) => "rej disabled " ++ aliasOf s t
  | some (.disabledGrant t) => "rej grant " ++ aliasOf s t
  | some .unpack => "rej unpack"

def signer! (x : String) : Signer :=
  if x = "gov" then .authority
  else if x.startsWith "a" then .actor (nat! (x.drop 1).toString)
  else .module (nat! (x.drop 1).toString)

/-- `-` or `obj:a<i>,obj:a<i>…` -/
def pairs! (x : String) : List (Nat × Nat) :=
  if x = "-" then [] else
  (x.splitOn ",").filterMap (fun p =>
    match p.splitOn ":" with
    | [o, a] => some (nat! o, nat! (a.drop 1).toString)
    | _ => none)

def step (s : St) (f : List String) : St × String :=
  match f with
  | "reset" :: _ => ({}, "ok")
  | ["ty", a, g] => ({ s with aliases := (a, tyId g) :: s.aliases }, "ok")
  | "tx" :: k :: rest =>
    match parseMsgs s (nat! k) rest with
    | some (ms, []) => (s, showErr s (anteCheck Gen.Ante.config ms))
    | _ => (s, "bad-op")
  | ["xo", a, crit, _] => ({ s with exts := (a, if crit = "-" then none else some crit) :: s.exts }, "ok")
  | "rtx" :: ea :: mode :: k :: rest =>
    match parseMsgs s (nat! k) rest with
    | some (ms, []) =>
      let ext : Option String := if ea = "-" then none else (s.exts.lookup ea).getD (some ("?" ++ ea))
      match runAnte Gen.Ante.config Gen.Ante.routes (mode = "r") ext ms with
      | none => (s, "ok")
      | some (.ante e) => (s, showErr s (some e))
      | some (.notEth _) => (s, "rej noteth")
      | some .unknownExt => (s, "rej unknown-ext")
    | _ => (s, "bad-op")
  | "path" :: ps :: k :: rest =>
    -- the node addressed by an index path (descending through the hub's real wrappers only)
    match parseMsgs s (nat! k) rest with
    | some (ms, []) =>
      let p := if ps = "-" then [] else (ps.splitOn ",").map nat!
      match reach (fun ty => realWrappers.lookup ty) ms p with
      | some m => (s, s!"at {if m.ty = tyOther then "other" else aliasOf s m.ty} depth {p.length - 1}")
      | none => (s, "none")
    | _ => (s, "bad-op")
  | ["wrappers"] =>
    -- Go types of the message types whose packed messages are executed (specification side)
    let names := realWrappers.filterMap (fun w =>
      if w.2 = Acc.msgs then (Gen.Ante.typeNames.lookup w.1) else none)
    (s, ",".intercalate (names.mergeSort (fun a b => decide (a ≤ b))))
  | ["stored", w, l] =>
    -- a proposal (gov v1 / group) carrying one leaf, submitted through the ante; when it passes and is a
    -- group proposal, the later `group.MsgExec` (alias Q: no packed messages) goes through the ante too
    let sub := anteCheck Gen.Ante.config [.node (aliasId s w) [.node (aliasId s l) [] tyOther false] tyOther false]
    let ex := if sub.isNone && w = "P" then showErr s (anteCheck Gen.Ante.config [.node (aliasId s "Q") [] tyOther false]) else "-"
    (s, showErr s sub ++ " | " ++ ex)
  | ["rows"] => (s, toString (Gen.Guards.entries.filter (·.isMsg)).length)
  | ["signer", m] => (s, (Gen.Guards.signers.lookup m).getD "?")
  | ["own", o, a] => ({ s with owners := setOwner s.owners (nat! o) (nat! (a.drop 1).toString) }, "ok")
  | ["fix", "buy", a] => ({ s with owners := setOwner s.owners 5 (nat! (a.drop 1).toString) }, "ok")
  | ["fix", _] => (s, "ok")
  | ["ext", _, sg] => (s, if signer! sg = .authority then "na" else "rej")
  | ["priv", m, o, sg, v, n] =>
    match Gen.Guards.table.find? (fun e => e.1 = m) with
    | some e =>
      let a : Attempt := { entry := e.2, obj := nat! o, signer := signer! sg, valid := v = "1",
                           newOwners := pairs! n }
      let r := gstep s.owners a
      ({ s with owners := r.1 }, if r.2 then "ok" else "rej")
    | none => (s, "no-entry")
  | _ => (s, "bad-op")

def drv : Drv := { σ := St, init := {}, step := step }

end DymVerif.Driver.C20
