import DymVerif.Driver.Common
import DymVerif.Gen.Keys
/-! Driver ops of the second C19 extension. -/
namespace DymVerif.Driver.C19X
open DymVerif DymVerif.Keys DymVerif.Driver

def step (f : List String) : Option String :=
  match f with
  | _ => none

end DymVerif.Driver.C19X
