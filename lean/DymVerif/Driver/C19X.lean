import DymVerif.Driver.Common
import DymVerif.Model.KeysX
import DymVerif.Model.KeysIds
import DymVerif.Gen.Keys
/-! Driver ops of the second C19 extension: rollapp-id grammar, x/rollapp store keys (through the
    regenerated translations), '/'-separated scans. -/
namespace DymVerif.Driver.C19X
open DymVerif DymVerif.Keys DymVerif.Driver

def hex! (s : String) : Bytes := (ofHex s).getD []
def status! (s : String) : Status := if s = "0" then .pending else .finalized
def op! (s : String) : OpStatus := if s = "1" then .bonded else .unbonded
def ptype! (s : String) : PType :=
  match s with
  | "0" => .onRecv | "1" => .onAck | "2" => .onTimeout | _ => .undefined

def pkey (f : List String) : Bytes :=
  match f with
  | [st, r, h, t, c, s] => Gen.Keys.rollappPacketKey (status! st) (hex! r) (nat! h) (ptype! t) (hex! c) (nat! s)
  | _ => []

def cmp (a b : Bytes) : String :=
  if lexLt a b then "-1" else if lexLt b a then "1" else "0"

/-- ids with surrounding white space or non-ASCII bytes are outside the model of `NewChainID`
    (`strings.TrimSpace`); both sides answer `ws` -/
def wsEdge (b : Bytes) : Bool :=
  let w := fun (c : Nat) => c == 32 || (9 ≤ c && c ≤ 13) || 128 ≤ c
  b.any (fun c => 128 ≤ c) || (match b with | [] => false | c :: _ => w c) ||
    (match b.reverse with | [] => false | c :: _ => w c)

def step (f : List String) : Option String :=
  match f with
  | ["rvalid", a] =>
      let id := hex! a
      some (if wsEdge id then "ws" else if validRollappId id then "true " ++ toHexD (rollappName id) else "false")
  | ["rkeys", a, n] =>
      let id := hex! a
      let n := nat! n
      some (" ".intercalate ([Gen.Keys.rollappKey id, Gen.Keys.latestStateInfoIndexKey id, Gen.Keys.latestFinalizedStateIndexKey id,
        Gen.Keys.stateInfoKey id n, Gen.Keys.blockHeightToFinalizationQueueKey n, Gen.Keys.rollappByEIP155Key n,
        Gen.Keys.appKey id n, Gen.Keys.rollappAppKeyPrefix id].map toHexD))
  | ["xsname", name, id] => some (toString (isPrefix (rollappByNamePrefix (hex! name)) (Gen.Keys.rollappKey (hex! id))))
  | ["xsstat", r, st, "|", r', a, st'] =>
      some (toString (isPrefix (Gen.Keys.sequencersByRollappByStatusKey (hex! r) (op! st))
        (Gen.Keys.sequencerByRollappByStatusKey (hex! r') (hex! a) (op! st'))))
  | ["xsliv", h, "|", h', r] =>
      some (toString (isPrefix (livenessScanPrefix (nat! h)) (Gen.Keys.livenessEventQueueKey (nat! h') (hex! r))))
  | ["xslord", h, r, h', r'] =>
      some (cmp (Gen.Keys.livenessEventQueueKey (nat! h) (hex! r)) (Gen.Keys.livenessEventQueueKey (nat! h') (hex! r')))
  | ["xsdo", st, "|", st', i] =>
      some (toString (isPrefix (demandOrdersByStatusPrefix (status! st)) (Gen.Keys.getDemandOrderKey (status! st') (hex! i))))
  | "xspk" :: st :: "|" :: rest =>
      some (s!"{isPrefix (Gen.Keys.rollappPacketByStatusPrefix (status! st)) (pkey rest)} {isPrefix pendingPacketsByAddressPrefix (pkey rest)}")
  | "xspord" :: st :: r :: h :: t :: c :: s :: "|" :: h' :: t' :: c' :: s' :: [] =>
      some (cmp (pkey [st, r, h, t, c, s]) (pkey [st, r, h', t', c', s']))
  | ["xssi", r, "|", r', i] => some (toString (isPrefix (hex! r ++ [sep]) (Gen.Keys.stateInfoKey (hex! r') (nat! i))))
  | ["xssiord", r, i, i'] => some (cmp (Gen.Keys.stateInfoKey (hex! r) (nat! i)) (Gen.Keys.stateInfoKey (hex! r) (nat! i')))
  | ["xsapp", r, "|", r', n] => some (toString (isPrefix (Gen.Keys.rollappAppKeyPrefix (hex! r)) (Gen.Keys.appKey (hex! r') (nat! n))))
  | ["doid", k, sha] => some (toHexD (demandOrderId (fun _ => hex! sha) (hex! k)))
  | ["b64nc", text, k] =>
      -- a (possibly non-canonical) base64 text against the key it was derived from; vb = what
      -- MsgFinalizePacketByPacketKey.ValidateBasic checks of the packet key (non-empty, decodes)
      let t := hex! text
      some (match Gen.Keys.decodePacketKey t with
        | some b => s!"ok {toHexD b} {decide (b = hex! k)} vb={!t.isEmpty}"
        | none => "err vb=false")
  | _ => none

end DymVerif.Driver.C19X
