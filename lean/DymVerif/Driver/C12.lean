import DymVerif.Driver.Common
import DymVerif.Model.Determinism
namespace DymVerif.Driver.C12
open DymVerif.Driver DymVerif.Det

/-
  Driver/C12 — two kinds of lines.
  `replica …`: the model side of the multi-process comparison is degenerate (every model `step` is a
  function, so two replicas of the model agree on every history); the driver states that expectation.
  `shape <class> k=v …`: the executable loop shapes of Model/Determinism.lean, evaluated on the
  enumeration order given on the line (`enum=k:v,k:v,…`, a permutation chosen by the harness); the
  harness runs the real Go function on a real Go map with the same entries — whatever order the Go
  runtime picks, the two must agree.
-/

def kv (f : List String) (k : String) : String :=
  match f.find? (fun t => t.startsWith (k ++ "=")) with
  | some t => (t.drop (k.length + 1)).toString
  | none => "-"

def nats (t : String) : List Nat :=
  if t = "-" || t = "" then [] else (t.splitOn ",").map nat!

def enum! (t : String) : Enum :=
  if t = "-" || t = "" then [] else (t.splitOn ",").map (fun x =>
    match x.splitOn ":" with
    | [k, v] => (nat! k, nat! v)
    | [k] => (nat! k, 0)
    | _ => (0, 0))

def showNats (l : List Nat) : String := if l.isEmpty then "-" else ",".intercalate (l.map toString)

def showRecs (l : List (Nat × Nat)) : String :=
  if l.isEmpty then "-" else ",".intercalate (l.map fun e => s!"{e.1}:{e.2}")

def showOut : Out → String
  | .keys l => showNats l
  | .recs l => showRecs l
  | .flag b => if b then "true" else "false"
  | .total n => toString n
  | .nothing => "nothing"

def shape (f : List String) : String :=
  let m := enum! (kv f "enum")
  match f with
  | "sort" :: _ => showOut (Shape.collectThenSort.eval {} m)
  | "sortbykey" :: _ =>
    let keep : Nat × Nat → Bool := if kv f "keep" = "nonzero" then (fun e => e.2 != 0) else (fun _ => true)
    showOut (Shape.collectFilteredSortByKey.eval { keep := keep } m)
  | "distinct" :: _ =>
    -- `Distinct`: the map is built from the address list; `enum` must be one of its enumerations
    let l := nats (kv f "list")
    if !(m.isPerm (mapOfList (l.map fun a => (a, a)))) then "bad-enum" else
    showNats ((collectFilteredSortByKey (fun _ => true) m).map (·.1))
  | "distr" :: _ =>
    -- `UpdateDistrRecords`: the map is built from the old records, then the update's
    if !(m.isPerm (mapOfList (enum! (kv f "old") ++ enum! (kv f "upd")))) then "bad-enum" else
    match updateDistrRecords m with
    | some r => showRecs r
    | none => "err"
  | "member" :: _ =>
    match moduleAccountAddrs m (nats (kv f "excl")) (nat! (kv f "probe")) with
    | some true => "true" | some false => "false" | none => "absent"
  | "fold" :: _ => showOut (Shape.foldComm.eval {} m)
  | "shuffle" :: _ =>
    -- the permutation `rand.Shuffle` produced for the message's seed is an oracle on the line
    let perm := nats (kv f "perm")
    showOut (Shape.seededShuffle.eval { prng := fun _ _ => perm, txSeed := nat! (kv f "rng") } m)
  | _ => "bad-op"

def step (_ : Unit) (f : List String) : Unit × String :=
  ((), match f with
  | "replica" :: _ => "equal"
  | "shape" :: rest => shape rest
  | _ => "bad-op")

def drv : Drv := { σ := Unit, init := (), step := step }
end DymVerif.Driver.C12
