import DymVerif.Driver.Common
namespace DymVerif.Driver.C12
open DymVerif.Driver

/-- the model side of C12 is degenerate: every model `step` is a function, so two replicas of the
    model agree on every history; the driver states that expectation for each replica line -/
def step (_ : Unit) (f : List String) : Unit × String :=
  ((), match f with
  | "replica" :: _ => "equal"
  | _ => "bad-op")

def drv : Drv := { σ := Unit, init := (), step := step }
end DymVerif.Driver.C12
