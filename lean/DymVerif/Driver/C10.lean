import DymVerif.Driver.Common
import DymVerif.Model.GB
namespace DymVerif.Driver.C10
open DymVerif DymVerif.GB DymVerif.Driver

def kv (f : List String) (k : String) : String :=
  match f.find? (fun x => x.startsWith (k ++ "=")) with
  | some x => (x.drop (k.length + 1)).toString
  | none => ""

def kvN (f : List String) (k : String) : Nat := nat! (kv f k)

def int! (s : String) : Int :=
  if s.startsWith "-" then - ((nat! (s.drop 1).toString : Nat) : Int) else ((nat! s : Nat) : Int)

def idx! (s : String) : Nat := nat! (s.drop 1).toString

def b! (s : String) : Bool := s = "1"

def parseAccs (s : String) : List Acc :=
  if s = "-" || s = "" then [] else
  (s.splitOn ";").map fun x =>
    match x.splitOn ":" with
    | [a, v] => { addr := nat! a, amt := int! v }
    | _ => { addr := 0, amt := 0 }

def parseGI (f : List String) : Option GInfo :=
  if kv f "gi" = "nil" then none else
  some { checksum := kvN f "ck", pfx := kvN f "pf", denom := ⟨kvN f "nb", kvN f "nd", kvN f "ne"⟩,
         supply := (if kv f "sup" = "nil" then none else some (int! (kv f "sup"))),
         accounts := parseAccs (kv f "accs"), sealed := b! (kv f "sealed") }

def parseFT (s : String) : Option FT :=
  match s.splitOn "/" with
  | [d, a, c, r, so] => some { denom := nat! d, amt := int! a, canon := b! c, recv := nat! r, senderOk := b! so }
  | _ => none

def parseMD (s : String) : MD :=
  match s.splitOn "/" with
  | [b, us, so, io] =>
    { base := nat! b,
      units := (if us = "-" then [] else (us.splitOn ",").map fun u => match u.splitOn ":" with | [d, e] => (nat! d, nat! e) | _ => (0, 0)),
      sdkOk := b! so, ibcOk := b! io }
  | _ => { base := 0, units := [], sdkOk := false, ibcOk := false }

def parsePkt (f : List String) : Pkt :=
  match kv f "kind" with
  | "gb" =>
    match parseGI f with
    | some g => .gb { gi := g, md := parseMD (kv f "md"), tr := parseFT (kv f "tr") }
    | none => .junk
  | "ft" => match parseFT (kv f "tr") with | some t => .ft t | none => .junk
  | _ => .junk

def parseOp (f : List String) : Option Op :=
  match f with
  | "create" :: r :: _ => some (.create (idx! r) (parseGI f))
  | "setgi" :: r :: _ => some (.setgi (idx! r) (kv f "by" = "owner") (parseGI f))
  | "force" :: r :: _ => (parseGI f).map fun g => .force (idx! r) (kv f "by" = "gov") g
  -- `te=0`: MsgCreatePlan.trading_enabled = false; lines without the token (older replays) mean te=1
  -- `start=<seconds>`: MsgCreatePlan.start_time; lines without the token carry the zero time
  | "plan" :: r :: _ => some (.plan (idx! r) (kv f "by" = "owner") (int! (kv f "alloc")) (kvN f "dur") (kv f "te" != "0")
                              (if kv f "start" = "" then none else some (kvN f "start")))
  | "enable" :: r :: _ => some (.enable (idx! r) (kv f "by" = "owner"))
  | "tick" :: _ => some (.tick (kvN f "dt"))
  | "seq" :: r :: _ => some (.seq (idx! r))
  | "link" :: r :: _ => some (.link (idx! r))
  | "link2" :: r :: _ => some (.link2 (idx! r))
  | "canon" :: r :: _ => some (.canon (idx! r))
  -- how the channel reached OPEN on the hub: a top-level MsgChannelOpenAck, one nested in authz.MsgExec, or Try/Confirm
  | "chopen" :: r :: _ => some (.chopen (idx! r) (match kv f "via" with | "ack" => 0 | "nested" => 1 | _ => 2))
  | "premd" :: r :: _ => some (.premd (idx! r))
  -- MsgUpdateState for the next n blocks; MsgRollappFraudProposal with fraud height h from the authority or somebody else
  | "update" :: r :: _ => some (.update (idx! r) (kvN f "n"))
  | "fork" :: r :: _ => some (.fork (idx! r) (kv f "by" = "gov") (kvN f "h"))
  | "plainch" :: _ => some .plainch
  | "send" :: c :: _ => some (.send (idx! c))
  | "recv" :: c :: _ => some (.recv (idx! c) (kvN f "ph") (parsePkt f))
  | _ => none

def b2s (b : Bool) : String := if b then "1" else "0"
def joinWith (sep : String) (xs : List String) : String := sep.intercalate xs

def insSorted (x : Nat × Int) : List (Nat × Int) → List (Nat × Int)
  | [] => [x]
  | y :: ys => if x.1 ≤ y.1 then x :: y :: ys else y :: insSorted x ys

def insRa (x : Ra) : List Ra → List Ra
  | [] => [x]
  | y :: ys => if x.id ≤ y.id then x :: y :: ys else y :: insRa x ys

def renderGI (g : GInfo) : String :=
  let sup := match g.supply with | some s => toString s | none => "nil"
  let accs := if g.accounts.isEmpty then "-" else joinWith ";" (g.accounts.map fun a => s!"{a.addr}:{a.amt}")
  s!"{g.checksum},{g.pfx},{g.denom.base},{g.denom.display},{g.denom.exp},{sup},{accs},{b2s g.sealed}"

def renderRa (r : Ra) : String :=
  let pl := match r.preLaunch with | some t => toString t | none => "-"
  let plan := match r.plan with | some (a, st) => s!"{a}:{b2s st}" | none => "-"
  -- the plan's trading flag and start time (relative seconds; "-" = the zero time: trading never enabled)
  let te := if r.plan.isSome then b2s r.te else "-"
  let ps := match r.pstart with | some t => toString t | none => "-"
  let ch := match r.chan with | some c => toString c | none => "-"
  -- after an IRO settlement the IRO module moves its vouchers on (pool, incentives): not part of this model
  let bal := (r.bal.filter (fun x => x.2 != 0 && !(x.1 == iroAddr && r.plan.isSome))).foldl (fun acc x => insSorted x acc) []
  let bals := if bal.isEmpty then "-" else joinWith "," (bal.map fun x => s!"{x.1}:{x.2}")
  s!" | r{r.id} l={b2s r.launched} gi={renderGI r.gi} pl={pl} plan={plan} te={te} ps={ps} ch={ch} tph={r.tph} no={r.nOpen} md={b2s r.md} lh={r.lastH} fz={b2s r.frozen} rev={r.rev} bal={bals}"

def gerrName : GErr → String
  | .badPrefix => "badPrefix" | .badChecksum => "badChecksum" | .noNative => "noNative" | .badMetadata => "badMetadata"
  | .badSupply => "badSupply" | .tooMany => "tooMany" | .invalidArg => "invalidArg"

def rerrName : RErr → String
  | .notCanonical => "notCanonical" | .unmarshal => "unmarshal" | .missing => "missing" | .gi e => "gi-" ++ gerrName e
  | .badMd => "badMd" | .mdBase => "mdBase" | .mdDisplay => "mdDisplay" | .badTransfer => "badTransfer" | .trDenom => "trDenom"
  | .checksum => "checksum" | .pfx => "prefix" | .denom => "denom" | .supply => "supply" | .accounts => "accounts"
  | .trRequired => "trRequired" | .trUnexpected => "trUnexpected" | .trReceiver => "trReceiver" | .trAmount => "trAmount"
  | .ibcDenom => "ibcDenom" | .credit => "credit" | .enable => "enable" | .lower => "lower"
  | .noChannel => "noChannel" | .mdExists => "mdCreate"

def resName : Res → String
  | .ok => "ok" | .err => "err" | .panic => "panic" | .async => "async" | .rerr e => "err:" ++ rerrName e

def render (s : St) (res : String) : String :=
  let sorted := s.ras.foldl (fun acc r => insRa r acc) []
  let ras := String.join (sorted.map renderRa)
  let chs := joinWith "," (s.chans.map fun c =>
    match c.2 with
    | .canon r => s!"{c.1}:c{r}"
    | .second r => s!"{c.1}:s{r}"
    | .plain => s!"{c.1}:p")
  s!"res={res} now={s.now}{ras} | chans={chs}"

def step (s : St) (f : List String) : St × String :=
  match f with
  | "reset" :: _ => (GB.init, render GB.init "ok")
  | _ =>
    match parseOp f with
    | none => (s, "bad-op")
    | some op =>
      let (s', r) := GB.step s op
      (s', render s' (resName r))

def drv : Drv := { σ := St, init := GB.init, step := step }

end DymVerif.Driver.C10
