import DymVerif.Driver.Common
import DymVerif.Model.KeysAddr
/-! Driver ops of the third C19 extension: the text level of Dym-Name addresses (validators, parser,
    formatter, the chains/aliases table of the params and the translations through it). -/
namespace DymVerif.Driver.C19Addr
open DymVerif DymVerif.Keys DymVerif.Driver

def hex! (s : String) : Bytes := (ofHex s).getD []

/-- `<chain hex>:<alias hex>,<alias hex>…` ("=" = no alias) -/
def rec! (s : String) : ChainRec :=
  match s.splitOn ":" with
  | [c, as] => ⟨hex! c, if as = "=" then [] else (as.splitOn ",").map hex!⟩
  | _ => ⟨[], []⟩

/-- records separated by ';' ("-" = empty table) -/
def chains! (s : String) : Chains := if s = "-" then [] else (s.splitOn ";").map rec!

def errClass : ChainsErr → String
  | .short => "short" | .badChain => "badchain" | .dup => "dup" | .badAlias => "badalias"

def nonAscii (b : Bytes) : Bool := b.any (fun c => 128 ≤ c)

def parseObs (r : Option (Bytes × Bytes × Bytes)) : String :=
  match r with
  | none => "err"
  | some (sub, n, h) => s!"ok {toHexD sub} {toHexD n} {toHexD h}"

def step (f : List String) : Option String :=
  match f with
  | ["dnvalid", a] =>
      let s := hex! a
      some (if nonAscii s then "nonascii" else
        s!"{validDymName s} {validAlias s} {validChainIdFormat s} {hexAddrOk (asciiLower s)}")
  | ["dnparse", a, b] =>
      -- b: what the real IsValidBech32AccountAddress(·, false) says of the name chunk
      let w := hex! a
      let bech : Bytes → Bool := fun _ => b == "1"
      let r := parseAddrLit bech w
      some (if nonAscii w then "nonascii" else s!"{parseObs r} s={decide (r = parseAddr bech w)}")
  | ["dnchains", tbl] =>
      some (match validateChains (chains! tbl) with | .ok _ => "ok" | .error e => errClass e)
  | ["dnxl", host, tbl, x] =>
      let t := chains! tbl
      some (match validateChains t with
        | .error e => "refused " ++ errClass e
        | .ok _ => s!"ok {toHexD (resolveChain (hex! host) t (hex! x))} {toHexD (toHandle t (hex! x))}")
  | ["dnrt", host, tbl, c, subs, name] =>
      let t := chains! tbl
      let host := hex! host
      let c := hex! c
      let name := hex! name
      let sub := joinDot (if subs = "=" then [] else (subs.splitOn ",").map hex!)
      some (match validateChains t with
        | .error e => "refused " ++ errClass e
        | .ok _ =>
          let h := toHandle t c
          let text := formatAddr sub name h
          let nb : Bytes → Bool := fun _ => false
          s!"ok {toHexD text} at={parseObs (parseAddrLit nb text)} dot={parseObs (parseAddrLit nb (formatAddrDot sub name h))} chain={toHexD (resolveChain host t h)} rt={reachesConfig host t h c}")
  | ["rcreate", a, b] =>
      -- MsgCreateRollapp(a) on a branch of the store, then what the lookups say, then MsgCreateRollapp(b)
      let id := hex! a
      let id2 := hex! b
      some (if nonAscii id || nonAscii id2 then "nonascii" else
        if !createIdOk id then "refused" else
          let t := trimSpace id
          s!"ok get-trimmed={decide (t = id)} by-name={isPrefix (rollappByNamePrefix (rollappName t)) (rollappKey id)} second={createIdOk id2 && !rollappExistsAfter id id2}")
  | _ => none

end DymVerif.Driver.C19Addr
