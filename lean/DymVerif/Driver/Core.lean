import DymVerif.Driver.Common
import DymVerif.Model.Core
import DymVerif.Model.CoreGenesis
import DymVerif.Model.CorePackets
namespace DymVerif.Driver.Core
open DymVerif DymVerif.Core DymVerif.Driver

def kv (f : List String) (k : String) : String :=
  match f.find? (fun x => x.startsWith (k ++ "=")) with
  | some x => (x.drop (k.length + 1)).toString
  | none => ""

def kvN (f : List String) (k : String) : Nat := nat! (kv f k)

/-- "a3" / "r1" → 3 / 1 -/
def idx! (s : String) : Nat := nat! (s.drop 1).toString

def optActor (s : String) : Option Nat := if s = "-" then none else some (idx! s)

def bdsOfSpec (start n : Nat) (f : List String) (bdlen : Nat) : List BD :=
  let seqerr := if kv f "seqerr" = "-" then none else some (kvN f "seqerr")
  let rooterr := if kv f "rooterr" = "-" then none else some (kvN f "rooterr")
  let ts := kv f "ts"
  let tsAll := ts ≠ "none"
  let tsMiss := if ts = "all" || ts = "none" then none else some (nat! ts)
  let drs := kvN f "drs"
  -- optional `drs0=<v>`: the DRS version of every descriptor except the last one (default: `drs`)
  let drs0 := if kv f "drs0" = "" then drs else kvN f "drs0"
  let _ := n
  (List.range bdlen).map fun i =>
    { height := if seqerr = some i then (start + i + 1) % 2 ^ 64 else (start + i) % 2 ^ 64,
      hasTs := tsAll && tsMiss ≠ some i, drs := if i + 1 = bdlen then drs else drs0, rootOk := rooterr ≠ some i }

def aName (a : Nat) : String := s!"a{a}"
/-- rollapp owner: `o0` = the creator of the rollapps (address 99999), `m<i>` = blocked module account 900+i,
    `a<i>` an actor (declared, or "nobody" 100000+i) -/
def ownName (a : Nat) : String :=
  if a = 99999 then "o0" else if blockedAddr a then s!"m{a - 900}" else if 100000 ≤ a then s!"a{a - 100000}" else s!"a{a}"
def oName : Option Nat → String
  | none => "-"
  | some a => aName a
def nextName : NextP → String
  | .empty => "-"
  | .sentinel => "S"
  | .addr a => aName a
def b2s (b : Bool) : String := if b then "1" else "0"

def joinWith (sep : String) (xs : List String) : String := sep.intercalate xs

def probes (r : Rollapp) : List Nat :=
  let raw := r.states.foldl (fun acc st => acc ++ [(st.start + 2 ^ 64 - 1) % 2 ^ 64, st.start, (st.start + st.num + 2 ^ 64 - 1) % 2 ^ 64, (st.start + st.num) % 2 ^ 64]) [0]
  let sorted := raw.foldl (fun acc x => insertSorted (fun a b => decide (a < b)) x acc) []
  sorted

def renderRa (r : Rollapp) : String :=
  let revs := joinWith "," (r.revs.map fun x => s!"{x.1}@{x.2}")
  let sts := joinWith ";" (r.states.map fun st =>
    let lb := st.bds.getLast?
    let lh := (lb.map (·.height)).getD 0
    let ld := (lb.map (·.drs)).getD 0
    let lt := (lb.map (·.hasTs)).getD false
    s!"{st.start},{st.num},{aName st.creator},{st.creationHeight},{if st.finalized then "F" else "P"},{nextName st.next},{st.bds.length},{lh},{ld},{b2s lt}")
  let bh := joinWith "," ((probes r).map fun x =>
    match findByHeight r x with
    | some i => s!"{x}>{i}"
    | none => s!"{x}>-")
  s!" | r{r.id} l={b2s r.launched} tph={r.tph} rev={revs} n={r.states.length} fin={r.lastFin} ev={r.evH} cd={r.cdStart} prop={oName r.proposer} succ={oName r.successor} own={ownName r.owner} st={sts} bh={bh}"

def render (s : St) (res : String) (nActors : Nat) : String :=
  let ras := String.join (s.ras.map renderRa)
  let q := joinWith ";" (s.queue.map fun e => s!"{e.ch}:r{e.ra}:{joinWith "," (e.idx.map toString)}")
  let sh := joinWith "," (s.seqH.map fun p => s!"a{p.1}:{p.2}")
  let seqs := joinWith ";" (s.seqs.map fun q =>
    let nt := match q.notice with | some t => toString t | none => "-"
    s!"a{q.addr}:r{q.rollapp}:{b2s q.bonded}:{b2s q.optedIn}:{q.tokens}:{q.dishonor}:{nt}")
  let lev := joinWith "," (s.lev.map fun e => s!"{e.1}:r{e.2}")
  let nq := joinWith "," (s.nq.map fun e => s!"{e.1}:a{e.2}")
  let bal := joinWith "," ((List.range nActors).map fun a => toString (getBal s.bal a))
  -- x/sequencer params in force: notice period, kick threshold, slash multiplier (raw 10^-18), slash minimum,
  -- dishonor decrement per update, dishonor increment per liveness event
  let sp := s!"{s.sqp.noticePeriod},{s.sqp.kickThr},{s.sqp.lsMul.raw},{s.sqp.lsAbs},{s.sqp.dishonorSU},{s.sqp.dishonorL}"
  s!"res={res} h={s.h} t={s.t}{ras} | q={q} | sh={sh} | seqs={seqs} | lev={lev} | nq={nq} | mod={s.modBal} bal={bal} | sp={sp}"

def updClass : Err → String
  | .unknownRollapp => "unknownRollapp"
  | .notProposer => "notProposer"
  | .badLast => "badLast"
  | .wrongRevision => "wrongRevision"
  | .noTimestamp => "noTimestamp"
  | .wrongHeight => "wrongHeight"
  | .obsolete => "obsolete"
  | .badBlocks => "badBlocks"
  | .badSequence => "badSequence"
  | .badRoot => "badRoot"
  | _ => "other"

structure DState where
  st : St
  nActors : Nat
  nRollapps : Nat
  /-- pending delayed packets (M-Packets' `fork_removes_above_height` composed with M-Core's fork:
      the fork hooks are told the effective fork height = new revision start − 1) -/
  pkts : List Pk := []
  deriving Inhabited

def pkLt (a b : Pk) : Bool :=
  if a.ra != b.ra then a.ra < b.ra else if a.ph != b.ph then a.ph < b.ph else if a.seq != b.seq then a.seq < b.seq else a.t < b.t

def renderPk (pk : List Pk) : String :=
  let sorted := pk.foldl (fun acc x => insertSorted pkLt x acc) []
  joinWith "," (sorted.map fun p => s!"r{p.ra}:{p.ph}:{p.seq}:{p.t}")

/-- actors / rollapps outside the declared ranges are "nobody": map them to ids no object has -/
def actorOf (d : DState) (s : String) : Nat :=
  let i := idx! s
  -- `m<i>`: the i-th blocked module account (`m0` = the distribution module account) = address 900+i
  -- (`Core.blockedAddr`)
  if s.startsWith "m" then 900 + i else
  -- `o0`: the creator (first owner) of every rollapp
  if s.startsWith "o" then 99999 else
  if i < d.nActors then i else 100000 + i

/-- result class of a rejected message other than `update`: the bank's refusal of the recipient
    (`sdkerrors.ErrUnauthorized` "is not allowed to receive funds") is told apart, everything else is `err` -/
def errClass : Err → String
  | .blockedRecipient => "blockedRecipient"
  | _ => "err"
def raOf (d : DState) (s : String) : Nat :=
  let i := idx! s
  if i < d.nRollapps then i else 100000 + i

def parseOp (d : DState) (f : List String) : Option Op :=
  match f with
  | "create_rollapp" :: r :: _ => some (.createRollapp (raOf d r) 99999 (kvN f "minbond"))
  | "bridge" :: r :: _ => some (.bridge (raOf d r) (kvN f "h"))
  | "fund" :: a :: _ => some (.fund (actorOf d a) (kvN f "amt"))
  | "create_seq" :: a :: r :: _ => some (.createSeq (actorOf d a) (raOf d r) (kvN f "bond") (kv f "denom" ≠ "bad"))
  | "bond_inc" :: a :: _ => some (.bondInc (actorOf d a) (kvN f "amt") (kv f "denom" ≠ "bad"))
  | "bond_dec" :: a :: _ => some (.bondDec (actorOf d a) (kvN f "amt"))
  | "unbond" :: a :: _ => some (.unbond (actorOf d a))
  | ["optin", a, v] => some (.optIn (actorOf d a) (v = "1"))
  | "kick" :: a :: _ => some (.kick (actorOf d a))
  | "update" :: r :: _ =>
      let start := kvN f "start"
      let num := kvN f "num"
      some (.update { ra := raOf d r, sender := actorOf d (kv f "by"), start := start, num := num, rev := kvN f "rev",
                      last := kv f "last" = "1", bds := bdsOfSpec start num f (kvN f "bdlen") })
  | "fraud" :: r :: _ =>
      some (.fraud (kv f "auth" = "gov") (raOf d r) (kvN f "h") (kvN f "rev")
        ((optActor (kv f "punish")).map fun _ => actorOf d (kv f "punish"))
        ((optActor (kv f "rewardee")).map fun _ => actorOf d (kv f "rewardee")))
  | "punish" :: a :: _ =>
      -- the standalone governance PunishSequencerProposal: `punish a<i> rewardee=<a<k>|m<k>|-> auth=<gov|a<j>>`
      some (.punish (kv f "auth" = "gov") (actorOf d a)
        ((optActor (kv f "rewardee")).map fun _ => actorOf d (kv f "rewardee")))
  | "xferowner" :: r :: _ =>
      -- x/rollapp MsgTransferOwnership: `xferowner r<i> by=<actor> to=<actor> uc=<0|1>` (uc: the new owner's
      -- bech32 string in upper case — the same address)
      some (.transferOwner (actorOf d (kv f "by")) (raOf d r) (actorOf d (kv f "to")))
  | "set_seq_params" :: _ =>
      -- x/sequencer MsgUpdateParams: `set_seq_params notice=<ns> kick=<n> mul=<raw> abs=<n> dsu=<n> dl=<n> auth=<gov|a<j>>`
      some (.setSeqParams (kv f "auth" = "gov")
        { noticePeriod := kvN f "notice", kickThr := kvN f "kick", lsMul := ⟨(kvN f "mul" : Nat)⟩, lsAbs := kvN f "abs",
          dishonorSU := kvN f "dsu", dishonorL := kvN f "dl" })
  | "obsolete" :: _ =>
      let v := kv f "v"
      some (.obsolete (kv f "auth" = "gov") (if v = "-" then [] else (v.splitOn ",").map nat!))
  | "begin" :: _ => some (.begin_ (kvN f "dt"))
  | "end" :: _ =>
      let fl := kv f "fail"
      let fails := if fl = "-" then [] else (fl.splitOn ",").map fun x =>
        match x.splitOn ":" with
        | [r, i] => (idx! r, nat! i)
        | _ => (0, 0)
      some (.end_ fails)
  | _ => none

def paramsOf (f : List String) : Params where
  dispute := kvN f "dispute"
  lsBlocks := kvN f "lsb"
  lsInterval := kvN f "lsi"
  lsMul := ⟨(kvN f "mul" : Nat)⟩
  lsAbs := kvN f "abs"
  dishonorSU := kvN f "dsu"
  dishonorL := kvN f "dl"
  kickThr := kvN f "kick"
  noticePeriod := kvN f "notice"

def step (d : DState) (f : List String) : DState × String :=
  match f with
  | "reset" :: _ =>
    let p := paramsOf f
    let d' : DState := { st := init p, nActors := kvN f "actors", nRollapps := kvN f "rollapps" }
    (d', render d'.st "ok" d'.nActors ++ " | pk=")
  | "pkg" :: _ =>
    -- C18: another package's history ran in a sub-process (its own model is checked by its own check)
    (d, "ok")
  | "reimport" :: _ =>
    -- C18: genesis export followed by import into a fresh chain; everything continues on the imported state
    let s' := reimport d.st
    ({ d with st := s' }, render s' "ok" d.nActors ++ " | pk=" ++ renderPk d.pkts)
  | "packet" :: r :: _ =>
    let ra := raOf d r
    if (d.st.ras.find? (fun x => x.id == ra)).isSome then
      let p : Pk := { ra := ra, ph := kvN f "ph", seq := kvN f "seq", t := kv f "t" }
      let pk := (d.pkts.filter fun q => !(q == p)) ++ [p]
      ({ d with pkts := pk }, render d.st "ok" d.nActors ++ " | pk=" ++ renderPk pk)
    else (d, render d.st "err" d.nActors ++ " | pk=" ++ renderPk d.pkts)
  | _ =>
    match parseOp d f with
    | none => (d, "bad-op")
    | some op =>
      let (s', e) := DymVerif.Core.step d.st op
      let isUpd := match op with | .update _ => true | _ => false
      let res := match e with
        | none => "ok"
        | some err => if isUpd then updClass err else errClass err
      let pk := prunePkts d.st s' d.pkts
      ({ d with st := s', pkts := pk }, render s' res d.nActors ++ " | pk=" ++ renderPk pk)

def drv : Drv := { σ := DState, init := default, step := step }

end DymVerif.Driver.Core
