import DymVerif.Driver.Common
import DymVerif.Model.Packets
/-!
  Driver/Packets — line-protocol driver of M-Packets (serves C04 and C05).  Core Lean only.
-/
namespace DymVerif.Driver.Packets
open DymVerif DymVerif.Keys DymVerif.Packets DymVerif.Driver

def kv (f : List String) (k : String) : String :=
  match f.find? (fun x => x.startsWith (k ++ "=")) with
  | some x => (x.drop (k.length + 1)).toString
  | none => ""

def kvN (f : List String) (k : String) : Nat := nat! (kv f k)
def kvI (f : List String) (k : String) : Int := parseInt (kv f k)
def kvD (f : List String) (k : String) : Dec := ⟨parseInt (kv f k)⟩

/-- "a3" / "r1" / "c2" / "d4" → index -/
def idx! (s : String) : Nat := nat! (s.drop 1).toString

def ra0 : Bytes := strBytes "raa_1001-1"
def ra1 : Bytes := strBytes "rbb_1002-1"
def raX : Bytes := strBytes "rxx_9009-1"

def chans : List Chan :=
  [ { hubId := strBytes "channel-0", cpId := strBytes "channel-0", rollapp := some 0, canonical := true },
    { hubId := strBytes "channel-1", cpId := strBytes "channel-0", rollapp := some 1, canonical := true },
    { hubId := strBytes "channel-2", cpId := strBytes "channel-5", rollapp := none, canonical := false },
    { hubId := strBytes "channel-3", cpId := strBytes "channel-0", rollapp := some 0, canonical := false } ]

def ridOf (s : String) : Bytes :=
  if s = "r0" then ra0 else if s = "r1" then ra1 else if s = "-" then [] else raX

def ptypeOf (s : String) : PType :=
  if s = "R" then .onRecv else if s = "A" then .onAck else if s = "T" then .onTimeout else .undefined

def ptypeCh : PType → String
  | .onRecv => "R" | .onAck => "A" | .onTimeout => "T" | .undefined => "U"

/-- actor token: a<i>, `blk` (a blocked module account), anything else = not an address -/
def actorOf (s : String) : Option Addr :=
  if s = "blk" then some blockedAddr else if s.startsWith "a" || s.startsWith "A" then some (idx! s) else none

def addrOf (s : String) : Addr := (actorOf s).getD 999999

/-- order / packet name  r<ra>.<ph>.<R|A|T>.c<chan>.<seq>  → the pending packet key -/
def keyOfName (name : String) : Bytes :=
  match name.splitOn "." with
  | [r, ph, t, c, seq] =>
    let ci := idx! c
    let ty := ptypeOf t
    let src := match chans[ci]? with
      | some ch => if ty == .onRecv then ch.cpId else ch.hubId
      | none => strBytes "channel-99"
    rollappPacketKey .pending (ridOf r) (nat! ph) ty src (nat! seq)
  | _ => []

def memoOf (s : String) : Memo :=
  if s = "-" then .none else if s = "nj" then .notJson else if s = "ne" then .noEibc else if s = "eb" then .eibcBad
  else if s.startsWith "e:" then .eibc (parseInt (s.drop 2).toString)
  else if s.startsWith "fw:" then .forward (idx! (s.drop 3).toString) else .none

def drefOf (s : String) : DRef :=
  if s = "f" then .foreign else .back (idx! s)

/-- "d1*989+d0*5" | "-" -/
def coinsOf (s : String) : Coins :=
  if s = "-" || s = "" then [] else
  (s.splitOn "+").map fun c =>
    match c.splitOn "*" with
    | [d, v] => (idx! d, parseInt v)
    | _ => (0, 0)

def denomsOf (s : String) : List Denom :=
  if s = "*" || s = "" then [] else (s.splitOn "+").map idx!

def natsOf (s : String) : List Nat :=
  if s = "-" || s = "" then [] else (s.splitOn ",").map nat!

/-- "r0/d0+d1/minfee/maxprice/limit/share/sv" -/
def critOf (s : String) : Criteria :=
  match s.splitOn "/" with
  | [r, ds, mf, mp, sl, sh, sv] =>
    { rollappId := ridOf r, denoms := denomsOf ds, minFeePct := ⟨parseInt mf⟩, maxPrice := coinsOf mp,
      spendLimit := coinsOf sl, opShare := ⟨parseInt sh⟩, sv := sv = "1" }
  | _ => default

def parseOp (f : List String) : Option Op :=
  match f with
  | "recv" :: c :: _ =>
    some (.recv (idx! c) (kvN f "seq") (kvN f "ph")
      { dref := drefOf (kv f "den"), amount := kvI f "amt", target := actorOf (kv f "to"), memo := memoOf (kv f "memo") })
  | "send" :: a :: c :: _ => some (.send (addrOf a) (idx! c) (idx! (kv f "den")) (kvI f "amt"))
  | "sendblk" :: a :: c :: _ => some (.sendBlk (addrOf a) (idx! c) (idx! (kv f "den")) (kvI f "amt"))
  | "ack" :: c :: _ => some (.ack (idx! c) (kvN f "seq") (kvN f "ph") (kv f "res" = "err"))
  | "timeout" :: c :: _ => some (.timeout (idx! c) (kvN f "seq") (kvN f "ph"))
  | "fin" :: a :: r :: _ =>
    some (.finalize (addrOf a) (ridOf r) (kvN f "ph") (ptypeOf (kv f "t")) (if kv f "src" = "-" then [] else strBytes (kv f "src")) (kvN f "seq"))
  | "finkey" :: a :: _ => some (.finalizeByKey (addrOf a) (if kv f "k" = "-" then [] else strBytes (kv f "k")))
  | "fulfill" :: a :: _ => some (.fulfill (addrOf a) (keyOfName (kv f "o")) (kvI f "fee"))
  | "fauth" :: _ =>
    some (.fulfillAuth (addrOf (kv f "g"))
      { orderId := keyOfName (kv f "o"), rollappId := ridOf (kv f "ra"), price := coinsOf (kv f "price"), amount := kvI f "amt",
        lp := addrOf (kv f "lp"), opAddr := addrOf (kv f "op"), expectedFee := kvI f "fee", share := kvD f "share", sv := kv f "sv" = "1" })
  | "ondemand" :: a :: _ => some (.onDemand (addrOf a) (keyOfName (kv f "o")) (natsOf (kv f "perm")))
  | "updfee" :: a :: _ => some (.updateFee (addrOf a) (keyOfName (kv f "o")) (kvI f "fee"))
  | "lpcreate" :: a :: _ =>
    some (.createLp { id := 0, addr := addrOf a, rollappId := ridOf (kv f "ra"), denom := idx! (kv f "den"), maxPrice := kvI f "maxp",
                      minFee := kvI f "minfee", spendLimit := kvI f "limit", minAge := kvN f "age", spent := 0 } (kv f "ok" = "1"))
  | "lpdel" :: a :: _ => some (.deleteLps (addrOf a) (natsOf (kv f "ids")))
  | "grant" :: _ =>
    let cs := if kv f "crit" = "-" then [] else ((kv f "crit").splitOn ";").map critOf
    some (.grant { granter := addrOf (kv f "lp"), grantee := addrOf (kv f "op"), crit := cs })
  | "state" :: r :: _ => some (.addState (ridOf r) (kvN f "n"))
  | "finstate" :: r :: _ => some (.finalizeState (ridOf r))
  | "fork" :: r :: _ => some (.fork (ridOf r) (kvN f "h"))
  | ["chanclose", c] => some (.chanClose (idx! c))
  | ["chanopen", c] => some (.chanOpen (idx! c))
  | "timeoutclose" :: c :: _ => some (.timeoutOnClose (idx! c) (kvN f "seq"))
  | ["epoch"] => some .epoch
  | ["block"] => some .block
  | _ => none

-- ------------------------------------------------------------------ rendering

def joinWith (sep : String) (xs : List String) : String := sep.intercalate xs
def dash (xs : List String) (sep : String) : String := if xs.isEmpty then "-" else joinWith sep xs
def b2s (b : Bool) : String := if b then "1" else "0"
def optN : Option Nat → String
  | some n => toString n
  | none => "-"
def optA : Option Addr → String
  | some a => s!"a{a}"
  | none => "-"
def stCh : Status → String
  | .pending => "P" | .finalized => "F"

def raName (s : St) (rid : Bytes) : String :=
  match s.ras.findIdx? (·.id == rid) with
  | some i => s!"r{i}"
  | none => "rx"

def pktName (s : St) (p : Packet) : String :=
  s!"{raName s p.rollappId}.{p.proofHeight}.{ptypeCh p.ptype}.c{p.chan}.{p.seq}"

/-- name of the packet a key belongs to, whatever its status -/
def nameOfKey (s : St) (k : Bytes) : String :=
  match s.packets.find? (fun p => pkey { p with status := .pending } == k || pkey p == k) with
  | some p => pktName s p
  | none => "?"

def perrName : Option PErr → String
  | none => "0"
  | some .ackClosed => "ackClosed"
  | some .ackExists => "ackExists"
  | some (.refund bal amt d) => s!"refund:{bal}:{amt}:d{d}"
  | some (.fwdMove bal amt d) => s!"fwdMove:{bal}:{amt}:d{d}"
  | some (.fwdBurn bal amt d) => s!"fwdBurn:{bal}:{amt}:d{d}"

def renderPkt (s : St) (p : Packet) : String :=
  s!"{pktName s p}/{stCh p.status}/a{p.target}/{optA p.orig}/{p.amount}/d{p.denom}/{b2s p.unescrow}/{b2s p.ackErr}/{perrName p.perr}"

def renderOrd (s : St) (o : Order) : String :=
  let tk := match getPacket s o.trackingKey with
    | some p => stCh p.status
    | none => "?"
  s!"{nameOfKey s o.id}/{stCh o.status}/{o.price}/{o.fee}/d{o.denom}/a{o.recipient}/{optA o.fulfiller}/{o.creationHeight}/{tk}"

def renderLp (s : St) (l : LP) : String :=
  s!"{l.id}/a{l.addr}/{raName s l.rollappId}/d{l.denom}/{l.maxPrice}/{l.minFee}/{l.spendLimit}/{l.minAge}/{l.spent}"

def insSorted {α} (lt : α → α → Bool) (x : α) : List α → List α
  | [] => [x]
  | y :: ys => if lt x y then x :: y :: ys else y :: insSorted lt x ys

def sortBy {α} (lt : α → α → Bool) (l : List α) : List α := l.foldl (fun acc x => insSorted lt x acc) []

def ltNN (a b : Nat × Nat) : Bool := a.1 < b.1 || (a.1 == b.1 && a.2 < b.2)

def renderCoins (c : Coins) : String :=
  dash ((sortBy (fun (a b : Denom × Int) => a.1 < b.1) c).map fun x => s!"d{x.1}*{x.2}") "+"

def renderCrit (s : St) (c : Criteria) : String :=
  let ds := if c.denoms.isEmpty then "*" else joinWith "+" (c.denoms.map fun d => s!"d{d}")
  s!"{raName s c.rollappId}/{ds}/{c.minFeePct.raw}/{renderCoins c.maxPrice}/{renderCoins c.spendLimit}/{c.opShare.raw}/{b2s c.sv}"

def renderGrant (s : St) (g : Grant) : String :=
  s!"a{g.granter}>a{g.grantee}:{joinWith "|" (g.crit.map (renderCrit s))}"

def nDenoms : Nat := 5

def renderBal (s : St) (a : Addr) : String :=
  joinWith "." ((List.range nDenoms).map fun d => toString (getBal s.bal a d))

def render (s : St) (nActors : Nat) (res : String) : String :=
  let ras := joinWith "," (s.ras.map fun r => s!"{optN (raLatest r)}/{optN (raFin r)}")
  let pk := dash (s.packets.map (renderPkt s)) ";"
  let ix := dash ((List.range (nActors + 1)).filterMap fun a =>
    if (s.byAddr.filter (·.1 == a)).isEmpty then none else
    match pendingByAddr s a with
    | some ps => some s!"a{a}:{joinWith "+" (ps.map (pktName s))}"
    | none => some s!"a{a}:ERR") ","
  let ord := dash (s.orders.map (renderOrd s)) ";"
  let lp := dash (s.lps.map (renderLp s)) ";"
  let gr := dash ((sortBy (fun (a b : Grant) => ltNN (a.granter, a.grantee) (b.granter, b.grantee)) s.grants).map (renderGrant s)) ";"
  let accts := (List.range (nActors + 1)).map (fun a => (s!"a{a}", a)) ++ (List.range 4).map (fun c => (s!"e{c}", escrowAcct c)) ++
    (List.range 4).map (fun c => (s!"a{pfmAddr c}", pfmAddr c))
  let bal := joinWith "," (accts.map fun x => s!"{x.1}:{renderBal s x.2}")
  let rc := dash ((sortBy ltNN s.receipts).map fun x => s!"c{x.1}.{x.2}") ","
  let cm := dash ((sortBy ltNN s.commits).map fun x => s!"c{x.1}.{x.2}") ","
  let ak := dash ((sortBy (fun (a b : (Nat × Nat) × Bool) => ltNN a.1 b.1) s.acks).map fun x => s!"c{x.1.1}.{x.1.2}.{b2s x.2}") ","
  let ns := joinWith "," ((List.range 4).map fun c => toString (getNextSeq s c))
  let cl := dash ((sortBy (fun (a b : Nat) => a < b) s.closed).map fun c => s!"c{c}") ","
  s!"res={res} h={s.h} ra={ras} pk={pk} ix={ix} ord={ord} lp={lp} gr={gr} bal={bal} rc={rc} cm={cm} ak={ak} ns={ns} cl={cl}"

def errName : Err → String
  | .notFound => "notFound" | .notFinal => "notFinal" | .noFinalState => "noFinalState" | .notPending => "notPending"
  | .inactive => "inactive" | .fulfilled => "fulfilled" | .feeMismatch => "feeMismatch" | .noAccount => "noAccount"
  | .insufficient => "insufficient" | .unauthorized => "unauthorized" | .feeTooHigh => "feeTooHigh" | .badMemo => "badMemo"
  | .invalid => "invalid" | .badKey => "invalid" | .rollappMismatch => "rollappMismatch" | .priceMismatch => "priceMismatch"
  | .notValidated => "notValidated" | .noState => "noState" | .noLp => "noLp" | .notOwner => "notOwner" | .noGrant => "noGrant"
  | .blocked => "blocked" | .badChannel => "badChannel" | .chanClosed => "chanClosed" | .internal => "internal"

def outName : Out → String
  | .ok => "ok"
  | .replay => "replay"
  | .err e => errName e
  | .recv .replay => "replay"
  | .recv .async => "async"
  | .recv .forwarded => "async"   -- the implementation shows a nil acknowledgement in both cases
  | .recv .ackOk => "ackok"
  | .recv .ackErr => "ackerr"
  | .recv .closed => "chanClosed"

structure DState where
  st : St
  nActors : Nat
  deriving Inhabited

def dstep (d : DState) (f : List String) : DState × String :=
  match f with
  | "reset" :: _ =>
    let n := kvN f "actors"
    let st := initSt n (kvI f "fund") (kvD f "bf") (kvD f "tf") (kvD f "ef") ra0 ra1 chans
    ({ st := st, nActors := n }, render st n "ok")
  | _ =>
    match parseOp f with
    | none => (d, "bad-op")
    | some op =>
      let r := step d.st op
      -- a failed MsgTransfer is one class (ibc-go's own checks are not modelled one by one)
      let res := match op, r.2 with
        | .send .., .err _ => "err"
        | .sendBlk .., .err _ => "err"
        | .timeoutOnClose c q, .ok => if d.st.commits.contains (c, q) then "ok" else "replay"
        | _, o => outName o
      ({ d with st := r.1 }, render r.1 d.nActors res)

def drv : Drv := { σ := DState, init := default, step := dstep }

end DymVerif.Driver.Packets
