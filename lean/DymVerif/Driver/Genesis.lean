/-
  Driver/Genesis — line-protocol driver over the genesis models of Model/Genesis.lean (stateless: one
  scenario per line, see harness/c18mod_test.go).  Core Lean only.
-/
import DymVerif.Driver.Common
import DymVerif.Model.Genesis
namespace DymVerif.Driver.Genesis
open DymVerif DymVerif.Genesis DymVerif.Driver

def hex! (s : String) : Bytes := (ofHex s).getD []

def list! (s : String) : List String := if s = "-" || s = "" then [] else s.splitOn ","

def joinNat (l : List Nat) : String := if l.isEmpty then "-" else ",".intercalate (l.map toString)

def int! (s : String) : Int := s.toInt?.getD 0

def insertStr (x : String) : List String → List String
  | [] => [x]
  | y :: ys => if x < y then x :: y :: ys else y :: insertStr x ys

def sortStr (l : List String) : List String := l.foldr insertStr []

def maxOf (l : List Nat) : Nat := l.foldl Nat.max 0

-- ---------------------------------------------------------------- iro
def iroOp (ids : List Nat) : String :=
  let s := ids.foldl (fun s id => setPlan s ⟨id, strBytes s!"r{id}_1-1", 0⟩) iroInit
  let g := exportIro s
  let t := importIro g
  let ok := (g.plans.filter fun p => kvGet (plansByRollappKey p.rollapp) t.byRollapp == some p.id).length
  s!"order={joinNat (g.plans.map (·.id))} last={t.lastPlanId} byrollapp={ok}"

def iroOp! (s : String) : Option IroOp :=
  match s.splitOn ":" with
  | ["c", r] => some (.create (strBytes s!"r{r}_1-1") 0)
  | ["u", id, b] => some (.update (nat! id) (nat! b))
  | _ => none

def iroOpsOp (ops : List String) : String :=
  let s := iroRun (ops.filterMap iroOp!)
  let t := importIro (exportIro s)
  let ps := t.plans.map fun e =>
    let r := String.ofList ((e.2.rollapp.drop 1).take 1 |>.map Char.ofNat)
    s!"{e.2.id}:{r}:{e.2.body}:{(kvGet (plansByRollappKey e.2.rollapp) t.byRollapp).getD 0}"
  s!"plans={if ps.isEmpty then "-" else ",".intercalate ps} last={t.lastPlanId} orig={s.lastPlanId}"

-- ---------------------------------------------------------------- eibc
def eibcOrder (k : Bytes) : DOrder := ⟨strBytes "o1", .pending, k, 0⟩

def eibcAfter (g : EibcGenesis) : String :=
  match importEibc g with
  | none => "panic"
  | some t =>
    match t.orders with
    | e :: _ => "dec=" ++ toHexD e.2.trackingKey
    | [] => "missing"

def eibcKeyOp (k : Bytes) : String :=
  let s : EibcState := { params := 0, orders := importVals lexLt DOrder.key [eibcOrder k], lps := [], nextLpId := 0 }
  let g := exportEibc s
  let enc := match g.orders with | o :: _ => toHexD o.trackingKey | [] => "?"
  s!"enc={enc} {eibcAfter g}"

def eibcDecOp (k : Bytes) : String := eibcAfter { params := 0, orders := [eibcOrder k] }

-- ---------------------------------------------------------------- delayedack
def daOp (st ty : String) : String :=
  let status : Keys.Status := if st = "0" then .pending else .finalized
  let ptype : Keys.PType := match ty with | "0" => .onRecv | "1" => .onAck | "2" => .onTimeout | _ => .undefined
  let p : DPacket := ⟨status, strBytes "ra_1-1", 5, ptype, strBytes "channel-7", 3, [0], [1], 0⟩
  match importDa { params := 0, packets := [p] } with
  | none => "panic"
  | some t =>
    let cnt (a : Bytes) := (t.byAddr.filter fun e => e.1.1 == a).length
    s!"recv={cnt [0]} send={cnt [1]} stored={t.packets.length}"

-- ---------------------------------------------------------------- gauges / streams
def item! (perp : Bool) (s : String) : Item :=
  match s.splitOn ":" with
  | [id, start, p, num, filled] => if perp then ⟨nat! id, nat! start, p = "1", nat! num, nat! filled, 0⟩ else ⟨nat! id, nat! start, false, nat! p, nat! num, 0⟩
  | [id, start, num, filled] => ⟨nat! id, nat! start, false, nat! num, nat! filled, 0⟩
  | _ => ⟨0, 0, false, 0, 0, 0⟩

def refObs (exp : List Item) (rs : RefStore) (last : Nat) : String :=
  s!"exp={joinNat (exp.map (·.id))} U={joinNat (refIds rs.upcoming)} A={joinNat (refIds rs.active)} F={joinNat (refIds rs.finished)} last={last}"

def gaugesOp (now : Nat) (xs : List Item) : String :=
  let g0 : IncGenesis := { params := 0, lockable := [3600], gauges := xs, lastGaugeId := maxOf (xs.map (·.id)) }
  match importInc now g0 with
  | none => "panic"
  | some s1 =>
    let g1 := exportInc s1
    match importInc now g1 with
    | none => "panic"
    | some s2 => refObs g1.gauges s2.gauges s2.lastGaugeId

def streamsOp (now : Nat) (xs : List Item) : String :=
  let g0 : StrGenesis := { params := 0, streams := xs, lastStreamId := maxOf (xs.map (·.id)), pointers := [] }
  match importStr now [] g0 with
  | none => "panic"
  | some s1 =>
    let g1 := exportStr s1
    match importStr now [] g1 with
    | none => "panic"
    | some s2 => refObs g1.streams s2.streams s2.lastStreamId

/-- one write-path op of the stream store (`e` = BeforeEpochStart: every started upcoming stream, in walk order) -/
def sop (s : RefStore) (tok : String) : RefStore :=
  match tok.splitOn ":" with
  | [now, "c", id, start, num, filled] => rsStep (nat! now) s (.create ⟨nat! id, nat! start, false, nat! num, nat! filled, 0⟩)
  | [now, "e"] => (refIds s.upcoming).foldl (fun s id => rsStep (nat! now) s (.activate id)) s
  | [now, "t", id] => rsStep (nat! now) s (.terminate (nat! id))
  | [now, "u", id, num, filled] =>
    match kvGet (nat! id) s.items with
    | some x => rsStep (nat! now) s (.update { x with numEpochs := nat! num, filled := nat! filled })
    | none => s
  | _ => s

def sopsOp (toks : List String) : String :=
  let s := toks.foldl sop RefStore.empty
  s!"U={joinNat (refIds s.upcoming)} A={joinNat (refIds s.active)} F={joinNat (refIds s.finished)}"

-- ---------------------------------------------------------------- lockup
def lock! (s : String) : Lock :=
  match s.splitOn ":" with
  | [id, dur, unl] => ⟨nat! id, [nat! id % 3], nat! dur, if unl = "1" then 1 + nat! dur else 0, [(strBytes "stake", 10 + nat! id)]⟩
  | _ => ⟨0, [], 0, 0, []⟩

def locksOp (ls : List Lock) : String :=
  let s := importLockup { lastLockId := maxOf (ls.map (·.id)), locks := ls }
  let g := exportLockup s
  s!"exp={joinNat (g.locks.map (·.id))} last={g.lastLockId}"

-- ---------------------------------------------------------------- lightclient signers
def sig! (s : String) : SignerKey :=
  match s.splitOn ":" with
  | [q, c, h] => (strBytes ("s" ++ q), strBytes ("c" ++ c), nat! h)
  | _ => ([], [], 0)

def tail1 (b : Bytes) : String := String.ofList ((b.drop 1).map fun n => Char.ofNat n)

def lcOp (ks : List SignerKey) : String :=
  let s1 := ks.foldl lcSaveSigner ⟨[], [], [], []⟩
  let g := exportLc s1
  if g.signers.isEmpty then "exp=- map=- orig=-" else
  match importLc { clients := [], signers := g.signers } with
  | none => "invalid"
  | some t =>
    let es := g.signers.map fun k => s!"{tail1 k.1}:{tail1 k.2.1}:{k.2.2}"
    let ms := t.h2s.map fun e => s!"{tail1 e.1.1}:{e.1.2}>{tail1 e.2}"
    let os := s1.h2s.map fun e => s!"{tail1 e.1.1}:{e.1.2}>{tail1 e.2}"
    s!"exp={",".intercalate es} map={",".intercalate (sortStr ms)} orig={",".intercalate (sortStr os)}"

-- ---------------------------------------------------------------- sponsorship
def weight! (s : String) : Spons.GP :=
  match s.splitOn "=" with
  | [g, w] => (nat! g, int! w)
  | _ => (0, 0)

def voter! (i : Nat) (s : String) : VoterInfo :=
  match s.splitOn ":" with
  | [vp, ws] => ⟨[i], ⟨int! vp, if ws = "" then [] else (ws.splitOn "+").map weight!⟩, []⟩
  | [vp] => ⟨[i], ⟨int! vp, []⟩, []⟩
  | _ => ⟨[i], ⟨0, []⟩, []⟩

def sponsOp (vs : List String) : String :=
  let infos := (List.range vs.length).zip vs |>.map fun x => voter! x.1 x.2
  let t := importSpons { params := 0, voterInfos := infos }
  let gs := t.dist.gauges.map fun g => s!"{g.1}={g.2}"
  s!"vp={t.dist.vp} gauges={if gs.isEmpty then "-" else ",".intercalate gs}"

-- ---------------------------------------------------------------- dymns refunds
def dymnsOp (bids offers : List Nat) : String :=
  let g : DymnsGenesis :=
    { params := 0, grace := 0, names := [],
      bids := (List.range bids.length).zip bids |>.map fun x => ⟨[x.1], x.2⟩,
      buyOrders := (List.range offers.length).zip offers |>.map fun x => ⟨strBytes s!"10{x.1 + 1}", [x.1], x.2, none, 0⟩ }
  let t := importDymns 0 [] 0 0 g
  s!"supply+={t.supply} module+={t.modBal} a0+={(kvGet [0] t.bal).getD 0}"

def step (_ : Unit) (f : List String) : Unit × String :=
  ((), match f with
  | ["iro", ids] => iroOp ((list! ids).map nat!)
  | ["iroops", ops] => iroOpsOp (list! ops)
  | ["sops", ops] => sopsOp (list! ops)
  | ["eibckey", k] => eibcKeyOp (hex! k)
  | ["eibcdec", k] => eibcDecOp (hex! k)
  | ["da", st, ty] => daOp st ty
  | ["gauges", now, xs] => gaugesOp (nat! now) ((list! xs).map (item! true))
  | ["streams", now, xs] => streamsOp (nat! now) ((list! xs).map (item! false))
  | ["locks", xs] => locksOp ((list! xs).map lock!)
  | ["lcsig", xs] => lcOp ((list! xs).map sig!)
  | ["spons", xs] => sponsOp (list! xs)
  | ["dymns", b, o] => dymnsOp ((list! b).map nat!) ((list! o).map nat!)
  | _ => "bad-op")

def drv : Drv := { σ := Unit, init := (), step := step }

end DymVerif.Driver.Genesis
