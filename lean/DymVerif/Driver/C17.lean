import DymVerif.Driver.Common
import DymVerif.Model.DymNS
/-
  Driver/C17 — replays the C17 op lines (see harness/c17_test.go for the vocabulary) on the M-DymNS
  model and prints the same canonical observations as the harness does for the real code.
-/
namespace DymVerif.Driver.C17
open DymVerif DymVerif.DymNS DymVerif.Driver

structure St where
  s : State
  nA : Nat
  nN : Nat
  nL : Nat
  nR : Nat

def natList (s : String) : List Nat := (s.splitOn ",").map nat!

def join (sep : String) (l : List String) : String := sep.intercalate l

def insSorted (lt : α → α → Bool) (x : α) : List α → List α
  | [] => [x]
  | y :: ys => if lt x y then x :: y :: ys else y :: insSorted lt x ys

def sortBy (lt : α → α → Bool) (l : List α) : List α := l.foldl (fun acc x => insSorted lt x acc) []

def natsOrDash (l : List Nat) : String :=
  if l.isEmpty then "-" else join "," ((sortBy (fun a b => a < b) l).map toString)

def strsSorted (l : List String) : List String := sortBy (fun a b => a < b) l

def dedup [DecidableEq α] (l : List α) : List α :=
  l.foldl (fun acc x => if x ∈ acc then acc else acc ++ [x]) []

def dropS (t : String) (n : Nat) : String := (t.drop n).toString

def addrStr (a : Addr) : String := s!"{a.hrp}:{a.acct}"

def parseAddr (t : String) : Addr :=
  match t.splitOn ":" with
  | [h, a] => ⟨nat! h, nat! a⟩
  | _ => ⟨0, 0⟩

def soStr (so : SellOrder) (alias : Bool) : String :=
  let bid := match so.bid with
    | none => "-"
    | some b => if alias then s!"{b.bidder}/{b.price}/{b.dst}" else s!"{b.bidder}/{b.price}"
  s!"{so.expireAt},{so.minPrice},{so.sellPrice},{bid}"

def boIdStr (bo : BuyOrder) (id : Nat) : String := orderPrefix bo.isAlias ++ toString id

def idxStr (tag : String) (n : Nat) (f : Nat → List Nat) (render : List Nat → String) : String :=
  String.join ((List.range n).map (fun i =>
    let l := f i
    if l.isEmpty then "" else s!" {tag}{i}:{render l}"))

def view (st : St) : String :=
  let s := st.s
  let bals := join "," ((List.range st.nA).map (fun a => toString (balOf s a)))
  let head := s!"t={s.now} tr={s.p.tradeName}/{s.p.tradeAlias} m={s.modBal} b={bals}"
  let names := String.join ((List.range st.nN).map (fun n =>
    match getName s n with
    | none => ""
    | some d =>
      let cfs := if d.configs.isEmpty then "-" else
        join "+" (d.configs.map (fun c => s!"{c.chain}.{c.path}={addrStr c.value}"))
      s!" n{n}:{d.owner},{d.controller},{d.expireAt},{d.contact},{cfs}"))
  let own := idxStr "o" st.nA (fun a => s.ns.ownIdx.lookup a) natsOrDash
  let hrps := 0 :: ((List.range st.nR).map (· + 1)) ++ [100]
  let cfg := String.join (hrps.map (fun hp =>
    String.join ((List.range st.nA).map (fun a =>
      let l := s.ns.cfgIdx.lookup ⟨hp, a⟩
      if l.isEmpty then "" else s!" x{hp}:{a}:{natsOrDash l}"))))
  let fb := idxStr "f" st.nA (fun a => s.ns.fbIdx.lookup a) natsOrDash
  let sn := String.join ((List.range st.nN).map (fun n =>
    match AMap.get s.nameSO n with
    | none => ""
    | some so => s!" sn{n}:{soStr so false}"))
  let sl := String.join ((List.range st.nL).map (fun l =>
    match AMap.get s.aliasSO l with
    | none => ""
    | some so => s!" sl{l}:{soStr so true}"))
  let bos := String.join ((List.range s.boCount).map (fun i =>
    let id := i + 1
    match AMap.get s.bos id with
    | none => ""
    | some bo =>
      let asset := (if bo.isAlias then "l" else "n") ++ toString bo.asset
      s!" b{boIdStr bo id}:{asset},{bo.dst},{bo.buyer},{bo.offer},{bo.counter}"))
  let boIds (l : List Nat) : String :=
    join "," (strsSorted (l.map (fun id => match AMap.get s.bos id with
      | some bo => boIdStr bo id
      | none => "?" ++ toString id)))
  let ib := idxStr "ib" st.nA (fun a => s.boBuyer.lookup a) boIds
  let inn := idxStr "in" st.nN (fun n => s.boName.lookup n) boIds
  let il := idxStr "il" st.nL (fun l => s.boAlias.lookup l) boIds
  let rs := String.join ((List.range st.nR).map (fun i =>
    let c := i + 1
    match AMap.get s.al.rollapps c with
    | none => ""
    | some r =>
      let al := aliasesOf s c
      let als := if al.isEmpty then "-" else join "," (al.map toString)
      s!" r{c}:{r.owner},{r.hrp},{als}"))
  let ls := String.join ((List.range st.nL).map (fun l =>
    match AMap.get s.al.aliasTo l with
    | none => ""
    | some c => s!" l{l}:{c}"))
  let ca := join ";" (s.p.chainAliases.map (fun r =>
    s!"{r.1}:" ++ (if r.2.isEmpty then "-" else join "," (r.2.map toString))))
  let ps := s!" pp={s.p.grace},{s.p.soDur},{s.p.minOffer},{s.p.bidInc} ca={ca}"
  head ++ names ++ own ++ cfg ++ fb ++ sn ++ sl ++ s!" bc={s.boCount}" ++ bos ++ ib ++ inn ++ il ++ rs ++ ls ++ ps

def parseHandle (t : String) : Handle :=
  if t.startsWith "l" then .alias (nat! (dropS t 1)) else .chain (nat! (dropS t 1))

def handleStr : Handle → String
  | .chain c => s!"c{c}"
  | .alias l => s!"l{l}"

/-- order id text "10<n>" / "20<n>" -/
def parseOrderId (t : String) : Bool × Nat := (t.startsWith (orderPrefix true), nat! (dropS t 2))

def parseCont (t : String) : Option (Bool × Nat) := if t = "-" then none else some (parseOrderId t)

def boolTok (t : String) : Bool := t = "1"

def chainParams (resv : List Nat) : List (Chain × List AliasId) := [(0, [1000]), (100, [1001]), (101, resv)]

/-- "c>d,c>d" / "c:l,c:l" ("-" = empty) -/
def parsePairs (sep : String) (t : String) : List (Nat × Nat) :=
  if t = "-" then [] else (t.splitOn ",").filterMap (fun x =>
    match x.splitOn sep with
    | [a, b] => some (nat! a, nat! b)
    | _ => none)

def parseOp (f : List String) : Option Op :=
  match f with
  | ["mig", m] => some (.migrateChainIds (parsePairs ">" m))
  | ["ualias", ad, rm] => some (.updateAliases (parsePairs ":" ad) (parsePairs ":" rm))
  | ["xferra", a, c, b] => some (.transferRollapp (nat! a) (nat! c) (nat! b))
  | ["setp", g, d, mo, bi] => some (.setParams (nat! g) (nat! d) (nat! mo) (nat! bi))
  | ["fund", a, amt] => some (.fund (nat! a) (nat! amt))
  | ["adv", dt] => some (.advance (nat! dt))
  | ["trade", n, a] => some (.trading (boolTok n) (boolTok a))
  | ["resv", l] => some (.setChainAliases (chainParams (if l = "-" then [] else natList l)))
  | ["reg", a, n, dur, pay, k] => some (.register (nat! a) (nat! n) (nat! dur) (nat! pay) (nat! k))
  | ["xfer", a, n, b] => some (.transfer (nat! a) (nat! n) (nat! b))
  | ["ctrl", a, n, b] => some (.setController (nat! a) (nat! n) (nat! b))
  | ["ura", a, n, c, e, p, v] =>
      some (.updateResolve (nat! a) (nat! n) (nat! c) (boolTok e) (nat! p) (if v = "-" then none else some (parseAddr v)))
  | ["det", a, n, k, cl] =>
      some (.updateDetails (nat! a) (nat! n) (if k = "keep" then .keep else .set (nat! (dropS k 1))) (boolTok cl))
  | ["sell", a, "n", n, mn, sl] => some (.sellName (nat! a) (nat! n) (nat! mn) (nat! sl))
  | ["sell", a, "l", l, mn, sl] => some (.sellAlias (nat! a) (nat! l) (nat! mn) (nat! sl))
  | ["csell", a, "n", n] => some (.cancelSellName (nat! a) (nat! n))
  | ["csell", a, "l", l] => some (.cancelSellAlias (nat! a) (nat! l))
  | ["comp", a, "n", n] => some (.completeName (nat! a) (nat! n))
  | ["comp", a, "l", l] => some (.completeAlias (nat! a) (nat! l))
  | ["buy", a, "n", n, o] => some (.buyName (nat! a) (nat! n) (nat! o))
  | ["buy", a, "l", l, o, d] => some (.buyAlias (nat! a) (nat! l) (nat! o) (nat! d))
  | ["offer", a, "n", n, o, c] => some (.offerName (nat! a) (nat! n) (nat! o) (parseCont c))
  | ["offer", a, "l", l, o, c, d] => some (.offerAlias (nat! a) (nat! l) (nat! o) (parseCont c) (nat! d))
  | ["cbo", a, id] => some (.cancelOffer (nat! a) (parseOrderId id).1 (parseOrderId id).2)
  | ["abo", a, id, m] => some (.acceptOffer (nat! a) (parseOrderId id).1 (parseOrderId id).2 (nat! m))
  | ["rollapp", a, c, h, l] => some (.createRollapp (nat! a) (nat! c) (nat! h) (nat! l))
  | ["alias", a, c, l, pay] => some (.registerAlias (nat! a) (nat! c) (nat! l) (nat! pay))
  | _ => none

def step (st : St) (f : List String) : St × String :=
  match f with
  | ["reset", nA, nN, nL, nR, grace, soDur, minOffer, inc, ext, ns, as_, now, tn, ta] =>
      let p : Params :=
        { tradeName := boolTok tn, tradeAlias := boolTok ta, grace := nat! grace, soDur := nat! soDur,
          minOffer := nat! minOffer, bidInc := nat! inc, priceExtends := nat! ext, nameSteps := natList ns,
          aliasSteps := natList as_, chainAliases := chainParams [] }
      ({ s := State.start p (nat! now), nA := nat! nA, nN := nat! nN, nL := nat! nL, nR := nat! nR }, "ok")
  | ["v"] => (st, view st)
  | ["own", a] => (st, natsOrDash (ownedBy st.s (nat! a)))
  | ["res", p, n, h] =>
      (st, match resolve st.s (nat! p) (nat! n) (parseHandle h) with
        | some a => addrStr a
        | none => "-")
  | ["rev", addr, wc] =>
      let l := (reverse st.s (parseAddr addr) (nat! wc)).map (fun (p, n, h) => s!"{p}.{n}@{handleStr h}")
      (st, if l.isEmpty then "-" else join " " (strsSorted (dedup l)))
  | ["bon", n] =>
      let ids := (st.s.boName.lookup (nat! n)).filterMap (fun id => (AMap.get st.s.bos id).map (fun bo => boIdStr bo id))
      (st, if ids.isEmpty then "-" else join "," (strsSorted ids))
  | ["bol", l] =>
      let ids := (st.s.boAlias.lookup (nat! l)).filterMap (fun id => (AMap.get st.s.bos id).map (fun bo => boIdStr bo id))
      (st, if ids.isEmpty then "-" else join "," (strsSorted ids))
  | ["bob", a] =>
      let ids := (st.s.boBuyer.lookup (nat! a)).filterMap (fun id =>
        match AMap.get st.s.bos id with
        | some bo => if bo.buyer = nat! a then some (boIdStr bo id) else none
        | none => none)
      (st, if ids.isEmpty then "-" else join "," (strsSorted ids))
  | _ =>
      match parseOp f with
      | none => (st, "bad-op")
      | some op =>
        match exec st.s op with
        | .ok s' => ({ st with s := s' }, "ok")
        | .error e => (st, e.str)

def drv : Drv := { σ := St, init := { s := State.init, nA := 0, nN := 0, nL := 0, nR := 0 }, step := step }

end DymVerif.Driver.C17
