/-
  Driver/C13 — replays C13 op lines on M-IRO.  The curve oracle values recorded by the harness from
  the real code come on the op line after a `|` token as `x:I(x)` pairs (and `s:p:T(s,p)` triples);
  the driver keeps them in a table per trace, checks FUNCTIONAL CONSISTENCY (same argument ⇒ same
  value, else the observation is `oracle-inconsistent`), checks that every value the model needs for
  this op is present (`oracle-missing`), and recomputes all scaling / truncation / fee / bookkeeping
  through `Iro.step`.

  Many plans (Model/IroPlans): the driver state is an `MState`; `reset … | <base>` starts on a store
  that already holds `base` plans; `newra` / `sel k` / `restart` are the multi-plan ops; every other
  line is a message for the current slot (`MOp.on`).  Each slot has its own curve, hence its own
  oracle tables.  The observation is prefixed by `<cur> <plan id|-> <LastPlanId> <#plans> ;` and
  `restart` shows every slot.  An executed exact-spend purchase (`bes … ok`) additionally shows
  ` nu=<0|1> nl=<0|1>`: the pointwise Newton contract at the purchase (`newtonUpperAtB`,
  `newtonLowerAtB` with `newtonTolRaw`), which the harness recomputes from the real code's values.
-/
import DymVerif.Driver.Common
import DymVerif.Model.IroPlans
import DymVerif.Model.IroNewton
namespace DymVerif.Driver.C13
open DymVerif DymVerif.Iro DymVerif.IroPlans DymVerif.Driver

abbrev ITab := List (Int × Int)
abbrev TTab := List ((Int × Int) × Option Int)

structure DS where
  m : MState
  itabs : List (Nat × ITab) := []      -- per slot
  ttabs : List (Nat × TTab) := []

instance : Inhabited DS := ⟨{ m := minit default 0 }⟩

def lookupI (tab : ITab) (x : Int) : Option Int :=
  (tab.find? (fun p => p.1 == x)).map (·.2)
def lookupT (tab : TTab) (s p : Int) : Option (Option Int) :=
  (tab.find? (fun e => e.1.1 == s && e.1.2 == p)).map (·.2)

def itabOf (ds : DS) (k : Nat) : ITab := ((ds.itabs.find? (fun e => e.1 == k)).map (·.2)).getD []
def ttabOf (ds : DS) (k : Nat) : TTab := ((ds.ttabs.find? (fun e => e.1 == k)).map (·.2)).getD []
def setItab (ds : DS) (k : Nat) (t : ITab) : DS := { ds with itabs := (k, t) :: ds.itabs.filter (fun e => e.1 != k) }
def setTtab (ds : DS) (k : Nat) (t : TTab) : DS := { ds with ttabs := (k, t) :: ds.ttabs.filter (fun e => e.1 != k) }

def oracleI (tab : ITab) : Int → Int := fun x => (lookupI tab x).getD 0
def oracleT (tab : TTab) : Int → Int → Option Int :=
  fun s p => (lookupT tab s p).getD none

def oIs (ds : DS) : Nat → Int → Int := fun k => oracleI (itabOf ds k)
def oTs (ds : DS) : Nat → Int → Int → Option Int := fun k => oracleT (ttabOf ds k)

/-- parse the oracle tokens into the tables of slot `k`; `none` = inconsistent with the table -/
def addOracle (k : Nat) (ds : DS) : List String → Option DS
  | [] => some ds
  | tok :: rest =>
    match tok.splitOn ":" with
    | [x, v] =>
      let x := parseInt x; let v := parseInt v
      match lookupI (itabOf ds k) x with
      | some v' => if v' = v then addOracle k ds rest else none
      | none => addOracle k (setItab ds k ((x, v) :: itabOf ds k)) rest
    | [s, p, v] =>
      let s := parseInt s; let p := parseInt p
      let v : Option Int := if v = "err" then none else some (parseInt v)
      match lookupT (ttabOf ds k) s p with
      | some v' => if v' = v then addOracle k ds rest else none
      | none => addOracle k (setTtab ds k (((s, p), v) :: ttabOf ds k)) rest
    | _ => addOracle k ds rest

def b! (s : String) : Bool := s = "1" || s = "true"
def showB (b : Bool) : String := if b then "1" else "0"

def showState (st : State) : String :=
  let ps := match st.plan with
    | none => "-"
    | some p => s!"{p.sold} {p.claimed} {p.maxSell} {showB p.enabled} {p.startTime} {showB p.settled} {p.vest.amount} {p.vest.claimed} {p.vest.start} {p.vest.stop}"
  let accts := (List.range st.cfg.n).map (fun a => s!"{st.liq a},{st.iro a},{st.ra a}")
  s!"{ps} | {st.planLiq} {st.modIro} {st.modRa} o{st.owner} | {" ".intercalate accts}"

def showPid (m : MState) (k : Nat) : String :=
  match slotPlanId m k with
  | some id => toString id
  | none => "-"

def showM (m : MState) : String :=
  s!"{m.cur} {showPid m m.cur} {m.tab.lastPlanId} {m.tab.plans.length} ; {showState (m.slot m.cur)}"

/-- every slot (the observation of `restart`) -/
def showAll (m : MState) : String :=
  let parts := (List.range m.nslots).map (fun k => s!"[{k} {showPid m k} {showState (m.slot k)}]")
  s!"{m.cur} {m.tab.lastPlanId} {m.tab.plans.length} ; {" ".intercalate parts}"

/-- the oracle arguments the model reads for this op, from the model state -/
def needs (st : State) : Op → List Int × List (Int × Int)
  | .create _ m n c .. => if curveValid m n c then ([0, st.cfg.creationFee], []) else ([], [])
  | .buy _ amt _ => match st.plan with
      | some p => ([p.sold, p.sold + amt], [])
      | none => ([], [])
  | .sell _ amt _ => match st.plan with
      | some p => ([p.sold - amt, p.sold], [])
      | none => ([], [])
  | .bes _ spend _ => match st.plan with
      | some p => match applyTakerFee spend st.cfg.takerFee false with
        | some (net, _) =>
          if (scaleFromBase p.sold 18).raw < decP then ([], []) else ([], [((scaleFromBase p.sold 18).raw, (scaleFromBase net p.L).raw)])
        | none => ([], [])
      | none => ([], [])
  | _ => ([], [])

def parseOp : List String → Option Op
  | ["create", alloc, m, n, c, l, en, stt, pd, lp, vd, vs] =>
      some (.create (parseInt alloc) (parseInt m) (parseInt n) (parseInt c) (nat! l) (b! en) (parseInt stt) (parseInt pd) ⟨parseInt lp⟩ (parseInt vd) (parseInt vs))
  | ["time", dt] => some (.time (parseInt dt))
  | ["fund", a, amt] => some (.fund (nat! a) (parseInt amt))
  | ["buy", a, amt, mc] => some (.buy (nat! a) (parseInt amt) (parseInt mc))
  | ["bes", a, sp, mt] => some (.bes (nat! a) (parseInt sp) (parseInt mt))
  | ["sell", a, amt, mi] => some (.sell (nat! a) (parseInt amt) (parseInt mi))
  | ["enable", a] => some (.enable (nat! a))
  | ["claim", a] => some (.claim (nat! a))
  | ["claimv", a] => some (.claimv (nat! a))
  | ["xfer", a, b, amt] => some (.xfer (nat! a) (nat! b) (parseInt amt))
  | ["chown", a, b] => some (.chown (nat! a) (nat! b))
  | _ => none

def splitBar (f : List String) : List String × List String :=
  (f.takeWhile (· ≠ "|"), (f.dropWhile (· ≠ "|")).drop 1)

def mop (ds : DS) (o : MOp) (all : Bool := false) : DS × String :=
  let (m', e) := mstep (oIs ds) (oTs ds) ds.m o
  ({ ds with m := m' }, s!"{e.str} {if all then showAll m' else showM m'}")

def step (ds : DS) (f : List String) : DS × String :=
  let (main, orc) := splitBar f
  match main with
  | ["reset", tf, cf, mlp, mvd, mpd, fb, n, ga, ld] =>
    let cfg : Cfg := { takerFee := ⟨parseInt tf⟩, creationFee := parseInt cf, minLiqPart := ⟨parseInt mlp⟩,
                       minVestDur := parseInt mvd, minPlanDur := parseInt mpd, feeBase := b! fb, n := nat! n, genAlloc := parseInt ga, liqDec := nat! ld }
    let base := match orc with | [b] => nat! b | _ => 0
    ({ m := minit cfg base }, "ok")
  -- stateless sweep op: Newton contract data for one (L, sold, net spend)
  | ["xs", _, _, _, l, sold, net] =>
    match addOracle 0 { m := ds.m } orc with     -- own table: the sweep ranges over curves
    | none => (ds, "oracle-inconsistent")
    | some ds1 =>
      let L := nat! l; let sold := parseInt sold; let net := parseInt net
      let I := oracleI (itabOf ds1 0); let T := oracleT (ttabOf ds1 0)
      let out := match tokensForExactIn T L sold net with
        | some t =>
          if [sold, sold + t].any (fun x => (lookupI (itabOf ds1 0) x).isNone) then "oracle-missing"
          else s!"{t} {cost I L sold (sold + t)}"
        | none => "err"
      (ds, out)
  | ["newra"] => mop ds .newra
  | ["sel", k] => mop ds (.sel (nat! k))
  | ["restart"] => mop ds .restart true
  | "settle" :: rf :: [] =>
    let ok := match orc with | [x] => b! x | _ => true
    mop ds (.on (.settle (parseInt rf) ok))
  | _ =>
    match parseOp main with
    | none => (ds, "bad-op")
    | some op =>
      match addOracle ds.m.cur ds orc with
      | none => (ds, "oracle-inconsistent")
      | some ds1 =>
        let (ni, nt) := needs (ds1.m.slot ds1.m.cur) op
        if ni.any (fun x => (lookupI (itabOf ds1 ds1.m.cur) x).isNone) || nt.any (fun a => (lookupT (ttabOf ds1 ds1.m.cur) a.1 a.2).isNone) then
          (ds1, "oracle-missing")
        else
          let pre := ds1.m.slot ds1.m.cur
          let k := ds1.m.cur
          let (ds2, out) := mop ds1 (.on op)
          if !(out.startsWith "ok ") then (ds2, out) else
          match besPoint pre op with
          | none => (ds2, out)
          | some (L, sold, net) =>
            let I := oIs ds1 k; let T := oTs ds1 k
            match tokensForExactIn T L sold net with
            | none => (ds2, out ++ " nu=- nl=-")
            | some t =>
              if [sold, sold + t].any (fun x => (lookupI (itabOf ds1 k) x).isNone) then (ds2, "oracle-missing")
              else
                let s := (scaleFromBase sold 18).raw
                let pr := (scaleFromBase net L).raw
                (ds2, out ++ s!" nu={showB (newtonUpperAtB I T L sold net)} nl={showB (newtonLowerAtB I T (newtonTolRaw pr) s pr)}")

def drv : Drv := { σ := DS, init := default, step := step }

end DymVerif.Driver.C13
