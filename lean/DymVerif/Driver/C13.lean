/-
  Driver/C13 — replays C13 op lines on M-IRO.  The curve oracle values recorded by the harness from
  the real code come on the op line after a `|` token as `x:I(x)` pairs (and `s:p:T(s,p)` triples);
  the driver keeps them in a table per trace, checks FUNCTIONAL CONSISTENCY (same argument ⇒ same
  value, else the observation is `oracle-inconsistent`), checks that every value the model needs for
  this op is present (`oracle-missing`), and recomputes all scaling / truncation / fee / bookkeeping
  through `Iro.step`.
-/
import DymVerif.Driver.Common
import DymVerif.Model.Iro
namespace DymVerif.Driver.C13
open DymVerif DymVerif.Iro DymVerif.Driver

structure DS where
  st : State
  itab : List (Int × Int) := []
  ttab : List ((Int × Int) × Option Int) := []
  deriving Inhabited

def lookupI (tab : List (Int × Int)) (x : Int) : Option Int :=
  (tab.find? (fun p => p.1 == x)).map (·.2)
def lookupT (tab : List ((Int × Int) × Option Int)) (s p : Int) : Option (Option Int) :=
  (tab.find? (fun e => e.1.1 == s && e.1.2 == p)).map (·.2)

def oracleI (tab : List (Int × Int)) : Int → Int := fun x => (lookupI tab x).getD 0
def oracleT (tab : List ((Int × Int) × Option Int)) : Int → Int → Option Int :=
  fun s p => (lookupT tab s p).getD none

/-- parse the oracle tokens; `none` = inconsistent with the table -/
def addOracle (ds : DS) : List String → Option DS
  | [] => some ds
  | tok :: rest =>
    match tok.splitOn ":" with
    | [x, v] =>
      let x := parseInt x; let v := parseInt v
      match lookupI ds.itab x with
      | some v' => if v' = v then addOracle ds rest else none
      | none => addOracle { ds with itab := (x, v) :: ds.itab } rest
    | [s, p, v] =>
      let s := parseInt s; let p := parseInt p
      let v : Option Int := if v = "err" then none else some (parseInt v)
      match lookupT ds.ttab s p with
      | some v' => if v' = v then addOracle ds rest else none
      | none => addOracle { ds with ttab := ((s, p), v) :: ds.ttab } rest
    | _ => addOracle ds rest

def b! (s : String) : Bool := s = "1" || s = "true"
def showB (b : Bool) : String := if b then "1" else "0"

def showState (st : State) : String :=
  let ps := match st.plan with
    | none => "-"
    | some p => s!"{p.sold} {p.claimed} {p.maxSell} {showB p.enabled} {p.startTime} {showB p.settled} {p.vest.amount} {p.vest.claimed} {p.vest.start} {p.vest.stop}"
  let accts := (List.range st.cfg.n).map (fun a => s!"{st.liq a},{st.iro a},{st.ra a}")
  s!"{ps} | {st.planLiq} {st.modIro} {st.modRa} | {" ".intercalate accts}"

/-- the oracle arguments the model reads for this op, from the model state -/
def needs (st : State) : Op → List Int × List (Int × Int)
  | .create _ m n c .. => if curveValid m n c then ([0, st.cfg.creationFee], []) else ([], [])
  | .buy _ amt _ => match st.plan with
      | some p => ([p.sold, p.sold + amt], [])
      | none => ([], [])
  | .sell _ amt _ => match st.plan with
      | some p => ([p.sold - amt, p.sold], [])
      | none => ([], [])
  | .bes _ spend _ => match st.plan with
      | some p => match applyTakerFee spend st.cfg.takerFee false with
        | some (net, _) =>
          if (scaleFromBase p.sold 18).raw < decP then ([], []) else ([], [((scaleFromBase p.sold 18).raw, (scaleFromBase net p.L).raw)])
        | none => ([], [])
      | none => ([], [])
  | _ => ([], [])

def parseOp : List String → Option Op
  | ["create", alloc, m, n, c, l, en, stt, pd, lp, vd, vs] =>
      some (.create (parseInt alloc) (parseInt m) (parseInt n) (parseInt c) (nat! l) (b! en) (parseInt stt) (parseInt pd) ⟨parseInt lp⟩ (parseInt vd) (parseInt vs))
  | ["time", dt] => some (.time (parseInt dt))
  | ["fund", a, amt] => some (.fund (nat! a) (parseInt amt))
  | ["buy", a, amt, mc] => some (.buy (nat! a) (parseInt amt) (parseInt mc))
  | ["bes", a, sp, mt] => some (.bes (nat! a) (parseInt sp) (parseInt mt))
  | ["sell", a, amt, mi] => some (.sell (nat! a) (parseInt amt) (parseInt mi))
  | ["enable", a] => some (.enable (nat! a))
  | ["claim", a] => some (.claim (nat! a))
  | ["claimv", a] => some (.claimv (nat! a))
  | ["xfer", a, b, amt] => some (.xfer (nat! a) (nat! b) (parseInt amt))
  | _ => none

def splitBar (f : List String) : List String × List String :=
  (f.takeWhile (· ≠ "|"), (f.dropWhile (· ≠ "|")).drop 1)

def step (ds : DS) (f : List String) : DS × String :=
  let (main, orc) := splitBar f
  match main with
  | ["reset", tf, cf, mlp, mvd, mpd, fb, n, ga, ld] =>
    let cfg : Cfg := { takerFee := ⟨parseInt tf⟩, creationFee := parseInt cf, minLiqPart := ⟨parseInt mlp⟩,
                       minVestDur := parseInt mvd, minPlanDur := parseInt mpd, feeBase := b! fb, n := nat! n, genAlloc := parseInt ga, liqDec := nat! ld }
    ({ st := init cfg }, "ok")
  -- stateless sweep op: Newton contract data for one (L, sold, net spend)
  | ["xs", _, _, _, l, sold, net] =>
    match addOracle { st := ds.st } orc with     -- own table: the sweep ranges over curves
    | none => (ds, "oracle-inconsistent")
    | some ds1 =>
      let L := nat! l; let sold := parseInt sold; let net := parseInt net
      let I := oracleI ds1.itab; let T := oracleT ds1.ttab
      let out := match tokensForExactIn T L sold net with
        | some t =>
          if [sold, sold + t].any (fun x => (lookupI ds1.itab x).isNone) then "oracle-missing"
          else s!"{t} {cost I L sold (sold + t)}"
        | none => "err"
      (ds, out)
  | "settle" :: rf :: [] =>
    let ok := match orc with | [x] => b! x | _ => true
    let (st', e) := Iro.step (oracleI ds.itab) (oracleT ds.ttab) ds.st (.settle (parseInt rf) ok)
    ({ ds with st := st' }, s!"{e.str} {showState st'}")
  | _ =>
    match parseOp main with
    | none => (ds, "bad-op")
    | some op =>
      match addOracle ds orc with
      | none => (ds, "oracle-inconsistent")
      | some ds1 =>
        let (ni, nt) := needs ds1.st op
        if ni.any (fun x => (lookupI ds1.itab x).isNone) || nt.any (fun a => (lookupT ds1.ttab a.1 a.2).isNone) then
          (ds1, "oracle-missing")
        else
          let (st', e) := Iro.step (oracleI ds1.itab) (oracleT ds1.ttab) ds1.st op
          ({ ds1 with st := st' }, s!"{e.str} {showState st'}")

def drv : Drv := { σ := DS, init := { st := init default }, step := step }

end DymVerif.Driver.C13
