import DymVerif.Driver.Common
import DymVerif.Base.Dec
namespace DymVerif.Driver.DecDrv
open DymVerif DymVerif.Driver

def step (_ : Unit) (f : List String) : Unit × String :=
  ((), match f with
  | [op, a, b] =>
    let x : Dec := ⟨parseInt a⟩
    let y : Dec := ⟨parseInt b⟩
    match op with
    | "mul" => toString (x.mul y).raw
    | "multrunc" => toString (x.mulTruncate y).raw
    | "mulroundup" => toString (x.mulRoundUp y).raw
    | "mulint" => toString (x.mulInt (parseInt b)).raw
    | "quo" => if y.raw = 0 then "panic" else toString (x.quo y).raw
    | "quotrunc" => if y.raw = 0 then "panic" else toString (x.quoTruncate y).raw
    | "quoroundup" => if y.raw = 0 then "panic" else toString (x.quoRoundUp y).raw
    | "quoint" => if parseInt b = 0 then "panic" else toString (x.quoInt (parseInt b)).raw
    | _ => "bad-op"
  | [op, a] =>
    let x : Dec := ⟨parseInt a⟩
    match op with
    | "truncint" => toString x.truncateInt
    | "roundint" => toString x.roundInt
    | "ceil" => toString x.ceil.raw
    | _ => "bad-op"
  | _ => "bad-op")

def drv : Drv := { σ := Unit, init := (), step := step }
end DymVerif.Driver.DecDrv
