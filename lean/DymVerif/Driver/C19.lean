import DymVerif.Driver.Common
import DymVerif.Gen.Keys
namespace DymVerif.Driver.C19
open DymVerif DymVerif.Keys DymVerif.Driver

def status! (s : String) : Status := if s = "0" then .pending else .finalized
def ptype! (s : String) : PType :=
  match s with
  | "0" => .onRecv | "1" => .onAck | "2" => .onTimeout | _ => .undefined
def hex! (s : String) : Bytes := (ofHex s).getD []

/-- packet key from six fields — through the *generated* translation of `RollappPacketKey` -/
def pkey (f : List String) : Bytes :=
  match f with
  | [st, r, h, t, c, s] => Gen.Keys.rollappPacketKey (status! st) (hex! r) (nat! h) (ptype! t) (hex! c) (nat! s)
  | _ => []

def cmp (a b : Bytes) : String :=
  if lexLt a b then "-1" else if lexLt b a then "1" else "0"

def step (_ : Unit) (f : List String) : Unit × String :=
  ((), match f with
  | ["be64", n] => toHexD (be64 (nat! n))
  | ["lex", a, b] => cmp (hex! a) (hex! b)
  | ["b64enc", a] => toHexD (encodePacketKey (hex! a))
  | ["b64dec", a] =>
      match Gen.Keys.decodePacketKey (hex! a) with
      | some b => "ok " ++ toHexD b
      | none => "err"
  | "pkey" :: rest => toHexD (pkey rest)
  | "rt" :: rest =>
      match Gen.Keys.decodePacketKey (encodePacketKey (pkey rest)) with
      | some b => "ok " ++ toHexD b
      | none => "err"
  | "rmax" :: r :: m :: rest =>
      let rg := Gen.Keys.pendingByMaxHeightRange (hex! r) (nat! m)
      toString (inRange rg.1 rg.2 (pkey rest))
  | "rfrom" :: r :: m :: rest =>
      let rg := Gen.Keys.pendingFromHeightRange (hex! r) (nat! m)
      toString (inRange rg.1 rg.2 (pkey rest))
  | "scan" :: st :: r :: rest =>
      toString (isPrefix (Gen.Keys.rollappPacketByStatusByRollappIDPrefix (status! st) (hex! r)) (pkey rest))
  | ["dokey", st, i] => toHexD (Gen.Keys.getDemandOrderKey (status! st) (hex! i))
  | ["livkey", h, r] => toHexD (Gen.Keys.livenessEventQueueKey (nat! h) (hex! r))
  | ["livrt", h, r] =>
      let e := livenessKeyToEvent (Gen.Keys.livenessEventQueueKey (nat! h) (hex! r))
      s!"{e.1} {toHexD e.2}"
  | ["seqkey", r, a, st] =>
      toHexD (Gen.Keys.sequencerByRollappByStatusKey (hex! r) (hex! a) (if st = "1" then .bonded else .unbonded))
  | ["seqscan", r, r', a, st] =>
      toString (isPrefix (Gen.Keys.sequencersByRollappKey (hex! r))
        (Gen.Keys.sequencerByRollappByStatusKey (hex! r') (hex! a) (if st = "1" then .bonded else .unbonded)))
  | _ => "bad-op")

def drv : Drv := { σ := Unit, init := (), step := step }

end DymVerif.Driver.C19
