import DymVerif.Driver.Common
import DymVerif.Gen.Keys
import DymVerif.Driver.C19Coll
import DymVerif.Driver.C19X
import DymVerif.Driver.C19Addr
namespace DymVerif.Driver.C19
open DymVerif DymVerif.Keys DymVerif.Driver

def status! (s : String) : Status := if s = "0" then .pending else .finalized
def ptype! (s : String) : PType :=
  match s with
  | "0" => .onRecv | "1" => .onAck | "2" => .onTimeout | _ => .undefined
def hex! (s : String) : Bytes := (ofHex s).getD []

/-- packet key from six fields — through the *generated* translation of `RollappPacketKey` -/
def pkey (f : List String) : Bytes :=
  match f with
  | [st, r, h, t, c, s] => Gen.Keys.rollappPacketKey (status! st) (hex! r) (nat! h) (ptype! t) (hex! c) (nat! s)
  | _ => []

/-- seven decimal tokens → calendar fields -/
def timeF! (f : List String) : TimeF :=
  match f with
  | [y, mo, d, h, mi, s, ns] => ⟨nat! y, nat! mo, nat! d, nat! h, nat! mi, nat! s, nat! ns⟩
  | _ => ⟨0, 0, 0, 0, 0, 0, 0⟩

/-- the op line carries calendar fields; a tuple that is not a calendar date (Go's `time.Date` would
    normalise it to another one) is answered `invalid-date` by both sides (proleptic Gregorian rule) -/
def validDate (t : TimeF) : Bool :=
  let leap := (t.Y % 4 == 0 && t.Y % 100 != 0) || t.Y % 400 == 0
  let dim := if t.M == 2 then (if leap then 29 else 28)
    else if t.M == 4 || t.M == 6 || t.M == 9 || t.M == 11 then 30 else 31
  1 ≤ t.M && t.M ≤ 12 && 1 ≤ t.D && t.D ≤ dim && t.h < 24 && t.m < 60 && t.s < 60 && t.ns < 1000000000

def atype! (s : String) : AssetType := if s = "2" then .alias else .name

def int! (s : String) : Int :=
  if s.startsWith "-" then -((nat! (s.drop 1).toString : Nat) : Int) else ((nat! s : Nat) : Int)

def bool! (s : String) : Bool := s = "1"

/-- comma separated hex list; "-" = empty list -/
def hexList! (s : String) : List Bytes := if s = "-" then [] else (s.splitOn ",").map hex!

/-- the hub's address verifier (app/params/config.go): account addresses are 20 or 32 bytes; the real
    key builders decode the owner from bech32 and fail otherwise -/
def okOwner (a : Bytes) : Bool := a.length == 20 || a.length == 32

def inO (rg : Bytes × Option Bytes) (k : Bytes) : String := toString (inRangeO rg.1 rg.2 k)

/-- the lockup scans of iterator.go: bounds from the first group of tokens, one stored entry from the second -/
def lkscan (f : List String) : String :=
  match f with
  | "matured" :: y :: mo :: d :: h :: mi :: s :: ns :: "|" :: rest =>
      let T := timeF! [y, mo, d, h, mi, s, ns]
      let t := timeF! (rest.take 7)
      let id := nat! ((rest.drop 7).headD "0")
      if validDate T && validDate t then
        inO (iterBeforeTime (lkFamilyPrefix true 11 []) T) (lockRefStoreKey true (combineKeys [[11], lkTimeKey t]) id)
      else "invalid-date"
  | "accbefore" :: a :: y :: mo :: d :: h :: mi :: s :: ns :: "|" :: b :: rest =>
      let T := timeF! [y, mo, d, h, mi, s, ns]
      let t := timeF! (rest.take 7)
      let id := nat! ((rest.drop 7).headD "0")
      if !okOwner (hex! b) then "err" else
      if validDate T && validDate t then
        inO (iterBeforeTime (lkFamilyPrefix true 12 [hex! a]) T)
          (lockRefStoreKey true (combineKeys [[12], hex! b, lkTimeKey t]) id)
      else "invalid-date"
  | "denafter" :: a :: y :: mo :: d :: h :: mi :: s :: ns :: "|" :: b :: rest =>
      let T := timeF! [y, mo, d, h, mi, s, ns]
      let t := timeF! (rest.take 7)
      let id := nat! ((rest.drop 7).headD "0")
      if validDate T && validDate t then
        inO (iterAfterTime (lkFamilyPrefix true 13 [hex! a]) T)
          (lockRefStoreKey true (combineKeys [[13], hex! b, lkTimeKey t]) id)
      else "invalid-date"
  | ["denlonger", u, a, d, "|", b, d', id] =>
      inO (iterLongerDuration (lkFamilyPrefix (bool! u) 9 [hex! a]) (int! d))
        (lockRefStoreKey (bool! u) (combineKeys [[9], hex! b, lkDurationKey (int! d')]) (nat! id))
  | ["accall", u, a, "|", b, d', id] =>
      if !okOwner (hex! b) then "err" else
      inO (iterPrefix (lkFamilyPrefix (bool! u) 8 [hex! a]))
        (lockRefStoreKey (bool! u) (combineKeys [[8], hex! b, lkDurationKey (int! d')]) (nat! id))
  | ["accdur", u, a, d, "|", b, d', id] =>
      if !okOwner (hex! b) then "err" else
      inO (iterDuration (lkFamilyPrefix (bool! u) 8 [hex! a]) (int! d))
        (lockRefStoreKey (bool! u) (combineKeys [[8], hex! b, lkDurationKey (int! d')]) (nat! id))
  | ["accshorter", u, a, d, "|", b, d', id] =>
      if !okOwner (hex! b) then "err" else
      inO (iterShorterDuration (lkFamilyPrefix (bool! u) 8 [hex! a]) (int! d))
        (lockRefStoreKey (bool! u) (combineKeys [[8], hex! b, lkDurationKey (int! d')]) (nat! id))
  | ["denall", u, a, "|", b, d', id] =>
      inO (iterPrefix (lkFamilyPrefix (bool! u) 9 [hex! a]))
        (lockRefStoreKey (bool! u) (combineKeys [[9], hex! b, lkDurationKey (int! d')]) (nat! id))
  | _ => "bad-op"

/-- the lockup scans of the third pass: `<kind> <u> <A> <dn> <d> <T…7> | <u'> <fi> <B> <dn'> <d'> <t…7> <id>`;
    the entry is the `fi`-th reference key of a one-denom lock (any family: 0..3 = 0x07..0x0A by
    duration, 4..7 = 0x0B..0x0E by time), filed under unlocking status `u'` -/
def lkscan2 (f : List String) : String :=
  match f with
  | kind :: u :: a :: dn :: d :: y :: mo :: dd :: h :: mi :: s :: ns :: "|" :: u' :: fi :: b :: dn' :: d' :: rest =>
      let T := timeF! [y, mo, dd, h, mi, s, ns]
      let t := timeF! (rest.take 7)
      let id := nat! ((rest.drop 7).headD "0")
      let l : LockK := ⟨hex! b, int! d', t, [hex! dn']⟩
      if !(validDate T && validDate t) then "invalid-date" else
      if !okOwner l.owner then "err" else
      match (if bool! u' then lockRefKeys l else durationLockRefKeys l)[nat! fi]? with
      | none => "err"
      | some rk =>
        let k := lockRefStoreKey (bool! u') rk id
        let A := hex! a
        let D := hex! dn
        match kind with
        | "all" => inO (iterPrefix (lkFamilyPrefix (bool! u) 7 [])) k
        | "after" => inO (iterAfterTime (lkFamilyPrefix true 11 []) T) k
        | "accafter" => inO (iterAfterTime (lkFamilyPrefix true 12 [A]) T) k
        | "acclonger" => inO (iterLongerDuration (lkFamilyPrefix (bool! u) 8 [A]) (int! d)) k
        | "accdenafter" => inO (iterAfterTime (lkFamilyPrefix true 14 [A, D]) T) k
        | "accdenlonger" => inO (iterLongerDuration (lkFamilyPrefix (bool! u) 10 [A, D]) (int! d)) k
        | "accdendur" => inO (iterDuration (lkFamilyPrefix (bool! u) 10 [A, D]) (int! d)) k
        | _ => "bad-op"
  | _ => "bad-op"

/-- dnkey <family> <component hex>: through the generated translations of the x/dymns key builders -/
def dnkey (fam : String) (c : Bytes) : Bytes :=
  match fam with
  | "0" => Gen.Keys.dymNameKey c
  | "1" => Gen.Keys.dymNamesOwnedByAccountRvlKey c
  | "2" => Gen.Keys.configuredAddressToDymNamesIncludeRvlKey c
  | "3" => Gen.Keys.fallbackAddressToDymNamesIncludeRvlKey c
  | "4" => Gen.Keys.sellOrderKey c .name
  | "5" => Gen.Keys.sellOrderKey c .alias
  | "6" => Gen.Keys.keyCountBuyOrders
  | "7" => Gen.Keys.buyOrderKey c
  | "8" => Gen.Keys.buyerToOrderIdsRvlKey c
  | "9" => Gen.Keys.dymNameToBuyOrderIdsRvlKey c
  | "10" => Gen.Keys.aliasToBuyOrderIdsRvlKey c
  | "11" => Gen.Keys.rollAppIdToAliasesKey c
  | _ => Gen.Keys.aliasToRollAppIdRvlKey c

def dnKeyOf (fam : String) (c : Bytes) : DymnsKey :=
  match fam with
  | "0" => .dymName c | "1" => .ownedBy c | "2" => .cfgAddr c | "3" => .fallback c
  | "4" => .sellOrder c .name | "5" => .sellOrder c .alias | "6" => .countBuyOrders | "7" => .buyOrder c
  | "8" => .buyer c | "9" => .nameToBuyOrders c | "10" => .aliasToBuyOrders c | "11" => .rollappToAliases c
  | _ => .aliasToRollapp c

def optHex (o : Option Bytes) : String := match o with | none => "nil" | some b => toHexD b

def cmp (a b : Bytes) : String :=
  if lexLt a b then "-1" else if lexLt b a then "1" else "0"

def step (_ : Unit) (f : List String) : Unit × String :=
  ((), match f with
  | ["be64", n] => toHexD (be64 (nat! n))
  | ["lex", a, b] => cmp (hex! a) (hex! b)
  | ["b64enc", a] => toHexD (encodePacketKey (hex! a))
  | ["b64dec", a] =>
      match Gen.Keys.decodePacketKey (hex! a) with
      | some b => "ok " ++ toHexD b
      | none => "err"
  | "pkey" :: rest => toHexD (pkey rest)
  | "rt" :: rest =>
      match Gen.Keys.decodePacketKey (encodePacketKey (pkey rest)) with
      | some b => "ok " ++ toHexD b
      | none => "err"
  | "evrt" :: rest =>
      -- the event carries the standard base64 text of the key (`encodePacketKey`), which decodes back
      match Gen.Keys.decodePacketKey (encodePacketKey (pkey rest)) with
      | some b => "ok " ++ toHexD (encodePacketKey (pkey rest)) ++ " " ++ toHexD b
      | none => "err " ++ toHexD (encodePacketKey (pkey rest))
  | "rmax" :: r :: m :: rest =>
      let rg := Gen.Keys.pendingByMaxHeightRange (hex! r) (nat! m)
      toString (inRange rg.1 rg.2 (pkey rest))
  | "rfrom" :: r :: m :: rest =>
      let rg := Gen.Keys.pendingFromHeightRange (hex! r) (nat! m)
      toString (inRange rg.1 rg.2 (pkey rest))
  | "scan" :: st :: r :: rest =>
      toString (isPrefix (Gen.Keys.rollappPacketByStatusByRollappIDPrefix (status! st) (hex! r)) (pkey rest))
  | ["dokey", st, i] => toHexD (Gen.Keys.getDemandOrderKey (status! st) (hex! i))
  | ["livkey", h, r] => toHexD (Gen.Keys.livenessEventQueueKey (nat! h) (hex! r))
  | ["livrt", h, r] =>
      let e := livenessKeyToEvent (Gen.Keys.livenessEventQueueKey (nat! h) (hex! r))
      s!"{e.1} {toHexD e.2}"
  | ["seqkey", r, a, st] =>
      toHexD (Gen.Keys.sequencerByRollappByStatusKey (hex! r) (hex! a) (if st = "1" then .bonded else .unbonded))
  | ["seqscan", r, r', a, st] =>
      toString (isPrefix (Gen.Keys.sequencersByRollappKey (hex! r))
        (Gen.Keys.sequencerByRollappByStatusKey (hex! r') (hex! a) (if st = "1" then .bonded else .unbonded)))
  | "tfmt" :: _off :: rest =>
      let t := timeF! rest
      if validDate t then toHexD (fmtTime t) else "invalid-date"
  | "tcmp" :: y :: mo :: d :: h :: mi :: s :: ns :: rest =>
      let a := timeF! [y, mo, d, h, mi, s, ns]
      let b := timeF! rest
      if validDate a && validDate b then
        s!"{cmp (Gen.Keys.noticeQueueByTimeKey a) (Gen.Keys.noticeQueueByTimeKey b)} {cmp a.fields b.fields}"
      else "invalid-date"
  | "nqkey" :: a :: rest =>
      let t := timeF! rest
      if validDate t then toHexD (Gen.Keys.noticeQueueBySeqTimeKey (hex! a) t) else "invalid-date"
  | "nqscan" :: y :: mo :: d :: h :: mi :: s :: ns :: a :: rest =>
      let T := timeF! [y, mo, d, h, mi, s, ns]
      let t := timeF! rest
      if validDate T && validDate t then
        let rg := noticeQueueRange T
        toString (inRangeO rg.1 rg.2 (Gen.Keys.noticeQueueBySeqTimeKey (hex! a) t))
      else "invalid-date"
  | ["nqother", y, mo, d, h, mi, s, ns, k] =>
      let T := timeF! [y, mo, d, h, mi, s, ns]
      if validDate T then
        let rg := noticeQueueRange T
        toString (inRangeO rg.1 rg.2 (hex! k))
      else "invalid-date"
  | ["pend", p] => optHex (prefixEnd (hex! p))
  | ["sqkeys", a] =>
      s!"{toHexD (Gen.Keys.sequencerKey (hex! a))} {toHexD (Gen.Keys.proposerByRollappKey (hex! a))} {toHexD (Gen.Keys.successorByRollappKey (hex! a))}"
  | ["dec", n] => toHexD (decStr (nat! n))
  | ["pu64", a] => (match parseU64 (hex! a) with | some v => s!"ok {v}" | none => "err")
  | ["boid", t, n] => (match createBuyOrderId (atype! t) (nat! n) with | some b => toHexD b | none => "panic")
  | ["bovalid", a] =>
      let v := toString (isValidBuyOrderId (hex! a))
      (match parseBuyOrderId (hex! a) with
       | none => v ++ " invalid invalid"
       | some (.name, _) => v ++ " pass mismatch"
       | some (.alias, _) => v ++ " mismatch pass")
  | ["irodenom", r] => toHexD (Gen.Keys.iRODenom (hex! r))
  | ["irofrom", d] => optHex (rollappIDFromIRODenom (hex! d))
  | ["plankey", n] => toHexD (Gen.Keys.planKey (decStr (nat! n)))
  | ["planrkey", r] => toHexD (Gen.Keys.plansByRollappKey (hex! r))
  | "lkcomb" :: parts => toHexD (combineKeys (parts.map hex!))
  | "lktime" :: rest =>
      let t := timeF! rest
      if validDate t then toHexD (lkTimeKey t) else "invalid-date"
  | ["lkdur", d] => toHexD (lkDurationKey (int! d))
  | "lkrefs" :: u :: owner :: dur :: y :: mo :: d :: h :: mi :: sc :: ns :: dns :: id :: [] =>
      let t := timeF! [y, mo, d, h, mi, sc, ns]
      let l : LockK := ⟨hex! owner, int! dur, t, hexList! dns⟩
      if !validDate t then "invalid-date" else if !okOwner l.owner then "err" else
        let ks := if bool! u then lockRefKeys l else durationLockRefKeys l
        ",".intercalate (ks.map fun k => toHexD (lockRefStoreKey (bool! u) k (nat! id)))
  | "lkscan" :: rest => lkscan rest
  | "lkscan2" :: rest => lkscan2 rest
  | ["dnkey", fam, c] => toHexD (dnkey fam (hex! c))
  | ["dncmp", fa, ca, fb, cb] =>
      -- equality of two keys, and whether a whole-family scan with a's family prefix returns b's key
      let a := dnKeyOf fa (hex! ca)
      let b := dnKeyOf fb (hex! cb)
      s!"{decide (a.bytes = b.bytes)} {isPrefix a.familyPrefix b.bytes}"
  | _ => (((C19Coll.step f).orElse fun _ => C19X.step f).orElse fun _ => C19Addr.step f).getD "bad-op")

def drv : Drv := { σ := Unit, init := (), step := step }

end DymVerif.Driver.C19
