/-
  Driver/Common — line-protocol plumbing shared by all model drivers (core Lean only).
  A driver is an initial state and a step function from (state, op line) to (state, observation).
-/
namespace DymVerif.Driver

structure Drv where
  σ : Type
  init : σ
  step : σ → List String → σ × String

def fields (line : String) : List String :=
  (line.splitOn " ").filter (· ≠ "")

partial def loop (h : IO.FS.Stream) (out : IO.FS.Stream) (d : Drv) (s : d.σ) : IO Unit := do
  let line ← h.getLine
  if line.isEmpty then
    out.flush
    return ()
  let l := (line.dropRightWhile (fun c => c = '\n' || c = '\r'))
  let (s', o) := d.step s (fields l)
  out.putStrLn o
  loop h out d s'

def run (d : Drv) : IO Unit := do
  let i ← IO.getStdin
  let o ← IO.getStdout
  loop i o d d.init

def nat! (s : String) : Nat := s.toNat?.getD 0

end DymVerif.Driver
