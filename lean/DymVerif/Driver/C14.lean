import DymVerif.Driver.Common
import DymVerif.Base.Dec
import DymVerif.Model.Lockup
import DymVerif.Model.LockupChain
import DymVerif.Model.LockupRefs
/-
  Driver/C14 — line protocol over M-Lockup.

    reset <minDur> <fee> <allowed a,b|-> <nActors> <nDenoms> <feeDenom> <probe durations p,q,..>
    fund <a> <d> <amt>
    lock <a> <d> <amt> <dur>            (amt, dur may be <= 0: ValidateBasic rejects)
    unlock <a> <id> (- | <d> <amt>)
    extend <a> <id> <dur>
    force <a> <id> (- | <d> <amt>)
    begin <dt>
    end
    restart                             (ExportGenesis -> InitGenesis on a fresh application: `Lockup.restart`)
    setparams <minDur> <fee> <allowed a,b|->   (params subspace: `Lockup.setParams`)

  Every op goes through `Lockup.rcstep` (Model/LockupRefs): the parameters and the lock-reference store
  are part of the state; the lock table, balances … it computes are those of `Lockup.cstep`
  (Props/C14Refs `refs_machine_is_lockup`).  No actor of a trace is a blocked bank recipient.

  Observation = `<out> L=… last=… M=… B=… Q=… A=… S=… W=… O=… U=… t=… h=… P=… G=… I=…` (see `render`):
  locks (by-id queries), last id, module balances, actor balances, lock ids by account, accumulation
  at the probe durations, Σ locks per denom, Σ locks per denom with duration >= probe, Σ locks per
  owner and denom, ids of the locks that are due now, the parameters in force
  (minDur:fee:allow-list), the ids of `GetPeriodLocks` in reference-walk order (`exportGenesis`),
  the ids the end-time iterator of the EndBlocker yields; then the index-driven answers of the
  reference store: `R=` number of reference keys, `Iw=` the end-time walk in its own order, `Gw=`
  `GetPeriodLocks` by the reference walk, `H=` per lock `id>ids` of
  GetAccountLockedDurationNotUnlockingOnly(owner, denom, duration), `AL= AU= AW=` account locked /
  unlocking / unlockable coins, `LD=` GetLocksLongerThanDurationDenom per denom and every third probe.
-/
namespace DymVerif.Driver.C14
open DymVerif DymVerif.Driver DymVerif.Lockup

structure St where
  p : Params
  s : State
  refs : Refs := []
  nA : Nat
  nD : Nat
  probes : List Nat

def st0 : St :=
  { p := ⟨0, 0, [], 0⟩, s := init (fun _ _ => 0) 0 1, nA := 0, nD := 0, probes := [] }

def csvNats (s : String) : List Nat :=
  if s = "-" then [] else (s.splitOn ",").map nat!

/-- signed decimal clamped at 0 (ValidateBasic treats every value <= 0 alike) -/
def natClamp (s : String) : Nat := (parseInt s).toNat

def errStr : Err → String
  | .invalid => "invalid" | .belowMin => "below-min" | .feeFunds => "fee-funds" | .funds => "funds"
  | .notFound => "not-found" | .notOwner => "not-owner" | .exceeds => "exceeds"
  | .alreadyUnlocking => "already-unlocking" | .notAllowed => "not-allowed"
  | .durNotGreater => "dur-not-greater" | .isUnlocking => "is-unlocking" | .modFunds => "mod-funds"

def outStr : Out → String
  | .ok id => s!"ok:{id}"
  | .err e => "err:" ++ errStr e
  | .panic => "panic"

def join (sep : String) (xs : List String) : String :=
  if xs.isEmpty then "-" else sep.intercalate xs

def lockStr (l : Lock) : String :=
  let e := match l.endTime with | none => "-" | some t => toString t
  s!"{l.id}:{l.owner}:{l.duration}:{e}:{l.denom}:{l.amount}"

def faultStr : RFault → String
  | .refClash => "ref-clash" | .dangling => "dangling-ref" | .blocked => "blocked-recipient"

def routStr : ROut → String
  | .out o => outStr o
  | .fault f => "fault:" ++ faultStr f

def idsStr (o : Option (List Lock)) : String :=
  match o with
  | none => "panic"
  | some ls => join "." (ls.map (fun l => toString l.id))

def optNat (o : Option Nat) : String :=
  match o with
  | none => "panic"
  | some n => toString n

/-- the index-driven answers (Model/LockupRefs) -/
def renderRefs (x : St) : String :=
  let rs : RState := ⟨x.s, x.refs⟩
  let acts := List.range x.nA
  let dens := List.range x.nD
  let Iw := join "." ((maturedWalk x.refs x.s.now).map toString)
  let Gw := idsStr (periodLocksR rs)
  let H := join "," (x.s.locks.map (fun l =>
    s!"{l.id}>{idsStr (accountLockedDurationNotUnlockingOnly rs l.owner l.denom l.duration)}"))
  let AL := join ";" (acts.map (fun a => join "," (dens.map (fun d => optNat (accountLockedCoinsR rs a d)))))
  let AU := join ";" (acts.map (fun a => join "," (dens.map (fun d => optNat (accountUnlockingCoinsR rs a d)))))
  let AW := join ";" (acts.map (fun a => join "," (dens.map (fun d => optNat (accountUnlockableCoinsR rs a d)))))
  let third := (x.probes.zipIdx.filter (fun pi => pi.2 % 3 == 0)).map (·.1)
  let LD := join ";" (dens.map (fun d => join "," (third.map (fun k =>
    match locksLongerThanDurationDenomR rs d k with
    | none => "panic"
    | some ls => join "." ((Genesis.sortBy Genesis.ltNat (ls.map (·.id))).map toString)))))
  s!" R={x.refs.length} Iw={Iw} Gw={Gw} H={H} AL={AL} AU={AU} AW={AW} LD={LD}"

def render (x : St) (o : ROut) : String :=
  let s := x.s
  let acts := List.range x.nA
  let dens := List.range x.nD
  let L := join "," (s.locks.map lockStr)
  let M := join "," (dens.map (fun d => toString (s.modBal d)))
  let B := join ";" (acts.map (fun a => join "," (dens.map (fun d => toString (s.bal a d)))))
  let Q := join ";" (acts.map (fun a => join "." ((s.locks.filter (fun l => l.owner == a)).map (fun l => toString l.id))))
  let A := join ";" (dens.map (fun d => join "," (x.probes.map (fun k => toString (accQuery s.acc d k)))))
  -- the sums the theorems are stated with, compared with the harness's own sums over the stored locks
  let S := join "," (dens.map (fun d => toString (lockedDenom s.locks d)))
  let W := join ";" (dens.map (fun d => join "," (x.probes.map (fun k => toString (lockedLonger s.locks d k)))))
  let O := join ";" (acts.map (fun a => join "," (dens.map (fun d => toString (lockedOwner s.locks a d)))))
  let U := join "." ((s.locks.filter (matured s.now)).map (fun l => toString l.id))
  let P := s!"{x.p.minDur}:{x.p.fee}:{join "," (x.p.allowed.map toString)}"
  -- `GetPeriodLocks` in the order it returns (= the exported genesis), the EndBlocker's iterator
  let G := join "." ((exportGenesis s).locks.map (fun l => toString l.id))
  let I := join "." ((s.locks.filter (matured s.now)).map (fun l => toString l.id))
  s!"{routStr o} L={L} last={s.lastId} M={M} B={B} Q={Q} A={A} S={S} W={W} O={O} U={U} t={s.now} h={s.height} P={P} G={G} I={I}" ++ renderRefs x

def coinArg (f : List String) : Option (Option (Denom × Nat)) :=
  match f with
  | ["-"] => some none
  | [d, x] => some (some (nat! d, natClamp x))
  | _ => none

def applyC (x : St) (op : COp) : St × String :=
  let r := rcstep (fun _ => false) ⟨⟨x.p, x.s⟩, x.refs⟩ op
  let x' := { x with p := r.1.c.p, s := r.1.c.s, refs := r.1.refs }
  (x', render x' r.2)

def apply (x : St) (op : Op) : St × String := applyC x (.msg op)

def stepLine (x : St) (f : List String) : St × String :=
  match f with
  | ["reset", md, fee, al, nA, nD, fd, pr] =>
      let c := cinit ⟨nat! md, nat! fee, csvNats al, nat! fd⟩ (fun _ _ => 0) 0 1
      let x' : St := { p := c.p, s := c.s, refs := [], nA := nat! nA, nD := nat! nD, probes := csvNats pr }
      (x', "ok")
  | ["fund", a, d, amt] =>
      let s := x.s
      let x' := { x with s := { s with bal := updBal s.bal (nat! a) (nat! d) (s.bal (nat! a) (nat! d) + nat! amt) } }
      (x', render x' (.out (.ok 0)))
  | ["lock", a, d, amt, dur] => apply x (.lock (nat! a) (nat! d) (natClamp amt) (natClamp dur))
  | "unlock" :: a :: id :: rest =>
      match coinArg rest with
      | some c => apply x (.unlock (nat! a) (nat! id) c)
      | none => (x, "bad-op")
  | ["extend", a, id, dur] => apply x (.extend (nat! a) (nat! id) (natClamp dur))
  | "force" :: a :: id :: rest =>
      match coinArg rest with
      | some c => apply x (.force (nat! a) (nat! id) c)
      | none => (x, "bad-op")
  | ["begin", dt] => apply x (.beginBlock (nat! dt))
  | ["end"] => apply x .endBlock
  | ["restart"] => applyC x .restart
  | ["setparams", md, fee, al] => applyC x (.setParams (nat! md) (nat! fee) (csvNats al))
  | _ => (x, "bad-op")

def drv : Drv := { σ := St, init := st0, step := stepLine }

end DymVerif.Driver.C14
