import DymVerif.Driver.Common
import DymVerif.Model.Spons
/-
  Driver/C16 — line protocol over M-Spons.

    reset <minAlloc> <minVP>                        (genesis state: no gauges, no rollapps)
    hdr gauge <gid> asset <0|1 perpetual>          hdr bgauge <gid>   (perpetual asset gauge of the base state)
    hdr rollapp r<i> <rollappGaugeId>              (rollapp of the base state: the RollappCreated hook ran there)
    hdr egauge <gid> r<i> <0|1 perpetual> <coins> <numEpochs>
        every `hdr` line is turned into the model op `addGauge` / `addRollapp`; the id the MODEL hands
        out (`lastGauge + 1`) must be the real id on the line (`bad-id` otherwise); `hdr` lines may
        appear anywhere in a trace (gauges created mid-trace)
    addrollapp r<i>                                 (real MsgCreateRollapp mid-trace → hook)
    setparams <minAlloc> <minVP>                    (real MsgUpdateParams by the authority)
    vote a<i> <gid>:<w>,…|-          revoke a<i>          claim a<i> <gid>
    delegate|undelegate|redelegate|cancel a<i> … :: F | (H v<j> <hookVP|x>)* (S a<i> v<j> <vp|x>)*
    slash v<j> <factor> [<blocks back>] :: (HA a<i> v<j> <hookVP|x>)* (S a<i> v<j> <vp|x>)*
        (HA: hooks x/staking fires while slashing redelegations — one `.staking a [hook] []` op each,
         then `.slash`)
    begin <seconds> :: [day] [hour] [week]          end          fund <gid> <amt>

  Everything after `::` are staking-side facts read from the real x/staking by the harness.
-/
namespace DymVerif.Driver.C16
open DymVerif DymVerif.Spons DymVerif.Driver

def int! (s : String) : Int :=
  if s.startsWith "-" then -((s.drop 1).toNat?.getD 0 : Nat) else (s.toNat?.getD 0 : Nat)

/-- "a3" / "v1" / "r0" → index -/
def idx! (s : String) : Nat := (s.drop 1).toNat?.getD 0

def gp! (s : String) : GP :=
  match s.splitOn ":" with
  | [g, w] => (nat! g, int! w)
  | _ => (0, 0)

def weights! (s : String) : List GP :=
  if s = "-" then [] else (s.splitOn ",").map gp!

def optInt! (s : String) : Option Int := if s = "x" then none else some (int! s)

/-- facts after `::` -/
structure Facts where
  fail : Bool := false
  hooks : List (Nat × Option Int) := []
  fin : List ((Nat × Nat) × Option Int) := []
  /-- hooks fired for other delegators (redelegation slashing): (delegator, validator, hook power) -/
  hooksA : List (Nat × Nat × Option Int) := []
  ids : List String := []

def parseFacts : List String → Facts → Facts
  | "F" :: rest, f => parseFacts rest { f with fail := true }
  | "H" :: v :: p :: rest, f => parseFacts rest { f with hooks := f.hooks ++ [(idx! v, optInt! p)] }
  | "HA" :: a :: v :: p :: rest, f => parseFacts rest { f with hooksA := f.hooksA ++ [(idx! a, idx! v, optInt! p)] }
  | "S" :: a :: v :: p :: rest, f => parseFacts rest { f with fin := f.fin ++ [((idx! a, idx! v), optInt! p)] }
  | x :: rest, f => parseFacts rest { f with ids := f.ids ++ [x] }
  | [], f => f

def splitFacts (l : List String) : List String × Facts :=
  let pre := l.takeWhile (· ≠ "::")
  let post := (l.dropWhile (· ≠ "::")).drop 1
  (pre, parseFacts post {})

/-! canonical rendering -/

def isort {α} (le : α → α → Bool) (l : List α) : List α :=
  l.foldr (fun x acc =>
    let rec ins : List α → List α
      | [] => [x]
      | y :: ys => if le x y then x :: y :: ys else y :: ins ys
    ins acc) []

def join (sep : String) (l : List String) : String := if l.isEmpty then "-" else sep.intercalate l

def showGPs (l : List GP) : String :=
  "[" ++ ",".intercalate (l.map fun g => s!"{g.1}:{g.2}") ++ "]"

def showDist (d : Dist) : String := s!"{d.vp}{showGPs d.gauges}"

def showStatus : GStatus → String
  | .upcoming => "u" | .active => "a" | .finished => "f"

def showState (s : State) : String :=
  let votes := isort (fun (a b : Nat × Vote) => a.1 ≤ b.1) s.votes
  let dvp := isort (fun (a b : (Nat × Nat) × Int) => a.1.1 < b.1.1 || (a.1.1 == b.1.1 && a.1.2 ≤ b.1.2)) s.dvp
  let es := isort (fun (a b : Endorsement) => a.r ≤ b.r) s.endorsements
  let bl := isort (fun (a b : Nat) => a ≤ b) s.blacklist
  let gs := isort (fun (a b : Gauge) => a.id ≤ b.id) (s.gauges.filter fun g => isEndorsement g.kind)
  "D=" ++ showDist s.dist
  ++ " V=" ++ join ";" (votes.map fun v => s!"a{v.1}:{v.2.vp}{showGPs v.2.weights}")
  ++ " P=" ++ join "," (dvp.map fun x => s!"a{x.1.1}/v{x.1.2}:{x.2}")
  ++ " E=" ++ join "," (es.map fun e => s!"r{e.r}:{e.gaugeId}:{e.total}/{e.epoch}")
  ++ " B=" ++ join "," (bl.map fun a => s!"a{a}")
  ++ " G=" ++ join "," (gs.map fun g =>
      let er := match g.epochRewards with | none => "-" | some x => toString x
      s!"{g.id}:{g.coins}/{g.distributed}/{er}/{g.filled}/{showStatus g.status}")
  ++ s!" M={s.incBal}"

def showErr : Err → String
  | .badWeights => "bad-weights" | .minAlloc => "min-alloc" | .noGauge => "no-gauge"
  | .notPerpetual => "not-perpetual" | .lowPower => "low-power" | .noVote => "no-vote"
  | .cannotClaim => "cannot-claim" | .notEndorsement => "not-endorsement"
  | .noEndorsement => "no-endorsement" | .noPower => "no-power" | .payFailed => "pay-failed"
  | .panic => "panic" | .hookErr => "hook-err" | .finishedGauge => "finished-gauge" | .noFunds => "no-funds"
  | .badParams => "bad-params" | .rollappExists => "rollapp-exists" | .noRollapp => "no-rollapp"
  | .badGauge => "bad-gauge"

def out (r : State × Option Err × Int) (paid : Bool := false) : State × String :=
  let cls := match r.2.1 with | none => "ok" | some e => showErr e
  let p := if paid && r.2.1.isNone then s!" paid={r.2.2}" else ""
  (r.1, cls ++ p ++ " " ++ showState r.1)

/-- a creation op: the id the model handed out must be the id on the line -/
def created (gid : Nat) (r : State × Option Err × Int) : State × String :=
  if r.2.1.isNone && r.1.lastGauge != gid then (r.1, s!"bad-id model={r.1.lastGauge} line={gid}") else out r

def step (s : State) (line : List String) : State × String :=
  let (f, facts) := splitFacts line
  match f with
  | ["reset", ma, mv] => (State.init (int! ma) (int! mv), "ok")
  | ["hdr", "gauge", g, "asset", p] =>
      created (nat! g) (Spons.step s (.addGauge { id := 0, kind := .asset, perpetual := p = "1" }))
  | ["hdr", "bgauge", g] =>
      created (nat! g) (Spons.step s (.addGauge { id := 0, kind := .asset, perpetual := true }))
  | ["hdr", "rollapp", r, g] => created (nat! g) (Spons.step s (.addRollapp (idx! r)))
  | ["hdr", "egauge", g, r, p, c, n] =>
      created (nat! g) (Spons.step s (.addGauge { id := 0, kind := .endorsement (idx! r), perpetual := p = "1",
                                                   coins := int! c, numEpochs := nat! n }))
  | ["addrollapp", r] => out (Spons.step s (.addRollapp (idx! r)))
  | ["setparams", ma, mv] => out (Spons.step s (.setParams (int! ma) (int! mv)))
  | ["vote", a, ws] => out (Spons.step s (.vote (idx! a) (weights! ws)))
  | ["revoke", a] => out (Spons.step s (.revoke (idx! a)))
  | ["claim", a, g] => out (Spons.step s (.claim (idx! a) (nat! g))) true
  | "delegate" :: a :: _ | "undelegate" :: a :: _ | "redelegate" :: a :: _ | "cancel" :: a :: _ =>
      if facts.fail then (s, "stk-fail " ++ showState s)
      else out (Spons.step s (.staking (idx! a) facts.hooks facts.fin))
  | "slash" :: _ =>
      if facts.fail then (s, "stk-fail " ++ showState s)
      else
        -- redelegation slashing: Unbond fires the delegator's hook on the destination validator
        let s1 := facts.hooksA.foldl (fun st h => (Spons.step st (.staking h.1 [(h.2.1, h.2.2)] [])).1) s
        out (Spons.step s1 (.slash facts.fin))
  | ["begin", _] =>
      let s1 := facts.ids.foldl (fun st id => (Spons.step st (.epochEnd (id = "week"))).1) s
      (s1, "ok " ++ showState s1)
  | ["end"] => (s, "ok " ++ showState s)
  | ["fund", g, amt] =>
      if facts.fail then (s, "stk-fail " ++ showState s)
      else out (Spons.step s (.fund (nat! g) (int! amt)))
  | _ => (s, "bad-op")

def drv : Drv := { σ := State, init := State.init 0 0, step := step }

end DymVerif.Driver.C16
