import DymVerif.Driver.Common
import DymVerif.Model.KeysColl
import DymVerif.Gen.Keys
/-! Driver ops of the collections key codecs (C19): keys and range bounds from `Model/KeysColl`, the
    map prefixes from the regenerated `Gen/Keys` constants. -/
namespace DymVerif.Driver.C19Coll
open DymVerif DymVerif.Keys DymVerif.Driver

def hex! (s : String) : Bytes := (ofHex s).getD []

/-- the hub's map prefixes, in the order of the harness table -/
def pfx! (s : String) : Bytes :=
  match nat! s % 6 with
  | 0 => Gen.Keys.collSeqToUnfinalizedHeightPrefix
  | 1 => Gen.Keys.collFinalizationQueuePrefix
  | 2 => Gen.Keys.collLPsByAddrPrefix
  | 3 => Gen.Keys.collLPsByRollAppDenomPrefix
  | 4 => Gen.Keys.collPendingPacketsByAddressPrefix
  | _ => Gen.Keys.collClientHeightToSignerPrefix

def optHex (o : Option Bytes) : String := match o with | none => "nil" | some b => toHexD b

/-- "<start> <end> <returned>" of a scan against one stored key; "err" when a codec refuses or the
    bounds fail `parseRangeInstruction`'s order check -/
def scanObs (rg : Option CRange) (k : Option Bytes) : String :=
  match rg, k with
  | some r, some k => if rangeValid r then s!"{toHexD r.1} {optHex r.2} {inCRange r k}" else "err"
  | _, _ => "err"

def rt {α : Type} [DecidableEq α] (k : Option Bytes) (pfx : Bytes) (dec : Bytes → Option α) (want : α) : String :=
  match k with
  | none => "err"
  | some b => toHexD b ++ (if dec (b.drop pfx.length) = some want then " ok" else " bad")

def step (f : List String) : Option String :=
  match f with
  | ["cknt", s] => some (match collStrNT (hex! s) with | some b => toHexD b | none => "err")
  | ["ckbnt", s] => some (match collBytesNT (hex! s) with | some b => toHexD b | none => "err")
  | ["cksu", p, s, n] => some (rt (pairStrU64Key (pfx! p) (hex! s) (nat! n)) (pfx! p) pairStrU64Decode (hex! s, nat! n))
  | ["cksb", p, s, b] => some (match pairStrBytesKey (pfx! p) (hex! s) (hex! b) with | some k => toHexD k | none => "err")
  | ["ckus", p, n, s] => some (rt (pairU64StrKey (pfx! p) (nat! n) (hex! s)) (pfx! p) pairU64StrDecode (nat! n, hex! s))
  | ["ckt", p, a, b, n] =>
      some (rt (tripleStrStrU64Key (pfx! p) (hex! a) (hex! b) (nat! n)) (pfx! p) tripleStrStrU64Decode (hex! a, hex! b, nat! n))
  | ["ckord", p, h, s, n, s'] =>
      some (match pairU64StrKey (pfx! p) (nat! h) (hex! s), pairU64StrKey (pfx! p) (nat! n) (hex! s') with
        | some a, some b => if lexLt a b then "-1" else if lexLt b a then "1" else "0"
        | _, _ => "err")
  | ["crs", p, s, "|", s', k2] =>
      some (scanObs (scanByString (pfx! p) (hex! s)) (pairStrBytesKey (pfx! p) (hex! s') (hex! k2)))
  | ["cra", p, s, h, "|", s', n] =>
      some (scanObs (scanByStringAbove (pfx! p) (hex! s) (nat! h)) (pairStrU64Key (pfx! p) (hex! s') (nat! n)))
  | ["crb", p, s, h, "|", s', n] =>
      some (scanObs (scanByStringBelow (pfx! p) (hex! s) (nat! h)) (pairStrU64Key (pfx! p) (hex! s') (nat! n)))
  | ["cru", p, h, "|", n, s] =>
      some (scanObs (scanUntilHeight (pfx! p) (nat! h)) (pairU64StrKey (pfx! p) (nat! n) (hex! s)))
  | ["crt", p, a, b, "|", a', b', n] =>
      some (scanObs (scanByTwoStrings (pfx! p) (hex! a) (hex! b)) (tripleStrStrU64Key (pfx! p) (hex! a') (hex! b') (nat! n)))
  | _ => none

end DymVerif.Driver.C19Coll
