/-
  Base/Bytes — byte strings as `List Nat` (each element < 256 where it matters), big-endian
  fixed-width integers, lexicographic byte order (Go `bytes.Compare`), prefix tests, hex I/O.
  Core Lean only (this file is imported by the executable driver).
-/
namespace DymVerif

abbrev Bytes := List Nat

/-- all elements are bytes -/
def Bytes.WF (b : Bytes) : Prop := ∀ x ∈ b, x < 256

/-- `beN k n`: the `k` low-order base-256 digits of `n`, most significant first. -/
def beN : Nat → Nat → Bytes
  | 0, _ => []
  | k+1, n => (n / 256 ^ k % 256) :: beN k (n % 256 ^ k)

/-- Go `sdk.Uint64ToBigEndian` / `binary.BigEndian.PutUint64` -/
def be64 (n : Nat) : Bytes := beN 8 n

/-- inverse of `beN` -/
def beVal : Bytes → Nat
  | [] => 0
  | x :: xs => x * 256 ^ xs.length + beVal xs

/-- strict lexicographic order on byte strings = `bytes.Compare(a,b) < 0` -/
def lexLt : Bytes → Bytes → Bool
  | [], [] => false
  | [], _ :: _ => true
  | _ :: _, [] => false
  | x :: xs, y :: ys => if x < y then true else if y < x then false else lexLt xs ys

def lexLe (a b : Bytes) : Bool := !(lexLt b a)

/-- `bytes.HasPrefix(b, p)` -/
def isPrefix : Bytes → Bytes → Bool
  | [], _ => true
  | _ :: _, [] => false
  | p :: ps, x :: xs => p == x && isPrefix ps xs

/-- string → bytes (ASCII/UTF-8 code units as stored by Go `[]byte(s)`) -/
def strBytes (s : String) : Bytes := s.toUTF8.toList.map (·.toNat)

/-- index of first occurrence of separator -/
def splitAtSep (sep : Nat) : Bytes → Option (Bytes × Bytes)
  | [] => none
  | x :: xs => if x = sep then some ([], xs) else
      match splitAtSep sep xs with
      | none => none
      | some (a, b) => some (x :: a, b)

/-- drop trailing zero bytes: Go `bytes.TrimRight(b, "\x00")` -/
def trimRight0 : Bytes → Bytes
  | [] => []
  | x :: xs => match trimRight0 xs with
      | [] => if x = 0 then [] else [x]
      | r => x :: r

-- hex I/O for the driver -----------------------------------------------------

def hexDigit (n : Nat) : Char :=
  if n < 10 then Char.ofNat (48 + n) else Char.ofNat (87 + n)

def toHex (b : Bytes) : String :=
  String.ofList (b.flatMap fun x => [hexDigit (x / 16 % 16), hexDigit (x % 16)])

def hexVal (c : Char) : Option Nat :=
  let n := c.toNat
  if 48 ≤ n ∧ n ≤ 57 then some (n - 48)
  else if 97 ≤ n ∧ n ≤ 102 then some (n - 87)
  else if 65 ≤ n ∧ n ≤ 70 then some (n - 55)
  else none

def ofHexChars : List Char → Option Bytes
  | [] => some []
  | [_] => none
  | a :: b :: rest => do
      let x ← hexVal a
      let y ← hexVal b
      let r ← ofHexChars rest
      pure ((x * 16 + y) :: r)

/-- "-" denotes the empty byte string in the line protocol -/
def ofHex (s : String) : Option Bytes :=
  if s = "-" then some [] else ofHexChars s.toList

def toHexD (b : Bytes) : String := if b.isEmpty then "-" else toHex b

end DymVerif
