/-
  Base/Dec — `cosmossdk.io/math.LegacyDec` (18 decimals, big.Int raw value) with exactly the SDK's
  rounding: `Mul`/`Quo` round half-to-even at the 18th decimal, `MulTruncate`/`QuoTruncate`/
  `TruncateInt` truncate toward zero, `MulRoundUp`/`QuoRoundUp` round away from zero on positives.
  `big.Int.Quo` is truncated division = `Int.tdiv`.  Range panics (>315 bits) are not modelled.
  Validated against the real library on every run that uses it (harness `TestDec`, driver `Dec`).
-/
namespace DymVerif

def decP : Int := 1000000000000000000          -- 10^18
def decHalf : Nat := 500000000000000000        -- 5·10^17
def decPN : Nat := 1000000000000000000

structure Dec where
  raw : Int
  deriving DecidableEq, Repr, Inhabited

/-- `chopPrecisionAndRound` (banker's rounding on the absolute value) -/
def chopRound (d : Int) : Int :=
  let a := d.natAbs
  let q := a / decPN
  let r := a % decPN
  let q' : Nat := if r < decHalf then q else if decHalf < r then q + 1 else if q % 2 = 0 then q else q + 1
  if d < 0 then -(q' : Int) else (q' : Int)

/-- `chopPrecisionAndTruncate` -/
def chopTrunc (d : Int) : Int := d.tdiv decP

/-- `chopPrecisionAndRoundUp` -/
def chopRoundUp (d : Int) : Int :=
  if d < 0 then -(((-d).tdiv decP)) else
    if d.tmod decP = 0 then d.tdiv decP else d.tdiv decP + 1

namespace Dec
def zero : Dec := ⟨0⟩
def one : Dec := ⟨decP⟩
def ofInt (i : Int) : Dec := ⟨i * decP⟩
def add (a b : Dec) : Dec := ⟨a.raw + b.raw⟩
def sub (a b : Dec) : Dec := ⟨a.raw - b.raw⟩
def neg (a : Dec) : Dec := ⟨-a.raw⟩
def mul (a b : Dec) : Dec := ⟨chopRound (a.raw * b.raw)⟩
def mulTruncate (a b : Dec) : Dec := ⟨chopTrunc (a.raw * b.raw)⟩
def mulRoundUp (a b : Dec) : Dec := ⟨chopRoundUp (a.raw * b.raw)⟩
def mulInt (a : Dec) (i : Int) : Dec := ⟨a.raw * i⟩
/-- `Quo`: multiply by 10^36, truncated big.Int division, then round half-even at 10^18 -/
def quo (a b : Dec) : Dec := ⟨chopRound ((a.raw * decP * decP).tdiv b.raw)⟩
def quoTruncate (a b : Dec) : Dec := ⟨(a.raw * decP).tdiv b.raw⟩
def quoRoundUp (a b : Dec) : Dec :=
  let n := a.raw * decP
  let q := n.tdiv b.raw
  let r := n.tmod b.raw
  -- sign test uses the quotient `d` *after* QuoRem wrote into it, as the Go code does
  ⟨if (0 < r ∧ (decide (q < 0) = decide (b.raw < 0))) ∨ (r < 0 ∧ (decide (q < 0) ≠ decide (b.raw < 0))) then q + 1 else q⟩
def quoInt (a : Dec) (i : Int) : Dec := ⟨a.raw.tdiv i⟩
def truncateInt (a : Dec) : Int := chopTrunc a.raw
def roundInt (a : Dec) : Int := chopRound a.raw
def ceil (a : Dec) : Dec :=
  let q := a.raw.tdiv decP
  let r := a.raw.tmod decP
  ⟨(if 0 < r then q + 1 else q) * decP⟩
def lt (a b : Dec) : Bool := a.raw < b.raw
def le (a b : Dec) : Bool := a.raw ≤ b.raw
def isZero (a : Dec) : Bool := a.raw == 0
def isNegative (a : Dec) : Bool := a.raw < 0
def isPositive (a : Dec) : Bool := 0 < a.raw
end Dec

/-- parse an optionally signed decimal integer -/
def parseInt (s : String) : Int :=
  if s.startsWith "-" then -((s.drop 1).toNat?.getD 0 : Nat) else (s.toNat?.getD 0 : Nat)

end DymVerif
