/-
  Base/Base64 — Go `encoding/base64.StdEncoding` (padded, non-strict) as executable functions
  over byte lists.  `b64enc` mirrors `Encode`; `b64dec` mirrors `Decode` including its tolerance
  for '\r' and '\n', its padding rules and its ignoring of trailing bits (non-strict mode).
-/
import DymVerif.Base.Bytes
namespace DymVerif

/-- sextet → ASCII code of the standard alphabet -/
def b64sym (n : Nat) : Nat :=
  if n < 26 then 65 + n
  else if n < 52 then 97 + (n - 26)
  else if n < 62 then 48 + (n - 52)
  else if n = 62 then 43
  else 47

/-- ASCII code → sextet -/
def b64val (c : Nat) : Option Nat :=
  if 65 ≤ c ∧ c ≤ 90 then some (c - 65)
  else if 97 ≤ c ∧ c ≤ 122 then some (c - 97 + 26)
  else if 48 ≤ c ∧ c ≤ 57 then some (c - 48 + 52)
  else if c = 43 then some 62
  else if c = 47 then some 63
  else none

def padChar : Nat := 61

def b64enc : Bytes → Bytes
  | [] => []
  | [a] => [b64sym (a / 4), b64sym (a % 4 * 16), padChar, padChar]
  | [a, b] => [b64sym (a / 4), b64sym (a % 4 * 16 + b / 16), b64sym (b % 16 * 4), padChar]
  | a :: b :: c :: rest =>
      b64sym (a / 4) :: b64sym (a % 4 * 16 + b / 16) :: b64sym (b % 16 * 4 + c / 64) ::
        b64sym (c % 64) :: b64enc rest

/-- decode the already newline-stripped input, quantum by quantum -/
def b64decQ : Bytes → Option Bytes
  | [] => some []
  | [w, x, y, z] =>
      match b64val w, b64val x with
      | some p, some q =>
        if y = padChar then
          if z = padChar then some [p * 4 + q / 16] else none
        else match b64val y with
          | none => none
          | some r =>
            if z = padChar then some [p * 4 + q / 16, q % 16 * 16 + r / 4]
            else match b64val z with
              | none => none
              | some s => some [p * 4 + q / 16, q % 16 * 16 + r / 4, r % 4 * 64 + s]
      | _, _ => none
  | w :: x :: y :: z :: rest =>
      match b64val w, b64val x, b64val y, b64val z, b64decQ rest with
      | some p, some q, some r, some s, some t =>
          some ((p * 4 + q / 16) :: (q % 16 * 16 + r / 4) :: (r % 4 * 64 + s) :: t)
      | _, _, _, _, _ => none
  | _ => none

/-- Go `base64.StdEncoding.Decode`: '\r' and '\n' are skipped anywhere -/
def b64dec (s : Bytes) : Option Bytes :=
  b64decQ (s.filter fun c => c != 10 && c != 13)

end DymVerif
