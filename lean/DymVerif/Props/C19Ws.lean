/-
  Props/C19Ws — rollapp ids as `MsgCreateRollapp` registers them.  `NewChainID` trims the id before it
  matches the chain-id pattern, while the message, `SetRollapp` and every key builder use the text as
  sent.  Full statement (FALSE of the code as it is):

      ∀ id, createIdOk id = true → validRollappId id = true

  i.e. "a registered rollapp id is a chain id", the assumption under which the C19 scan theorems are
  stated (`Keys.validRollappId`).  It holds for ids without surrounding white space
  (`registered_id_valid_partial`); `registered_id_untrimmed_counterexample` is the witness the harness
  reproduces on the real keeper (known findings C19/rollapp_id/registered-with-surrounding-white-space,
  C19/prefix_scan/rollapp-by-name-misses-registered-rollapp, C19/rollapp_id/two-rollapps-one-name).
-/
import DymVerif.Props.C19X
import DymVerif.Lemmas.KeysAddr
namespace DymVerif.C19
open DymVerif DymVerif.Keys

/-- a chain id has no white space to trim -/
theorem valid_rollapp_id_trimmed (id : Bytes) (h : validRollappId id = true) : trimSpace id = id := by
  obtain ⟨name, eip, rev, rfl, _, _, hl, he, hr⟩ := valid_rollapp_id_shape id h
  apply trimSpace_id
  intro c hm
  simp only [List.mem_append, List.mem_cons] at hm
  have k : ∀ c, c ∈ name ∨ c = 95 ∨ c ∈ eip ∨ c = 45 ∨ c ∈ rev → ¬ (c = 32 ∨ (9 ≤ c ∧ c ≤ 13)) := by
    intro c hm hc
    rcases hm with h1 | h1 | h1 | h1 | h1
    · exact all_lower_not_mem name c (by omega) hl h1
    · omega
    · exact decimal_not_mem eip c (by omega) he h1
    · omega
    · exact decimal_not_mem rev c (by omega) hr h1
  have := k c hm
  simp only [isSpaceC, Bool.or_eq_false_iff, Bool.and_eq_false_iff, beq_eq_false_iff_ne, decide_eq_false_iff_not]
  omega

/-- `_partial`: an id that `MsgCreateRollapp` accepts and that has no surrounding white space is a
    chain id with revision 1 -/
theorem registered_id_valid_partial (id : Bytes) (h : createIdOk id = true) (ht : trimSpace id = id) :
    validRollappId id = true ∧ rollappRev id = 1 := by
  simp only [createIdOk, newChainIDOk, ht, Bool.and_eq_true, beq_iff_eq] at h
  exact h

/-- … and conversely every chain id with revision 1 is accepted -/
theorem valid_id_is_registrable (id : Bytes) (h : validRollappId id = true) (hr : rollappRev id = 1) :
    createIdOk id = true := by
  simp [createIdOk, newChainIDOk, valid_rollapp_id_trimmed id h, h, hr]

/-- " abc_1-1" -/
def wsId : Bytes := [32, 97, 98, 99, 95, 49, 45, 49]
/-- "abc_1-1" -/
def trimmedId : Bytes := [97, 98, 99, 95, 49, 45, 49]
/-- "abc_2-1" -/
def sameNameId : Bytes := [97, 98, 99, 95, 50, 45, 49]

/-- the counterexample: `MsgCreateRollapp` accepts " abc_1-1"; it is no chain id; it is keyed as sent,
    so the lookup of the ChainID it validates to ("abc_1-1") misses it, the name scan `abc_` of
    `GetRollappByName` / `CheckIfRollappExists` misses it, and "abc_2-1" — the same name — is
    registrable next to it -/
theorem registered_id_untrimmed_counterexample :
    createIdOk wsId = true ∧ validRollappId wsId = false ∧ trimSpace wsId = trimmedId ∧
      rollappKey wsId ≠ rollappKey trimmedId ∧
      isPrefix (rollappByNamePrefix (rollappName (trimSpace wsId))) (rollappKey wsId) = false ∧
      createIdOk sameNameId = true ∧ rollappExistsAfter wsId sameNameId = false ∧
      rollappName (trimSpace sameNameId) = rollappName (trimSpace wsId) := by decide

/-- with a chain id in the store the same-name check does what it is there for: any id of the same
    name (whatever white space surrounds it) is found to exist -/
theorem same_name_refused (stored id2 : Bytes) (h1 : validRollappId stored = true) (h2 : newChainIDOk id2 = true)
    (hn : rollappName (trimSpace id2) = rollappName stored) : rollappExistsAfter stored id2 = true := by
  obtain ⟨_, _, hno, _⟩ := valid_rollapp_id_name (trimSpace id2) h2
  have := rollapp_by_name_scan_exact (rollappName (trimSpace id2)) stored hno h1
  simp only [rollappExistsAfter, Bool.or_eq_true]
  right
  rw [this]; simp [hn]

example : createIdOk trimmedId = true ∧ rollappExistsAfter trimmedId sameNameId = true := by decide

end DymVerif.C19
