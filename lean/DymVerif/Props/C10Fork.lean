/-
  Props/C10Fork — C10 and the hard fork of a rollapp (`MsgRollappFraudProposal` → `Keeper.HardFork`):

  * the guard: a fork is refused unless it comes from the authority, transfers are enabled
    (`ForkAllowed`: 0 < TransferProofHeight ≤ last valid height), the hub holds a state update, the rollapp
    has a canonical client and that client holds a consensus state at or below the new last height;
    in particular a rollapp whose bridge is still closed cannot be forked;
  * **fork_keeps_bridge** — an accepted (or refused) fork never changes the proof height, the registered
    genesis info, the credited balances, the registered bank metadata, the handshake counter, the
    recorded canonical channel, the IRO plan, the launch flag of ANY rollapp, nor the channel table
    (x/denommetadata's `OnHardFork` → `ClearRegisteredDenoms` clears x/rollapp's set of hub denoms the
    rollapp has been told about — the denommetadata middleware's memo bookkeeping —, NOT the bank
    metadata the handshake registered; the harness monitor `C10/fork_keeps_bridge/*` checks the bank);
  * what a fork does do to the bridge: it freezes the canonical client, so ibc core refuses transfers
    and packet messages over every channel of that client (**fork_freezes**), for as long as no state
    update of the rollapp arrives (**frozen_until_update**), and the first state update re-opens
    (**update_reopens**): "from then on ordinary transfers flow" holds exactly while the canonical
    client is active (`open_flows`, `open_flows_forever`).
-/
import DymVerif.Props.C10Closed
namespace DymVerif.Props.C10
open DymVerif.GB

/-- the part of a rollapp record the genesis bridge is about -/
def _root_.DymVerif.GB.Ra.bridgeAll (ra : Ra) : Nat × GInfo × List (Nat × Int) × Bool × Nat × Option Nat × Option (Int × Bool) × Bool × Bool :=
  (ra.tph, ra.gi, ra.bal, ra.md, ra.nOpen, ra.chan, ra.plan, ra.launched, ra.linked)

theorem getRa_setRa_same {s : St} {r : Nat} {ra x : Ra} (hg : getRa s r = some ra) (hx : x.id = r) :
    getRa (setRa s x) r = some x := by
  subst hx; exact getRa_setRa_self hg

/-- **frozen_client_refuses** — while the canonical client of `r` is frozen nothing goes over the channels of
    that client: a transfer from the hub is refused, and every packet message is refused by ibc core (no
    acknowledgement, no state change) — on the recorded canonical channel and on every other channel. -/
theorem frozen_client_refuses {s : St} {c r : Nat} {ra : Ra} (hg : getRa s r = some ra) (hfz : ra.frozen = true)
    (ht : ra.tph ≠ 0) (hc : OverClient s c r) :
    step s (.send c) = (s, .err) ∧ ∀ ph p, step s (.recv c ph p) = (s, .err) := by
  obtain ⟨c', k, hf, hk⟩ := hc
  rcases hk with hk | hk <;> subst hk
  · exact ⟨by simp [step, stepSend, hf, hg, ht, hfz], fun ph p => by simp [step, stepRecv, hf, hg, ht, hfz]⟩
  · exact ⟨by simp [step, stepSend, hf], fun ph p => by simp [step, stepRecv, hf, hg, hfz]⟩

/-- an open bridge over an active client: transfers go out, packets are passed on -/
theorem active_open_flows {s : St} {c c' r : Nat} {ra : Ra} (hg : getRa s r = some ra) (hfz : ra.frozen = false)
    (ht : ra.tph ≠ 0) (hf : s.chans.find? (·.1 == c) = some (c', ChanKind.canon r)) :
    step s (.send c) = (s, .ok) ∧ ∀ ph p, step s (.recv c ph p) = (s, lowerRollapp p) :=
  ⟨by simp [step, stepSend, hf, hg, ht, hfz], fun ph p => by simp [step, stepRecv, hf, hg, ht, hfz]⟩

/-- **fork_guard** — an accepted fork comes from the authority, of a rollapp whose transfers are enabled at
    or below the last valid height, which has state on the hub and a canonical client with a consensus
    state at or below the new last height; the record afterwards is the old one with the last height
    cut, the client frozen and the revision bumped. -/
theorem fork_guard {s : St} {r : Nat} {gov : Bool} {h : Nat} (hok : (step s (.fork r gov h)).2 = .ok) :
    gov = true ∧ ∃ ra, getRa s r = some ra ∧ 0 < h ∧ 0 < ra.tph ∧ ra.tph ≤ h - 1 ∧ 0 < ra.lastH ∧ ra.linked = true ∧
      canonClientHeight ≤ min ra.lastH (h - 1) ∧
      step s (.fork r gov h) = (setRa s { ra with lastH := min ra.lastH (h - 1), frozen := true, rev := ra.rev + 1 }, .ok) := by
  revert hok
  simp only [step, stepFork]
  split
  · intro hk; exact absurd hk (by simp)
  rename_i hgov
  cases hg : getRa s r with
  | none => intro hk; exact absurd hk (by simp)
  | some ra =>
    simp only
    repeat' split
    all_goals intro hk
    all_goals first
      | (simp at hk; done)
      | (refine ⟨by simpa using hgov, ra, rfl, ?_, ?_, ?_, ?_, ?_, ?_, rfl⟩ <;> simp_all <;> omega)

/-- **fork_refused_while_closed** — a rollapp whose handshake has not completed cannot be forked -/
theorem fork_refused_while_closed {s : St} {r : Nat} {ra : Ra} (hg : getRa s r = some ra) (h0 : ra.tph = 0)
    (gov : Bool) (h : Nat) : step s (.fork r gov h) = (s, .err) := by
  simp only [step, stepFork, hg, h0]
  repeat' split
  all_goals first
    | rfl
    | simp_all

/-- … nor one asked for by anybody but the authority -/
theorem fork_needs_authority (s : St) (r h : Nat) : step s (.fork r false h) = (s, .err) := by
  simp [step, stepFork]

/-- **fork_keeps_bridge** — whatever the verdict, a fork leaves the proof height, the registered genesis
    info, the credited balances, the registered metadata, the handshake counter, the recorded canonical
    channel, the IRO plan, the launch flag and the canonical-client flag of every rollapp, the channel
    table and the clock as they are. -/
theorem fork_keeps_bridge (s : St) (r : Nat) (gov : Bool) (h : Nat) :
    (∀ r' ra, getRa s r' = some ra →
      ∃ ra', getRa (step s (.fork r gov h)).1 r' = some ra' ∧ ra'.bridgeAll = ra.bridgeAll) ∧
    (step s (.fork r gov h)).1.chans = s.chans ∧ (step s (.fork r gov h)).1.now = s.now ∧
    (step s (.fork r gov h)).1.nextChan = s.nextChan := by
  have keep : (∀ r' ra, getRa s r' = some ra → ∃ ra', getRa s r' = some ra' ∧ ra'.bridgeAll = ra.bridgeAll) ∧
      s.chans = s.chans ∧ s.now = s.now ∧ s.nextChan = s.nextChan := ⟨fun _ ra hg => ⟨ra, hg, rfl⟩, rfl, rfl, rfl⟩
  simp only [step, stepFork]
  split
  · exact keep
  cases hg : getRa s r with
  | none => exact keep
  | some ra0 =>
    simp only
    repeat' split
    all_goals first
      | exact keep
      | (refine ⟨?_, rfl, rfl, rfl⟩
         intro r' ra hr'
         have hid0 : ra0.id = r := (getRa_mem hg).2
         by_cases hr : r' = r
         · subst hr
           have h00 : ra0 = ra := by rw [hg] at hr'; cases hr'; rfl
           subst h00
           exact ⟨_, getRa_setRa_same hg hid0, rfl⟩
         · refine ⟨ra, ?_, rfl⟩
           rw [getRa_setRa_ne s _ (by simp only; rw [hid0]; exact hr)]
           exact hr')

/-- **fork_freezes** — after an accepted fork of `r` nothing goes over the channels of `r`'s canonical
    client: a transfer from the hub is refused, and every packet message is refused by ibc core (no
    acknowledgement, no state change) — on the recorded canonical channel and on every other channel over
    that client. -/
theorem fork_freezes {s : St} {r : Nat} {gov : Bool} {h : Nat} (hok : (step s (.fork r gov h)).2 = .ok)
    {c : Nat} (hc : OverClient s c r) :
    step (step s (.fork r gov h)).1 (.send c) = ((step s (.fork r gov h)).1, .err) ∧
    ∀ ph p, step (step s (.fork r gov h)).1 (.recv c ph p) = ((step s (.fork r gov h)).1, .err) := by
  obtain ⟨_, ra, hg, _, htp, _, _, _, _, hst⟩ := fork_guard hok
  have hrid : ra.id = r := (getRa_mem hg).2
  have hg' : getRa (step s (.fork r gov h)).1 r =
      some { ra with lastH := min ra.lastH (h - 1), frozen := true, rev := ra.rev + 1 } := by
    rw [hst]; exact getRa_setRa_same hg hrid
  obtain ⟨c', k, hf, hk⟩ := hc
  have hc' : OverClient (step s (.fork r gov h)).1 c r := ⟨c', k, step_find s _ c _ hf, hk⟩
  exact frozen_client_refuses hg' rfl (by simp only; omega) hc'

/-- an accepted state update of `r`: the rollapp is launched, the last height moves on, the client is active -/
theorem update_accepted {s : St} {r n : Nat} (hok : (step s (.update r n)).2 = .ok) :
    ∃ ra, getRa s r = some ra ∧ ra.launched = true ∧ 0 < n ∧
      step s (.update r n) = (setRa s { ra with lastH := ra.lastH + n, frozen := false }, .ok) := by
  revert hok
  simp only [step, stepUpdate]
  cases hg : getRa s r with
  | none => intro hk; exact absurd hk (by simp)
  | some ra =>
    simp only
    split
    · intro hk; exact absurd hk (by simp)
    · rename_i hc
      intro _
      refine ⟨ra, rfl, ?_, ?_, rfl⟩ <;> simp_all <;> omega

/-- **update_reopens** — the rollapp's next accepted state update ends the freeze: on an open bridge
    transfers over the canonical channel flow again right after it, and packets are passed on. -/
theorem update_reopens {s : St} {c r n : Nat} {ra : Ra} (hs : Reachable s) (hc : CanonChan s c r)
    (hg : getRa s r = some ra) (h1 : ra.nOpen ≠ 0) (hok : (step s (.update r n)).2 = .ok) :
    step (step s (.update r n)).1 (.send c) = ((step s (.update r n)).1, .ok) ∧
    ∀ ph p, step (step s (.update r n)).1 (.recv c ph p) = ((step s (.update r n)).1, lowerRollapp p) := by
  obtain ⟨ra0, hg0, _, _, hst⟩ := update_accepted hok
  have h00 : ra0 = ra := by rw [hg] at hg0; cases hg0; rfl
  subst h00
  have hrid : ra0.id = r := (getRa_mem hg).2
  have ht : ra0.tph ≠ 0 := fun h => h1 ((closed_iff hs hg).2 h)
  have hg' : getRa (step s (.update r n)).1 r = some { ra0 with lastH := ra0.lastH + n, frozen := false } := by
    rw [hst]; exact getRa_setRa_same hg hrid
  obtain ⟨c', hc⟩ := hc
  exact active_open_flows hg' rfl ht (step_find s _ c _ hc)

/-- **frozen_only_open** — the canonical client of a rollapp is frozen only while its bridge is open (only a
    hard fork freezes it, and `ForkAllowed` wants transfers enabled): the test for a frozen client and the
    test for a closed bridge never compete, in whichever order ibc core and the genesis bridge make them. -/
theorem frozen_only_open {s : St} {r : Nat} {ra : Ra} (hs : Reachable s) (hg : getRa s r = some ra)
    (hf : ra.frozen = true) : ra.tph ≠ 0 ∧ ra.nOpen = 1 :=
  ⟨((reachable_inv hs).get hg).frz hf, ((reachable_inv hs).get hg).opened (((reachable_inv hs).get hg).frz hf)⟩

-- ------------------------------------------------------------------------------------------------ frozen until the next state update

theorem handshake_frozen (ra : Ra) (ph : Nat) (p : Pkt) : (handshake ra ph p).1.frozen = ra.frozen := by
  rcases handshake_cases ra ph p with ⟨h1, _⟩ | ⟨_, _, _, _, _, _, h2, _⟩
  · rw [h1]
  · rw [h2]

/-- one op other than a state update of `r` leaves a frozen canonical client of `r` frozen -/
theorem step_frozen (s : St) (op : Op) (r : Nat) (ra : Ra) (hg : getRa s r = some ra) (hfz : ra.frozen = true)
    (hop : ∀ n, op ≠ .update r n) : ∃ ra', getRa (step s op).1 r = some ra' ∧ ra'.frozen = true := by
  have hrid : ra.id = r := (getRa_mem hg).2
  have keep : ∃ ra', getRa s r = some ra' ∧ ra'.frozen = true := ⟨ra, hg, hfz⟩
  have upd : ∀ (r0 : Nat) (ra0 x : Ra), getRa s r0 = some ra0 → x.id = ra0.id →
      (r0 = r → ra0 = ra → x.frozen = true) → ∃ ra', getRa (setRa s x) r = some ra' ∧ ra'.frozen = true := by
    intro r0 ra0 x h0 hx hq
    have hid0 : ra0.id = r0 := (getRa_mem h0).2
    by_cases hr : r = r0
    · subst hr
      have h00 : ra0 = ra := by rw [hg] at h0; cases h0; rfl
      exact ⟨x, getRa_setRa_same h0 (by rw [hx, hid0]), hq rfl h00⟩
    · refine ⟨ra, ?_, hfz⟩
      rw [getRa_setRa_ne s x (by rw [hx, hid0]; exact hr)]
      exact hg
  have app : ∀ x : Ra, ∃ ra', getRa { s with ras := s.ras ++ [x] } r = some ra' ∧ ra'.frozen = true := by
    intro x
    refine ⟨ra, ?_, hfz⟩
    unfold getRa at hg ⊢
    simp only [List.find?_append, hg, Option.some_or]
  cases op with
  | create r0 g =>
    simp only [step, stepCreate]
    repeat' split
    all_goals first
      | exact keep
      | exact app _
  | tick dt => exact keep
  | plainch => exact keep
  | send c =>
    simp only [step, stepSend]
    repeat' split
    all_goals exact keep
  | link2 r0 =>
    simp only [step, stepLink2]
    repeat' split
    all_goals exact keep
  | update r0 n =>
    simp only [step, stepUpdate]
    cases hr0 : getRa s r0 with
    | none => exact keep
    | some ra0 =>
      simp only
      repeat' split
      all_goals first
        | exact keep
        | (refine upd r0 ra0 _ hr0 rfl ?_
           intro hr _; subst hr
           exact absurd rfl (hop n))
  | recv c ph p =>
    simp only [step, stepRecv]
    repeat' split
    all_goals first
      | exact keep
      | (rename_i ra0 hr0 _ _
         refine upd _ ra0 _ hr0 (handshake_chan ra0 ph p).2 ?_
         intro _ h00; subst h00
         rw [handshake_frozen]; exact hfz)
  | fork r0 gov h =>
    simp only [step, stepFork]
    split
    · exact keep
    cases hr0 : getRa s r0 with
    | none => exact keep
    | some ra0 =>
      simp only
      repeat' split
      all_goals first
        | exact keep
        | (refine upd r0 ra0 _ hr0 rfl ?_
           intro _ _; rfl)
  | plan r0 owner alloc dur te start =>
    simp only [step, stepPlan]
    split
    · exact keep
    cases hr0 : getRa s r0 with
    | none => exact keep
    | some ra0 =>
      simp only
      repeat' split
      all_goals first
        | exact keep
        | (refine upd r0 ra0 _ hr0 rfl ?_
           intro _ h00; subst h00; exact hfz)
  | setgi r0 _ _ | force r0 _ _ | enable r0 _ | seq r0 | link r0 | canon r0 | premd r0 | chopen r0 _ =>
    simp only [step, stepSetgi, stepForce, stepEnable, stepSeq, stepLink, stepCanon, stepPremd, stepChopen]
    cases hr0 : getRa s r0 with
    | none => first | exact keep | (repeat' split) <;> exact keep
    | some ra0 =>
      simp only
      repeat' split
      all_goals first
        | exact keep
        | (refine ⟨ra, ?_, hfz⟩; exact hg)
        | (refine upd r0 ra0 _ hr0 rfl ?_
           intro _ h00; subst h00; exact hfz)

/-- **frozen_until_update** — a canonical client frozen by a hard fork stays frozen along every op sequence
    that contains no state update of that rollapp: nothing but the rollapp's next state update re-opens. -/
theorem frozen_until_update (s : St) (ops : List Op) (r : Nat) (ra : Ra) (hg : getRa s r = some ra)
    (hfz : ra.frozen = true) (hops : ∀ op ∈ ops, ∀ n, op ≠ .update r n) :
    ∃ ra', getRa (run s ops) r = some ra' ∧ ra'.frozen = true := by
  induction ops generalizing s ra with
  | nil => exact ⟨ra, hg, hfz⟩
  | cons op ops ih =>
    simp only [run, List.foldl_cons]
    obtain ⟨ra1, hg1, hf1⟩ := step_frozen s op r ra hg hfz (hops op (by simp))
    exact ih _ ra1 hg1 hf1 (fun o ho => hops o (by simp [ho]))

-- ------------------------------------------------------------------------------------------------ non-vacuity

/-- launch, link, 12 blocks of state, handshake at proof height 7 -/
def opsF : List Op := ops0 ++ [.update 0 12, .recv 0 7 pkt0]

example : (step (run init opsF) (.send 0)).2 = .ok := by decide
/-- a fork at fraud height 12 (last valid height 11) is accepted from the authority only, cuts the last height to 11,
    freezes, bumps the revision, and leaves proof height / credits / metadata alone -/
example : (step (run init opsF) (.fork 0 false 12)).2 = .err ∧ (step (run init opsF) (.fork 0 true 12)).2 = .ok ∧
    (getRa (run init (opsF ++ [.fork 0 true 12])) 0).map (fun ra => (ra.lastH, ra.frozen, ra.rev)) = some (11, true, 1) ∧
    (getRa (run init (opsF ++ [.fork 0 true 12])) 0).map (fun ra => (totalBal ra.bal, ra.tph, ra.nOpen)) = some (30, 7, 1) ∧
    (getRa (run init (opsF ++ [.fork 0 true 12])) 0).map (·.md) = some true := by decide
/-- frozen: nothing out, nothing in; the next state update re-opens; a repeated handshake packet is then passed on -/
example : (step (run init (opsF ++ [.fork 0 true 12])) (.send 0)).2 = .err ∧
    (step (run init (opsF ++ [.fork 0 true 12])) (.recv 0 9 (.ft ⟨1, 5, true, 1, true⟩))).2 = .err ∧
    (step (run init (opsF ++ [.fork 0 true 12, .update 0 3])) (.send 0)).2 = .ok ∧
    (step (run init (opsF ++ [.fork 0 true 12, .update 0 3])) (.recv 0 9 (.ft ⟨1, 5, true, 1, true⟩))).2 = .async ∧
    (step (run init (opsF ++ [.fork 0 true 12, .update 0 3])) (.recv 0 9 pkt0)).2 = .rerr .lower := by decide
/-- refused: before the handshake, at or below the proof height, without state, below the client's consensus state -/
example : (step (run init (ops0 ++ [.update 0 12])) (.fork 0 true 12)).2 = .err ∧
    (step (run init opsF) (.fork 0 true 7)).2 = .err ∧ (step (run init opsF) (.fork 0 true 8)).2 = .err ∧
    (step (run init (ops0 ++ [.recv 0 7 pkt0])) (.fork 0 true 12)).2 = .err ∧
    (step (run init (ops0 ++ [.update 0 9, .recv 0 7 pkt0])) (.fork 0 true 12)).2 = .err ∧
    (step (run init opsF) (.fork 0 true 0)).2 = .err ∧ (step (run init opsF) (.fork 0 true 11)).2 = .ok := by decide

end DymVerif.Props.C10
