/-
  Props/C05Pfm — C05 "when the packet later finalizes the whole packet amount goes to the fulfiller":
  the positive statement (the release credits the address the packet names — after a fulfilment the
  fulfiller / LP — with the whole amount, minus the bridging fee for a received packet), which holds
  for every packet the hub did NOT send as a packet-forward, and the kernel-checked witness that it
  fails for a forwarded one (packet-forward middleware below delayedack, app/transfer_stack.go):

     theorem finalize_pays_fulfiller (h : finalizePacket s k = .ok s') (hp : getPacket s k = some p)
         (refund : p.ptype = .onTimeout ∨ (p.ptype = .onAck ∧ p.ackErr)) (ok : no error recorded) :
         getBal s'.bal p.target p.denom = getBal s.bal p.target p.denom + p.amount

  was FALSE of the code before `fixes/fix_pfm_forwarded_order.diff` when `p.fwd.isSome` (finding
  `C05/finalize_pays_fulfiller/fulfiller-not-paid-on-finalization/forwarded-packet`, replay
  corpus/C05/pfm-forwarded-timeout-fulfilled.ops).  With the fix a forwarded packet gets no demand
  order (`forwarded_gets_no_order`), so it cannot be fulfilled; the clause stays stated under
  `p.fwd = none` — what is NOT yet a theorem is the history-level invariant "a packet with
  `orig.isSome` (fulfilled) has `fwd = none`", which would discharge that hypothesis.
-/
import DymVerif.Props.C05
namespace DymVerif.C05
open DymVerif DymVerif.Keys DymVerif.Packets

theorem icsCredit_pays_target {s s' : St} {p : Packet} (h : icsCredit s p = some s') (ht : p.target ≠ escrowAcct p.chan) :
    getBal s'.bal p.target p.denom = getBal s.bal p.target p.denom + p.amount := by
  unfold icsCredit at h
  split at h
  · rw [(sendCoins_spec h).2 p.target p.denom]; simp [ht]
  · cases h; rw [getBal_credit]; simp

/-- the refund of a packet that is not a forward credits the address it names with the whole amount -/
theorem refundRelease_pays_target (s : St) (p : Packet) (hf : p.fwd = none) (ht : p.target ≠ escrowAcct p.chan)
    (hok : (refundRelease s p).2 = none) :
    getBal (refundRelease s p).1.bal p.target p.denom = getBal s.bal p.target p.denom + p.amount := by
  unfold refundRelease at hok ⊢
  split
  · rename_i s1 hr
    unfold icsRefund at hr
    rw [hf] at hr
    exact icsCredit_pays_target hr ht
  · rename_i hr; rw [hr] at hok; cases hok

/-- **finalize_pays_fulfiller** (refunds: timeout / error acknowledgement), `_partial`: under the
    hypothesis that the hub did not send the packet as a packet-forward.  After a fulfilment `p.target`
    is the fulfiller / LP (`fulfil_redirects_packet`), so the whole amount goes to the fulfiller. -/
theorem finalize_pays_fulfiller_partial {s s' : St} {k : Bytes} {p : Packet} (h : finalizePacket s k = .ok s')
    (hp : getPacket s k = some p) (hf : p.fwd = none)
    (hr : p.ptype = .onTimeout ∨ (p.ptype = .onAck ∧ p.ackErr = true)) (ht : p.target ≠ escrowAcct p.chan)
    (hok : (releaseEffect s p).2 = none) :
    getBal s'.bal p.target p.denom = getBal s.bal p.target p.denom + p.amount := by
  have hrel : releaseEffect s p = refundRelease s p := by
    unfold releaseEffect
    rcases hr with hr | ⟨hr, he⟩
    · rw [hr]
    · rw [hr]; simp [he]
  unfold finalizePacket at h
  rw [hp] at h
  simp only at h
  split at h
  · cases h
  · unfold updateAfterFinalization at h
    split at h
    · cases h
    · cases h
      rw [afterPacketStatusUpdated_bal]
      show getBal (releaseEffect s p).1.bal p.target p.denom = _
      rw [hrel] at hok ⊢
      exact refundRelease_pays_target s p hf ht hok

-- ------------------------------------------------------------------ forwarded packets get no order

/-- **forwarded_gets_no_order** — (fix `fixes/fix_pfm_forwarded_order.diff`, `IBCMiddleware.isForwarded`) a
    delayed acknowledgement / timeout of a packet the packet-forward middleware sent creates no demand
    order: the packet is only stored, so nobody can fulfil it, and its later finalization settles the
    forward towards the origin chain at nobody's expense. -/
theorem forwarded_gets_no_order {s0 s' : St} {p : Packet} {refund : Bool} (hf : p.fwd.isSome = true)
    (h : ackDelay s0 p refund = .ok (some s')) : s'.orders = s0.orders := by
  unfold ackDelay at h
  split at h
  · cases h
  · have : (refund && p.fwd.isNone) = false := by
      cases hfw : p.fwd with
      | none => rw [hfw] at hf; cases hf
      | some r => simp
    rw [this] at h
    cases h
    rfl

/-- c0: canonical channel of rollapp "r"; c1: a plain chain -/
def pfmChans : List Chan :=
  [ { hubId := [99, 48], cpId := [99, 55], rollapp := some 0, canonical := true },
    { hubId := [99, 49], cpId := [99, 56], rollapp := none, canonical := false } ]
/-- timeout fee 0.15 % -/
def pfmInit : St := initSt 3 100000 ⟨0⟩ ⟨1500000000000000⟩ ⟨0⟩ [114] [115] pfmChans
def pfmKey : Bytes := rollappPacketKey .pending [114] 15 .onTimeout [99, 48] 1
/-- 1000 units arrive from the plain chain with a forward memo towards the rollapp; the forwarded packet
    times out above the finalized height; the rollapp's states become final -/
def pfmOps : List Op :=
  [ .addState [114] 10,
    .recv 1 1 0 { dref := .foreign, amount := 1000, target := some 0, memo := .forward 0 },
    .addState [114] 10,
    .timeout 0 1 15 ]

/-- the history of the recorded finding (corpus/C05/pfm-forwarded-timeout-fulfilled.ops), on the patched
    code: the timed-out forwarded packet is stored pending WITHOUT a demand order, a fulfilment is
    refused, and the finalization burns the escrowed voucher and acknowledges the inbound packet with an
    error — the refund goes back to the origin chain and no third party pays anything.
    (Before the patch: an order with recipient `pfmAddr 1` was created, account 2 could fulfil it for 999
    and was credited nothing at finalization — `finalize_pays_fulfiller_counterexample` of the
    agent-c45x branch, kernel-checked against the model of the unpatched code.) -/
theorem forwarded_timeout_has_no_order_example :
    (run pfmInit pfmOps).orders = [] ∧
    (getPacket (run pfmInit pfmOps) pfmKey).map (fun p => (p.target, p.orig, p.amount, p.fwd)) = some (pfmAddr 1, none, 1000, some (1, 1)) ∧
    (step (run pfmInit pfmOps) (.fulfill 2 pfmKey 1)).2 = .err .notFound ∧
    (step (run pfmInit (pfmOps ++ [.finalizeState [114], .finalizeState [114]])) (.finalize 0 [114] 15 .onTimeout [99, 48] 1)).2 = .ok ∧
    getBal (step (run pfmInit (pfmOps ++ [.finalizeState [114], .finalizeState [114]])) (.finalize 0 [114] 15 .onTimeout [99, 48] 1)).1.bal (escrowAcct 0) 2 = 0 ∧
    (step (run pfmInit (pfmOps ++ [.finalizeState [114], .finalizeState [114]])) (.finalize 0 [114] 15 .onTimeout [99, 48] 1)).1.acks = [((1, 1), false)] := by
  decide

end DymVerif.C05
