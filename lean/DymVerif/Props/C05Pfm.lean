/-
  Props/C05Pfm — C05 "when the packet later finalizes the whole packet amount goes to the fulfiller":
  the positive statement (the release credits the address the packet names — after a fulfilment the
  fulfiller / LP — with the whole amount, minus the bridging fee for a received packet), which holds
  for every packet the hub did NOT send as a packet-forward, and the kernel-checked witness that it
  fails for a forwarded one (packet-forward middleware below delayedack, app/transfer_stack.go):

     theorem finalize_pays_fulfiller (h : finalizePacket s k = .ok s') (hp : getPacket s k = some p)
         (refund : p.ptype = .onTimeout ∨ (p.ptype = .onAck ∧ p.ackErr)) (ok : no error recorded) :
         getBal s'.bal p.target p.denom = getBal s.bal p.target p.denom + p.amount

  is FALSE of the current code when `p.fwd.isSome`: `finalize_pays_fulfiller_counterexample`
  (replayed on the real code: corpus/C05/pfm-forwarded-timeout-fulfilled.ops, monitor
  `C05/finalize_pays_fulfiller/fulfiller-not-paid-on-finalization/forwarded-packet`).
-/
import DymVerif.Props.C05
namespace DymVerif.C05
open DymVerif DymVerif.Keys DymVerif.Packets

theorem icsCredit_pays_target {s s' : St} {p : Packet} (h : icsCredit s p = some s') (ht : p.target ≠ escrowAcct p.chan) :
    getBal s'.bal p.target p.denom = getBal s.bal p.target p.denom + p.amount := by
  unfold icsCredit at h
  split at h
  · rw [(sendCoins_spec h).2 p.target p.denom]; simp [ht]
  · cases h; rw [getBal_credit]; simp

/-- the refund of a packet that is not a forward credits the address it names with the whole amount -/
theorem refundRelease_pays_target (s : St) (p : Packet) (hf : p.fwd = none) (ht : p.target ≠ escrowAcct p.chan)
    (hok : (refundRelease s p).2 = none) :
    getBal (refundRelease s p).1.bal p.target p.denom = getBal s.bal p.target p.denom + p.amount := by
  unfold refundRelease at hok ⊢
  split
  · rename_i s1 hr
    unfold icsRefund at hr
    rw [hf] at hr
    exact icsCredit_pays_target hr ht
  · rename_i hr; rw [hr] at hok; cases hok

/-- **finalize_pays_fulfiller** (refunds: timeout / error acknowledgement), `_partial`: under the
    hypothesis that the hub did not send the packet as a packet-forward.  After a fulfilment `p.target`
    is the fulfiller / LP (`fulfil_redirects_packet`), so the whole amount goes to the fulfiller. -/
theorem finalize_pays_fulfiller_partial {s s' : St} {k : Bytes} {p : Packet} (h : finalizePacket s k = .ok s')
    (hp : getPacket s k = some p) (hf : p.fwd = none)
    (hr : p.ptype = .onTimeout ∨ (p.ptype = .onAck ∧ p.ackErr = true)) (ht : p.target ≠ escrowAcct p.chan)
    (hok : (releaseEffect s p).2 = none) :
    getBal s'.bal p.target p.denom = getBal s.bal p.target p.denom + p.amount := by
  have hrel : releaseEffect s p = refundRelease s p := by
    unfold releaseEffect
    rcases hr with hr | ⟨hr, he⟩
    · rw [hr]
    · rw [hr]; simp [he]
  unfold finalizePacket at h
  rw [hp] at h
  simp only at h
  split at h
  · cases h
  · unfold updateAfterFinalization at h
    split at h
    · cases h
    · cases h
      rw [afterPacketStatusUpdated_bal]
      show getBal (releaseEffect s p).1.bal p.target p.denom = _
      rw [hrel] at hok ⊢
      exact refundRelease_pays_target s p hf ht hok

-- ------------------------------------------------------------------ the witness

/-- c0: canonical channel of rollapp "r"; c1: a plain chain -/
def pfmChans : List Chan :=
  [ { hubId := [99, 48], cpId := [99, 55], rollapp := some 0, canonical := true },
    { hubId := [99, 49], cpId := [99, 56], rollapp := none, canonical := false } ]
/-- timeout fee 0.15 % -/
def pfmInit : St := initSt 3 100000 ⟨0⟩ ⟨1500000000000000⟩ ⟨0⟩ [114] [115] pfmChans
def pfmKey : Bytes := rollappPacketKey .pending [114] 15 .onTimeout [99, 48] 1
/-- 1000 units arrive from the plain chain with a forward memo towards the rollapp; the forwarded packet
    times out above the finalized height; account 2 fulfils its refund order (price 999, fee 1); the
    rollapp's states become final -/
def pfmOps : List Op :=
  [ .addState [114] 10,
    .recv 1 1 0 { dref := .foreign, amount := 1000, target := some 0, memo := .forward 0 },
    .addState [114] 10,
    .timeout 0 1 15,
    .fulfill 2 pfmKey 1,
    .finalizeState [114], .finalizeState [114] ]

/-- the forwarded packet's order is fulfilled by account 2, who pays 999 to the packet-forward
    intermediate address; the finalization succeeds, records no error, acknowledges the inbound packet
    with an error, burns the escrowed voucher — and credits the fulfiller nothing -/
theorem finalize_pays_fulfiller_counterexample :
    (getPacket (run pfmInit pfmOps) pfmKey).map (fun p => (p.target, p.orig, p.amount, p.fwd)) = some (2, some (pfmAddr 1), 1000, some (1, 1)) ∧
    getBal (run pfmInit pfmOps).bal 2 2 = 100000 - 999 ∧
    getBal (run pfmInit pfmOps).bal (pfmAddr 1) 2 = 999 ∧
    (step (run pfmInit pfmOps) (.finalize 0 [114] 15 .onTimeout [99, 48] 1)).2 = .ok ∧
    getBal (step (run pfmInit pfmOps) (.finalize 0 [114] 15 .onTimeout [99, 48] 1)).1.bal 2 2 = 100000 - 999 ∧
    getBal (step (run pfmInit pfmOps) (.finalize 0 [114] 15 .onTimeout [99, 48] 1)).1.bal (escrowAcct 0) 2 = 0 ∧
    (step (run pfmInit pfmOps) (.finalize 0 [114] 15 .onTimeout [99, 48] 1)).1.acks = [((1, 1), false)] ∧
    (step (run pfmInit pfmOps) (.finalize 0 [114] 15 .onTimeout [99, 48] 1)).1.packets.map (fun p => (p.status, p.perr)) = [(.finalized, none)] := by
  decide

end DymVerif.C05
