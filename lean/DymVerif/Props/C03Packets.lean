/-
  Props/C03Packets — the packet clause of C03 across the M-Core / M-Packets boundary.
  (`Props/C04.lean`, section "C03 over M-Packets", proves what the delayedack / eibc fork hook does
  for a GIVEN height; `Props/C03.lean` proves what M-Core's fork does to the rollapp. Here: the
  height the hooks are given is the effective fork height, so no pending packet above it survives
  and none at or below it, or of another rollapp, is touched.)
-/
import DymVerif.Model.CorePackets
import DymVerif.Props.C03
namespace DymVerif.C03
open DymVerif DymVerif.Core DymVerif.Core.Fork

/-- nothing is added by a fork -/
theorem prune_sublist (b a : St) (pk : List Pk) : ∀ p ∈ prunePkts b a pk, p ∈ pk := by
  intro p hp; exact (List.mem_filter.1 hp).1

/-- **no pending packet of a forked rollapp at or above the new revision's start survives** -/
theorem prune_removes_above (b a : St) (pk : List Pk) (p : Pk) (hp : p ∈ prunePkts b a pk)
    (hf : forked b a p.ra = true) : p.ph < newStart a p.ra := by
  have h := (List.mem_filter.1 hp).2
  rw [hf] at h
  simp only [Bool.true_and, Bool.not_eq_true', decide_eq_false_iff_not] at h
  omega

/-- **every other pending packet is kept**: packets of rollapps that were not forked, and packets of
    a forked rollapp below the new revision's start -/
theorem prune_keeps_others (b a : St) (pk : List Pk) (p : Pk) (hp : p ∈ pk)
    (h : forked b a p.ra = false ∨ p.ph < newStart a p.ra) : p ∈ prunePkts b a pk := by
  apply List.mem_filter.2 ⟨hp, ?_⟩
  rcases h with h | h
  · rw [h]; rfl
  · have : decide (p.ph ≥ newStart a p.ra) = false := by simp; omega
    rw [this]; simp

/-- an accepted M-Core hard fork is seen as a fork of exactly that rollapp, and the new revision
    starts right above the EFFECTIVE fork height `kst.last` (the last height of the last kept state,
    which is below the requested height when the request lies beyond the latest posted height) -/
theorem hardFork_seen (s s' : St) (ra lv keep : Nat) (r r' : Rollapp) (kst : SInfo)
    (hg : getRa s ra = some r) (hplan : revertPlan r ((lv + 1) % 2 ^ 64) = .ok (keep, kst))
    (e : hardFork s ra lv = .ok s') (hr' : getRa s' ra = some r') :
    forked s s' ra = true ∧ newStart s' ra = kst.last + 1 := by
  have hrev := (fork_revision s s' ra lv keep r r' kst hg hplan e hr').1
  have h1 : s'.ras.find? (fun x => x.id == ra) = some r' := hr'
  have h2 : s.ras.find? (fun x => x.id == ra) = some r := hg
  constructor
  · unfold forked; rw [h1, h2]; simp [hrev]
  · unfold newStart; rw [h1]; dsimp only; unfold revStart; rw [hrev]; simp

/-- **C03, packet clause, composed**: after an accepted hard fork of rollapp `ra` (fraud proposal,
    kick, rotation to the sentinel, obsolete-version marking — all are `hardFork`, see `Props/C03`)
    no pending delayed packet of `ra` with a proof height above the effective fork height remains,
    every packet at or below it remains, and the packets of the other rollapps remain if those were
    not forked in the same step. -/
theorem fork_packets (s s' : St) (ra lv keep : Nat) (r r' : Rollapp) (kst : SInfo)
    (hg : getRa s ra = some r) (hplan : revertPlan r ((lv + 1) % 2 ^ 64) = .ok (keep, kst))
    (e : hardFork s ra lv = .ok s') (hr' : getRa s' ra = some r') (pk : List Pk) :
    (∀ p ∈ prunePkts s s' pk, p.ra = ra → p.ph ≤ kst.last) ∧
    (∀ p ∈ pk, p.ra = ra → p.ph ≤ kst.last → p ∈ prunePkts s s' pk) ∧
    (∀ p ∈ pk, forked s s' p.ra = false → p ∈ prunePkts s s' pk) := by
  obtain ⟨hf, hs⟩ := hardFork_seen s s' ra lv keep r r' kst hg hplan e hr'
  refine ⟨?_, ?_, ?_⟩
  · intro p hp hra
    have := prune_removes_above s s' pk p hp (by rw [hra]; exact hf)
    rw [hra, hs] at this; omega
  · intro p hp hra hle
    exact prune_keeps_others s s' pk p hp (Or.inr (by rw [hra, hs]; omega))
  · intro p hp hnf
    exact prune_keeps_others s s' pk p hp (Or.inl hnf)

-- non-vacuity: the example history of Props/C03 forked at 5 (request) — packets at 5, 6 and of rollapp 1
example : prunePkts (run exParams exPre) (run exParams (exPre ++ [.fraud true 0 5 0 none none]))
    [⟨0, 4, 1, "R"⟩, ⟨0, 5, 2, "A"⟩, ⟨0, 9, 3, "T"⟩, ⟨1, 9, 4, "R"⟩] = [⟨0, 4, 1, "R"⟩, ⟨1, 9, 4, "R"⟩] := by decide

end DymVerif.C03
