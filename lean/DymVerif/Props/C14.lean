/-
  Props/C14 — locked tokens are fully backed and return only to the owner after the period.
  Property theorems only; all statements are for every parameter value (minimum duration, fee,
  allow-list), every initial balance map and every sequence of operations (no bounds).

  `Inv` (Lemmas/LockupInv) is the state invariant; `reachable_inv` shows that every state reachable
  from a fresh chain satisfies it, so each `(h : Inv s)` below reads "in every reachable state".
-/
import DymVerif.Lemmas.LockupFate
import DymVerif.Gen.Lockup
import DymVerif.Lemmas.GenEqLockup
namespace DymVerif.C14
open DymVerif DymVerif.Lockup

/-! ## every reachable state -/

theorem reachable_inv (p : Params) (bal : Actor → Denom → Nat) (now height : Nat) (ops : List Op) :
    Inv (run p (init bal now height) ops) :=
  run_inv p ops (init_inv bal now height)

/-- **custody**: in every reachable state the lockup module account holds, per denom, exactly the
    sum of the coins of all existing locks -/
theorem custody_inv (p : Params) (bal : Actor → Denom → Nat) (now height : Nat) (ops : List Op) (d : Denom) :
    (run p (init bal now height) ops).modBal d = lockedDenom (run p (init bal now height) ops).locks d :=
  (reachable_inv p bal now height ops).custody d

/-- **accumulation**: in every reachable state, for every denom and *every* duration `k` (not just
    the four the registered invariant samples), `GetPeriodLocksAccumulation(denom, k)` equals the sum
    of the coins of the locks of that denom whose duration is at least `k` -/
theorem accumulation_inv (p : Params) (bal : Actor → Denom → Nat) (now height : Nat) (ops : List Op)
    (d : Denom) (k : Nat) :
    accQuery (run p (init bal now height) ops).acc d k =
      (lockedLonger (run p (init bal now height) ops).locks d k : Int) :=
  (reachable_inv p bal now height ops).accum d k

/-- the EndBlocker cannot fail: every matured lock can be paid out of the module account -/
theorem endBlock_never_panics (p : Params) {s : State} (h : Inv s) : (step p s .endBlock).2 = .ok 0 := by
  simp only [step]
  by_cases hh : minHeightAutoWithdraw ≤ s.height
  · obtain ⟨s', he, _⟩ := endBlock_spec h hh
    rw [he]
  · have : s.height < minHeightAutoWithdraw := by omega
    unfold endBlock
    simp only [this, if_true]

/-- the height from which the model's EndBlocker withdraws is the constant of the current source
    (`MinBlockHeightToBeginAutoWithdrawing`, regenerated on every run) -/
theorem auto_withdraw_height_is_source_constant :
    minHeightAutoWithdraw = Gen.Lockup.minBlockHeightToBeginAutoWithdrawing :=
  GenEq.Lockup.minHeight_eq.symm

/-! ## nobody but the owner -/

/-- a rejected message changes nothing -/
theorem rejected_leaves_state_untouched (p : Params) (s : State) (op : Op) (e : Err)
    (hr : (step p s op).2 = .err e) : (step p s op).1 = s := by
  cases op with
  | lock a d amt dur =>
    simp only [step] at hr ⊢
    rcases lockTokens_cases p s a d amt dur with ⟨e', he⟩ | ⟨_, _, _, _, t, _, hc⟩
    · rw [he]
    · rcases hc with ⟨lt, _, he⟩ | ⟨_, he⟩ <;> (rw [he] at hr; cases hr)
  | unlock a id c =>
    simp only [step] at hr ⊢
    rcases beginUnlocking_cases s a id c with ⟨e', he⟩ | ⟨lt, _, _, _, _, _, hc⟩
    · rw [he]
    · rcases hc with ⟨_, he⟩ | ⟨_, he⟩ <;> (rw [he] at hr; cases hr)
  | extend a id dur =>
    simp only [step] at hr ⊢
    rcases extendLockup_cases s a id dur with ⟨e', he⟩ | ⟨lt, _, _, _, _, he⟩
    · rw [he]
    · rw [he] at hr; cases hr
  | force a id c =>
    simp only [step] at hr ⊢
    rcases forceUnlock_cases p s a id c with ⟨e', he⟩ | ⟨lt, _, _, _, _, _, hc⟩
    · rw [he]
    · rcases hc with ⟨_, t, _, he⟩ | ⟨_, t, _, he⟩ <;> (rw [he] at hr; cases hr)
  | beginBlock dt => simp [step, beginBlock] at hr
  | endBlock =>
    simp only [step] at hr ⊢
    unfold endBlock at hr ⊢
    by_cases hlt : s.height < minHeightAutoWithdraw
    · simp only [hlt, if_true]
    · simp only [hlt, if_false] at hr ⊢
      split
      · rfl
      · rename_i s' hw
        simp only [hw] at hr
        cases hr

/-- **nobody else moves them**: begin-unlock, extend and force-unlock naming a lock that the signer
    does not own are rejected (whatever the coins, the duration, the allow-list), state unchanged -/
theorem nobody_else_moves (p : Params) (s : State) {l : Lock} (a id : Nat)
    (hl : findLock s.locks id = some l) (hne : l.owner ≠ a) (op : Op)
    (hop : (∃ c, op = .unlock a id c) ∨ (∃ dur, op = .extend a id dur) ∨ (∃ c, op = .force a id c)) :
    (step p s op).1 = s ∧ ∃ e, (step p s op).2 = .err e := by
  rcases hop with ⟨c, rfl⟩ | ⟨dur, rfl⟩ | ⟨c, rfl⟩
  · simp only [step]
    rcases beginUnlocking_cases s a id c with ⟨e, he⟩ | ⟨lt, hlt, ho, _⟩
    · rw [he]; exact ⟨rfl, e, rfl⟩
    · rw [hl] at hlt; cases hlt; exact absurd ho hne
  · simp only [step]
    rcases extendLockup_cases s a id dur with ⟨e, he⟩ | ⟨lt, hlt, ho, _⟩
    · rw [he]; exact ⟨rfl, e, rfl⟩
    · rw [hl] at hlt; cases hlt; exact absurd ho hne
  · simp only [step]
    rcases forceUnlock_cases p s a id c with ⟨e, he⟩ | ⟨lt, hlt, ho, _⟩
    · rw [he]; exact ⟨rfl, e, rfl⟩
    · rw [hl] at hlt; cases hlt; exact absurd ho hne

/-- a force-unlock by an address that is not on the allow-list is rejected, even by the owner -/
theorem force_unlock_needs_authorisation (p : Params) (s : State) (a id : Nat) (c : Option (Denom × Nat))
    (hna : a ∉ p.allowed) :
    (step p s (.force a id c)).1 = s ∧ ∃ e, (step p s (.force a id c)).2 = .err e := by
  simp only [step]
  rcases forceUnlock_cases p s a id c with ⟨e, he⟩ | ⟨lt, _, _, ha, _⟩
  · rw [he]; exact ⟨rfl, e, rfl⟩
  · exact absurd ha hna

/-! ## coins leave a lock only to its owner, only when due -/

/-- **coins never change hands**: over any step the free balance plus the locked total of every
    account, per denom, is unchanged — except that an accepted `MsgLockTokens` costs its signer the
    lock fee.  Together with `custody_inv`: whatever leaves a lock reaches the lock's owner, and
    splitting, topping up and extending conserve the owner's total. -/
theorem owner_total_conserved (p : Params) {s : State} (h : Inv s) (op : Op) (a d : Nat) :
    (step p s op).1.bal a d + lockedOwner (step p s op).1.locks a d = s.bal a d + lockedOwner s.locks a d ∨
    (∃ d0 amt dur id, op = .lock a d0 amt dur ∧ (step p s op).2 = .ok id ∧ d = p.feeDenom ∧
      (step p s op).1.bal a d + lockedOwner (step p s op).1.locks a d + p.fee =
        s.bal a d + lockedOwner s.locks a d) :=
  owner_total_step p h op a d

/-- **exit only to the owner after the period**: whatever one step does to an existing lock `l`,
    (1) its coins stay in it (same id, owner, denom; amount not smaller), or
    (2) its owner's partial begin-unlock split them over `l` and a fresh lock of the same owner, or
    (3) its owner, who is on the force-unlock allow-list, force-unlocked it, or
    (4) the EndBlocker (height >= 6) paid it out, and then the owner had started unlocking at some
        `t0` and the full duration has elapsed since: `t0 + duration = endTime <= now`.
    Where the coins go in (3)/(4) is `owner_total_conserved`. -/
theorem exit_only_to_owner_after_period (p : Params) {s : State} (h : Inv s) (op : Op) {l : Lock}
    (hl : l ∈ s.locks) :
    (∃ l' ∈ (step p s op).1.locks, l'.id = l.id ∧ l'.owner = l.owner ∧ l'.denom = l.denom ∧
        l.amount ≤ l'.amount) ∨
    (∃ x l' n, op = .unlock l.owner l.id (some (l.denom, x)) ∧ l' ∈ (step p s op).1.locks ∧
        n ∈ (step p s op).1.locks ∧ l'.id = l.id ∧ n.id = s.lastId + 1 ∧ l'.owner = l.owner ∧
        n.owner = l.owner ∧ l'.denom = l.denom ∧ n.denom = l.denom ∧ l'.amount + n.amount = l.amount) ∨
    (∃ c, op = .force l.owner l.id c ∧ l.owner ∈ p.allowed) ∨
    (op = .endBlock ∧ minHeightAutoWithdraw ≤ s.height ∧ (∀ l' ∈ (step p s op).1.locks, l'.id ≠ l.id) ∧
      ∃ t0 e, l.startedAt = some t0 ∧ l.endTime = some e ∧ e = t0 + l.duration ∧ e ≤ s.now) := by
  have hf := lock_fate p h op hl
  cases hf with
  | same hm => exact Or.inl ⟨l, hm, rfl, rfl, rfl, Nat.le_refl _⟩
  | topup amt _ _ hm => exact Or.inl ⟨_, hm, rfl, rfl, rfl, by simp⟩
  | started c _ _ hm => exact Or.inl ⟨_, hm, rfl, rfl, rfl, Nat.le_refl _⟩
  | split x hop _ _ hx hm hn =>
    exact Or.inr (Or.inl ⟨x, _, _, hop, hm, hn, rfl, rfl, rfl, rfl, rfl, rfl, by simp; omega⟩)
  | extended dur _ _ _ hm => exact Or.inl ⟨_, hm, rfl, rfl, rfl, Nat.le_refl _⟩
  | forcedPart x hop ha _ _ _ => exact Or.inr (Or.inr (Or.inl ⟨_, hop, ha⟩))
  | forced c hop ha _ => exact Or.inr (Or.inr (Or.inl ⟨_, hop, ha⟩))
  | matured hop hh hm hgone =>
    obtain ⟨e, he, hle⟩ := matured_unlocking hm
    obtain ⟨t0, h1, h2, _⟩ := (h.ghost l hl).2 e he
    exact Or.inr (Or.inr (Or.inr ⟨hop, hh, hgone, t0, e, h1, he, h2, hle⟩))

/-- the unlock clock is started only by the owner: a lock of the next state whose unlocking started
    at `t0` either already carried that start time, or `t0` is the current block time and the step is
    a begin-unlock signed by the lock's owner, which set end time = now + duration -/
theorem unlock_started_only_by_owner (p : Params) {s : State} (h : Inv s) (op : Op) {l' : Lock}
    (hl' : l' ∈ (step p s op).1.locks) {t0 : Nat} (hs : l'.startedAt = some t0) :
    (∃ l ∈ s.locks, l.id = l'.id ∧ l.startedAt = some t0) ∨
    (t0 = s.now ∧ l'.endTime = some (s.now + l'.duration) ∧ ∃ id c, op = .unlock l'.owner id c) := by
  have hinv' := step_inv p h op
  rcases lock_origin p h op hl' with ⟨l, hl, hid⟩ | ⟨_, hnew⟩
  · have huniq : ∀ x ∈ (step p s op).1.locks, x.id = l.id → x = l' :=
      fun x hx hxid => eq_of_id_eq hinv'.nodup hx hl' (by rw [hxid, hid])
    have hf := lock_fate p h op hl
    cases hf with
    | same hm => have := huniq _ hm rfl; subst this; exact Or.inl ⟨_, hl, rfl, hs⟩
    | topup amt _ _ hm => have := huniq _ hm rfl; subst this; exact Or.inl ⟨_, hl, rfl, hs⟩
    | started c hop _ hm =>
      have := huniq _ hm rfl; subst this
      simp only [Option.some.injEq] at hs
      exact Or.inr ⟨hs.symm, rfl, _, _, hop⟩
    | split x _ _ _ _ hm _ => have := huniq _ hm rfl; subst this; exact Or.inl ⟨_, hl, rfl, hs⟩
    | extended dur _ _ _ hm => have := huniq _ hm rfl; subst this; exact Or.inl ⟨_, hl, rfl, hs⟩
    | forcedPart x _ _ _ _ hm => have := huniq _ hm rfl; subst this; exact Or.inl ⟨_, hl, rfl, hs⟩
    | forced c _ _ hgone => exact absurd hid.symm (hgone l' hl')
    | matured _ _ _ hgone => exact absurd hid.symm (hgone l' hl')
  · rcases hnew with ⟨amt, _, _, hn, _⟩ | ⟨id, x, hop, he, hst, _⟩
    · rw [hn] at hs; cases hs
    · rw [hst] at hs
      simp only [Option.some.injEq] at hs
      exact Or.inr ⟨hs.symm, he, id, _, hop⟩

/-- **maturity exactly at the end time**: from height 6 on, the EndBlocker removes exactly the locks
    whose end time is `<= now` (a lock whose end time is `now + 1ns` stays), pays every owner exactly
    the coins of their matured locks, and touches nothing else; below height 6 it does nothing -/
theorem endBlock_returns_exactly_the_matured (p : Params) {s : State} (h : Inv s) :
    (minHeightAutoWithdraw ≤ s.height →
      (step p s .endBlock).1.locks = s.locks.filter (fun l => !matured s.now l) ∧
      (∀ a d, (step p s .endBlock).1.bal a d =
        s.bal a d + total (fun l => matured s.now l && (l.owner == a && l.denom == d)) s.locks)) ∧
    (s.height < minHeightAutoWithdraw → (step p s .endBlock).1 = s) := by
  constructor
  · intro hh
    obtain ⟨s', he, _, _, _, _, hlocks, hbal⟩ := endBlock_spec h hh
    simp only [step]
    rw [he]
    exact ⟨hlocks, hbal⟩
  · intro hlt
    simp only [step]
    unfold endBlock
    simp only [hlt, if_true]

theorem matured_iff (now : Nat) (l : Lock) : matured now l = true ↔ ∃ e, l.endTime = some e ∧ e ≤ now := by
  constructor
  · exact matured_unlocking
  · rintro ⟨e, he, hle⟩
    simp [matured, he, hle]

/-! ## split / top-up / extend conserve, durations only grow -/

/-- **split / top-up / extend conserve**: a begin-unlock (full or partial: split) and an extend
    leave every owner's locked total and free balance of every denom unchanged; an accepted lock /
    top-up of `amt` raises the signer's locked total of that denom by exactly `amt` -/
theorem split_topup_extend_conserve (p : Params) {s : State} (h : Inv s) :
    (∀ a id c a' d', lockedOwner (step p s (.unlock a id c)).1.locks a' d' = lockedOwner s.locks a' d' ∧
        (step p s (.unlock a id c)).1.bal a' d' = s.bal a' d') ∧
    (∀ a id dur a' d', lockedOwner (step p s (.extend a id dur)).1.locks a' d' = lockedOwner s.locks a' d' ∧
        (step p s (.extend a id dur)).1.bal a' d' = s.bal a' d') ∧
    (∀ a d amt dur id, (step p s (.lock a d amt dur)).2 = .ok id →
        ∀ a' d', lockedOwner (step p s (.lock a d amt dur)).1.locks a' d' =
          lockedOwner s.locks a' d' + (if a' = a ∧ d' = d then amt else 0)) := by
  refine ⟨?_, ?_, ?_⟩
  · intro a id c a' d'
    have hb : (step p s (.unlock a id c)).1.bal a' d' = s.bal a' d' := by
      simp only [step]
      rcases beginUnlocking_cases s a id c with ⟨e, he⟩ | ⟨lt, _, _, _, _, _, hc⟩
      · rw [he]
      · rcases hc with ⟨_, he⟩ | ⟨_, he⟩ <;> rw [he] <;> rfl
    refine ⟨?_, hb⟩
    rcases owner_total_step p h (.unlock a id c) a' d' with ht | ⟨_, _, _, _, hop, _⟩
    · omega
    · cases hop
  · intro a id dur a' d'
    have hb : (step p s (.extend a id dur)).1.bal a' d' = s.bal a' d' := by
      simp only [step]
      rcases extendLockup_cases s a id dur with ⟨e, he⟩ | ⟨lt, _, _, _, _, he⟩
      · rw [he]
      · rw [he]; rfl
    refine ⟨?_, hb⟩
    rcases owner_total_step p h (.extend a id dur) a' d' with ht | ⟨_, _, _, _, hop, _⟩
    · omega
    · cases hop
  · intro a d amt dur id hok a' d'
    simp only [step] at hok ⊢
    rcases lockTokens_cases p s a d amt dur with ⟨e, he⟩ | ⟨_, _, _, _, t, ht, hc⟩
    · rw [he] at hok; cases hok
    · obtain ⟨fr, _, _⟩ := frame_charge ht
      rcases hc with ⟨lt, hlt, he⟩ | ⟨_, he⟩
      · have hmem := List.mem_of_find?_eq_some hlt
        obtain ⟨o1, o2, _, _⟩ := sameLock_true (List.find?_some hlt)
        have hs := total_setLock (fun l => l.owner == a' && l.denom == d') h.nodup hmem
          (n := { lt with amount := lt.amount + amt }) rfl
        rw [w_own a' d' lt, w_own a' d' _] at hs
        rw [he]
        simp only [addToLock, lockedOwner, fr.locks]
        generalize total _ (setLock _ _) = N at hs ⊢
        simp only [o1, o2] at hs
        by_cases c1 : a' = a ∧ d' = d
        · simp only [if_pos c1] at hs ⊢; omega
        · simp only [if_neg c1] at hs ⊢; omega
      · rw [he]
        simp only [createLock, lockedOwner, fr.locks, total_append, total_single, w_own]

/-- **until then no message by anyone moves them**: an account's locked total of a denom goes down
    only at an EndBlocker (maturity, see `exit_only_to_owner_after_period`) or by that account's own
    force-unlock while it is on the allow-list; no message of any other signer, and no lock /
    begin-unlock / extend at all, lowers it -/
theorem locked_total_decreases_only_when_due_or_forced (p : Params) {s : State} (h : Inv s) (op : Op)
    (a d : Nat) (hdec : lockedOwner (step p s op).1.locks a d < lockedOwner s.locks a d) :
    op = .endBlock ∨ ∃ id c, op = .force a id c ∧ a ∈ p.allowed := by
  have htot := owner_total_step p h op a d
  cases op with
  | endBlock => exact Or.inl rfl
  | beginBlock dt => exact absurd hdec (Nat.lt_irrefl _)
  | unlock a0 id c =>
    have := ((split_topup_extend_conserve p h).1 a0 id c a d).1
    omega
  | extend a0 id dur =>
    have := ((split_topup_extend_conserve p h).2.1 a0 id dur a d).1
    omega
  | lock a0 d0 amt dur =>
    simp only [step] at hdec
    rcases lockTokens_cases p s a0 d0 amt dur with ⟨e, he⟩ | ⟨_, _, _, _, t, _, hc⟩
    · rw [he] at hdec; exact absurd hdec (Nat.lt_irrefl _)
    · have hok : ∃ id, (step p s (.lock a0 d0 amt dur)).2 = .ok id := by
        simp only [step]
        rcases hc with ⟨lt, _, he⟩ | ⟨_, he⟩ <;> (rw [he]; exact ⟨_, rfl⟩)
      obtain ⟨id, hok⟩ := hok
      have := (split_topup_extend_conserve p h).2.2 a0 d0 amt dur id hok a d
      simp only [step] at this
      omega
  | force a0 id c =>
    right
    simp only [step] at hdec htot
    rcases forceUnlock_cases p s a0 id c with ⟨e, he⟩ | ⟨lt, _, ho, ha, hv, hex, hc⟩
    · rw [he] at hdec; exact absurd hdec (Nat.lt_irrefl _)
    · by_cases haa : a = a0
      · exact ⟨id, c, by rw [haa], by rw [haa]; exact ha⟩
      · exfalso
        have hne : ¬ (a = lt.owner ∧ d = lt.denom) := fun e => haa (by rw [e.1, ho])
        rcases htot with ht | ⟨_, _, _, _, hop, _⟩
        · rcases hc with ⟨_, t, ht', he⟩ | ⟨_, t, ht', he⟩
          · obtain ⟨_, _, _, _, _, _, _, hb⟩ := fromModule_some ht'
            rw [he] at hdec ht
            have hb' := hb a d
            simp only [if_neg hne] at hb'
            simp only [shrinkLock] at hdec ht
            omega
          · obtain ⟨_, _, _, _, _, _, _, hb⟩ := fromModule_some ht'
            rw [he] at hdec ht
            have hb' := hb a d
            simp only [if_neg hne] at hb'
            simp only [removeLock] at hdec ht
            omega
        · cases hop

/-- **durations only grow** (one step): a lock keeps its owner and denom, its duration never
    shrinks and changes only by its owner's `MsgExtendLockup` while it is not unlocking; once a
    lock is unlocking, its end time and duration are frozen -/
theorem duration_monotone (p : Params) {s : State} (h : Inv s) (op : Op) {l l' : Lock}
    (hl : l ∈ s.locks) (hl' : l' ∈ (step p s op).1.locks) (hid : l'.id = l.id) :
    l'.owner = l.owner ∧ l'.denom = l.denom ∧ l.duration ≤ l'.duration ∧
    (l.duration < l'.duration → op = .extend l.owner l.id l'.duration ∧ l.endTime = none) ∧
    (∀ e, l.endTime = some e → l'.endTime = some e ∧ l'.duration = l.duration) := by
  have hinv' := step_inv p h op
  have huniq : ∀ x ∈ (step p s op).1.locks, x.id = l.id → x = l' :=
    fun x hx hxid => eq_of_id_eq hinv'.nodup hx hl' (by rw [hxid, hid])
  have hf := lock_fate p h op hl
  cases hf with
  | same hm =>
    have := huniq _ hm rfl; subst this
    exact ⟨rfl, rfl, Nat.le_refl _, fun hh => absurd hh (Nat.lt_irrefl _), fun e he => ⟨he, rfl⟩⟩
  | topup amt _ hn hm =>
    have := huniq _ hm rfl; subst this
    exact ⟨rfl, rfl, Nat.le_refl _, fun hh => absurd hh (Nat.lt_irrefl _), fun e he => ⟨he, rfl⟩⟩
  | started c _ hn hm =>
    have := huniq _ hm rfl; subst this
    exact ⟨rfl, rfl, Nat.le_refl _, fun hh => absurd hh (Nat.lt_irrefl _),
      fun e he => by rw [hn] at he; cases he⟩
  | split x _ hn _ _ hm _ =>
    have := huniq _ hm rfl; subst this
    exact ⟨rfl, rfl, Nat.le_refl _, fun hh => absurd hh (Nat.lt_irrefl _), fun e he => ⟨he, rfl⟩⟩
  | extended dur hop hn hd hm =>
    have := huniq _ hm rfl; subst this
    exact ⟨rfl, rfl, Nat.le_of_lt hd, fun _ => ⟨hop, hn⟩, fun e he => by rw [hn] at he; cases he⟩
  | forcedPart x _ _ _ _ hm =>
    have := huniq _ hm rfl; subst this
    exact ⟨rfl, rfl, Nat.le_refl _, fun hh => absurd hh (Nat.lt_irrefl _), fun e he => ⟨he, rfl⟩⟩
  | forced c _ _ hgone => exact absurd hid (hgone l' hl')
  | matured _ _ _ hgone => exact absurd hid (hgone l' hl')

/-- an id that is gone (at or below the counter, no lock) stays gone: ids are never reused -/
theorem id_stays_gone (p : Params) : ∀ (ops : List Op) {s : State}, Inv s → ∀ id, id ≤ s.lastId →
    (∀ x ∈ s.locks, x.id ≠ id) → ∀ x ∈ (run p s ops).locks, x.id ≠ id
  | [], _, _, _, _, hgone => hgone
  | op :: ops, s, h, id, hle, hgone => by
    apply id_stays_gone p ops (step_inv p h op) id (Nat.le_trans hle (lastId_mono p h op))
    intro x hx hxid
    rcases lock_origin p h op hx with ⟨l, hl, hlid⟩ | ⟨hnew, _⟩
    · exact hgone l hl (by rw [hlid, hxid])
    · omega

/-- **durations only grow** (any history): whatever sequence of operations follows, a lock that still
    exists has its original owner and denom and a duration at least as long as before -/
theorem duration_monotone_run (p : Params) : ∀ (ops : List Op) {s : State}, Inv s → ∀ {l l' : Lock},
    l ∈ s.locks → l' ∈ (run p s ops).locks → l'.id = l.id →
    l'.owner = l.owner ∧ l'.denom = l.denom ∧ l.duration ≤ l'.duration
  | [], s, h, l, l', hl, hl', hid => by
    have := eq_of_id_eq h.nodup hl' hl hid
    subst this
    exact ⟨rfl, rfl, Nat.le_refl _⟩
  | op :: ops, s, h, l, l', hl, hl', hid => by
    have hinv1 := step_inv p h op
    by_cases hex : ∃ l1 ∈ (step p s op).1.locks, l1.id = l.id
    · obtain ⟨l1, hl1, hid1⟩ := hex
      obtain ⟨a1, a2, a3, _⟩ := duration_monotone p h op hl hl1 hid1
      obtain ⟨b1, b2, b3⟩ := duration_monotone_run p ops hinv1 hl1 hl' (by rw [hid, hid1])
      exact ⟨by rw [b1, a1], by rw [b2, a2], Nat.le_trans a3 b3⟩
    · have hgone : ∀ x ∈ (step p s op).1.locks, x.id ≠ l.id := fun x hx hxid => hex ⟨x, hx, hxid⟩
      have hle := Nat.le_trans (h.idle l hl).2 (lastId_mono p h op)
      exact absurd hid (id_stays_gone p ops hinv1 l.id hle hgone l' hl')

/-- locks appear only through their owner: a lock of the next state continues an existing lock, or
    has the next fresh id and is its owner's own deposit (not unlocking) or the part its owner's
    partial begin-unlock split off an own lock (unlocking from now) -/
theorem locks_appear_only_by_owner (p : Params) {s : State} (h : Inv s) (op : Op) {l' : Lock}
    (hl' : l' ∈ (step p s op).1.locks) :
    (∃ l ∈ s.locks, l.id = l'.id) ∨
    (l'.id = s.lastId + 1 ∧
      ((∃ amt, op = .lock l'.owner l'.denom amt l'.duration ∧ l'.endTime = none ∧ l'.startedAt = none ∧
          l'.amount = amt ∧ (step p s op).2 = .ok l'.id) ∨
       (∃ id x, op = .unlock l'.owner id (some (l'.denom, x)) ∧ l'.endTime = some (s.now + l'.duration) ∧
          l'.startedAt = some s.now ∧ l'.amount = x ∧
          ∃ l ∈ s.locks, l.id = id ∧ l.owner = l'.owner ∧ l.denom = l'.denom ∧ l.duration = l'.duration ∧
            x < l.amount))) :=
  lock_origin p h op hl'

/-- a lock below the minimum duration is never created -/
theorem min_duration_enforced (p : Params) (s : State) (a d amt dur : Nat) (hlt : dur < p.minDur) :
    (step p s (.lock a d amt dur)).1 = s ∧ ∃ e, (step p s (.lock a d amt dur)).2 = .err e := by
  simp only [step]
  rcases lockTokens_cases p s a d amt dur with ⟨e, he⟩ | ⟨_, _, hmin, _⟩
  · rw [he]; exact ⟨rfl, e, rfl⟩
  · omega

/-! ## non-vacuity: the hypotheses are met and every branch is taken by concrete histories

  min duration 5, fee 7, actor 1 on the force-unlock allow-list, fee denom 0; everybody starts with
  1000 of every denom; block height 6 (auto-withdraw active), time 0. -/

def pEx : Params := ⟨5, 7, [1], 0⟩
def sEx : State := init (fun _ _ => 1000) 0 6

/-- lock 100, top up 50 (same owner/denom/duration), partial begin-unlock of 30 (split -> lock 2),
    extend lock 1 to 20, another owner locks denom 1, 9 ns pass: nothing matured yet -/
def opsEx : List Op :=
  [.lock 0 0 100 10, .lock 0 0 50 10, .unlock 0 1 (some (0, 30)), .extend 0 1 20, .lock 1 1 40 10,
   .beginBlock 9, .endBlock]

example : Inv sEx := init_inv _ _ _
example : ((run pEx sEx opsEx).locks.map (fun l => (l.id, l.owner, l.duration, l.endTime, l.denom, l.amount)))
    = [(1, 0, 20, none, 0, 120), (2, 0, 10, some 10, 0, 30), (3, 1, 10, none, 1, 40)] := by decide
-- custody / accumulation (all durations: probes at 10, 11, 20, 21) / fee
example : (run pEx sEx opsEx).modBal 0 = 150 ∧ (run pEx sEx opsEx).modBal 1 = 40 := by decide
example : lockedDenom (run pEx sEx opsEx).locks 0 = 150 := by decide
example : (accQuery (run pEx sEx opsEx).acc 0 10, accQuery (run pEx sEx opsEx).acc 0 11,
           accQuery (run pEx sEx opsEx).acc 0 20, accQuery (run pEx sEx opsEx).acc 0 21) = (150, 120, 120, 0) := by decide
example : (run pEx sEx opsEx).bal 0 0 = 1000 - 150 - 2 * 7 := by decide
-- maturity exactly at the boundary: at now = 9 lock 2 (end 10) stays; one more ns and it is paid out
example : (step pEx (run pEx sEx opsEx) .endBlock).1.locks.length = 3 := by decide
example : ((run pEx sEx (opsEx ++ [.beginBlock 1, .endBlock])).locks.map (·.id)) = [1, 3] := by decide
example : (run pEx sEx (opsEx ++ [.beginBlock 1, .endBlock])).bal 0 0 = 1000 - 150 - 14 + 30 := by decide
example : (run pEx sEx (opsEx ++ [.beginBlock 1, .endBlock])).modBal 0 = 120 := by decide
-- below height 6 the EndBlocker does nothing
example : ((run pEx (init (fun _ _ => 1000) 0 1) ([.lock 0 0 100 10, .unlock 0 1 none, .beginBlock 50, .endBlock])).locks.map (·.id)) = [1] := by decide
-- nobody else: actor 1 (even though allow-listed) cannot unlock / extend / force actor 0's lock 1
example : (step pEx (run pEx sEx opsEx) (.unlock 1 1 none)).2 = .err .notOwner := by decide
example : (step pEx (run pEx sEx opsEx) (.extend 1 1 30)).2 = .err .notOwner := by decide
example : (step pEx (run pEx sEx opsEx) (.force 1 1 none)).2 = .err .notOwner := by decide
-- the owner, not on the allow-list, cannot force-unlock; the allow-listed owner can (partially, too)
example : (step pEx (run pEx sEx opsEx) (.force 0 1 none)).2 = .err .notAllowed := by decide
example : (step pEx (run pEx sEx opsEx) (.force 1 3 (some (1, 15)))).2 = .ok 0 := by decide
example : (step pEx (run pEx sEx opsEx) (.force 1 3 (some (1, 15)))).1.bal 1 1 = 1000 - 40 + 15 := by decide
example : (step pEx (run pEx sEx opsEx) (.force 1 3 none)).1.modBal 1 = 0 := by decide
-- durations only grow; an unlocking lock cannot be extended; below the minimum is refused
example : (step pEx (run pEx sEx opsEx) (.extend 0 1 20)).2 = .err .durNotGreater := by decide
example : (step pEx (run pEx sEx opsEx) (.extend 0 2 30)).2 = .err .isUnlocking := by decide
example : (step pEx sEx (.lock 0 0 100 4)).2 = .err .belowMin := by decide
example : (step pEx sEx (.lock 0 0 994 10)).2 = .err .feeFunds := by decide
example : (step pEx sEx (.lock 0 0 993 10)).2 = .ok 1 := by decide
-- extending lock 3 to the duration of another lock of the same owner, then topping up: lowest id wins
example : ((run pEx sEx [.lock 0 0 10 10, .lock 0 0 10 5, .extend 0 2 10, .lock 0 0 7 10]).locks.map
    (fun l => (l.id, l.duration, l.amount))) = [(1, 10, 17), (2, 10, 10)] := by decide

end DymVerif.C14
