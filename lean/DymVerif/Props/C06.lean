/-
  Props/C06 — sequencer bonds are fully backed and leave only by refund, slash or reward.
-/
import DymVerif.Lemmas.CoreCustody4
namespace DymVerif.C06
open DymVerif DymVerif.Core

def exParams : Params where
  dispute := 2
  lsBlocks := 5
  lsInterval := 2
  lsMul := ⟨0⟩
  lsAbs := 0
  dishonorSU := 1
  dishonorL := 1
  kickThr := 2
  noticePeriod := 10

def C06ex : Params × List Op := (exParams, [.createRollapp 0 9 10, .fund 1 100, .fund 2 100, .createSeq 1 0 10 true,
  .createSeq 2 0 15 true, .bondInc 2 5 true, .begin_ 5, .end_ []])

/-- a rejected message leaves the state untouched -/
theorem reject_unchanged (s : St) (o : Op) (e : Err) (h : (step s o).2 = some e) : (step s o).1 = s := by
  unfold step at *
  cases h' : apply s o with
  | ok s' => simp [h'] at h
  | error e' => simp [h']

/-- **Custody, every reachable state**: the sequencer module account holds exactly the sum of all
    sequencers' recorded bonds — for every parameter set and every operation sequence (create,
    increase, decrease, unbond, slash, punish with or without rewardee, kick, forks, rotations,
    blocks with liveness slashes and injected finalization failures). -/
theorem custody_inv (p : Params) (ops : List Op) :
    (run p ops).modBal = ((run p ops).seqs.map (·.tokens)).sum := (run_cust p ops).bal

/-- one record per sequencer address, every reachable state -/
theorem one_record_per_address (p : Params) (ops : List Op) :
    (run p ops).seqs.Pairwise (fun a b => a.addr ≠ b.addr) := (run_cust p ops).nodup

/-- a withdrawal (partial decrease or full unbond) is refused while the sequencer is proposer or
    successor, or while any rollapp height it posted is not yet finalized -/
theorem withdraw_blocked (s s1 : St) (q q1 : Seq) (amt : Nat) (h : tryUnbond s q amt = .ok (s1, q1)) :
    isProposer s q = false ∧ isSuccessor s q = false ∧ s.seqH.any (·.1 == q.addr) = false := by
  unfold tryUnbond at h
  split at h
  · cases h
  · rename_i h1
    split at h
    · cases h
    · rename_i h2
      simp only [Bool.or_eq_true, not_or, Bool.not_eq_true] at h1
      exact ⟨h1.1, h1.2, Bool.eq_false_iff.2 h2⟩

/-- a withdrawal pays exactly the withdrawn amount to the sequencer's own address, and a sequencer
    left with a positive bond keeps at least its rollapp's minimum bond -/
theorem withdraw_exact_and_min_bond (s s1 : St) (q q1 : Seq) (amt : Nat) (r : Rollapp)
    (hr : getRa s q.rollapp = some r) (h : tryUnbond s q amt = .ok (s1, q1)) :
    q1.tokens + amt = q.tokens ∧
    getBal s1.bal q.addr = getBal s.bal q.addr + amt ∧
    s1.modBal + amt = s.modBal ∧
    (q1.tokens = 0 → q1.bonded = false) ∧
    (q1.tokens ≠ 0 → r.minBond ≤ q1.tokens) := by
  unfold tryUnbond at h
  split at h
  · cases h
  · split at h
    · cases h
    · rw [hr] at h
      dsimp only at h
      split at h
      · cases h
      · rename_i hpart
        split at h
        · cases h
        · rename_i s0 q0 h0
          have sp := sendFromModule_spec h0
          have hbal : getBal s0.bal q.addr = getBal s.bal q.addr + amt := by
            unfold sendFromModule at h0
            split at h0
            · cases h0
            · split at h0
              · cases h0
              · split at h0
                · cases h0
                · injection h0 with h0; injection h0 with e1 _; subst e1
                  show getBal (setBal s.bal q.addr (getBal s.bal q.addr + amt)) q.addr = _
                  exact getBal_setBal _ _ _
          injection h with h; injection h with e1 e2; subst e1; subst e2
          have ht : (if q0.tokens = 0 then { q0 with bonded := false } else q0).tokens = q0.tokens := by split <;> rfl
          refine ⟨by rw [ht]; exact sp.2.2.1, hbal, sp.2.1, ?_, ?_⟩
          · intro h0t; rw [ht] at h0t; simp [h0t]
          · intro hne
            rw [ht] at hne ⊢
            -- partial (amt ≠ tokens) and allowed ⇒ tokens - minBond ≥ amt
            have hp : ¬ ((amt != q.tokens) = true ∧ ((q.tokens : Int) - (r.minBond : Int) < (amt : Int))) := by
              simpa using hpart
            have hamt : amt ≠ q.tokens := by
              intro e; have := sp.2.2.1; omega
            have : ¬ ((q.tokens : Int) - (r.minBond : Int) < (amt : Int)) := by
              intro hx; exact hp ⟨by simpa using hamt, hx⟩
            have := sp.2.2.1
            omega

/-- a slash burns everything it takes except the reward, and the reward is the truncated share -/
theorem slash_accounting (s s1 : St) (q q1 : Seq) (amt : Nat) (mul : Dec) (rw : Option Addr)
    (h : slash s q amt mul rw = .ok (s1, q1)) :
    s1.modBal + q.tokens = s.modBal + q1.tokens ∧ q1.tokens ≤ q.tokens := by
  have := slash_spec h
  exact ⟨this.2.1, this.2.2.2⟩

/-- the fraud-punishment reward share: at most half of the bond (multiplier 0.5, truncated) -/
theorem punish_reward_at_most_half (tokens : Nat) :
    ((Dec.mulInt ⟨500000000000000000⟩ (tokens : Int)).truncateInt).toNat * 2 ≤ tokens := by
  unfold Dec.mulInt Dec.truncateInt chopTrunc decP
  simp only
  have h : ((500000000000000000 : Int) * (tokens : Int)).tdiv 1000000000000000000 = ((tokens : Int) / 2) := by
    rw [Int.tdiv_eq_ediv_of_nonneg (by omega)]
    omega
  rw [h]; omega

-- ================================================================================================
-- "A sequencer's bond decreases only by …"
-- ================================================================================================

/-- the three ways a bond can go down by `d` in one step `s —o→ s'` (see `bond_decreases_only_by`) -/
def BondDecreaseKind (s s' : St) (o : Op) (a : Addr) (d : Nat) : Prop :=
    ((o = .unbond a ∨ ∃ amt, o = .bondDec a amt) ∧
      getBal s'.bal a = getBal s.bal a + d ∧ s'.modBal + d = s.modBal ∧
      s'.burned = s.burned ∧ ∀ b, b ≠ a → getBal s'.bal b = getBal s.bal b) ∨
    (∃ rw paid, ((∃ au ra hh rev, o = .fraud au ra hh rev (some a) rw) ∨ (∃ au, o = .punish au a rw)) ∧
      paid * 2 ≤ d ∧ s'.modBal + d = s.modBal ∧ s'.burned = s.burned + (d - paid) ∧
      ∀ b, getBal s'.bal b = getBal s.bal b + (if rw = some b then paid else 0)) ∨
    (∃ fails, o = .end_ fails ∧ s'.bal = s.bal ∧ s'.modBal + s'.burned = s.modBal + s.burned ∧
      d ≤ s'.burned - s.burned)

/-- **bond_decreases_only_by** — for EVERY state `s`, op `o` and address `a`: if the step succeeds and the bond
    recorded for `a` is strictly smaller afterwards (`d` = the decrease), then the op is one of

    1. a withdrawal requested by `a` itself (`MsgUnbond` / `MsgDecreaseBond` signed by `a`): `a`'s own bank
       balance grew by exactly `d`, the module account shrank by exactly `d`, nothing was burned and nobody
       else's balance moved;
    2. a governance punishment of `a` — a fraud proposal naming `a` as the sequencer to punish, or the
       standalone `PunishSequencerProposal` against `a` (no fork): the module account shrank by exactly `d`,
       at most half of `d` (`paid`, truncated) went to the named rewardee — to nobody if none is named — and
       the rest `d - paid` was burned; no other balance moved;
    3. a block end (the liveness slash): no bank balance changed at all, whatever left the module account was
       burned, and `d` is covered by the burn.

    Every other op — and every op of kinds 1/2 naming another address — leaves `a`'s bond at least as
    high as it was (`apply_noDec`, `Withdrawn.others`, `Punished.others`). -/
theorem bond_decreases_only_by (s s' : St) (o : Op) (a : Addr) (q q' : Seq)
    (h : apply s o = .ok s') (hq : getSeq s a = some q) (hq' : getSeq s' a = some q') (hlt : q'.tokens < q.tokens) :
    BondDecreaseKind s s' o a (q.tokens - q'.tokens) := by
  unfold BondDecreaseKind
  -- a withdrawal by `a'`
  have wd : ∀ a', Withdrawn s s' a' → a' = a ∧
      getBal s'.bal a = getBal s.bal a + (q.tokens - q'.tokens) ∧ s'.modBal + (q.tokens - q'.tokens) = s.modBal ∧
      s'.burned = s.burned ∧ ∀ b, b ≠ a → getBal s'.bal b = getBal s.bal b := by
    intro a' w
    by_cases e : a' = a
    · subst e
      obtain ⟨q0, q1, h0, h1, _, hb, hm⟩ := w.ex
      rw [hq] at h0; cases h0
      rw [hq'] at h1; cases h1
      exact ⟨rfl, hb, hm, w.burned, w.otherBal⟩
    · exfalso
      have := w.others a (Ne.symm e)
      rw [hq, hq'] at this; cases this; omega
  by_cases c1 : ∃ a' amt, o = .bondDec a' amt
  · obtain ⟨a', amt, e⟩ := c1
    subst e
    obtain ⟨e, r⟩ := wd a' (decreaseBond_withdrawn h)
    subst e
    exact Or.inl ⟨Or.inr ⟨amt, rfl⟩, r⟩
  by_cases c2 : ∃ a', o = .unbond a'
  · obtain ⟨a', e⟩ := c2
    subst e
    obtain ⟨e, r⟩ := wd a' (unbond_withdrawn h)
    subst e
    exact Or.inl ⟨Or.inl rfl, r⟩
  by_cases c3 : ∃ au ra hh rev a' rw, o = .fraud au ra hh rev (some a') rw
  · obtain ⟨au, ra, hh, rev, a', rw, e⟩ := c3
    subst e
    rcases fraud_cases (show fraud s au ra hh rev (some a') rw = .ok s' from h) with ⟨hn, _⟩ | ⟨a'', hp, pp⟩
    · cases hn
    · cases hp
      by_cases e : a' = a
      · subst e
        obtain ⟨q0, q1, paid, h0, h1, _, _, hpl, hm, hbn, hbal⟩ := pp.ex
        rw [hq] at h0; cases h0
        rw [hq'] at h1; cases h1
        exact Or.inr (Or.inl ⟨rw, paid, Or.inl ⟨au, ra, hh, rev, rfl⟩, hpl, hm, hbn, hbal⟩)
      · exfalso
        have := pp.others a (Ne.symm e)
        rw [hq, hq'] at this
        have : q'.tokens = q.tokens := by simpa using this
        omega
  by_cases c5 : ∃ au a' rw, o = .punish au a' rw
  · obtain ⟨au, a', rw, e⟩ := c5
    subst e
    have pp := punish_punished (punishProposal_ok (show punishProposal s au a' rw = .ok s' from h)).2
    by_cases e : a' = a
    · subst e
      obtain ⟨q0, q1, paid, h0, h1, _, _, hpl, hm, hbn, hbal⟩ := pp.ex
      rw [hq] at h0; cases h0
      rw [hq'] at h1; cases h1
      exact Or.inr (Or.inl ⟨rw, paid, Or.inr ⟨au, rfl⟩, hpl, hm, hbn, hbal⟩)
    · exfalso
      have := pp.others a (Ne.symm e)
      rw [hq, hq'] at this
      have : q'.tokens = q.tokens := by simpa using this
      omega
  by_cases c4 : ∃ f, o = .end_ f
  · obtain ⟨f, e⟩ := c4
    subst e
    simp only [apply] at h
    injection h with h; subst h
    have b := endBlock_burnt s f
    obtain ⟨q0, h0, _, hc⟩ := b.tok a q' hq'
    rw [hq] at h0; cases h0
    exact Or.inr (Or.inr ⟨f, rfl, b.bal, b.conserve, by have := b.mono; omega⟩)
  · exfalso
    refine (apply_noDec h ?_ ?_ ?_ ?_ ?_).not_lt hq hq' hlt
    · intro a' amt e; exact c1 ⟨a', amt, e⟩
    · intro a' e; exact c2 ⟨a', e⟩
    · intro au ra hh rev a' rw e; exact c3 ⟨au, ra, hh, rev, a', rw, e⟩
    · intro f e; exact c4 ⟨f, e⟩
    · intro au a' rw e; exact c5 ⟨au, a', rw, e⟩

/-- **the standalone `PunishSequencerProposal`, exact accounting**: accepted only from the governance
    authority; the punished sequencer's whole bond `q.tokens` leaves the module account, `paid` = half
    of it (truncated) goes to the named rewardee — nothing if none is named — and the rest is burned; no
    other balance and no other bond moves. -/
theorem punish_proposal_accounting (s s' : St) (au : Bool) (a : Addr) (rw : Option Addr)
    (h : apply s (.punish au a rw) = .ok s') :
    au = true ∧ Punished s s' a rw (punishShare rw) :=
  ⟨(punishProposal_ok (show punishProposal s au a rw = .ok s' from h)).1,
   punish_punished (punishProposal_ok (show punishProposal s au a rw = .ok s' from h)).2⟩

/-- a sequencer record is never deleted by a step, so "the bond of `a` before / after" is always defined
    once `a` is a sequencer -/
theorem sequencer_record_persists (s s' : St) (o : Op) (a : Addr) (q : Seq)
    (h : apply s o = .ok s') (hq : getSeq s a = some q) : ∃ q', getSeq s' a = some q' := by
  by_cases c1 : ∃ a' amt, o = .bondDec a' amt
  · obtain ⟨a', amt, e⟩ := c1
    subst e
    have w := decreaseBond_withdrawn h
    by_cases e : a' = a
    · subst e; obtain ⟨_, q1, _, h1, _⟩ := w.ex; exact ⟨q1, h1⟩
    · exact ⟨q, by rw [w.others a (Ne.symm e)]; exact hq⟩
  by_cases c2 : ∃ a', o = .unbond a'
  · obtain ⟨a', e⟩ := c2
    subst e
    have w := unbond_withdrawn h
    by_cases e : a' = a
    · subst e; obtain ⟨_, q1, _, h1, _⟩ := w.ex; exact ⟨q1, h1⟩
    · exact ⟨q, by rw [w.others a (Ne.symm e)]; exact hq⟩
  by_cases c3 : ∃ au ra hh rev a' rw, o = .fraud au ra hh rev (some a') rw
  · obtain ⟨au, ra, hh, rev, a', rw, e⟩ := c3
    subst e
    rcases fraud_cases (show fraud s au ra hh rev (some a') rw = .ok s' from h) with ⟨hn, _⟩ | ⟨a'', hp, pp⟩
    · cases hn
    · cases hp
      by_cases e : a' = a
      · subst e; obtain ⟨_, q1, _, _, h1, _⟩ := pp.ex; exact ⟨q1, h1⟩
      · have := pp.others a (Ne.symm e)
        rw [hq] at this
        cases hx : getSeq s' a with
        | none => rw [hx] at this; cases this
        | some q1 => exact ⟨q1, rfl⟩
  by_cases c5 : ∃ au a' rw, o = .punish au a' rw
  · obtain ⟨au, a', rw, e⟩ := c5
    subst e
    have pp := punish_punished (punishProposal_ok (show punishProposal s au a' rw = .ok s' from h)).2
    by_cases e : a' = a
    · subst e; obtain ⟨_, q1, _, _, h1, _⟩ := pp.ex; exact ⟨q1, h1⟩
    · have := pp.others a (Ne.symm e)
      rw [hq] at this
      cases hx : getSeq s' a with
      | none => rw [hx] at this; cases this
      | some q1 => exact ⟨q1, rfl⟩
  by_cases c4 : ∃ f, o = .end_ f
  · obtain ⟨f, e⟩ := c4
    subst e
    simp only [apply] at h
    injection h with h; subst h
    -- block end rewrites records in place (`setSeq`): custody of the address list
    have hadd : ∀ (x : St) (ra : Nat), (handleLivenessEvent x ra).seqs.map (·.addr) = x.seqs.map (·.addr) := by
      intro x ra
      unfold handleLivenessEvent
      split
      · rfl
      · split
        · rfl
        · rename_i r _ s1 hs1
          split
          · rfl
          · unfold scheduleEvent
            show s1.seqs.map (·.addr) = _
            unfold slashLiveness at hs1
            split at hs1
            · injection hs1 with hs1; subst hs1; rfl
            · split at hs1
              · injection hs1 with hs1; subst hs1; rfl
              · split at hs1
                · cases hs1
                · rename_i s2 q2 hsl
                  injection hs1 with hs1; subst hs1
                  exact (addrs_replace s2.seqs { q2 with dishonor := q2.dishonor + s2.sqp.dishonorL }).trans
                    (congrArg (List.map (·.addr)) (slash_spec hsl).1)
    have hall : (endBlock s f).seqs.map (·.addr) = s.seqs.map (·.addr) := by
      unfold endBlock checkLiveness
      apply foldl_inv (fun x : St => x.seqs.map (·.addr) = s.seqs.map (·.addr))
      · unfold finalizeRollappStates
        split
        · rfl
        · rw [(finalizeAll_seqs _ _ _ _).1]
      · intro b e hb; rw [hadd b e.2]; exact hb
    have hmem : a ∈ (endBlock s f).seqs.map (·.addr) := by
      rw [hall]; exact List.mem_map.2 ⟨q, getSeq_mem hq, getSeq_addr hq⟩
    obtain ⟨q1, hq1, hq1a⟩ := List.mem_map.1 hmem
    cases hx : getSeq (endBlock s f) a with
    | some q2 => exact ⟨q2, rfl⟩
    | none => exact absurd hq1a (getSeq_none hx q1 hq1)
  · obtain ⟨q', hq', _⟩ := (apply_noDec h (fun a' amt e => c1 ⟨a', amt, e⟩) (fun a' e => c2 ⟨a', e⟩)
      (fun au ra hh rev a' rw e => c3 ⟨au, ra, hh, rev, a', rw, e⟩) (fun f e => c4 ⟨f, e⟩)
      (fun au a' rw e => c5 ⟨au, a', rw, e⟩)) a q hq
    exact ⟨q', hq'⟩

/-- **trace form**: along every run from genesis, a bond that is lower after the next op than before it was
    lowered by one of the three kinds of `bond_decreases_only_by`, with that accounting — in particular a
    rejected op lowers nothing. -/
theorem bond_decreases_only_by_run (p : Params) (ops : List Op) (o : Op) (a : Addr) (q q' : Seq)
    (hq : getSeq (run p ops) a = some q) (hq' : getSeq (run p (ops ++ [o])) a = some q') (hlt : q'.tokens < q.tokens) :
    BondDecreaseKind (run p ops) (run p (ops ++ [o])) o a (q.tokens - q'.tokens) := by
  have hr : run p (ops ++ [o]) = (step (run p ops) o).1 := by
    unfold run; rw [List.foldl_append]; rfl
  have hap : apply (run p ops) o = .ok (run p (ops ++ [o])) := by
    rw [hr] at hq' ⊢
    unfold step at hq' ⊢
    cases h : apply (run p ops) o with
    | ok s' => rfl
    | error e =>
      exfalso
      rw [h] at hq'
      simp only at hq'
      rw [hq] at hq'; cases hq'; omega
  exact bond_decreases_only_by _ _ o a q q' hap hq hq' hlt

-- non-vacuity: each of the three kinds occurs, with the stated accounting
def exLive : Params := { exParams with lsBlocks := 1, lsInterval := 1, lsAbs := 3 }
def exPre : List Op := [.createRollapp 0 9 10, .fund 1 100, .fund 2 100, .createSeq 1 0 10 true, .createSeq 2 0 15 true]
def exBD (h : Nat) : BD := { height := h, hasTs := true, drs := 1, rootOk := true }
def exUpd : Op := .update { ra := 0, sender := 1, start := 1, num := 2, rev := 0, last := false, bds := [exBD 1, exBD 2] }

/-- a partial withdrawal of the non-proposer a2: bond 15 → 12, bank 85 → 88, module account 25 → 22 -/
example : ((getSeq (run exLive exPre) 2).map (·.tokens), (getSeq (run exLive (exPre ++ [.bondDec 2 3])) 2).map (·.tokens),
    getBal (run exLive exPre).bal 2, getBal (run exLive (exPre ++ [.bondDec 2 3])).bal 2,
    (run exLive exPre).modBal, (run exLive (exPre ++ [.bondDec 2 3])).modBal) = (some 15, some 12, 85, 88, 25, 22) := by decide
/-- two block ends with liveness slashes of 3 each on the proposer a1: bond 10 → 4, 6 burned, balances untouched -/
example : ((getSeq (run exLive (exPre ++ [.begin_ 1, .end_ [], .begin_ 1, .end_ []])) 1).map (·.tokens),
    (run exLive (exPre ++ [.begin_ 1, .end_ [], .begin_ 1, .end_ []])).burned,
    (run exLive (exPre ++ [.begin_ 1, .end_ [], .begin_ 1, .end_ []])).bal == (run exLive exPre).bal) = (some 4, 6, true) := by decide
/-- a fraud proposal punishing a1 with rewardee a7: bond 10 → 0, 5 paid to a7, 5 burned -/
example : ((getSeq (run exLive (exPre ++ [exUpd, .bridge 0 1, .fraud true 0 2 0 (some 1) (some 7)])) 1).map (·.tokens),
    getBal (run exLive (exPre ++ [exUpd, .bridge 0 1, .fraud true 0 2 0 (some 1) (some 7)])).bal 7,
    (run exLive (exPre ++ [exUpd, .bridge 0 1, .fraud true 0 2 0 (some 1) (some 7)])).burned) = (some 0, 5, 5) := by decide

-- ================================================================================================
-- recipients the bank refuses (blocked module accounts)
-- ================================================================================================

/-- **`sendFromModule` never credits a blocked address**: a transfer out of the sequencer module account
    that succeeds was addressed to a recipient the bank accepts, and it leaves the balance of EVERY
    blocked address (`bank.BlockedAddr`, e.g. the distribution module account) exactly as it was. -/
theorem sendFromModule_never_credits_blocked (s s1 : St) (q q1 : Seq) (amt : Nat) (to : Addr)
    (h : sendFromModule s q amt to = .ok (s1, q1)) :
    blockedAddr to = false ∧ ∀ b, blockedAddr b = true → getBal s1.bal b = getBal s.bal b := by
  unfold sendFromModule at h
  split at h
  · cases h
  · split at h
    · cases h
    · rename_i hb
      split at h
      · cases h
      · injection h with h; injection h with e1 _; subst e1
        have hto : blockedAddr to = false := by simpa using hb
        refine ⟨hto, fun b hbb => ?_⟩
        show getBal (setBal s.bal to (getBal s.bal to + amt)) b = getBal s.bal b
        exact getBal_setBal_other _ _ _ _ (by intro e; subst e; rw [hto] at hbb; cases hbb)

/-- a transfer to a blocked recipient is refused with the bank's recipient error (unless the bond itself
    does not cover the amount — `Coin.Sub` panics first), before anything changes -/
theorem sendFromModule_blocked (s : St) (q : Seq) (amt : Nat) (to : Addr) (hb : blockedAddr to = true)
    (hle : amt ≤ q.tokens) : sendFromModule s q amt to = .error .blockedRecipient := by
  unfold sendFromModule
  rw [if_neg (by omega), if_pos hb]

/-- `PunishSequencer` with a blocked rewardee and a non-zero reward share fails with the bank's
    recipient error: the reward transfer's failure is the failure of the whole punishment. -/
theorem punish_blocked_rewardee (s : St) (a to : Addr) (q : Seq) (hq : getSeq s a = some q)
    (hb : blockedAddr to = true)
    (hrew : ((Dec.mulInt ⟨500000000000000000⟩ (q.tokens : Int)).truncateInt).toNat ≠ 0) :
    punish s a (some to) = .error .blockedRecipient := by
  unfold punish
  rw [hq]
  dsimp only
  unfold slash
  dsimp only
  rw [if_neg hrew, sendFromModule_blocked s q _ to hb (by have := punish_reward_at_most_half q.tokens; omega)]

/-- **punish_blocked_rewardee_refused** — a fraud proposal that names a sequencer to punish whose reward
    share is non-zero and a rewardee the bank refuses (a blocked module account) is REJECTED, whatever
    the state, and (by `reject_unchanged`) changes nothing: no bond is decremented, nothing is burned,
    nothing leaves the module account, no fork happens.  When the proposal passes the checks that come
    before the punishment (authority, height, rollapp, revision) the error is the bank's. -/
theorem punish_blocked_rewardee_refused (s : St) (au : Bool) (ra hh rev : Nat) (a to : Addr) (q : Seq)
    (hq : getSeq s a = some q) (hb : blockedAddr to = true)
    (hrew : ((Dec.mulInt ⟨500000000000000000⟩ (q.tokens : Int)).truncateInt).toNat ≠ 0) :
    (∃ e, (step s (.fraud au ra hh rev (some a) (some to))).2 = some e) ∧
    (step s (.fraud au ra hh rev (some a) (some to))).1 = s ∧
    (∀ r, au = true → hh ≠ 0 → getRa s ra = some r → revForHeight r hh = rev →
      (step s (.fraud au ra hh rev (some a) (some to))).2 = some .blockedRecipient) := by
  have key : ∃ e, apply s (.fraud au ra hh rev (some a) (some to)) = .error e ∧
      (∀ r, au = true → hh ≠ 0 → getRa s ra = some r → revForHeight r hh = rev → e = .blockedRecipient) := by
    show ∃ e, fraud s au ra hh rev (some a) (some to) = .error e ∧ _
    unfold fraud
    by_cases h1 : au = true
    · by_cases h2 : hh = 0
      · exact ⟨.invalid, by simp [h1, h2], fun r _ h _ _ => absurd h2 h⟩
      · cases h3 : getRa s ra with
        | none => exact ⟨.unknownRollapp, by simp [h1, h2], fun r _ _ h _ => by cases h⟩
        | some r =>
          by_cases h4 : revForHeight r hh = rev
          · refine ⟨.blockedRecipient, ?_, fun _ _ _ _ _ => rfl⟩
            simp only [h1, h2, h4, punish_blocked_rewardee s a to q hq hb hrew]
            simp
          · refine ⟨.wrongRevision, by simp [h1, h2, h4], fun r' _ _ hr hrev => ?_⟩
            cases hr; exact absurd hrev h4
    · exact ⟨.unauthorized, by simp [h1], fun r h _ _ _ => absurd h h1⟩
  obtain ⟨e, he, hcls⟩ := key
  have hs : (step s (.fraud au ra hh rev (some a) (some to))).2 = some e := by unfold step; rw [he]
  refine ⟨⟨e, hs⟩, reject_unchanged s _ e hs, fun r h1 h2 h3 h4 => ?_⟩
  rw [hs, hcls r h1 h2 h3 h4]

/-- the liveness slash and a punishment without rewardee never touch the recipient check (no reward
    transfer is attempted when the reward share is zero) -/
theorem slash_without_reward_ignores_rewardee (s : St) (q : Seq) (amt : Nat) (rw : Option Addr) :
    slash s q amt ⟨0⟩ rw = burn s q amt := by
  unfold slash
  have h0 : ((Dec.mulInt ⟨0⟩ (amt : Int)).truncateInt).toNat = 0 := by
    unfold Dec.mulInt Dec.truncateInt chopTrunc decP; simp
  simp only [h0]
  rfl

-- non-vacuity of kind 2 through the standalone proposal: a1 (bond 10) punished, rewardee a7 gets 5, 5 burned, no fork
def exPunished : St := run exLive (exPre ++ [exUpd, .punish true 1 (some 7)])
example : (getSeq exPunished 1).map (·.tokens) = some 0 ∧ getBal exPunished.bal 7 = 5 ∧ exPunished.burned = 5 ∧
    exPunished.modBal = 15 ∧ (getRa exPunished 0).map (·.proposer) = some (some 1) ∧
    (getRa exPunished 0).map (·.revs.length) = some 1 := by decide
-- ... and with a rewardee the bank refuses: rejected as a whole
example : (step (run exLive (exPre ++ [exUpd])) (.punish true 1 (some 900))).2 = some .blockedRecipient := by decide

-- non-vacuity: a1 (bond 10, reward share 5) punished with rewardee m0 = address 900 (the distribution
-- module account): rejected with the bank's recipient error, bond / module account / burn counter /
-- the blocked address's balance untouched, the rollapp not forked; the same proposal with the ordinary
-- rewardee a7 is accepted (example above)
example : blockedAddr 900 = true ∧ blockedAddr 7 = false ∧ blockedAddr 100007 = false := by decide
def exBlockedPre : St := run exLive (exPre ++ [exUpd, .bridge 0 1])
def exBlocked : St × Option Err := step exBlockedPre (.fraud true 0 2 0 (some 1) (some 900))
example : exBlocked.2 = some .blockedRecipient ∧
    ((getSeq exBlocked.1 1).map (·.tokens), exBlocked.1.modBal, exBlocked.1.burned, getBal exBlocked.1.bal 900) =
      (some 10, 25, 0, 0) ∧
    ((getRa exBlocked.1 0).map (·.revs.length), (getSeq exBlockedPre 1).map (·.tokens), exBlockedPre.modBal) =
      (some 1, some 10, 25) := by decide
/-- hypotheses of `punish_blocked_rewardee_refused` are satisfiable (reward share 5 ≠ 0) -/
example : ((Dec.mulInt ⟨500000000000000000⟩ ((10 : Nat) : Int)).truncateInt).toNat = 5 := by decide
/-- a bond of 1 has reward share 0: the punishment with a blocked rewardee goes through, all burned -/
example : ((Dec.mulInt ⟨500000000000000000⟩ ((1 : Nat) : Int)).truncateInt).toNat = 0 := by decide

-- non-vacuity: a concrete run with a bond, an increase and a liveness-free block keeps custody
example : (run C06ex.1 C06ex.2).modBal = 30 ∧ ((run C06ex.1 C06ex.2).seqs.map (·.tokens)).sum = 30 := by decide

end DymVerif.C06
