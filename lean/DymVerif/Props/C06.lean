/-
  Props/C06 — sequencer bonds are fully backed and leave only by refund, slash or reward.
-/
import DymVerif.Lemmas.CoreCustody3
namespace DymVerif.C06
open DymVerif DymVerif.Core

def exParams : Params where
  dispute := 2
  lsBlocks := 5
  lsInterval := 2
  lsMul := ⟨0⟩
  lsAbs := 0
  dishonorSU := 1
  dishonorL := 1
  kickThr := 2
  noticePeriod := 10

def C06ex : Params × List Op := (exParams, [.createRollapp 0 9 10, .fund 1 100, .fund 2 100, .createSeq 1 0 10 true,
  .createSeq 2 0 15 true, .bondInc 2 5 true, .begin_ 5, .end_ []])

/-- a rejected message leaves the state untouched -/
theorem reject_unchanged (s : St) (o : Op) (e : Err) (h : (step s o).2 = some e) : (step s o).1 = s := by
  unfold step at *
  cases h' : apply s o with
  | ok s' => simp [h'] at h
  | error e' => simp [h']

/-- **Custody, every reachable state**: the sequencer module account holds exactly the sum of all
    sequencers' recorded bonds — for every parameter set and every operation sequence (create,
    increase, decrease, unbond, slash, punish with or without rewardee, kick, forks, rotations,
    blocks with liveness slashes and injected finalization failures). -/
theorem custody_inv (p : Params) (ops : List Op) :
    (run p ops).modBal = ((run p ops).seqs.map (·.tokens)).sum := (run_cust p ops).bal

/-- one record per sequencer address, every reachable state -/
theorem one_record_per_address (p : Params) (ops : List Op) :
    (run p ops).seqs.Pairwise (fun a b => a.addr ≠ b.addr) := (run_cust p ops).nodup

/-- a withdrawal (partial decrease or full unbond) is refused while the sequencer is proposer or
    successor, or while any rollapp height it posted is not yet finalized -/
theorem withdraw_blocked (s s1 : St) (q q1 : Seq) (amt : Nat) (h : tryUnbond s q amt = .ok (s1, q1)) :
    isProposer s q = false ∧ isSuccessor s q = false ∧ s.seqH.any (·.1 == q.addr) = false := by
  unfold tryUnbond at h
  split at h
  · cases h
  · rename_i h1
    split at h
    · cases h
    · rename_i h2
      simp only [Bool.or_eq_true, not_or, Bool.not_eq_true] at h1
      exact ⟨h1.1, h1.2, Bool.eq_false_iff.2 h2⟩

/-- a withdrawal pays exactly the withdrawn amount to the sequencer's own address, and a sequencer
    left with a positive bond keeps at least its rollapp's minimum bond -/
theorem withdraw_exact_and_min_bond (s s1 : St) (q q1 : Seq) (amt : Nat) (r : Rollapp)
    (hr : getRa s q.rollapp = some r) (h : tryUnbond s q amt = .ok (s1, q1)) :
    q1.tokens + amt = q.tokens ∧
    getBal s1.bal q.addr = getBal s.bal q.addr + amt ∧
    s1.modBal + amt = s.modBal ∧
    (q1.tokens = 0 → q1.bonded = false) ∧
    (q1.tokens ≠ 0 → r.minBond ≤ q1.tokens) := by
  unfold tryUnbond at h
  split at h
  · cases h
  · split at h
    · cases h
    · rw [hr] at h
      dsimp only at h
      split at h
      · cases h
      · rename_i hpart
        split at h
        · cases h
        · rename_i s0 q0 h0
          have sp := sendFromModule_spec h0
          have hbal : getBal s0.bal q.addr = getBal s.bal q.addr + amt := by
            unfold sendFromModule at h0
            split at h0
            · cases h0
            · split at h0
              · cases h0
              · injection h0 with h0; injection h0 with e1 _; subst e1
                show getBal (setBal s.bal q.addr (getBal s.bal q.addr + amt)) q.addr = _
                exact getBal_setBal _ _ _
          injection h with h; injection h with e1 e2; subst e1; subst e2
          have ht : (if q0.tokens = 0 then { q0 with bonded := false } else q0).tokens = q0.tokens := by split <;> rfl
          refine ⟨by rw [ht]; exact sp.2.2.1, hbal, sp.2.1, ?_, ?_⟩
          · intro h0t; rw [ht] at h0t; simp [h0t]
          · intro hne
            rw [ht] at hne ⊢
            -- partial (amt ≠ tokens) and allowed ⇒ tokens - minBond ≥ amt
            have hp : ¬ ((amt != q.tokens) = true ∧ ((q.tokens : Int) - (r.minBond : Int) < (amt : Int))) := by
              simpa using hpart
            have hamt : amt ≠ q.tokens := by
              intro e; have := sp.2.2.1; omega
            have : ¬ ((q.tokens : Int) - (r.minBond : Int) < (amt : Int)) := by
              intro hx; exact hp ⟨by simpa using hamt, hx⟩
            have := sp.2.2.1
            omega

/-- a slash burns everything it takes except the reward, and the reward is the truncated share -/
theorem slash_accounting (s s1 : St) (q q1 : Seq) (amt : Nat) (mul : Dec) (rw : Option Addr)
    (h : slash s q amt mul rw = .ok (s1, q1)) :
    s1.modBal + q.tokens = s.modBal + q1.tokens ∧ q1.tokens ≤ q.tokens := by
  have := slash_spec h
  exact ⟨this.2.1, this.2.2.2⟩

/-- the fraud-punishment reward share: at most half of the bond (multiplier 0.5, truncated) -/
theorem punish_reward_at_most_half (tokens : Nat) :
    ((Dec.mulInt ⟨500000000000000000⟩ (tokens : Int)).truncateInt).toNat * 2 ≤ tokens := by
  unfold Dec.mulInt Dec.truncateInt chopTrunc decP
  simp only
  have h : ((500000000000000000 : Int) * (tokens : Int)).tdiv 1000000000000000000 = ((tokens : Int) / 2) := by
    rw [Int.tdiv_eq_ediv_of_nonneg (by omega)]
    omega
  rw [h]; omega

-- non-vacuity: a concrete run with a bond, an increase and a liveness-free block keeps custody
example : (run C06ex.1 C06ex.2).modBal = 30 ∧ ((run C06ex.1 C06ex.2).seqs.map (·.tokens)).sum = 30 := by decide

end DymVerif.C06
