/-
  Props/C04Clauses — further clauses of C04 over M-Packets:
  * `delayed_refund_only_recorded`, `delayed_is_recorded`: a delayed acknowledgement / timeout / receive
    moves no coin, writes no acknowledgement, releases nothing, and the packet is stored PENDING with its
    by-address index entry;
  * `effects_are_logged`: the ghost release log is tied to the real effects — a packet message or a
    finalization that changes a bank balance appends a log entry (so `release_only_final` and
    `release_at_most_once` are statements about balances, not only about the log);
  * `failed_refund_is_final`: what the code does when the refund fails at finalization.
-/
import DymVerif.Props.C04
namespace DymVerif.C04
open DymVerif DymVerif.Keys DymVerif.Packets

-- ------------------------------------------------------------------ delayed = only recorded

theorem eibcOnRefund_ok {s s2 : St} {p : Packet} (h : eibcOnRefund s p = .ok s2) : s2 = s ∨ ∃ o, s2 = setOrder s o := by
  unfold eibcOnRefund at h
  split at h
  · cases h; exact Or.inl rfl
  · split at h
    · cases h
    · cases h; exact Or.inr ⟨_, rfl⟩

/-- what `savePacket` leaves behind -/
def Recorded (s0 s' : St) (p : Packet) : Prop :=
  s'.bal = s0.bal ∧ s'.acks = s0.acks ∧ s'.log = s0.log ∧ p ∈ s'.packets ∧ (p.target, pkey p) ∈ s'.byAddr

theorem recorded_save (s0 : St) (p : Packet) : Recorded s0 (setPacket (addByAddr s0 p.target (pkey p)) p) p :=
  ⟨rfl, rfl, rfl, mem_setPacket.mpr (Or.inl rfl), mem_addByAddr.mpr (Or.inl rfl)⟩

/-- **delayed_refund_only_recorded** — an acknowledgement / timeout above the finalized height
    (`ackDelay`) moves no coin, writes no acknowledgement, logs no release: the packet is stored with
    status PENDING (`mkSentPacket` builds it pending) together with its index entry under the sender. -/
theorem delayed_refund_only_recorded {s0 s' : St} {p : Packet} {refund : Bool}
    (h : ackDelay s0 p refund = .ok (some s')) : Recorded s0 s' p := by
  unfold ackDelay at h
  split at h
  · cases h
  · split at h
    · split at h
      · cases h
      · rename_i s2 he
        cases h
        rcases eibcOnRefund_ok (eibcRefundHandler_ok he) with e | ⟨o, e⟩
        · rw [e]; exact recorded_save s0 p
        · rw [e]; exact recorded_save s0 p
    · cases h; exact recorded_save s0 p

/-- … for the whole message: whenever `OnAcknowledgementPacket` / `OnTimeoutPacket` stores a packet it
    does nothing else -/
theorem delayed_refund_only_recorded_msg {s0 s' : St} {x : Sent} {ph : Nat} {isTimeout isErr : Bool}
    (h : ackAuth s0 x ph isTimeout isErr = .ok (some s')) :
    s'.log ≠ s0.log ∨ ∃ p, p.status = .pending ∧ p.proofHeight = ph ∧ p.seq = x.seq ∧ p.chan = x.chan ∧ Recorded s0 s' p := by
  unfold ackAuth at h
  split at h
  · cases h
  · split at h
    · left
      unfold ackPass at h
      split at h
      · split at h
        · cases h
        · rename_i s1 hi
          cases h
          have f := (frame_icsRefund hi).log
          simp [logRelease, f]
      · cases h; simp [logRelease]
    · exact Or.inr ⟨_, rfl, rfl, rfl, rfl, delayed_refund_only_recorded h⟩

/-- **delayed_is_recorded** — a delayed receive (`.async`) stores the packet PENDING with its index entry
    under the receiver (and `delayed_only_recorded`: nothing else happens) -/
theorem delayed_is_recorded {s0 : St} {c seq : Nat} {p : Packet} {memo : Memo}
    (h : (recvDelay s0 c seq p memo).2 = .async) : Recorded s0 (recvDelay s0 c seq p memo).1 p := by
  cases hi : icsRecv s0 p true with
  | none => simp [recvDelay, hi, recvFail] at h
  | some sx =>
    cases he : eibcOnRecv (setPacket (addByAddr s0 p.target (pkey p)) p) p memo with
    | error e => simp [recvDelay, hi, he, recvFail] at h
    | ok s2 =>
      obtain ⟨o, rfl⟩ := eibcOnRecv_ok he
      simp only [recvDelay, hi, he]
      exact recorded_save s0 p

/-- the three ways `OnRecvPacket` ends -/
theorem recvAuth_cases (s0 : St) (c seq ph : Nat) (d : RecvData) :
    recvAuth s0 c seq ph d = recvFail s0 c seq ∨
    (∃ p ra, recvAuth s0 c seq ph d = recvPass s0 c seq p ra) ∨
    (∃ p, p.status = .pending ∧ p.ptype = .onRecv ∧ p.proofHeight = ph ∧ p.seq = seq ∧ p.chan = c ∧ some p.target = d.target ∧
      recvAuth s0 c seq ph d = recvDelay s0 c seq p d.memo) := by
  unfold recvAuth
  split
  · exact Or.inl rfl
  · split
    · exact Or.inl rfl
    · split
      · exact Or.inl rfl
      · rename_i tgt htgt
        split
        · exact Or.inr (Or.inl ⟨_, _, rfl⟩)
        · exact Or.inr (Or.inr ⟨_, rfl, rfl, rfl, rfl, rfl, htgt.symm, rfl⟩)

theorem recvPass_cases (s0 : St) (c seq : Nat) (p : Packet) (ra : Option Bytes) :
    recvPass s0 c seq p ra = recvFail s0 c seq ∨
    ∃ s1, s1.log = s0.log ∧ recvPass s0 c seq p ra = (writeAck (logRelease s1 p ra false) c seq true, .ackOk) := by
  unfold recvPass
  split
  · exact Or.inl rfl
  · rename_i s1 hi; exact Or.inr ⟨s1, (frame_icsRecv hi).log, rfl⟩

theorem delayed_is_recorded_auth {s0 : St} {c seq ph : Nat} {d : RecvData} (h : (recvAuth s0 c seq ph d).2 = .async) :
    ∃ p, p.status = .pending ∧ p.ptype = .onRecv ∧ p.proofHeight = ph ∧ p.seq = seq ∧ p.chan = c ∧ some p.target = d.target ∧
      p ∈ (recvAuth s0 c seq ph d).1.packets ∧ (p.target, pkey p) ∈ (recvAuth s0 c seq ph d).1.byAddr := by
  rcases recvAuth_cases s0 c seq ph d with e | ⟨p, ra, e⟩ | ⟨p, h1, h2, h3, h4, h5, h6, e⟩
  · rw [e] at h; simp [recvFail] at h
  · rw [e] at h; exact absurd h (recvPass_not_async _ _ _ _ _)
  · rw [e] at h ⊢
    have r := delayed_is_recorded h
    exact ⟨p, h1, h2, h3, h4, h5, h6, r.2.2.2.1, r.2.2.2.2⟩

theorem delayed_is_recorded_msg (s : St) (c seq ph : Nat) (d : RecvData) (h : (recvPacket s c seq ph d).2 = .async) :
    ∃ p, p.status = .pending ∧ p.ptype = .onRecv ∧ p.proofHeight = ph ∧ p.seq = seq ∧ p.chan = c ∧ some p.target = d.target ∧
      p ∈ (recvPacket s c seq ph d).1.packets ∧ (p.target, pkey p) ∈ (recvPacket s c seq ph d).1.byAddr := by
  rcases recvPacket_cases s c seq ph d with e | e
  · rw [e] at h; cases h
  · rw [e] at h ⊢
    unfold recvOpen at h ⊢
    split at h
    · cases h
    · rename_i hc
      rw [if_neg hc]
      split at h
      · exact absurd h (recvForward_not_async _ _ _ _ _ _)
      · exact delayed_is_recorded_auth h

-- ------------------------------------------------------------------ the log is tied to the effects

/-- `OnRecvPacket` either logs a release (and then acknowledges with success) or moves no coin -/
theorem recvAuth_logged_or_quiet (s0 : St) (c seq ph : Nat) (d : RecvData) :
    ((recvAuth s0 c seq ph d).2 = .ackOk ∧ ∃ e, (recvAuth s0 c seq ph d).1.log = s0.log ++ [e]) ∨
    ((recvAuth s0 c seq ph d).2 ≠ .ackOk ∧ (recvAuth s0 c seq ph d).1.bal = s0.bal ∧ (recvAuth s0 c seq ph d).1.log = s0.log) := by
  rcases recvAuth_cases s0 c seq ph d with e | ⟨p, ra, e⟩ | ⟨p, -, -, -, -, -, -, e⟩
  · rw [e]; exact Or.inr ⟨by simp [recvFail], rfl, rfl⟩
  · rw [e]
    rcases recvPass_cases s0 c seq p ra with e2 | ⟨s1, hl, e2⟩
    · rw [e2]; exact Or.inr ⟨by simp [recvFail], rfl, rfl⟩
    · rw [e2]; exact Or.inl ⟨rfl, logEntry s1 p ra false, by simp [writeAck, logRelease, hl]⟩
  · rw [e]
    by_cases ha : (recvDelay s0 c seq p d.memo).2 = .async
    · have := recvDelay_async ha
      exact Or.inr ⟨by rw [ha]; simp, this.1, this.2.2⟩
    · right
      cases hi : icsRecv s0 p true with
      | none => simp [recvDelay, hi, recvFail, writeAck]
      | some sx =>
        cases he : eibcOnRecv (setPacket (addByAddr s0 p.target (pkey p)) p) p d.memo with
        | error e => simp [recvDelay, hi, he, recvFail, writeAck]
        | ok s2 => simp [recvDelay, hi, he] at ha

theorem recvForward_logged_or_quiet (s0 : St) (c seq ph : Nat) (d : RecvData) (k : Nat) :
    (∃ e, (recvForward s0 c seq ph d k).1.log = s0.log ++ [e]) ∨
    ((recvForward s0 c seq ph d k).1.bal = s0.bal ∧ (recvForward s0 c seq ph d k).1.log = s0.log) := by
  unfold recvForward
  split
  · rename_i s1 hr
    split
    · rename_i s2 hs
      left
      rcases recvAuth_logged_or_quiet s0 c seq ph { d with target := some (pfmAddr c), memo := .none } with ⟨-, e, he⟩ | ⟨hne, -⟩
      · rw [hr] at he
        refine ⟨e, ?_⟩
        show s2.log = _
        rw [(frame_sendOpen (sendTransfer_ok hs)).2.2.2.1]
        exact he
      · rw [hr] at hne; exact absurd rfl hne
    · exact Or.inr ⟨rfl, rfl⟩
  · exact Or.inr ⟨rfl, rfl⟩

/-- **effects_are_logged (receive)** — a `MsgRecvPacket` that logs no release leaves every bank balance as it was -/
theorem effects_are_logged_recv (s : St) (c seq ph : Nat) (d : RecvData) (h : (recvPacket s c seq ph d).1.log = s.log) :
    (recvPacket s c seq ph d).1.bal = s.bal := by
  rcases recvPacket_cases s c seq ph d with e | e
  · rw [e]
  · rw [e] at h ⊢
    unfold recvOpen at h ⊢
    split
    · rfl
    · rename_i hc
      rw [if_neg hc] at h
      split
      · rename_i k hk
        rw [hk] at h
        rcases recvForward_logged_or_quiet { s with receipts := s.receipts ++ [(c, seq)] } c seq ph d k with ⟨e, he⟩ | ⟨hb, -⟩
        · rw [he] at h; simp at h
        · exact hb
      · rename_i hm
        have h' : (recvAuth { s with receipts := s.receipts ++ [(c, seq)] } c seq ph d).1.log = s.log := by
          split at h
          · rename_i k hk; exact absurd hk (hm k)
          · exact h
        rcases recvAuth_logged_or_quiet { s with receipts := s.receipts ++ [(c, seq)] } c seq ph d with ⟨-, e, he⟩ | ⟨-, hb, -⟩
        · rw [he] at h'; simp at h'
        · exact hb

/-- **effects_are_logged (acknowledgement / timeout)** -/
theorem effects_are_logged_ack {s s' : St} {c seq ph : Nat} {isTimeout isErr : Bool}
    (h0 : ackPacket s c seq ph isTimeout isErr = .ok (some s')) (hl : s'.log = s.log) : s'.bal = s.bal := by
  have h := ackPacket_ok h0
  unfold ackOpen at h
  split at h
  · cases h
  · split at h
    · cases h
    · rename_i x hx
      rcases delayed_refund_only_recorded_msg h with hne | ⟨p, _, _, _, _, r⟩
      · exact absurd hl hne
      · exact r.1

/-- **effects_are_logged (finalization)** — an accepted finalization always logs its release -/
theorem effects_are_logged_finalize {s s' : St} {k : Bytes} (h : finalizePacket s k = .ok s') :
    ∃ e, s'.log = s.log ++ [e] ∧ e.viaFinalize = true := by
  unfold finalizePacket at h
  split at h
  · cases h
  · rename_i p hp
    split at h
    · cases h
    · unfold updateAfterFinalization at h
      split at h
      · cases h
      · cases h
        refine ⟨logEntry (releaseEffect s p).1 p (some p.rollappId) true, ?_, rfl⟩
        rw [(frame_afterPacketStatusUpdated _ _ _ _).log]
        show (releaseEffect s p).1.log ++ _ = _
        rw [(frame_releaseEffect s p).log]

-- ------------------------------------------------------------------ a refund that fails at finalization

/-- **failed_refund_is_final** — when the refund (or the settlement of a forward) cannot be paid at
    finalization (`refundRelease` fails: the channel escrow is short), `finalizeRollappPacket` records
    the error text in the packet and finalizes it all the same: no balance moves, the release is logged
    (the identity counts as released: `release_at_most_once` then forbids any later release), and the
    packet is no longer pending — nothing in the module ever pays that refund.  This is within
    "released at most once" (zero times), and it is what the code does; whether the sender should keep a
    claim is outside C04's text. -/
theorem afterPacketStatusUpdated_bal_acks (s : St) (a b : Bytes) (st : Status) :
    (afterPacketStatusUpdated s a b st).bal = s.bal ∧ (afterPacketStatusUpdated s a b st).acks = s.acks := by
  unfold afterPacketStatusUpdated
  split <;> exact ⟨rfl, rfl⟩

theorem failed_refund_is_final {s s' : St} {k : Bytes} {p : Packet} (h : finalizePacket s k = .ok s')
    (hp : getPacket s k = some p) (hr : p.ptype = .onTimeout ∨ (p.ptype = .onAck ∧ p.ackErr = true))
    (hf : icsRefund s p = none) :
    s'.bal = s.bal ∧ s'.acks = s.acks ∧ (∃ e, s'.log = s.log ++ [e] ∧ e.uid = p.uid) ∧
    { p with status := .finalized, perr := some (refundPErr s p) } ∈ s'.packets ∧
    ∀ q ∈ s'.packets, q.status = .pending → pkey q ≠ k := by
  have hrel : releaseEffect s p = (s, some (refundPErr s p)) := by
    have : refundRelease s p = (s, some (refundPErr s p)) := by unfold refundRelease; rw [hf]
    unfold releaseEffect
    rcases hr with hr | ⟨hr, he⟩
    · rw [hr]; exact this
    · rw [hr]; simp [he, this]
  obtain ⟨hmem, hk⟩ := getPacket_some hp
  unfold finalizePacket at h
  rw [hp] at h
  simp only at h
  split at h
  · cases h
  · unfold updateAfterFinalization at h
    split at h
    · cases h
    · cases h
      rw [hrel]
      refine ⟨by rw [(afterPacketStatusUpdated_bal_acks _ _ _ _).1]; rfl, by rw [(afterPacketStatusUpdated_bal_acks _ _ _ _).2]; rfl,
        ⟨_, by rw [(frame_afterPacketStatusUpdated _ _ _ _).log]; rfl, rfl⟩, ?_, ?_⟩
      · rw [(frame_afterPacketStatusUpdated _ _ _ _).packets]
        exact mem_setPacket.mpr (Or.inl rfl)
      · intro q hq hs hkq
        rw [(frame_afterPacketStatusUpdated _ _ _ _).packets] at hq
        rcases mem_setPacket.mp hq with e | ⟨hq1, _⟩
        · rw [e] at hs; cases hs
        · simp only [delPacket, delByAddr, logRelease, List.mem_filter] at hq1
          have := hq1.2
          simp only [finalizedRecord, bne_iff_ne, ne_eq] at this
          exact this (hkq.trans hk.symm)

-- ------------------------------------------------------------------ non-vacuity

/-- account 0 sends 100 to the rollapp, the packet times out above the finalized height (stored pending);
    meanwhile the escrowed 100 come back to account 1 at a finalized height (the escrow is empty);
    finalizing the timeout: accepted, nothing is paid, the packet is FINALIZED with the refund error -/
def lostOps : List Op :=
  [ .send 0 0 0 100, .addState [114] 10, .timeout 0 1 5, .finalizeState [114],
    .recv 0 1 3 { dref := .back 0, amount := 100, target := some 1, memo := .none } ]

example : (step (run cexInit lostOps) (.finalize 2 [114] 5 .onTimeout [99, 48] 1)).2 = .ok ∧
    getBal (run cexInit lostOps).bal 0 0 = 900 ∧
    getBal (step (run cexInit lostOps) (.finalize 2 [114] 5 .onTimeout [99, 48] 1)).1.bal 0 0 = 900 ∧
    (step (run cexInit lostOps) (.finalize 2 [114] 5 .onTimeout [99, 48] 1)).1.packets.map (fun p => (p.status, p.perr)) =
      [(.finalized, some (.refund 0 100 0))] ∧
    (step (step (run cexInit lostOps) (.finalize 2 [114] 5 .onTimeout [99, 48] 1)).1 (.finalize 2 [114] 5 .onTimeout [99, 48] 1)).2 = .err .notFound := by
  decide

/-- a delayed timeout only records: balances, acknowledgements and log untouched, packet and index entry there -/
example : (run cexInit (lostOps.take 3)).bal = (run cexInit (lostOps.take 2)).bal ∧
    (run cexInit (lostOps.take 3)).log = [] ∧
    (run cexInit (lostOps.take 3)).packets.map (fun p => (p.status, p.target)) = [(.pending, 0)] ∧
    (run cexInit (lostOps.take 3)).byAddr.map (·.1) = [0] := by decide

end DymVerif.C04
