import DymVerif.Lemmas.SponsShares
import DymVerif.Lemmas.SponsWorld
import DymVerif.Lemmas.SponsMin
import DymVerif.Lemmas.SponsMixed
import DymVerif.Lemmas.GenEqSpons
/-
  Props/C16 — Sponsorship weights track staked power; endorsement claims are bounded.

  Theorems about M-Spons (`Model/Spons.lean`, mirrored from x/sponsorship and the endorsement part of
  x/incentives, validated op by op against the real code by `harness/c16_test.go`).

  Clauses of the property and their status on the code WITH the two repairs (fix: staking hook
  replaces the voter's contribution exactly; fix: epoch hook acts on the distribution identifier only):
    (1) distribution = Σ votes                — full strength, ALL histories (votes, revocations, staking
                                                 hooks with any powers, slashes, claims, epoch ends, funding):
                                                 `distribution_eq_sum_of_votes`
    (2) recorded power = bonded delegations   — FALSE after a validator slash (no hook fires);
                                                 true for slash-free histories with faithful hooks
    (3) below the minimum ⇒ the vote is gone  — the hook prunes exactly (`hook_below_min_prunes`); every
                                                 RECORDED power is ≥ the minimum in force when the vote last
                                                 changed, in all histories (`min_power_recorded_at_last_change`;
                                                 ≥ the CURRENT minimum unless MsgUpdateParams raised it); w.r.t.
                                                 the bonded power FALSE after a slash
    (4) at most one claim per epoch, none in the vote epoch — full strength w.r.t. the x/incentives
                                                 distribution epoch: `claim_once_per_epoch`, `no_claim_in_vote_epoch`
    (5) claims ≤ allotment                    — FALSE (claim uses current power against the snapshot);
                                                 true for ALL mixed histories within a distribution epoch
                                                 (votes, revocations, staking, slashes, funding, other epochs'
                                                 ends, creation ops, parameter changes, claims) in which no
                                                 staking message RAISES the recorded power of a voter who can
                                                 still claim: `claims_le_allotment_mixed_partial`, from genesis
                                                 `claims_le_allotment_mixed_from_init_partial` (shares are exact
                                                 in all histories: `endorsement_shares_exact_from_init`)

  The world is built by ops (`addGauge`, `addRollapp` = the RollappCreated hook, `setParams` =
  MsgUpdateParams): the from-genesis theorems quantify over histories that create their gauges,
  rollapps and endorsements themselves; `RaGauge` / `ShareInv` are proved, not assumed (`world_from_init`).
-/
namespace DymVerif.Props.C16
open DymVerif.Spons

/-! ## a small world for examples and counterexamples: gauges 1 (rollapp r0), 2 and 4 (asset, perpetual),
    3 (endorsement gauge of r0 holding 100); MinVotingPower 1, MinAllocationWeight 1 -/

def g1 : Gauge := { id := 1, kind := .rollapp 0, perpetual := true }
def g2 : Gauge := { id := 2, kind := .asset, perpetual := true }
def g4 : Gauge := { id := 4, kind := .asset, perpetual := true }
def g3 : Gauge := { id := 3, kind := .endorsement 0, perpetual := true, coins := 100 }

def s0 : State :=
  { State.init 1 1 with gauges := [g1, g2, g3, g4], endorsements := [⟨0, 1, 0, 0⟩], incBal := 100000 }

def half : Int := 50000000000000000000    -- 50 %
def full : Int := 100000000000000000000   -- 100 %

/-- delegator `a` (re)delegates so that its delegation to validator `v` is worth `p` -/
def stake (a v : Nat) (p : Int) : Op := .staking a [(v, some p)] [((a, v), some p)]

theorem init_wf (ma mv : Int) (h : 0 ≤ mv) : WF (State.init ma mv) :=
  ⟨h, trivial, trivial, fun _ hx => (by cases hx)⟩

theorem init_distInv (ma mv : Int) : DistInv (State.init ma mv) := ⟨fun _ => rfl, rfl⟩

theorem s0_wf : WF s0 := ⟨by decide, trivial, trivial, fun _ hx => (by cases hx)⟩
theorem s0_distInv : DistInv s0 := ⟨fun _ => rfl, rfl⟩

/-! ## (1) distribution = Σ over votes -/

/-- In Go terms: for a stored vote, `Vote.pow` is `Vote.GetGaugePower` (= the gauge's entry of
    `Vote.ToDistribution()`). -/
theorem pow_eq_gaugePower {v : Vote} (h : VoteOK v) (g : Nat) :
    v.pow g = v.gaugePower g ∧ v.pow g = gget v.toDist.gauges g :=
  ⟨(gaugePowerW_eq_wpow h.nodup g).symm, (gget_toDist v g).symm⟩

/-- **vote_revoke_exact** — a vote (including re-vote) or a revocation keeps
    `distribution = Σ_votes toDistribution(vote)`, for every state, voter and weights. -/
theorem vote_revoke_exact (s : State) (op : Op)
    (hop : (∃ a ws, op = .vote a ws) ∨ (∃ a, op = .revoke a)) (wf : WF s) (inv : DistInv s) :
    WF (step s op).1 ∧ DistInv (step s op).1 := by
  rcases hop with ⟨a, ws, rfl⟩ | ⟨a, rfl⟩ <;> exact step_good wf inv

example : (step (step s0 (stake 0 0 7)).1 (.vote 0 [(2, half), (1, 1)])).2.1 = none := by decide

/-- **distribution_eq_sum_of_votes** — through EVERY history (votes, revocations, staking hooks with
    arbitrary old/new powers, validator slashes, claims, epoch ends, funding) the distribution stays,
    gauge by gauge, the sum over the current votes of the vote's power split by its weights, and its
    total the sum of the votes' powers. -/
theorem distribution_eq_sum_of_votes (s : State) (ops : List Op) (wf : WF s) (inv : DistInv s) :
    WF (run s ops) ∧ DistInv (run s ops) := by
  induction ops generalizing s with
  | nil => exact ⟨wf, inv⟩
  | cons op ops ih =>
    have := step_good (op := op) wf inv
    exact ih _ this.1 this.2

/-- from the genesis state -/
theorem distribution_eq_sum_of_votes_from_init (ma mv : Int) (h : 0 ≤ mv) (ops : List Op) :
    DistInv (run (State.init ma mv) ops) :=
  (distribution_eq_sum_of_votes _ ops (init_wf ma mv h) (init_distInv ma mv)).2

/-- every history from genesis keeps the well-formedness, the distribution invariant and the
    world-building invariant (fresh gauge ids, one rollapp gauge per endorsement, exact total shares,
    votes weigh existing gauges only) -/
theorem run_world (s : State) (ops : List Op) (wf : WF s) (inv : DistInv s) (w : World s) :
    WF (run s ops) ∧ DistInv (run s ops) ∧ World (run s ops) := by
  induction ops generalizing s with
  | nil => exact ⟨wf, inv, w⟩
  | cons op ops ih =>
    have g := step_good (op := op) wf inv
    exact ih _ g.1 g.2 (step_world wf inv w)

theorem world_from_init (ma mv : Int) (h : 0 ≤ mv) (ops : List Op) :
    WF (run (State.init ma mv) ops) ∧ DistInv (run (State.init ma mv) ops) ∧ World (run (State.init ma mv) ops) :=
  run_world _ ops (init_wf ma mv h) (init_distInv ma mv) (init_world ma mv)

/-- the example world, built from genesis by ops: rollapp r0 (gauge 1 + endorsement), asset gauge 2,
    endorsement gauge 3 of r0 holding 100, asset gauge 4 -/
def worldOps : List Op :=
  [.addRollapp 0, .addGauge { id := 0, kind := .asset, perpetual := true },
   .addGauge { id := 0, kind := .endorsement 0, perpetual := true, coins := 100 },
   .addGauge { id := 0, kind := .asset, perpetual := true }]

example : (run (State.init 1 1) worldOps).gauges = s0.gauges ∧
    (run (State.init 1 1) worldOps).endorsements = s0.endorsements ∧
    (run (State.init 1 1) worldOps).incBal = 100 ∧ (run (State.init 1 1) worldOps).lastGauge = 4 := by decide

/-- non-vacuity of the from-genesis theorems: votes ARE accepted in a world built by ops, the tally is
    not empty -/
example : (run (State.init 1 1) (worldOps ++ [stake 0 0 7, .vote 0 [(2, half), (1, 1)]])).dist
    = ⟨7, [(1, 0), (2, 3)]⟩ := by decide

/-- creation ops are checked: an endorsement gauge needs its rollapp, a rollapp is created once, rollapp
    gauges come from the hook only -/
example : (step (State.init 1 1) (.addGauge { id := 0, kind := .endorsement 0, perpetual := true })).2.1 = some .noRollapp ∧
    (step (run (State.init 1 1) worldOps) (.addRollapp 0)).2.1 = some .rollappExists ∧
    (step (State.init 1 1) (.addGauge { id := 0, kind := .rollapp 0, perpetual := true })).2.1 = some .badGauge ∧
    (step (State.init 1 1) (.setParams (-1) 0)).2.1 = some .badParams := by decide

/-- consequence: no gauge ever has negative power in the distribution -/
theorem distribution_power_nonneg (s : State) (ops : List Op) (wf : WF s) (inv : DistInv s) (g : Nat) :
    0 ≤ gget (run s ops).dist.gauges g := by
  have h := distribution_eq_sum_of_votes s ops wf inv
  rw [h.2.gauges g]
  exact vsum_nonneg _ (fun x hx => (h.1.votes x hx).pow_nonneg g)

/-- the former F9 witness — 5 → 6 at a weight of 50 %: the distribution now follows the vote (3) -/
def f9ops : List Op := [stake 0 0 5, .vote 0 [(2, half)], stake 0 0 6]

example : gget (run s0 f9ops).dist.gauges 2 = 3 ∧ vsum (fun v => v.pow 2) (run s0 f9ops).votes = 3 := by decide

/-- the former negative-power witness: pruning after a hook leaves an empty distribution -/
example : (run s0 [stake 0 0 1, .vote 0 [(2, half)], stake 0 0 2, stake 0 0 0]).dist = ⟨0, []⟩ := by decide

/-! ## (2) recorded power = bonded delegations -/

/- **power_tracks_staking** (full statement — FALSE on the current code):
     ∀ s ops, Tracked s → Tracked (run s ops)
   A validator slash changes the bonded power of its delegators and no sponsorship hook fires. -/

/-- **power_tracks_staking_partial** — in slash-free histories in which a delegation's power
    changes only through its own hook, to the value the hook saw, every voter's recorded power
    equals the sum of its bonded delegations and every per-validator record equals the delegation. -/
theorem power_tracks_staking_partial (s : State) (ops : List Op) (ht : Tracked s)
    (hf : RunFaithful ops) :
    Tracked (run s ops) ∧
    ∀ a v, (run s ops).vote? a = some v →
      v.vp = powerOf (run s ops).stk a ∧ ∀ val, pOf (run s ops).dvp a val = pOf (run s ops).stk a val := by
  suffices h : Tracked (run s ops) from ⟨h, fun a v hv => ⟨(h.track a v hv).2, (h.track a v hv).1⟩⟩
  induction ops generalizing s with
  | nil => exact ht
  | cons op ops ih =>
    exact ih _ (step_tracked ht (hf op (by simp))) (fun o ho => hf o (by simp [ho]))

theorem init_tracked (ma mv : Int) : Tracked (State.init ma mv) :=
  ⟨trivial, fun _ _ h => (by cases h), fun _ _ _ => rfl⟩

theorem s0_tracked : Tracked s0 := ⟨trivial, fun _ _ h => (by cases h), fun _ _ _ => rfl⟩
theorem s0_min : MinInv s0 := fun _ _ h => (by cases h)

example : RunFaithful [stake 0 0 10, .vote 0 [(2, half)], stake 0 1 7, .staking 0 [(0, none)] [((0, 0), none)]] := by
  intro op hop
  simp only [List.mem_cons, List.mem_nil_iff, or_false] at hop
  rcases hop with rfl | rfl | rfl | rfl <;> first | rfl | trivial

/-- slash: a0 has 10 bonded and voted; the validator is slashed by half: recorded 10, bonded 5 -/
def slashOps : List Op := [stake 0 0 10, .vote 0 [(2, half)], .slash [((0, 0), some 5)]]

theorem power_tracks_staking_counterexample :
    ∃ s ops, Tracked s ∧ MinInv s ∧
      ∃ a v, (run s ops).vote? a = some v ∧ v.vp ≠ powerOf (run s ops).stk a :=
  ⟨s0, slashOps, s0_tracked, s0_min, 0, ⟨10, [(2, half)]⟩, by decide, by decide⟩

/-! ## (3) a voter whose power falls below the minimum loses the whole vote -/

/-- the hook prunes: if the new total is below the minimum, the vote and every per-validator record of
    the voter are gone (and, by `revokeVote_inv`, the distribution loses exactly that vote) -/
theorem hook_below_min_prunes (s : State) (a val : Nat) (v : Vote) (old new : Int)
    (hlow : v.vp + (new - old) < s.minVP) :
    let s' := s.processHook a val v old new
    s'.vote? a = none ∧ (∀ val', alookup (a, val') s'.dvp = none) ∧
      (∀ b, b ≠ a → s'.vote? b = s.vote? b) := by
  intro s'
  have e : s' = s.revokeVote a v := by
    show s.processHook a val v old new = _
    unfold State.processHook; simp only; rw [if_pos hlow]
  rw [e]
  refine ⟨alookup_aerase_self _ _, fun val' => alookup_filter_eq_none _ _, fun b hb => alookup_aerase_ne hb _⟩

/-- and the distribution stays exact when the hook prunes -/
theorem hook_below_min_exact (s : State) (a val : Nat) (v : Vote) (old new : Int) (wf : WF s) (inv : DistInv s)
    (hv : s.vote? a = some v) (_hlow : v.vp + (new - old) < s.minVP) :
    DistInv (s.processHook a val v old new) :=
  (processHook_inv wf inv hv).2

/- **min_power_recorded** (full statement w.r.t. the CURRENT minimum — FALSE once MsgUpdateParams exists):
     ∀ s ops, MinInv s → MinInv (run s ops)
   `SetParams` stores the new parameters and does not revisit the votes: a vote cast under a lower
   MinVotingPower stays (until its voter's next staking hook or re-vote compares against the new value). -/

/-- **min_power_recorded_at_last_change** — in ALL histories (parameter changes included) every stored
    vote's recorded power is at least the MinVotingPower that was in force when that vote last changed
    (`ghostRun` carries that value per voter) -/
theorem min_power_recorded_at_last_change (s : State) (ops : List Op) (m : Nat → Int) (hm : GMinInv s m) :
    GMinInv (run s ops) (ghostRun s m ops) := run_gmin ops hm

/-- from genesis (no votes yet, any initial ghost map) -/
theorem min_power_recorded_at_last_change_from_init (ma mv : Int) (ops : List Op) (m : Nat → Int) :
    GMinInv (run (State.init ma mv) ops) (ghostRun (State.init ma mv) m ops) :=
  run_gmin ops (fun _ _ h => by cases h)

/-- **min_power_recorded_partial** — histories that never RAISE MinVotingPower: every stored vote's
    recorded power is at least the current minimum -/
theorem min_power_recorded_partial (s : State) (ops : List Op) (hm : MinInv s) (hr : RunNoRaiseMin s ops) :
    MinInv (run s ops) := run_min ops hm hr

/-- a raise: a0 votes with 5 under minimum 1, the minimum becomes 8 — the vote with recorded power 5 stays -/
def raiseOps : List Op := [stake 0 0 5, .vote 0 [(2, half)], .setParams 1 8]

theorem min_power_recorded_counterexample :
    ∃ s ops, MinInv s ∧ ¬ MinInv (run s ops) :=
  ⟨s0, raiseOps, s0_min, fun h => absurd (h 0 ⟨5, [(2, half)]⟩ (by decide)) (by decide)⟩

/-- … while the ghost statement holds on that witness: the vote last changed under minimum 1 -/
example : ghostRun s0 (fun _ => 1) raiseOps 0 = 1 ∧ (run s0 raiseOps).minVP = 8 ∧
    (run s0 raiseOps).vote? 0 = some ⟨5, [(2, half)]⟩ := by decide

/-- the voter's next hook compares with the raised minimum: the vote is pruned -/
example : (run s0 (raiseOps ++ [stake 0 0 6])).vote? 0 = none := by decide

/- **below_min_prunes_vote** (full statement, w.r.t. the BONDED power — FALSE on the current code):
     ∀ s ops a, Tracked s → MinInv s → powerOf (run s ops).stk a < (run s ops).minVP → (run s ops).vote? a = none -/

/-- **below_min_prunes_vote_partial** — slash-free faithful histories that never raise
    MinVotingPower: whoever has less bonded power than the minimum has no vote. -/
theorem below_min_prunes_vote_partial (s : State) (ops : List Op) (ht : Tracked s) (hm : MinInv s)
    (hf : RunFaithful ops) (hr : RunNoRaiseMin s ops) (a : Nat)
    (hlow : powerOf (run s ops).stk a < (run s ops).minVP) :
    (run s ops).vote? a = none := by
  cases hv : (run s ops).vote? a with
  | none => rfl
  | some v =>
    have h1 := ((power_tracks_staking_partial s ops ht hf).2 a v hv).1
    have h2 := min_power_recorded_partial s ops hm hr a v hv
    omega

example : (run s0 [stake 0 0 10, .vote 0 [(2, half)], stake 0 0 0]).vote? 0 = none := by decide

/-- slash to below the minimum (min 8): bonded 5, the vote with recorded power 10 stays -/
theorem below_min_prunes_vote_counterexample :
    ∃ s ops a, Tracked s ∧ MinInv s ∧ powerOf (run s ops).stk a < (run s ops).minVP ∧
      (run s ops).vote? a ≠ none :=
  ⟨{ s0 with minVP := 8 }, slashOps, 0, ⟨trivial, fun _ _ h => (by cases h), fun _ _ _ => rfl⟩,
    fun _ _ h => (by cases h), by decide, by decide⟩

/-! ## (4) claims: once per epoch, not in the vote epoch -/

/-- **claim_once_per_epoch** — after an accepted claim every further claim of the same voter (any
    gauge) is rejected until the x/incentives distribution epoch — the one that fixes the allotment
    `EpochRewards` — ends, whatever else happens (ends of other epochs included). -/
theorem claim_once_per_epoch (s s1 : State) (a g g' : Nat) (p : Int) (ops : List Op)
    (hc : s.claim a g = .ok (s1, p)) (hne : ∀ op ∈ ops, isEpochEnd op = false) :
    (run s1 ops).claim a g' = .error .cannotClaim :=
  claim_blocked (run_blacklist (by rw [claim_blacklist hc]; simp) hne) g'

/-- **no_claim_in_vote_epoch** — after an accepted vote the voter cannot claim until the distribution
    epoch ends. -/
theorem no_claim_in_vote_epoch (s s1 : State) (a g : Nat) (ws : List GP) (ops : List Op)
    (hv : s.vote a ws = .ok s1) (hne : ∀ op ∈ ops, isEpochEnd op = false) :
    (run s1 ops).claim a g = .error .cannotClaim :=
  claim_blocked (run_blacklist (vote_blacklist hv).1 hne) g

/-- two voters with 10 each endorse r0; the distribution epoch ends (allotment 100, snapshot 20) -/
def claimWorld : State :=
  run s0 [stake 0 0 10, stake 1 0 10, .vote 0 [(1, full)], .vote 1 [(1, full)], .epochEnd true]

example : (step claimWorld (.claim 0 3)).2 = (none, 50) := by decide

/-- the former witnesses: an hour epoch ends (`epochEnd false`) — the second claim, and the claim in the
    vote epoch, are now rejected -/
example : (step (run claimWorld [.claim 0 3, .epochEnd false]) (.claim 0 3)).2.1 = some .cannotClaim := by decide

example : (step (run claimWorld [stake 2 0 20]) (.vote 2 [(1, full)])).2.1 = none ∧
    (step (run claimWorld [stake 2 0 20, .vote 2 [(1, full)], .epochEnd false]) (.claim 2 3)).2.1
      = some .cannotClaim := by decide

/-! ## (5) claims never exceed the epoch's allotment -/

/- **claims_le_allotment** (full statement — FALSE on the current code):
     between two distribution-epoch ends, the sum of the amounts claimed from a gauge ≤ its EpochRewards.
   `EstimateClaim` multiplies the CURRENT power of the vote by EpochRewards / EpochShares (snapshot). -/

/-- **claims_le_allotment_partial** — if the snapshot covers the power of the voters who can still
    claim (true right after a distribution-epoch end, see below), any sequence of claims by any
    voters on any gauges takes at most the allotment `R` out of gauge `gid`. -/
theorem claims_le_allotment_partial (s : State) (gid r : Nat) (e : Endorsement) (R : Int) (ops : List Op)
    (ctx : ClaimCtx s gid r e R) (hR : 0 ≤ R) (hS : 0 < e.epoch)
    (hcov : usum s.blacklist e.gaugeId s.votes ≤ e.epoch)
    (hall : ∀ op ∈ ops, isClaim op = true) : runPaid s gid ops ≤ R := by
  have h := claims_bound hR hS ops hall s ctx
  have h2 : R * usum s.blacklist e.gaugeId s.votes ≤ R * e.epoch := Int.mul_le_mul_of_nonneg_left hcov hR
  exact Int.le_of_mul_le_mul_right (Int.le_trans h h2) hS

/-- gauge 3 after the distribution epoch ended -/
def g3' : Gauge := { g3 with epochRewards := some 100, filled := 1, status := .active }

/-- non-vacuity: the context and the covering hypothesis hold in `claimWorld` -/
example : ClaimCtx claimWorld 3 0 ⟨0, 1, 20, 20⟩ 100 ∧
    usum claimWorld.blacklist 1 claimWorld.votes ≤ 20 ∧ runPaid claimWorld 3 [.claim 0 3, .claim 1 3, .claim 0 3] = 100 := by
  refine ⟨⟨⟨g3', by decide, by decide, by decide⟩, by decide, ?_, ?_⟩, by decide, by decide⟩
  · exact ⟨by decide, ⟨by decide, trivial⟩⟩
  · intro x hx
    have : x ∈ [(1, (⟨10, [(1, full)]⟩ : Vote)), (0, ⟨10, [(1, full)]⟩)] := hx
    simp only [List.mem_cons, List.mem_nil_iff, or_false] at this
    rcases this with rfl | rfl <;> decide

/-- **endorsement_shares_exact** — along EVERY history the total shares of a rollapp's endorsement
    are the sum over the votes of their power on the rollapp gauge -/
theorem endorsement_shares_exact (s : State) (ops : List Op) (r rg : Nat) (wf : WF s) (inv : DistInv s)
    (hg : RaGauge s r rg) (hs : ShareInv s r rg) :
    ShareInv (run s ops) r rg ∧ RaGauge (run s ops) r rg := by
  induction ops generalizing s with
  | nil => exact ⟨hs, hg⟩
  | cons op ops ih =>
    have g := step_good (op := op) wf inv
    have sh := step_share (op := op) wf inv hg hs
    exact ih _ g.1 g.2 sh.2 sh.1

/-- non-vacuity: in `s0` gauge 1 is the one rollapp gauge of r0 and the shares are exact -/
theorem s0_raGauge : RaGauge s0 0 1 := by
  refine ⟨fun g => ?_, by decide⟩
  have hne : ∀ a b : Nat, a ≠ b → (a == b) = false := fun a b h => by simpa using h
  by_cases h1 : g = 1
  · subst h1; exact ⟨fun _ => rfl, fun _ => by decide⟩
  by_cases h2 : g = 2
  · subst h2; exact ⟨fun h => (by revert h; decide), fun h => (by cases h)⟩
  by_cases h3 : g = 3
  · subst h3; exact ⟨fun h => (by revert h; decide), fun h => (by cases h)⟩
  by_cases h4 : g = 4
  · subst h4; exact ⟨fun h => (by revert h; decide), fun h => (by cases h)⟩
  have : raOf s0.gauges g = none := by
    simp [raOf, s0, State.init, g1, g2, g3, g4, List.find?,
      hne 1 g (Ne.symm h1), hne 2 g (Ne.symm h2), hne 3 g (Ne.symm h3), hne 4 g (Ne.symm h4)]
  rw [this]; exact ⟨fun h => (by cases h), fun h => absurd h h1⟩

example : ShareInv s0 0 1 := rfl

example : ShareInv (run s0 [stake 0 0 10, .vote 0 [(1, half)], stake 0 0 21]) 0 1 ∧
    totalOf (run s0 [stake 0 0 10, .vote 0 [(1, half)], stake 0 0 21]).endorsements 0 = 10 := by
  refine ⟨by unfold ShareInv; decide, by decide⟩

theorem epochEnd_endorsements (s : State) :
    (s.epochEnd true).endorsements = s.endorsements.map (fun e => { e with epoch := e.total }) ∧
    (s.epochEnd true).blacklist = [] := by
  refine ⟨?_, rfl⟩
  show (s.incentivesEpochEnd.endorsements).map _ = _
  unfold State.incentivesEpochEnd; simp only; split <;> rfl

/-- **claims_le_allotment_after_epoch_end_partial** — the shares are exact when the distribution epoch
    ends (`endorsement_shares_exact`), so whatever claims follow (and nothing else), the endorsement
    gauge `eg` of rollapp `r` pays at most its epoch rewards `R`. -/
theorem claims_le_allotment_after_epoch_end_partial (s : State) (r rg eg : Nat) (R : Int)
    (ops : List Op) (wf : WF s) (hs : ShareInv s r rg) (e : Endorsement)
    (he : s.endorsement? r = some e) (heg : e.gaugeId = rg) (hpos : 0 < e.total)
    (hG : GaugeIs (s.epochEnd true) eg r R) (hR : 0 ≤ R) (hall : ∀ op ∈ ops, isClaim op = true) :
    runPaid (s.epochEnd true) eg ops ≤ R := by
  have hee := epochEnd_endorsements s
  have hcore := (epochEnd_core s true).1
  have he' : (s.epochEnd true).endorsement? r = some { e with epoch := e.total } := by
    unfold State.endorsement?
    rw [hee.1, find_map_r (f := fun e => { e with epoch := e.total }) (fun _ => rfl)]
    unfold State.endorsement? at he
    rw [he]; rfl
  have hpow : ∀ x ∈ s.votes, x.2.gaugePower rg = x.2.pow rg :=
    fun x hx => ((pow_eq_gaugePower (wf.votes x hx) rg).1).symm
  have hcov : usum (s.epochEnd true).blacklist rg (s.epochEnd true).votes = e.total := by
    rw [hee.2, hcore.votes, usum_nil_eq, vsum_congr (f := fun v => v.gaugePower rg) (g := fun v => v.pow rg) hpow]
    have : totalOf s.endorsements r = e.total := by
      unfold totalOf; unfold State.endorsement? at he; rw [he]
    rw [← this]; exact hs.symm
  subst heg
  refine claims_le_allotment_partial (s.epochEnd true) eg r { e with epoch := e.total } R ops
    ⟨hG, he', hcore.votes ▸ wf.keys, ?_⟩ hR hpos (Int.le_of_eq hcov) hall
  intro x hx
  rw [hcore.votes] at hx
  show 0 ≤ x.2.gaugePower e.gaugeId
  rw [hpow x hx]; exact (wf.votes x hx).pow_nonneg _

/-- **endorsement_shares_exact_from_init** — along EVERY history from genesis (rollapps, gauges and
    endorsements created by ops): an endorsement names exactly one rollapp gauge, and its total shares
    are the sum over the votes of their power on that gauge.  No hypotheses on the state. -/
theorem endorsement_shares_exact_from_init (ma mv : Int) (h : 0 ≤ mv) (ops : List Op) (r : Nat) (e : Endorsement)
    (he : (run (State.init ma mv) ops).endorsement? r = some e) :
    e.total = vsum (fun v => v.pow e.gaugeId) (run (State.init ma mv) ops).votes ∧
    (∀ g, raOf (run (State.init ma mv) ops).gauges g = some r ↔ g = e.gaugeId) := by
  have w := (world_from_init ma mv h ops).2.2
  have := w.endo r e he
  refine ⟨?_, this.1.only⟩
  have hs : totalOf (run (State.init ma mv) ops).endorsements r = _ := this.2
  unfold totalOf at hs
  unfold State.endorsement? at he
  rw [he] at hs
  exact hs

example : (run (State.init 1 1) (worldOps ++ [stake 0 0 10, .vote 0 [(1, half)], stake 0 0 21])).endorsement? 0
    = some ⟨0, 1, 10, 0⟩ := by decide

/- **claims_le_allotment** for MIXED histories (full statement — FALSE on the current code):
     within one distribution epoch (no `epochEnd true` among `ops`), from a state whose snapshot covers
     the power that can still claim, `runPaid s eg ops ≤ R` for EVERY op list.
   The invariant  paid·S + R·U ≤ R·S  (U = power on the rollapp gauge of the voters not yet blacklisted)
   is kept by claim, vote (the voter is blacklisted), revoke, power-DEcreasing staking messages, slash,
   fund, ends of other epochs, creation ops and parameter changes; it is broken ONLY by a staking message
   that leaves a voter who can still claim with more recorded power (`NoRaiseOp`): the finding F7. -/

/-- **claims_le_allotment_mixed_partial** — any interleaving of ops within one distribution epoch in
    which no staking message raises the recorded power of a voter who has not yet claimed / voted in
    this epoch: gauge `eg` pays at most its epoch rewards `R`. -/
theorem claims_le_allotment_mixed_partial (s : State) (eg r rg : Nat) (R S : Int) (ops : List Op)
    (ctx : EpochCtx s eg r rg R S) (hR : 0 ≤ R) (hS : 0 < S) (hcov : U s rg ≤ S)
    (hne : ∀ op ∈ ops, isEpochEnd op = false) (hnr : NoRaiseRun s ops) : runPaid s eg ops ≤ R := by
  have h := claims_bound_mixed hR hS ops hne s ctx hnr
  have h2 : R * U s rg ≤ R * S := Int.mul_le_mul_of_nonneg_left hcov hR
  exact Int.le_of_mul_le_mul_right (Int.le_trans h h2) hS

/-- **claims_le_allotment_mixed_from_init_partial** — from genesis: after ANY history `pre` the
    distribution epoch ends; whatever follows within the new epoch (under the exclusion above), the
    endorsement gauge `eg` of rollapp `r` pays at most the epoch rewards `R` it was given at that end. -/
theorem claims_le_allotment_mixed_from_init_partial (ma mv : Int) (hmv : 0 ≤ mv) (pre ops : List Op)
    (eg r : Nat) (R : Int) (e : Endorsement)
    (hG : GaugeIs ((run (State.init ma mv) pre).epochEnd true) eg r R)
    (he : ((run (State.init ma mv) pre).epochEnd true).endorsement? r = some e)
    (hR : 0 ≤ R) (hS : 0 < e.epoch)
    (hne : ∀ op ∈ ops, isEpochEnd op = false)
    (hnr : NoRaiseRun ((run (State.init ma mv) pre).epochEnd true) ops) :
    runPaid ((run (State.init ma mv) pre).epochEnd true) eg ops ≤ R := by
  obtain ⟨wf, inv, w⟩ := world_from_init ma mv hmv pre
  generalize run (State.init ma mv) pre = s at *
  have hee := epochEnd_endorsements s
  have hcore := (epochEnd_core s true).1
  have g := step_good (op := .epochEnd true) wf inv
  -- the endorsement before the epoch end
  have he' : (s.endorsements.map fun e => { e with epoch := e.total }).find? (·.r == r) = some e := by
    rw [← hee.1]; exact he
  rw [find_map_r (f := fun e => { e with epoch := e.total }) (fun _ => rfl)] at he'
  cases he0 : s.endorsements.find? (·.r == r) with
  | none => rw [he0] at he'; cases he'
  | some e0 =>
    rw [he0] at he'
    simp only [Option.map, Option.some.injEq] at he'
    subst he'
    have hw := w.endo r e0 he0
    have hsh : totalOf s.endorsements r = vsum (fun v => v.pow e0.gaugeId) s.votes := hw.2
    have ht : totalOf s.endorsements r = e0.total := by unfold totalOf; rw [he0]
    have hpow : ∀ x ∈ s.votes, x.2.gaugePower e0.gaugeId = x.2.pow e0.gaugeId :=
      fun x hx => ((pow_eq_gaugePower (wf.votes x hx) e0.gaugeId).1).symm
    have hcov : U (s.epochEnd true) e0.gaugeId = e0.total := by
      unfold U
      rw [hee.2, hcore.votes, usum_nil_eq,
        vsum_congr (f := fun v => v.gaugePower e0.gaugeId) (g := fun v => v.pow e0.gaugeId) hpow, ← hsh, ht]
    exact claims_le_allotment_mixed_partial (s.epochEnd true) eg r e0.gaugeId R e0.total ops
      ⟨hG, ⟨_, he, rfl, rfl⟩, g.1, g.2⟩ hR hS (Int.le_of_eq hcov) hne hnr

/-- F7 — a0 and a1 hold 10 each at the snapshot (allotment 100); a0 raises its stake to 30 and claims
    150 > 100 (paid out of the module's pooled balance), a1 still claims its 50 -/
def f7ops : List Op := [stake 0 0 30, .claim 0 3, .claim 1 3]

theorem claims_le_allotment_counterexample :
    ∃ s gid R, GaugeIs s gid 0 R ∧ R < runPaid s gid f7ops :=
  ⟨claimWorld, 3, 100, ⟨g3', by decide, by decide, by decide⟩, by decide⟩

theorem claimWorld_ctx : EpochCtx claimWorld 3 0 1 100 20 := by
  have h := distribution_eq_sum_of_votes s0
    [stake 0 0 10, stake 1 0 10, .vote 0 [(1, full)], .vote 1 [(1, full)], .epochEnd true] s0_wf s0_distInv
  exact ⟨⟨g3', by decide, by decide, by decide⟩, ⟨⟨0, 1, 20, 20⟩, by decide, rfl, rfl⟩, h.1, h.2⟩

/-- the F7 witness satisfies EVERY hypothesis of `claims_le_allotment_mixed_partial` except the
    exclusion — and it violates exactly that one (a0, not yet blacklisted, goes from 10 to 30) -/
theorem claims_le_allotment_counterexample_only_breaks_exclusion :
    EpochCtx claimWorld 3 0 1 100 20 ∧ U claimWorld 1 ≤ 20 ∧ (∀ op ∈ f7ops, isEpochEnd op = false) ∧
    ¬ NoRaiseRun claimWorld f7ops ∧ 100 < runPaid claimWorld 3 f7ops := by
  refine ⟨claimWorld_ctx, by decide, ?_, ?_, by decide⟩
  · intro op hop
    simp only [f7ops, List.mem_cons, List.mem_nil_iff, or_false] at hop
    rcases hop with rfl | rfl | rfl <;> rfl
  · intro h
    rcases h.1 with hin | hle
    · exact absurd hin (by decide)
    · have := hle ⟨10, [(1, full)]⟩ ⟨30, [(1, full)]⟩ (by decide) (by decide)
      exact absurd this (by decide)

/-- non-vacuity of the mixed theorem: a history with a vote, a revocation, a DEcreasing staking message,
    funding, an hour epoch's end, a parameter change and a new rollapp between the claims satisfies the
    hypotheses; the gauge pays 50 + 25 ≤ 100 -/
def mixedOps : List Op :=
  [.claim 0 3, .epochEnd false, stake 1 0 5, .fund 3 7, .setParams 1 2, .addRollapp 1, stake 2 0 9,
   .vote 2 [(1, full)], .claim 2 3, .claim 1 3, .revoke 0, .slash [((1, 0), some 4)]]

example : U claimWorld 1 ≤ 20 ∧ (∀ op ∈ mixedOps, isEpochEnd op = false) ∧ runPaid claimWorld 3 mixedOps = 75 := by
  refine ⟨by decide, ?_, by decide⟩
  intro op hop
  simp only [mixedOps, List.mem_cons, List.mem_nil_iff, or_false] at hop
  rcases hop with rfl | rfl | rfl | rfl | rfl | rfl | rfl | rfl | rfl | rfl | rfl | rfl <;> rfl

/- **gauge_never_overpaid** (full statement — FALSE on the current code, two root causes):
     along every history an endorsement gauge's DistributedCoins stays ≤ its Coins.
   (a) F7 above (current power against the snapshot); (b) a FINISHED gauge: x/incentives updates only
   ACTIVE gauges at the epoch end, so a finished endorsement gauge keeps its last EpochRewards, and
   `Claim` / `EstimateClaim` / `DistributeEndorsementRewards` look neither at the gauge's state nor at
   Coins − DistributedCoins.  `claims_le_allotment_mixed_partial` still holds for such a gauge — but the
   `R` it speaks of is a stale field, not an allotment the gauge was given for this epoch. -/

/-- the 1-epoch variant of gauge 3 -/
def g3n : Gauge := { g3 with perpetual := false }

def s0n : State := { s0 with gauges := [g1, g2, g3n, g4] }

/-- a0 endorses r0 alone; the epoch ends (gauge 3 gets all its 100 as EpochRewards and is finished), a0
    claims 100; the next epoch ends (the finished gauge is not touched, the blacklist is cleared), a0
    claims 100 again: 200 distributed out of 100 — with NO staking message at all after the vote -/
def finishedOps : List Op :=
  [stake 0 0 10, .vote 0 [(1, full)], .epochEnd true, .claim 0 3, .epochEnd true, .claim 0 3]

theorem gauge_never_overpaid_counterexample :
    ∃ s ops gid g, NoRaiseRun ((run s (ops.take 3))) (ops.drop 3) ∧ (run s ops).gauge? gid = some g ∧
      g.status = .finished ∧ g.kind = .endorsement 0 ∧ g.coins < g.distributed :=
  ⟨s0n, finishedOps, 3, { g3n with distributed := 200, epochRewards := some 100, filled := 1, status := .finished },
    ⟨trivial, trivial, trivial, trivial⟩, by decide, rfl, rfl, by decide⟩

end DymVerif.Props.C16
