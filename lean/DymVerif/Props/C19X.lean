/-
  Props/C19X — C19 for the remaining '/'-separated key families: the rollapp-id grammar replaces the
  raw "no separator" hypotheses; sequencers-by-rollapp(-by-status) keys and scans; the rollapp-by-name
  scan; liveness-queue scans and order; demand orders by status; packet keys sort by proof height;
  the x/rollapp store keys; prefix disjointness inside the delayedack store.
-/
import DymVerif.Model.KeysX
import DymVerif.Lemmas.KeysRange
import DymVerif.Props.C19Coll
import DymVerif.Props.C19
namespace DymVerif.C19
open DymVerif DymVerif.Keys

/-! ## the rollapp-id grammar -/

theorem splitAtSep_some (sp : Nat) (b a r : Bytes) (h : splitAtSep sp b = some (a, r)) :
    b = a ++ sp :: r ∧ sp ∉ a := by
  induction b generalizing a with
  | nil => simp [splitAtSep] at h
  | cons x xs ih =>
    simp only [splitAtSep] at h
    by_cases hx : x = sp
    · simp [hx] at h; obtain ⟨rfl, rfl⟩ := h; simp [hx]
    · simp only [hx, if_false] at h
      cases hs : splitAtSep sp xs with
      | none => simp [hs] at h
      | some p =>
        obtain ⟨a', r'⟩ := p
        simp [hs] at h
        obtain ⟨rfl, rfl⟩ := h
        obtain ⟨e, hn⟩ := ih a' hs
        refine ⟨by rw [e]; simp, ?_⟩
        intro hm
        rcases List.mem_cons.1 hm with h1 | h1
        · exact hx h1.symm
        · exact hn h1

theorem all_lower_not_mem (s : Bytes) (c : Nat) (hc : c < 97 ∨ 122 < c) (h : s.all isLowerB = true) : c ∉ s := by
  intro hm
  have := List.all_eq_true.1 h c hm
  simp [isLowerB] at this; omega

theorem decimal_not_mem (s : Bytes) (c : Nat) (hc : c < 48 ∨ 57 < c) (h : isDecimalNoLead s = true) : c ∉ s := by
  cases s with
  | nil => simp [isDecimalNoLead] at h
  | cons x xs =>
    simp only [isDecimalNoLead, Bool.and_eq_true] at h
    intro hm
    rcases List.mem_cons.1 hm with h1 | h1
    · subst h1; have := h.1; simp at this; omega
    · have := List.all_eq_true.1 h.2 c h1
      simp [isDigitB] at this; omega

/-- what a valid rollapp id looks like: `name _ eip155 - revision`, name non-empty lower-case letters,
    the two numbers decimal digits -/
theorem valid_rollapp_id_shape (id : Bytes) (h : validRollappId id = true) :
    ∃ name eip rev, id = name ++ 95 :: (eip ++ 45 :: rev) ∧ name ≠ [] ∧ rollappName id = name ∧
      name.all isLowerB = true ∧ isDecimalNoLead eip = true ∧ isDecimalNoLead rev = true := by
  unfold validRollappId at h
  simp only [Bool.and_eq_true] at h
  obtain ⟨_, h⟩ := h
  cases h1 : splitAtSep 95 id with
  | none => simp [h1] at h
  | some p =>
    obtain ⟨name, rest⟩ := p
    simp only [h1, Bool.and_eq_true] at h
    obtain ⟨⟨hne, hlow⟩, h⟩ := h
    cases h2 : splitAtSep 45 rest with
    | none => simp [h2] at h
    | some q =>
      obtain ⟨eip, rev⟩ := q
      simp only [h2, Bool.and_eq_true] at h
      obtain ⟨e1, _⟩ := splitAtSep_some 95 id name rest h1
      obtain ⟨e2, _⟩ := splitAtSep_some 45 rest eip rev h2
      refine ⟨name, eip, rev, by rw [e1, e2], ?_, by simp [rollappName, h1], hlow, h.1.1, h.1.2⟩
      intro e; simp [e] at hne

/-- a valid rollapp id contains none of the bytes the hub's key encodings use as structure:
    '/' (0x2f), NUL (the collections delimiter), 0xFF -/
theorem valid_rollapp_id_no_sep (id : Bytes) (h : validRollappId id = true) :
    sep ∉ id ∧ 0 ∉ id ∧ 255 ∉ id := by
  obtain ⟨name, eip, rev, rfl, _, _, hl, he, hr⟩ := valid_rollapp_id_shape id h
  have k : ∀ c, (c < 45 ∨ (45 < c ∧ c < 48) ∨ 122 < c) → c ∉ name ++ 95 :: (eip ++ 45 :: rev) := by
    intro c hc hm
    simp only [List.mem_append, List.mem_cons] at hm
    rcases hm with h1 | h1 | h1 | h1 | h1
    · exact all_lower_not_mem name c (by omega) hl h1
    · omega
    · exact decimal_not_mem eip c (by omega) he h1
    · omega
    · exact decimal_not_mem rev c (by omega) hr h1
  exact ⟨k 47 (by omega), k 0 (by omega), k 255 (by omega)⟩

/-- the name of a valid id contains no '_' and the rest of the id no further '_' -/
theorem valid_rollapp_id_name (id : Bytes) (h : validRollappId id = true) :
    ∃ rest, id = rollappName id ++ 95 :: rest ∧ 95 ∉ rollappName id ∧ 95 ∉ rest := by
  obtain ⟨name, eip, rev, rfl, _, hn, hl, he, hr⟩ := valid_rollapp_id_shape id h
  rw [hn]
  refine ⟨eip ++ 45 :: rev, rfl, all_lower_not_mem name 95 (by omega) hl, ?_⟩
  intro hm
  simp only [List.mem_append, List.mem_cons] at hm
  rcases hm with h1 | h1 | h1
  · exact decimal_not_mem eip 95 (by omega) he h1
  · omega
  · exact decimal_not_mem rev 95 (by omega) hr h1

-- non-vacuity: "abc_1-12" is valid, "abc_01-1", "ab/c_1-1", "_1-1" are not
example : validRollappId [97, 98, 99, 95, 49, 45, 49, 50] = true := by decide
example : validRollappId [97, 98, 99, 95, 48, 49, 45, 49] = false ∧ validRollappId [97, 98, 47, 99, 95, 49, 45, 49] = false ∧
    validRollappId [95, 49, 45, 49] = false := by decide

/-- the packet key is injective in all six components — for VALID rollapp ids (no raw hypothesis on
    the id; channel ids are `channel-N`, '/'-free) -/
theorem packet_key_injective_valid
    (st st' : Status) (r r' : Bytes) (h h' : Nat) (t t' : PType) (c c' : Bytes) (s s' : Nat)
    (hr : validRollappId r = true) (hr' : validRollappId r' = true) (hc : sep ∉ c) (hc' : sep ∉ c')
    (hh : h < 2 ^ 64) (hh' : h' < 2 ^ 64) (hs : s < 2 ^ 64) (hs' : s' < 2 ^ 64)
    (e : rollappPacketKey st r h t c s = rollappPacketKey st' r' h' t' c' s') :
    st = st' ∧ r = r' ∧ h = h' ∧ t = t' ∧ c = c' ∧ s = s' :=
  packet_key_injective st st' r r' h h' t t' c c' s s' (valid_rollapp_id_no_sep r hr).1
    (valid_rollapp_id_no_sep r' hr').1 hc hc' hh hh' hs hs' e

/-- C19 "sort numerically by height": within one status and rollapp, packet keys sort by proof height,
    whatever the remaining components are (`ListRollappPackets(…).Take(limit)` walks them in this order) -/
theorem packet_key_height_order (st : Status) (r : Bytes) (h h' : Nat) (t t' : PType) (c c' : Bytes) (s s' : Nat)
    (hh : h < 2 ^ 64) (hh' : h' < 2 ^ 64) (hlt : h < h') :
    lexLt (rollappPacketKey st r h t c s) (rollappPacketKey st r h' t' c' s') = true := by
  simp only [rollappPacketKey, byStatusRollappHeightPrefix, List.append_assoc, lexLt_append_left]
  exact lexLt_append_of_lt _ _ _ _ (by simp [be64_length]) (by rw [lexLt_be64 h h' hh hh']; simpa using hlt)

/-! ## sequencers by rollapp (x/sequencer): `0x01 / rollapp / status addr`, scans without trailing separator -/

/-- the key names exactly one (rollapp, status, address) — rollapp ids without '/' -/
theorem sequencer_by_rollapp_by_status_key_injective (r r' a a' : Bytes) (st st' : OpStatus)
    (hr : sep ∉ r) (hr' : sep ∉ r')
    (e : sequencerByRollappByStatusKey r a st = sequencerByRollappByStatusKey r' a' st') :
    r = r' ∧ st = st' ∧ a = a' := by
  simp only [sequencerByRollappByStatusKey, sequencersByRollappByStatusKey, sequencersByRollappKey,
    List.append_assoc, List.cons_append, List.nil_append, List.cons.injEq, true_and] at e
  have e1 := sep_split_unique sep r r' _ _ hr hr' e
  refine ⟨e1.1, ?_⟩
  cases st <;> cases st' <;> simp_all [opStatusPrefix]

/-- `GetRollappSequencersByStatus(rollapp, status)` (prefix `SequencersByRollappByStatusKey`): returns
    the entry (rollapp', status', addr) exactly when rollapp' = rollapp and status' = status -/
theorem sequencers_by_rollapp_by_status_scan_exact (r r' a : Bytes) (st st' : OpStatus)
    (hr : sep ∉ r) (hr' : sep ∉ r') :
    isPrefix (sequencersByRollappByStatusKey r st) (sequencerByRollappByStatusKey r' a st') = true ↔
      r' = r ∧ st' = st := by
  constructor
  · intro hx
    obtain ⟨x, e⟩ := (isPrefix_iff _ _).1 hx
    simp only [sequencerByRollappByStatusKey, sequencersByRollappByStatusKey, sequencersByRollappKey,
      List.append_assoc, List.cons_append, List.nil_append, List.cons.injEq, true_and] at e
    have e1 := sep_split_unique sep r' r _ _ hr' hr e
    refine ⟨e1.1, ?_⟩
    cases st <;> cases st' <;> simp_all [opStatusPrefix]
  · rintro ⟨rfl, rfl⟩
    exact isPrefix_append _ _

/-- **`GetSequencersByRollapp(rollapp)`** (prefix `SequencersByRollappKey`, NO trailing separator):
    for two valid rollapp ids the scan for `r` returns an entry of `r'` exactly when `r` is a byte
    prefix of `r'` followed by … — stated as an iff over full ids: the entry is returned iff
    `r' = r`, provided the two ids do not share their name (registered ids never do:
    `CheckIfRollappExists` refuses a second id with the same name) -/
theorem sequencers_by_rollapp_scan_exact_iff (r r' a : Bytes) (st : OpStatus)
    (hr : validRollappId r = true) (hr' : validRollappId r' = true)
    (hname : r ≠ r' → rollappName r ≠ rollappName r') :
    isPrefix (sequencersByRollappKey r) (sequencerByRollappByStatusKey r' a st) = true ↔ r' = r := by
  constructor
  · intro hx
    obtain ⟨rest, e, hn, _⟩ := valid_rollapp_id_name r hr
    obtain ⟨rest', e', hn', _⟩ := valid_rollapp_id_name r' hr'
    by_cases heq : r = r'
    · exact heq.symm
    · exfalso
      apply hname heq
      rw [e, e'] at hx
      exact sequencers_by_rollapp_scan_exact _ _ rest rest' a st hn hn' hx
  · rintro rfl
    simp only [sequencerByRollappByStatusKey, sequencersByRollappByStatusKey, List.append_assoc]
    exact isPrefix_append _ _

/-- without the distinct-names side condition the scan is NOT exact: `abc_1-1` is a byte prefix of
    `abc_1-12`, so the sequencers of the second would be listed under the first.  Both ids are valid,
    but they share the name `abc` and cannot both be registered. -/
theorem sequencers_by_rollapp_scan_exact_counterexample :
    let r : Bytes := [97, 98, 99, 95, 49, 45, 49]        -- "abc_1-1"
    let r' : Bytes := [97, 98, 99, 95, 49, 45, 49, 50]   -- "abc_1-12"
    validRollappId r = true ∧ validRollappId r' = true ∧ r ≠ r' ∧ rollappName r = rollappName r' ∧
      isPrefix (sequencersByRollappKey r) (sequencerByRollappByStatusKey r' [100] .bonded) = true := by decide

/-! ## x/rollapp store keys -/

theorem rollapp_key_injective (a b : Bytes) (e : rollappKey a = rollappKey b) : a = b := by
  simpa [rollappKey] using e

/-- **`GetRollappByName(name)`** (prefix `name + "_"` over `RollappKey`): finds the rollapp `id'`
    exactly when its name is `name` -/
theorem rollapp_by_name_scan_exact (name id' : Bytes) (hn : 95 ∉ name) (h' : validRollappId id' = true) :
    isPrefix (rollappByNamePrefix name) (rollappKey id') = decide (rollappName id' = name) := by
  obtain ⟨rest', e', hn', _⟩ := valid_rollapp_id_name id' h'
  generalize rollappName id' = name' at *
  subst e'
  by_cases e : name' = name
  · subst e
    simp only [rollappByNamePrefix, rollappKey, List.append_assoc, List.singleton_append, List.cons_append]
    have : name' ++ 95 :: (rest' ++ [sep]) = (name' ++ [95]) ++ (rest' ++ [sep]) := by simp
    rw [this, isPrefix_append]; simp
  · cases hp : isPrefix (rollappByNamePrefix name) (rollappKey (name' ++ 95 :: rest')) with
    | false => simp [e]
    | true =>
      obtain ⟨x, hx⟩ := (isPrefix_iff _ _).1 hp
      simp only [rollappByNamePrefix, rollappKey, List.append_assoc, List.singleton_append, List.cons_append] at hx
      exact absurd (sep_split_unique 95 name' name _ _ hn' hn hx).1 e

theorem state_info_key_injective (r r' : Bytes) (i i' : Nat) (hr : sep ∉ r) (hr' : sep ∉ r')
    (hi : i < 2 ^ 64) (hi' : i' < 2 ^ 64) (e : stateInfoKey r i = stateInfoKey r' i') : r = r' ∧ i = i' := by
  simp only [stateInfoKey, List.append_assoc, List.singleton_append, List.cons_append] at e
  have e1 := sep_split_unique sep r r' _ _ hr hr' e
  exact ⟨e1.1, be64_inj i i' hi hi' (List.append_cancel_right e1.2)⟩

/-- C19 "sort numerically": the state infos of one rollapp sort by state index -/
theorem state_info_index_order (r : Bytes) (i i' : Nat) (hi : i < 2 ^ 64) (hi' : i' < 2 ^ 64) :
    lexLt (stateInfoKey r i) (stateInfoKey r i') = decide (i < i') := by
  simp only [stateInfoKey, List.append_assoc, lexLt_append_left]
  by_cases h : i < i'
  · rw [lexLt_append_of_lt _ _ _ _ (by simp [be64_length]) (by rw [lexLt_be64 i i' hi hi']; simpa using h)]
    simp [h]
  · by_cases he : i = i'
    · subst he; simp [lexLt_irrefl]
    · have hgt : i' < i := by omega
      have := lexLt_append_of_lt (be64 i') (be64 i) [sep] [sep] (by simp [be64_length])
        (by rw [lexLt_be64 i' i hi' hi]; simpa using hgt)
      rw [lexLt_asymm _ _ this]; simp [h]

/-- the state infos of one rollapp are never returned by a by-rollapp prefix scan of another -/
theorem state_info_scan_by_rollapp_exact (r r' : Bytes) (i : Nat) (hr : sep ∉ r) (hr' : sep ∉ r') :
    isPrefix (r ++ [sep]) (stateInfoKey r' i) = decide (r' = r) := by
  by_cases e : r' = r
  · subst e
    have : stateInfoKey r' i = (r' ++ [sep]) ++ (be64 i ++ [sep]) := by simp [stateInfoKey]
    rw [this, isPrefix_append]; simp
  · cases hp : isPrefix (r ++ [sep]) (stateInfoKey r' i) with
    | false => simp [e]
    | true =>
      obtain ⟨x, hx⟩ := (isPrefix_iff _ _).1 hp
      simp only [stateInfoKey, List.append_assoc, List.singleton_append, List.cons_append] at hx
      exact absurd (sep_split_unique sep r' r _ _ hr' hr hx).1 e

theorem app_key_injective (r r' : Bytes) (n n' : Nat) (hr : sep ∉ r) (hr' : sep ∉ r')
    (hn : n < 2 ^ 64) (hn' : n' < 2 ^ 64) (e : appKey r n = appKey r' n') : r = r' ∧ n = n' := by
  simp only [appKey, List.append_assoc, List.singleton_append] at e
  have e1 := sep_split_unique sep r r' _ _ hr hr' e
  exact ⟨e1.1, be64_inj n n' hn hn' e1.2⟩

/-- `GetRollappApps(rollapp)` (prefix `RollappAppKeyPrefix`): exactly that rollapp's apps -/
theorem app_scan_by_rollapp_exact (r r' : Bytes) (n : Nat) (hr : sep ∉ r) (hr' : sep ∉ r') :
    isPrefix (rollappAppKeyPrefix r) (appKey r' n) = decide (r' = r) := by
  by_cases e : r' = r
  · subst e
    simp only [rollappAppKeyPrefix, appKey]
    rw [isPrefix_append]; simp
  · cases hp : isPrefix (rollappAppKeyPrefix r) (appKey r' n) with
    | false => simp [e]
    | true =>
      obtain ⟨x, hx⟩ := (isPrefix_iff _ _).1 hp
      simp only [rollappAppKeyPrefix, appKey, List.append_assoc, List.singleton_append] at hx
      exact absurd (sep_split_unique sep r' r _ _ hr' hr hx).1 e

theorem rollapp_by_eip155_key_injective (n n' : Nat) (hn : n < 2 ^ 64) (hn' : n' < 2 ^ 64)
    (e : rollappByEIP155Key n = rollappByEIP155Key n') : n = n' := by
  simp only [rollappByEIP155Key, le64] at e
  have := List.append_cancel_right e
  exact be64_inj n n' hn hn' (List.reverse_inj.1 this)

/-- the edge, stated: the EIP155 index is LITTLE endian, so its keys do NOT sort numerically (nothing
    in the hub iterates this index in order) -/
theorem rollapp_by_eip155_key_order_counterexample :
    lexLt (rollappByEIP155Key 256) (rollappByEIP155Key 1) = true := by decide

theorem block_height_queue_key_order (h h' : Nat) (hh : h < 2 ^ 64) (hh' : h' < 2 ^ 64) (hlt : h < h') :
    lexLt (blockHeightToFinalizationQueueKey h) (blockHeightToFinalizationQueueKey h') = true :=
  lexLt_append_of_lt _ _ _ _ (by simp [be64_length]) (by rw [lexLt_be64 h h' hh hh']; simpa using hlt)

/-! ## liveness queue, demand orders, delayedack store -/

/-- **`GetLivenessEvents(&h)`** (prefix `LivenessEventQueueIterHeightKey(h)`): returns the event
    (h', rollapp) exactly when h' = h — the `*height < e.HubHeight → break` guard of the loop never fires -/
theorem liveness_scan_by_height_exact (h h' : Nat) (r : Bytes) (hh : h < 2 ^ 64) (hh' : h' < 2 ^ 64) :
    isPrefix (livenessScanPrefix h) (livenessKey h' r) = decide (h' = h) := by
  simp only [livenessScanPrefix, livenessKey, livenessIterHeightKey, List.append_assoc, isPrefix_append_left]
  have := eqlen_isPrefix (be64 h) (be64 h') ([sep] ++ ([115] ++ ([sep] ++ r))) (by simp [be64_length])
  rw [this]
  by_cases e : h' = h
  · subst e; simp
  · have : be64 h ≠ be64 h' := fun x => e (be64_inj h h' hh hh' x).symm
    simp [e, this]

/-- C19 "sort by height": liveness events are stored in hub-height order (what the whole-queue walk
    `GetLivenessEvents(nil)` and the comment "events are stored in height non-decreasing order" rely on) -/
theorem liveness_key_height_order (h h' : Nat) (r r' : Bytes) (hh : h < 2 ^ 64) (hh' : h' < 2 ^ 64) (hlt : h < h') :
    lexLt (livenessKey h r) (livenessKey h' r') = true := by
  simp only [livenessKey, livenessIterHeightKey, List.append_assoc, lexLt_append_left]
  exact lexLt_append_of_lt _ _ _ _ (by simp [be64_length]) (by rw [lexLt_be64 h h' hh hh']; simpa using hlt)

theorem liveness_key_injective (h h' : Nat) (r r' : Bytes) (hh : h < 2 ^ 64) (hh' : h' < 2 ^ 64)
    (e : livenessKey h r = livenessKey h' r') : h = h' ∧ r = r' := by
  have a := liveness_key_roundtrip h r hh
  rw [e, liveness_key_roundtrip h' r' hh'] at a
  simpa [eq_comm] using a

/-- **`ListDemandOrdersByStatus(status)`**: the prefix scan returns exactly the orders stored under that status -/
theorem demand_orders_by_status_scan_exact (st st' : Status) (i : Bytes) :
    isPrefix (demandOrdersByStatusPrefix st) (demandOrderKey st' i) = decide (st' = st) := by
  cases st <;> cases st' <;> simp [demandOrdersByStatusPrefix, demandOrderKey, statusBytes, isPrefix]

/-- the by-status scan of rollapp packets returns exactly the packets of that status -/
theorem packets_by_status_scan_exact (st st' : Status) (r : Bytes) (h : Nat) (t : PType) (c : Bytes) (s : Nat) :
    isPrefix (byStatusPrefix st) (rollappPacketKey st' r h t c s) = decide (st' = st) := by
  cases st <;> cases st' <;>
    simp [byStatusPrefix, rollappPacketKey, byStatusRollappHeightPrefix, byStatusRollappPrefix, statusBytes, isPrefix, sep]

/-- inside the delayedack store the collections key set `pendingPacketsByAddress` (prefix 0x01) and the
    rollapp packets (keys starting 0x00) never meet: no packet key lies in any scan of the key set and
    no key-set entry is returned by a packet scan -/
theorem delayedack_prefixes_disjoint (st : Status) (r : Bytes) (h : Nat) (t : PType) (c : Bytes) (s : Nat) (x : Bytes) :
    isPrefix pendingPacketsByAddressPrefix (rollappPacketKey st r h t c s) = false ∧
    isPrefix (byStatusPrefix st) (pendingPacketsByAddressPrefix ++ x) = false := by
  cases st <;> simp [pendingPacketsByAddressPrefix, byStatusPrefix, rollappPacketKey, byStatusRollappHeightPrefix,
    byStatusRollappPrefix, statusBytes, isPrefix]

end DymVerif.C19
