/-
  Props/C02 — states finalize only after the dispute period, in order, irreversibly, unstarved.
  Property theorems over M-Core, for every parameter value (every dispute period from 0 up), every
  operation sequence (several updates per hub block, several rollapps, forks, kicks, obsolete marking)
  and every failure oracle in every `end_` op.  The invariant itself (`FinInv`, `RFin`) and the
  step lemmas live in `Lemmas/CoreFin*.lean`.
-/
import DymVerif.Lemmas.CoreFinIso
namespace DymVerif.C02
open DymVerif DymVerif.Core

/-- a rejected message leaves every component of the state untouched (the model returns its input
    state on error, mirroring baseapp's per-message cache context; that the real code does so is
    checked by the harness: full observation equality after every rejected op) -/
theorem reject_unchanged (s : St) (o : Op) (e : Err) (h : (step s o).2 = some e) : (step s o).1 = s := by
  unfold step at *
  cases h' : apply s o with
  | ok s' => simp [h'] at h
  | error e' => simp [h']

/-- **The finalization invariant holds in every reachable state**: unique rollapp ids; the queue is
    strictly sorted by (creation height, rollapp), its entries are non-empty, not from the future and
    belong to existing rollapps; and for every rollapp `RFin` (see the clauses below). -/
theorem finalization_invariant (p : Params) (ops : List Op) : FinInv (run p ops) := run_fin p ops

/-- **Never early** (ghost form): every finalized state info of every reachable state was finalized
    at a hub height `finalizedAt ≥ creationHeight + dispute`, for every dispute period `p.dispute ≥ 0`.
    (`finalizedAt` is the model's ghost record of the hub height of the `EndBlock` that finalized the
    state; `finalized_only_by_end_block` / `finalized_at_block_end` below are the ghost-free
    transition forms.) -/
theorem finalized_not_early (p : Params) (ops : List Op) (r : Rollapp) (hr : r ∈ (run p ops).ras)
    (st : SInfo) (hst : st ∈ r.states) (hf : st.finalized = true) :
    st.creationHeight + p.dispute ≤ st.finalizedAt := by
  have := ((run_fin p ops).ras r hr).notEarly st hst hf
  rw [run_p] at this
  exact this

/-- **Only at the end of a block, after the dispute period** (transition form): if a state that is
    unfinalized before an `end_` op (with any failure oracle) is finalized after it, then the block
    height is at least its creation height plus the dispute period, and nothing but the finalization
    flag (and the ghost height, set to this block's height) changed in it. -/
theorem finalized_only_at_block_end (p : Params) (ops : List Op) (fails : List (Nat × Nat))
    (r r' : Rollapp) (hr : r ∈ (run p ops).ras) (i : Nat) (st st' : SInfo)
    (hst : r.states[i]? = some st) (hnf : st.finalized = false)
    (hg' : getRa (run p (ops ++ [.end_ fails])) r.id = some r') (hst' : r'.states[i]? = some st')
    (hf : st'.finalized = true) :
    st.creationHeight + p.dispute ≤ (run p ops).h ∧
      st' = { st with finalized := true, finalizedAt := (run p ops).h } := by
  have hrun : run p (ops ++ [.end_ fails]) = endBlock (run p ops) fails := by
    rw [run_append]; rfl
  rw [hrun] at hg'
  have := endBlock_newly fails (run_fin p ops) hr hst hnf hg' hst' hf
  rw [run_p] at this
  exact this

/-- **Only the end of a block finalizes**: after any accepted op other than `end_` (updates, fraud
    proposals, kicks, rotations, obsolete marking, `begin_` …) every finalized state info of the
    post-state was already finalized in the pre-state — same rollapp, same index, same creator, heights,
    descriptors, creation height and finalization height. -/
theorem finalized_only_by_end_block (p : Params) (ops : List Op) (o : Op) (s' : St)
    (h : apply (run p ops) o = .ok s') (hne : ∀ f, o ≠ .end_ f)
    (r' : Rollapp) (hr' : r' ∈ s'.ras) (i : Nat) (st' : SInfo) (hst' : r'.states[i]? = some st')
    (hf : st'.finalized = true) :
    ∃ r ∈ (run p ops).ras, r.id = r'.id ∧ ∃ st, r.states[i]? = some st ∧ st.finalized = true ∧
      st.creator = st'.creator ∧ st.start = st'.start ∧ st.num = st'.num ∧ st.bds = st'.bds ∧
      st.creationHeight = st'.creationHeight ∧ st.finalizedAt = st'.finalizedAt := by
  obtain ⟨r, hr, hid, st, hst, hk⟩ := apply_back h hne (run_inv p ops).1 (run_fin p ops) r' hr' i st' hst' hf
  have f := sKey_fields hk
  exact ⟨r, hr, hid, st, hst, by rw [f.2.2.2.2.1]; exact hf, f.1, f.2.1, f.2.2.1, f.2.2.2.2.2.1, f.2.2.2.1, f.2.2.2.2.2.2.2⟩

/-- **… and only after the dispute period**: every finalized state info after an `end_` op (any
    oracle) either was finalized before and is untouched, or was unfinalized with
    `creationHeight + dispute ≤ block height` and differs only in the flag (and the ghost height). -/
theorem finalized_at_block_end (p : Params) (ops : List Op) (fails : List (Nat × Nat))
    (r' : Rollapp) (hg' : getRa (run p (ops ++ [.end_ fails])) r'.id = some r')
    (i : Nat) (st' : SInfo) (hst' : r'.states[i]? = some st') (hf : st'.finalized = true) :
    ∃ r ∈ (run p ops).ras, r.id = r'.id ∧ ∃ st, r.states[i]? = some st ∧
      ((st.finalized = true ∧ st' = st) ∨
       (st.finalized = false ∧ st.creationHeight + p.dispute ≤ (run p ops).h ∧
         st' = { st with finalized := true, finalizedAt := (run p ops).h })) := by
  have hrun : run p (ops ++ [.end_ fails]) = endBlock (run p ops) fails := by
    rw [run_append]; rfl
  rw [hrun] at hg'
  have := endBlock_back fails (run_fin p ops) hg' hst' hf
  rw [run_p] at this
  exact this

/-- **In order**: in every reachable state the finalized state infos of a rollapp are exactly those
    with (1-based) index ≤ the latest finalized index — a state is finalized only if every earlier
    state of the rollapp is. -/
theorem finalized_prefix (p : Params) (ops : List Op) (r : Rollapp) (hr : r ∈ (run p ops).ras) :
    r.lastFin ≤ r.states.length ∧
    ∀ (i : Nat) (st : SInfo), r.states[i]? = some st → (st.finalized = true ↔ i + 1 ≤ r.lastFin) := by
  have h := (run_fin p ops).ras r hr
  exact ⟨h.le, fun i st hst => by rw [h.pre i st hst]; omega⟩

/-- corollary: a finalized state has all its predecessors finalized -/
theorem finalized_after_all_earlier (p : Params) (ops : List Op) (r : Rollapp) (hr : r ∈ (run p ops).ras)
    (i j : Nat) (st sj : SInfo) (hst : r.states[i]? = some st) (hf : st.finalized = true)
    (hj : j ≤ i) (hsj : r.states[j]? = some sj) : sj.finalized = true := by
  have h := (finalized_prefix p ops r hr).2
  exact (h j sj hsj).2 (by have := (h i st hst).1 hf; omega)

/-- **Queue integrity**: in every reachable state — whatever forks, fault oracles and interleavings
    of rollapps produced it — the queued indices of each rollapp, read in queue order, are exactly
    `lastFin+1, …, n` (nothing lost, duplicated or reordered); the queue is strictly sorted by
    (creation height, rollapp) and every queued index sits in the entry of its own creation height. -/
theorem queue_integrity (p : Params) (ops : List Op) (r : Rollapp) (hr : r ∈ (run p ops).ras) :
    flat (run p ops).queue r.id = List.range' (r.lastFin + 1) (r.states.length - r.lastFin) ∧
    QSorted (run p ops).queue ∧
    (∀ e ∈ (run p ops).queue, e.idx ≠ [] ∧ e.ch ≤ (run p ops).h) ∧
    (∀ e ∈ (run p ops).queue, e.ra = r.id → ∀ i ∈ e.idx, ∃ st, r.states[i - 1]? = some st ∧ st.creationHeight = e.ch) := by
  have hi := run_fin p ops
  have h := hi.ras r hr
  exact ⟨h.flat_eq, hi.sorted, fun e he => ⟨(hi.ent e he).2, (hi.ent e he).1⟩, h.ch⟩

/-- **Irreversible, one step**: for every accepted op (fraud proposals, kicks, obsolete marking, updates,
    blocks included), a state info that is finalized before the op is still there after it, at the
    same index of the same rollapp, with the same creator, start height, number of blocks, block
    descriptors, creation height, status (finalized) and finalization height.  Only `next`
    (`NextProposer`, rewritten by proposer rotation / forks on the latest state) may differ. -/
theorem finalized_frozen_step (p : Params) (ops : List Op) (o : Op) (s' : St) (h : apply (run p ops) o = .ok s')
    (r : Rollapp) (hr : r ∈ (run p ops).ras) (i : Nat) (st : SInfo) (hst : r.states[i]? = some st)
    (hf : st.finalized = true) :
    ∃ r' st', getRa s' r.id = some r' ∧ r'.states[i]? = some st' ∧
      st'.creator = st.creator ∧ st'.start = st.start ∧ st'.num = st.num ∧ st'.bds = st.bds ∧
      st'.creationHeight = st.creationHeight ∧ st'.finalized = true ∧ st'.finalizedAt = st.finalizedAt := by
  obtain ⟨_, hi', hev, _⟩ := apply_good h (run_inv p ops).1 (run_fin p ops)
  obtain ⟨r', st', hg, hs, hk⟩ := hev.get hi'.nodup hr hst hf
  have f := sKey_fields hk
  exact ⟨r', st', hg, hs, f.1, f.2.1, f.2.2.1, f.2.2.2.2.2.1, f.2.2.2.1, by rw [f.2.2.2.2.1]; exact hf, f.2.2.2.2.2.2.2⟩

/-- **Irreversible, forever**: the same for every continuation `more` of the history. -/
theorem finalized_frozen (p : Params) (ops more : List Op)
    (r : Rollapp) (hr : r ∈ (run p ops).ras) (i : Nat) (st : SInfo) (hst : r.states[i]? = some st)
    (hf : st.finalized = true) :
    ∃ r' st', getRa (run p (ops ++ more)) r.id = some r' ∧ r'.states[i]? = some st' ∧
      st'.creator = st.creator ∧ st'.start = st.start ∧ st'.num = st.num ∧ st'.bds = st.bds ∧
      st'.creationHeight = st.creationHeight ∧ st'.finalized = true ∧ st'.finalizedAt = st.finalizedAt := by
  obtain ⟨r', st', hg, hs, hk⟩ := (run_evolves p ops more).get (run_fin p (ops ++ more)).nodup hr hst hf
  have f := sKey_fields hk
  exact ⟨r', st', hg, hs, f.1, f.2.1, f.2.2.1, f.2.2.2.2.2.1, f.2.2.2.1, by rw [f.2.2.2.2.1]; exact hf, f.2.2.2.2.2.2.2⟩

/-- **Unstarved**: at the end of a block of height `H` (any reachable pre-state, any oracle), every
    pending state whose dispute period has elapsed (`creationHeight + dispute ≤ H`) is finalized at
    this block — provided the oracle fails none of that rollapp's pending indices up to its own
    (all of which are due as well, being queued no later).  Failures of other rollapps, and failures
    of later indices of the same rollapp, do not matter. -/
theorem finalize_complete (p : Params) (ops : List Op) (fails : List (Nat × Nat))
    (r : Rollapp) (hr : r ∈ (run p ops).ras) (i : Nat) (st : SInfo) (hst : r.states[i]? = some st)
    (hnf : st.finalized = false) (hdue : st.creationHeight + p.dispute ≤ (run p ops).h)
    (hok : ∀ j, r.lastFin < j → j ≤ i + 1 → (r.id, j) ∉ fails) :
    ∃ r', getRa (run p (ops ++ [.end_ fails])) r.id = some r' ∧
      r'.states[i]? = some { st with finalized := true, finalizedAt := (run p ops).h } := by
  have hrun : run p (ops ++ [.end_ fails]) = endBlock (run p ops) fails := by
    rw [run_append]; rfl
  rw [hrun]
  exact endBlock_complete fails (run_fin p ops) hr hst hnf (by rw [run_p]; exact hdue) hok

/-- **Failure isolation**: what an `EndBlock` does to a rollapp's record (all its state infos, the
    latest finalized index and every other field) depends only on the oracle restricted to that
    rollapp's due indices: two oracles that agree there give the same record, whatever they do to other
    rollapps — for every reachable pre-state. -/
theorem failure_isolated_gen (p : Params) (ops : List Op) (f1 f2 : List (Nat × Nat)) (id : Nat)
    (hag : ∀ e ∈ (run p ops).queue, e.ra = id → e.ch + p.dispute ≤ (run p ops).h →
      ∀ j ∈ e.idx, f1.contains (id, j) = f2.contains (id, j)) :
    getRa (run p (ops ++ [.end_ f1])) id = getRa (run p (ops ++ [.end_ f2])) id := by
  have hrun : ∀ f, run p (ops ++ [.end_ f]) = endBlock (run p ops) f := by
    intro f; rw [run_append]; rfl
  rw [hrun, hrun]
  apply endBlock_iso_full _ (run_fin p ops).nodup
  rw [run_p]; exact hag

/-- in particular: for a rollapp none of whose due indices is failed, the record after the block
    equals the record under the empty oracle (no failure anywhere) -/
theorem failure_isolated (p : Params) (ops : List Op) (fails : List (Nat × Nat)) (id : Nat)
    (hno : ∀ e ∈ (run p ops).queue, e.ra = id → e.ch + p.dispute ≤ (run p ops).h → ∀ j ∈ e.idx, (id, j) ∉ fails) :
    getRa (run p (ops ++ [.end_ fails])) id = getRa (run p (ops ++ [.end_ []])) id := by
  apply failure_isolated_gen
  intro e he hra hdue j hj
  have := hno e he hra hdue j hj
  have h1 : fails.contains (id, j) = false := by simpa using this
  rw [h1]; rfl

-- ---------------------------------------------------------------- non-vacuity: concrete histories

def exParams (d : Nat) : Params where
  dispute := d
  lsBlocks := 50
  lsInterval := 2
  lsMul := ⟨0⟩
  lsAbs := 0
  dishonorSU := 1
  dishonorL := 1
  kickThr := 2
  noticePeriod := 10
def exBds (start n : Nat) : List BD := (List.range n).map fun i => { height := start + i, hasTs := true, drs := 1, rootOk := true }
def upd (ra sender start num : Nat) : Op :=
  .update { ra := ra, sender := sender, start := start, num := num, rev := 0, last := false, bds := exBds start num }
/-- two rollapps; rollapp 0 gets updates at hub heights 1, 1, 2; rollapp 1 at height 1 -/
def exOps : List Op := [.createRollapp 0 9 10, .createRollapp 1 9 10, .fund 1 100, .fund 2 100,
  .createSeq 1 0 10 true, .createSeq 2 1 10 true,
  upd 0 1 1 3, upd 0 1 4 2, upd 1 2 1 5, .begin_ 1, .end_ [], upd 0 1 6 1, .begin_ 1]

def view (s : St) := s.ras.map fun r => (r.id, r.lastFin, r.states.map fun st => (st.finalized, st.creationHeight, st.finalizedAt))
def qview (s : St) := s.queue.map fun e => (e.ch, e.ra, e.idx)

-- dispute period 2, at height 3: nothing finalized yet, all three + one indices queued in order
example : view (run (exParams 2) exOps) = [(0, 0, [(false, 1, 0), (false, 1, 0), (false, 2, 0)]), (1, 0, [(false, 1, 0)])] := by decide
example : qview (run (exParams 2) exOps) = [(1, 0, [1, 2]), (1, 1, [1]), (2, 0, [3])] := by decide
-- end of block 3 = 1 + 2: exactly the states created at height 1 finalize, with finalizedAt = 3
example : view (run (exParams 2) (exOps ++ [.end_ []])) =
    [(0, 2, [(true, 1, 3), (true, 1, 3), (false, 2, 0)]), (1, 1, [(true, 1, 3)])] := by decide
-- a failure injected at index 2 of rollapp 0: index 1 finalizes, 2 stays queued (entry rewritten), rollapp 1 unaffected
example : view (run (exParams 2) (exOps ++ [.end_ [(0, 2)]])) =
    [(0, 1, [(true, 1, 3), (false, 1, 0), (false, 2, 0)]), (1, 1, [(true, 1, 3)])] := by decide
example : qview (run (exParams 2) (exOps ++ [.end_ [(0, 2)]])) = [(1, 0, [2]), (2, 0, [3])] := by decide
-- retried at the next block, together with the state that became due meanwhile
example : view (run (exParams 2) (exOps ++ [.end_ [(0, 2)], .begin_ 1, .end_ []])) =
    [(0, 3, [(true, 1, 3), (true, 1, 4), (true, 2, 4)]), (1, 1, [(true, 1, 3)])] := by decide
-- dispute period 0: finalized at the end of the creation block
example : view (run (exParams 0) [.createRollapp 0 9 10, .fund 1 100, .createSeq 1 0 10 true, upd 0 1 1 3, .end_ []]) =
    [(0, 1, [(true, 1, 1)])] := by decide
-- a fraud proposal after finalization: the finalized prefix is kept, the pending suffix is dropped
example : view (run (exParams 2) (exOps ++ [.end_ [], .bridge 0 1, .fraud true 0 6 0 none none])) =
    [(0, 2, [(true, 1, 3), (true, 1, 3)]), (1, 1, [(true, 1, 3)])] := by decide
-- a fraud proposal on a finalized height is refused
example : (step (run (exParams 2) (exOps ++ [.end_ [], .bridge 0 1])) (.fraud true 0 5 0 none none)).2 = some Err.finalizedHeight := by decide

end DymVerif.C02
