/-
  Props/C14RefsX — C14, the index-driven queries of x/lockup at the LIST / SUM level (Model/LockupRefs).
  Props/C14Refs proves the reference walks correct up to membership; here, for every history of
  messages, blocks, restarts and parameter changes (signed by accounts that are not blocked):

    periodLocksR_eq                  `GetPeriodLocks` by the keeper's reference walks IS the list
                                     `periodLocks` (not-unlocking then unlocking, each by (duration, id))
    restartR_exports_by_refs         so a restart that exports by the walk exports that list
    accountPeriodLocksR_eq / locksLongerThanDurationDenomR_eq
                                     the lock-list queries are the filtered lock table in the walk's order
    accountLockedCoinsR_eq / accountUnlockingCoinsR_eq / accountUnlockableCoinsR_eq
                                     the coin queries are sums over the lock table of the matching filter
    lock_ref_keys_nodup              the 4 (not unlocking) / 8 (unlocking) references of one lock are
                                     pairwise distinct
    walk_in_key_id_order             every walk inside one (queue, family, account, denom) returns the
                                     locks in its range sorted by (key, lock id)
-/
import DymVerif.Props.C14Refs
import DymVerif.Lemmas.LockupRefsSum
namespace DymVerif.C14
open DymVerif DymVerif.Lockup DymVerif.Genesis

/-- the reference-level state of a chain -/
abbrev rsOf (rc : RChain) : RState := ⟨rc.c.s, rc.refs⟩

/-- **periodLocksR_eq**: after any history `GetPeriodLocks`, computed as the keeper does (walk of the
    by-duration references of the not-unlocking queue, then of the unlocking queue, `GetLockByID` of
    every id), returns exactly the list `periodLocks` of the lock table — same locks, same order -/
theorem periodLocksR_eq (B : Actor → Bool) (p : Params) (bal : Actor → Denom → Nat) (now height : Nat)
    (ops : List COp) (hs : Signed B ops) :
    periodLocksR (rsOf (rcrun B (rcinit p bal now height) ops))
      = some (periodLocks (rcrun B (rcinit p bal now height) ops).c.s.locks) :=
  periodLocksR_list (rs := rsOf _) (reachable_rcinv B p bal now height ops hs).refs
    (reachable_rcinv B p bal now height ops hs).inv.nodup

/-- **restartR_exports_by_refs**: the list the reference walk yields at a restart is the exported
    genesis, and the restart imports exactly that list: exporting by the walk = exporting the list -/
theorem restartR_exports_by_refs (B : Actor → Bool) (p : Params) (bal : Actor → Denom → Nat) (now height : Nat)
    (ops : List COp) (hs : Signed B ops) :
    ∃ pl refs', periodLocksR (rsOf (rcrun B (rcinit p bal now height) ops)) = some pl ∧
      pl = (exportGenesis (rcrun B (rcinit p bal now height) ops).c.s).locks ∧
      importRefs pl [] = some refs' ∧
      restartR (rcrun B (rcinit p bal now height) ops)
        = (⟨restart (rcrun B (rcinit p bal now height) ops).c, refs'⟩, .out (.ok 0)) := by
  have hpl := periodLocksR_eq B p bal now height ops hs
  have hgood := (restartR_good (reachable_rcinv B p bal now height ops hs)).2.1
  generalize rcrun B (rcinit p bal now height) ops = rc at hpl hgood
  refine ⟨_, ?_, hpl, rfl, ?_⟩
  · exact ((importRefs (exportGenesis rc.c.s).locks []).getD [])
  · unfold restartR at hgood ⊢
    rw [show periodLocksR ⟨rc.c.s, rc.refs⟩ = some (periodLocks rc.c.s.locks) from hpl] at hgood ⊢
    dsimp only at hgood ⊢
    cases hi : importRefs (exportGenesis rc.c.s).locks [] with
    | none => rw [hi] at hgood; cases hgood
    | some r => exact ⟨hi, rfl⟩

/-- **accountPeriodLocksR_eq**: `GetAccountPeriodLocks` by the account-duration references = the owner's
    not-unlocking locks then the unlocking ones, each sorted by (duration, id) -/
theorem accountPeriodLocksR_eq (B : Actor → Bool) (p : Params) (bal : Actor → Denom → Nat) (now height : Nat)
    (ops : List COp) (hs : Signed B ops) (a : Actor) :
    accountPeriodLocksR (rsOf (rcrun B (rcinit p bal now height) ops)) a
      = some (accountPeriodLocks (rcrun B (rcinit p bal now height) ops).c.s.locks a) :=
  accountPeriodLocksR_list (rs := rsOf _) (reachable_rcinv B p bal now height ops hs).refs
    (reachable_rcinv B p bal now height ops hs).inv.nodup a

/-- the ids, in the walk's order -/
theorem accountPeriodLocksR_ids (B : Actor → Bool) (p : Params) (bal : Actor → Denom → Nat) (now height : Nat)
    (ops : List COp) (hs : Signed B ops) (a : Actor) :
    (accountPeriodLocksR (rsOf (rcrun B (rcinit p bal now height) ops)) a).map (·.map (·.id))
      = some ((accountPeriodLocks (rcrun B (rcinit p bal now height) ops).c.s.locks a).map (·.id)) := by
  rw [accountPeriodLocksR_eq B p bal now height ops hs a]; rfl

/-- **locksLongerThanDurationDenomR_eq**: `GetLocksLongerThanDurationDenom(denom, k)` by the
    denom-duration references = the locks of the denom with duration >= k, not-unlocking first, each
    queue sorted by (duration, id) -/
theorem locksLongerThanDurationDenomR_eq (B : Actor → Bool) (p : Params) (bal : Actor → Denom → Nat) (now height : Nat)
    (ops : List COp) (hs : Signed B ops) (d : Denom) (k : Nat) :
    locksLongerThanDurationDenomR (rsOf (rcrun B (rcinit p bal now height) ops)) d k
      = some (locksLongerThanDurationDenom (rcrun B (rcinit p bal now height) ops).c.s.locks d k) :=
  locksLongerThanDurationDenomR_list (rs := rsOf _) (reachable_rcinv B p bal now height ops hs).refs
    (reachable_rcinv B p bal now height ops hs).inv.nodup d k

/-- **accountUnlockableCoinsR_eq**: `GetAccountUnlockableCoins` (walk of the account's end-time references
    up to now) = Σ amount over the lock table of the owner's matured locks of the denom -/
theorem accountUnlockableCoinsR_eq (B : Actor → Bool) (p : Params) (bal : Actor → Denom → Nat) (now height : Nat)
    (ops : List COp) (hs : Signed B ops) (a : Actor) (d : Denom) :
    accountUnlockableCoinsR (rsOf (rcrun B (rcinit p bal now height) ops)) a d
      = some (total (fun l => (l.owner == a && matured (rcrun B (rcinit p bal now height) ops).c.s.now l) && l.denom == d)
          (rcrun B (rcinit p bal now height) ops).c.s.locks) :=
  accountUnlockableCoinsR_sum (rs := rsOf _) (reachable_rcinv B p bal now height ops hs).refs
    (reachable_rcinv B p bal now height ops hs).inv.nodup a d

/-- **accountUnlockingCoinsR_eq**: `GetAccountUnlockingCoins` (walk of the account's end-time references
    after now) = Σ amount of the owner's unlocking locks of the denom whose end time is still ahead -/
theorem accountUnlockingCoinsR_eq (B : Actor → Bool) (p : Params) (bal : Actor → Denom → Nat) (now height : Nat)
    (ops : List COp) (hs : Signed B ops) (a : Actor) (d : Denom) :
    accountUnlockingCoinsR (rsOf (rcrun B (rcinit p bal now height) ops)) a d
      = some (total (fun l => (l.owner == a && l.isUnlocking &&
                !matured (rcrun B (rcinit p bal now height) ops).c.s.now l) && l.denom == d)
          (rcrun B (rcinit p bal now height) ops).c.s.locks) :=
  accountUnlockingCoinsR_sum (rs := rsOf _) (reachable_rcinv B p bal now height ops hs).refs
    (reachable_rcinv B p bal now height ops hs).inv.nodup a d

/-- **accountLockedCoinsR_eq**: `GetAccountLockedCoins` (not-unlocking walk + unlocking-after-now walk)
    = Σ amount of the owner's locks of the denom that are not matured -/
theorem accountLockedCoinsR_eq (B : Actor → Bool) (p : Params) (bal : Actor → Denom → Nat) (now height : Nat)
    (ops : List COp) (hs : Signed B ops) (a : Actor) (d : Denom) :
    accountLockedCoinsR (rsOf (rcrun B (rcinit p bal now height) ops)) a d
      = some (total (fun l => l.owner == a && l.denom == d && !matured (rcrun B (rcinit p bal now height) ops).c.s.now l)
          (rcrun B (rcinit p bal now height) ops).c.s.locks) :=
  accountLockedCoinsR_sum (rs := rsOf _) (reachable_rcinv B p bal now height ops hs).refs
    (reachable_rcinv B p bal now height ops hs).inv.nodup a d

/-- locked + unlockable = everything the owner has locked in the denom: no lock is counted twice or
    missed by the two index-driven coin queries -/
theorem locked_plus_unlockable_is_all (B : Actor → Bool) (p : Params) (bal : Actor → Denom → Nat) (now height : Nat)
    (ops : List COp) (hs : Signed B ops) (a : Actor) (d : Denom) :
    ∃ x y, accountLockedCoinsR (rsOf (rcrun B (rcinit p bal now height) ops)) a d = some x ∧
      accountUnlockableCoinsR (rsOf (rcrun B (rcinit p bal now height) ops)) a d = some y ∧
      x + y = total (fun l => l.owner == a && l.denom == d) (rcrun B (rcinit p bal now height) ops).c.s.locks := by
  refine ⟨_, _, accountLockedCoinsR_eq B p bal now height ops hs a d,
    accountUnlockableCoinsR_eq B p bal now height ops hs a d, ?_⟩
  apply total_split3
  intro l
  cases h1 : (l.owner == a) <;> cases h2 : (l.denom == d) <;>
    cases h3 : matured (rcrun B (rcinit p bal now height) ops).c.s.now l <;> simp

/-- **lock_ref_keys_nodup**: the references of one lock — 4 duration references when it is not
    unlocking, 8 (duration and end time) when it is — are pairwise distinct store keys -/
theorem lock_ref_keys_nodup (l : Lockup.Lock) :
    (lockRefs l).Nodup ∧ (lockRefs l).length = (if l.isUnlocking then 8 else 4) :=
  ⟨lockRefs_nodup l, lockRefs_length l⟩

/-- **every walk inside one (queue, family, account, denom)** whose range is the locks satisfying `P`
    under the key `key` returns, in every reachable state, the filtered lock table sorted by (key, id) -/
theorem walk_in_key_id_order (B : Actor → Bool) (p : Params) (bal : Actor → Denom → Nat) (now height : Nat)
    (ops : List COp) (hs : Signed B ops) {Q F a d : Nat} {q : RefK → Bool} {key : Lockup.Lock → Nat}
    {P : Lockup.Lock → Bool} (hr : RangeOf Q F a d q key P) :
    getLocksFromIterator (rcrun B (rcinit p bal now height) ops).c.s.locks
        (walk (rcrun B (rcinit p bal now height) ops).refs q)
      = some (sortBy (keyLt key) ((rcrun B (rcinit p bal now height) ops).c.s.locks.filter P)) :=
  walk_range (reachable_rcinv B p bal now height ops hs).refs (reachable_rcinv B p bal now height ops hs).inv.nodup hr

/-! ## non-vacuity -/

example : (periodLocksR (rsOf (rcrun bMod rcBig opsBig))).map (·.map (·.id)) = some [1, 2, 3, 4] := by decide
example : (accountPeriodLocksR (rsOf (rcrun bMod rcBig opsBig)) 1).map (·.length) ≠ some 0 := by decide
example : lockRefs ⟨1, 9, 10, some 10, 0, 50, some 0⟩ ≠ [] := by decide

end DymVerif.C14
