/-
  Props/C01X — C01 (state updates form one gap-free chain posted only by the proposer), the clauses the
  audit found missing in Props/C01:
    (a) an accepted update appends exactly one state at index n+1 — for every value of the `last`
        flag — and leaves the chains of all other rollapps alone;
    (b) the timestamp rule of the acceptance condition, and the exact rejection when it is violated;
    (c) the height lookup returns nothing below the first recorded height (and the first recorded
        height need not be 1);
    (e) frame: one theorem per named op kind that is not an update / fork / finalization, saying that
        the chain view of every rollapp is kept.
  Theorems over M-Core for every parameter value and every operation sequence (`run p ops`).
  The chain view of a record is `XUpd.cKey r = (r.id, r.lastFin, r.revs, r.states.map sKey)`, `sKey`
  being every field of a state info except `next` (`NextProposer`, rewritten on the latest state by
  proposer rotation and forks).
-/
import DymVerif.Props.C01
import DymVerif.Lemmas.CoreXFrame
import DymVerif.Lemmas.CoreXAccept
namespace DymVerif.C01X
open DymVerif DymVerif.Core DymVerif.Core.XUpd

/-- every reachable state is well formed in the sense the frame lemmas need: unique rollapp ids, gap-free
    chains, every queued index within its rollapp's states -/
theorem pre_run (p : Params) (ops : List Op) : Pre (run p ops) := (run_fin p ops).pre (run_chain p ops)

-- ---------------------------------------------------------------- (a) an accepted update appends one state

/-- **An accepted update appends exactly one state at index n+1** — for `last = false`, for the
    hand-over to a real successor (`last = true`, successor set: `AfterSetRealProposer` rewrites
    `next` of the latest state) and for the hand-over to the sentinel (`last = true`, no successor:
    the rollapp is forked to its latest height, which truncates nothing).  In every reachable state,
    if `update m` is accepted and `r` is the record of `m.ra` before, the record after has
      * states = old states ++ [the new state info], field by field except `next`;
      * one more state; the same latest finalized index;
      * the same revisions — except in the sentinel case, where exactly one revision is added,
        numbered `latest + 1` and starting at the first height after the new state. -/
theorem update_appends (p : Params) (ops : List Op) (m : UpdMsg) (s' : St) (r : Rollapp)
    (h : apply (run p ops) (.update m) = .ok s') (hg : getRa (run p ops) m.ra = some r) :
    ∃ r', getRa s' m.ra = some r' ∧
      r'.states.map sKey = (r.states ++ [newSInfo (run p ops) m (updSucc r m)]).map sKey ∧
      r'.states.length = r.states.length + 1 ∧
      r'.lastFin = r.lastFin ∧
      r'.revs = (if m.last = true ∧ r.successor = none
                 then r.revs ++ [(latestRev r + 1, m.start + m.num)] else r.revs) := by
  have e : updateState (run p ops) m = .ok s' := h
  have hk := updateState_rkeys (run_chain p ops) (run_fin p ops) hg e
  have hid := getRa_id hg
  have hga : getRa (setRa (run p ops) { r with states := r.states ++ [newSInfo (run p ops) m (updSucc r m)] }) m.ra =
      some { r with states := r.states ++ [newSInfo (run p ops) m (updSucc r m)] } := by
    rw [← hid]
    exact getRa_setRa_same (run p ops) { r with states := r.states ++ [newSInfo (run p ops) m (updSucc r m)] }
      (by show (getRa (run p ops) r.id).isSome = true; rw [hid, hg]; rfl)
  obtain ⟨r', h1, hk1⟩ := getRa_rKey_some hk hga
  obtain ⟨r'', h2, hrev⟩ := updateState_revs (Fork.run_inv p ops) hg e
  rw [h1] at h2; injection h2 with h2; subst h2
  obtain ⟨_, k2, k3⟩ := rKey_fields hk1
  refine ⟨r', h1, k3, ?_, k2, hrev⟩
  have := map_length_of_eq k3
  rw [this]
  show (r.states ++ [_]).length = _
  simp

/-- **The appended state is the submitted one**, and the earlier states stay where they are: after an
    accepted update the state at (0-based) position n — the latest one — has the sender as creator,
    the submitted start height, number of blocks, descriptors and revision, the current hub height
    as creation height, and is not finalized; every earlier state keeps its position and every field
    except possibly `next`. -/
theorem update_new_state (p : Params) (ops : List Op) (m : UpdMsg) (s' : St) (r : Rollapp)
    (h : apply (run p ops) (.update m) = .ok s') (hg : getRa (run p ops) m.ra = some r) :
    ∃ r' st', getRa s' m.ra = some r' ∧ r'.states[r.states.length]? = some st' ∧ r'.states.getLast? = some st' ∧
      st'.creator = m.sender ∧ st'.start = m.start ∧ st'.num = m.num ∧ st'.bds = m.bds ∧ st'.accRev = m.rev ∧
      st'.creationHeight = (run p ops).h ∧ st'.finalized = false ∧ st'.finalizedAt = 0 ∧
      ∀ (i : Nat) (st : SInfo), r.states[i]? = some st → ∃ st'', r'.states[i]? = some st'' ∧ sKey st'' = sKey st := by
  obtain ⟨r', h1, hk, hlen, _, _⟩ := update_appends p ops m s' r h hg
  have hn : (r.states ++ [newSInfo (run p ops) m (updSucc r m)])[r.states.length]? =
      some (newSInfo (run p ops) m (updSucc r m)) := by simp
  obtain ⟨st', hst', hs⟩ := map_get_of_eq hk.symm hn
  have f := sKey_fields hs
  refine ⟨r', st', h1, hst', ?_, f.1, f.2.1, f.2.2.1, f.2.2.2.2.2.1, f.2.2.2.2.2.2.1, f.2.2.2.1, f.2.2.2.2.1,
    f.2.2.2.2.2.2.2, ?_⟩
  · rw [List.getLast?_eq_getElem?, hlen, Nat.add_sub_cancel]; exact hst'
  · intro i st hst
    have : (r.states ++ [newSInfo (run p ops) m (updSucc r m)])[i]? = some st := by
      rw [List.getElem?_append_left (getElem?_lt hst)]; exact hst
    exact map_get_of_eq hk.symm this

/-- **Non-interference of updates between rollapps**: an accepted update of rollapp `m.ra` (any
    `last` flag, fork to the sentinel included) leaves the chain view — latest finalized index,
    revisions, every state up to `next` — of every other rollapp unchanged, and creates or removes
    no rollapp. -/
theorem update_other_rollapps (p : Params) (ops : List Op) (m : UpdMsg) (s' : St)
    (h : apply (run p ops) (.update m) = .ok s') (id : Nat) (hne : id ≠ m.ra) :
    (getRa s' id).map cKey = (getRa (run p ops) id).map cKey := by
  have e : updateState (run p ops) m = .ok s' := h
  -- the updated rollapp exists
  obtain ⟨r, hg, _⟩ := C01.update_accept_spec _ _ _ h
  have hk := updateState_rkeys (run_chain p ops) (run_fin p ops) hg e
  have hid := getRa_id hg
  have hoth : getRa (setRa (run p ops) { r with states := r.states ++ [newSInfo (run p ops) m (updSucc r m)] }) id =
      getRa (run p ops) id :=
    getRa_setRa_other (run p ops) _ id (by show r.id ≠ id; rw [hid]; exact fun hc => hne hc.symm)
  cases h0 : getRa (run p ops) id with
  | none => rw [getRa_rKey_none hk (hoth.trans h0)]
  | some r0 =>
    obtain ⟨r', h1, hk1⟩ := getRa_rKey_some hk (hoth.trans h0)
    obtain ⟨r'', h2, hrev, _⟩ := Fork.updateState_rk (Fork.run_inv p ops) (fun hc => hne hc.symm) e r0 h0
    rw [h1] at h2; injection h2 with h2; subst h2
    rw [h1]
    simp only [Option.map_some, Option.some.injEq]
    exact cKey_of hk1 hrev

-- ---------------------------------------------------------------- (b) the timestamp rule

/-- **Acceptance implies the timestamp rule**: if the rollapp has no state yet, or the last block
    descriptor of its latest state carries a timestamp (`XUpd.TsRequired`), then every block
    descriptor of an accepted update carries a timestamp. -/
theorem update_accept_spec_ts (s s' : St) (m : UpdMsg) (h : apply s (.update m) = .ok s') :
    ∃ r, getRa s m.ra = some r ∧ (TsRequired r → ∀ b ∈ m.bds, b.hasTs = true) := by
  simp only [apply] at h
  unfold updateState at h
  split at h
  · cases h
  · split at h
    · cases h
    · rename_i r hg
      split at h
      · cases h
      · split at h
        · cases h
        · split at h
          · cases h
          · split at h
            · cases h
            · rename_i hpre
              exact ⟨r, hg, updPre_ts hpre⟩

/-- the full acceptance condition: everything `C01.update_accept_spec` lists (sent by the proposer of
    that moment, current revision, starts right after the latest state, well-formed consistent
    descriptors, DRS version not obsolete, `last` only in a rotation) **and** the timestamp rule -/
theorem update_accept_spec_full (s s' : St) (m : UpdMsg) (h : apply s (.update m) = .ok s') :
    ∃ r, getRa s m.ra = some r ∧
      r.proposer = some m.sender ∧
      latestRev r = m.rev ∧
      (∀ a, r.states.getLast? = some a → m.start = a.start + a.num) ∧
      1 ≤ m.num ∧ m.bds.length = m.num ∧ 1 ≤ m.start ∧
      (∀ i b, m.bds[i]? = some b → b.height = m.start + i ∧ b.rootOk = true) ∧
      s.obsolete.contains ((m.bds.getLast?.map (·.drs)).getD 0) = false ∧
      (m.last = true → awaitingLast s r = true) ∧
      (TsRequired r → ∀ b ∈ m.bds, b.hasTs = true) := by
  obtain ⟨r, hg, h1, h2, h3, h4, h5, h6, h7, h8, h9⟩ := C01.update_accept_spec s s' m h
  obtain ⟨r2, hg2, hts⟩ := update_accept_spec_ts s s' m h
  rw [hg] at hg2; injection hg2 with hg2; subst hg2
  exact ⟨r, hg, h1, h2, h3, h4, h5, h6, h7, h8, h9, hts⟩

/-- **Rejection with exactly `noTimestamp`**, under the guard order of the handler: the message is
    well formed (`ValidateBasic` passes), the rollapp exists, the sender is its proposer, the `last`
    flag is admissible, the revision is the current one — and the timestamp rule is violated (a
    timestamp is required and some descriptor has none).  Then the answer is `Err.noTimestamp`
    (whatever the start height: the rule is checked before the expected height). -/
theorem update_rejected_no_timestamp (s : St) (m : UpdMsg) (r : Rollapp)
    (hvb : updValidateBasic m = .ok ()) (hg : getRa s m.ra = some r) (hprop : r.proposer = some m.sender)
    (hlast : m.last = true → awaitingLast s r = true) (hrev : latestRev r = m.rev)
    (hreq : TsRequired r) (hmiss : ∃ b ∈ m.bds, b.hasTs = false) :
    (step s (.update m)) = (s, some Err.noTimestamp) := by
  have : apply s (.update m) = .error .noTimestamp := updateState_noTimestamp hvb hg hprop hlast hrev hreq hmiss
  unfold step
  rw [this]

-- ---------------------------------------------------------------- (c) lookup below the first height

/-- **Nothing below the first recorded height**: in every reachable state, for every rollapp with
    first state `first`, every height `h < first.start` (in particular `1 … first.start − 1`) is
    looked up to `none`.  Together with `C01.lookup_total` (heights from `first.start` to the latest
    one: exactly the container) and `C01.lookup_none_beyond` (0 and heights above the latest one) this
    covers every height. -/
theorem lookup_none_below_first (p : Params) (ops : List Op) (r : Rollapp) (hr : r ∈ (run p ops).ras)
    (first : SInfo) (hf : r.states[0]? = some first) (h : Nat) (hlt : h < first.start) :
    findByHeight r h = none :=
  findByHeight_none_below (run_chain p ops r hr) hf hlt

/-- the first recorded height of a rollapp is at least 1 in every reachable state … -/
theorem first_start_pos (p : Params) (ops : List Op) (r : Rollapp) (hr : r ∈ (run p ops).ras)
    (first : SInfo) (hf : r.states[0]? = some first) : 1 ≤ first.start :=
  ((run_chain p ops r hr).wf first (List.mem_of_getElem? hf)).start_pos

/-- … and nothing more can be said: the first update of a rollapp is not checked against any expected
    height (`updPre` on a rollapp without states ignores `start`; so does
    `msgServer.UpdateState` in x/rollapp/keeper/msg_server_update_state.go: the expected-height check
    sits inside `if found`; `ValidateBasic` only asks `StartHeight ≠ 0`) -/
theorem first_update_start_unchecked (r : Rollapp) (m : UpdMsg) (x : Nat) (h0 : r.states = []) :
    updPre r { m with start := x } = updPre r m := by
  unfold updPre
  rw [h0]
  rfl

-- ---------------------------------------------------------------- (e) frame, one named op kind at a time

/-- `MsgCreateSequencer` (incl. the recovery from the sentinel it may trigger) keeps the chain view
    of every rollapp -/
theorem create_seq_keeps_chains (p : Params) (ops : List Op) (a : Addr) (ra bond : Nat) (d : Bool) (s' : St)
    (h : apply (run p ops) (.createSeq a ra bond d) = .ok s') (id : Nat) :
    (getRa s' id).map cKey = (getRa (run p ops) id).map cKey :=
  createSeq_kept (pre_run p ops) (Fork.run_inv p ops) h id

/-- `MsgIncreaseBond` keeps the chain view of every rollapp -/
theorem bond_inc_keeps_chains (p : Params) (ops : List Op) (a : Addr) (amt : Nat) (d : Bool) (s' : St)
    (h : apply (run p ops) (.bondInc a amt d) = .ok s') (id : Nat) :
    (getRa s' id).map cKey = (getRa (run p ops) id).map cKey :=
  increaseBond_kept (pre_run p ops) h id

/-- `MsgDecreaseBond` keeps the chain view of every rollapp -/
theorem bond_dec_keeps_chains (p : Params) (ops : List Op) (a : Addr) (amt : Nat) (s' : St)
    (h : apply (run p ops) (.bondDec a amt) = .ok s') (id : Nat) :
    (getRa s' id).map cKey = (getRa (run p ops) id).map cKey :=
  decreaseBond_kept (pre_run p ops) h id

/-- `MsgUnbond` (start of the notice period, or immediate unbond) keeps the chain view of every rollapp -/
theorem unbond_keeps_chains (p : Params) (ops : List Op) (a : Addr) (s' : St)
    (h : apply (run p ops) (.unbond a) = .ok s') (id : Nat) :
    (getRa s' id).map cKey = (getRa (run p ops) id).map cKey :=
  unbond_kept (pre_run p ops) h id

/-- `MsgUpdateOptInStatus` (incl. the recovery from the sentinel it may trigger) keeps the chain view
    of every rollapp -/
theorem opt_in_keeps_chains (p : Params) (ops : List Op) (a : Addr) (v : Bool) (s' : St)
    (h : apply (run p ops) (.optIn a v) = .ok s') (id : Nat) :
    (getRa s' id).map cKey = (getRa (run p ops) id).map cKey :=
  optIn_kept (pre_run p ops) (Fork.run_inv p ops) h id

/-- the sequencer `BeginBlock` (successor choice for finished notices) keeps the chain view of every rollapp -/
theorem begin_block_keeps_chains (p : Params) (ops : List Op) (dt : Nat) (s' : St)
    (h : apply (run p ops) (.begin_ dt) = .ok s') (id : Nat) :
    (getRa s' id).map cKey = (getRa (run p ops) id).map cKey := by
  simp only [apply] at h
  injection h with h; subst h
  exact beginBlock_kept dt (pre_run p ops) (Fork.run_inv p ops) id

/-- the completed genesis bridge (writes `TransferProofHeight`) keeps the chain view of every rollapp -/
theorem bridge_keeps_chains (p : Params) (ops : List Op) (ra hh : Nat) (s' : St)
    (h : apply (run p ops) (.bridge ra hh) = .ok s') (id : Nat) :
    (getRa s' id).map cKey = (getRa (run p ops) id).map cKey :=
  bridge_kept h id

/-- funding an account keeps every rollapp record as it is -/
theorem fund_keeps_rollapps (p : Params) (ops : List Op) (a : Addr) (amt : Nat) (s' : St)
    (h : apply (run p ops) (.fund a amt) = .ok s') (id : Nat) :
    getRa s' id = getRa (run p ops) id :=
  fund_kept h id

/-- creating a rollapp keeps every existing rollapp record as it is; the new one is fresh (no states,
    revision 0 only, nothing finalized) -/
theorem create_rollapp_keeps_rollapps (p : Params) (ops : List Op) (nid : Nat) (owner : Addr) (mb : Nat) (s' : St)
    (h : apply (run p ops) (.createRollapp nid owner mb) = .ok s') :
    getRa (run p ops) nid = none ∧ getRa s' nid = some (newRollapp nid owner mb) ∧
      ∀ id, id ≠ nid → getRa s' id = getRa (run p ops) id :=
  createRollapp_kept h

/-- generic form for the revisions and the latest height, through the all-op lemma `Fork.apply_rk`:
    an accepted op that is not an update of `ra`, a fraud proposal against `ra`, a kick by a sequencer
    of `ra` or an obsolete-marking (`Fork.touches`) keeps `ra`'s revisions and latest height -/
theorem untouched_keeps_revs_and_height (p : Params) (ops : List Op) (o : Op) (s' : St) (ra : Nat)
    (h : apply (run p ops) o = .ok s') (hq : ¬ Fork.touches (run p ops) ra o)
    (r : Rollapp) (hg : getRa (run p ops) ra = some r) :
    ∃ r', getRa s' ra = some r' ∧ r'.revs = r.revs ∧ latestHeight r' = latestHeight r :=
  Fork.apply_rk (Fork.run_inv p ops) h hq r hg

-- ---------------------------------------------------------------- non-vacuity: concrete histories

/-- a rollapp with two sequencers; sequencer 1 is the proposer -/
def exBase : List Op := [.createRollapp 0 9 10, .createRollapp 1 9 10, .fund 1 100, .fund 2 100, .fund 3 100,
  .createSeq 1 0 10 true, .createSeq 2 0 10 true, .createSeq 3 1 10 true,
  .update { ra := 0, sender := 1, start := 1, num := 3, rev := 0, last := false, bds := C01.exBds 1 3 },
  .update { ra := 1, sender := 3, start := 7, num := 2, rev := 0, last := false, bds := C01.exBds 7 2 },
  .bridge 0 1]

/-- ids, latest finalized index and revisions of every rollapp -/
def revView (s : St) := s.ras.map fun r => (r.id, r.lastFin, r.revs)
/-- (start, number of blocks, creator, next proposer) of every state of every rollapp -/
def stView (s : St) := s.ras.map fun r => r.states.map fun st => (st.start, st.num, st.creator, st.next)

-- the first update of rollapp 1 starts at height 7: accepted (the first recorded height need not be 1)
example : revView (run C01.exParams exBase) = [(0, 0, [(0, 0)]), (1, 0, [(0, 0)])] := by decide
example : stView (run C01.exParams exBase) = [[(1, 3, 1, NextP.addr 1)], [(7, 2, 3, NextP.addr 3)]] := by decide
/-- **The first recorded height is not always 1**: a reachable state with a rollapp whose first state
    starts at height 7. -/
theorem first_start_not_always_one :
    ∃ (p : Params) (ops : List Op), ∃ r ∈ (run p ops).ras, ∃ first, r.states[0]? = some first ∧ first.start = 7 := by
  refine ⟨C01.exParams, exBase, ?_⟩
  have h : ((run C01.exParams exBase).ras.map fun r => r.states[0]?.map (·.start)) = [some 1, some 7] := by decide
  have hm : some 7 ∈ ((run C01.exParams exBase).ras.map fun r => r.states[0]?.map (·.start)) := by rw [h]; simp
  obtain ⟨r, hr, h7⟩ := List.mem_map.1 hm
  cases hf : r.states[0]? with
  | none => rw [hf] at h7; cases h7
  | some first =>
    rw [hf] at h7
    simp only [Option.map_some, Option.some.injEq] at h7
    exact ⟨r, hr, first, hf, h7⟩
-- heights 1..6 of that rollapp are looked up to none, 7 and 8 to index 1, 9 to none
example : ((run C01.exParams exBase).ras.map fun r => (List.range 10).map (findByHeight r)) =
    [[none, some 1, some 1, some 1, none, none, none, none, none, none],
     [none, none, none, none, none, none, none, some 1, some 1, none]] := by decide

/-- proposer 1 announces its departure, the notice period (10) elapses, sequencer 2 becomes successor -/
def exRotate : List Op := exBase ++ [.unbond 1, .begin_ 10]
def lastUpd : Op := .update { ra := 0, sender := 1, start := 4, num := 2, rev := 0, last := true, bds := C01.exBds 4 2 }
-- `last = true` with a real successor: the state is appended, `next` names the successor, revisions unchanged
example : revView (run C01.exParams (exRotate ++ [lastUpd])) = [(0, 0, [(0, 0)]), (1, 0, [(0, 0)])] := by decide
example : stView (run C01.exParams (exRotate ++ [lastUpd])) =
    [[(1, 3, 1, NextP.addr 1), (4, 2, 1, NextP.addr 2)], [(7, 2, 3, NextP.addr 3)]] := by decide
/-- the same with no successor available (sequencer 2 opted out before the notice elapsed) -/
def exToSentinel : List Op := exBase ++ [.optIn 2 false, .unbond 1, .begin_ 10]
-- `last = true`, successor = sentinel: the state is appended and kept (2 states), `next` cleared by the fork to
-- the latest height, one revision (1, 6) added; rollapp 1 untouched
example : revView (run C01.exParams (exToSentinel ++ [lastUpd])) = [(0, 0, [(0, 0), (1, 6)]), (1, 0, [(0, 0)])] := by decide
example : stView (run C01.exParams (exToSentinel ++ [lastUpd])) =
    [[(1, 3, 1, NextP.addr 1), (4, 2, 1, NextP.empty)], [(7, 2, 3, NextP.addr 3)]] := by decide
-- the timestamp rule: the latest state has timestamps, an update with one descriptor lacking it is refused
def bd (h : Nat) (ts : Bool) : BD := { height := h, hasTs := ts, drs := 1, rootOk := true }
example : (step (run C01.exParams exBase)
    (.update { ra := 0, sender := 1, start := 4, num := 2, rev := 0, last := false, bds := [bd 4 true, bd 5 false] })).2 =
    some Err.noTimestamp := by decide
-- … even with a wrong start height (the rule is checked first)
example : (step (run C01.exParams exBase)
    (.update { ra := 0, sender := 1, start := 9, num := 1, rev := 0, last := false, bds := [bd 9 false] })).2 =
    some Err.noTimestamp := by decide

end DymVerif.C01X
