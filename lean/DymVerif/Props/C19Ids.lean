/-
  Props/C19Ids — demand-order ids name one and only one packet key, modulo the injectivity of SHA-256,
  which is an explicit HYPOTHESIS of the theorem (a parameter, not an axiom); and what is true about
  base64 text naming packet keys.
-/
import DymVerif.Model.KeysIds
import DymVerif.Lemmas.Keys
import DymVerif.Lemmas.Base64
namespace DymVerif.C19
open DymVerif DymVerif.Keys

theorem hexNib_inj (a b : Nat) (ha : a < 16) (hb : b < 16) (h : hexNib a = hexNib b) : a = b := by
  unfold hexNib at h; split at h <;> split at h <;> omega

/-- `hex.EncodeToString` is injective on byte strings -/
theorem hexLower_inj (a b : Bytes) (ha : Bytes.WF a) (hb : Bytes.WF b) (h : hexLower a = hexLower b) : a = b := by
  induction a generalizing b with
  | nil => cases b with
    | nil => rfl
    | cons y ys => simp [hexLower] at h
  | cons x xs ih =>
    cases b with
    | nil => simp [hexLower] at h
    | cons y ys =>
      have hx : x < 256 := ha x (by simp)
      have hy : y < 256 := hb y (by simp)
      simp only [hexLower, List.flatMap_cons, List.cons_append, List.nil_append, List.cons.injEq] at h
      obtain ⟨h1, h2, h3⟩ := h
      have e1 := hexNib_inj _ _ (Nat.mod_lt _ (by decide)) (Nat.mod_lt _ (by decide)) h1
      have e2 := hexNib_inj _ _ (Nat.mod_lt _ (by decide)) (Nat.mod_lt _ (by decide)) h2
      have : x = y := by omega
      subst this
      rw [ih ys (fun c hc => ha c (by simp [hc])) (fun c hc => hb c (by simp [hc])) h3]

/-- C19 "names one and only one object" for demand-order ids: IF the hash is injective (the
    collision-freedom of SHA-256, hypothesis `sha_inj`) two packet keys with the same order id are the
    same key.  The harness checks the conclusion on every generated key (collision monitor over the real
    `BuildDemandIDFromPacketKey`). -/
theorem demand_order_id_unique (sha : Bytes → Bytes)
    (sha_inj : ∀ a b, sha a = sha b → a = b) (sha_wf : ∀ a, Bytes.WF (sha a))
    (k k' : Bytes) (h : demandOrderId sha k = demandOrderId sha k') : k = k' :=
  sha_inj k k' (hexLower_inj _ _ (sha_wf k) (sha_wf k') h)

/-- the id is 64 characters when the hash is 32 bytes -/
theorem demand_order_id_length (sha : Bytes → Bytes) (k : Bytes) (hl : (sha k).length = 32) :
    (demandOrderId sha k).length = 64 := by
  have : ∀ b : Bytes, (hexLower b).length = 2 * b.length := by
    intro b; induction b with
    | nil => rfl
    | cons x xs ih => simp only [hexLower, List.flatMap_cons, List.length_append, List.length_cons, List.length_nil] at ih ⊢; omega
  rw [demandOrderId, this, hl]

-- non-vacuity: the hypotheses are satisfiable (identity on well-formed inputs is not needed: any
-- injective byte-valued function, e.g. the constant-width big-endian of a code)
example : hexLower [0, 171, 255] = [48, 48, 97, 98, 102, 102] := by decide

/-- remark (what is true about the TEXT form of packet keys): `DecodePacketKey` uses the non-strict
    `base64.StdEncoding`, which ignores '\n' / '\r' and the unused trailing bits of the last sextet, so
    several strings decode to one key ("QQ==", "QR==" and "QQ==\n" all name the one-byte key 0x41) and
    `MsgFinalizePacketByPacketKey.ValidateBasic` accepts each of them.  The OBJECT named is still unique
    (`packet_key_roundtrip`: the canonical text decodes to its key, and decoding is a function), and the
    hub only ever hands out the canonical text; recorded, not a finding. -/
theorem packet_key_text_not_unique_counterexample :
    let a : Bytes := [81, 81, 61, 61]       -- "QQ=="
    let b : Bytes := [81, 82, 61, 61]       -- "QR=="
    let c : Bytes := [81, 81, 61, 61, 10]   -- "QQ==\n"
    a ≠ b ∧ a ≠ c ∧ encodePacketKey [65] = a ∧ decodePacketKeyExact a = some [65] ∧
      decodePacketKeyExact b = some [65] ∧ decodePacketKeyExact c = some [65] := by decide

end DymVerif.C19
