/-
  Props/C10 — the bridge to a rollapp opens only through a matching genesis handshake.

  All theorems are about M-GB (`Model/GB.lean`), for every reachable state (= every op sequence from
  the empty state whose accepted packets carry a proof height ≥ 1, assumption A-proofheight) and
  every packet / op.  "The handshake has completed for r" is the ghost counter `nOpen ≠ 0`.
-/
import DymVerif.Lemmas.GBInv
namespace DymVerif.Props.C10
open DymVerif.GB

/-- states reachable by arbitrary op sequences -/
def Reachable (s : St) : Prop := ∃ ops, AllPhOk ops ∧ s = run init ops

/-- `c` is the canonical channel of rollapp `r` -/
def CanonChan (s : St) (c r : Nat) : Prop := ∃ c', s.chans.find? (·.1 == c) = some (c', ChanKind.canon r)

theorem reachable_inv {s : St} (h : Reachable s) : AllRa RaInv s := by
  obtain ⟨ops, hp, rfl⟩ := h
  exact run_inv ops hp

theorem closed_iff {s : St} {r : Nat} {ra : Ra} (hs : Reachable s) (hg : getRa s r = some ra) :
    ra.nOpen = 0 ↔ ra.tph = 0 := by
  have hi := (reachable_inv hs).get hg
  constructor
  · intro h0
    by_cases ht : ra.tph = 0
    · exact ht
    · have := hi.opened ht; omega
  · intro ht; exact (hi.closed ht).2.2.1

-- ------------------------------------------------------------------------------------------------
/-- **closed_blocks_outgoing** — until the handshake of `r` has completed, a transfer from the hub over
    `r`'s canonical channel is refused and nothing changes. -/
theorem closed_blocks_outgoing {s : St} {c r : Nat} {ra : Ra} (hs : Reachable s) (hc : CanonChan s c r)
    (hg : getRa s r = some ra) (h0 : ra.nOpen = 0) : step s (.send c) = (s, .err) := by
  obtain ⟨c', hc⟩ := hc
  have ht := (closed_iff hs hg).1 h0
  simp [step, stepSend, hc, hg, ht]

/-- … and from then on ordinary transfers flow — as far as the genesis bridge is concerned: the ICS4
    wrapper lets every transfer through, and ibc core sends it unless the channel's client is not active.
    The one way the model (and the hub) gets there is a hard fork of the rollapp (`MsgRollappFraudProposal`),
    which freezes the canonical client until the rollapp's next state update (`fork_closes_until_update`,
    `update_reopens`, Props/C10Fork). -/
theorem open_flows {s : St} {c r : Nat} {ra : Ra} (hs : Reachable s) (hc : CanonChan s c r)
    (hg : getRa s r = some ra) (h1 : ra.nOpen ≠ 0) :
    step s (.send c) = (s, if ra.frozen then .err else .ok) := by
  obtain ⟨c', hc⟩ := hc
  have ht : ra.tph ≠ 0 := fun h => h1 ((closed_iff hs hg).2 h)
  cases hf : ra.frozen <;> simp [step, stepSend, hc, hg, ht, hf]

/-- … in particular they do flow while the canonical client is not frozen -/
theorem open_flows_active {s : St} {c r : Nat} {ra : Ra} (hs : Reachable s) (hc : CanonChan s c r)
    (hg : getRa s r = some ra) (h1 : ra.nOpen ≠ 0) (hf : ra.frozen = false) : step s (.send c) = (s, .ok) := by
  rw [open_flows hs hc hg h1, hf]; rfl

-- ------------------------------------------------------------------------------------------------
/-- **accounts_match** — the hub's account comparison (same length, every registered account found in
    the packet) is multiset equality, because registered addresses are pairwise distinct. -/
theorem accounts_match (hub data : List Acc) (hn : (hub.map (·.addr)).Nodup)
    (h : compareAccounts hub data = true) : data.Perm hub :=
  compareAccounts_perm hub data hn h

/-- the step on a closed canonical channel, in one of two shapes -/
theorem recv_closed_cases {s : St} {c r : Nat} {ra : Ra} (hs : Reachable s) (hc : CanonChan s c r)
    (hg : getRa s r = some ra) (h0 : ra.nOpen = 0) (ph : Nat) (p : Pkt) :
    (step s (.recv c ph p) = (s, (handshake ra ph p).2) ∧ ∃ e, (handshake ra ph p).2 = .rerr e) ∨
    (step s (.recv c ph p) = (setRa s (handshake ra ph p).1, .ok) ∧
      ∃ d bal', p = .gb d ∧ validate d ra.gi = none ∧ credit d.gi.accounts ra.bal = some bal' ∧
        (handshake ra ph p).1 = { ra with md := ra.md || d.gi.denom.isSet, bal := bal', tph := ph,
                                          plan := ra.plan.map (fun x => (x.1, true)), nOpen := ra.nOpen + 1 } ∧
        (∀ alloc st, ra.plan = some (alloc, st) → st = false ∧ getBal bal' iroAddr = alloc)) := by
  obtain ⟨c', hc⟩ := hc
  have ht := (closed_iff hs hg).1 h0
  rcases handshake_cases ra ph p with ⟨_, e, he⟩ | ⟨d, bal', hp, hv, hcr, hok, hra, hpl⟩
  · left
    refine ⟨?_, e, he⟩
    simp [step, stepRecv, hc, hg, ht, he]
  · right
    refine ⟨?_, d, bal', hp, hv, hcr, hra, hpl⟩
    simp [step, stepRecv, hc, hg, ht, hok]

/-- **first_packet_must_be_handshake** — while the handshake of `r` has not completed, the only packet
    its canonical channel accepts (success acknowledgement, or passing it on) is a genesis-bridge
    packet matching the registered genesis info; any other packet gets an error acknowledgement and
    leaves the state untouched. -/
theorem first_packet_must_be_handshake {s : St} {c r : Nat} {ra : Ra} (hs : Reachable s) (hc : CanonChan s c r)
    (hg : getRa s r = some ra) (h0 : ra.nOpen = 0) (ph : Nat) (p : Pkt) :
    ((step s (.recv c ph p)).2 = .ok ∧ ∃ d, p = .gb d ∧ Matches d ra.gi) ∨
    (∃ e, step s (.recv c ph p) = (s, .rerr e)) := by
  rcases recv_closed_cases hs hc hg h0 ph p with ⟨h1, e, he⟩ | ⟨h1, d, _, hp, hv, _⟩
  · right; exact ⟨e, by rw [h1, he]⟩
  · left
    exact ⟨by rw [h1], d, hp, validate_matches ((reachable_inv hs).get hg).wf hv⟩

/-- **mismatch_credits_nothing** — a handshake packet that differs from the registered genesis info in
    any field, in the account multiset or in the genesis transfer is answered with an error
    acknowledgement, credits nothing and leaves the bridge closed (the whole state is unchanged). -/
theorem mismatch_credits_nothing {s : St} {c r : Nat} {ra : Ra} (hs : Reachable s) (hc : CanonChan s c r)
    (hg : getRa s r = some ra) (h0 : ra.nOpen = 0) (ph : Nat) (d : GBData) (hm : ¬ Matches d ra.gi) :
    ∃ e, step s (.recv c ph (.gb d)) = (s, .rerr e) := by
  rcases first_packet_must_be_handshake hs hc hg h0 ph (.gb d) with ⟨_, d', hp, hm'⟩ | h
  · cases hp; exact absurd hm' hm
  · exact h

/-- **credited_exactly** — on success every address holds exactly the sum of its registered genesis
    accounts (addresses are distinct, so: exactly the registered amount) of the rollapp's IBC denom,
    the credited total is the registered total and equals the genesis transfer, the denom metadata is
    registered iff there is a native denom, the bridge is open with the packet's proof height, an IRO
    plan is settled and was backed by exactly its allocation, and the registered genesis info is
    unchanged. -/
theorem credited_exactly {s : St} {c r : Nat} {ra : Ra} (hs : Reachable s) (hc : CanonChan s c r)
    (hg : getRa s r = some ra) (h0 : ra.nOpen = 0) (ph : Nat) (p : Pkt)
    (hok : (step s (.recv c ph p)).2 = .ok) :
    ∃ ra' d, p = .gb d ∧ getRa (step s (.recv c ph p)).1 r = some ra' ∧
      (∀ x, getBal ra'.bal x = creditedTo ra.gi.accounts x) ∧
      sumAccs d.gi.accounts = sumAccs ra.gi.accounts ∧
      (∀ t, d.tr = some t → t.amt = sumAccs ra.gi.accounts ∧ t.recv = 0) ∧
      (ra'.md = (ra.md || ra.gi.denom.isSet) ∧ (ra.gi.denom.isSet = true → ra.md = false ∧ ra'.md = true)) ∧
      ra'.tph = ph ∧ ra'.nOpen = 1 ∧ ra'.gi = ra.gi ∧
      (∀ alloc st, ra.plan = some (alloc, st) → ra'.plan = some (alloc, true) ∧ creditedTo ra.gi.accounts iroAddr = alloc) := by
  rcases recv_closed_cases hs hc hg h0 ph p with ⟨h1, e, he⟩ | ⟨h1, d, bal', hp, hv, hcr, hra, hpl⟩
  · rw [h1, he] at hok; exact absurd hok (by simp)
  · have hi := (reachable_inv hs).get hg
    have hm := validate_matches hi.wf hv
    have ht := (closed_iff hs hg).1 h0
    obtain ⟨hbal, _, _, _⟩ := hi.closed ht
    have hhs : (handshake ra ph p).2 = .ok := by
      apply Classical.byContradiction
      intro hne
      have h' := handshake_err_unchanged hne
      rw [hra] at h'
      have h'' := congrArg Ra.nOpen h'
      simp at h''
    have hid : (handshake ra ph p).1.id = ra.id := by rw [hra]
    have hrid : ra.id = r := (getRa_mem hg).2
    have hget : getRa (step s (.recv c ph p)).1 r = some (handshake ra ph p).1 := by
      rw [h1]
      have := getRa_setRa_self (s := s) (x := (handshake ra ph p).1) (ra := ra) (by rw [hid, hrid]; exact hg)
      rw [hid, hrid] at this
      exact this
    have hcred : ∀ x, getBal bal' x = creditedTo ra.gi.accounts x := by
      intro x
      rw [credit_getBal _ _ _ hcr x, hbal, creditedTo_perm hm.2.2.2.2.1 x]
      simp [getBal]
    refine ⟨_, d, hp, hget, ?_, sumAccs_perm hm.2.2.2.2.1, ?_, ?_, ?_, ?_, ?_, ?_⟩
    · intro x; rw [hra]; exact hcred x
    · intro t ht'
      have := hm.2.2.2.2.2
      rw [ht'] at this
      exact ⟨this.2.2.2, this.2.1⟩
    · refine ⟨by rw [hra]; simp [hm.2.2.1], ?_⟩
      intro hd
      have hmd : ra.md = false := by
        rw [hp] at hhs
        exact handshake_ok_md hhs (by rw [hm.2.2.1]; exact hd)
      exact ⟨hmd, by rw [hra]; simp [hm.2.2.1, hd]⟩
    · rw [hra]
    · rw [hra]; simp [h0]
    · rw [hra]
    · intro alloc st hp'
      obtain ⟨hst, hb⟩ := hpl alloc st hp'
      rw [hra]
      refine ⟨by simp [hp'], ?_⟩
      rw [← hcred iroAddr]; exact hb

/-- **handshake_once** — the handshake of a rollapp completes at most once on any history … -/
theorem handshake_once {s : St} {r : Nat} {ra : Ra} (hs : Reachable s) (hg : getRa s r = some ra) : ra.nOpen ≤ 1 := by
  have hi := (reachable_inv hs).get hg
  by_cases ht : ra.tph = 0
  · have := (hi.closed ht).2.2.1; omega
  · have := hi.opened ht; omega

/-- … because once it has completed, no packet on the canonical channel (a repeated handshake packet
    included) is handled by the genesis bridge any more: it is passed on and the model state
    (credits, metadata, proof height, plan) stays as it is.  (While a hard fork has the canonical client
    frozen ibc core refuses the packet message altogether.) -/
theorem handshake_once_no_second_credit {s : St} {c r : Nat} {ra : Ra} (hs : Reachable s) (hc : CanonChan s c r)
    (hg : getRa s r = some ra) (h1 : ra.nOpen ≠ 0) (ph : Nat) (p : Pkt) :
    step s (.recv c ph p) = (s, if ra.frozen then .err else lowerRollapp p) := by
  obtain ⟨c', hc⟩ := hc
  have ht : ra.tph ≠ 0 := fun h => h1 ((closed_iff hs hg).2 h)
  cases hf : ra.frozen <;> simp [step, stepRecv, hc, hg, ht, hf]

-- ------------------------------------------------------------------------------------------------
theorem sealed_eta (g : GInfo) (h : g.sealed = true) : ({ g with sealed := true } : GInfo) = g := by
  cases g; simp_all

/-- how the registered genesis info of rollapp `r` can change in one step: not at all, or it was not
    sealed, or the op is a governance `force` -/
theorem gi_step (s : St) (op : Op) (r : Nat) (ra : Ra) (hg : getRa s r = some ra) :
    ∃ ra', getRa (step s op).1 r = some ra' ∧
      (ra'.gi = ra.gi ∨ ra.gi.sealed = false ∨ ∃ g, op = .force r true g) := by
  have keep : ∃ ra', getRa s r = some ra' ∧ (ra'.gi = ra.gi ∨ ra.gi.sealed = false ∨ ∃ g, op = .force r true g) :=
    ⟨ra, hg, Or.inl rfl⟩
  -- a `setRa` with a record whose genesis info is acceptable
  have upd : ∀ (r0 : Nat) (ra0 x : Ra), getRa s r0 = some ra0 → x.id = ra0.id →
      (r0 = r → (x.gi = ra.gi ∨ ra.gi.sealed = false ∨ ∃ g, op = .force r true g)) →
      ∃ ra', getRa (setRa s x) r = some ra' ∧ (ra'.gi = ra.gi ∨ ra.gi.sealed = false ∨ ∃ g, op = .force r true g) := by
    intro r0 ra0 x h0 hx hgi
    have hid0 : ra0.id = r0 := (getRa_mem h0).2
    by_cases hr : r = r0
    · subst hr
      refine ⟨x, ?_, hgi rfl⟩
      have := getRa_setRa_self (s := s) (x := x) (ra := ra0) (by rw [hx, hid0]; exact h0)
      rw [hx, hid0] at this
      exact this
    · refine ⟨ra, ?_, Or.inl rfl⟩
      rw [getRa_setRa_ne s x (by rw [hx, hid0]; exact hr)]
      exact hg
  have app : ∀ x : Ra, ∃ ra', getRa { s with ras := s.ras ++ [x] } r = some ra' ∧
      (ra'.gi = ra.gi ∨ ra.gi.sealed = false ∨ ∃ g, op = .force r true g) := by
    intro x
    refine ⟨ra, ?_, Or.inl rfl⟩
    unfold getRa at hg ⊢
    simp only [List.find?_append, hg, Option.some_or]
  cases op with
  | create r0 g =>
    simp only [step, stepCreate]
    repeat' split
    all_goals first
      | exact keep
      | exact app _
  | setgi r0 owner g =>
    simp only [step, stepSetgi]
    cases hr0 : getRa s r0 with
    | none => exact keep
    | some ra0 =>
      simp only
      repeat' split
      all_goals first
        | exact keep
        | (refine upd r0 ra0 _ hr0 rfl ?_
           intro hr
           subst hr
           rw [hg] at hr0
           cases hr0
           right; left
           simp_all)
  | force r0 gov g =>
    simp only [step, stepForce]
    cases hr0 : getRa s r0 with
    | none => exact keep
    | some ra0 =>
      simp only
      repeat' split
      all_goals first
        | exact keep
        | (refine upd r0 ra0 _ hr0 rfl ?_
           intro hr
           subst hr
           rw [hg] at hr0
           cases hr0
           right; right
           refine ⟨g, ?_⟩
           simp_all)
  | plan r0 owner alloc dur te start =>
    simp only [step, stepPlan]
    split
    · exact keep
    cases hr0 : getRa s r0 with
    | none => exact keep
    | some ra0 =>
      simp only
      repeat' split
      all_goals first
        | exact keep
        | (refine upd r0 ra0 _ hr0 rfl ?_
           intro hr
           subst hr
           rw [hg] at hr0
           cases hr0
           right; left
           simp_all)
  | enable r0 owner =>
    simp only [step, stepEnable]
    cases hr0 : getRa s r0 with
    | none => exact keep
    | some ra0 =>
      simp only
      repeat' split
      all_goals first
        | exact keep
        | (refine upd r0 ra0 _ hr0 rfl ?_
           intro hr
           subst hr
           rw [hg] at hr0
           cases hr0
           left; rfl)
  | tick dt => exact keep
  | seq r0 =>
    simp only [step, stepSeq]
    cases hr0 : getRa s r0 with
    | none => exact keep
    | some ra0 =>
      simp only
      repeat' split
      all_goals first
        | exact keep
        | (refine upd r0 ra0 _ hr0 rfl ?_
           intro hr
           subst hr
           rw [hg] at hr0
           cases hr0
           by_cases hsd : ra.gi.sealed = true
           · left; exact sealed_eta _ hsd
           · right; left; simpa using hsd)
  | link r0 =>
    simp only [step, stepLink]
    cases hr0 : getRa s r0 with
    | none => exact keep
    | some ra0 =>
      simp only
      repeat' split
      all_goals first
        | exact keep
        | (refine upd r0 ra0 _ hr0 rfl ?_
           intro hr
           subst hr
           rw [hg] at hr0
           cases hr0
           left; rfl)
  | link2 r0 =>
    simp only [step, stepLink2]
    repeat' split
    all_goals exact keep
  | canon r0 =>
    simp only [step, stepCanon]
    cases hr0 : getRa s r0 with
    | none => exact keep
    | some ra0 =>
      simp only
      repeat' split
      all_goals first
        | exact keep
        | (refine upd r0 ra0 _ hr0 rfl ?_
           intro hr
           subst hr
           rw [hg] at hr0
           cases hr0
           left; rfl)
  | premd r0 =>
    simp only [step, stepPremd]
    cases hr0 : getRa s r0 with
    | none => exact keep
    | some ra0 =>
      simp only
      repeat' split
      all_goals first
        | exact keep
        | (refine upd r0 ra0 _ hr0 rfl ?_
           intro hr
           subst hr
           rw [hg] at hr0
           cases hr0
           left; rfl)
  | update r0 n =>
    simp only [step, stepUpdate]
    cases hr0 : getRa s r0 with
    | none => exact keep
    | some ra0 =>
      simp only
      repeat' split
      all_goals first
        | exact keep
        | (refine upd r0 ra0 _ hr0 rfl ?_
           intro hr
           subst hr
           rw [hg] at hr0
           cases hr0
           left; rfl)
  | fork r0 gov h =>
    simp only [step, stepFork]
    split
    · exact keep
    cases hr0 : getRa s r0 with
    | none => exact keep
    | some ra0 =>
      simp only
      repeat' split
      all_goals first
        | exact keep
        | (refine upd r0 ra0 _ hr0 rfl ?_
           intro hr
           subst hr
           rw [hg] at hr0
           cases hr0
           left; rfl)
  | chopen r0 via =>
    simp only [step, stepChopen]
    cases hr0 : getRa s r0 with
    | none => exact keep
    | some ra0 =>
      simp only
      repeat' split
      all_goals first
        | exact keep
        | (refine upd r0 ra0 _ hr0 rfl ?_
           intro hr
           subst hr
           rw [hg] at hr0
           cases hr0
           left; rfl)
  | plainch => exact keep
  | send c =>
    simp only [step, stepSend]
    repeat' split
    all_goals exact keep
  | recv c ph p =>
    simp only [step, stepRecv]
    cases hc : s.chans.find? (·.1 == c) with
    | none => exact keep
    | some ck =>
      obtain ⟨c', k⟩ := ck
      cases k with
      | plain => exact keep
      | second _ =>
        simp only
        repeat' split
        all_goals exact keep
      | canon r0 =>
        simp only
        cases hr0 : getRa s r0 with
        | none => exact keep
        | some ra0 =>
          simp only
          repeat' split
          all_goals first
            | exact keep
            | (have hgi : (handshake ra0 ph p).1.id = ra0.id ∧ (handshake ra0 ph p).1.gi = ra0.gi := by
                 rcases handshake_cases ra0 ph p with ⟨h1, _⟩ | ⟨_, _, _, _, _, _, h2, _⟩
                 · rw [h1]; exact ⟨rfl, rfl⟩
                 · rw [h2]; exact ⟨rfl, rfl⟩
               refine upd r0 ra0 _ hr0 hgi.1 ?_
               intro hr
               subst hr
               rw [hg] at hr0
               cases hr0
               left; exact hgi.2)

/-- **genesis_info_frozen** — once a rollapp is launched or has an IRO plan, its genesis info is sealed,
    the owner's update of it is rejected without any change, and no op other than a governance
    `MsgForceGenesisInfoChange` changes the registered genesis info. -/
theorem genesis_info_frozen {s : St} {r : Nat} {ra : Ra} (hs : Reachable s) (hg : getRa s r = some ra)
    (hl : ra.launched = true ∨ ra.plan.isSome = true) :
    ra.gi.sealed = true ∧
    (∀ g, step s (.setgi r true (some g)) = (s, .err)) ∧
    (∀ op, (∀ g, op ≠ .force r true g) → ∃ ra', getRa (step s op).1 r = some ra' ∧ ra'.gi = ra.gi) := by
  have hsd := ((reachable_inv hs).get hg).sealedI hl
  refine ⟨hsd, ?_, ?_⟩
  · intro g
    simp only [step, stepSetgi, hg]
    split
    · rfl
    · simp
  · intro op hop
    obtain ⟨ra', h1, h2⟩ := gi_step s op r ra hg
    refine ⟨ra', h1, ?_⟩
    rcases h2 with h2 | h2 | ⟨g, h2⟩
    · exact h2
    · rw [hsd] at h2; exact absurd h2 (by simp)
    · exact absurd h2 (hop g)

/-- sealing happens exactly at launch / plan creation and is never undone: in every reachable state a
    launched rollapp or one with a plan has a sealed genesis info -/
theorem launched_or_plan_sealed {s : St} {r : Nat} {ra : Ra} (hs : Reachable s) (hg : getRa s r = some ra)
    (hl : ra.launched = true ∨ ra.plan.isSome = true) : ra.gi.sealed = true :=
  ((reachable_inv hs).get hg).sealedI hl

-- ------------------------------------------------------------------------------------------------ IRO plans, deferred trading

/-- **plan_seals_genesis_info_any_trading_flag** — an accepted `MsgCreatePlan` seals the registered
    genesis info whether the plan is created with trading enabled or not (nothing else of the genesis
    info changes); the pre-launch time is plan start + duration when trading is enabled — the plan
    starts at the message's `start_time` when that lies in the future and at the block time otherwise —
    and block time + 10 years when it is not (then the message carries no start time). -/
theorem plan_seals_genesis_info_any_trading_flag (s : St) (r : Nat) (owner : Bool) (alloc : Int) (dur : Nat) (te : Bool)
    (start : Option Nat) (hok : (step s (.plan r owner alloc dur te start)).2 = .ok) :
    ∃ ra ra', getRa s r = some ra ∧ getRa (step s (.plan r owner alloc dur te start)).1 r = some ra' ∧
      ra'.gi.sealed = true ∧ ra'.gi = { ra.gi with sealed := true } ∧
      ra'.plan = some (alloc, false) ∧ ra'.te = te ∧ (te = false → start = none) ∧
      ra'.pstart = (if te then some (planStart s.now start) else none) ∧
      ra'.preLaunch = some (if te then planStart s.now start + dur else s.now + tenYears) := by
  obtain ⟨ra, hg, _, _, _, _, hst, he⟩ := stepPlan_ok (s := s) hok
  have hrid : ra.id = r := (getRa_mem hg).2
  refine ⟨ra, planned s.now ra alloc dur te start, hg, ?_, rfl, rfl, rfl, rfl, ?_, rfl, ?_⟩
  · show getRa (stepPlan s r owner alloc dur te start).1 r = _
    rw [he]
    have := getRa_setRa_self (s := s) (x := planned s.now ra alloc dur te start) (ra := ra) (by show getRa s ra.id = _; rw [hrid]; exact hg)
    have hid : (planned s.now ra alloc dur te start).id = r := hrid
    rw [hid] at this
    exact this
  · intro hte
    cases start with
    | none => rfl
    | some t => have := hst rfl; rw [hte] at this; exact absurd this (by simp)
  · simp only [planned, planPreLaunch]

/-- the start of trading is never before the block time, is the block time when the message carries no
    start time or a past one, and the requested time when that lies in the future -/
theorem planStart_spec (now : Nat) (start : Option Nat) :
    now ≤ planStart now start ∧ (start = none → planStart now start = now) ∧
    (∀ t, start = some t → planStart now start = max now t) := by
  refine ⟨?_, ?_, ?_⟩
  · unfold planStart; split <;> (try split) <;> omega
  · intro h; subst h; rfl
  · intro t h; subst h; unfold planStart; simp only; split <;> omega

/-- a start time on a plan whose trading is not enabled at creation is refused (`ValidateBasic`) -/
theorem plan_start_needs_trading (s : St) (r : Nat) (owner : Bool) (alloc : Int) (dur : Nat) (t : Nat) :
    step s (.plan r owner alloc dur false (some t)) = (s, .err) := by
  simp [step, stepPlan]

/-- only the owner creates a plan: a `MsgCreatePlan` by anybody else is refused without any change -/
theorem plan_owner_only (s : St) (r : Nat) (alloc : Int) (dur : Nat) (te : Bool) (start : Option Nat) :
    step s (.plan r false alloc dur te start) = (s, .err) := by
  simp only [step, stepPlan]
  repeat' split
  all_goals first
    | rfl
    | simp_all

/-- **enable_trading_owner_only** — `MsgEnableTrading` by anybody but the rollapp's owner is refused and
    changes nothing … -/
theorem enable_trading_owner_only (s : St) (r : Nat) : step s (.enable r false) = (s, .err) := by
  simp only [step, stepEnable]
  repeat' split
  all_goals first
    | rfl
    | simp_all

/-- … and an accepted one comes from the owner of a rollapp with an unsettled plan whose trading was
    not enabled yet. -/
theorem enable_trading_accepted_only_for_owner {s : St} {r : Nat} {owner : Bool}
    (hok : (step s (.enable r owner)).2 = .ok) :
    owner = true ∧ ∃ ra alloc, getRa s r = some ra ∧ ra.plan = some (alloc, false) ∧ ra.te = false := by
  obtain ⟨ra, alloc, hg, ho, hp, hte, _⟩ := stepEnable_ok (s := s) hok
  exact ⟨ho, ra, alloc, hg, hp, hte⟩

/-- **enable_trading_keeps_seal** — `MsgEnableTrading`, accepted or not, leaves the registered genesis
    info (the seal included), the plan's allocation / settlement state and the launch flag of every
    rollapp as they are; when it is accepted (in a reachable state) the genesis info of its rollapp is
    sealed before and after, trading is enabled and the pre-launch time is block time + plan duration. -/
theorem enable_trading_keeps_seal {s : St} {r : Nat} {owner : Bool} (hs : Reachable s) :
    (∀ q ra, getRa s q = some ra → ∃ ra', getRa (step s (.enable r owner)).1 q = some ra' ∧
        ra'.gi = ra.gi ∧ ra'.plan = ra.plan ∧ ra'.launched = ra.launched) ∧
    ((step s (.enable r owner)).2 = .ok → ∃ ra ra', getRa s r = some ra ∧ getRa (step s (.enable r owner)).1 r = some ra' ∧
        ra.gi.sealed = true ∧ ra'.gi.sealed = true ∧ ra'.te = true ∧ ra'.pstart = some s.now ∧
        ra'.preLaunch = some (s.now + ra.pdur)) := by
  have hget : ∀ ra, getRa s r = some ra → getRa (setRa s (enabled s.now ra)) r = some (enabled s.now ra) := by
    intro ra hg
    have hrid : ra.id = r := (getRa_mem hg).2
    have := getRa_setRa_self (s := s) (x := enabled s.now ra) (ra := ra) (by show getRa s ra.id = _; rw [hrid]; exact hg)
    have hid : (enabled s.now ra).id = r := hrid
    rw [hid] at this
    exact this
  constructor
  · intro q ra hq
    by_cases hok : (step s (.enable r owner)).2 = .ok
    · obtain ⟨ra0, _, hg, _, _, _, he⟩ := stepEnable_ok (s := s) hok
      show ∃ ra', getRa (stepEnable s r owner).1 q = some ra' ∧ _
      rw [he]
      by_cases hqr : q = r
      · subst hqr
        rw [hg] at hq; cases hq
        exact ⟨_, hget _ hg, rfl, rfl, rfl⟩
      · refine ⟨ra, ?_, rfl, rfl, rfl⟩
        have hid : (enabled s.now ra0).id = r := (getRa_mem hg).2
        show getRa (setRa s (enabled s.now ra0)) q = some ra
        rw [getRa_setRa_ne s _ (by rw [hid]; exact hqr)]
        exact hq
    · have he := stepEnable_err (s := s) (r := r) (owner := owner) hok
      show ∃ ra', getRa (stepEnable s r owner).1 q = some ra' ∧ _
      rw [he]
      exact ⟨ra, hq, rfl, rfl, rfl⟩
  · intro hok
    obtain ⟨ra, alloc, hg, _, hp, _, he⟩ := stepEnable_ok (s := s) hok
    have hsd := ((reachable_inv hs).get hg).sealedI (Or.inr (by rw [hp]; rfl))
    refine ⟨ra, enabled s.now ra, hg, ?_, hsd, hsd, rfl, rfl, rfl⟩
    show getRa (stepEnable s r owner).1 r = _
    rw [he]
    exact hget ra hg

/-- a plan created with trading disabled freezes the genesis info like any other plan: in every reachable
    state, before and after `MsgEnableTrading`, the owner's genesis-info update of a rollapp that has
    an IRO plan is refused without any change (instance of `genesis_info_frozen`, stated for the
    deferred-trading flow) -/
theorem trading_disabled_plan_frozen {s : St} {r : Nat} {ra : Ra} (hs : Reachable s) (hg : getRa s r = some ra)
    (hp : ra.plan.isSome = true) (_hte : ra.te = false) :
    ra.gi.sealed = true ∧ (∀ g, step s (.setgi r true (some g)) = (s, .err)) ∧
    (∀ owner, ∃ ra', getRa (step s (.enable r owner)).1 r = some ra' ∧ ra'.gi = ra.gi ∧ ra'.gi.sealed = true ∧
      ∀ g, step (step s (.enable r owner)).1 (.setgi r true (some g)) = ((step s (.enable r owner)).1, .err)) := by
  obtain ⟨hsd, hset, _⟩ := genesis_info_frozen hs hg (Or.inr hp)
  refine ⟨hsd, hset, ?_⟩
  intro owner
  obtain ⟨ra', hg', hgi, _, _⟩ := (enable_trading_keeps_seal (r := r) (owner := owner) hs).1 r ra hg
  refine ⟨ra', hg', hgi, by rw [hgi]; exact hsd, ?_⟩
  intro g
  simp only [step, stepSetgi]
  show (match getRa (step s (.enable r owner)).1 r with | none => _ | some ra => _) = _
  rw [hg']
  simp only
  split
  · rfl
  · simp [hgi, hsd]

-- ------------------------------------------------------------------------------------------------ non-vacuity

/-- a registered genesis info with two accounts -/
def gi0 : GInfo := { checksum := 1, pfx := 1, denom := ⟨1, 11, 18⟩, supply := some 30, accounts := [⟨1, 10⟩, ⟨2, 20⟩], sealed := false }
/-- the matching handshake packet, accounts in the other order -/
def pkt0 : Pkt := .gb { gi := { gi0 with accounts := [⟨2, 20⟩, ⟨1, 10⟩] }, md := ⟨1, [(1, 0), (11, 18)], true, true⟩,
                        tr := some ⟨1, 30, true, 0, true⟩ }
def pktBad : Pkt := .gb { gi := { gi0 with accounts := [⟨2, 19⟩, ⟨1, 10⟩] }, md := ⟨1, [(1, 0), (11, 18)], true, true⟩,
                          tr := some ⟨1, 29, true, 0, true⟩ }
def ops0 : List Op := [.create 0 (some gi0), .seq 0, .link 0]

theorem ops0_ok : AllPhOk ops0 := by intro op hop; simp [ops0] at hop; rcases hop with rfl | rfl | rfl <;> trivial

/-- the closed state is reachable, its canonical channel is 0, and the handshake has not completed -/
example : Reachable (run init ops0) ∧ CanonChan (run init ops0) 0 0 ∧
    (getRa (run init ops0) 0).map (fun ra => (ra.nOpen, ra.launched)) = some (0, true) :=
  ⟨⟨ops0, ops0_ok, rfl⟩, ⟨0, by decide⟩, by decide⟩
/-- closed: the hub's transfer is refused -/
example : (step (run init ops0) (.send 0)).2 = .err := by decide
/-- the matching packet (accounts permuted) is accepted, both accounts are credited, the bridge opens -/
example : (step (run init ops0) (.recv 0 7 pkt0)).2 = .ok := by decide
example : ((getRa (step (run init ops0) (.recv 0 7 pkt0)).1 0).map (fun ra => (ra.bal, ra.tph, ra.md, ra.nOpen)))
    = some ([(2, 20), (1, 10)], 7, true, 1) := by decide
/-- one changed amount: error acknowledgement -/
example : (step (run init ops0) (.recv 0 7 pktBad)).2 = .rerr .accounts := by decide
/-- an ordinary transfer before the handshake: error acknowledgement -/
example : (step (run init ops0) (.recv 0 7 (.ft ⟨1, 5, true, 1, true⟩))).2 = .rerr .missing := by decide
/-- after the handshake: transfers flow, a second handshake packet is passed on (and refused below) -/
example : (step (step (run init ops0) (.recv 0 7 pkt0)).1 (.send 0)).2 = .ok := by decide
example : (step (step (run init ops0) (.recv 0 7 pkt0)).1 (.recv 0 8 pkt0)) = ((step (run init ops0) (.recv 0 7 pkt0)).1, .rerr .lower) := by decide
/-- frozen: the owner's update after launch is rejected; before launch it is accepted -/
example : (step (run init ops0) (.setgi 0 true (some { gi0 with checksum := 2 }))).2 = .err := by decide
example : (step (run init [.create 0 (some gi0)]) (.setgi 0 true (some { gi0 with checksum := 2 }))).2 = .ok := by decide
/-- `compareAccounts` holds for a reordered list and fails for a list with a duplicate replacing an account -/
example : compareAccounts gi0.accounts [⟨2, 20⟩, ⟨1, 10⟩] = true ∧ compareAccounts gi0.accounts [⟨1, 10⟩, ⟨1, 10⟩] = false := by decide

-- deferred trading
/-- a registered genesis info with an IRO account of 11 tokens (18 decimals) -/
def giIro : GInfo := { checksum := 1, pfx := 1, denom := ⟨1, 11, 18⟩, supply := some 11000000000000000010,
                       accounts := [⟨1, 10⟩, ⟨iroAddr, 11000000000000000000⟩], sealed := false }
def pktIro : Pkt := .gb { gi := giIro, md := ⟨1, [(1, 0), (11, 18)], true, true⟩, tr := some ⟨1, 11000000000000000010, true, 0, true⟩ }
/-- create, 100 s later the owner creates the plan with trading DISABLED -/
def opsTD : List Op := [.create 0 (some giIro), .tick 100, .plan 0 true 11000000000000000000 600 false none]
theorem opsTD_ok : AllPhOk opsTD := by intro op hop; simp [opsTD] at hop; rcases hop with rfl | rfl | rfl <;> trivial

/-- the plan is accepted with either flag (hypothesis of `plan_seals_genesis_info_any_trading_flag`) and
    seals; pre-launch time: 100 + 600 with trading enabled, 100 + 10 years without -/
example : ∀ te, (step (run init [.create 0 (some giIro), .tick 100]) (.plan 0 true 11000000000000000000 600 te none)).2 = .ok := by decide
example : (getRa (run init opsTD) 0).map (fun ra => (ra.gi.sealed, ra.plan.isSome, ra.te, ra.pstart, ra.preLaunch))
    = some (true, true, false, (none : Option Nat), some 315360100) := by decide
example : ((getRa (step (run init [.create 0 (some giIro), .tick 100]) (.plan 0 true 11000000000000000000 600 true none)).1 0).map
    (fun ra => (ra.gi.sealed, ra.te, ra.pstart, ra.preLaunch))) = some (true, true, some 100, some 700) := by decide
/-- a start time in the future (100 s block time, start at 400): trading starts at 400, pre-launch time 1000; a past
    one (start at 40) is moved up to the block time -/
example : ((getRa (step (run init [.create 0 (some giIro), .tick 100]) (.plan 0 true 11000000000000000000 600 true (some 400))).1 0).map
    (fun ra => (ra.gi.sealed, ra.te, ra.pstart, ra.preLaunch))) = some (true, true, some 400, some 1000) := by decide
example : ((getRa (step (run init [.create 0 (some giIro), .tick 100]) (.plan 0 true 11000000000000000000 600 true (some 40))).1 0).map
    (fun ra => (ra.pstart, ra.preLaunch))) = some (some 100, some 700) := by decide
/-- … and the sequencer cannot launch before start + duration -/
example : (step (run init [.create 0 (some giIro), .tick 100, .plan 0 true 11000000000000000000 600 true (some 400), .tick 700]) (.seq 0)).2 = .err := by decide
example : (step (run init [.create 0 (some giIro), .tick 100, .plan 0 true 11000000000000000000 600 true (some 400), .tick 900]) (.seq 0)).2 = .ok := by decide
/-- the state with a trading-disabled plan is reachable (hypotheses of `trading_disabled_plan_frozen`) -/
example : Reachable (run init opsTD) ∧ (getRa (run init opsTD) 0).map (fun ra => (ra.plan.isSome, ra.te)) = some (true, false) :=
  ⟨⟨opsTD, opsTD_ok, rfl⟩, by decide⟩
/-- the owner's genesis-info update after the trading-disabled plan is refused; so is a sequencer (pre-launch time) -/
example : (step (run init opsTD) (.setgi 0 true (some { giIro with checksum := 2 }))).2 = .err := by decide
example : (step (run init opsTD) (.seq 0)).2 = .err := by decide
/-- `MsgEnableTrading`: refused for a stranger, for a rollapp without plan, accepted for the owner (hypothesis of
    `enable_trading_keeps_seal` / `enable_trading_accepted_only_for_owner`), refused a second time -/
example : (step (run init opsTD) (.enable 0 false)).2 = .err := by decide
example : (step (run init [.create 0 (some giIro)]) (.enable 0 true)).2 = .err := by decide
example : (step (run init (opsTD ++ [.tick 50])) (.enable 0 true)).2 = .ok := by decide
example : (step (run init (opsTD ++ [.tick 50, .enable 0 true])) (.enable 0 true)).2 = .err := by decide
/-- … it moves the pre-launch time to 150 + 600, keeps the seal, and the owner's update is still refused -/
example : (getRa (run init (opsTD ++ [.tick 50, .enable 0 true])) 0).map (fun ra => (ra.gi.sealed, ra.te, ra.pstart, ra.preLaunch))
    = some (true, true, some 150, some 750) := by decide
example : (step (run init (opsTD ++ [.tick 50, .enable 0 true])) (.setgi 0 true (some { giIro with checksum := 2 }))).2 = .err := by decide
/-- … and after the plan's duration the rollapp launches and the handshake settles the plan -/
example : ((getRa (run init (opsTD ++ [.tick 50, .enable 0 true, .tick 600, .seq 0, .link 0, .recv 0 7 pktIro])) 0).map
    (fun ra => (ra.launched, ra.plan, ra.tph, ra.nOpen))) = some (true, some (11000000000000000000, true), 7, 1) := by decide

end DymVerif.Props.C10
