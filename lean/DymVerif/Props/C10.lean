import DymVerif.Model.GB
namespace DymVerif.Props.C10
end DymVerif.Props.C10
