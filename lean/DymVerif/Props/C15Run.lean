/-
  Props/C15Run — the hypotheses of the state-level paging theorems (Props/C15 §4b: `LiveS`, `PtrsOKS`, `Inv` on the
  state at the START of the window) DERIVED ALONG WHOLE HISTORIES `run (init now mi) ops`.

    liveS_reachable .................. every record of every active stream names a gauge the code accepts, after every
                                       `Admissible` history in which no SPONSORED stream is created (`Op.notSponsored`).
                                       Precise reason: `validateGauges` (CreateStream; Replace- and UpdateStreamDistribution
                                       are outside `Admissible`) accepts existing PERPETUAL gauges only, a perpetual
                                       gauge is never finished (`perpetual_never_finished`), blocks never change a
                                       gauge's id / perpetual flag nor a non-sponsored stream's records.  A sponsored
                                       stream's records are the sponsorship distribution, read unvalidated at creation
                                       and at every epoch start: `liveS_sponsored_counterexample`.
    ptrsOKS_reachable ................ the stored epoch pointers are resumable, after every `Admissible` history
                                       (sponsored streams included) in which no termination hits a stream named by an epoch pointer in the middle of
                                       its records (`TermSafe`, a decidable predicate: it runs the model along the
                                       history).  Needed: `ptrsOKS_terminated_counterexample` (the history of
                                       `paging_pointer_terminated_counterexample`).  In fact the stronger `StrongS`
                                       holds: each pointer is at a first gauge, names an ACTIVE stream of its own epoch,
                                       or is the last-gauge pointer.
    paging_state_independent_reachable  `paging_state_independent` with hypotheses on the HISTORY only.
-/
import DymVerif.Props.C15
import DymVerif.Lemmas.IncentLiveRun
import DymVerif.Lemmas.IncentPtrRun
namespace DymVerif.C15
open DymVerif DymVerif.Incent DymVerif.Incent.Coins

/-- a perpetual gauge is never finished, at any time, whatever its start, filled and total epochs are
    (`IsFinishedGauge`): the reason why `validateGauges`' check is enough for `LiveS` -/
theorem perpetual_never_finished (g : Gauge) (now : Nat) (h : g.perpetual = true) : g.isFinished now = false :=
  perpetual_not_finished g now h

/-- **`LiveS` along whole histories**: after every admissible history (well-formed ops, no governance re-targeting)
    that creates no sponsored stream, every record of every active stream names a gauge `getActiveGaugeByID`
    accepts.  (Invariant `NamedS`: every stored stream — upcoming, active or finished — is not sponsored and names
    slots of the gauge table holding perpetual gauges.) -/
theorem liveS_reachable (now mi : Nat) (ops : List Op) (hw : Admissible ops) (hns : ∀ op ∈ ops, op.notSponsored)
    (hlen : (run (init now mi) ops).streams.length < maxU64) : LiveS (run (init now mi) ops) :=
  liveS_of_named _ (run_named ops _ (init_inv now mi) (init_named now mi) hw hns hlen)

/-- the history of the sponsored exclusion: a sponsored hour stream created while the sponsorship distribution names
    gauge 7, which does not exist (the distribution is an input of x/streamer; `CreateStream` does not validate it) -/
def unknownGaugeHistory : List Op :=
  [.begin 1, .end_, .createGauge 0 true 0 1 true [] 101 1, .fund streamerAddr [4000], .distribution [⟨7, 1⟩],
   .createStream true [4000] [] 101 1 2, .begin 3601, .end_]

/-- **the exclusion `notSponsored` is needed**: the history is admissible, its only offence is the sponsored stream;
    afterwards stream 1 is active and its record names gauge 7, unknown to x/incentives — `LiveS` fails (the code skips
    the record and its share is not handed out, whatever the limit) -/
theorem liveS_sponsored_counterexample :
    Admissible unknownGaugeHistory ∧ ¬ (∀ op ∈ unknownGaugeHistory, op.notSponsored) ∧
    (run (init 100 500) unknownGaugeHistory).streams.length < maxU64 ∧
    ¬ LiveS (run (init 100 500) unknownGaugeHistory) := by
  refine ⟨by unfold Admissible; decide, by decide, by decide, ?_⟩
  intro h
  have hm : ∃ st ∈ activeStreams (run (init 100 500) unknownGaugeHistory), (⟨7, 1⟩ : Rec) ∈ st.recs := by decide
  obtain ⟨st, hst, hr⟩ := hm
  obtain ⟨g, hg, _⟩ := h st hst ⟨7, 1⟩ hr
  have : getGauge (run (init 100 500) unknownGaugeHistory) 7 = none := by decide
  rw [this] at hg
  exact absurd hg (by simp)

/-- **`PtrsOKS` along whole histories**: after every admissible history (sponsored streams INCLUDED) in which no
    termination hits a stream named by an epoch pointer in the middle of its records (`TermSafe`), the stored epoch
    pointers are resumable — termination under the pointer is the only way to lose `PtrsOKS` -/
theorem ptrsOKS_reachable (now mi : Nat) (ops : List Op) (hw : Admissible ops)
    (hts : TermSafe (init now mi) ops) (hlen : (run (init now mi) ops).streams.length < maxU64) :
    PtrsOKS (run (init now mi) ops) := by
  obtain ⟨hi, hst⟩ := run_strong ops _ (init_inv now mi) (init_strong now mi) hw hts hlen
  exact ptrsOKS_of_strong _ hi hst

/-- … in the stronger, inductive form: every stored pointer is at a first gauge, or names a stored ACTIVE stream of its
    own epoch identifier, or is the last-gauge pointer -/
theorem pointers_name_active_streams_reachable (now mi : Nat) (ops : List Op) (hw : Admissible ops)
    (hts : TermSafe (init now mi) ops)
    (hlen : (run (init now mi) ops).streams.length < maxU64) (e : Nat) :
    let s := run (init now mi) ops
    let p := s.ptrs.getD e Pointer.last
    p.gaugeId = 0 ∨ (∃ st, getS s.streams p.streamId = some st ∧ p.streamId ∈ s.active.ids ∧ st.epochId = e) ∨ p = Pointer.last :=
  (run_strong ops _ (init_inv now mi) (init_strong now mi) hw hts hlen).2 e

/-- non-vacuity of the sponsored case: the sponsored history above is `TermSafe` -/
example : TermSafe (init 100 500) unknownGaugeHistory := by decide

/-- **the exclusion `TermSafe` is needed**: the first 14 ops of `termHistory 1` (Props/C15) are admissible and create no
    sponsored stream; the last of them terminates stream 1 while the hour pointer is (stream 1, gauge 2) — `TermSafe`
    fails there and only there, and `PtrsOKS` is false afterwards (pointer into a stream that is no longer active,
    with the active stream 2 behind it) -/
theorem ptrsOKS_terminated_counterexample :
    Admissible ((termHistory 1).take 14) ∧ (∀ op ∈ (termHistory 1).take 14, op.notSponsored) ∧
    TermSafe (init 100 1) ((termHistory 1).take 13) ∧ ¬ TermSafe (init 100 1) ((termHistory 1).take 14) ∧
    ¬ PtrsOKS (run (init 100 1) ((termHistory 1).take 14)) := by
  refine ⟨by unfold Admissible; decide, by decide, by decide, by decide, ?_⟩
  intro h
  have h1 := h 1 trivial
  unfold PtrOKe at h1
  revert h1
  decide

/-- **`paging_state_independent` with hypotheses on the HISTORY only**: after ANY admissible history `ops` that creates
    no sponsored stream and terminates no stream under an epoch pointer, for ANY two schedules of per-block iteration
    limits from the reached state, each followed by the end of epoch `e`: every stream of that epoch active in the
    reached state is stored with THE SAME distributed coins in both runs, namely `Settled` of the reached state.
    (`hlen`: fewer than 2^64-1 streams; `hsmall`: lock count × record count below 2^64-1, the epoch-end budget.) -/
theorem paging_state_independent_reachable (now mi : Nat) (ops : List Op) (hw : Admissible ops)
    (hns : ∀ op ∈ ops, op.notSponsored) (hts : TermSafe (init now mi) ops)
    (hlen : (run (init now mi) ops).streams.length < maxU64)
    (e : Nat) (he : e ≤ 2)
    (hsmall : ((run (init now mi) ops).locks.length + 1) * totalRecs (dataOf (run (init now mi) ops)) < maxU64)
    (ns1 ns2 : List Nat) (t1 t2 u1 u2 : State)
    (h1 : runBlocks (run (init now mi) ops) ns1 = some t1) (h2 : runBlocks (run (init now mi) ops) ns2 = some t2)
    (f1 : streamerAfterEpochEnd t1 e = .ok u1) (f2 : streamerAfterEpochEnd t2 e = .ok u2) :
    ∀ st0 ∈ (run (init now mi) ops).streams, st0.id ∈ (run (init now mi) ops).active.ids → st0.epochId = e →
      ∃ a b, getS u1.streams st0.id = some a ∧ getS u2.streams st0.id = some b ∧
        b = { a with distributed := b.distributed } ∧
        ∀ i, amt a.distributed i = amt b.distributed i ∧ amt a.distributed i = Settled (run (init now mi) ops) st0 i := by
  obtain ⟨hi, hn, hst⟩ := run_live_strong ops _ (init_inv now mi) (init_named now mi) (init_strong now mi) hw hns hts hlen
  exact paging_state_independent _ e he hi (ptrsOKS_of_strong _ hi hst) hsmall ns1 ns2 t1 t2 u1 u2 (liveS_of_named _ hn) h1 h2 f1 f2

/-- non-vacuity: the history of `paging_gauge_side_counterexample` (Props/C15, limit 1) satisfies every hypothesis on
    the history — admissible, no sponsored stream, no termination under a pointer — and has an active hour stream -/
example : Admissible (strandedHistory 1) ∧ (∀ op ∈ strandedHistory 1, op.notSponsored) ∧
    TermSafe (init 100 1) (strandedHistory 1) ∧ (run (init 100 1) (strandedHistory 1)).streams.length < maxU64 := by
  refine ⟨by unfold Admissible; decide, by decide, by decide, by decide⟩

end DymVerif.C15
