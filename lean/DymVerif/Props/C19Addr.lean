/-
  Props/C19Addr — property C19, the clause "Dym-Name and alias addresses round-trip exactly for every
  possible value and name one and only one object", at the TEXT level (Model/KeysAddr):

  * the chains/aliases table of the x/dymns params: `validateAliasesOfChainIds` accepts a table only
    if every chain-id and alias text is listed ONCE among all of them, in any order
    (`chains_validation_unique_among_all`); on such a table an alias names exactly one chain, no alias
    is a chain-id, alias -> chain-id translation follows membership, and chain-id -> handle -> chain-id
    is the identity (`handle_translates_back`), so the handle map is injective on the table;
  * the address text: `ParseDymNameAddress (String (sub, name, handle)) = (sub, name, handle)` for
    every sub-name / name / handle of the validators' languages, in the '@' and in the all-dots
    spelling; hence the formatter is injective;
  * both together (`dymname_address_roundtrip`): what reverse resolution hands out for a config on
    chain `c` parses back to the same (sub-name, name) and reaches the config of chain `c`.
  * what the validation must refuse: a chain-id listed first and LATER the same text as another
    chain's alias (`chains_alias_equals_earlier_chain_id_counterexample`).
-/
import DymVerif.Lemmas.KeysAddr2
import DymVerif.Lemmas.KeysAddrLit
import DymVerif.Lemmas.KeysAddrTable
namespace DymVerif.Props.C19Addr
open DymVerif DymVerif.Keys

/-! ### the table -/

/-- `validateAliasesOfChainIds` accepts only tables in which all chain-ids and aliases are pairwise
    distinct — whatever the order in which a chain-id and an equal alias are listed — and are in the
    validators' languages -/
theorem chains_validation_unique_among_all (t : Chains) (h : validChains t = true) :
    (tableNames t).Nodup ∧ (∀ r ∈ t, validChainIdFormat r.chainId = true) ∧
      (∀ r ∈ t, ∀ a ∈ r.aliases, validAlias a = true) :=
  let w := validChains_wf h
  ⟨w.nodup, w.chains, w.aliases⟩

/-- … and refuses nothing else: the validation accepts EXACTLY the tables whose chain-ids and aliases
    are well formed and pairwise distinct among all -/
theorem chains_validation_iff (t : Chains) :
    validChains t = true ↔ ((tableNames t).Nodup ∧ (∀ r ∈ t, validChainIdFormat r.chainId = true) ∧
      (∀ r ∈ t, ∀ a ∈ r.aliases, validAlias a = true)) :=
  ⟨chains_validation_unique_among_all t, fun ⟨h1, h2, h3⟩ => validChains_of_wf ⟨h1, h2, h3⟩⟩

/-- the order of the records does not matter to the validation (in particular a chain-id and an equal
    alias are refused whichever comes first) -/
theorem chains_validation_order_free (t : Chains) : validChains t.reverse = validChains t := by
  have key : ∀ t : Chains, validChains t = true → validChains t.reverse = true := by
    intro t h
    obtain ⟨h1, h2, h3⟩ := (chains_validation_iff t).mp h
    refine (chains_validation_iff t.reverse).mpr ⟨?_, fun r hr => h2 r (List.mem_reverse.mp hr),
      fun r hr => h3 r (List.mem_reverse.mp hr)⟩
    exact tableNames_reverse_nodup t h1
  cases h : validChains t with
  | true => exact key t h
  | false =>
    cases h' : validChains t.reverse with
    | false => rfl
    | true => have := key _ h'; rw [List.reverse_reverse, h] at this; exact absurd this (by simp)

/-- an alias names exactly one chain: two records that list the same alias are one record -/
theorem alias_names_one_chain (t : Chains) (h : validChains t = true) (r r' : ChainRec) (a : Bytes)
    (hr : r ∈ t) (hr' : r' ∈ t) (ha : a ∈ r.aliases) (ha' : a ∈ r'.aliases) : r = r' := by
  have w := validChains_wf h
  have h1 := find_name w.nodup hr (x := a) (by simp [ha])
  have h2 := find_name w.nodup hr' (x := a) (by simp [ha'])
  rw [h1] at h2
  exact Option.some.inj h2

/-- no alias of the table is a chain-id of the table -/
theorem alias_is_no_chain_id (t : Chains) (h : validChains t = true) (a : Bytes)
    (ha : a ∈ tableAliases t) : a ∉ tableChainIds t := by
  have w := validChains_wf h
  obtain ⟨r, hr, har⟩ := mem_tableAliases.mp ha
  intro hc
  obtain ⟨r', hr', e⟩ := mem_tableChainIds.mp hc
  have h1 := find_name w.nodup hr (x := a) (by simp [har])
  have h2 := find_name w.nodup hr' (x := a) (by simp [e])
  rw [h1] at h2
  have : r = r' := Option.some.inj h2
  subst this
  have := List.nodup_cons.mp (rec_nodup w.nodup hr)
  exact this.1 (e ▸ har)

/-- chain-ids of the table are pairwise distinct: a chain-id names one record -/
theorem chain_id_names_one_record (t : Chains) (h : validChains t = true) (r r' : ChainRec)
    (hr : r ∈ t) (hr' : r' ∈ t) (e : r.chainId = r'.chainId) : r = r' := by
  have w := validChains_wf h
  have h1 := find_name w.nodup hr (x := r.chainId) (by simp)
  have h2 := find_name w.nodup hr' (x := r.chainId) (by simp [e])
  rw [h1] at h2
  exact Option.some.inj h2

/-- alias -> chain-id: every alias of a record (not only the default one) translates to that
    record's chain-id (the host chain-id is answered before the table is consulted) -/
theorem alias_translates_to_its_chain (host : Bytes) (t : Chains) (h : validChains t = true)
    (r : ChainRec) (a : Bytes) (hr : r ∈ t) (ha : a ∈ r.aliases) (hh : a ≠ host) :
    toChainId host t a = some r.chainId := by
  have w := validChains_wf h
  rw [toChainId_eq, if_neg hh, find_name w.nodup hr (by simp [ha])]; rfl

/-- a chain-id of the table translates to itself -/
theorem chain_id_translates_to_itself (host : Bytes) (t : Chains) (h : validChains t = true)
    (r : ChainRec) (hr : r ∈ t) : toChainId host t r.chainId = some r.chainId := by
  have w := validChains_wf h
  rw [toChainId_eq]
  split
  · rfl
  · rw [find_name w.nodup hr (by simp)]; rfl

theorem toHandle_cases (t : Chains) (c : Bytes) :
    (toHandle t c = c) ∨ (∃ r ∈ t, r.chainId = c ∧ toHandle t c ∈ r.aliases) := by
  unfold toHandle
  split
  · rename_i r hf
    have hr := List.mem_of_find?_eq_some hf
    have hc : r.chainId = c := by simpa using List.find?_some hf
    split
    · rename_i a as ha
      exact Or.inr ⟨r, hr, hc, by simp [ha]⟩
    · exact Or.inl rfl
  · exact Or.inl rfl

/-- chain-id -> handle -> chain-id is the identity: the handle reverse resolution writes after '@'
    (the default alias when the params give one, else the chain-id) translates back to the chain-id
    it was written for.  `c` is any chain-id text that the params do not use as an alias (every
    chain-id of the table is one, `alias_is_no_chain_id`); the host chain-id is not an alias text
    (the hub's has the `name_number-number` form, which no alias has) -/
theorem handle_translates_back (host : Bytes) (t : Chains) (h : validChains t = true) (c : Bytes)
    (hhost : host ∉ tableAliases t) (hc : c ∉ tableAliases t) :
    resolveChain host t (toHandle t c) = c := by
  have w := validChains_wf h
  rcases toHandle_cases t c with e | ⟨r, hr, hrc, ha⟩
  · rw [e]
    unfold resolveChain
    rw [toChainId_eq]
    split
    · rfl
    · cases hf : t.find? (namesRec c) with
      | none => rfl
      | some r =>
        have hr := List.mem_of_find?_eq_some hf
        have hp := List.find?_some hf
        simp only [namesRec, Bool.or_eq_true, beq_iff_eq, List.contains_iff_mem] at hp
        rcases hp with hp | hp
        · simp [hp]
        · exact absurd (mem_tableAliases.mpr ⟨r, hr, hp⟩) hc
  · have hne : toHandle t c ≠ host := fun e => hhost (e ▸ mem_tableAliases.mpr ⟨r, hr, ha⟩)
    unfold resolveChain
    rw [alias_translates_to_its_chain host t h r _ hr ha hne]
    simpa using hrc

/-- the handle map is injective on chain-id texts that are not aliases: two chains never share the
    text written after '@' -/
theorem handle_injective (host : Bytes) (t : Chains) (h : validChains t = true) (c c' : Bytes)
    (hhost : host ∉ tableAliases t) (hc : c ∉ tableAliases t) (hc' : c' ∉ tableAliases t)
    (e : toHandle t c = toHandle t c') : c = c' := by
  rw [← handle_translates_back host t h c hhost hc, ← handle_translates_back host t h c' hhost hc', e]

/-- the handle is a text the parser accepts after '@' -/
theorem handle_valid (t : Chains) (h : validChains t = true) (c : Bytes) (hc : validChainIdFormat c = true) :
    (validChainIdFormat (toHandle t c) || validAlias (toHandle t c)) = true := by
  have w := validChains_wf h
  rcases toHandle_cases t c with e | ⟨r, hr, _, ha⟩
  · rw [e, hc]; rfl
  · rw [w.aliases r hr _ ha]; simp

/-! ### the address text -/

/-- `ParseDymNameAddress(ReverseResolvedDymNameAddress{sub, name, handle}.String())` gives back
    (sub, name, handle): for EVERY list of sub-name parts and name in `IsValidDymName`'s language and
    every handle in `IsValidChainIdFormat`'s or `IsValidAlias`'s (whatever the bech32 oracle says) -/
theorem dymname_address_parse_format (bech : Bytes → Bool) (parts : List Bytes) (name handle : Bytes)
    (hp : ∀ p ∈ parts, validDymName p = true) (hn : validDymName name = true)
    (hh : (validChainIdFormat handle || validAlias handle) = true) :
    parseAddr bech (formatAddr (joinDot parts) name handle) = some (joinDot parts, name, handle) := by
  unfold formatAddr
  rw [format_eq_glue parts name handle 64 (fun p hp' => validDymName_clean (hp p hp'))]
  exact parseAddr_glue bech parts name handle 64 (Or.inr rfl) hp hn hh

/-- the all-dots spelling `sub.name.handle` parses to the same triple -/
theorem dymname_address_parse_format_dot (bech : Bytes → Bool) (parts : List Bytes) (name handle : Bytes)
    (hp : ∀ p ∈ parts, validDymName p = true) (hn : validDymName name = true)
    (hh : (validChainIdFormat handle || validAlias handle) = true) :
    parseAddr bech (formatAddrDot (joinDot parts) name handle) = some (joinDot parts, name, handle) := by
  unfold formatAddrDot
  rw [format_eq_glue parts name handle 46 (fun p hp' => validDymName_clean (hp p hp'))]
  exact parseAddr_glue bech parts name handle 46 (Or.inl rfl) hp hn hh

/-- the same for the statement-by-statement model of `ParseDymNameAddress` (`parseAddrLit`: Go's
    `LastIndex` / `IndexRune` arithmetic, the "||" test, `FieldsFunc`): on the formatter's texts every
    guard passes and the same chunks are cut -/
theorem dymname_address_parse_format_lit (bech : Bytes → Bool) (parts : List Bytes) (name handle : Bytes)
    (hp : ∀ p ∈ parts, validDymName p = true) (hn : validDymName name = true)
    (hh : (validChainIdFormat handle || validAlias handle) = true) :
    parseAddrLit bech (formatAddr (joinDot parts) name handle) = some (joinDot parts, name, handle) ∧
      parseAddrLit bech (formatAddrDot (joinDot parts) name handle) = some (joinDot parts, name, handle) := by
  unfold formatAddr formatAddrDot
  rw [format_eq_glue parts name handle 64 (fun p hp' => validDymName_clean (hp p hp')),
    format_eq_glue parts name handle 46 (fun p hp' => validDymName_clean (hp p hp'))]
  exact ⟨parseAddrLit_glue bech parts name handle 64 (Or.inr rfl) hp hn hh,
    parseAddrLit_glue bech parts name handle 46 (Or.inl rfl) hp hn hh⟩

/-- an address text names one and only one (sub-name, name, handle) -/
theorem dymname_address_format_injective (parts parts' : List Bytes) (name name' handle handle' : Bytes)
    (hp : ∀ p ∈ parts, validDymName p = true) (hn : validDymName name = true)
    (hh : (validChainIdFormat handle || validAlias handle) = true)
    (hp' : ∀ p ∈ parts', validDymName p = true) (hn' : validDymName name' = true)
    (hh' : (validChainIdFormat handle' || validAlias handle') = true)
    (e : formatAddr (joinDot parts) name handle = formatAddr (joinDot parts') name' handle') :
    joinDot parts = joinDot parts' ∧ name = name' ∧ handle = handle' := by
  have h1 := dymname_address_parse_format (fun _ => false) parts name handle hp hn hh
  have h2 := dymname_address_parse_format (fun _ => false) parts' name' handle' hp' hn' hh'
  rw [e, h2] at h1
  simpa [eq_comm] using h1

/-! ### both levels -/

/-- the round trip: reverse resolution writes, for a config of (`name`, sub-name `parts`) on chain
    `c`, the text `sub.name@handle` with `handle = toHandle t c`; forward resolution parses exactly
    (sub, name, handle) out of it and, through the params `t` that passed validation, reaches the
    config of chain `c` again — for every valid table, every name / sub-name, every chain-id `c` that
    is not an alias text of the table -/
theorem dymname_address_roundtrip (bech : Bytes → Bool) (host : Bytes) (t : Chains) (h : validChains t = true)
    (parts : List Bytes) (name c : Bytes)
    (hp : ∀ p ∈ parts, validDymName p = true) (hn : validDymName name = true)
    (hcv : validChainIdFormat c = true) (hhost : host ∉ tableAliases t) (hc : c ∉ tableAliases t) :
    parseAddrLit bech (formatAddr (joinDot parts) name (toHandle t c)) = some (joinDot parts, name, toHandle t c) ∧
      parseAddr bech (formatAddr (joinDot parts) name (toHandle t c)) = some (joinDot parts, name, toHandle t c) ∧
      resolveChain host t (toHandle t c) = c ∧ reachesConfig host t (toHandle t c) c = true := by
  refine ⟨(dymname_address_parse_format_lit bech parts name _ hp hn (handle_valid t h c hcv)).1,
    dymname_address_parse_format bech parts name _ hp hn (handle_valid t h c hcv),
    handle_translates_back host t h c hhost hc, ?_⟩
  simp [reachesConfig, handle_translates_back host t h c hhost hc]

/-! ### what the validation must refuse -/

/-- "nim" -/
def nim : Bytes := [110, 105, 109]
/-- "nim_1122-1" -/
def nim1122 : Bytes := [110, 105, 109, 95, 49, 49, 50, 50, 45, 49]
/-- "dymension_1100-1" -/
def hubId : Bytes := [100, 121, 109, 101, 110, 115, 105, 111, 110, 95, 49, 49, 48, 48, 45, 49]

/-- the table that lists chain-id `nim` and LATER gives the same text as alias of `nim_1122-1` -/
def clashTable : Chains := [⟨nim, []⟩, ⟨nim1122, [nim]⟩]

/-- the validation answers "chain ID and alias must unique among all, found duplicated" -/
def refusedDup (t : Chains) : Bool := match validateChains t with | .error .dup => true | _ => false

/-- on that table the text `nim` names two chains and the address does not come back: reverse
    resolution writes `@nim` for `nim_1122-1`, resolution reads `nim` as the chain `nim`.  The
    validation refuses it — in this order and in the other one -/
theorem chains_alias_equals_earlier_chain_id_counterexample :
    toHandle clashTable nim1122 = nim ∧ resolveChain hubId clashTable nim = nim ∧
      reachesConfig hubId clashTable (toHandle clashTable nim1122) nim1122 = false ∧
      nim ∈ tableChainIds clashTable ∧ nim ∈ tableAliases clashTable ∧
      refusedDup clashTable = true ∧ refusedDup clashTable.reverse = true := by decide

/-- a host chain-id that is an alias text (not the hub's form) and listed as another chain's alias:
    accepted by the validation (it does not know the host chain-id) and not translated back — the
    reason for the hypothesis `host ∉ tableAliases t` -/
theorem host_chain_id_as_alias_counterexample :
    validChains [⟨nim1122, [nim]⟩] = true ∧ resolveChain nim [⟨nim1122, [nim]⟩] (toHandle [⟨nim1122, [nim]⟩] nim1122) = nim ∧
      validAlias hubId = false := by decide

/-- a name that configures a chain literally called like an alias of the params: the handle written
    is that text, its translation is the aliased chain, and resolution still reaches the config
    because it reads the handle literally first — the reason for the hypothesis `c ∉ tableAliases t`
    in `handle_translates_back` -/
theorem config_chain_id_is_alias_text_remark :
    toHandle [⟨nim1122, [nim]⟩] nim = nim ∧ resolveChain hubId [⟨nim1122, [nim]⟩] nim = nim1122 ∧
      reachesConfig hubId [⟨nim1122, [nim]⟩] (toHandle [⟨nim1122, [nim]⟩] nim) nim = true := by decide

/-! ### non-vacuity -/

example : validChains [⟨hubId, [[100, 121, 109]]⟩, ⟨nim1122, [nim]⟩] = true := by decide
example : validDymName [97, 108, 105, 99, 101] = true ∧ validChainIdFormat nim1122 = true ∧ validAlias nim = true := by decide
/-- "sub.alice@nim" -/
example : parseAddr (fun _ => false) (formatAddr (joinDot [[115, 117, 98]]) [97, 108, 105, 99, 101] nim) =
    some ([115, 117, 98], [97, 108, 105, 99, 101], nim) := by decide
example : parseAddrLit (fun _ => false) [115, 117, 98, 46, 97, 108, 105, 99, 101, 64, 110, 105, 109] =
    some ([115, 117, 98], [97, 108, 105, 99, 101], nim) := by decide
/-- "a@b@c", ".a@b", "a..b@c", "a@b.c" are refused -/
example : parseAddr (fun _ => false) [97, 64, 98, 64, 99] = none ∧ parseAddr (fun _ => false) [46, 97, 64, 98] = none ∧
    parseAddr (fun _ => false) [97, 46, 46, 98, 64, 99] = none ∧ parseAddr (fun _ => false) [97, 64, 98, 46, 99] = none := by decide

end DymVerif.Props.C19Addr
