/-
  Props/C09Safe — C09: the side condition `SafeRun` of `agreement_inv` (at every designation each descriptor
  M-LC holds lies inside a state info of M-Core), as a theorem instead of a hypothesis.

    * `safeRun_of_coreStepsCov`: `SafeRun (init p) ops` for EVERY history, from one statement about M-Core alone
      (`CoreStepsCov p`: a Core transition loses covered heights only above the forks it performs).  Everything
      about M-LC (descriptor bookkeeping of `withDescs` / `rollbackClient` / `finishUpdate`) is discharged.
    * `stepCov_quiet`, `stepCov_update`: `StepCov` proved for every Core op except kick / fraud / obsolete
      (the three fork sources) — state updates (whatever their `last` flag) and the end-block (finalization) included.
    * `safeRun_mild` (PARTIAL, clearly labelled): `SafeRun` outright for every history whose Core ops are not
      kick / fraud / obsolete; `agreement_inv_mild`, `later_conflict_rejected_update_mild` restate the
      two theorems of Props/C09 without the hypothesis for those histories.
-/
import DymVerif.Props.C09
import DymVerif.Props.C01X
import DymVerif.Lemmas.LCCovered
import DymVerif.Lemmas.LCCoveredEnd

-- ---------------------------------------------------------------- M-Core: quiet ops keep every state info

namespace DymVerif.Core.Fork

/-- Core ops that are neither a state update, a fork source (kick, fraud proposal, obsolete marking) nor the
    end-block (finalization) -/
def QuietOp : Op → Prop
  | .kick _ => False
  | .update _ => False
  | .fraud _ _ _ _ _ _ => False
  | .obsolete _ _ => False
  | .end_ _ => False
  | _ => True

theorem apply_good_quiet {s s' : St} {o : Op} (hi : Inv s) (e : apply s o = .ok s') (hq : QuietOp o) : Good s s' := by
  cases o with
  | createRollapp id owner mb =>
    simp only [apply] at e
    split at e
    · cases e
    · rename_i hn
      injection e with e; subst e
      have hnone : getRa s id = none := by
        cases hx : getRa s id with
        | none => rfl
        | some _ => simp [hx] at hn
      exact createRollapp_good owner mb hnone
  | bridge ra' hh =>
    simp only [apply] at e
    split at e
    · cases e
    · rename_i r hg
      split at e
      · cases e
      · split at e
        · cases e
        · injection e with e; subst e
          exact Good.setRa rfl rfl rfl (r0 := r) (r1 := { r with tph := hh })
            (by show getRa s r.id = some r; rw [getRa_id hg]; exact hg) rfl (fun x => x.of_fields rfl rfl rfl)
  | fund a amt =>
    simp only [apply] at e; injection e with e; subst e
    exact Good.of_eq rfl rfl rfl
  | createSeq a ra' b d => exact createSeq_good hi.cust.nodup e
  | bondInc a amt d => exact increaseBond_good e
  | bondDec a amt => exact decreaseBond_good e
  | unbond a => exact unbond_good e
  | optIn a v => exact optIn_good hi.cust.nodup e
  | kick a => exact absurd hq id
  | update m => exact absurd hq id
  | fraud au ra' hh rev p rw => exact absurd hq id
  | obsolete au vs => exact absurd hq id
  | punish au a rw => exact punish_good (punishProposal_ok e).2
  | transferOwner sg ra' no =>
    obtain ⟨r, hg, _, _, _, rfl⟩ := transferOwner_ok e
    exact Good.setRa rfl rfl rfl (r0 := r) (r1 := { r with owner := no })
      (by show getRa s r.id = some r; rw [getRa_id hg]; exact hg) rfl (fun x => x.of_fields rfl rfl rfl)
  | setSeqParams au sp =>
    obtain ⟨_, hnp, _, rfl⟩ := setSeqParams_ok e
    exact Good.of_eq rfl rfl rfl
  | begin_ dt =>
    simp only [apply] at e; injection e with e; subst e
    exact beginBlock_good hi.cust.nodup
  | end_ f => exact absurd hq id

/-- a `Good` transition keeps every covered height covered -/
theorem Good.cov {c c1 : St} (g : Good c c1) (ra h : Nat) (hc : LC.Cov c ra h) : LC.Cov c1 ra h := by
  obtain ⟨r, st, hg, hst, h1, h2⟩ := hc
  obtain ⟨r', g1, hv, _⟩ := g.keep ra r hg
  have e : r'.states.map eraseNext = r.states.map eraseNext := congrArg Prod.snd hv
  obtain ⟨i, hi⟩ := List.mem_iff_getElem?.1 hst
  obtain ⟨st', hs', ee⟩ := getElem?_of_map_eraseNext e hi
  refine ⟨r', st', g1, List.mem_of_getElem? hs', ?_, ?_⟩
  · rw [(eraseNext_fields ee).2.1]; exact h1
  · rw [eraseNext_last ee]; exact h2

/-- the end-block (finalization + liveness events) keeps every covered height covered -/
theorem endBlock_ck (s : St) (fails : List (Nat × Nat)) : CK s (endBlock s fails) := by
  unfold endBlock
  refine CK.trans ?_ (fun ra h hc => (checkLiveness_good _).cov ra h hc)
  unfold finalizeRollappStates
  split
  · exact CK.refl s
  · exact finalizeAll_ck _ _ _ _

end DymVerif.Core.Fork

-- ---------------------------------------------------------------- M-Core: an accepted update keeps every state info

namespace DymVerif.C09Safe
open DymVerif DymVerif.Core DymVerif.Core.XUpd

/-- an accepted state update (any `last` flag, the fork to the latest height of the sentinel hand-over included)
    keeps every covered height of every rollapp covered -/
theorem update_cov {s s' : St} {m : UpdMsg} (hc : ChainAll s) (hf : FinInv s) (e : apply s (.update m) = .ok s')
    (ra h : Nat) (hcov : LC.Cov s ra h) : LC.Cov s' ra h := by
  obtain ⟨r0, st, hg0, hst, h1, h2⟩ := hcov
  obtain ⟨r, hg, _⟩ := C01X.update_accept_spec_full s s' m e
  have e' : updateState s m = .ok s' := e
  have hk := updateState_rkeys hc hf hg e'
  have hid := getRa_id hg
  have hx : ∃ r2, getRa (setRa s { r with states := r.states ++ [newSInfo s m (updSucc r m)] }) ra = some r2 ∧ st ∈ r2.states := by
    by_cases hra : ra = m.ra
    · subst hra
      rw [hg] at hg0; injection hg0 with hg0; subst hg0
      refine ⟨{ r with states := r.states ++ [newSInfo s m (updSucc r m)] }, ?_, List.mem_append_left _ hst⟩
      have := getRa_setRa_same s { r with states := r.states ++ [newSInfo s m (updSucc r m)] }
        (by show (getRa s r.id).isSome = true; rw [hid, hg]; rfl)
      rw [← hid]; exact this
    · refine ⟨r0, ?_, hst⟩
      rw [getRa_setRa_other s { r with states := r.states ++ [newSInfo s m (updSucc r m)] } ra
        (by show r.id ≠ ra; rw [hid]; exact fun x => hra x.symm)]
      exact hg0
  obtain ⟨r2, hg2, hst2⟩ := hx
  obtain ⟨r', h1', hk1⟩ := getRa_rKey_some hk hg2
  obtain ⟨_, _, k3⟩ := rKey_fields hk1
  have hm : sKey st ∈ r'.states.map sKey := by rw [k3]; exact List.mem_map.2 ⟨st, hst2, rfl⟩
  obtain ⟨st', hs', ee⟩ := List.mem_map.1 hm
  unfold sKey at ee
  simp only [Prod.mk.injEq] at ee
  have hl : st'.last = st.last := by unfold SInfo.last; rw [ee.2.1, ee.2.2.1]
  exact ⟨r', st', h1', hs', by rw [ee.2.1]; exact h1, by rw [hl]; exact h2⟩

end DymVerif.C09Safe

-- ---------------------------------------------------------------- M-LC

namespace DymVerif.LC
open DymVerif.Core (Addr NextP)

/-- the Core ops for which `StepCov` is proved here: everything but kick / fraud / obsolete -/
def MildCore (o : Core.Op) : Prop := Core.Fork.QuietOp o ∨ (∃ m, o = .update m) ∨ ∃ f, o = .end_ f

/-- **stepCov_quiet / stepCov_update** — in every reachable Core state a mild op keeps every covered height -/
theorem stepCov_mild (p : Core.Params) (cops : List Core.Op) (o : Core.Op) (hm : MildCore o) :
    StepCov (Core.run p cops) (Core.step (Core.run p cops) o).1 := by
  apply StepCov.refl_of_cov
  intro ra h hc
  unfold Core.step
  cases ha : Core.apply (Core.run p cops) o with
  | error er => exact hc
  | ok s1 =>
    simp only
    rcases hm with hq | ⟨m, rfl⟩ | ⟨f, rfl⟩
    · exact (Core.Fork.apply_good_quiet (Core.Fork.run_inv p cops) ha hq).cov ra h hc
    · exact C09Safe.update_cov (Core.run_chain p cops) (Core.run_fin p cops) ha ra h hc
    · simp only [Core.apply] at ha
      injection ha with ha; subst ha
      exact Core.Fork.endBlock_ck _ f ra h hc

/-- the statement about M-Core alone that `SafeRun` reduces to: a Core transition from a reachable state loses
    covered heights only above the forks it performs -/
def CoreStepsCov (p : Core.Params) : Prop :=
  ∀ cops o, StepCov (Core.run p cops) (Core.step (Core.run p cops) o).1

structure CovInv (p : Core.Params) (s : St) : Prop where
  cov : CovAll s
  reach : ∃ cops, s.core = Core.run p cops

theorem CovInv.of_eq {p : Core.Params} {s s' : St} (h : CovInv p s) (e1 : s'.descs = s.descs) (e2 : s'.core = s.core) :
    CovInv p s' :=
  ⟨h.cov.of_eq e1 e2, by obtain ⟨cops, hr⟩ := h.reach; exact ⟨cops, e2.trans hr⟩⟩

theorem init_covInv (p : Core.Params) : CovInv p (init p) :=
  ⟨fun d hd => by simp [init] at hd, ⟨[], rfl⟩⟩

theorem setCanonical_dc (s : St) (c : Nat) : (setCanonical s c).1.descs = s.descs ∧ (setCanonical s c).1.core = s.core := by
  unfold setCanonical
  repeat' split
  all_goals first
    | exact ⟨rfl, rfl⟩
    | (dsimp only
       repeat' split
       all_goals exact ⟨rfl, rfl⟩)

theorem handleUpdate_descs (s : St) (c : Nat) (hd : Hdr) : (handleUpdate s c hd).1.descs = s.descs := by
  unfold handleUpdate
  simp only
  repeat' split
  all_goals rfl

theorem updateClient_dc (s : St) (c : Nat) (w : Wrap) (hd : Hdr) (ibc : Bool) :
    (updateClient s c w hd ibc).1.descs = s.descs ∧ (updateClient s c w hd ibc).1.core = s.core := by
  unfold updateClient
  cases w with
  | nested => exact ⟨rfl, rfl⟩
  | storedProposal => exact ⟨rfl, rfl⟩
  | wrapped => exact ⟨rfl, rfl⟩
  | nestedWrapped => exact ⟨rfl, rfl⟩
  | top =>
    simp only
    split
    · exact ⟨rfl, rfl⟩
    · rename_i s1 hh
      have h1 : s1.descs = s.descs := by
        have := handleUpdate_descs s c hd
        rw [hh] at this; exact this
      have h2 : s1.core = s.core := by
        have := handleUpdate_core s c hd
        rw [hh] at this; exact this
      repeat' split
      all_goals exact ⟨h1, h2⟩

theorem misbehaviour_dc (s : St) (c : Nat) (k : MKind) (ibc : Bool) :
    (misbehaviour s c k ibc).1.descs = s.descs ∧ (misbehaviour s c k ibc).1.core = s.core := by
  unfold misbehaviour
  split
  · exact ⟨rfl, rfl⟩
  · simp only
    cases k <;> dsimp only <;> repeat' split
    all_goals exact ⟨rfl, rfl⟩

theorem chanInit_dc (s : St) (c : Nat) : (chanInit s c).1.descs = s.descs ∧ (chanInit s c).1.core = s.core := by
  unfold chanInit
  repeat' split
  all_goals exact ⟨rfl, rfl⟩

theorem chanAck_dc (s : St) (ch : Nat) (w : ChanRoute) (ibc : Bool) :
    (chanAck s ch w ibc).1.descs = s.descs ∧ (chanAck s ch w ibc).1.core = s.core := by
  unfold chanAck
  cases w <;> simp only <;> repeat' split
  all_goals exact ⟨rfl, rfl⟩

/-- the covering invariant through one M-LC op, given `StepCov` of the Core transition of a Core op -/
theorem step_covInv {p : Core.Params} {s : St} (h : CovInv p s) (op : Op)
    (hc : ∀ o ds, op = .core o ds → StepCov s.core (Core.step s.core o).1) : CovInv p (step s op).1 := by
  cases op with
  | core o ds =>
    refine ⟨coreOp_covAll h.cov o ds (hc o ds rfl), ?_⟩
    obtain ⟨cops, hr⟩ := h.reach
    rcases coreOp_core s o ds with e | e
    · exact ⟨cops, by show (coreOp s o ds).1.core = _; rw [e]; exact hr⟩
    · refine ⟨cops ++ [o], ?_⟩
      show (coreOp s o ds).1.core = _
      rw [e, hr, Core.run_append]; rfl
  | createClient chain pp hh c => exact h.of_eq rfl rfl
  | setCanonical c =>
    have hd := setCanonical_dc s c
    simp only [step]
    cases hx : setCanonical s c with
    | mk s1 oe =>
      rw [hx] at hd
      cases oe with
      | none => exact h.of_eq hd.1 hd.2
      | some e => exact h
  | updateClient c w hd ibc => exact h.of_eq (updateClient_dc s c w hd ibc).1 (updateClient_dc s c w hd ibc).2
  | misbehaviour c k ibc => exact h.of_eq (misbehaviour_dc s c k ibc).1 (misbehaviour_dc s c k ibc).2
  | chanInit c => exact h.of_eq (chanInit_dc s c).1 (chanInit_dc s c).2
  | chanAck ch w ibc => exact h.of_eq (chanAck_dc s ch w ibc).1 (chanAck_dc s ch w ibc).2

/-- `SafeRun` from the covering invariant, for histories whose Core ops satisfy a predicate `A` under which the
    Core transition is `StepCov` -/
theorem safeRun_gen (p : Core.Params) (A : Core.Op → Prop)
    (HA : ∀ cops o, A o → StepCov (Core.run p cops) (Core.step (Core.run p cops) o).1) :
    ∀ (ops : List Op) (s : St), CovInv p s → (∀ o ds, Op.core o ds ∈ ops → A o) → SafeRun s ops
  | [], _, _, _ => trivial
  | op :: ops, s, h, ha => by
    have hstep : CovInv p (step s op).1 := by
      apply step_covInv h
      intro o ds ho
      obtain ⟨cops, hr⟩ := h.reach
      rw [hr]
      exact HA cops o (ha o ds (by rw [ho]; exact List.mem_cons_self))
    refine ⟨?_, safeRun_gen p A HA ops _ hstep (fun o ds hm => ha o ds (List.mem_cons_of_mem _ hm))⟩
    cases op with
    | setCanonical c => exact fun cl _ => h.cov.descsCovered cl.chain
    | _ => trivial

/-- **safeRun_of_coreStepsCov** — `SafeRun` holds for EVERY history of M-LC as soon as M-Core's transitions lose
    covered heights only above their forks: nothing about the light-client code is left to assume. -/
theorem safeRun_of_coreStepsCov (p : Core.Params) (H : CoreStepsCov p) (ops : List Op) : SafeRun (init p) ops :=
  safeRun_gen p (fun _ => True) (fun cops o _ => H cops o) ops (init p) (init_covInv p) (fun _ _ _ => trivial)

/-- a history without kick / fraud proposal / obsolete marking among its Core ops -/
def Mild (ops : List Op) : Prop := ∀ o ds, Op.core o ds ∈ ops → MildCore o

/-- **safeRun_mild (PARTIAL: histories without kick / fraud / obsolete)** — `SafeRun` outright. -/
theorem safeRun_mild (p : Core.Params) (ops : List Op) (hm : Mild ops) : SafeRun (init p) ops :=
  safeRun_gen p MildCore (fun cops o ho => stepCov_mild p cops o ho) ops (init p) (init_covInv p) hm

/-- `agreement_inv` without the `SafeRun` hypothesis, for mild histories (PARTIAL) -/
theorem agreement_inv_mild (p : Core.Params) (ops : List Op) (hm : Mild ops) : AgreeInv (run (init p) ops) :=
  Props.C09.agreement_inv p ops (safeRun_mild p ops hm)

/-- `agreement_inv` for every history, from the Core-only statement -/
theorem agreement_inv_of_coreStepsCov (p : Core.Params) (H : CoreStepsCov p) (ops : List Op) : AgreeInv (run (init p) ops) :=
  Props.C09.agreement_inv p ops (safeRun_of_coreStepsCov p H ops)

/-- `later_conflict_rejected_update_reachable` without the `SafeRun` hypothesis, for mild histories (PARTIAL): after
    any such run a state update that contradicts an optimistically accepted header is rejected with the state
    untouched, and agreement holds afterwards -/
theorem later_conflict_rejected_update_mild (p : Core.Params) (ops : List Op) (hm : Mild ops)
    (m : Core.UpdMsg) (ds : List (Nat × Option Nat)) :
    ((coreOp (run (init p) ops) (.update m) ds).2 ≠ .ok → (coreOp (run (init p) ops) (.update m) ds).1 = run (init p) ops) ∧
    AgreeInv (coreOp (run (init p) ops) (.update m) ds).1 :=
  Props.C09.later_conflict_rejected_update_reachable p ops (safeRun_mild p ops hm) m ds

/-- the same for every history, from the Core-only statement -/
theorem later_conflict_rejected_update_of_coreStepsCov (p : Core.Params) (H : CoreStepsCov p) (ops : List Op)
    (m : Core.UpdMsg) (ds : List (Nat × Option Nat)) :
    ((coreOp (run (init p) ops) (.update m) ds).2 ≠ .ok → (coreOp (run (init p) ops) (.update m) ds).1 = run (init p) ops) ∧
    AgreeInv (coreOp (run (init p) ops) (.update m) ds).1 :=
  Props.C09.later_conflict_rejected_update_reachable p ops (safeRun_of_coreStepsCov p H ops) m ds

/-- the covering invariant itself along a mild history: every descriptor of M-LC lies in a state info of M-Core -/
theorem covAll_mild (p : Core.Params) : ∀ (ops : List Op) (s : St), CovInv p s → Mild ops → CovAll (run s ops)
  | [], _, h, _ => h.cov
  | op :: ops, s, h, hm => by
    simp only [run, List.foldl_cons]
    refine covAll_mild p ops _ (step_covInv h op ?_) (fun o ds hx => hm o ds (List.mem_cons_of_mem _ hx))
    intro o ds ho
    obtain ⟨cops, hr⟩ := h.reach
    rw [hr]
    exact stepCov_mild p cops o (hm o ds (by rw [ho]; exact List.mem_cons_self))

/-- non-vacuity: the witness history of Props/C09 (`opsA`: rollapps, sequencers, a state update, a client, a
    designation) is mild, so `safeRun_mild` covers it -/
example : Mild ([.core (.update { ra := 0, sender := 1, start := 1, num := 3, rev := 0, last := false, bds := [] }) [],
    .createClient 0 expParams 2 ⟨0, 0, 0⟩, .setCanonical 0] : List Op) := by
  intro o ds hm
  simp only [List.mem_cons, List.mem_nil_iff, or_false] at hm
  rcases hm with hm | hm | hm
  · injection hm with a b; subst a; exact Or.inr (Or.inl ⟨_, rfl⟩)
  · cases hm
  · cases hm

end DymVerif.LC
