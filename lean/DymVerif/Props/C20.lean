/-
  Props/C20 — Privileged operations cannot be reached by unprivileged callers.

  Part 1 (nesting).  Theorems about `anteCheck Gen.Ante.config` — the model of
  `RejectMessagesDecorator` instantiated with the tables REGENERATED from app/ante/*.go on every run
  (maxDepth, BlockTypeUrls predicates, type-assertion reject, switch cases) — for ALL message
  trees, all paths, all depths.  A node is addressed by an index path `p` (`reach`), its depth is
  `p.length - 1`; descent goes only through wrappers whose inner messages are executed.

  Part 1b (routes).  `NewAnteHandler` picks the ante chain by the tx's first extension option; the
  route table (URL → constructor → decorators) is regenerated into `Gen.Ante.routes`.  The theorems
  say that EVERY route gates the message types: it runs the reject decorator right after context
  set-up, or (the eth route) a decorator that in every mode insists on MsgEthereumTx only — so no
  disabled cosmos message is accepted through any route, and an unlisted extension option is
  rejected outright.  What the SDK / ethermint decorators do is the hand-written `classify`
  (trusted reading, exercised by the harness through the real `app.AnteHandler()`).

  Part 2 (guards).  `authority_guard_table` / `owner_guard_table` are facts about the regenerated
  guard table (`Gen.Guards`), and the M-Guards theorems say what those facts give for every state,
  every signer and every op sequence.  That the table describes the handlers is the extractor's
  claim, validated behaviourally by the harness (translator = trusted base).
-/
import DymVerif.Lemmas.AnteBasic
import DymVerif.Lemmas.AnteRoutes
import DymVerif.Gen.Ante
import DymVerif.Gen.Guards
namespace DymVerif.C20
open DymVerif DymVerif.Ante

abbrev cfg : Config := Gen.Ante.config

/-! ## facts about the regenerated ante tables -/

/-- everything in reject_msgs.go that is not extracted as data still has the modelled text -/
theorem gen_shape_ok : Gen.Ante.shapeOk = true := by decide

/-- the `switch` unwraps exactly the hub's real wrappers (authz exec, gov v1 and group proposals)
    and reads grants; a wrapper missing from the switch breaks this -/
theorem gen_unwraps_real : cfg.unwraps = realWrappers := by decide

/-- the reject decorator runs right after `SetUpContext`: before fees are deducted and before any
    signature work -/
theorem gen_reject_decorator_first : Gen.Ante.rejectIndex = 1 := by decide

theorem accOf_real (ty : Nat) : accOf cfg ty = realWrappers.lookup ty := by
  simp [accOf, gen_unwraps_real]

/-- the real wrapper relation as a function (what `reach` descends through) -/
def W : Nat → Option Acc := fun ty => realWrappers.lookup ty

theorem accOf_cfg : accOf cfg = W := by
  funext ty; exact accOf_real ty

/-- message types the hub disables everywhere -/
def alwaysDisabled : List Nat := [tyEthTx, tyVest, tyVestPeriodic, tyVestPermanent]

/-- table fact (decided on the regenerated table): each of them is blocked already at depth 0 -/
theorem gen_blocked_at_top : ∀ ty ∈ alwaysDisabled, blocked cfg ty 0 = true := by decide

/-- table fact: the light-client update is blocked at depth 1 -/
theorem gen_updateClient_blocked_nested : blocked cfg tyUpdateClient 1 = true := by decide

/-- table fact: at the top level the light-client update is allowed (relayers send it directly) -/
theorem gen_updateClient_allowed_top : blocked cfg tyUpdateClient 0 = false := by decide

/-- table fact: no predicate mentions the grant message itself -/
theorem gen_grant_not_listed : ∀ r ∈ cfg.rules, tyGrant ∉ r.tys := by decide

theorem blocked_always {ty : Nat} (h : ty ∈ alwaysDisabled) (d : Nat) : blocked cfg ty d = true :=
  blocked_mono (gen_blocked_at_top ty h) (Nat.zero_le d)

theorem blocked_updateClient {d : Nat} (h : 1 ≤ d) : blocked cfg tyUpdateClient d = true :=
  blocked_mono gen_updateClient_blocked_nested h

/-! ## clause: disabled messages are rejected wherever they appear -/

/-- General form, any configuration: a reachable node whose type some predicate blocks at its depth
    makes the whole transaction fail. -/
theorem blocked_node_rejected (c : Config) (tx : List Msg) (p : List Nat) (m : Msg)
    (hr : reach (accOf c) tx p = some m) (hb : blocked c m.ty (p.length - 1) = true) :
    anteCheck c tx ≠ none := by
  intro hacc
  have := (accepted_path c p 0 tx m hacc hr).notBlocked
  simp only [Nat.zero_add] at this
  rw [hb] at this
  cases this

/-- **disabled_rejected_everywhere** (generated tables): vesting-account creation (three message
    types) and raw EVM messages are rejected at every position of every tree, a light-client update
    at every nested position (depth ≥ 1), whatever surrounds them. -/
theorem disabled_rejected_everywhere (tx : List Msg) (p : List Nat) (m : Msg)
    (hr : reach W tx p = some m)
    (hd : m.ty ∈ alwaysDisabled ∨ (m.ty = tyUpdateClient ∧ 2 ≤ p.length)) :
    anteCheck cfg tx ≠ none := by
  rw [← accOf_cfg] at hr
  apply blocked_node_rejected cfg tx p m hr
  cases hd with
  | inl h => exact blocked_always h _
  | inr h => rw [h.1]; exact blocked_updateClient (by omega)

example : anteCheck cfg [.node tyExec [.node tyGovSubmit [.node tyVest [] 0 false] 0 false] 0 false]
    = some (.disabled tyVest) := by decide
example : (reach W [.node tyExec [.node tyGovSubmit [.node tyVest [] 0 false] 0 false] 0 false] [0, 0, 0]).map Msg.ty
    = some tyVest := by decide

/-- the raw EVM message is additionally rejected by Go type, before any predicate -/
theorem ethtx_rejected (tx : List Msg) (p : List Nat) (m : Msg)
    (hr : reach W tx p = some m) (ht : m.ty = tyEthTx) : anteCheck cfg tx ≠ none :=
  disabled_rejected_everywhere tx p m hr (.inl (by simp [ht, alwaysDisabled]))

/-- grants: an authorization naming a disabled type is judged at the depth of the grant -/
theorem grant_of_disabled_rejected (tx : List Msg) (p : List Nat) (m : Msg)
    (hr : reach W tx p = some m) (hg : m.ty = tyGrant)
    (hd : m.auth ∈ alwaysDisabled ∨ (m.auth = tyUpdateClient ∧ 2 ≤ p.length)) :
    anteCheck cfg tx ≠ none := by
  intro hacc
  rw [← accOf_cfg] at hr
  have ha := accepted_path cfg p 0 tx m hacc hr
  have hacc' : accOf cfg m.ty = some .grant := by rw [hg]; decide
  have hb := (ha.grant hacc').2
  simp only [Nat.zero_add] at hb
  cases hd with
  | inl h => rw [blocked_always h] at hb; cases hb
  | inr h => rw [h.1, blocked_updateClient (by omega)] at hb; cases hb

example : anteCheck cfg [.node tyGroupSubmit [.node tyGrant [] tyUpdateClient false] 0 false]
    = some (.disabledGrant tyUpdateClient) := by decide

/-- a wrapper whose packed messages cannot be read never passes -/
theorem unreadable_wrapper_rejected (tx : List Msg) (p : List Nat) (m : Msg)
    (hr : reach W tx p = some m) (hw : W m.ty ≠ none) (hb : m.bad = true) :
    anteCheck cfg tx ≠ none := by
  intro hacc
  rw [← accOf_cfg] at hr hw
  have ha := accepted_path cfg p 0 tx m hacc hr
  cases hacc' : accOf cfg m.ty with
  | none => exact hw hacc'
  | some a =>
    cases a with
    | msgs => have := (ha.msgs hacc').1; rw [hb] at this; cases this
    | grant => have := (ha.grant hacc').1; rw [hb] at this; cases this

example : anteCheck cfg [.node tyExec [] 0 true] = some .unpack := by decide

/-! ## clause: deeper nesting is rejected outright -/

/-- **too_deep_rejected**: any node at depth ≥ maxDepth (path longer than maxDepth), disabled or
    not, makes the transaction fail — for every configuration, hence for the generated one. -/
theorem too_deep_rejected_gen (c : Config) (tx : List Msg) (p : List Nat) (m : Msg)
    (hr : reach (accOf c) tx p = some m) (hd : c.maxDepth < p.length) : anteCheck c tx ≠ none := by
  intro hacc
  have := (accepted_path c p 0 tx m hacc hr).depth
  omega

theorem too_deep_rejected (tx : List Msg) (p : List Nat) (m : Msg)
    (hr : reach W tx p = some m) (hd : cfg.maxDepth < p.length) : anteCheck cfg tx ≠ none := by
  rw [← accOf_cfg] at hr
  exact too_deep_rejected_gen cfg tx p m hr hd

/-- the limit is the regenerated one; today it is 6 (depths 0 … 5 are allowed).  If the constant
    is changed this lemma fails and the harness' documented limit must be revisited. -/
theorem gen_maxDepth : cfg.maxDepth = 6 := by decide

example : anteCheck cfg
    [.node 1 [.node 2 [.node 3 [.node 1 [.node 2 [.node 3 [.node 0 [] 0 false] 0 false] 0 false] 0 false] 0 false] 0 false] 0 false]
    = some .deep := by decide
example : anteCheck cfg
    [.node 1 [.node 2 [.node 3 [.node 1 [.node 2 [.node 0 [] 0 false] 0 false] 0 false] 0 false] 0 false] 0 false]
    = none := by decide

/-! ## clause: completeness — an accepted transaction contains nothing forbidden -/

/-- **check_complete**: if the decorator accepts, then every node reachable through wrapper edges
    is within the depth limit, is not a raw EVM message, is not blocked at its depth, is readable if
    it is a wrapper, and (grants) does not name a type blocked at the grant's depth. -/
theorem check_complete (tx : List Msg) (hacc : anteCheck cfg tx = none) (p : List Nat) (m : Msg)
    (hr : reach W tx p = some m) :
    p.length - 1 < cfg.maxDepth ∧ m.ty ∉ cfg.typeRejects ∧ blocked cfg m.ty (p.length - 1) = false ∧
    (W m.ty ≠ none → m.bad = false) ∧
    (m.ty = tyGrant → blocked cfg m.auth (p.length - 1) = false) := by
  rw [← accOf_cfg] at hr
  have ha := accepted_path cfg p 0 tx m hacc hr
  simp only [Nat.zero_add] at ha
  refine ⟨ha.depth, ha.notTypeRejected, ha.notBlocked, ?_, ?_⟩
  · intro hw
    rw [← accOf_cfg] at hw
    cases hacc' : accOf cfg m.ty with
    | none => exact absurd hacc' hw
    | some a =>
      cases a with
      | msgs => exact (ha.msgs hacc').1
      | grant => exact (ha.grant hacc').1
  · intro hg
    exact (ha.grant (by rw [hg]; decide)).2

/-- … in particular no disabled message type occurs anywhere in an accepted transaction -/
theorem accepted_has_no_disabled (tx : List Msg) (hacc : anteCheck cfg tx = none) (p : List Nat)
    (m : Msg) (hr : reach W tx p = some m) :
    m.ty ∉ alwaysDisabled ∧ (m.ty = tyUpdateClient → p.length = 1) := by
  constructor
  · intro h
    exact disabled_rejected_everywhere tx p m hr (.inl h) hacc
  · intro h
    have hp : p ≠ [] := by intro hp; subst hp; simp [reach] at hr
    have : 0 < p.length := List.length_pos_iff.mpr hp
    by_cases h2 : 2 ≤ p.length
    · exact absurd hacc (disabled_rejected_everywhere tx p m hr (.inr ⟨h, h2⟩))
    · omega

example : anteCheck cfg [.node tyUpdateClient [] 0 false, .node tyExec [.node 0 [] 0 false] 0 false] = none := by
  decide

/-- **reject_sound** (no over-rejection): whenever the decorator rejects, some node reachable
    through wrapper edges really offends — too deep, raw EVM message, blocked at its depth,
    unreadable wrapper, or a grant naming a type blocked at its depth. -/
theorem reject_sound (tx : List Msg) (e : Err) (h : anteCheck cfg tx = some e) :
    ∃ p n, reach W tx p = some n ∧ Offends cfg (p.length - 1) n e := by
  obtain ⟨i, p, n, hr, ho⟩ := checkMsgs_some cfg tx 0 e h
  refine ⟨i :: p, n, ?_, ?_⟩
  · rw [← accOf_cfg]; exact hr
  · simpa using ho

/-! ## clause: what the code does for grants -/

/-- **grant_depth_semantics**: for a readable grant that is itself allowed at depth `d`, the verdict
    is exactly "is the granted type blocked at the grant's own depth `d`" (not at `d+1`). -/
theorem grant_depth_semantics (d auth : Nat) (inner : List Msg) (hd : d < cfg.maxDepth)
    : checkMsg cfg d (.node tyGrant inner auth false) =
        if blocked cfg auth d then some (.disabledGrant auth) else none := by
  rw [checkMsg_node]
  have h1 : ¬ cfg.maxDepth ≤ d := by omega
  have h2 : tyGrant ∉ cfg.typeRejects := by decide
  have h3 : blocked cfg tyGrant d = false := by
    cases hb : blocked cfg tyGrant d with
    | false => rfl
    | true =>
      simp only [blocked, List.any_eq_true, Rule.hits, Bool.and_eq_true, List.contains_iff_mem] at hb
      obtain ⟨r, hr, hm, _⟩ := hb
      exact absurd hm (gen_grant_not_listed r hr)
  have h4 : accOf cfg tyGrant = some .grant := by decide
  simp [h1, h2, h3, h4]

/-- consequence: a top-level grant of the light-client update is accepted … -/
theorem top_level_grant_of_update_client_accepted :
    anteCheck cfg [.node tyGrant [] tyUpdateClient false] = none := by decide

/-- … but executing a light-client update through authz (at any depth ≥ 1, under any wrappers)
    is rejected, so such a grant can never be exercised -/
theorem granted_update_client_cannot_be_executed (tx : List Msg) (p : List Nat) (m : Msg)
    (hr : reach W tx p = some m) (ht : m.ty = tyUpdateClient) (hn : 2 ≤ p.length) :
    anteCheck cfg tx ≠ none :=
  disabled_rejected_everywhere tx p m hr (.inr ⟨ht, hn⟩)

example : anteCheck cfg [.node tyExec [.node tyUpdateClient [] 0 false] 0 false]
    = some (.disabled tyUpdateClient) := by decide

/-! ## clause: the deprecated misbehaviour submission -/

/-- table fact: `MsgSubmitMisbehaviour` is blocked from depth 1 on (it is listed next to the
    light-client update) and allowed at the top level, where the light-client decorator sees it -/
theorem gen_misbehaviour_blocked_nested :
    blocked cfg tyMisbehaviour 1 = true ∧ blocked cfg tyMisbehaviour 0 = false := by decide

/-- **misbehaviour_rejected_when_nested**: a `MsgSubmitMisbehaviour` at any depth ≥ 1 — inside authz
    exec, a gov or a group proposal, in any combination — makes the transaction fail -/
theorem misbehaviour_rejected_when_nested (tx : List Msg) (p : List Nat) (m : Msg)
    (hr : reach W tx p = some m) (ht : m.ty = tyMisbehaviour) (hn : 2 ≤ p.length) :
    anteCheck cfg tx ≠ none := by
  rw [← accOf_cfg] at hr
  apply blocked_node_rejected cfg tx p m hr
  rw [ht]
  exact blocked_mono gen_misbehaviour_blocked_nested.1 (by omega)

/-- … and so does a nested grant naming it -/
theorem grant_of_misbehaviour_rejected_when_nested (tx : List Msg) (p : List Nat) (m : Msg)
    (hr : reach W tx p = some m) (hg : m.ty = tyGrant) (ha : m.auth = tyMisbehaviour)
    (hn : 2 ≤ p.length) : anteCheck cfg tx ≠ none := by
  intro hacc
  rw [← accOf_cfg] at hr
  have hp := accepted_path cfg p 0 tx m hacc hr
  have hacc' : accOf cfg m.ty = some .grant := by rw [hg]; decide
  have hb := (hp.grant hacc').2
  simp only [Nat.zero_add] at hb
  rw [ha, blocked_mono gen_misbehaviour_blocked_nested.1 (by omega)] at hb
  cases hb

example : anteCheck cfg [.node tyGovSubmit [.node tyMisbehaviour [] 0 false] 0 false]
    = some (.disabled tyMisbehaviour) := by decide
example : anteCheck cfg [.node tyMisbehaviour [] 0 false] = none := by decide

/-! ## Part 1b: every route of `NewAnteHandler` -/

abbrev routes : List Route := Gen.Ante.routes

/-- everything of NewAnteHandler's closure that is not extracted as data still has the modelled text
    (first extension option selects the route, default case rejects, no option = cosmos chain) -/
theorem gen_route_shape_ok : Gen.Ante.routeShapeOk = true := by decide

/-- table fact (decided on the regenerated route table, decorators classified by `classify`): every
    route runs the reject decorator first after context set-up, or contains a decorator that in
    every mode fails unless all messages are MsgEthereumTx.  A new route without either, or the
    reject decorator moved behind a fee / signature decorator, breaks this. -/
theorem gen_routes_guarded : ∀ r ∈ routes, routeGuarded r = true := by decide

/-- table fact: a tx without extension options is routed, and to a chain that rejects first -/
theorem gen_plain_route_rejects_first :
    (routeOf routes none).any (fun r => rejectFirst (r.decs.map classify)) = true := by decide

/-- table fact: the routes are not vacuous — the plain and the ethereum one exist, with different
    chains (non-vacuity of the statements below) -/
theorem gen_routes_nonvacuous :
    routes.length = 2 ∧
    (routeOf routes (some "/ethermint.evm.v1.ExtensionOptionsEthereumTx")).any
      (fun r => ethGuarded (r.decs.map classify) && !rejectFirst (r.decs.map classify)) = true := by
  decide

/-- **every_route_guards**: whatever the extension option and the mode (ReCheckTx or not), a
    transaction that no decorator of its route rejects for its message types has either passed
    the reject decorator (`anteCheck`) or consists of MsgEthereumTx messages only. -/
theorem every_route_guards (rc : Bool) (ext : Option String) (tx : List Msg)
    (h : runAnte cfg routes rc ext tx = none) :
    anteCheck cfg tx = none ∨ ∀ m ∈ tx, m.ty = tyEthTx := by
  unfold runAnte at h
  cases hr : routeOf routes ext with
  | none => rw [hr] at h; cases h
  | some r =>
    rw [hr] at h
    have hm : r ∈ routes := List.mem_of_find?_eq_some hr
    exact runDecs_guarded (gen_routes_guarded r hm) h

/-- **unknown_extension_rejected**: a first extension option that no route lists is refused before
    any chain runs -/
theorem unknown_extension_rejected (rc : Bool) (u : String) (tx : List Msg)
    (hu : ∀ r ∈ routes, r.ext ≠ some u) : runAnte cfg routes rc (some u) tx = some .unknownExt := by
  have : routeOf routes (some u) = none := by
    unfold routeOf
    rw [List.find?_eq_none]
    intro r hr
    simpa using hu r hr
  simp [runAnte, this]

example : runAnte cfg routes false (some "/ethermint.types.v1.ExtensionOptionsWeb3Tx")
    [.node tyOther [] 0 false] = some .unknownExt := by decide

/-- a MsgEthereumTx is no wrapper: nothing is reachable below it -/
theorem ethtx_not_wrapper : W tyEthTx ≠ some .msgs := by decide

/-- **disabled_rejected_on_every_route**: vesting-account creation at any position, a light-client
    update or misbehaviour submission at any nested position: rejected through EVERY route, in
    every mode — on the eth route because a transaction carrying anything but MsgEthereumTx is
    refused as a whole. -/
theorem disabled_rejected_on_every_route (rc : Bool) (ext : Option String) (tx : List Msg)
    (p : List Nat) (m : Msg) (hr : reach W tx p = some m)
    (hd : (m.ty ∈ alwaysDisabled ∧ m.ty ≠ tyEthTx) ∨
          ((m.ty = tyUpdateClient ∨ m.ty = tyMisbehaviour) ∧ 2 ≤ p.length)) :
    runAnte cfg routes rc ext tx ≠ none := by
  intro h
  cases every_route_guards rc ext tx h with
  | inl hacc =>
    rcases hd with ⟨hm, _⟩ | ⟨hm | hm, hn⟩
    · exact disabled_rejected_everywhere tx p m hr (.inl hm) hacc
    · exact disabled_rejected_everywhere tx p m hr (.inr ⟨hm, hn⟩) hacc
    · exact misbehaviour_rejected_when_nested tx p m hr hm hn hacc
  | inr hall =>
    have hw : ∀ x ∈ tx, W x.ty ≠ some .msgs := fun x hx => by rw [hall x hx]; exact ethtx_not_wrapper
    have ⟨hmem, hlen⟩ := reach_no_wrapper hw hr
    have hty := hall m hmem
    rcases hd with ⟨_, hne⟩ | ⟨_, hn⟩
    · exact hne hty
    · omega

/-- **ethtx_only_as_top_level_of_eth_only_tx**: a raw EVM message is accepted nowhere except as a
    top-level message of a transaction that consists of MsgEthereumTx only (which only the eth
    route lets through; the cosmos chain rejects it by type, `ethtx_rejected`) -/
theorem ethtx_only_as_top_level_of_eth_only_tx (rc : Bool) (ext : Option String) (tx : List Msg)
    (h : runAnte cfg routes rc ext tx = none) (p : List Nat) (m : Msg)
    (hr : reach W tx p = some m) (ht : m.ty = tyEthTx) :
    p.length = 1 ∧ ∀ x ∈ tx, x.ty = tyEthTx := by
  cases every_route_guards rc ext tx h with
  | inl hacc => exact absurd hacc (ethtx_rejected tx p m hr ht)
  | inr hall =>
    have hw : ∀ x ∈ tx, W x.ty ≠ some .msgs := fun x hx => by rw [hall x hx]; exact ethtx_not_wrapper
    exact ⟨(reach_no_wrapper hw hr).2, hall⟩

/-- non-vacuity: the eth route refuses a vesting message (also next to a MsgEthereumTx, also on
    ReCheckTx, where the validate-basic decorator is skipped), lets an eth-only tx through; the
    plain route refuses the raw EVM message -/
example :
    runAnte cfg routes false (some "/ethermint.evm.v1.ExtensionOptionsEthereumTx")
      [.node tyEthTx [] 0 false, .node tyVest [] 0 false] = some (.notEth tyVest) ∧
    runAnte cfg routes true (some "/ethermint.evm.v1.ExtensionOptionsEthereumTx")
      [.node tyVest [] 0 false] = some (.notEth tyVest) ∧
    runAnte cfg routes false (some "/ethermint.evm.v1.ExtensionOptionsEthereumTx")
      [.node tyEthTx [] 0 false] = none ∧
    runAnte cfg routes false none [.node tyEthTx [] 0 false] = some (.ante (.invalidType tyEthTx)) := by
  decide

/-! ## Part 2: guard table -/

/-- **authority_guard_table** (load-bearing table fact, decided on the regenerated table): every routed
    custom-module message that is governance-only BY DECLARATION — it has an `Authority` field, or
    its `cosmos.msg.v1.signer` option names a field called authority whatever the Go field is
    called, or it is declared in a governance service (a gRPC service other than `Msg`, e.g.
    `ProposalMsg`) — is compared with the keeper authority by its handler, and before any write. -/
theorem authority_guard_table :
    ∀ e ∈ Gen.Guards.entries, (e.hasAuthorityField = true ∨ e.govOnly = true) →
      e.guard = .authority ∧ e.guardFirst = true := by
  decide

/-- … and conversely no handler compares its signer with the keeper authority without being declared
    governance-only (the two notions coincide on today's tree) -/
theorem authority_guard_converse :
    ∀ e ∈ Gen.Guards.entries, e.guard = .authority → e.govOnly = true := by
  decide

/-- **owner_guard_table** (load-bearing only in its second half): `ownerOnly` is DERIVED by the extractor
    from the handler (a comparison of the signer with a stored non-authority value, or a lookup keyed
    by the signer alone), so "`ownerOnly` → guard is `.owner` or `.self`" restates the derivation; the
    fact with content is `guardFirst`: in none of these handlers does a store write or bank call precede
    the comparison.  Which messages are in the class is pinned by `owner_rows_exact` /
    `unguarded_rows_exact` below. -/
theorem owner_guard_table :
    ∀ e ∈ Gen.Guards.entries, e.ownerOnly = true →
      (e.guard = .owner ∨ e.guard = .self) ∧ e.guardFirst = true := by
  decide

/-- the names of the rows with a given guard -/
def rowsWith (g : Guard) : List String :=
  (Gen.Guards.table.filter (fun r => r.2.guard = g)).map (·.1)

/-- **guard_table_covers_every_rpc**: the table has exactly one Msg row per rpc method of the gRPC
    service descriptors (`_Msg_serviceDesc`, `_ProposalMsg_serviceDesc`, … counted by an independent
    scan of the generated `.pb.go` files): no routed custom-module message is missing from it. -/
theorem guard_table_covers_every_rpc :
    (Gen.Guards.entries.filter (·.isMsg)).length = (Gen.Guards.rpcMethods.map (·.2)).sum ∧
    (Gen.Guards.rpcMethods.map (·.2)).sum = 62 := by
  decide

/-- **guard_table_exact_counts** (replaces the former `≥` counts): the number of rows of every class.
    A guard that disappears from a handler, a new message, a message that loses its `Authority`
    field: each changes one of these numbers and this theorem stops checking. -/
theorem guard_table_exact_counts :
    Gen.Guards.entries.length = 78 ∧
    (Gen.Guards.entries.filter (·.hasAuthorityField)).length = 7 ∧
    (Gen.Guards.entries.filter (·.govOnly)).length = 7 ∧
    (Gen.Guards.entries.filter (·.ownerOnly)).length = 34 ∧
    (rowsWith .authority).length = 7 ∧ (rowsWith .owner).length = 25 ∧ (rowsWith .self).length = 10 ∧
    (rowsWith .govRouted).length = 16 ∧ (rowsWith .none).length = 20 := by
  decide

/-- **unguarded_rows_exact**: the routed custom-module messages in whose handler the extractor finds NO
    signer comparison are exactly these twenty, each reviewed against the property text: they create
    a new object for the signer, spend the signer's own funds, or are open to anybody by design
    (finalizing a packet, fulfilling an order, relaying a client update).  `eibc.MsgFulfillOrderAuthorized`
    (signer = the LP address whose own funds are sent) and `sponsorship.MsgClaimRewards` (keyed by the
    claimer: `CanClaim(claimer)`) touch only what belongs to the signer.  A new message without a
    guard, or a guard removed from a handler, changes this list. -/
theorem unguarded_rows_exact :
    rowsWith .none =
      ["delayedack.MsgFinalizePacket", "delayedack.MsgFinalizePacketByPacketKey", "dymns.MsgRegisterName",
       "dymns.MsgPurchaseOrder", "eibc.MsgTryFulfillOnDemand", "eibc.MsgFulfillOrder",
       "eibc.MsgFulfillOrderAuthorized", "eibc.MsgCreateOnDemandLP", "incentives.MsgCreateGauge",
       "incentives.MsgAddToGauge", "iro.MsgBuy", "iro.MsgBuyExactSpend", "iro.MsgSell", "iro.MsgClaim",
       "lightclient.MsgSetCanonicalClient", "lightclient.MsgUpdateClient", "lockup.MsgLockTokens",
       "rollapp.MsgCreateRollapp", "sponsorship.MsgVote", "sponsorship.MsgClaimRewards"] := by
  decide

/-- **owner_rows_exact**: the messages whose handler compares the signer with the stored owner /
    creator / buyer / controller / proposer of the targeted object (`.owner`), or addresses the
    signer's own object (`.self`) — derived, then pinned here.  Against the former fixed list this
    adds `rollapp.MsgUpdateState` (proposer only; the comparison sits in x/sequencer's
    `BeforeUpdateState` hook), `dymns.MsgPlaceBuyOrder` (continuing an order: its buyer),
    `dymns.MsgCompleteSellOrder`, `iro.MsgCreatePlan` (rollapp owner), `sequencer.MsgKickProposer`,
    `sponsorship.MsgRevokeVote` (the voter's own vote). -/
theorem owner_rows_exact :
    rowsWith .owner =
      ["dymns.MsgRegisterAlias", "dymns.MsgTransferDymNameOwnership", "dymns.MsgSetController",
       "dymns.MsgUpdateResolveAddress", "dymns.MsgUpdateDetails", "dymns.MsgPlaceSellOrder",
       "dymns.MsgCancelSellOrder", "dymns.MsgCompleteSellOrder", "dymns.MsgPlaceBuyOrder",
       "dymns.MsgCancelBuyOrder", "dymns.MsgAcceptBuyOrder", "eibc.MsgUpdateDemandOrder",
       "eibc.MsgDeleteOnDemandLP", "iro.MsgCreatePlan", "iro.MsgEnableTrading", "iro.MsgClaimVested",
       "lockup.MsgBeginUnlocking", "lockup.MsgExtendLockup", "lockup.MsgForceUnlock",
       "rollapp.MsgUpdateRollappInformation", "rollapp.MsgUpdateState", "rollapp.MsgTransferOwnership",
       "rollapp.MsgAddApp", "rollapp.MsgUpdateApp", "rollapp.MsgRemoveApp"] ∧
    rowsWith .self =
      ["sequencer.MsgCreateSequencer", "sequencer.MsgUpdateSequencerInformation",
       "sequencer.MsgUpdateRewardAddress", "sequencer.MsgUpdateWhitelistedRelayers",
       "sequencer.MsgUpdateOptInStatus", "sequencer.MsgKickProposer", "sequencer.MsgUnbond",
       "sequencer.MsgIncreaseBond", "sequencer.MsgDecreaseBond", "sponsorship.MsgRevokeVote"] := by
  decide

/-- every guard found is found before the first write (all classes at once) -/
theorem every_guard_is_first :
    ∀ e ∈ Gen.Guards.entries, e.guard ≠ .none → e.guardFirst = true := by
  decide

/-- governance-only, model level.  NOTE: this restates the definition of `passes` / `gstep` for the
    `.authority` / `.govRouted` kinds (a two-line unfolding); it carries no fact about the Go code by
    itself.  The facts about the code are the table theorems above (`authority_guard_table`,
    `guard_table_covers_every_rpc`, `guard_table_exact_counts`, `every_guard_is_first`) and the
    differential runs (the driver executes `gstep` on the regenerated rows against the real handlers).
    Statement: for every state and every signer other than the authority, a message whose table row
    is authority-guarded (or governance-routed) is rejected and nothing changes -/
theorem non_authority_rejected (s : Owners) (a : Attempt)
    (hg : a.entry.guard = .authority ∨ a.entry.guard = .govRouted) (hs : a.signer ≠ .authority) :
    gstep s a = (s, false) := by
  apply gstep_rejected
  cases hg with
  | inl h => simp [passes, h, hs]
  | inr h => simp [passes, h, hs]

/-- … in particular for every row of the regenerated table that is governance-only by declaration
    (this is where `authority_guard_table` is used: the load-bearing step) -/
theorem authority_messages_unreachable (s : Owners) (a : Attempt)
    (he : a.entry ∈ Gen.Guards.entries) (hf : a.entry.hasAuthorityField = true ∨ a.entry.govOnly = true)
    (hs : a.signer ≠ .authority) : gstep s a = (s, false) :=
  non_authority_rejected s a (.inl (authority_guard_table a.entry he hf).1) hs

/-- owner-only, model level.  NOTE: given `owner_guard_table` (whose first half restates how
    `ownerOnly` is derived) this unfolds `passes` / `gstep` for the `.owner` / `.self` kinds; the facts
    about the Go code are `owner_rows_exact`, `unguarded_rows_exact`, `every_guard_is_first` and the
    differential runs.  Statement: whoever is not the current owner of the targeted object is
    rejected, nothing changes -/
theorem non_owner_rejected (s : Owners) (a : Attempt)
    (he : a.entry ∈ Gen.Guards.entries) (ho : a.entry.ownerOnly = true)
    (hs : ∀ x, a.signer = .actor x → ownerOf s a.obj ≠ some x) : gstep s a = (s, false) := by
  apply gstep_rejected
  have hg := (owner_guard_table a.entry he ho).1
  cases hsg : a.signer with
  | authority => cases hg with
    | inl h => simp [passes, h, hsg]
    | inr h => simp [passes, h, hsg]
  | module m => cases hg with
    | inl h => simp [passes, h, hsg]
    | inr h => simp [passes, h, hsg]
  | actor x =>
    have hx := hs x hsg
    cases hg with
    | inl h =>
      simp only [passes, h, hsg]
      cases ho' : ownerOf s a.obj with
      | none => rfl
      | some o =>
        simp only [decide_eq_false_iff_not]
        intro e; exact hx (by rw [ho', e])
    | inr h =>
      simp only [passes, h, hsg]
      cases ho' : ownerOf s a.obj with
      | none => rfl
      | some o =>
        simp only [decide_eq_false_iff_not]
        intro e; exact hx (by rw [ho', e])

/-- contrapositive of `non_owner_rejected` (same caveat: a restatement of `passes`): an accepted
    owner-only message was signed by the current owner of its object -/
theorem accepted_owner_only_signed_by_owner (s : Owners) (a : Attempt)
    (he : a.entry ∈ Gen.Guards.entries) (ho : a.entry.ownerOnly = true)
    (hacc : (gstep s a).2 = true) : ∃ x, a.signer = .actor x ∧ ownerOf s a.obj = some x := by
  cases hsg : a.signer with
  | actor x =>
    refine ⟨x, rfl, ?_⟩
    cases hown : ownerOf s a.obj with
    | some o =>
      by_cases hox : o = x
      · rw [hox]
      · have := non_owner_rejected s a he ho (by
          intro y hy; rw [hsg] at hy; cases hy; rw [hown]; intro e; cases e; exact hox rfl)
        rw [this] at hacc; cases hacc
    | none =>
      have := non_owner_rejected s a he ho (by intro y _; rw [hown]; intro e; cases e)
      rw [this] at hacc; cases hacc
  | authority =>
    have := non_owner_rejected s a he ho (by intro y hy; rw [hsg] at hy; cases hy)
    rw [this] at hacc; cases hacc
  | module m =>
    have := non_owner_rejected s a he ho (by intro y hy; rw [hsg] at hy; cases hy)
    rw [this] at hacc; cases hacc

/-- is this attempt made by an outsider: a signer that is neither the authority nor one of `ins` -/
def outsider (ins : List Nat) (sg : Signer) : Prop :=
  sg ≠ .authority ∧ ∀ x, sg = .actor x → x ∉ ins

/-- a row of the table that the property calls privileged -/
def privilegedRow (e : GuardEntry) : Prop :=
  e ∈ Gen.Guards.entries ∧
    ((e.hasAuthorityField = true ∨ e.govOnly = true) ∨ e.ownerOnly = true ∨ e.guard = .govRouted)

/-- **outsiders_change_nothing** (all op sequences).  The induction over op lists is the content on the
    model side; per step it uses only the restatements above, so its tie to the Go code is again
    the table theorems (`authority_guard_table`, `owner_rows_exact`, `unguarded_rows_exact`,
    `guard_table_exact_counts`, `every_guard_is_first`) plus the differential runs.
    Statement: if every object is owned by an insider, then no
    sequence of privileged messages signed by outsiders — however long, in whatever order, with
    whatever contents — changes any owner; every single one is rejected. -/
theorem outsiders_change_nothing (ins : List Nat) :
    ∀ (ops : List Attempt) (s : Owners),
      (∀ o x, ownerOf s o = some x → x ∈ ins) →
      (∀ a ∈ ops, privilegedRow a.entry ∧ outsider ins a.signer) →
      grun s ops = s ∧ ∀ a ∈ ops, gstep s a = (s, false) := by
  intro ops
  induction ops with
  | nil => intro s _ _; exact ⟨rfl, fun a h => by cases h⟩
  | cons a as ih =>
    intro s hown hops
    have ⟨⟨he, hk⟩, hout⟩ := hops a (List.mem_cons_self)
    have hrej : gstep s a = (s, false) := by
      rcases hk with hk | hk | hk
      · exact authority_messages_unreachable s a he hk hout.1
      · exact non_owner_rejected s a he hk (fun x hx hown' => hout.2 x hx (hown _ _ hown'))
      · exact non_authority_rejected s a (.inr hk) hout.1
    have ih' := ih s hown (fun b hb => hops b (List.mem_cons_of_mem _ hb))
    refine ⟨?_, ?_⟩
    · rw [grun_cons, hrej]; exact ih'.1
    · intro b hb
      cases hb with
      | head => exact hrej
      | tail _ hb' => exact ih'.2 b hb'

/-- non-vacuity of the M-Guards statements: the owner passes, a stranger does not, ownership moves -/
example :
    let e : GuardEntry := { id := 0, isMsg := true, hasAuthorityField := false, govOnly := false, ownerOnly := true, guard := .owner, guardFirst := true }
    gstep [(0, 1)] { entry := e, obj := 0, signer := .actor 1, valid := true, newOwners := [(0, 2)] } = ([(0, 2)], true) ∧
    gstep [(0, 1)] { entry := e, obj := 0, signer := .actor 2, valid := true, newOwners := [(0, 2)] } = ([(0, 1)], false) ∧
    gstep [(0, 2)] { entry := e, obj := 0, signer := .actor 1, valid := true, newOwners := [(0, 1)] } = ([(0, 2)], false) := by
  decide

end DymVerif.C20
