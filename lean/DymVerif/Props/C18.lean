/-
  Props/C18 — exporting and re-importing genesis preserves the chain (x/rollapp + x/sequencer part,
  over M-Core; the other modules' genesis round trips live in their own packages).
-/
import DymVerif.Lemmas.CoreGenesis
namespace DymVerif.C18
open DymVerif DymVerif.Core

/-- **export ∘ import is the identity** on every M-Core state whose rollapp ids are pairwise distinct
    and whose notice queue is backed by the sequencer records — all components: rollapp records,
    every state info under its index, latest and latest-finalized indices, finalization queue,
    liveness events, sequencer liabilities, obsolete versions, sequencers, proposers, successors,
    notice queue, balances.  (Both hypotheses are invariants of reachable states: ids come from
    `createRollapp`, which refuses an existing id; notice-queue entries are written together with the
    sequencer's notice time.) -/
theorem export_import_identity (s : St) (hd : IdsDistinct s.ras) (hn : NqOk s) : reimport s = s :=
  reimport_id s hd hn

/-- hence the second export equals the first … -/
theorem export_import_export (s : St) (hd : IdsDistinct s.ras) (hn : NqOk s) :
    exportCore (reimport s) = exportCore s := by rw [reimport_id s hd hn]

/-- … and continuing with the same messages and blocks on both chains produces the same states
    (and therefore the same results and observations) -/
theorem continue_commutes (s : St) (hd : IdsDistinct s.ras) (hn : NqOk s) (ops : List Op) :
    ops.foldl (fun s o => (step s o).1) (reimport s) = ops.foldl (fun s o => (step s o).1) s := by
  rw [reimport_id s hd hn]

/-- the flat genesis keeps hub height, time and parameters (no hypotheses needed) -/
theorem reimport_clock (s : St) : (reimport s).h = s.h ∧ (reimport s).t = s.t ∧ (reimport s).p = s.p := ⟨rfl, rfl, rfl⟩

/-- bank-side components, sequencer records, queue, liabilities and events are carried verbatim -/
theorem reimport_flat_components (s : St) :
    (reimport s).seqs = s.seqs ∧ (reimport s).queue = s.queue ∧ (reimport s).seqH = s.seqH ∧
    (reimport s).lev = s.lev ∧ (reimport s).obsolete = s.obsolete ∧ (reimport s).bal = s.bal ∧
    (reimport s).modBal = s.modBal := ⟨rfl, rfl, rfl, rfl, rfl, rfl, rfl⟩

/-- without distinct ids the round trip is NOT the identity (two records under one id collapse to the
    first one's indices): the hypothesis is needed, and `createRollapp` is what provides it -/
theorem distinct_ids_needed :
    ∃ s : St, ¬ IdsDistinct s.ras ∧ reimport s ≠ s := by
  refine ⟨{ (init default) with ras := [{ (newRollapp 0 1 1) with lastFin := 1 }, newRollapp 0 1 1] }, ?_, ?_⟩
  · intro h; have := (List.pairwise_cons.1 h).1 (newRollapp 0 1 1) (by simp); exact this rfl
  · intro h
    have := congrArg (fun s => s.ras.map (·.lastFin)) h
    revert this; decide

end DymVerif.C18
