/-
  Props/C18 — exporting and re-importing genesis preserves the chain (x/rollapp + x/sequencer part,
  over M-Core; the other modules' genesis round trips live in their own packages).
-/
import DymVerif.Lemmas.CoreGenesis
import DymVerif.Lemmas.CoreRoles5
namespace DymVerif.C18
open DymVerif DymVerif.Core DymVerif.Core.Roles

/-- **export ∘ import is the identity** on every M-Core state whose rollapp ids are pairwise distinct
    and whose notice queue is backed by the sequencer records — all components: rollapp records,
    every state info under its index, latest and latest-finalized indices, finalization queue,
    liveness events, sequencer liabilities, obsolete versions, sequencers, proposers, successors,
    notice queue, balances.  (Both hypotheses are invariants of reachable states: ids come from
    `createRollapp`, which refuses an existing id; notice-queue entries are written together with the
    sequencer's notice time.) -/
theorem export_import_identity (s : St) (hd : IdsDistinct s.ras) (hn : NqOk s) : reimport s = s :=
  reimport_id s hd hn

/-- hence the second export equals the first … -/
theorem export_import_export (s : St) (hd : IdsDistinct s.ras) (hn : NqOk s) :
    exportCore (reimport s) = exportCore s := by rw [reimport_id s hd hn]

/-- … and continuing with the same messages and blocks on both chains produces the same states
    (and therefore the same results and observations) -/
theorem continue_commutes (s : St) (hd : IdsDistinct s.ras) (hn : NqOk s) (ops : List Op) :
    ops.foldl (fun s o => (step s o).1) (reimport s) = ops.foldl (fun s o => (step s o).1) s := by
  rw [reimport_id s hd hn]

/-- the flat genesis keeps hub height, time and parameters (no hypotheses needed) -/
theorem reimport_clock (s : St) : (reimport s).h = s.h ∧ (reimport s).t = s.t ∧ (reimport s).p = s.p := ⟨rfl, rfl, rfl⟩

/-- bank-side components, sequencer records, queue, liabilities and events are carried verbatim -/
theorem reimport_flat_components (s : St) :
    (reimport s).seqs = s.seqs ∧ (reimport s).queue = s.queue ∧ (reimport s).seqH = s.seqH ∧
    (reimport s).lev = s.lev ∧ (reimport s).obsolete = s.obsolete ∧ (reimport s).bal = s.bal ∧
    (reimport s).modBal = s.modBal := ⟨rfl, rfl, rfl, rfl, rfl, rfl, rfl⟩

/-- **Every reachable state round-trips**: for every valid parameter set (the notice period is
    validated to be positive) and every operation sequence, exporting the genesis of the reached
    state and importing it gives back exactly that state — so the imported chain re-exports the same
    genesis, answers every query identically and continues identically.  The two hypotheses of
    `export_import_identity` are discharged by the roles invariant (`run_roles`, C07). -/
theorem export_import_reachable (p : Params) (hp : 0 < p.noticePeriod) (ops : List Op) :
    reimport (run p ops) = run p ops := by
  have h := run_roles p hp ops
  apply reimport_id
  · exact h.core.uniq.ids
  · intro e he
    obtain ⟨q, r, hq, hn, _, _⟩ := h.core.nq e.1 e.2 he
    exact ⟨q, hq, hn⟩

/-- … and any continuation of the imported chain equals the continuation of the original -/
theorem continue_commutes_reachable (p : Params) (hp : 0 < p.noticePeriod) (ops more : List Op) :
    more.foldl (fun s o => (step s o).1) (reimport (run p ops)) = run p (ops ++ more) := by
  rw [export_import_reachable p hp ops]
  unfold run; rw [List.foldl_append]

/-- without distinct ids the round trip is NOT the identity (two records under one id collapse to the
    first one's indices): the hypothesis is needed, and `createRollapp` is what provides it -/
theorem distinct_ids_needed :
    ∃ s : St, ¬ IdsDistinct s.ras ∧ reimport s ≠ s := by
  refine ⟨{ (init default) with ras := [{ (newRollapp 0 1 1) with lastFin := 1 }, newRollapp 0 1 1] }, ?_, ?_⟩
  · intro h; have := (List.pairwise_cons.1 h).1 (newRollapp 0 1 1) (by simp); exact this rfl
  · intro h
    have := congrArg (fun s => s.ras.map (·.lastFin)) h
    revert this; decide

end DymVerif.C18
