/-
  Props/C18 — exporting and re-importing genesis preserves the chain (M-Core part; in progress).
-/
import DymVerif.Model.CoreGenesis
namespace DymVerif.C18
open DymVerif DymVerif.Core

/-- the flat genesis keeps hub height, time and parameters -/
theorem reimport_clock (s : St) : (reimport s).h = s.h ∧ (reimport s).t = s.t ∧ (reimport s).p = s.p := ⟨rfl, rfl, rfl⟩

/-- bank-side components, sequencer records, queue, liabilities and events are carried verbatim -/
theorem reimport_flat_components (s : St) :
    (reimport s).seqs = s.seqs ∧ (reimport s).queue = s.queue ∧ (reimport s).seqH = s.seqH ∧
    (reimport s).lev = s.lev ∧ (reimport s).obsolete = s.obsolete ∧ (reimport s).bal = s.bal ∧
    (reimport s).modBal = s.modBal := ⟨rfl, rfl, rfl, rfl, rfl, rfl, rfl⟩

end DymVerif.C18
