/-
  Props/C14Refs — C14 with the lock-reference indexes of x/lockup as STATE (Model/LockupRefs) and
  with blocked bank recipients.  Property theorems only; every statement is for all parameter values,
  all initial balances, every set `B` of blocked recipients (module accounts) and all histories of
  messages, blocks, restarts (ExportGenesis → InitGenesis → InitializeAllLocks → setLockAndAddLockRefs)
  and parameter changes whose messages are signed by accounts that are not blocked (`SignerOk`: no key
  signs for a module account; the correspondence run tries every way a user has to make a module
  account own a lock and records the refusals).

    refs_consistent            every reference family is exactly the image of the lock table
    refs_are_rebuilt_image     … as an equality: the store is the set rebuilt from the lock table
    refs_machine_is_lockup     the machine that reads and writes the references IS M-Lockup
    no_reference_fault         no "lock with same ID exist", no reference to a lock that is gone,
                               no refused payout — for any operation of any history
    hasLock_by_refs / matured_by_refs
                               the two index lookups the state machine depends on equal the list-based
                               definitions of Model/Lockup (`sameLock`, `matured`)
    endBlock_panics_iff_blocked_owner / lock_owners_never_blocked / endBlock_never_panics_with_blocked_recipients
                               the former ASSUMPTION "lock owners are not blocked recipients" is a
                               theorem for every history; a hand-written genesis can violate it
                               (`handwritten_genesis_blocked_owner_counterexample`)
-/
import DymVerif.Props.C14Chain
import DymVerif.Lemmas.LockupRefsEnd
namespace DymVerif.C14
open DymVerif DymVerif.Lockup DymVerif.Genesis

/-- all messages of a history are signed by accounts the bank does not block -/
def Signed (B : Actor → Bool) (ops : List COp) : Prop := ∀ op ∈ ops, SignerOk B op

/-! ## every reachable state -/

theorem reachable_rcinv (B : Actor → Bool) (p : Params) (bal : Actor → Denom → Nat) (now height : Nat)
    (ops : List COp) (hs : Signed B ops) : RCInv B (rcrun B (rcinit p bal now height) ops) :=
  (rcrun_sim ops (rcinit_rcinv B p bal now height) hs).2

/-- **refs_consistent**: after any history (restarts included) a reference `(queue, family, account,
    denom, duration-or-time key, lock id)` is in the store iff it is one of the references a lock of
    the lock table must have: the four duration references in the not-unlocking queue for a lock that
    is not unlocking, all eight (duration and end time) in the unlocking queue for one that is; and
    the store is in key order without duplicates -/
theorem refs_consistent (B : Actor → Bool) (p : Params) (bal : Actor → Denom → Nat) (now height : Nat)
    (ops : List COp) (hs : Signed B ops) (r : RefK) :
    (r, ()) ∈ (rcrun B (rcinit p bal now height) ops).refs ↔
      ∃ l ∈ (rcrun B (rcinit p bal now height) ops).c.s.locks, r ∈ lockRefs l := by
  rw [(reachable_rcinv B p bal now height ops hs).refs.mem (r, ())]
  exact mem_refsOf

theorem refs_sorted (B : Actor → Bool) (p : Params) (bal : Actor → Denom → Nat) (now height : Nat)
    (ops : List COp) (hs : Signed B ops) : Sorted ltRef (rcrun B (rcinit p bal now height) ops).refs :=
  (reachable_rcinv B p bal now height ops hs).refs.sorted

/-- **refs_consistent as an equality**: the store is the one a rebuild from the lock table gives -/
theorem refs_are_rebuilt_image (B : Actor → Bool) (p : Params) (bal : Actor → Denom → Nat) (now height : Nat)
    (ops : List COp) (hs : Signed B ops) :
    (refsOf (rcrun B (rcinit p bal now height) ops).c.s.locks).foldl (fun s r => kvSet ltRef r () s) []
      = (rcrun B (rcinit p bal now height) ops).refs := by
  have h := (reachable_rcinv B p bal now height ops hs).refs
  apply setRebuild_eq soRef (kf := fun r : RefK => r) h.sorted
  intro e
  rw [h.mem e]
  constructor
  · intro he; exact ⟨e.1, he, rfl⟩
  · rintro ⟨x, hx, rfl⟩; exact hx

/-- **the reference-level machine is M-Lockup**: same lock table, balances, accumulation store,
    parameters after any history, so every theorem of Props/C14 and Props/C14Chain holds of it -/
theorem refs_machine_is_lockup (B : Actor → Bool) (p : Params) (bal : Actor → Denom → Nat) (now height : Nat)
    (ops : List COp) (hs : Signed B ops) :
    (rcrun B (rcinit p bal now height) ops).c = crun (cinit p bal now height) ops :=
  (rcrun_sim ops (rcinit_rcinv B p bal now height) hs).1

/-- **no reference fault, ever**: in a reachable state no operation meets an existing reference
    (`addLockRefByKey`'s error), a reference whose lock is gone (`getLocksFromIterator`'s panic) or a
    refused payout; it answers what M-Lockup answers -/
theorem no_reference_fault (B : Actor → Bool) (p : Params) (bal : Actor → Denom → Nat) (now height : Nat)
    (ops : List COp) (hs : Signed B ops) (op : COp) (ho : SignerOk B op) :
    (rcstep B (rcrun B (rcinit p bal now height) ops) op).2 =
      .out (cstep (rcrun B (rcinit p bal now height) ops).c op).2 :=
  (rcstep_sim (reachable_rcinv B p bal now height ops hs) op ho).2.1

/-- a restart rebuilds the reference store of the lock table it imports, whatever the history -/
theorem restart_never_clashes (B : Actor → Bool) (p : Params) (bal : Actor → Denom → Nat) (now height : Nat)
    (ops : List COp) (hs : Signed B ops) :
    (restartR (rcrun B (rcinit p bal now height) ops)).2 = .out (.ok 0) ∧
    RCInv B (restartR (rcrun B (rcinit p bal now height) ops)).1 :=
  ⟨(restartR_good (reachable_rcinv B p bal now height ops hs)).2.1,
   (restartR_good (reachable_rcinv B p bal now height ops hs)).2.2⟩

/-! ## the index lookups are the list lookups -/

/-- **`HasLock` / `AddToExistingLock`** (walk of the account-denom-duration references of the
    not-unlocking queue, `GetLockByID` of every id) = the locks satisfying `sameLock`, in id order -/
theorem hasLock_by_refs (B : Actor → Bool) (p : Params) (bal : Actor → Denom → Nat) (now height : Nat)
    (ops : List COp) (hs : Signed B ops) (a : Actor) (d : Denom) (dur : Nat) :
    accountLockedDurationNotUnlockingOnly
        ⟨(rcrun B (rcinit p bal now height) ops).c.s, (rcrun B (rcinit p bal now height) ops).refs⟩ a d dur
      = some ((rcrun B (rcinit p bal now height) ops).c.s.locks.filter (sameLock a d dur)) :=
  sameLock_lookup (reachable_rcinv B p bal now height ops hs) a d dur

/-- **the EndBlocker's iterator** (`LockIteratorBeforeTime(now)`: end-time references of the unlocking
    queue with time key <= now) yields the id of a lock iff the lock is `matured` -/
theorem matured_by_refs (B : Actor → Bool) (p : Params) (bal : Actor → Denom → Nat) (now height : Nat)
    (ops : List COp) (hs : Signed B ops) (l : Lockup.Lock)
    (hl : l ∈ (rcrun B (rcinit p bal now height) ops).c.s.locks) :
    (maturedWalk (rcrun B (rcinit p bal now height) ops).refs (rcrun B (rcinit p bal now height) ops).c.s.now).contains l.id
      = matured (rcrun B (rcinit p bal now height) ops).c.s.now l :=
  matured_lookup (reachable_rcinv B p bal now height ops hs) hl

/-- every walk of the store yields exactly the ids of the locks that have a reference in its range,
    and `getLocksFromIterator` finds each of them (account queries, export walk, …) -/
theorem every_walk_finds_its_locks (B : Actor → Bool) (p : Params) (bal : Actor → Denom → Nat) (now height : Nat)
    (ops : List COp) (hs : Signed B ops) (q : RefK → Bool) :
    (∀ id, id ∈ walk (rcrun B (rcinit p bal now height) ops).refs q ↔
        ∃ l ∈ (rcrun B (rcinit p bal now height) ops).c.s.locks, l.id = id ∧ ∃ r ∈ lockRefs l, q r = true) ∧
    ∃ ls, getLocksFromIterator (rcrun B (rcinit p bal now height) ops).c.s.locks
            (walk (rcrun B (rcinit p bal now height) ops).refs q) = some ls ∧
          ls.map (·.id) = walk (rcrun B (rcinit p bal now height) ops).refs q := by
  have h := reachable_rcinv B p bal now height ops hs
  refine ⟨fun id => mem_walk_iff h.refs q id, ?_⟩
  obtain ⟨ls, h1, h2, _⟩ := walk_total h.refs h.inv.nodup q
  exact ⟨ls, h1, h2⟩

/-! ## blocked recipients: the EndBlocker's only way to panic, and why it is closed -/

/-- **the EndBlocker panics iff a matured lock's owner is a blocked bank recipient** (from the
    auto-withdraw height on) — in any state whose store is consistent, whoever owns the locks -/
theorem endBlock_panics_iff_blocked_owner (B : Actor → Bool) {rs : RState} (h : RInv0 rs) :
    (endBlockR B rs).2 = .out .panic ↔
      minHeightAutoWithdraw ≤ rs.s.height ∧ ∃ l ∈ rs.s.locks, matured rs.s.now l = true ∧ B l.owner = true :=
  endBlockR_panics_iff B h

/-- **lock owners are never blocked recipients**: a lock is created only by its owner's own
    MsgLockTokens or split off an own lock; a restart re-creates the exported locks with their owners -/
theorem lock_owners_never_blocked (B : Actor → Bool) (p : Params) (bal : Actor → Denom → Nat) (now height : Nat)
    (ops : List COp) (hs : Signed B ops) :
    ∀ l ∈ (rcrun B (rcinit p bal now height) ops).c.s.locks, B l.owner = false :=
  (reachable_rcinv B p bal now height ops hs).owners

/-- **the EndBlocker cannot panic** after any history, with blocked recipients in the bank: the
    assumption of Props/C14 `endBlock_never_panics` discharged -/
theorem endBlock_never_panics_with_blocked_recipients (B : Actor → Bool) (p : Params) (bal : Actor → Denom → Nat) (now height : Nat)
    (ops : List COp) (hs : Signed B ops) :
    (rcstep B (rcrun B (rcinit p bal now height) ops) (.msg .endBlock)).2 = .out (.ok 0) := by
  rw [no_reference_fault B p bal now height ops hs (.msg .endBlock) (fun _ h => by cases h)]
  simp only [cstep]
  rw [endBlock_never_panics _ (reachable_rcinv B p bal now height ops hs).inv]

/-! ## non-vacuity and counterexamples -/

/-- actor 9 is a blocked recipient (a module account) -/
def bMod : Actor → Bool := fun a => a == 9

def rcBig : RChain := ⟨cBig, []⟩

example : RCInv bMod rcBig := rcinit_rcinv _ _ _ _ _
example : Signed bMod opsBig := by
  intro op hop
  simp only [opsBig, List.mem_cons, List.mem_nil_iff, or_false] at hop
  rcases hop with rfl | rfl | rfl | rfl | rfl <;> simp [SignerOk, opSigner, bMod]

/-- two not-unlocking locks, one with a split part unlocking: 4 + 4 + 4 + 8 references, and the same
    store after the restart -/
example : ((rcrun bMod rcBig opsBig.dropLast).refs.length, (rcrun bMod rcBig opsBig).refs.length) = (20, 20) := by decide
example : ((rcrun bMod rcBig opsBig.dropLast).refs.map (·.1)) = ((rcrun bMod rcBig opsBig).refs.map (·.1)) := by decide
example : walk (rcrun bMod rcBig opsBig).refs (qAll (queueOf true) fTime 0 0) = [4] := by decide
example : walk (rcrun bMod rcBig opsBig).refs (qAll (queueOf false) fDur 0 0) = [1, 2, 3] := by decide
example : maturedWalk (rcrun bMod rcBig (opsBig ++ [.msg (.beginBlock 10)])).refs 10 = [4] := by decide
example : (rcstep bMod (rcrun bMod rcBig (opsBig ++ [.msg (.beginBlock 10)])) (.msg .endBlock)).2 = .out (.ok 0) := by decide

/-- **what holds for a genesis import**: `InitGenesis` does not look at the owners.  A hand-written
    genesis (not the export of a reachable state) with an unlocking lock owned by a blocked recipient
    imports without error, the store is consistent — and the EndBlocker panics when the lock is due -/
def rsHand : RState :=
  ⟨{ locks := [⟨1, 9, 10, some 10, 0, 50, some 0⟩], lastId := 1, acc := [⟨0, 10, 50⟩],
     bal := fun _ _ => 0, modBal := fun d => if d = 0 then 50 else 0, now := 10, height := 6 },
   (importRefs [⟨1, 9, 10, some 10, 0, 50, some 0⟩] []).getD []⟩

theorem handwritten_genesis_blocked_owner_counterexample :
    (importRefs [⟨1, 9, 10, some 10, 0, 50, some 0⟩] []).isSome = true ∧ rsHand.refs.length = 8 ∧
    (endBlockR bMod rsHand).2 = .out .panic ∧ (endBlockR (fun _ => false) rsHand).2 = .out (.ok 0) := by
  decide

end DymVerif.C14
