/-
  Props/C10Closed — C10, the clauses about ALL channels over a rollapp's canonical client and about
  the whole history:

  * before the handshake of `r` has completed nothing can be sent to, and nothing is credited from, ANY
    channel over `r`'s canonical client — the recorded canonical channel (where only the matching
    handshake packet is accepted) and every other channel over that client, whether it opened before a
    canonical channel was recorded (handshake started from the rollapp, or `MsgChannelOpenAck` nested
    in `authz.MsgExec`: the ante hook never saw it) or next to one; on such a channel nothing flows
    afterwards either;
  * frame: the bridge part of a rollapp record (proof height, credited balances, metadata flag,
    handshake counter) changes in one step only: the packet that completes the handshake;
  * hence an open bridge stays open (ordinary transfers flow from then on, on every history), the
    total of the credited vouchers is the sum of the genesis accounts registered at the time of the
    handshake and stays so, and the canonical channel is recorded at most once.
-/
import DymVerif.Props.C10
import DymVerif.Lemmas.GBFrame
namespace DymVerif.Props.C10
open DymVerif.GB

/-- `c` is a channel over the canonical client of rollapp `r` (the recorded canonical channel or not) -/
def OverClient (s : St) (c r : Nat) : Prop :=
  ∃ c' k, s.chans.find? (·.1 == c) = some (c', k) ∧ (k = ChanKind.canon r ∨ k = ChanKind.second r)

theorem canonChan_overClient {s : St} {c r : Nat} (h : CanonChan s c r) : OverClient s c r := by
  obtain ⟨c', h⟩ := h
  exact ⟨c', _, h, Or.inl rfl⟩

/-- **second_channel_never_flows** — a channel over `r`'s canonical client that is not its recorded
    canonical channel carries nothing, in any state: the hub's transfer is refused, every incoming
    packet gets an error acknowledgement (`noChannel`: no canonical channel is recorded — today an
    internal error of `GetRollappByPortChan`, NOT "not a rollapp"; `notCanonical`: another channel is
    recorded; or, while a hard fork has the canonical client frozen, ibc core refuses the packet message
    itself), and the state is unchanged. -/
theorem second_channel_never_flows {s : St} {c c' r : Nat} {ra : Ra}
    (hc : s.chans.find? (·.1 == c) = some (c', ChanKind.second r)) (hg : getRa s r = some ra) :
    step s (.send c) = (s, .err) ∧
    ∀ ph p, step s (.recv c ph p) =
      (s, if ra.frozen then .err else .rerr (if ra.chan.isNone then .noChannel else .notCanonical)) := by
  refine ⟨by simp [step, stepSend, hc], ?_⟩
  intro ph p
  simp only [step, stepRecv, hc, hg]
  repeat' split
  all_goals simp_all

/-- **closed_all_channels** — while the handshake of `r` has not completed: a transfer from the hub
    over ANY channel of `r`'s canonical client is refused without any change, and a packet arriving on
    any such channel either is the matching handshake packet on the recorded canonical channel
    (success acknowledgement) or gets an error acknowledgement and leaves the whole state — credited
    balances included — unchanged.  Nothing is passed on to the transfer stack. -/
theorem closed_all_channels {s : St} {c r : Nat} {ra : Ra} (hs : Reachable s) (hc : OverClient s c r)
    (hg : getRa s r = some ra) (h0 : ra.nOpen = 0) :
    step s (.send c) = (s, .err) ∧
    ∀ ph p, ((step s (.recv c ph p)).2 = .ok ∧ CanonChan s c r ∧ ∃ d, p = .gb d ∧ Matches d ra.gi) ∨
            (∃ e, step s (.recv c ph p) = (s, .rerr e)) := by
  obtain ⟨c', k, hf, hk | hk⟩ := hc
  · subst hk
    have hcc : CanonChan s c r := ⟨c', hf⟩
    refine ⟨closed_blocks_outgoing hs hcc hg h0, ?_⟩
    intro ph p
    rcases first_packet_must_be_handshake hs hcc hg h0 ph p with ⟨h1, h2⟩ | h
    · exact Or.inl ⟨h1, hcc, h2⟩
    · exact Or.inr h
  · subst hk
    obtain ⟨h1, h2⟩ := second_channel_never_flows hf hg
    -- a closed bridge has never been forked: its canonical client is not frozen
    have hnf : ra.frozen = false := by
      cases hfz : ra.frozen
      · rfl
      · exact absurd ((closed_iff hs hg).1 h0) (((reachable_inv hs).get hg).frz hfz)
    exact ⟨h1, fun ph p => Or.inr ⟨_, by rw [h2 ph p, hnf]; rfl⟩⟩

/-- … in particular with no canonical channel recorded at all (every channel over the client opened
    behind the ante hook's back): nothing is accepted, whatever the packet -/
theorem no_canonical_channel_nothing_accepted {s : St} {c c' r : Nat} {ra : Ra}
    (hc : s.chans.find? (·.1 == c) = some (c', ChanKind.second r)) (hg : getRa s r = some ra)
    (hn : ra.chan = none) (hf : ra.frozen = false) (ph : Nat) (p : Pkt) : step s (.recv c ph p) = (s, .rerr .noChannel) := by
  rw [(second_channel_never_flows hc hg).2 ph p, hn, hf]; rfl

-- ------------------------------------------------------------------------------------------------ frame

/-- **bridge_state_step** — one op leaves the proof height, the credited balances, the metadata flag
    and the handshake counter of every rollapp as they are, unless it is a packet on the rollapp's
    recorded canonical channel, received while the bridge is closed (`tph = 0`) and answered with a
    success acknowledgement: then the record is what the handshake writes — or a governance registration
    of the denom metadata outside the handshake (`premd`), which sets the metadata flag only. -/
theorem bridge_state_step (s : St) (op : Op) (r : Nat) (ra : Ra) (hg : getRa s r = some ra) :
    ∃ ra', getRa (step s op).1 r = some ra' ∧
      ((ra'.tph = ra.tph ∧ ra'.bal = ra.bal ∧ ra'.md = ra.md ∧ ra'.nOpen = ra.nOpen) ∨
       (∃ c ph p, op = .recv c ph p ∧ CanonChan s c r ∧ ra.tph = 0 ∧ (step s op).2 = .ok ∧ ra' = (handshake ra ph p).1) ∨
       (op = .premd r ∧ ra.md = false ∧ ra'.md = true ∧ ra'.tph = ra.tph ∧ ra'.bal = ra.bal ∧ ra'.nOpen = ra.nOpen)) := by
  obtain ⟨ra', hg', hf, _, _⟩ := step_frame s op r ra hg
  refine ⟨ra', hg', ?_⟩
  rcases hf with hf | ⟨c, ph, p, c', hop, hc, h0, _, hok, hra⟩ | ⟨hop, h0, h1, h2, h3, h4⟩
  · left
    simp only [Ra.bridge, Prod.mk.injEq] at hf
    exact hf
  · exact Or.inr (Or.inl ⟨c, ph, p, hop, ⟨c', hc⟩, h0, hok, hra⟩)
  · exact Or.inr (Or.inr ⟨hop, h0, h4, h1, h2, h3⟩)

/-- **canonical_channel_recorded_once** — the recorded canonical channel of a rollapp never changes once
    it is set: an op leaves it as it is, or there was none and the op opens a channel (`chopen`), or the
    op is the atomic `link` of a rollapp that had no canonical client. -/
theorem canonical_channel_recorded_once (s : St) (op : Op) (r : Nat) (ra : Ra) (hg : getRa s r = some ra) :
    ∃ ra', getRa (step s op).1 r = some ra' ∧
      (ra'.chan = ra.chan ∨ (ra.chan = none ∧ ∃ via, op = .chopen r via) ∨ op = .link r) := by
  obtain ⟨ra', hg', _, hc, _⟩ := step_frame s op r ra hg
  exact ⟨ra', hg', hc⟩

/-- a top-level `MsgChannelOpenAck` for a second channel is refused when a canonical channel is recorded
    (the channel identifier is spent, nothing else changes) -/
theorem chopen_ack_refused_when_recorded {s : St} {r : Nat} {ra : Ra} (hg : getRa s r = some ra)
    (hl : ra.linked = true) (hf : ra.frozen = false) (hc : ra.chan.isSome = true) :
    step s (.chopen r 0) = ({ s with nextChan := s.nextChan + 1 }, .err) := by
  simp [step, stepChopen, hg, hl, hf, hc]

-- ------------------------------------------------------------------------------------------------ monotonicity

/-- **opened_stays_open** — once the handshake of `r` has completed, no op sequence whatsoever changes
    its proof height, credited balances or handshake counter, and registered metadata stays registered. -/
theorem opened_stays_open {s : St} {r : Nat} {ra : Ra} (hg : getRa s r = some ra) (h1 : ra.tph ≠ 0) (ops : List Op) :
    ∃ ra', getRa (run s ops) r = some ra' ∧ ra'.tph = ra.tph ∧ ra'.bal = ra.bal ∧ ra'.nOpen = ra.nOpen ∧
      (ra.md = true → ra'.md = true) :=
  run_opened s ops r ra hg h1

/-- **open_flows_forever** — … so from the completed handshake on, after any further history, the genesis
    bridge never stands in the way of an ordinary transfer from the hub over the canonical channel again:
    the transfer goes out unless — and exactly when — the canonical client is frozen at that moment, which
    only a hard fork of the rollapp brings about and the rollapp's next state update ends
    (`fork_freezes`, `update_reopens`, `frozen_until_update` in Props/C10Fork). -/
theorem open_flows_forever {s : St} {c r : Nat} {ra : Ra} (hs : Reachable s) (hc : CanonChan s c r)
    (hg : getRa s r = some ra) (h1 : ra.nOpen ≠ 0) (ops : List Op) :
    ∃ ra', getRa (run s ops) r = some ra' ∧ ra'.tph = ra.tph ∧
      step (run s ops) (.send c) = (run s ops, if ra'.frozen then .err else .ok) := by
  obtain ⟨c', hc⟩ := hc
  have ht : ra.tph ≠ 0 := fun h => h1 ((closed_iff hs hg).2 h)
  obtain ⟨ra', hg', ht', _⟩ := opened_stays_open hg ht ops
  have hc' := run_find s ops c _ hc
  have : ra'.tph ≠ 0 := by rw [ht']; exact ht
  refine ⟨ra', hg', ht', ?_⟩
  cases hf : ra'.frozen <;> simp [step, stepSend, hc', hg', this, hf]

/-- … and every further packet on the canonical channel is passed on (or, under a frozen client, refused by
    ibc core), never handled by the genesis bridge again, after any further history -/
theorem open_never_rehandshakes {s : St} {c r : Nat} {ra : Ra} (hs : Reachable s) (hc : CanonChan s c r)
    (hg : getRa s r = some ra) (h1 : ra.nOpen ≠ 0) (ops : List Op) (ph : Nat) (p : Pkt) :
    ∃ ra', getRa (run s ops) r = some ra' ∧
      step (run s ops) (.recv c ph p) = (run s ops, if ra'.frozen then .err else lowerRollapp p) := by
  obtain ⟨c', hc⟩ := hc
  have ht : ra.tph ≠ 0 := fun h => h1 ((closed_iff hs hg).2 h)
  obtain ⟨ra', hg', ht', _⟩ := opened_stays_open hg ht ops
  have hc' := run_find s ops c _ hc
  have : ra'.tph ≠ 0 := by rw [ht']; exact ht
  refine ⟨ra', hg', ?_⟩
  cases hf : ra'.frozen <;> simp [step, stepRecv, hc', hg', this, hf]

/-- **total_eq_sum** — the handshake credits, in total, exactly the sum of the genesis accounts registered
    at that moment (the voucher supply of the rollapp's denom on the hub), and no later op changes that
    total. -/
theorem total_eq_sum {s : St} {c r : Nat} {ra : Ra} (hs : Reachable s) (hc : CanonChan s c r)
    (hg : getRa s r = some ra) (h0 : ra.nOpen = 0) (ph : Nat) (hph : 0 < ph) (p : Pkt)
    (hok : (step s (.recv c ph p)).2 = .ok) (ops : List Op) :
    ∃ ra', getRa (run (step s (.recv c ph p)).1 ops) r = some ra' ∧
      totalBal ra'.bal = sumAccs ra.gi.accounts ∧ ra'.tph = ph ∧ ra'.nOpen = 1 := by
  rcases recv_closed_cases hs hc hg h0 ph p with ⟨h1, e, he⟩ | ⟨h1, d, bal', hp, hv, hcr, hra, _⟩
  · rw [h1, he] at hok; exact absurd hok (by simp)
  · have hi := (reachable_inv hs).get hg
    have hm := validate_matches hi.wf hv
    have ht := (closed_iff hs hg).1 h0
    obtain ⟨hbal, _, _, _⟩ := hi.closed ht
    have hid : (handshake ra ph p).1.id = ra.id := by rw [hra]
    have hrid : ra.id = r := (getRa_mem hg).2
    have hget : getRa (step s (.recv c ph p)).1 r = some (handshake ra ph p).1 := by
      rw [h1]
      have := getRa_setRa_self (s := s) (x := (handshake ra ph p).1) (ra := ra) (by rw [hid, hrid]; exact hg)
      rw [hid, hrid] at this
      exact this
    rw [hbal] at hcr
    obtain ⟨_, htot⟩ := credit_total d.gi.accounts [] bal' (by simp) hcr
    have htph : (handshake ra ph p).1.tph ≠ 0 := by rw [hra]; simp only; omega
    obtain ⟨ra', hg', h1', h2', h4', _⟩ := opened_stays_open hget htph ops
    refine ⟨ra', hg', ?_, ?_, ?_⟩
    · rw [h2', hra]
      simp only
      rw [htot, sumAccs_perm hm.2.2.2.2.1]
      simp [totalBal]
    · rw [h1', hra]
    · rw [h4', hra]; simp only; omega

-- ------------------------------------------------------------------------------------------------ pre-registered metadata

/-- **preregistered_metadata_blocks_handshake** — when bank metadata of the rollapp's IBC denom is
    registered before the handshake (governance `CreateDenomMetadataProposal`; `premd`), the handshake's
    own `CreateDenomMetadata` fails: every packet on the closed canonical channel of a rollapp with a
    native denom gets an error acknowledgement and the state stays as it is — the bridge cannot open
    while the registered genesis info keeps its native denom. -/
theorem preregistered_metadata_blocks_handshake {s : St} {c r : Nat} {ra : Ra} (hs : Reachable s) (hc : CanonChan s c r)
    (hg : getRa s r = some ra) (h0 : ra.nOpen = 0) (hmd : ra.md = true) (hd : ra.gi.denom.isSet = true)
    (ph : Nat) (p : Pkt) : ∃ e, step s (.recv c ph p) = (s, .rerr e) := by
  rcases recv_closed_cases hs hc hg h0 ph p with ⟨h1, e, he⟩ | ⟨_, d, _, hp, hv, _, hra, _⟩
  · exact ⟨e, by rw [h1, he]⟩
  · exfalso
    have hm := validate_matches ((reachable_inv hs).get hg).wf hv
    have hhs : (handshake ra ph p).2 = .ok := by
      apply Classical.byContradiction
      intro hne
      have h' := handshake_err_unchanged hne
      rw [hra] at h'
      have h'' := congrArg Ra.nOpen h'
      simp at h''
    rw [hp] at hhs
    have := handshake_ok_md hhs (by rw [hm.2.2.1]; exact hd)
    rw [hmd] at this
    exact absurd this (by simp)

/-- the registration itself is possible only once, needs a recorded canonical channel and a native denom,
    and leaves the bridge closed -/
theorem premd_accepted {s : St} {r : Nat} (hok : (step s (.premd r)).2 = .ok) :
    ∃ ra, getRa s r = some ra ∧ ra.chan.isSome = true ∧ ra.gi.denom.isSet = true ∧ ra.md = false ∧
      step s (.premd r) = (setRa s { ra with md := true }, .ok) := by
  revert hok
  simp only [step, stepPremd]
  cases hg : getRa s r with
  | none => intro h; exact absurd h (by simp)
  | some ra =>
    simp only
    repeat' split
    all_goals intro h
    all_goals first
      | (simp at h; done)
      | (refine ⟨ra, rfl, ?_, ?_, ?_, rfl⟩ <;> (cases hch : ra.chan <;> simp_all))

-- ------------------------------------------------------------------------------------------------ non-vacuity

/-- metadata registered by governance between the channel opening and the handshake: the matching packet is refused
    with `mdExists` and the bridge stays closed; without the registration the same packet opens it -/
example : (step (run init (ops0 ++ [.premd 0])) (.recv 0 7 pkt0)).2 = .rerr .mdExists ∧
    (step (run init ops0) (.recv 0 7 pkt0)).2 = .ok ∧ (step (run init ops0) (.premd 0)).2 = .ok ∧
    (step (run init (ops0 ++ [.premd 0])) (.premd 0)).2 = .err ∧ (step (run init [.create 0 (some gi0), .seq 0, .canon 0]) (.premd 0)).2 = .err := by decide

/-- launch, canonical client, then a channel opened from the rollapp side (Try/Confirm) and one through a
    nested `MsgChannelOpenAck`: two open channels over the canonical client, no canonical channel recorded -/
def opsNoChan : List Op := [.create 0 (some gi0), .seq 0, .canon 0, .chopen 0 2, .chopen 0 1]
theorem opsNoChan_ok : AllPhOk opsNoChan := by
  intro op hop; simp [opsNoChan] at hop; rcases hop with rfl | rfl | rfl | rfl | rfl <;> trivial

example : Reachable (run init opsNoChan) ∧ OverClient (run init opsNoChan) 0 0 ∧ OverClient (run init opsNoChan) 1 0 ∧
    (getRa (run init opsNoChan) 0).map (fun ra => (ra.linked, ra.chan, ra.nOpen)) = some (true, none, 0) :=
  ⟨⟨opsNoChan, opsNoChan_ok, rfl⟩, ⟨0, _, by decide, Or.inr rfl⟩, ⟨1, _, by decide, Or.inr rfl⟩, by decide⟩
/-- nothing goes out, an ordinary transfer and the matching handshake packet are both refused with `noChannel` -/
example : (step (run init opsNoChan) (.send 0)).2 = .err ∧ (step (run init opsNoChan) (.send 1)).2 = .err := by decide
example : (step (run init opsNoChan) (.recv 0 7 (.ft ⟨1, 5, true, 1, true⟩))).2 = .rerr .noChannel := by decide
example : (step (run init opsNoChan) (.recv 1 7 pkt0)).2 = .rerr .noChannel := by decide
/-- the top-level ack then records channel 2 as canonical; the earlier channels stay shut (`notCanonical`), the handshake
    runs on channel 2 only, and afterwards transfers flow on 2 and still not on 0 / 1 -/
example : (getRa (run init (opsNoChan ++ [.chopen 0 0])) 0).map (·.chan) = some (some 2) := by decide
example : (step (run init (opsNoChan ++ [.chopen 0 0])) (.recv 0 7 pkt0)).2 = .rerr .notCanonical := by decide
example : (step (run init (opsNoChan ++ [.chopen 0 0])) (.send 2)).2 = .err := by decide
example : (step (run init (opsNoChan ++ [.chopen 0 0])) (.recv 2 7 pkt0)).2 = .ok := by decide
example : (step (run init (opsNoChan ++ [.chopen 0 0, .recv 2 7 pkt0])) (.send 2)).2 = .ok ∧
    (step (run init (opsNoChan ++ [.chopen 0 0, .recv 2 7 pkt0])) (.send 0)).2 = .err ∧
    (step (run init (opsNoChan ++ [.chopen 0 0, .recv 2 7 pkt0])) (.recv 1 8 (.ft ⟨1, 5, true, 1, true⟩))).2 = .rerr .notCanonical := by decide
/-- a second top-level ack is refused and spends the identifier: the next channel is 4 -/
example : (step (run init (opsNoChan ++ [.chopen 0 0])) (.chopen 0 0)).2 = .err ∧
    (run init (opsNoChan ++ [.chopen 0 0, .chopen 0 0, .chopen 0 2])).chans.map (·.1) = [0, 1, 2, 4] := by decide
/-- the total credited by `pkt0` is the registered 30, also after more ops -/
example : (getRa (run init (opsNoChan ++ [.chopen 0 0, .recv 2 7 pkt0, .recv 2 8 pkt0, .tick 5, .chopen 0 1])) 0).map
    (fun ra => (totalBal ra.bal, ra.tph, ra.nOpen)) = some (30, 7, 1) := by decide

end DymVerif.Props.C10
