import DymVerif.Model.LC
namespace DymVerif.Props.C09
end DymVerif.Props.C09
