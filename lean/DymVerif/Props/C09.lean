/-
  Props/C09 — the canonical light client always agrees with the settled rollapp state.

  All theorems are about M-LC (`Model/LC.lean`, layered on M-Core).  `Reachable s` = `s` is reached from
  the empty state by an arbitrary op sequence.  Where the current code violates a clause, the full
  statement is kept in a comment, the `_partial` theorem states it under the extra hypothesis the code
  needs and the `_counterexample` is a concrete witness evaluated by `decide` (each is reproduced on
  the real code by the harness monitor named next to it).  One clause is in that position: the canonical channel.
-/
import DymVerif.Lemmas.LCGood
import DymVerif.Lemmas.LCNext
namespace DymVerif.Props.C09
open DymVerif DymVerif.LC

def Reachable (p : Core.Params) (s : St) : Prop := ∃ ops, s = run (init p) ops

-- ================================================================================================
-- 1. designation_unique_stable
-- ================================================================================================

/-- **designation_unique_stable** — in every reachable state the two designation maps are mutually
    inverse (so: at most one canonical client per rollapp, at most one rollapp per client) and point
    at an existing client whose chain id is the rollapp; an entry, once made, is never changed or
    removed by any later op sequence. -/
theorem designation_unique_stable (p : Core.Params) (ops : List Op) :
    MapsInv (run (init p) ops) ∧
    (∀ r c, lookup (run (init p) ops).r2c r = some c → ∀ ops', lookup (run (run (init p) ops) ops').r2c r = some c) ∧
    (∀ r c, lookup (run (init p) ops).c2r c = some r → ∀ ops', lookup (run (run (init p) ops) ops').c2r c = some r) := by
  refine ⟨run_mapsInv (init_mapsInv p) ops, ?_, ?_⟩
  · intro r c h ops'
    generalize run (init p) ops = s at h
    induction ops' generalizing s with
    | nil => exact h
    | cons op rest ih =>
      simp only [run, List.foldl_cons]
      exact ih _ (step_r2c_stable s op r c h)
  · intro r c h ops'
    generalize run (init p) ops = s at h
    induction ops' generalizing s with
    | nil => exact h
    | cons op rest ih =>
      simp only [run, List.foldl_cons]
      exact ih _ (step_c2r_stable s op r c h)

/-- a client serves at most one rollapp, a rollapp has at most one canonical client -/
theorem designation_injective {p : Core.Params} {s : St} (hs : Reachable p s) {r1 r2 c : Nat}
    (h1 : lookup s.r2c r1 = some c) (h2 : lookup s.r2c r2 = some c) : r1 = r2 := by
  obtain ⟨ops, rfl⟩ := hs
  have hm := run_mapsInv (init_mapsInv p) ops
  have a := hm.r2c_c2r r1 c h1
  have b := hm.r2c_c2r r2 c h2
  rw [a] at b; simpa using b

-- ================================================================================================
-- 2. set_canonical_requires_agreement
-- ================================================================================================

theorem validateRange_true {s : St} {cl : Client} {ra : Nat} {st : Core.SInfo} :
    ∀ (hs : List Nat) (m : Bool), validateRange s cl ra st hs m = (true, none) → m = true ∨ ∃ h ∈ hs, (getCons cl h).isSome
  | [], m, h => by simp only [validateRange, Prod.mk.injEq, and_true] at h; exact Or.inl h
  | x :: xs, m, h => by
    unfold validateRange at h
    cases hx : getCons cl x with
    | none =>
      simp only [hx] at h
      rcases validateRange_true xs m h with a | ⟨y, hy, hyc⟩
      · exact Or.inl a
      · exact Or.inr ⟨y, List.mem_cons_of_mem _ hy, hyc⟩
    | some c0 => exact Or.inr ⟨x, by simp, by simp [hx]⟩

theorem checkList_full : ∀ (g e : List Nat), checkList g e = .ok → g.length = e.length → g = e
  | [], [], _, _ => rfl
  | [], _ :: _, _, h => by simp at h
  | _ :: _, [], _, h => by simp at h
  | a :: as, b :: bs, h, hl => by
    unfold checkList at h
    split at h
    · rename_i hab
      have : a = b := by simpa using hab
      subst this
      rw [checkList_full as bs h (by simpa using hl)]
    · simp at h

/-- the parameter check pins the candidate's parameters down completely (and refuses frozen clients) -/
theorem set_canonical_params {p : CParams} {frozen : Bool} (h : paramsCheck p frozen = .ok) : p = expParams ∧ frozen = false := by
  unfold paramsCheck at h
  split at h
  · simp at h
  split at h
  · simp at h
  split at h
  · simp at h
  split at h
  · simp at h
  split at h
  · simp at h
  split at h
  · simp at h
  rename_i a b c d e f
  have h1 : p.specs.length = expSpecs.length := by simpa using f
  cases hs : checkList p.specs expSpecs with
  | bad => simp [hs] at h
  | panic => simp [hs] at h
  | ok =>
    simp only [hs] at h
    split at h
    · simp at h
    · rename_i g
      have h2 : p.path.length = expPath.length := by simpa using g
      have e1 := checkList_full _ _ hs h1
      have e2 := checkList_full _ _ h h2
      cases p
      simp_all [expParams]

/-- **set_canonical_requires_agreement** — an accepted `MsgSetCanonicalClient` (in any reachable state): the
    client exists, is a client of a registered rollapp that has no canonical client yet, has exactly the
    expected parameters and is not frozen; *every* consensus state of the client at a height inside a state
    info of the rollapp agrees (root, timestamp) with the descriptor of that height; at least one consensus
    state overlaps a state info; and the only change is the new pair in both designation maps. -/
theorem set_canonical_requires_agreement {p : Core.Params} {s s' : St} {c : Nat} (hs : Reachable p s)
    (h : step s (.setCanonical c) = (s', .ok)) :
    ∃ cl r, getClient s c = some cl ∧ Core.getRa s.core cl.chain = some r ∧ lookup s.r2c cl.chain = none ∧
      cl.params = expParams ∧ cl.frozen = false ∧
      (∀ st ∈ r.states, ∀ ht cs, st.start ≤ ht → ht ≤ st.last → getCons cl ht = some cs →
          ∃ d, getDesc s cl.chain ht = some d ∧ Agrees cs d) ∧
      (∃ st ∈ r.states, ∃ ht ∈ heightsOf st, (getCons cl ht).isSome) ∧
      s' = { s with r2c := s.r2c ++ [(cl.chain, c)], c2r := s.c2r ++ [(c, cl.chain)] } := by
  obtain ⟨ops, rfl⟩ := hs
  have hchain := run_coreChain ops (init p) (init_coreChain p)
  simp only [step] at h
  rcases setCanonical_cases (run (init p) ops) c with ⟨_, e, he⟩ | ⟨cl, r, hcl, hr, hnone, hp, hv, hok, e⟩
  · rw [show setCanonical (run (init p) ops) c = ((setCanonical (run (init p) ops) c).1, (setCanonical (run (init p) ops) c).2) from rfl, he] at h
    simp at h
  · rw [show setCanonical (run (init p) ops) c = ((setCanonical (run (init p) ops) c).1, (setCanonical (run (init p) ops) c).2) from rfl, hok] at h
    simp only [Prod.mk.injEq, and_true] at h
    obtain ⟨hpar, hfr⟩ := set_canonical_params hp
    have hch : Core.Chain r.states := hchain r (Core.getRa_mem hr)
    obtain ⟨_, v2⟩ := validLoop_sound (run (init p) ops) cl cl.chain (firstConsHeight cl) r.states.reverse false true hv
    refine ⟨cl, r, hcl, hr, hnone, hpar, hfr, validLoop_all hch hv, ?_, by rw [← h, e]⟩
    rcases v2 rfl with hf | ⟨st, hst, hsv⟩
    · exact absurd hf (by simp)
    · have hmem : st ∈ r.states := by
        have : ∀ (l : List Core.SInfo) (b : Nat), ∀ x ∈ visited b l, x ∈ l := by
          intro l b
          induction l with
          | nil => intro x hx; simp [visited] at hx
          | cons y ys ih =>
            intro x hx
            unfold visited at hx
            split at hx
            · simp only [List.mem_singleton] at hx; subst hx; simp
            · simp only [List.mem_cons] at hx ⊢
              rcases hx with rfl | hx
              · exact Or.inl rfl
              · exact Or.inr (ih x hx)
        exact List.mem_reverse.1 (this _ _ st hst)
      refine ⟨st, hmem, ?_⟩
      unfold validateStateInfo at hsv
      rcases validateRange_true _ _ hsv with hf | hx
      · exact absurd hf (by simp)
      · exact hx

/-- truncated or over-long parameter lists are refused -/
example : paramsCheck ⟨0, 0, 0, 0, [1], []⟩ false = .bad ∧ paramsCheck ⟨0, 0, 0, 0, [1, 2, 1], [1, 2]⟩ false = .bad ∧
    paramsCheck expParams false = .ok := by decide

-- ------------------------------------------------------------------------------------------------ concrete histories

def P0 : Core.Params where
  dispute := 6
  lsBlocks := 1000000
  lsInterval := 1000000
  lsMul := ⟨10000000000000000⟩
  lsAbs := 1
  dishonorSU := 1
  dishonorL := 1
  kickThr := 1000000
  noticePeriod := 2000000000

def bds (start n : Nat) : List Core.BD := (List.range n).map fun i => { height := start + i, hasTs := true, drs := 1, rootOk := true }
/-- an honest update of rollapp `ra` by `a`: root of height h is h+1, timestamp 10·h -/
def upd (ra a start n : Nat) : Op :=
  .core (.update { ra := ra, sender := a, start := start, num := n, rev := 0, last := false, bds := bds start n })
    ((List.range n).map fun i => (start + i + 1, some (10 * (start + i))))
def mkRa (ra a : Nat) : List Op := [.core (.createRollapp ra 99999 1) [], .core (.fund a 100000) [], .core (.createSeq a ra 3000 true) []]

/-- rollapp 0 (sequencer a0) with heights 1..3 posted, rollapp 1 (sequencer a3); an honest client of
    rollapp 0 with a consensus state at height 2, designated canonical -/
def opsA : List Op := mkRa 0 0 ++ mkRa 1 3 ++ [upd 0 0 1 3, .createClient 0 expParams 2 ⟨3, 20, 1⟩, .setCanonical 0]
def sA : St := run (init P0) opsA

example : lookup sA.r2c 0 = some 0 ∧ lookup sA.c2r 0 = some 0 := by decide

-- ================================================================================================
-- 3. agreement_inv
-- ================================================================================================

/-- **agreement_inv** — in every state reached by any run, for the canonical client c of r and every height with
    both a consensus state and a descriptor, roots are equal and timestamps are equal when the descriptor has
    one.  The one hypothesis (`SafeRun`) is not about the light-client code: at each designation the descriptor
    table of M-LC must be covered by the state infos of M-Core (M-LC keeps that table as its copy of the
    descriptors stored in the state infos; C01's gap-free chain). -/
theorem agreement_inv (p : Core.Params) (ops : List Op) (hs : SafeRun (init p) ops) : AgreeInv (run (init p) ops) :=
  (run_good ops (init p) (init_good p) hs).agree

/-- `SafeRun` is not vacuous: the history `opsA` (two rollapps, heights 1..3 of rollapp 0 posted, an honest client
    designated canonical) satisfies it — at the designation every descriptor M-LC holds lies in the state info [1..3] -/
theorem safeRun_witness : SafeRun (init P0) opsA := by
  have hcov : ∀ cl, getClient (run (init P0) (opsA.take 8)) 0 = some cl → DescsCovered (run (init P0) (opsA.take 8)) cl.chain := by
    intro cl hcl
    have hch : ((getClient (run (init P0) (opsA.take 8)) 0).map (·.chain)) = some 0 := by decide
    have hc0 : cl.chain = 0 := by simpa [hcl] using hch
    rw [hc0]
    intro h d hg
    obtain ⟨hmem, hra, hh⟩ := getDesc_mem hg
    have hdescs : (run (init P0) (opsA.take 8)).descs.map (·.h) = [1, 2, 3] := by decide
    have hin : d.h ∈ [1, 2, 3] := by rw [← hdescs]; exact List.mem_map_of_mem hmem
    have hst : ((Core.getRa (run (init P0) (opsA.take 8)).core 0).map (fun r => r.states.map (fun st => (st.start, st.last)))) = some [(1, 3)] := by decide
    cases hr : Core.getRa (run (init P0) (opsA.take 8)).core 0 with
    | none => simp [hr] at hst
    | some r =>
      simp only [hr, Option.map_some, Option.some.injEq] at hst
      cases hs : r.states with
      | nil => simp [hs] at hst
      | cons st rest =>
        simp only [hs, List.map_cons, List.cons.injEq, Prod.mk.injEq] at hst
        refine ⟨r, st, rfl, by simp [hs], ?_, ?_⟩
        · rw [hst.1.1]; simp only [List.mem_cons, List.mem_nil_iff, or_false] at hin; omega
        · rw [hst.1.2]; simp only [List.mem_cons, List.mem_nil_iff, or_false] at hin; omega
  refine ⟨trivial, trivial, trivial, trivial, trivial, trivial, trivial, trivial, hcov, trivial⟩

/-- a header at height 3 of rollapp 0 with a wrong root, signed for the canonical client of rollapp 0 but naming
    sequencer a3 of rollapp 1 (which has no state at height 3) as proposer -/
def hdrForeign : Hdr := { h := 3, cons := ⟨99, 30, 1⟩, propSig := 3, propData := 3, rev := 0, sole := true }

/-- it is refused: the named proposer is not a sequencer of the client's rollapp -/
example : step sA (.updateClient 0 .top hdrForeign true) = (sA, .ante .foreignSequencer) := by
  refine Prod.ext ?_ ?_
  · rfl
  · decide
/-- the same header naming the rollapp's own sequencer is refused (root mismatch) -/
example : (step sA (.updateClient 0 .top { hdrForeign with propSig := 0, propData := 0 } true)).2 = .ante .root := by decide
/-- an honest header at height 3 is accepted -/
example : (step sA (.updateClient 0 .top { h := 3, cons := ⟨4, 30, 1⟩, propSig := 0, propData := 0, rev := 0, sole := true } true)).2 = .ok := by decide

/-- rollapp 0 with state infos [1..8], [9], [10]; a client whose consensus states are at 8 (bogus root 99)
    and 10 (agreeing) -/
def opsD : List Op := mkRa 0 0 ++ [upd 0 0 1 8, upd 0 0 9 1, upd 0 0 10 1,
  .createClient 0 expParams 8 ⟨99, 80, 1002⟩,
  .updateClient 0 .top { h := 10, cons := ⟨11, 100, 1⟩, propSig := 1001, propData := 1001, rev := 0, sole := true } true]
def sD : St := run (init P0) opsD

/-- the designation is refused because of the consensus state at height 8; the lowest height is 8 -/
example : (step sD (.setCanonical 0)).2 = .msg .root ∧ ((getClient sD 0).map firstConsHeight) = some 8 := by decide

-- ================================================================================================
-- 4. later_conflict_rejected
-- ================================================================================================

theorem updateClient_top_ante {s : St} {c : Nat} {hd : Hdr} {ibc : Bool} {x : St} {e : LErr}
    (h : handleUpdate s c hd = (x, some e)) : updateClient s c .top hd ibc = (s, .ante e) := by
  simp [updateClient, h]

/-- **later_conflict_rejected** (header after state update) — on a canonical client, a header for a height whose
    descriptor it contradicts (root or timestamp) is refused by the ante handler and nothing changes, whoever
    it names as proposer; no hypothesis on the state. -/
theorem later_conflict_rejected_header {s : St} {c r : Nat} {hd : Hdr} {ibc : Bool} {d : Desc}
    (hc : lookup s.c2r c = some r) (hd' : getDesc s r hd.h = some d) (hconf : ¬ Agrees hd.cons d) :
    ∃ e, updateClient s c .top hd ibc = (s, .ante e) := by
  cases hh : handleUpdate s c hd with
  | mk x oe =>
    cases oe with
    | some e => exact ⟨e, updateClient_top_ante hh⟩
    | none =>
      exfalso
      obtain ⟨_, _, _, _, _, hchk⟩ := handleUpdate_ok hh
      obtain ⟨_, _, _, _, _, _, _, hag⟩ := hchk r hc
      exact hconf (hag d hd')

theorem finishUpdate_reject (s s3 : St) (m : Core.UpdMsg) (ds : List (Nat × Option Nat)) (h : (finishUpdate s s3 m ds).2 ≠ .ok) :
    (finishUpdate s s3 m ds).1 = s := by
  unfold finishUpdate at h ⊢
  cases hr : Core.getRa s3.core m.ra with
  | none => rfl
  | some r =>
    simp only [hr] at h ⊢
    cases hl : r.states.getLast? with
    | none => rfl
    | some st =>
      simp only [hl] at h ⊢
      by_cases hg : (st.start != m.start || st.last + 1 - st.start != ds.length) = true
      · simp only [hg, if_true]
      · simp only [hg] at h ⊢
        cases ha : afterUpdate s3 m.ra m.rev st with
        | mk s4 oe =>
          cases oe with
          | some e => rfl
          | none => simp [ha] at h

theorem coreOp_reject_unchanged (s : St) (o : Core.Op) (ds : List (Nat × Option Nat)) (h : (coreOp s o ds).2 ≠ .ok) :
    (coreOp s o ds).1 = s := by
  unfold coreOp at h ⊢
  cases hstep : Core.step s.core o with
  | mk core1 oe =>
    cases oe with
    | some e => rfl
    | none =>
      simp only [hstep] at h ⊢
      split
      · rfl
      · rename_i hb
        try simp only [hb, if_false] at h
        cases hw : withDescs { s with core := core1 } o ds with
        | none => rfl
        | some s2 =>
          simp only [hw] at h ⊢
          cases hf : applyForks s2 (newForks s.core core1) with
          | mk s3 oe =>
            cases oe with
            | some e => rfl
            | none =>
              simp only [hf] at h ⊢
              cases o with
              | update m => exact finishUpdate_reject s s3 m ds h
              | _ => simp at h

/-- **later_conflict_rejected** (state update after header) — a state update is either refused as a whole
    (nothing changes, optimistic consensus states included) or it leaves a state in which every consensus
    state of every canonical client agrees with every descriptor, the new ones included: a descriptor
    that contradicts an optimistically accepted header cannot get in. -/
theorem later_conflict_rejected_update {s : St} (hg : Good s) (m : Core.UpdMsg) (ds : List (Nat × Option Nat)) :
    ((coreOp s (.update m) ds).2 ≠ .ok → (coreOp s (.update m) ds).1 = s) ∧ AgreeInv (coreOp s (.update m) ds).1 :=
  ⟨coreOp_reject_unchanged s _ ds, (good_coreOp hg _ ds).2⟩

/-- the same for every reachable state (the hypothesis `Good s` discharged by `run_good`): after any run that satisfies
    the side condition of `agreement_inv`, whatever state update comes next -/
theorem later_conflict_rejected_update_reachable (p : Core.Params) (ops : List Op) (hs : SafeRun (init p) ops)
    (m : Core.UpdMsg) (ds : List (Nat × Option Nat)) :
    ((coreOp (run (init p) ops) (.update m) ds).2 ≠ .ok → (coreOp (run (init p) ops) (.update m) ds).1 = run (init p) ops) ∧
    AgreeInv (coreOp (run (init p) ops) (.update m) ds).1 :=
  later_conflict_rejected_update (run_good ops (init p) (init_good p) hs) m ds

-- ------------------------------------------------------------------------------------------------ the third field

/- The property names three fields: state root, timestamp, next-sequencer hash.  `Agrees` / `AgreeInv` carry the first
   two.  The next sequencer of a height is read from the state info as it is when the comparison is made
   (`StateInfo.NextSequencerForHeight`), so the third field is a theorem about each of the three comparisons
   (`Agrees3` = `Agrees` ∧ the consensus state's next-validators hash is that of the sequencer the state info
   names for the next block): -/

/-- **set_canonical_requires_agreement** (three fields) — an accepted designation: every consensus state of the client
    inside a state info of the rollapp agrees with the descriptor in root, timestamp and next-sequencer hash -/
theorem set_canonical_requires_agreement_next {p : Core.Params} {s s' : St} {c : Nat} (hs : Reachable p s)
    (h : step s (.setCanonical c) = (s', .ok)) :
    ∃ cl r, getClient s c = some cl ∧ Core.getRa s.core cl.chain = some r ∧
      ∀ st ∈ r.states, ∀ ht cs, st.start ≤ ht → ht ≤ st.last → getCons cl ht = some cs →
          ∃ d, getDesc s cl.chain ht = some d ∧ Agrees3 s st ht cs d := by
  obtain ⟨ops, rfl⟩ := hs
  have hchain := run_coreChain ops (init p) (init_coreChain p)
  simp only [step] at h
  rcases setCanonical_cases (run (init p) ops) c with ⟨_, e, he⟩ | ⟨cl, r, hcl, hr, _, _, hv, _, _⟩
  · rw [show setCanonical (run (init p) ops) c = ((setCanonical (run (init p) ops) c).1, (setCanonical (run (init p) ops) c).2) from rfl, he] at h
    simp at h
  · exact ⟨cl, r, hcl, hr, validLoop_all_next (hchain r (Core.getRa_mem hr)) hv⟩

/-- **later_conflict_rejected** (header after state update, three fields) — a header that names a registered sequencer,
    for a height a state info `st` of that sequencer's rollapp covers, and that differs from the descriptor of the
    height in root, timestamp or next-sequencer hash, is refused by the ante handler and nothing changes — on any
    client, canonical or not. -/
theorem later_conflict_rejected_header_next {s : St} {c : Nat} {hd : Hdr} {ibc : Bool} {q : Core.Seq} {ra : Core.Rollapp}
    {i : Nat} {st : Core.SInfo} {d : Desc}
    (hq : Core.getSeq s.core hd.propData = some q) (hr : Core.getRa s.core q.rollapp = some ra)
    (hi : Core.findByHeight ra hd.h = some i) (hst : ra.states[i - 1]? = some st)
    (hd' : getDesc s q.rollapp hd.h = some d) (hconf : ¬ Agrees3 s st hd.h hd.cons d) :
    ∃ e, updateClient s c .top hd ibc = (s, .ante e) := by
  cases hh : handleUpdate s c hd with
  | mk x oe =>
    cases oe with
    | some e => exact ⟨e, updateClient_top_ante hh⟩
    | none =>
      exfalso
      obtain ⟨st', d', hst', _, hd'', ha⟩ := handleUpdate_ok_next hh hq hr hi
      rw [hst] at hst'; cases hst'
      rw [hd'] at hd''; cases hd''
      exact hconf ha

/-- **later_conflict_rejected** (state update after header, three fields) — when the hook of an accepted state update
    (`AfterUpdateState`, ordinary path) lets the new state info `st` through, every consensus state of the canonical
    client at one of its heights agrees with the new descriptor in all three fields -/
theorem later_conflict_rejected_update_next {s s4 : St} {ra c : Nat} {st : Core.SInfo} {cl : Client}
    (h : validateNew s ra st c cl = (s4, none)) :
    ∀ ht cs, st.start ≤ ht → ht ≤ st.last → getCons cl ht = some cs → ∃ d, getDesc s ra ht = some d ∧ Agrees3 s st ht cs d := by
  obtain ⟨_, b, hb⟩ := validateNew_ok h
  intro ht cs h1 h2 hc
  exact validateStateInfo_agrees_next hb h1 h2 hc

/-- a header for the posted height 3 with the right root and timestamp but naming another next validator set is refused -/
example : (step sA (.updateClient 0 .top { h := 3, cons := ⟨4, 30, 2⟩, propSig := 0, propData := 0, rev := 0, sole := true } true)).2 = .ante .nextVal := by decide

/-- concrete: after an optimistic header at height 4 (root 5), a state update posting root 77 for height 4
    is refused with the root-mismatch error; the honest one is accepted -/
def sOpt : St := (step sA (.updateClient 0 .top { h := 4, cons := ⟨5, 40, 1⟩, propSig := 0, propData := 0, rev := 0, sole := true } true)).1
example : (step sOpt (.core (.update { ra := 0, sender := 0, start := 4, num := 1, rev := 0, last := false, bds := bds 4 1 }) [(77, some 40)])).2 = .msg .root := by decide
example : (step sOpt (upd 0 0 4 1)).2 = .ok := by decide


/- The next-sequencer-hash component of the agreement is checked by the same validators (`compat`), so
   `later_conflict_rejected_header` and the validation path of state updates cover it step by step; it is
   not part of `AgreeInv` because the next sequencer of a height is read from the state info *as it is
   when the later item arrives*.  The fork-resolution path writes a consensus state itself: -/

/-- **resolve_fork_next_validators** — the consensus state `ResolveHardFork` writes for the first height of the
    new revision carries the descriptor's root and timestamp and the validator-set hash of the sequencer the
    state info names for the next block. -/
theorem resolve_fork_next_validators {s s4 : St} {ra : Nat} {st : Core.SInfo} {cl : Client} (h : resolveFork s ra st cl = (s4, none)) :
    ∃ d q, getDesc s ra st.start = some d ∧ nextSeqFor s.core st st.start = some q ∧
      ∀ cl', getClient s4 cl.id = some cl' → getClient s cl.id = some cl →
        getCons cl' st.start = some ⟨d.root, d.ts.getD 0, valHash q⟩ := by
  obtain ⟨_, d, q, hd, hq, e⟩ := resolveFork_ok h
  refine ⟨d, q, hd, hq, ?_⟩
  intro cl' h1 h2
  subst e
  rw [getClient_setClient_self (cl := { cl with cons := insCons st.start ⟨d.root, d.ts.getD 0, valHash q⟩ cl.cons, latest := st.start, frozen := false }) h2] at h1
  cases h1
  rw [getCons_ins]; simp

/-- rollapp 0 with sequencers a0 (proposer), a1, a2; canonical client; fork at height 3; a1 and a2 opt in
    (a1 becomes proposer), a1 serves its notice; the first state update of the new revision is a1's last
    block (successor a2) -/
def opsC : List Op := mkRa 0 0 ++ [.core (.fund 1 100000) [], .core (.fund 2 100000) [], .core (.createSeq 1 0 2000 true) [],
  .core (.createSeq 2 0 1000 true) [], upd 0 0 1 3, .core (.bridge 0 1) [], .createClient 0 expParams 2 ⟨3, 20, 1⟩, .setCanonical 0,
  .core (.fraud true 0 3 0 none none) [], .core (.optIn 1 true) [], .core (.optIn 2 true) [], .core (.unbond 1) [],
  .core (.begin_ 3000000000) [], .core (.end_ []) [],
  .core (.update { ra := 0, sender := 1, start := 3, num := 1, rev := 1, last := true, bds := bds 3 1 }) [(4, some 30)]]
def sC : St := run (init P0) opsC

/-- the consensus state of height 3 names the successor a2, as the state info does; the client is unfrozen -/
example :
    ((getClient sC 0).bind fun cl => (getCons cl 3).map (·.nextVal)) = some (valHash 2) ∧
    ((Core.getRa sC.core 0).bind fun r => r.states.getLast?.map fun st => (st.creator, st.next, st.start, st.last)) = some (1, .addr 2, 3, 3) ∧
    ((getClient sC 0).map (·.frozen)) = some false := by decide

-- ================================================================================================
-- 5. signer_rules
-- ================================================================================================

/-- **signer_rules** — a header the ante handler lets through on the canonical client of rollapp `r` has equal
    proposer fields, names a registered sequencer *of `r`* that is bonded, its validator set is that sequencer
    alone (so the sequencer is the signer), and it carries `r`'s latest revision. -/
theorem signer_rules {s : St} {c r : Nat} {hd : Hdr} {ibc : Bool} (hc : lookup s.c2r c = some r)
    (hacc : ∀ e, (updateClient s c .top hd ibc).2 ≠ .ante e) :
    hd.propSig = hd.propData ∧ hd.sole = true ∧ ∃ q ra, Core.getSeq s.core hd.propData = some q ∧ q.bonded = true ∧ q.rollapp = r ∧
      Core.getRa s.core r = some ra ∧ hd.rev = Core.latestRev ra := by
  cases hh : handleUpdate s c hd with
  | mk x oe =>
    cases oe with
    | some e => exact absurd (by rw [updateClient_top_ante hh]) (hacc e)
    | none =>
      obtain ⟨_, _, _, _, _, hchk⟩ := handleUpdate_ok hh
      obtain ⟨q, hq, hp, hb, hqr, hsole, ⟨ra, hra, hrev⟩, _⟩ := hchk r hc
      exact ⟨hp, hsole, q, ra, hq, hb, hqr, hra, hrev⟩

/-- non-vacuity of the refusals: unknown key, unbonded… -/
example : (step sA (.updateClient 0 .top { hdrForeign with propSig := 1000, propData := 1000 } true)).2 = .ante .nonSequencer := by decide
example : (step sA (.updateClient 0 .top { hdrForeign with propData := 0 } true)).2 = .ante .proposerMismatch := by decide
example : (step sA (.updateClient 0 .top { hdrForeign with propSig := 0, propData := 0, rev := 1 } true)).2 = .ante .revision := by decide

-- ================================================================================================
-- 6. misbehaviour_rejected, 7. nested_update_rejected
-- ================================================================================================

/-- **misbehaviour_rejected** — by every route (top level, through a client update, nested in a wrapper) evidence
    against a canonical client is refused and nothing changes. -/
theorem misbehaviour_rejected {s : St} {c r : Nat} (k : MKind) (ibc : Bool) (hc : lookup s.c2r c = some r) :
    (misbehaviour s c k ibc).1 = s ∧ (misbehaviour s c k ibc).2 ≠ .ok := by
  unfold misbehaviour
  cases getClient s c with
  | none => exact ⟨rfl, by simp⟩
  | some cl =>
    cases k <;> simp_all

example : (step sA (.misbehaviour 0 .submit true)).2 = .ante .misbehaviourDisabled ∧
    (step sA (.misbehaviour 0 .submitNested true)).2 = .ante .nestedDisabled := by decide
/-- clients that are not canonical can still be frozen by evidence -/
example : ((getClient (step sD (.misbehaviour 0 .submit true)).1 0).map (·.frozen)) = some true := by decide

/-- **nested_update_rejected** — an ibc `MsgUpdateClient` inside any wrapper (depth ≥ 1) is refused by the
    ante handler whatever it carries, and nothing changes; the hub-side checks cannot be bypassed by nesting. -/
theorem nested_update_rejected (s : St) (c : Nat) (hd : Hdr) (ibc : Bool) :
    updateClient s c .nested hd ibc = (s, .ante .nestedDisabled) ∧
    updateClient s c .storedProposal hd ibc = (s, .ante .nestedDisabled) := ⟨rfl, rfl⟩

/-- the same for evidence: inside authz.MsgExec or inside an x/group proposal that is only stored at submission
    (to be executed later by a vote, through the message router alone) the message is refused by the ante handler of
    the SUBMITTING transaction, whatever client it names (that the filter descends into proposals whatever their
    `Exec` field says is the regenerated fact `ante_filter_shape`, Lemmas/GenEqAnteLC) -/
theorem stored_proposal_rejected (s : St) (c : Nat) (hd : Hdr) (ibc : Bool) (cl : Client) (hc : getClient s c = some cl) :
    updateClient s c .storedProposal hd ibc = (s, .ante .nestedDisabled) ∧
    misbehaviour s c .submitStored ibc = (s, .ante .nestedDisabled) ∧
    misbehaviour s c .viaUpdateStored ibc = (s, .ante .nestedDisabled) := by
  refine ⟨rfl, ?_, ?_⟩ <;> simp [misbehaviour, hc]

/-- the wrapper message of x/lightclient cannot be executed at all as the code is (no signer annotation):
    refused without any change by both routes -/
theorem wrapped_update_unusable (s : St) (c : Nat) (hd : Hdr) (ibc : Bool) :
    (updateClient s c .wrapped hd ibc).1 = s ∧ (updateClient s c .nestedWrapped hd ibc).1 = s ∧
    (updateClient s c .wrapped hd ibc).2 ≠ .ok ∧ (updateClient s c .nestedWrapped hd ibc).2 ≠ .ok :=
  ⟨rfl, rfl, by simp [updateClient], by simp [updateClient]⟩

-- ================================================================================================
-- 8. first_channel_only
-- ================================================================================================

theorem chanAck_chanOf (s : St) (ch : Nat) (w : ChanRoute) (ibc : Bool) (r x : Nat) (h : lookup s.chanOf r = some x) :
    lookup (chanAck s ch w ibc).1.chanOf r = some x := by
  unfold chanAck
  repeat' split
  all_goals first
    | exact h
    | exact lookup_append_left h

theorem step_chanOf_stable (s : St) (op : Op) (r x : Nat) (h : lookup s.chanOf r = some x) : lookup (step s op).1.chanOf r = some x := by
  cases op with
  | core o ds => simp only [step]; rw [(shape_coreOp s o ds).chanOf]; exact h
  | createClient chain p ht cs => exact h
  | setCanonical c =>
    simp only [step]
    split
    · rename_i s1 hs
      rcases setCanonical_cases s c with ⟨e, _⟩ | ⟨_, _, _, _, _, _, _, _, e⟩
      · have := congrArg Prod.fst hs; simp only at this; rw [← this, e]; exact h
      · have := congrArg Prod.fst hs; simp only at this; rw [← this, e]; exact h
    · exact h
  | updateClient c w hd ibc => simp only [step]; rw [(shape_updateClient s c w hd ibc).chanOf]; exact h
  | misbehaviour c k ibc => simp only [step]; rw [(shape_misbehaviour s c k ibc).chanOf]; exact h
  | chanInit c =>
    simp only [step, chanInit]
    repeat' split
    all_goals exact h
  | chanAck ch w ibc => simp only [step]; exact chanAck_chanOf s ch w ibc r x h

/-- **first_channel_only** — the canonical channel of a rollapp, once set, is never changed by any op
    sequence; it is set only by a channel-open-ack on a transfer channel over the rollapp's canonical
    client while the rollapp has none. -/
theorem first_channel_only (s : St) (r x : Nat) (h : lookup s.chanOf r = some x) (ops : List Op) :
    lookup (run s ops).chanOf r = some x := by
  induction ops generalizing s with
  | nil => exact h
  | cons op rest ih =>
    simp only [run, List.foldl_cons]
    exact ih _ (step_chanOf_stable s op r x h)

/-- by the two routes the decorator does not look at, `Rollapp.ChannelId` is never written -/
theorem chanAck_unseen_chanOf (s : St) (ch : Nat) (w : ChanRoute) (ibc : Bool) (hw : w ≠ .ack) :
    (chanAck s ch w ibc).1.chanOf = s.chanOf := by
  unfold chanAck
  cases w with
  | ack => exact absurd rfl hw
  | nestedAck => cases s.chans.find? (·.id == ch) <;> cases ibc <;> rfl
  | confirm => cases s.chans.find? (·.id == ch) <;> cases ibc <;> rfl

theorem first_channel_only_set {s : St} {ch : Nat} {w : ChanRoute} {ibc : Bool} {r : Nat} (h0 : lookup s.chanOf r = none)
    (h1 : lookup (chanAck s ch w ibc).1.chanOf r = some ch) :
    w = .ack ∧ ∃ c, s.chans.find? (·.id == ch) = some c ∧ lookup s.c2r c.client = some r := by
  have hw : w = .ack := by
    by_cases hw : w = .ack
    · exact hw
    · rw [chanAck_unseen_chanOf s ch w ibc hw, h0] at h1; exact absurd h1 (by simp)
  subst hw
  refine ⟨rfl, ?_⟩
  unfold chanAck at h1
  cases hc : s.chans.find? (·.id == ch) with
  | none => simp [hc, h0] at h1
  | some c =>
    simp only [hc] at h1
    cases hr : lookup s.c2r c.client with
    | none =>
      simp only [hr] at h1
      split at h1 <;> simp_all
    | some r' =>
      simp only [hr] at h1
      by_cases hx : (lookup s.chanOf r').isSome
      · simp [hx, h0] at h1
      · have hnone : lookup s.chanOf r' = none := by
          cases hl : lookup s.chanOf r' with
          | none => rfl
          | some y => simp [hl] at hx
        simp only [hx] at h1
        have key : lookup (s.chanOf ++ [(r', ch)]) r = some ch := by
          cases ibc <;> simpa using h1
        rw [lookup_append_single h0] at key
        split at key
        · rename_i e; subst e; exact ⟨c, rfl, hr⟩
        · exact absurd key (by simp)

/- Full clause: "only the first transfer channel *opened* over the canonical client becomes canonical":
     lookup (chanAck s ch w ibc).1.chanOf r = some ch (newly) → the channel ch is open afterwards
   FALSE of the current code: the ante handler writes the channel id before the handshake proof is checked,
   and the write is kept when the message fails. -/

/-- **first_channel_only_partial** — when the handshake proof verifies, the channel that became canonical is open -/
theorem first_channel_only_partial {s : St} {ch : Nat} {r : Nat} (h0 : lookup s.chanOf r = none)
    (h1 : lookup (chanAck s ch .ack true).1.chanOf r = some ch) :
    ∃ c ∈ (chanAck s ch .ack true).1.chans, c.id = ch ∧ c.isOpen = true := by
  obtain ⟨_, c, hc, hr⟩ := first_channel_only_set h0 h1
  have hcm := List.mem_of_find?_eq_some hc
  have hid : c.id = ch := by simpa using List.find?_some hc
  have hnone : (lookup s.chanOf r).isSome = false := by simp [h0]
  unfold chanAck
  simp only [hc, hr, hnone]
  refine ⟨{ c with isOpen := true }, ?_, hid, rfl⟩
  simp only [Bool.false_eq_true, if_false, if_true, List.mem_map]
  exact ⟨c, hcm, by simp [hid]⟩

/-- two transfer channels over the canonical client of rollapp 0 -/
def sCh : St := run sA [.chanInit 0, .chanInit 0]

/-- **first_channel_only_counterexample** (monitor `C09/first_channel_only/unopened-channel-became-canonical`): an ack
    with a bad proof for channel 0 makes it the canonical channel although it is not open; the ack with a
    good proof for channel 1 — the first channel that could actually open — is then refused. -/
theorem first_channel_only_counterexample :
    (step sCh (.chanAck 0 .ack false)).2 = .msg .ibc ∧
    lookup (step sCh (.chanAck 0 .ack false)).1.chanOf 0 = some 0 ∧
    ((step sCh (.chanAck 0 .ack false)).1.chans.map (·.isOpen)) = [false, false] ∧
    (step (step sCh (.chanAck 0 .ack false)).1 (.chanAck 1 .ack true)).2 = .ante .chanExists := by decide

/- Second way the full clause fails ("the FIRST transfer channel opened over the canonical client becomes the
   canonical channel"): the decorator only handles `MsgChannelOpenAck` at the top level of a transaction.  The same
   message inside `authz.MsgExec` (not in the nested-message filter either), and `MsgChannelOpenConfirm` (handshake
   started from the rollapp side), open the channel without `Rollapp.ChannelId` being written. -/

/-- **first_channel_only_seen_partial** — by the one route the decorator handles, with a verifying proof, the first
    channel acknowledged over the canonical client of a rollapp without canonical channel becomes canonical -/
theorem first_channel_only_seen_partial {s : St} {ch r : Nat} {c : Chan} (hc : s.chans.find? (·.id == ch) = some c)
    (hr : lookup s.c2r c.client = some r) (h0 : lookup s.chanOf r = none) :
    (chanAck s ch .ack true).2 = .ok ∧ lookup (chanAck s ch .ack true).1.chanOf r = some ch := by
  have hnone : (lookup s.chanOf r).isSome = false := by simp [h0]
  unfold chanAck
  simp only [hc, hr, hnone]
  refine ⟨by simp, ?_⟩
  simp only [Bool.false_eq_true, if_false, if_true]
  rw [lookup_append_single h0]
  simp

/-- what the code does on the two other routes: an existing channel opens (verifying proof), the canonical-channel
    record of every rollapp stays as it was -/
theorem unseen_route_opens_undesignated {s : St} {ch : Nat} {w : ChanRoute} {c : Chan} (hw : w ≠ .ack)
    (hc : s.chans.find? (·.id == ch) = some c) :
    (chanAck s ch w true).2 = .ok ∧ (chanAck s ch w true).1.chanOf = s.chanOf ∧
    ∃ c' ∈ (chanAck s ch w true).1.chans, c'.id = ch ∧ c'.isOpen = true := by
  have hcm := List.mem_of_find?_eq_some hc
  have hid : c.id = ch := by simpa using List.find?_some hc
  refine ⟨?_, chanAck_unseen_chanOf s ch w true hw, ?_⟩
  · unfold chanAck; cases w <;> simp_all
  · refine ⟨{ c with isOpen := true }, ?_, hid, rfl⟩
    unfold chanAck
    cases w with
    | ack => exact absurd rfl hw
    | nestedAck => simp only [hc, if_true, List.mem_map]; exact ⟨c, hcm, by simp [hid]⟩
    | confirm => simp only [hc, if_true, List.mem_map]; exact ⟨c, hcm, by simp [hid]⟩

/-- **first_channel_only_unseen_counterexample** (monitor `C09/first_channel_only/opened-channel-not-canonical`): channel 0
    over the canonical client of rollapp 0 is opened by an ack nested in `authz.MsgExec` (resp. by a
    `MsgChannelOpenConfirm`): it is open and rollapp 0 has no canonical channel; the later top-level ack of channel 1
    makes channel 1 — not the first opened one — the canonical channel. -/
theorem first_channel_only_unseen_counterexample : ∀ w ∈ [ChanRoute.nestedAck, ChanRoute.confirm],
    (step sCh (.chanAck 0 w true)).2 = .ok ∧
    ((step sCh (.chanAck 0 w true)).1.chans.map (·.isOpen)) = [true, false] ∧
    lookup (step sCh (.chanAck 0 w true)).1.chanOf 0 = none ∧
    (step (step sCh (.chanAck 0 w true)).1 (.chanAck 1 .ack true)).2 = .ok ∧
    lookup (step (step sCh (.chanAck 0 w true)).1 (.chanAck 1 .ack true)).1.chanOf 0 = some 1 := by decide

example : (step sCh (.chanAck 0 .ack true)).2 = .ok ∧ ((step sCh (.chanAck 0 .ack true)).1.chans.map (·.isOpen)) = [true, false] := by decide

end DymVerif.Props.C09
