/-
  Props/C09Admin — C09 and the two ibc client messages the hub does not look at (`Model/LCAdmin.lean`).

  Full clause (property text: the canonical client "always agrees"; designation "never changes"; DESIGN §4 C09 assumed
  immutable client parameters): in every state reached by transactions, upgrades and recoveries

      AgreeInv s  ∧  every canonical client is a client of its rollapp's chain with the expected parameters

  FALSE of the current code for both messages on a canonical client (`recover_counterexample`, reproduced on the real
  application, monitors `C09/canonical_client_immutable/*` and
  `C09/later_conflict_rejected/conflicting-consensus-state-written-by-lc_recover`; `upgrade_counterexample` for the model
  of what ibc-go does once the upgrade proof verifies).  `_partial`: on clients that are not canonical nothing C09 is about
  changes.  Reachability: MsgRecoverClient is signed by the ibc authority (governance) and needs a canonical client
  that is not Active — the window between `RollbackCanonicalClient` (fork) and the first state update of the new
  revision, or an expired client; the substitute is any client anybody created (consensus states unchecked).
  MsgUpgradeClient is permissionless but needs membership proofs of the upgraded client / consensus state under the
  client's upgrade path against the root of the consensus state at the client's latest height, i.e. a header signed by
  the rollapp's own sequencer whose app hash commits to an upgrade plan (and, for a posted height, a block descriptor
  with that same root): only the rollapp's sequencer can make it verify.
-/
import DymVerif.Lemmas.LCAdmin
import DymVerif.Props.C09
namespace DymVerif.Props.C09
open DymVerif DymVerif.LC

/-- **upgrade_recover_partial** — on a client that is not canonical, an upgrade or a recovery changes neither the
    designation maps nor the descriptors nor any canonical client: the agreement invariant is preserved. -/
theorem upgrade_recover_partial {s : St} (hm : MapsInv s) (ha : AgreeInv s) (c : Nat) (hc : lookup s.c2r c = none) :
    (∀ u ibc, AgreeInv (upgradeClient s c u ibc).1 ∧ (upgradeClient s c u ibc).1.r2c = s.r2c ∧ (upgradeClient s c u ibc).1.c2r = s.c2r) ∧
    (∀ sub, AgreeInv (recoverClient s c sub).1 ∧ (recoverClient s c sub).1.r2c = s.r2c ∧ (recoverClient s c sub).1.c2r = s.c2r) := by
  refine ⟨fun u ibc => ?_, fun sub => ?_⟩
  · rcases upgrade_state s c u ibc with e | ⟨new, hid, e⟩
    · rw [e]; exact ⟨ha, rfl, rfl⟩
    · rw [e]; exact ⟨agree_setClient_noncanon hm ha new (by rw [hid]; exact hc), rfl, rfl⟩
  · rcases recover_state s c sub with e | ⟨new, hid, e⟩
    · rw [e]; exact ⟨ha, rfl, rfl⟩
    · rw [e]; exact ⟨agree_setClient_noncanon hm ha new (by rw [hid]; exact hc), rfl, rfl⟩

/-- an Active client cannot be recovered, whoever signs -/
theorem recover_needs_inactive {s : St} {c sub : Nat} {cl : Client} (hcl : getClient s c = some cl) (hf : cl.frozen = false) :
    (recoverClient s c sub).1 = s ∧ (recoverClient s c sub).2 ≠ .ok := by
  unfold recoverClient
  simp [hcl, hf]

/-- rollapp 0 with heights 1..5, bridge open, honest canonical client 0 (consensus state at 2); client 1 of ANOTHER chain
    (100) with a bogus consensus state at height 3 (root 99, foreign validator set) and another trusting period; a fork
    at height 5 freezes the canonical client -/
def opsR : List Op := mkRa 0 0 ++ [upd 0 0 1 5, .core (.bridge 0 1) [], .createClient 0 expParams 2 ⟨3, 20, 1⟩, .setCanonical 0,
  .createClient 100 { expParams with trusting := 1 } 3 ⟨99, 30, 1002⟩, .core (.fraud true 0 5 0 none none) []]
def sR : St := run (init P0) opsR

example : ((getClient sR 0).map (·.frozen)) = some true ∧ canonImmutableB sR = true ∧ (getDesc sR 0 3).map (·.root) = some 4 := by decide

/-- **recover_counterexample** — governance recovers the frozen canonical client with client 1: accepted; the canonical
    client of rollapp 0 is now a client of chain 100, has another trusting period, is unfrozen, and its consensus state at
    the posted height 3 has root 99 where the descriptor has 4. -/
theorem recover_counterexample :
    (recoverClient sR 0 1).2 = .ok ∧
    lookup (recoverClient sR 0 1).1.r2c 0 = some 0 ∧
    canonImmutableB (recoverClient sR 0 1).1 = false ∧
    ((getClient (recoverClient sR 0 1).1 0).map (fun cl => (cl.chain, cl.frozen, cl.params.trusting))) = some (100, false, 1) ∧
    ((getClient (recoverClient sR 0 1).1 0).bind fun cl => (getCons cl 3).map (·.root)) = some 99 ∧
    ((getDesc (recoverClient sR 0 1).1 0 3).map (·.root)) = some 4 := by decide

/-- **upgrade_counterexample** — what ibc-go does once an upgrade proof verifies, on the canonical client of `sA`: the
    designation stays, the client is now a client of chain 100 and trusts the validator set the upgrade named. -/
theorem upgrade_counterexample :
    (upgradeClient sA 0 ⟨100, 9, 90, 7⟩ true).2 = .ok ∧
    lookup (upgradeClient sA 0 ⟨100, 9, 90, 7⟩ true).1.r2c 0 = some 0 ∧
    canonImmutableB sA = true ∧ canonImmutableB (upgradeClient sA 0 ⟨100, 9, 90, 7⟩ true).1 = false ∧
    ((getClient (upgradeClient sA 0 ⟨100, 9, 90, 7⟩ true).1 0).bind fun cl => (getCons cl 9).map (·.nextVal)) = some 7 := by decide

end DymVerif.Props.C09
