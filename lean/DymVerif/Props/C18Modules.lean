/-
  Props/C18Modules — exporting and re-importing genesis preserves the chain: the custom modules
  other than x/rollapp + x/sequencer (those are in Props/C18 over M-Core).

  For every module: `import<M> (export<M> s) = s` (modulo `some`) for every state satisfying the
  module's store invariant, and `export_import_export`.  Each invariant is justified where it is
  declared: store representation (sorted sections, records under their own key) holds after every
  history of `Set` / `Delete` (`store_representation_reachable`); index exactness is either proved
  over a small op model here (x/iro: `iro_roundtrip_reachable`) or is the invariant of the module's
  own package (delayedack: M-Packets `idx_run`; lightclient: M-LC `MapsInv`; dymns: M-DymNS `IdxOK` /
  `run_inv`; sponsorship: M-Spons `distribution_eq_sum_of_votes`).

  Where the code does not round-trip, the full statement is kept in a comment and the theorem is
  split into `…_partial` (what survives, under the stated extra hypothesis) and `…_counterexample`
  (a concrete witness, by `decide`).  Status on the current tree:
    iro ✓ (any order of the plan list) · delayedack ✓ · lockup ✗ params · eibc ✗ LPs ·
    incentives ✗ started-upcoming gauges, finished gauges · streamer ✗ active order, finished
    streams vs last id, started-upcoming streams · sponsorship ✗ endorsements, blacklist ·
    dymns ✗ orders (refund by minting) · lightclient ✓ canonical pairs and signer set; the
    height → signer map only when it is exact.
-/
import DymVerif.Lemmas.GenesisIro
import DymVerif.Lemmas.GenesisChecks
import DymVerif.Lemmas.GenesisRefOps
namespace DymVerif.C18M
open DymVerif DymVerif.Genesis

/-! ## 0. keyed collections and id counters -/

/-- **import_any_order** — a KV section is rebuilt by setting its exported values one by one in ANY
    order (every entry sits under the key computed from its value, keys strictly ordered by a strict
    total order): the result of an `InitGenesis` loop does not depend on the export order. -/
theorem import_any_order {κ β : Type} {lt : κ → κ → Bool} (so : StrictOrder lt) (s : KV κ β) (key : β → κ)
    (hs : Sorted lt s) (hk : Keyed key s) (l : List β) (hp : l.Perm (exportVals s)) :
    importVals lt key l = s := importVals_perm so hs hk hp

/-- store representation is an invariant of every history of writes -/
theorem store_representation_reachable {κ β : Type} [DecidableEq κ] {lt : κ → κ → Bool} (so : StrictOrder lt)
    (key : β → κ) (ops : List (StoreOp κ β)) : Sorted lt (storeRun lt key ops) ∧ Keyed key (storeRun lt key ops) :=
  storeRun_inv so key ops

example : exportVals (storeRun ltNat (fun n : Nat => n % 10) [.set 13, .set 7, .set 23, .del 7]) = [23] := by decide

/-- the byte order used for every `Bytes` key is a strict total order -/
theorem byte_order_strict_total : StrictOrder lexLt := soBytes

/-- the maximum bounds every id and is the same for every order of the list … -/
theorem max_id_bounds (ids : List Nat) : ∀ id ∈ ids, id ≤ maxId ids := maxId_ge ids
theorem max_id_order_independent (l₁ l₂ : List Nat) (h : l₁.Perm l₂) : maxId l₁ = maxId l₂ := maxId_perm h

/-- the plan ids 1 … 10 in the order `GetAllPlans` walks them: lexical order of the decimal key -/
def planWalk : List Nat := sortBy (fun a b => lexLt (planKey a) (planKey b)) [1, 2, 3, 4, 5, 6, 7, 8, 9, 10]

/-- … whereas "the id of the last element" is NOT: in store order (real decimal strings, byte order)
    the last of 1 … 10 is 9 -/
theorem last_element_is_not_the_max :
    planWalk = [1, 10, 2, 3, 4, 5, 6, 7, 8, 9] ∧ lastId planWalk = 9 ∧ maxId planWalk = 10 := by decide

theorem last_element_depends_on_order : ∃ l₁ l₂ : List Nat, l₁.Perm l₂ ∧ lastId l₁ ≠ lastId l₂ :=
  ⟨[1, 2], [2, 1], List.Perm.swap 2 1 [], by decide⟩

/-! ## 1. x/iro -/

/-- **iro_roundtrip** — plans, the by-rollapp index and the id counter survive, for every state
    satisfying the store invariant `IroInv` … -/
theorem iro_roundtrip (s : IroState) (h : IroInv s) : importIro (exportIro s) = s := iro_import_export h

/-- … which holds in every state reachable through `CreatePlan` (id counter, one plan per rollapp) and
    later `SetPlan`s of stored plans: **every reachable state round-trips** -/
theorem iro_roundtrip_reachable (ops : List IroOp) : importIro (exportIro (iroRun ops)) = iroRun ops :=
  iro_import_export (iroInv_run ops)

theorem iro_export_import_export (ops : List IroOp) :
    exportIro (importIro (exportIro (iroRun ops))) = exportIro (iroRun ops) := by rw [iro_roundtrip_reachable]

/-- continuing with the same operations on the imported chain gives the same states -/
theorem iro_continue_commutes (ops more : List IroOp) :
    more.foldl iroStep (importIro (exportIro (iroRun ops))) = iroRun (ops ++ more) := by
  rw [iro_roundtrip_reachable]; unfold iroRun; rw [List.foldl_append]

/-- the result does not depend on the order of the plan list -/
theorem iro_roundtrip_any_order (ops : List IroOp) (l : List Plan) (hp : l.Perm (exportIro (iroRun ops)).plans) :
    importIro { params := (iroRun ops).params, plans := l } = iroRun ops :=
  iro_import_perm (iroInv_run ops) hp

/-- **iro_next_plan_id_fresh** — whatever the genesis lists and in whatever order, the next plan id
    after import is greater than every imported id -/
theorem iro_next_plan_id_fresh (g : IroGenesis) : ∀ p ∈ g.plans, p.id < nextPlanId (importIro g) := by
  intro p hp
  have h : (importIro g).lastPlanId = maxId (g.plans.map (·.id)) := iroInitLastPlanId_eq_maxId _
  have := maxId_ge (g.plans.map (·.id)) p.id (List.mem_map.2 ⟨p, hp, rfl⟩)
  unfold nextPlanId; omega

/-- ten plans created one after the other -/
def iroTen : IroState := iroRun ((List.range 10).map fun i => IroOp.create [i] 0)

/-- non-vacuity, and why the counter must be the maximum: the export lists plan 9 last; a counter
    taken from the last element would hand out id 10 a second time -/
theorem iro_last_of_list_counter_collides :
    (exportIro iroTen).plans.map (·.id) = [1, 10, 2, 3, 4, 5, 6, 7, 8, 9] ∧
    lastId ((exportIro iroTen).plans.map (·.id)) + 1 ∈ (exportIro iroTen).plans.map (·.id) ∧
    nextPlanId (importIro (exportIro iroTen)) = 11 := by decide

example : importIro (exportIro iroTen) = iroTen := iro_roundtrip_reachable _

/-! ## 2. x/lockup -/

/- **lockup_roundtrip** (full statement — FALSE on the current code):
     ∀ s, LockupInv s → importLockup (exportLockup s) = s
   The module parameters are not part of the genesis state; `InitGenesis` writes `DefaultParams()`. -/

/-- locks (whatever the order of the list) and the id counter survive; the parameters are the defaults -/
theorem lockup_roundtrip_partial (s : LockupState) (h : LockupInv s) (hp : s.params = lockupDefaultParams) :
    importLockup (exportLockup s) = s := by
  rw [lockup_import_export h, ← hp]

theorem lockup_locks_survive (s : LockupState) (h : LockupInv s) :
    (importLockup (exportLockup s)).locks = s.locks ∧ (importLockup (exportLockup s)).lastLockId = s.lastLockId := by
  rw [lockup_import_export h]; exact ⟨rfl, rfl⟩

theorem lockup_any_order (s : LockupState) (h : LockupInv s) (l : List Lock) (hp : l.Perm (exportLockup s).locks) :
    importLockup { lastLockId := s.lastLockId, locks := l } = importLockup (exportLockup s) := by
  rw [lockup_import_export h]
  exact lockup_locks_any_order h (hp.trans (periodLocks_perm s))

theorem lockup_export_import_export (s : LockupState) (h : LockupInv s) :
    exportLockup (importLockup (exportLockup s)) = exportLockup s := by
  rw [lockup_import_export h]; rfl

def lockupEx : LockupState :=
  { params := 1, lastLockId := 3,
    locks := storeRun ltNat (fun l : Lock => l.id)
      [.set ⟨1, [1], 20, 0, [([100], 5)]⟩, .set ⟨2, [1], 10, 7, [([100], 1)]⟩, .set ⟨3, [2], 10, 0, [([100], 2)]⟩] }

theorem lockupEx_inv : LockupInv lockupEx :=
  ⟨(storeRun_inv soNat _ _).1, (storeRun_inv soNat _ _).2⟩

/-- the export order is the reference order (not-unlocking by duration, then unlocking), not id order -/
example : (exportLockup lockupEx).locks.map (·.id) = [3, 1, 2] := by decide

theorem lockup_roundtrip_counterexample : ∃ s, LockupInv s ∧ importLockup (exportLockup s) ≠ s :=
  ⟨lockupEx, lockupEx_inv, by decide⟩

/-! ## 3. x/delayedack -/

/-- **delayedack_roundtrip** — packets and the pending-by-address index survive: the import does not
    panic and rebuilds exactly the original state -/
theorem delayedack_roundtrip (s : DaState) (h : DaInv s) : importDa (exportDa s) = some s := da_import_export h

theorem delayedack_export_import_export (s : DaState) (h : DaInv s) :
    (importDa (exportDa s)).map exportDa = some (exportDa s) := by rw [da_import_export h]; rfl

/-- a finalized packet contributes no index entry (the repaired F12) … -/
theorem delayedack_finalized_not_indexed (p : DPacket) (h : p.status = .finalized) : daIdxItem p = none := by
  unfold daIdxItem; rw [if_neg (by rw [h]; decide)]

/-- … and a pending packet of undefined type makes `InitGenesis` panic -/
theorem delayedack_undefined_pending_panics (g : DaGenesis) (p : DPacket) (hp : p ∈ g.packets)
    (h1 : p.status = .pending) (h2 : p.ptype = .undefined) : importDa g = none := by
  unfold importDa
  have : daInitPanics g = true := by
    unfold daInitPanics
    exact List.any_eq_true.2 ⟨p, hp, by simp [h1, h2, daIndexAddr]⟩
  rw [this]; rfl

def daP1 : DPacket := ⟨.pending, [114], 5, .onRecv, [99], 1, [1], [2], 0⟩
def daP2 : DPacket := ⟨.finalized, [114], 3, .onAck, [99], 2, [1], [2], 0⟩
def daP3 : DPacket := ⟨.pending, [114], 6, .onTimeout, [99], 3, [1], [2], 0⟩
def daEx : DaState :=
  { params := 7,
    packets := storeRun lexLt DPacket.key [.set daP1, .set daP2, .set daP3],
    byAddr := [(([1], daP1.key), ()), (([2], daP3.key), ())] }

theorem daEx_inv : DaInv daEx :=
  DaInv.of_checks (storeRun_inv soBytes _ _).1 (storeRun_inv soBytes _ _).2 (by unfold Sorted; decide)
    (by decide) (by decide) (by decide)

example : importDa (exportDa daEx) = some daEx := delayedack_roundtrip _ daEx_inv
example : daEx.packets.length = 3 ∧ daEx.byAddr.length = 2 := by decide

/-! ## 4. x/eibc -/

/- **eibc_roundtrip** (full statement — FALSE on the current code):
     ∀ s, EibcInv s → importEibc (exportEibc s) = some s
   On-demand liquidity providers and their id sequence are not part of the genesis state. -/

/-- demand orders — with their tracking packet key through the base64 detour — and params survive -/
theorem eibc_roundtrip_partial (s : EibcState) (h : EibcInv s) (hl : s.lps = []) (hn : s.nextLpId = 0) :
    importEibc (exportEibc s) = some s := by
  rw [eibc_import_export h, ← hl, ← hn]

theorem eibc_orders_survive (s : EibcState) (h : EibcInv s) :
    ∃ t, importEibc (exportEibc s) = some t ∧ t.orders = s.orders ∧ t.params = s.params ∧ t.lps = [] :=
  ⟨_, eibc_import_export h, rfl, rfl, rfl⟩

theorem eibc_export_import_export (s : EibcState) (h : EibcInv s) :
    (importEibc (exportEibc s)).map exportEibc = some (exportEibc s) := by rw [eibc_import_export h]; rfl

/-- the tracking key decodes to exactly what was encoded (C19's base64 round trip) -/
theorem eibc_tracking_key_roundtrip (k : Bytes) (h : Bytes.WF k) : eibcDecodeKey (eibcEncodeKey k) = some k :=
  eibc_key_roundtrip k h

def eibcEx : EibcState :=
  { params := 1,
    orders := storeRun lexLt DOrder.key [.set ⟨[5], .pending, daP1.key, 0⟩, .set ⟨[6], .finalized, [], 0⟩],
    lps := [(1, 77)], nextLpId := 1 }

theorem eibcEx_inv : EibcInv eibcEx :=
  ⟨(storeRun_inv soBytes _ _).1, (storeRun_inv soBytes _ _).2, by unfold Bytes.WF; decide⟩

theorem eibc_roundtrip_counterexample : ∃ s, EibcInv s ∧ importEibc (exportEibc s) ≠ some s :=
  ⟨eibcEx, eibcEx_inv, by decide⟩

example : importEibc (exportEibc { eibcEx with lps := [], nextLpId := 0 }) = some { eibcEx with lps := [], nextLpId := 0 } :=
  eibc_roundtrip_partial _ ⟨eibcEx_inv.so, eibcEx_inv.ko, eibcEx_inv.wf⟩ rfl rfl

/-! ## 5. x/incentives -/

/- **incentives_roundtrip** (full statement — FALSE on the current code):
     ∀ s, RsInv s.gauges → importInc s.now (exportInc s) = some s
   (a) only not-finished gauges are exported; (b) `InitGenesis` re-classifies every gauge by the
   clock, so a gauge still filed as upcoming although its start time has passed becomes active. -/

/-- gauges, the three reference sections (with their internal order), parameters, lockable durations
    and the id counter survive when nothing is finished and every gauge is filed under the class the
    clock gives it -/
theorem incentives_roundtrip_partial (s : IncState) (h : RsInv s.gauges) (hc : ClsOk s.gauges s.now)
    (hf : s.gauges.finished = []) : importInc s.now (exportInc s) = some s := by
  unfold importInc exportInc
  simp only
  rw [refstore_import h hf (List.Perm.refl _) (orderOk_notFinished h hc hf)]
  rfl

theorem incentives_export_import_export (s : IncState) (h : RsInv s.gauges) (hc : ClsOk s.gauges s.now)
    (hf : s.gauges.finished = []) : (importInc s.now (exportInc s)).map exportInc = some (exportInc s) := by
  rw [incentives_roundtrip_partial s h hc hf]; rfl

/-- the reference-store invariant (`RsInv`: records under their ids, reference sections sorted without
    empty lists, every reference points to a stored record starting at its time key, every record
    referenced exactly once) holds after EVERY history of the store's write paths — creation through
    `Set…WithRefKey` under a fresh id, upcoming → active (refused before the start time), active →
    finished, in-place rewrites — at any clock values; the same store underlies gauges and streams -/
theorem refstore_invariant_reachable (ops : List (Nat × RsOp)) : RsInv (rsRun ops) := rsInv_run ops

/-- hence, for every reachable gauge store: when nothing is finished and the classes agree with the
    clock, export followed by import gives back the state -/
theorem incentives_roundtrip_reachable_partial (ops : List (Nat × RsOp)) (now params last : Nat) (lockable : List Nat)
    (hc : ClsOk (rsRun ops) now) (hf : (rsRun ops).finished = []) :
    importInc now (exportInc ⟨now, params, lockable, last, rsRun ops⟩) = some ⟨now, params, lockable, last, rsRun ops⟩ :=
  incentives_roundtrip_partial ⟨now, params, lockable, last, rsRun ops⟩ (rsInv_run ops) hc hf

/-- … and continuing with the same store operations on the imported chain gives the same states -/
theorem incentives_continue_commutes_partial (ops more : List (Nat × RsOp)) (now params last : Nat) (lockable : List Nat)
    (hc : ClsOk (rsRun ops) now) (hf : (rsRun ops).finished = []) :
    (importInc now (exportInc ⟨now, params, lockable, last, rsRun ops⟩)).map
      (fun t => more.foldl (fun s o => rsStep o.1 s o.2) t.gauges) = some (rsRun (ops ++ more)) := by
  rw [incentives_roundtrip_reachable_partial ops now params last lockable hc hf]
  simp only [Option.map_some]
  unfold rsRun; rw [List.foldl_append]

/-- a history: gauge 1 created and activated, gauges 3 then 2 created for later -/
def incHistory : List (Nat × RsOp) :=
  [(1, .create ⟨1, 5, true, 1, 0, 0⟩), (6, .activate 1), (7, .create ⟨3, 20, false, 3, 0, 0⟩), (8, .create ⟨2, 20, false, 3, 0, 0⟩)]

/-- gauges 1 (started at 5, active), 2 and 3 (start at 20, upcoming; 3 was filed before 2) at time 10 -/
def incOk : IncState :=
  { now := 10, params := 0, lockable := [1], lastGaugeId := 3,
    gauges := { items := [(1, ⟨1, 5, true, 1, 0, 0⟩), (2, ⟨2, 20, false, 3, 0, 0⟩), (3, ⟨3, 20, false, 3, 0, 0⟩)],
                upcoming := [(20, [3, 2])], active := [(5, [1])], finished := [] } }

theorem incOk_inv : RsInv incOk.gauges :=
  RsInv.of_checks (by unfold Sorted; decide) (by unfold Keyed; decide)
    (forall_cls (by unfold Sorted; decide) (by unfold Sorted; decide) (by unfold Sorted; decide))
    (forall_cls (by decide) (by decide) (by decide)) (forall_cls (by decide) (by decide) (by decide))
    (by decide) (by decide)

example : rsRun incHistory = incOk.gauges := by decide

theorem incOk_cls : ClsOk incOk.gauges incOk.now :=
  ClsOk.of_checks incOk_inv.si (forall_cls (by decide) (by decide) (by decide))

example : importInc incOk.now (exportInc incOk) = some incOk := incentives_roundtrip_partial _ incOk_inv incOk_cls rfl

/-- (b): gauge 2 started at 8 but is still filed as upcoming at time 10 (it is moved at the next epoch start) -/
def incStarted : IncState :=
  { incOk with gauges := { incOk.gauges with items := [(1, ⟨1, 5, true, 1, 0, 0⟩), (2, ⟨2, 8, false, 3, 0, 0⟩)],
                                             upcoming := [(8, [2])] }, lastGaugeId := 2 }

/-- (a): gauge 1 is finished -/
def incFinished : IncState :=
  { incOk with gauges := { incOk.gauges with items := [(1, ⟨1, 5, false, 1, 1, 0⟩), (2, ⟨2, 20, false, 3, 0, 0⟩)],
                                             upcoming := [(20, [2])], active := [], finished := [(5, [1])] }, lastGaugeId := 2 }

theorem incStarted_inv : RsInv incStarted.gauges :=
  RsInv.of_checks (by unfold Sorted; decide) (by unfold Keyed; decide)
    (forall_cls (by unfold Sorted; decide) (by unfold Sorted; decide) (by unfold Sorted; decide))
    (forall_cls (by decide) (by decide) (by decide)) (forall_cls (by decide) (by decide) (by decide))
    (by decide) (by decide)

theorem incFinished_inv : RsInv incFinished.gauges :=
  RsInv.of_checks (by unfold Sorted; decide) (by unfold Keyed; decide)
    (forall_cls (by unfold Sorted; decide) (by unfold Sorted; decide) (by unfold Sorted; decide))
    (forall_cls (by decide) (by decide) (by decide)) (forall_cls (by decide) (by decide) (by decide))
    (by decide) (by decide)

theorem incentives_roundtrip_counterexample :
    (∃ s, RsInv s.gauges ∧ s.gauges.finished = [] ∧ importInc s.now (exportInc s) ≠ some s ∧
       (importInc s.now (exportInc s)).map (fun t => (t.gauges.upcoming, t.gauges.active)) = some ([], [(5, [1]), (8, [2])])) ∧
    (∃ s, RsInv s.gauges ∧ ClsOk s.gauges s.now ∧ importInc s.now (exportInc s) ≠ some s ∧
       (importInc s.now (exportInc s)).map (fun t => (exportVals t.gauges.items).map (·.id)) = some [2]) :=
  ⟨⟨incStarted, incStarted_inv, rfl, by decide, by decide⟩,
   ⟨incFinished, incFinished_inv, ClsOk.of_checks incFinished_inv.si (forall_cls (by decide) (by decide) (by decide)),
    by decide, by decide⟩⟩

/-! ## 6. x/streamer -/

/- **streamer_roundtrip** (full statement — FALSE on the current code):
     ∀ s, RsInv s.streams → importStr s.now epochs (exportStr s) = some s
   (a) `InitGenesis` sorts the streams by id, the running chain keeps each reference list in
   activation order; (b) only not-finished streams are exported while `last_stream_id` is kept;
   (c) started-but-upcoming streams are re-classified as active. -/

/-- streams, reference sections, epoch pointers, parameters and the id counter survive when nothing is
    finished, classes agree with the clock, every reference list is in ascending id order and every
    epoch of x/epochs has its pointer -/
theorem streamer_roundtrip_partial (s : StrState) (epochs : List (Bytes × Nat)) (h : RsInv s.streams)
    (hc : ClsOk s.streams s.now) (hf : s.streams.finished = []) (ha : AscLists s.streams)
    (hps : Sorted lexLt s.pointers) (hpk : Keyed (fun p : Pointer => p.epochId) s.pointers)
    (hcov : ∀ ep ∈ epochs, ∃ e ∈ s.pointers, e.1 = ep.1) :
    importStr s.now epochs (exportStr s) = some s := by
  unfold importStr exportStr strInitSort
  simp only
  rw [refstore_import h hf (sortBy_perm _ _) (orderOk_sorted h hc hf ha), strInitPointers_export hps hpk epochs hcov]
  rfl

theorem streamer_export_import_export (s : StrState) (epochs : List (Bytes × Nat)) (h : RsInv s.streams)
    (hc : ClsOk s.streams s.now) (hf : s.streams.finished = []) (ha : AscLists s.streams)
    (hps : Sorted lexLt s.pointers) (hpk : Keyed (fun p : Pointer => p.epochId) s.pointers)
    (hcov : ∀ ep ∈ epochs, ∃ e ∈ s.pointers, e.1 = ep.1) :
    (importStr s.now epochs (exportStr s)).map exportStr = some (exportStr s) := by
  rw [streamer_roundtrip_partial s epochs h hc hf ha hps hpk hcov]; rfl

theorem streamer_roundtrip_reachable_partial (ops : List (Nat × RsOp)) (now params last : Nat) (epochs : List (Bytes × Nat))
    (ptrs : KV Bytes Pointer) (hc : ClsOk (rsRun ops) now) (hf : (rsRun ops).finished = []) (ha : AscLists (rsRun ops))
    (hps : Sorted lexLt ptrs) (hpk : Keyed (fun p : Pointer => p.epochId) ptrs) (hcov : ∀ ep ∈ epochs, ∃ e ∈ ptrs, e.1 = ep.1) :
    importStr now epochs (exportStr ⟨now, params, last, rsRun ops, ptrs⟩) = some ⟨now, params, last, rsRun ops, ptrs⟩ :=
  streamer_roundtrip_partial ⟨now, params, last, rsRun ops, ptrs⟩ epochs (rsInv_run ops) hc hf ha hps hpk hcov

/-- the epoch pointers alone survive whenever every epoch has its pointer (mid-epoch positions included) -/
theorem streamer_pointers_survive (ptrs : KV Bytes Pointer) (epochs : List (Bytes × Nat)) (hps : Sorted lexLt ptrs)
    (hpk : Keyed (fun p : Pointer => p.epochId) ptrs) (hcov : ∀ ep ∈ epochs, ∃ e ∈ ptrs, e.1 = ep.1) :
    strInitPointers epochs (exportVals ptrs) = ptrs := strInitPointers_export hps hpk epochs hcov

def strEpochs : List (Bytes × Nat) := [([100], 86400), ([104], 3600)]
/-- streams 2 and 3 active since 5 (listed [2, 3]), stream 4 upcoming; the day pointer is mid-epoch -/
def strOk : StrState :=
  { now := 10, params := 0, lastStreamId := 4,
    streams := { items := [(2, ⟨2, 5, false, 3, 1, 0⟩), (3, ⟨3, 5, false, 3, 0, 0⟩), (4, ⟨4, 20, false, 3, 0, 0⟩)],
                 upcoming := [(20, [4])], active := [(5, [2, 3])], finished := [] },
    pointers := [([100], ⟨[100], 3, 7, 86400⟩), ([104], ⟨[104], 0, 0, 3600⟩)] }

theorem strOk_inv : RsInv strOk.streams :=
  RsInv.of_checks (by unfold Sorted; decide) (by unfold Keyed; decide)
    (forall_cls (by unfold Sorted; decide) (by unfold Sorted; decide) (by unfold Sorted; decide))
    (forall_cls (by decide) (by decide) (by decide)) (forall_cls (by decide) (by decide) (by decide))
    (by decide) (by decide)

example : importStr strOk.now strEpochs (exportStr strOk) = some strOk :=
  streamer_roundtrip_partial _ _ strOk_inv
    (ClsOk.of_checks strOk_inv.si (forall_cls (by decide) (by decide) (by decide))) rfl
    (forall_cls (by decide) (by decide) (by decide)) (by unfold Sorted; decide) (by unfold Keyed; decide) (by decide)

/-- (a): stream 3 was activated before stream 2 -/
def strOrder : StrState := { strOk with streams := { strOk.streams with active := [(5, [3, 2])] } }
/-- (b): stream 4 (the newest) is finished -/
def strFinished : StrState :=
  { strOk with streams := { strOk.streams with items := [(2, ⟨2, 5, false, 3, 1, 0⟩), (3, ⟨3, 5, false, 3, 0, 0⟩), (4, ⟨4, 6, false, 3, 3, 0⟩)],
                                               upcoming := [], finished := [(6, [4])] } }

theorem strOrder_inv : RsInv strOrder.streams :=
  RsInv.of_checks (by unfold Sorted; decide) (by unfold Keyed; decide)
    (forall_cls (by unfold Sorted; decide) (by unfold Sorted; decide) (by unfold Sorted; decide))
    (forall_cls (by decide) (by decide) (by decide)) (forall_cls (by decide) (by decide) (by decide))
    (by decide) (by decide)

theorem strFinished_inv : RsInv strFinished.streams :=
  RsInv.of_checks (by unfold Sorted; decide) (by unfold Keyed; decide)
    (forall_cls (by unfold Sorted; decide) (by unfold Sorted; decide) (by unfold Sorted; decide))
    (forall_cls (by decide) (by decide) (by decide)) (forall_cls (by decide) (by decide) (by decide))
    (by decide) (by decide)

theorem streamer_roundtrip_counterexample :
    (∃ s, RsInv s.streams ∧ ClsOk s.streams s.now ∧ s.streams.finished = [] ∧
       (importStr s.now strEpochs (exportStr s)).map (·.streams.active) = some [(5, [2, 3])] ∧ s.streams.active = [(5, [3, 2])]) ∧
    (∃ s, RsInv s.streams ∧ ClsOk s.streams s.now ∧
       (importStr s.now strEpochs (exportStr s)).map (fun t => (t.lastStreamId, maxId ((exportVals t.streams.items).map (·.id)))) = some (4, 3)) :=
  ⟨⟨strOrder, strOrder_inv, ClsOk.of_checks strOrder_inv.si (forall_cls (by decide) (by decide) (by decide)), rfl,
     by decide, rfl⟩,
   ⟨strFinished, strFinished_inv, ClsOk.of_checks strFinished_inv.si (forall_cls (by decide) (by decide) (by decide)),
     by decide⟩⟩

/-! ## 7. x/sponsorship -/

/- **sponsorship_roundtrip** (full statement — FALSE on the current code):
     ∀ s, SponsInv s → importSpons (exportSpons s) = s
   Endorsements and the claim blacklist are not part of the genesis state; the distribution is
   recomputed from the votes. -/

/-- votes, per-validator powers and parameters survive exactly; the recomputed distribution has, gauge
    by gauge and in total, the sum of the votes' powers — the value the original distribution has by
    C16's `distribution_eq_sum_of_votes` -/
theorem sponsorship_roundtrip_partial (s : SponsState) (h : SponsInv s) (hv : ∀ e ∈ s.votes, Spons.VoteOK e.2) :
    (importSpons (exportSpons s)).votes = s.votes ∧ (importSpons (exportSpons s)).dvp = s.dvp ∧
    (importSpons (exportSpons s)).params = s.params ∧
    (∀ g, Spons.gget (importSpons (exportSpons s)).dist.gauges g = ((s.votes.map (·.2)).map fun v => v.pow g).sum) ∧
    (importSpons (exportSpons s)).dist.vp = ((s.votes.map (·.2)).map (·.vp)).sum := by
  have hvd := spons_votes_dvp h
  have hr := spons_rest s
  have hd := sponsInitDist_spec (s.votes.map (·.2)) (by
    intro v hvm; obtain ⟨e, he, rfl⟩ := List.mem_map.1 hvm; exact hv e he)
  rw [hr.2.2.2]
  exact ⟨hvd.1, hvd.2, hr.1, hd.1, hd.2⟩

theorem sponsorship_export_import_export (s : SponsState) (h : SponsInv s) :
    exportSpons (importSpons (exportSpons s)) = exportSpons s := by
  have e : ∀ a b : SponsState, a.votes = b.votes → a.dvp = b.dvp → a.params = b.params → exportSpons a = exportSpons b := by
    intro a b h1 h2 h3; unfold exportSpons; rw [h1, h2, h3]
  exact e _ _ (spons_votes_dvp h).1 (spons_votes_dvp h).2 (spons_rest s).1

def sponsEx : SponsState :=
  { params := 1, votes := [([1], ⟨10, [(2, 50000000000000000000)]⟩)], dvp := [(([1], [9]), 10)],
    dist := ⟨10, [(2, 5)]⟩, endorsements := [([114], 2)], blacklist := [[1]] }

theorem sponsEx_inv : SponsInv sponsEx :=
  SponsInv.of_checks (by unfold Sorted; decide) (by unfold Sorted; decide) (by decide)

theorem sponsorship_roundtrip_counterexample :
    ∃ s, SponsInv s ∧ importSpons (exportSpons s) ≠ s ∧
      (importSpons (exportSpons s)).endorsements = [] ∧ (importSpons (exportSpons s)).blacklist = [] ∧
      (importSpons (exportSpons s)).dist = s.dist :=
  ⟨sponsEx, sponsEx_inv, by decide, by decide, by decide, by decide⟩

/-! ## 8. x/dymns -/

/- **dymns_roundtrip** (full statement — FALSE on the current code, by design of x/dymns/genesis.go):
     ∀ s, DymnsInv s → reimportDymns s = s
   Sell orders, bids and buy orders are not carried over; bids and offers are refunded by MINTING. -/

/-- names and their three reverse lookups, parameters, balances and supply survive when no order is
    open and no name expired longer ago than the grace period -/
theorem dymns_roundtrip_partial (s : DymnsState) (h : DymnsInv s) (hk : ∀ x ∈ s.names, x.2.kept s.now s.grace = true)
    (hs : s.sellOrders = []) (hb : s.buyOrders = []) : reimportDymns s = s := dymns_reimport_quiet h hk hs hb

/-- in EVERY state the supply after import is the old supply plus all refunded bids and offers, while
    the escrow stays in the module account -/
theorem dymns_supply_after_import (s : DymnsState) :
    (reimportDymns s).supply = s.supply + ((exportDymns s).bids.map (·.amount)).sum +
      ((exportDymns s).buyOrders.map (·.offer)).sum ∧ (reimportDymns s).modBal = s.modBal :=
  dymns_reimport_supply s

def dymnsQuiet : DymnsState :=
  { now := 100, params := 0, grace := 10,
    names := [([97], ⟨[97], [1], 500, [[1], [7]], [[1]], 0⟩), ([98], ⟨[98], [1], 95, [[1]], [[1]], 0⟩)],
    ownIdx := [(([1], [97]), ()), (([1], [98]), ())],
    cfgIdx := [(([1], [97]), ()), (([1], [98]), ()), (([7], [97]), ())],
    fbIdx := [(([1], [97]), ()), (([1], [98]), ())],
    sellOrders := [], buyOrders := [], bal := [([1], 50)], modBal := 0, supply := 50 }

theorem dymnsQuiet_inv : DymnsInv dymnsQuiet :=
  DymnsInv.of_checks (by unfold Sorted; decide) (by unfold Keyed; decide) (by unfold Sorted; decide)
    (by unfold Sorted; decide) (by unfold Sorted; decide) (by decide) (by decide) (by decide) (by decide) (by decide) (by decide)

example : reimportDymns dymnsQuiet = dymnsQuiet := dymns_roundtrip_partial _ dymnsQuiet_inv (by decide) rfl rfl

/-- a bid of 30 on name "a" and a buy order offering 20 are open (50 in escrow) -/
def dymnsOpen : DymnsState :=
  { dymnsQuiet with sellOrders := [([97], ⟨[97], some ⟨[2], 30⟩, 0⟩)], buyOrders := [([49], ⟨[49], [3], 20, some 25, 0⟩)],
                    bal := [([1], 50)], modBal := 50, supply := 100 }

theorem dymns_roundtrip_counterexample :
    ∃ s, DymnsInv s ∧ reimportDymns s ≠ s ∧ (reimportDymns s).supply = s.supply + 50 ∧
      (reimportDymns s).modBal = s.modBal ∧ (reimportDymns s).sellOrders = [] ∧ (reimportDymns s).buyOrders = [] :=
  ⟨dymnsOpen, ⟨dymnsQuiet_inv.sn, dymnsQuiet_inv.kn, dymnsQuiet_inv.so, dymnsQuiet_inv.sc, dymnsQuiet_inv.sf,
      dymnsQuiet_inv.own, dymnsQuiet_inv.cfg, dymnsQuiet_inv.fb⟩, by decide, by decide, by decide, by decide, by decide⟩

/-! ## 9. x/lightclient -/

/- **lightclient_roundtrip** (full statement): ∀ s, LcInv s → importLc (exportLc s) = some s.
   Holds for the canonical pairs (both directions) and the signer set.  The height → signer map is
   rebuilt from the signer set in key order, so it survives only when it names exactly the recorded
   signers (`SignersExact`: one signer per (client, height)); `SaveSigner` itself does not enforce that. -/

theorem lightclient_roundtrip_partial (s : LcState) (h : LcInv s) (hex : SignersExact s) :
    importLc (exportLc s) = some s := lc_import_export h hex

/-- canonical clients in both directions and the signer set survive in every state satisfying `LcInv` -/
theorem lightclient_canonical_and_signers_survive (s : LcState) (h : LcInv s) :
    ∃ t, importLc (exportLc s) = some t ∧ t.r2c = s.r2c ∧ t.c2r = s.c2r ∧ t.signers = s.signers := by
  obtain ⟨t, ht, h1, h2, h3, _⟩ := lc_import_export_parts h
  exact ⟨t, ht, h1, h2, h3⟩

theorem lightclient_export_import_export (s : LcState) (h : LcInv s) :
    (importLc (exportLc s)).map exportLc = some (exportLc s) := by
  obtain ⟨t, ht, h1, _, h3, _⟩ := lc_import_export_parts h
  rw [ht]; simp only [Option.map_some, exportLc, h1, h3]

def lcEx : LcState :=
  { r2c := [([114], [7, 0]), ([115], [7, 1])], c2r := [([7, 0], [114]), ([7, 1], [115])],
    signers := [(([1], [7, 0], 5), ()), (([1], [7, 0], 6), ()), (([2], [7, 1], 5), ())],
    h2s := [(([7, 0], 5), [1]), (([7, 0], 6), [1]), (([7, 1], 5), [2])] }

theorem lcEx_inv : LcInv lcEx :=
  LcInv.of_checks (by unfold Sorted; decide) (by unfold Sorted; decide) (by decide) (by decide) (by decide)
    (by unfold Sorted; decide) (by unfold Sorted; decide)

example : importLc (exportLc lcEx) = some lcEx :=
  lightclient_roundtrip_partial _ lcEx_inv (SignersExact.of_checks (by decide) (by decide))

/-- two sequencers are recorded for (client 7/0, height 5); the map names the one written last ([1]) -/
def lcTwo : LcState :=
  { lcEx with signers := [(([1], [7, 0], 5), ()), (([3], [7, 0], 5), ())], h2s := [(([7, 0], 5), [1])] }

theorem lightclient_roundtrip_counterexample :
    ∃ s, LcInv s ∧ importLc (exportLc s) ≠ some s ∧ (importLc (exportLc s)).map (·.h2s) = some [(([7, 0], 5), [3])] :=
  ⟨lcTwo, LcInv.of_checks (by unfold Sorted; decide) (by unfold Sorted; decide) (by decide) (by decide) (by decide)
      (by unfold Sorted; decide) (by unfold Sorted; decide), by decide, by decide⟩

end DymVerif.C18M
