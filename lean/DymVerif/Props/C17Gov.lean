/-
  Props/C17Gov — C17 across the governance paths of x/dymns (`MigrateChainIdsProposal`,
  `UpdateAliasesProposal`; keeper/proposal.go) which the message-level theorems of Props/C17 take as
  ordinary operations of a history (`Op.migrateChainIds`, `Op.updateAliases`).

  * The chain-id migration rewrites name records with `SetDymName` and deliberately skips the
    Before/After config hooks.  The reverse indexes stay exact all the same
    (`migration_keeps_indexes`, and `reachable_inv` / `indexes_consistent_*` of Props/C17 hold for
    histories that contain migrations): the index keys depend on the values and on which config is the
    default one, and the migration changes neither (`migration_changes_only_chain_ids`).
  * What the migration does break — for the code as it is — is `resolve_agree`: a migration ONTO THE
    HOST CHAIN-ID stores the host chain-id as a literal text, while every message stores the host
    chain as the empty chain-id and forward resolution only ever looks the empty chain-id up.  The
    rewritten record is listed by reverse resolution on the host chain and is unreachable by forward
    resolution (`resolve_agree_counterexample_host_literal`); it can also sit next to a record of
    the same name for the same path on the (empty) host chain-id
    (`host_literal_record_duplicates_host_record`).  Reachable through governance only.
    `resolve_agree_partial` (Props/C17) therefore assumes `NoLitName`; `hostLit_free` shows that the
    assumption holds in every history without a migration onto the host chain-id.
-/
import DymVerif.Props.C17
namespace DymVerif.C17
open DymVerif DymVerif.DymNS

/-- **indexes_consistent across a chain-id migration**: the three reverse indexes are exact after the
    migration although no Before/After config hook ran -/
theorem migration_keeps_indexes {s s' : State} {m : List (Chain × Chain)} (hI : Inv s)
    (h : exec s (.migrateChainIds m) = .ok s') : IdxOK s'.ns :=
  (exec_inv hI h).idx

/-- **what a chain-id migration can change**: no record appears or disappears; of a record only the
    chain-ids of its address records change — never from or to the empty (host) chain-id — while
    owner, controller, expiry, contact, and the paths and values of the address records stay; the
    records of expired names are not touched at all -/
theorem migration_changes_only_chain_ids {s s' : State} {m : List (Chain × Chain)}
    (h : exec s (.migrateChainIds m) = .ok s') (n : Name) :
    (getName s' n).isSome = (getName s n).isSome ∧
    ∀ d, getName s n = some d → ∃ d', getName s' n = some d' ∧
      d'.owner = d.owner ∧ d'.controller = d.controller ∧ d'.expireAt = d.expireAt ∧ d'.contact = d.contact ∧
      d'.configs.map (·.path) = d.configs.map (·.path) ∧ d'.configs.map (·.value) = d.configs.map (·.value) ∧
      d'.configs.map (fun c => decide (c.chain = 0)) = d.configs.map (fun c => decide (c.chain = 0)) ∧
      (d.expired s.now = true → d' = d) := by
  obtain ⟨rfl, _, _⟩ := migrateChainIds_ok h
  rw [getName_migrateT]
  refine ⟨by cases getName s n <;> rfl, fun d hd => ⟨migName s.now m d, by rw [hd]; rfl, by simp, by simp, by simp, by simp, ?_⟩⟩
  rcases migName_cases s.now m d with e | ⟨he, _, e⟩
  · rw [e]; exact ⟨rfl, rfl, rfl, fun _ => rfl⟩
  · rw [e]
    refine ⟨?_, ?_, ?_, fun hx => by rw [he] at hx; cases hx⟩
    · simp [List.map_map, Function.comp_def]
    · simp [List.map_map, Function.comp_def]
    · simp only [List.map_map, Function.comp_def]
      apply List.map_congr_left
      intro c _
      have := migConfig_chain_zero m c
      by_cases hz : c.chain = 0
      · simp [hz, this.mpr hz]
      · have : ¬ (migConfig m c).chain = 0 := fun e => hz (this.mp e)
        simp [hz, this]

/-- the governance paths leave the module params with pairwise distinct chain-ids and aliases
    (`validateAliasesOfChainIds` runs inside `SetParams`) -/
theorem governance_params_valid {s s' : State} {op : Op} (h : exec s op = .ok s')
    (hop : (∃ m, op = .migrateChainIds m) ∨ ∃ ad rm, op = .updateAliases ad rm) :
    caValid s'.p.chainAliases = true := by
  rcases hop with ⟨m, rfl⟩ | ⟨ad, rm, rfl⟩
  · obtain ⟨rfl, _, hv⟩ := migrateChainIds_ok h; exact hv
  · obtain ⟨ca, rfl, hv⟩ := updateAliases_ok h; exact hv

/-- valid chains params list no alias under two chain-ids: the assumption `ParamsWF` of
    `resolve_agree_partial` is what `validateAliasesOfChainIds` enforces, and therefore holds after
    every accepted chain-id migration and alias update (`governance_params_valid`) -/
theorem paramsWF_of_caValid {p : Params} (h : caValid p.chainAliases = true) : ParamsWF p := by
  unfold caValid at h
  simp only [Bool.and_eq_true, decide_eq_true_eq] at h
  obtain ⟨_, hn⟩ := h
  unfold ParamsWF
  generalize p.chainAliases = ca at hn
  induction ca with
  | nil => intro r hr; cases hr
  | cons x xs ih =>
    simp only [List.flatMap_cons, List.nodup_append] at hn
    obtain ⟨hx, hxs, hdis⟩ := hn
    intro r hr r' hr' l hl hl'
    rcases List.mem_cons.mp hr with e1 | h1 <;> rcases List.mem_cons.mp hr' with e2 | h2
    · rw [e1, e2]
    · subst e1; exact absurd rfl (hdis l hl l (List.mem_flatMap.mpr ⟨r', h2, hl'⟩))
    · subst e2; exact absurd rfl (hdis l hl' l (List.mem_flatMap.mpr ⟨r, h1, hl⟩))
    · exact ih hxs r h1 r' h2 l hl hl'

/-- **no host-literal records without a migration onto the host chain-id**: in every history none of
    whose operations is a chain-id migration with the host chain-id as a target (nor carries the
    text-less id `hostLit` as an argument), no address record is stored under the literal host
    chain-id — so the extra assumption `NoLitName` of `resolve_agree_partial` holds for every name -/
theorem hostLit_free (p : Params) (t : Nat) (ops : List Op) (hops : ∀ op ∈ ops, ¬ IntroducesLit op) (n : Name) :
    NoLitName (run (State.start p t) ops) n := by
  have h0 := init_inv
  have hN := run_inv_noLit ops (s := State.start p t)
    { wfN := h0.wfN, wfA := h0.wfA, wfB := h0.wfB, esc := h0.esc, idx := h0.idx, ali := h0.ali, so := h0.so, boK := h0.boK }
    (by intro n d hd; simp [getName, State.start, State.init, NameStore.get] at hd) hops
  intro d hl c hc
  exact hN n d (getNameLive_some hl).1 c hc

/-- a0 registers n0 and points `n0@cosmoshub-4` (chain 100) to a1's cosmos address; governance then
    migrates chain-id cosmoshub-4 to the host chain-id -/
def cxHostLit : State := run (State.start cxParams 1000)
  [.fund 0 100, .register 0 0 1 5 0, .updateResolve 0 0 100 false 0 (some ⟨100, 1⟩), .migrateChainIds [(100, 0)]]

/-- **resolve_agree_counterexample (record migrated onto the host chain-id)**: the record is now
    stored under the literal host chain-id; reverse resolution of a1's cosmos address on the host
    chain lists `n0@host`, which resolves forward to a0's own address — no handle resolves forward to
    the stored record any more.  The reverse indexes are exact in this state (`reachable_inv`). -/
theorem resolve_agree_counterexample_host_literal :
    (∃ d, getName cxHostLit 0 = some d ∧ d.configs = [⟨hostLit, 0, ⟨100, 1⟩⟩]) ∧
    (0, 0, Handle.chain 0) ∈ reverse cxHostLit ⟨100, 1⟩ 0 ∧
    resolve cxHostLit 0 0 (.chain 0) = some ⟨0, 0⟩ ∧ resolve cxHostLit 0 0 (.chain 100) = none := by
  decide

/-- the same migration with a host-chain record for the same path already present: the name ends up
    with two records for (host chain, path 0) — `DymName.Validate` compares the identity texts, and the
    empty chain-id differs from the literal host chain-id -/
def cxHostDup : State := run (State.start cxParams 1000)
  [.fund 0 100, .register 0 0 1 5 0, .updateResolve 0 0 0 true 0 (some ⟨0, 2⟩),
   .updateResolve 0 0 100 false 0 (some ⟨100, 1⟩), .migrateChainIds [(100, 0)]]

theorem host_literal_record_duplicates_host_record :
    (∃ d, getName cxHostDup 0 = some d ∧ d.configs = [⟨0, 0, ⟨0, 2⟩⟩, ⟨hostLit, 0, ⟨100, 1⟩⟩]) ∧
    cfgText 0 = cfgText hostLit ∧
    resolve cxHostDup 0 0 (.chain 0) = some ⟨0, 2⟩ ∧
    (0, 0, Handle.chain 0) ∈ reverse cxHostDup ⟨0, 2⟩ 0 ∧ (0, 0, Handle.chain 0) ∈ reverse cxHostDup ⟨100, 1⟩ 0 := by
  decide

/-- **a parameter update while orders are open** (`MsgUpdateParams`: grace period, sell-order
    duration, minimum offer, bid increment): accepted only inside the bounds of `validatePriceParams` /
    `validateMiscParams`; no record, order, bid, offer or balance changes — an open sell order keeps the
    expiry it was placed with, an open offer below the new minimum stays escrowed and refundable.
    (`escrow_inv`, `reachable_inv`, `owner_unique_authorised` of Props/C17 quantify over histories
    that contain such updates; the grace period and the bid increment they mention are the values in
    force when the respective message is processed.) -/
theorem params_change_keeps_orders {s s' : State} {g d mo bi : Nat} (h : exec s (.setParams g d mo bi) = .ok s') :
    (minPriceValue ≤ mo ∧ bi ≤ 10 ∧ 30 * 86400 ≤ g ∧ 1 ≤ d ∧ d ≤ 7 * 86400) ∧
    s'.p = { s.p with grace := g, soDur := d, minOffer := mo, bidInc := bi } ∧
    s'.ns = s.ns ∧ s'.nameSO = s.nameSO ∧ s'.aliasSO = s.aliasSO ∧ s'.bos = s.bos ∧ s'.al = s.al ∧
    s'.bal = s.bal ∧ s'.modBal = s.modBal ∧ s'.now = s.now ∧ escrowed s' = escrowed s := by
  obtain ⟨rfl, h1, h2, h3, h4, h5⟩ := setParams_ok h
  exact ⟨⟨h1, h2, h3, h4, h5⟩, rfl, rfl, rfl, rfl, rfl, rfl, rfl, rfl, rfl, rfl⟩

/-! ## non-vacuity -/

/-- a migration onto a chain-id other than the host's keeps forward and reverse resolution in
    agreement: the record moves to the new chain-id in both directions, the indexes are untouched -/
example :
    let s := run (State.start cxParams 1000)
      [.fund 0 100, .register 0 0 1 5 0, .updateResolve 0 0 100 false 1 (some ⟨100, 1⟩), .migrateChainIds [(100, 102)]]
    resolve s 1 0 (.chain 102) = some ⟨100, 1⟩ ∧ resolve s 1 0 (.chain 100) = none ∧
    reverse s ⟨100, 1⟩ 102 = [(1, 0, .chain 102)] ∧ s.ns.cfgIdx.lookup ⟨100, 1⟩ = [0] := by decide

/-- two records that would collapse onto the same (chain, path): the record fails `Validate` and the
    name is skipped -/
example :
    let s0 := run (State.start cxParams 1000)
      [.fund 0 100, .register 0 0 1 5 0, .updateResolve 0 0 100 false 0 (some ⟨100, 1⟩),
       .updateResolve 0 0 102 false 0 (some ⟨100, 2⟩)]
    getName (step s0 (.migrateChainIds [(100, 102)])) 0 = getName s0 0 := by decide

/-- `UpdateAliases`: add an alias to a new chain-id, remove one of an existing chain-id; the result is
    stored sorted by chain-id text and alias text; a rejected update changes nothing -/
example :
    let s := run (State.start { cxParams with chainAliases := [(0, [1000]), (100, [1001]), (101, [])] } 1000)
      [.updateAliases [(102, 1002), (100, 1003)] [(0, 1000)]]
    s.p.chainAliases = [(100, [1001, 1003]), (102, [1002]), (101, [])] := by decide
def errOf (r : M State) : Option Err := match r with | .error e => some e | .ok _ => none
example :
    let s0 := State.start { cxParams with chainAliases := [(0, [1000]), (100, [1001])] } 1000
    errOf (exec s0 (.updateAliases [(100, 1001)] [])) = some .exists_ ∧
    errOf (exec s0 (.updateAliases [] [(102, 1002)])) = some .notfound ∧
    errOf (exec s0 (.updateAliases [(102, 1000)] [])) = some .invalid ∧
    errOf (exec s0 (.updateAliases [] [])) = some .invalid := by decide

/-- a0 lists n1 (order lasts 10 s), a1 bids 100; the params change to +10 % increment, orders of one
    hour, minimum offer 2e18: a bid of 109 is refused, 110 accepted (a1 refunded), the order still ends
    at the expiry it was placed with -/
example :
    let s := run (State.start cxParams 1000)
      [.fund 0 1000, .fund 1 1000, .fund 2 1000, .register 0 1 2 5 0, .sellName 0 1 2 0, .buyName 1 1 100,
       .setParams (30 * 86400) 3600 (2 * 10 ^ 18) 10]
    s.p.bidInc = 10 ∧ (AMap.get s.nameSO 1).map (·.expireAt) = some 1010 ∧
    balOf (step s (.buyName 2 1 109)) 2 = 1000 ∧ balOf (step s (.buyName 2 1 110)) 2 = 890 ∧
    balOf (step s (.buyName 2 1 110)) 1 = 1000 ∧ (step s (.buyName 2 1 110)).modBal = 110 := by decide

end DymVerif.C17
