/-
  Props/C19Coll — C19 for the cosmossdk.io/collections key codecs: keys decode back to exactly what
  they name, composite keys sort numerically by height, and the range scans the hub builds
  (`NewPrefixedPairRange` ± `StartExclusive` / `EndExclusive`, `NewPrefixUntilPairRange`,
  `NewSuperPrefixedTripleRange`) return exactly the entries of the requested string(s) / heights.
  The only hypothesis on strings is the one the codec itself enforces (no 0x00 byte): it is carried by
  `… = some _` (an encoding error of the Go code is `none`), and `coll_str_encodable` shows it is met
  by every NUL-free string.  Numbers are uint64.
-/
import DymVerif.Model.KeysColl
import DymVerif.Lemmas.KeysRange
namespace DymVerif.C19
open DymVerif DymVerif.Keys

/-- the codec refuses exactly the strings that contain the delimiter -/
theorem coll_str_encodable (s : Bytes) : collStrNT s = some (s ++ [0]) ↔ 0 ∉ s := by
  unfold collStrNT; by_cases h : 0 ∈ s <;> simp [h]

theorem coll_str_nt_some (s e : Bytes) (h : collStrNT s = some e) : 0 ∉ s ∧ e = s ++ [0] := by
  unfold collStrNT at h
  by_cases h0 : 0 ∈ s
  · simp [h0] at h
  · simp [h0] at h; exact ⟨h0, h.symm⟩

theorem splitAtSep_append (sp : Nat) (s r : Bytes) (hs : sp ∉ s) :
    splitAtSep sp (s ++ sp :: r) = some (s, r) := by
  induction s with
  | nil => simp [splitAtSep]
  | cons x xs ih =>
    have hx : x ≠ sp := fun e => hs (by simp [e])
    have hxs : sp ∉ xs := fun e => hs (by simp [e])
    simp [splitAtSep, hx, ih hxs]

/-- `DecodeNonTerminal(EncodeNonTerminal(s) ++ rest) = (s, rest)`: a non-terminal string reads back
    exactly, whatever follows it -/
theorem coll_str_nt_roundtrip (s e rest : Bytes) (h : collStrNT s = some e) :
    collStrDecodeNT (e ++ rest) = some (s, rest) := by
  obtain ⟨h0, rfl⟩ := coll_str_nt_some s e h
  simp only [collStrDecodeNT, List.append_assoc, List.singleton_append]
  exact splitAtSep_append 0 s rest h0

theorem coll_u64_roundtrip (n : Nat) (rest : Bytes) (hn : n < 2 ^ 64) :
    collU64Decode (collU64 n ++ rest) = some (n, rest) := by
  have hl := be64_length n
  unfold collU64Decode collU64
  have : ¬ (be64 n ++ rest).length < 8 := by simp [hl]
  rw [if_neg this, List.take_left' hl, List.drop_left' hl]
  rw [show beVal (be64 n) = n from beVal_beN 8 n (by simpa using hn)]

/-- the bytes codec in non-terminal position is injective (length byte) -/
theorem coll_bytes_nt_injective (a b e : Bytes) (ha : collBytesNT a = some e) (hb : collBytesNT b = some e) :
    a = b := by
  unfold collBytesNT at ha hb
  split at ha <;> split at hb <;> simp_all
  rw [← hb] at ha; exact (List.cons.inj ha).2

/-! ## Pair[string, uint64] — x/rollapp `seqToUnfinalizedHeight`, x/eibc `byAddr` -/

theorem pair_str_u64_key_some (pfx s K : Bytes) (n : Nat) (h : pairStrU64Key pfx s n = some K) :
    0 ∉ s ∧ K = pfx ++ (s ++ [0] ++ be64 n) := by
  unfold pairStrU64Key collWithPrefix collPair at h
  cases he : collStrNT s with
  | none => simp [he] at h
  | some e =>
    obtain ⟨h0, rfl⟩ := coll_str_nt_some s e he
    simp [he, collU64] at h
    exact ⟨h0, by rw [← h]; simp⟩

/-- C19 "round-trips exactly": the (sequencer, height) key reads back as exactly that pair -/
theorem pair_str_u64_roundtrip (pfx s K : Bytes) (n : Nat) (hn : n < 2 ^ 64)
    (h : pairStrU64Key pfx s n = some K) : pairStrU64Decode (K.drop pfx.length) = some (s, n) := by
  obtain ⟨h0, rfl⟩ := pair_str_u64_key_some pfx s K n h
  rw [List.drop_left' rfl]
  unfold pairStrU64Decode
  have h1 := coll_str_nt_roundtrip s (s ++ [0]) (be64 n) ((coll_str_encodable s).2 h0)
  rw [h1]
  have h2 := coll_u64_roundtrip n [] hn
  simp only [collU64, List.append_nil] at h2
  simp [h2]

/-- C19 "names one and only one object": injective in (string, number) -/
theorem pair_str_u64_key_injective (pfx s s' K : Bytes) (n n' : Nat) (hn : n < 2 ^ 64) (hn' : n' < 2 ^ 64)
    (h : pairStrU64Key pfx s n = some K) (h' : pairStrU64Key pfx s' n' = some K) : s = s' ∧ n = n' := by
  have r := pair_str_u64_roundtrip pfx s K n hn h
  have r' := pair_str_u64_roundtrip pfx s' K n' hn' h'
  rw [r] at r'
  simpa using r'

/-- C19 "sort numerically by height": within one string, keys sort as the numbers -/
theorem pair_str_u64_key_order (pfx s K K' : Bytes) (n n' : Nat) (hn : n < 2 ^ 64) (hn' : n' < 2 ^ 64)
    (h : pairStrU64Key pfx s n = some K) (h' : pairStrU64Key pfx s n' = some K') :
    lexLt K K' = decide (n < n') := by
  obtain ⟨_, rfl⟩ := pair_str_u64_key_some pfx s K n h
  obtain ⟨_, rfl⟩ := pair_str_u64_key_some pfx s K' n' h'
  rw [lexLt_append_left, lexLt_append_left, lexLt_be64 n n' hn hn']

theorem scan_by_string_some (pfx s : Bytes) (rg : CRange) (h : scanByString pfx s = some rg) :
    0 ∉ s ∧ rg = (pfx ++ s ++ [0], some (pfx ++ s ++ [1])) := by
  unfold scanByString prefixedPairRange collWithPrefix collPairPrefix nextBytesPrefixKey at h
  cases he : collStrNT s with
  | none => simp [he] at h
  | some e =>
    obtain ⟨h0, rfl⟩ := coll_str_nt_some s e he
    simp only [he, Option.map_some, Option.some.injEq] at h
    refine ⟨h0, ?_⟩
    rw [← h, ← List.append_assoc, prefixEnd_snoc (pfx ++ s) 0 (by decide)]

/-- every NUL-free string has a scan (non-vacuity of the `= some` hypotheses below) -/
theorem scan_by_string_defined (pfx s : Bytes) (h0 : 0 ∉ s) :
    scanByString pfx s = some (pfx ++ s ++ [0], some (pfx ++ s ++ [1])) := by
  unfold scanByString prefixedPairRange collWithPrefix collPairPrefix nextBytesPrefixKey
  rw [(coll_str_encodable s).2 h0]
  simp only [Option.map_some]
  rw [← List.append_assoc, prefixEnd_snoc (pfx ++ s) 0 (by decide)]

/-- the bounds pass `parseRangeInstruction`'s start ≤ end check -/
theorem scan_by_string_valid (pfx s : Bytes) (rg : CRange) (h : scanByString pfx s = some rg) :
    rangeValid rg = true := by
  obtain ⟨_, rfl⟩ := scan_by_string_some pfx s rg h
  simp only [rangeValid, List.append_assoc, lexLt_append_left]
  simp [lexLt]

/-- what a stored key of these maps looks like after the map prefix: string, delimiter, anything -/
theorem isPrefix_str_delim (q s s' rest : Bytes) (h0 : 0 ∉ s) (h0' : 0 ∉ s') :
    isPrefix (q ++ s ++ [0]) (q ++ (s' ++ [0] ++ rest)) = decide (s' = s) := by
  by_cases e : s' = s
  · subst e
    have : q ++ (s' ++ [0] ++ rest) = (q ++ s' ++ [0]) ++ rest := by simp
    rw [this, isPrefix_append]; simp
  · cases hp : isPrefix (q ++ s ++ [0]) (q ++ (s' ++ [0] ++ rest)) with
    | false => simp [e]
    | true =>
      obtain ⟨x, hx⟩ := (isPrefix_iff _ _).1 hp
      simp only [List.append_assoc, List.singleton_append, List.cons_append, List.nil_append] at hx
      have := (sep_split_unique 0 s' s _ _ h0' h0 (List.append_cancel_left hx)).1
      exact absurd this e

/-- **`CanUnbond`, `LPs.GetByAddr`, `GetPendingPacketsByAddress`** (`NewPrefixedPairRange(s)` over
    `Pair[string, uint64]` and `Pair[string, []byte]`): the scan for `s` returns the entry
    `(s', anything)` exactly when `s' = s` — a scan for one sequencer / owner / receiver never returns
    entries of another, even when one address string extends the other -/
theorem scan_by_string_exact (pfx s s' k2 K : Bytes) (rg : CRange)
    (hr : scanByString pfx s = some rg) (hk : pairStrBytesKey pfx s' k2 = some K) :
    inCRange rg K = decide (s' = s) := by
  obtain ⟨h0, rfl⟩ := scan_by_string_some pfx s rg hr
  have hK : 0 ∉ s' ∧ K = pfx ++ (s' ++ [0] ++ k2) := by
    unfold pairStrBytesKey collWithPrefix collPair collBytesT at hk
    cases he : collStrNT s' with
    | none => simp [he] at hk
    | some e =>
      obtain ⟨h0', rfl⟩ := coll_str_nt_some s' e he
      simp [he] at hk
      exact ⟨h0', by rw [← hk]; simp⟩
  obtain ⟨h0', rfl⟩ := hK
  have := prefix_range_exact_snoc (pfx ++ s) 0 (pfx ++ (s' ++ [0] ++ k2))
  simp only [inRange] at this
  simp only [inCRange, inRangeO]
  rw [this, isPrefix_str_delim pfx s s' k2 h0 h0']

/-- the same for the uint64-valued maps, stated on their own key builder -/
theorem scan_by_string_u64_exact (pfx s s' K : Bytes) (n : Nat) (rg : CRange)
    (hr : scanByString pfx s = some rg) (hk : pairStrU64Key pfx s' n = some K) :
    inCRange rg K = decide (s' = s) :=
  scan_by_string_exact pfx s s' (be64 n) K rg hr (by simpa [pairStrU64Key, pairStrBytesKey, collU64, collBytesT] using hk)

/-- **`PruneSequencerHeights(seq, h)`** (`NewPrefixedPairRange(seq).StartExclusive(h)`): exactly the
    entries of `seq` with height strictly above `h` -/
theorem scan_by_string_above_exact (pfx s s' K : Bytes) (h n : Nat) (rg : CRange)
    (hh : h < 2 ^ 64) (hn : n < 2 ^ 64)
    (hr : scanByStringAbove pfx s h = some rg) (hk : pairStrU64Key pfx s' n = some K) :
    inCRange rg K = (decide (s' = s) && decide (h < n)) := by
  obtain ⟨h0', rfl⟩ := pair_str_u64_key_some pfx s' K n hk
  have hR : 0 ∉ s ∧ rg = (pfx ++ s ++ [0] ++ (be64 h ++ [0]), some (pfx ++ s ++ [1])) := by
    unfold scanByStringAbove prefixedPairRangeStartExclusive collWithPrefix collPair collPairPrefix
      nextBytesPrefixKey nextBytesKey collU64 at hr
    cases he : collStrNT s with
    | none => simp [he] at hr
    | some e =>
      obtain ⟨h0, rfl⟩ := coll_str_nt_some s e he
      simp only [he, Option.map_some, Option.some.injEq] at hr
      refine ⟨h0, ?_⟩
      rw [← hr, ← List.append_assoc pfx s [0], prefixEnd_snoc (pfx ++ s) 0 (by decide)]
      simp
  obtain ⟨h0, rfl⟩ := hR
  have := prefix_subrange_exact_snoc (pfx ++ s) 0 (be64 h ++ [0]) (pfx ++ (s' ++ [0] ++ be64 n))
  simp only [inRange] at this
  simp only [inCRange, inRangeO]
  rw [this, isPrefix_str_delim pfx s s' (be64 n) h0 h0']
  by_cases e : s' = s
  · subst e
    have hd : (pfx ++ (s' ++ [0] ++ be64 n)).drop ((pfx ++ s').length + 1) = be64 n := by
      have : pfx ++ (s' ++ [0] ++ be64 n) = (pfx ++ s' ++ [0]) ++ be64 n := by simp
      rw [this, List.drop_left' (by simp; omega)]
    rw [hd]
    simp only [lexLe, lexLt_eqlen_snoc (be64 n) (be64 h) 0 [] (by simp [be64_length]), lexLt_be64 h n hh hn]
    simp
  · simp [e]

/-- x/lightclient pruning below a height (`….EndExclusive(h)`): exactly the entries of `s` below `h` -/
theorem scan_by_string_below_exact (pfx s s' K : Bytes) (h n : Nat) (rg : CRange)
    (hh : h < 2 ^ 64) (hn : n < 2 ^ 64)
    (hr : scanByStringBelow pfx s h = some rg) (hk : pairStrU64Key pfx s' n = some K) :
    inCRange rg K = (decide (s' = s) && decide (n < h)) := by
  obtain ⟨h0', rfl⟩ := pair_str_u64_key_some pfx s' K n hk
  have hR : 0 ∉ s ∧ rg = (pfx ++ s ++ [0], some (pfx ++ s ++ [0] ++ be64 h)) := by
    unfold scanByStringBelow prefixedPairRangeEndExclusive collWithPrefix collPair collPairPrefix collU64 at hr
    cases he : collStrNT s with
    | none => simp [he] at hr
    | some e =>
      obtain ⟨h0, rfl⟩ := coll_str_nt_some s e he
      simp only [he, Option.map_some, Option.some.injEq] at hr
      exact ⟨h0, by rw [← hr]; simp⟩
  obtain ⟨h0, rfl⟩ := hR
  simp only [inCRange, inRangeO]
  by_cases e : s' = s
  · subst e
    have hk : pfx ++ (s' ++ [0] ++ be64 n) = (pfx ++ s' ++ [0]) ++ be64 n := by simp
    rw [hk]
    have := inRange_prefix (pfx ++ s' ++ [0]) [] (be64 h) (be64 n)
    simp only [inRange, List.append_nil] at this
    rw [this]
    simp [lexLe, lexLt_nil_right, lexLt_be64 n h hn hh]
  · have hp := isPrefix_str_delim pfx s s' (be64 n) h0 h0'
    simp only [e, decide_false] at hp
    have := not_prefix_not_inRange (pfx ++ s ++ [0]) [] (be64 h) _ hp
    simp only [inRange, List.append_nil] at this
    rw [this]; simp [e]

-- non-vacuity: a 43-character bech32 address and one that extends it
example : scanByString [1] [100, 121, 109] = some ([1, 100, 121, 109, 0], some [1, 100, 121, 109, 1]) := by decide
example : pairStrU64Key [1] [100, 121, 109, 49] 7 = some ([1, 100, 121, 109, 49, 0] ++ be64 7) := by decide
example : inCRange ([1, 100, 121, 109, 0], some [1, 100, 121, 109, 1]) ([1, 100, 121, 109, 49, 0] ++ be64 7) = false := by decide

/-! ## Pair[uint64, string] — x/rollapp `finalizationQueue` (creation height, rollapp id) -/

theorem pair_u64_str_key_eq (pfx : Bytes) (n : Nat) (s : Bytes) :
    pairU64StrKey pfx n s = some (pfx ++ (be64 n ++ s)) := by
  simp [pairU64StrKey, collWithPrefix, collPair, collU64, collStrT]

/-- round trip: the queue key reads back as exactly (height, rollapp id) — for every rollapp id,
    the string being in terminal position needs no delimiter -/
theorem pair_u64_str_roundtrip (pfx : Bytes) (n : Nat) (s K : Bytes) (hn : n < 2 ^ 64)
    (h : pairU64StrKey pfx n s = some K) : pairU64StrDecode (K.drop pfx.length) = some (n, s) := by
  rw [pair_u64_str_key_eq] at h
  cases h
  rw [List.drop_left' rfl]
  exact coll_u64_roundtrip n s hn

theorem pair_u64_str_key_injective (pfx : Bytes) (n n' : Nat) (s s' K : Bytes) (hn : n < 2 ^ 64) (hn' : n' < 2 ^ 64)
    (h : pairU64StrKey pfx n s = some K) (h' : pairU64StrKey pfx n' s' = some K) : n = n' ∧ s = s' := by
  have r := pair_u64_str_roundtrip pfx n s K hn h
  rw [pair_u64_str_roundtrip pfx n' s' K hn' h'] at r
  simpa [eq_comm] using r

/-- C19 "composite store keys sort by height numerically": an entry of a lower creation height sorts
    before every entry of a higher one, whatever the two rollapp ids are (this is the order in which
    `GetFinalizationQueueUntilHeightInclusive` hands the queue to `FinalizeRollappStates`) -/
theorem finalization_queue_key_order (pfx : Bytes) (n n' : Nat) (s s' K K' : Bytes) (hn : n < 2 ^ 64) (hn' : n' < 2 ^ 64)
    (h : pairU64StrKey pfx n s = some K) (h' : pairU64StrKey pfx n' s' = some K') (hlt : n < n') :
    lexLt K K' = true := by
  rw [pair_u64_str_key_eq] at h h'
  cases h; cases h'
  rw [lexLt_append_left]
  exact lexLt_append_of_lt _ _ _ _ (by simp [be64_length]) (by rw [lexLt_be64 n n' hn hn']; simpa using hlt)

theorem scan_until_height_eq (pfx : Bytes) (h : Nat) :
    scanUntilHeight pfx h = some (pfx, prefixEnd (pfx ++ be64 h)) := by
  simp [scanUntilHeight, prefixUntilPairRange, collWithPrefix, collPairPrefix, nextBytesPrefixKey, collU64]

/-- **`GetFinalizationQueueUntilHeightInclusive(h)`** (`NewPrefixUntilPairRange[uint64, string](h)`):
    returns the queue entry (n, rollapp) exactly when `n ≤ h` — for every uint64 `h` including
    2^64−1 (where the end bound falls back to the end of the map prefix) and every rollapp id -/
theorem scan_until_height_exact (pfx : Bytes) (h n : Nat) (s K : Bytes) (rg : CRange)
    (hh : h < 2 ^ 64) (hn : n < 2 ^ 64)
    (hr : scanUntilHeight pfx h = some rg) (hk : pairU64StrKey pfx n s = some K) :
    inCRange rg K = decide (n ≤ h) := by
  rw [scan_until_height_eq] at hr
  rw [pair_u64_str_key_eq] at hk
  cases hr; cases hk
  simp only [inCRange, inRangeO]
  have hlo : lexLe pfx (pfx ++ (be64 n ++ s)) = true := by simp [lexLe, lexLt_self_append]
  rw [hlo, Bool.true_and, prefixEnd_append]
  have hU := below_prefixEnd_eqlen (be64 h) (be64 n) s (by simp [be64_length]) (beN_wf 8 n)
  have hle : lexLe (be64 n) (be64 h) = decide (n ≤ h) := by
    simp only [lexLe, lexLt_be64 h n hh hn]
    by_cases x : n ≤ h
    · have : ¬ h < n := by omega
      simp [x, this]
    · have : h < n := by omega
      simp [x, this]
  cases hp : prefixEnd (be64 h) with
  | some e =>
    rw [hp] at hU
    simp only [below] at hU
    simp only [lexLt_append_left, hU, hle]
  | none =>
    rw [hp] at hU
    simp only [below] at hU
    have := below_prefixEnd_self pfx (be64 n ++ s)
    simp only [below] at this
    simp only []
    rw [← hle, ← hU]
    exact this

/-- … and nothing of another map of the same store: every key in the range carries the map prefix -/
theorem scan_until_height_only_queue (pfx : Bytes) (h : Nat) (K : Bytes) (rg : CRange) (hK : Bytes.WF K)
    (hr : scanUntilHeight pfx h = some rg) (hin : inCRange rg K = true) : isPrefix pfx K = true := by
  rw [scan_until_height_eq] at hr
  cases hr
  simp only [inCRange] at hin
  rw [prefixEnd_append] at hin
  cases hx : isPrefix pfx K with
  | true => rfl
  | false =>
    cases hp : prefixEnd (be64 h) with
    | some e =>
      rw [hp] at hin
      have := not_prefix_not_inRange pfx [] e K hx
      simp only [inRange, List.append_nil] at this
      simp only [inRangeO] at hin
      rw [this] at hin; exact absurd hin (by decide)
    | none =>
      rw [hp] at hin
      simp only [] at hin
      rw [prefix_range_exact pfx K hK, hx] at hin
      exact absurd hin (by decide)

-- non-vacuity: height 255 (trailing 0xFF in the bound) and the uint64 maximum
example : scanUntilHeight [7] 255 = some ([7], some [7, 0, 0, 0, 0, 0, 0, 1]) := by decide
example : scanUntilHeight [7] (2 ^ 64 - 1) = some ([7], some [8]) := by decide
example : inCRange ([7], some [7, 0, 0, 0, 0, 0, 0, 1]) ([7] ++ be64 255 ++ [97]) = true ∧
    inCRange ([7], some [7, 0, 0, 0, 0, 0, 0, 1]) ([7] ++ be64 256 ++ [97]) = false := by decide

/-! ## Triple[string, string, uint64] — x/eibc `byRollAppDenom` -/

theorem triple_key_some (pfx a b K : Bytes) (n : Nat) (h : tripleStrStrU64Key pfx a b n = some K) :
    0 ∉ a ∧ 0 ∉ b ∧ K = pfx ++ (a ++ [0] ++ (b ++ [0] ++ be64 n)) := by
  unfold tripleStrStrU64Key collWithPrefix collTriple collU64 at h
  cases ha : collStrNT a with
  | none => simp [ha] at h
  | some ea =>
    cases hb : collStrNT b with
    | none => simp [ha, hb] at h
    | some eb =>
      obtain ⟨h0, rfl⟩ := coll_str_nt_some a ea ha
      obtain ⟨h0', rfl⟩ := coll_str_nt_some b eb hb
      simp [ha, hb] at h
      exact ⟨h0, h0', by rw [← h]; simp⟩

theorem triple_roundtrip (pfx a b K : Bytes) (n : Nat) (hn : n < 2 ^ 64)
    (h : tripleStrStrU64Key pfx a b n = some K) : tripleStrStrU64Decode (K.drop pfx.length) = some (a, b, n) := by
  obtain ⟨h0, h0', rfl⟩ := triple_key_some pfx a b K n h
  rw [List.drop_left' rfl]
  unfold tripleStrStrU64Decode
  rw [coll_str_nt_roundtrip a (a ++ [0]) _ ((coll_str_encodable a).2 h0)]
  simp only []
  rw [coll_str_nt_roundtrip b (b ++ [0]) _ ((coll_str_encodable b).2 h0')]
  have h2 := coll_u64_roundtrip n [] hn
  simp only [collU64, List.append_nil] at h2
  simp [h2]

theorem triple_key_injective (pfx a b a' b' K : Bytes) (n n' : Nat) (hn : n < 2 ^ 64) (hn' : n' < 2 ^ 64)
    (h : tripleStrStrU64Key pfx a b n = some K) (h' : tripleStrStrU64Key pfx a' b' n' = some K) :
    a = a' ∧ b = b' ∧ n = n' := by
  have r := triple_roundtrip pfx a b K n hn h
  rw [triple_roundtrip pfx a' b' K n' hn' h'] at r
  simpa [eq_comm] using r

/-- **`LPs.GetOrderCompatibleLPs`** (`NewSuperPrefixedTripleRange(rollapp, denom)`): returns the LP
    entry (rollapp', denom', id) exactly when rollapp' = rollapp and denom' = denom — including denoms
    that extend one another and a rollapp id that is a prefix of another -/
theorem scan_by_two_strings_exact (pfx a b a' b' K : Bytes) (n : Nat) (rg : CRange)
    (hr : scanByTwoStrings pfx a b = some rg) (hk : tripleStrStrU64Key pfx a' b' n = some K) :
    inCRange rg K = (decide (a' = a) && decide (b' = b)) := by
  obtain ⟨h0a', h0b', rfl⟩ := triple_key_some pfx a' b' K n hk
  have hR : 0 ∉ a ∧ 0 ∉ b ∧ rg = (pfx ++ a ++ [0] ++ b ++ [0], some (pfx ++ a ++ [0] ++ b ++ [1])) := by
    unfold scanByTwoStrings superPrefixedTripleRange collWithPrefix collTripleSuperPrefix nextBytesPrefixKey at hr
    cases ha : collStrNT a with
    | none => simp [ha] at hr
    | some ea =>
      cases hb : collStrNT b with
      | none => simp [ha, hb] at hr
      | some eb =>
        obtain ⟨h0, rfl⟩ := coll_str_nt_some a ea ha
        obtain ⟨h0', rfl⟩ := coll_str_nt_some b eb hb
        simp only [ha, hb, Option.bind_some, Option.map_some, Option.some.injEq] at hr
        refine ⟨h0, h0', ?_⟩
        have e1 : pfx ++ (a ++ [0] ++ (b ++ [0])) = (pfx ++ a ++ [0] ++ b) ++ [0] := by simp
        rw [← hr, e1, prefixEnd_snoc _ 0 (by decide)]
  obtain ⟨h0a, h0b, rfl⟩ := hR
  have := prefix_range_exact_snoc (pfx ++ a ++ [0] ++ b) 0 (pfx ++ (a' ++ [0] ++ (b' ++ [0] ++ be64 n)))
  simp only [inRange] at this
  simp only [inCRange, inRangeO]
  rw [this]
  by_cases ea : a' = a
  · subst ea
    have e1 : pfx ++ (a' ++ [0] ++ (b' ++ [0] ++ be64 n)) = (pfx ++ a' ++ [0]) ++ (b' ++ [0] ++ be64 n) := by simp
    have e2 : pfx ++ a' ++ [0] ++ b ++ [0] = (pfx ++ a' ++ [0]) ++ b ++ [0] := by simp
    rw [e1, isPrefix_str_delim (pfx ++ a' ++ [0]) b b' (be64 n) h0b h0b']
    simp
  · cases hp : isPrefix (pfx ++ a ++ [0] ++ b ++ [0]) (pfx ++ (a' ++ [0] ++ (b' ++ [0] ++ be64 n))) with
    | false => simp [ea]
    | true =>
      obtain ⟨x, hx⟩ := (isPrefix_iff _ _).1 hp
      simp only [List.append_assoc, List.singleton_append, List.cons_append, List.nil_append] at hx
      have := (sep_split_unique 0 a' a _ _ h0a' h0a (List.append_cancel_left hx)).1
      exact absurd this ea

-- non-vacuity: denoms "p/1" and "p/10" under one rollapp
example : inCRange ([9, 114, 0, 112, 47, 49, 0], some [9, 114, 0, 112, 47, 49, 1]) ([9, 114, 0, 112, 47, 49, 48, 0] ++ be64 3) = false ∧
    scanByTwoStrings [9] [114] [112, 47, 49] = some ([9, 114, 0, 112, 47, 49, 0], some [9, 114, 0, 112, 47, 49, 1]) := by decide

end DymVerif.C19
