/-
  Props/C07 — one proposer per rollapp, replaced only through the rotation protocol.
  Property theorems over M-Core, for every valid parameter set (the notice period is validated to be
  positive by `Params.ValidateBasic`) and every operation sequence.
-/
import DymVerif.Lemmas.CoreRolesS
import DymVerif.Lemmas.CorePunish
namespace DymVerif.C07
open DymVerif DymVerif.Core DymVerif.Core.Roles

/-- a rejected message leaves every component of the state untouched (the model returns its input
    state on error, mirroring baseapp's per-message cache context; that the real code does so is
    checked by the harness: full observation equality after every rejected op) -/
theorem reject_unchanged (s : St) (o : Op) (e : Err) (h : (step s o).2 = some e) : (step s o).1 = s := by
  unfold step at *
  cases h' : apply s o with
  | ok s' => simp [h'] at h
  | error e' => simp [h']

/-- **The roles invariant, every reachable state.**  For every rollapp of every state reachable by
    any sequence of create / bond / opt-in/out / unbond (notice) / update (incl. last) / kick /
    fraud-fork / obsolete / begin / end-block operations:
    * records are unique (one record per rollapp id, one per sequencer address), so the `Option`
      fields give at most one proposer and at most one successor per rollapp;
    * the proposer and the successor are bonded sequencers of that very rollapp (or empty);
    * they are never the same sequencer;
    * a successor exists only while there is a proposer. -/
theorem proposer_wf (p : Params) (hp : 0 < p.noticePeriod) (ops : List Op) (r : Rollapp)
    (hr : r ∈ (run p ops).ras) :
    (∀ r' ∈ (run p ops).ras, r'.id = r.id → r' = r) ∧
    (∀ q ∈ (run p ops).seqs, ∀ q' ∈ (run p ops).seqs, q'.addr = q.addr → q' = q) ∧
    (∀ a, r.proposer = some a → ∃ q, getSeq (run p ops) a = some q ∧ q.bonded = true ∧ q.rollapp = r.id) ∧
    (∀ a, r.successor = some a → ∃ q, getSeq (run p ops) a = some q ∧ q.bonded = true ∧ q.rollapp = r.id) ∧
    (∀ a, r.proposer = some a → r.successor ≠ some a) ∧
    (r.successor.isSome = true → r.proposer.isSome = true) := by
  have h := run_roles p hp ops
  refine ⟨fun r' hr' e => h.core.uniq.ids.eq_of_mem hr' hr e,
    fun q hq q' hq' e => h.core.uniq.addrs.eq_of_mem hq' hq e,
    h.core.prop r hr, h.core.succ r hr, h.core.ne r hr, ?_⟩
  intro hs
  cases hpn : r.proposer with
  | some _ => rfl
  | none => rw [h.sp r hr hpn] at hs; cases hs

/-- an unbonded sequencer holds no role in any rollapp; a sequencer holds roles only in its own rollapp -/
theorem role_holder_bonded (p : Params) (hp : 0 < p.noticePeriod) (ops : List Op) (q : Seq)
    (hq : q ∈ (run p ops).seqs) (r : Rollapp) (hr : r ∈ (run p ops).ras)
    (hrole : r.proposer = some q.addr ∨ r.successor = some q.addr) : q.bonded = true ∧ q.rollapp = r.id := by
  have h := run_roles p hp ops
  have hg := getSeq_of_mem h.core.uniq.addrs hq
  rcases hrole with h1 | h1
  · obtain ⟨q', hq', hb, hro⟩ := h.core.prop r hr _ h1
    rw [hg] at hq'; injection hq' with hq'; subst hq'; exact ⟨hb, hro⟩
  · obtain ⟨q', hq', hb, hro⟩ := h.core.succ r hr _ h1
    rw [hg] at hq'; injection hq' with hq'; subst hq'; exact ⟨hb, hro⟩

/-- a sequencer that has started its notice is opted out, and every notice-queue entry belongs to the
    current proposer of its rollapp, carries that sequencer's notice time, and lies in the future -/
theorem notice_consistent (p : Params) (hp : 0 < p.noticePeriod) (ops : List Op) :
    (∀ q ∈ (run p ops).seqs, q.notice.isSome = true → q.optedIn = false) ∧
    (∀ t a, (t, a) ∈ (run p ops).nq → (run p ops).t < t ∧ ∃ q r, getSeq (run p ops) a = some q ∧ q.notice = some t ∧
        getRa (run p ops) q.rollapp = some r ∧ r.proposer = some a) := by
  have h := run_roles p hp ops
  exact ⟨h.core.optOut, fun t a hta => ⟨h.core.fut _ hta, h.core.nq t a hta⟩⟩

/-- **Only the proposer's state updates are accepted** (in any state whatsoever). -/
theorem only_proposer_updates (s s' : St) (m : UpdMsg) (h : apply s (.update m) = .ok s') :
    ∃ r, getRa s m.ra = some r ∧ r.proposer = some m.sender := by
  simp only [apply] at h
  unfold updateState at h
  split at h
  · cases h
  · split at h
    · cases h
    · rename_i r hg
      split at h
      · cases h
      · rename_i hprop
        exact ⟨r, hg, by simpa using hprop⟩

/-- in a reachable state the accepted update moreover comes from a bonded sequencer of that rollapp -/
theorem update_sender_bonded (p : Params) (hp : 0 < p.noticePeriod) (ops : List Op) (s' : St) (m : UpdMsg)
    (h : apply (run p ops) (.update m) = .ok s') :
    ∃ r q, getRa (run p ops) m.ra = some r ∧ r.proposer = some m.sender ∧
      getSeq (run p ops) m.sender = some q ∧ q.bonded = true ∧ q.rollapp = m.ra := by
  obtain ⟨r, hg, hpr⟩ := only_proposer_updates _ _ _ h
  obtain ⟨q, hq, hb, hro⟩ := (run_roles p hp ops).core.prop r (getRa_mem hg) _ hpr
  exact ⟨r, q, hg, hpr, hq, hb, hro.trans (getRa_id hg)⟩

/-- **The proposer changes only through the rotation protocol.**  If an accepted operation changes
    the proposer of rollapp `id` (record `r` before, `r'` after), then it is one of:
    (a) the proposer's own *last* update, sent after its notice period elapsed: the new proposer is
        the successor chosen when the notice expired (if that was the sentinel the rollapp is forked
        and the slot is left empty);
    (b) a kick by a bonded, opted-in sequencer of the rollapp other than the proposer, the proposer's
        dishonor having reached the threshold: the rollapp is forked and the new proposer is the
        choice among the post-state's sequencers;
    (c) a fork by fraud proposal or obsolete-DRS marking: the slot is left empty;
    (d) an empty slot filled, on sequencer creation or opt-in, with the choice among the post-state's
        sequencers.
    Every other operation leaves every proposer unchanged. -/
theorem proposer_change_classified (p : Params) (hp : 0 < p.noticePeriod) (ops : List Op) (o : Op) (s' : St)
    (id : Nat) (r r' : Rollapp) (h : apply (run p ops) o = .ok s')
    (hr : getRa (run p ops) id = some r) (hr' : getRa s' id = some r') (hne : r'.proposer ≠ r.proposer) :
    (∃ m q, o = .update m ∧ m.ra = id ∧ m.last = true ∧ r.proposer = some m.sender ∧
        getSeq (run p ops) m.sender = some q ∧ noticeElapsed q (run p ops).t = true ∧ r'.proposer = r.successor) ∨
    (∃ a k pa pq, o = .kick a ∧ getSeq (run p ops) a = some k ∧ k.bonded = true ∧ k.optedIn = true ∧ k.rollapp = id ∧
        r.proposer = some pa ∧ a ≠ pa ∧ getSeq (run p ops) pa = some pq ∧ (run p ops).sqp.kickThr ≤ pq.dishonor ∧
        r'.proposer = choose s' id ∧ r'.proposer.isSome = true) ∨
    (r'.proposer = none ∧
        ((∃ au hh rev pun rw, o = .fraud au id hh rev pun rw) ∨ (∃ au vs, o = .obsolete au vs))) ∨
    (r.proposer = none ∧ r'.proposer = choose s' id ∧ r'.proposer.isSome = true ∧
        ((∃ a b d, o = .createSeq a id b d) ∨
         (∃ a v q, o = .optIn a v ∧ getSeq (run p ops) a = some q ∧ q.rollapp = id))) :=
  apply_classify (run_roles p hp ops) h hr hr' hne

/-- **The successor is chosen when the notice expires, and only then.**  If an accepted operation
    changes the successor of rollapp `id`, then either the slot was cleared (rotation completed, or
    fork), or the operation is a begin-block at which the notice-queue entry of the rollapp's
    proposer came due (its notice time `t` ≤ the new block time), and the new successor is the
    proposer choice over the sequencers of that moment (the sentinel if there is no candidate). -/
theorem successor_change_classified (p : Params) (hp : 0 < p.noticePeriod) (ops : List Op) (o : Op) (s' : St)
    (id : Nat) (r r' : Rollapp) (h : apply (run p ops) o = .ok s')
    (hr : getRa (run p ops) id = some r) (hr' : getRa s' id = some r') (hne : r'.successor ≠ r.successor) :
    r'.successor = none ∨
    ∃ dt t a q, o = .begin_ dt ∧ (t, a) ∈ (run p ops).nq ∧ t ≤ (run p ops).t + dt ∧
      getSeq (run p ops) a = some q ∧ q.notice = some t ∧ q.rollapp = id ∧ r.proposer = some a ∧
      r'.successor = choose s' id := by
  have hroles := run_roles p hp ops
  have hs : succOf (run p ops) id = some r.successor := succOf_get hr
  have hs' : succOf s' id = some r'.successor := succOf_get hr'
  by_cases hb : ∃ dt, o = .begin_ dt
  · obtain ⟨dt, rfl⟩ := hb
    simp only [apply] at h
    injection h with h; subst h
    rcases beginBlock_succ (run p ops) dt id with h1 | ⟨t, a, q0, hta, ht, hq0, hq0r, hc⟩
    · rw [hs, hs'] at h1; injection h1 with h1; exact absurd h1 hne
    · right
      obtain ⟨q, r1, hq, hn, hr1, hp1⟩ := hroles.core.nq t a hta
      rw [hq0] at hq; injection hq with hq; subst hq
      rw [hq0r, hr] at hr1; injection hr1 with hr1; subst hr1
      rw [hs'] at hc; injection hc with hc
      exact ⟨dt, t, a, q0, rfl, hta, ht, hq0, hn, hq0r, hp1, hc⟩
  · left
    rcases apply_sclr hroles h (fun dt hc => hb ⟨dt, hc⟩) id with h1 | h1
    · rw [hs, hs'] at h1; injection h1 with h1; exact absurd h1 hne
    · rw [hs'] at h1; injection h1

/-- **The choice is the highest-bonded potential proposer.**  In a reachable state, if the choice
    for rollapp `ra` is `a`, then `a` is a bonded, opted-in sequencer of `ra`, no bonded opted-in
    sequencer of `ra` has more tokens, and among those with equally many it has the smallest address. -/
theorem fill_chooses_max_bond (p : Params) (hp : 0 < p.noticePeriod) (ops : List Op) (ra : Nat) (a : Addr)
    (h : choose (run p ops) ra = some a) :
    ∃ q, getSeq (run p ops) a = some q ∧ q.rollapp = ra ∧ q.bonded = true ∧ q.optedIn = true ∧
      ∀ x ∈ (run p ops).seqs, x.rollapp = ra → x.bonded = true → x.optedIn = true →
        x.tokens ≤ q.tokens ∧ (x.tokens = q.tokens → q.addr ≤ x.addr) := by
  have hr := run_roles p hp ops
  obtain ⟨b, hb, hmem, hmax⟩ := choose_max_tiebreak hr.core.uniq.sorted h
  have hm := mem_cands.1 hmem
  refine ⟨b, hb ▸ getSeq_of_mem hr.core.uniq.addrs hm.1, hm.2.1, hm.2.2.1, hm.2.2.2, ?_⟩
  intro x hx h1 h2 h3
  exact hmax x (mem_cands.2 ⟨hx, h1, h2, h3⟩)

/-- the sentinel (empty slot) is chosen exactly when the rollapp has no bonded opted-in sequencer -/
theorem choose_none_iff (s : St) (ra : Nat) :
    choose s ra = none ↔ ∀ x ∈ s.seqs, ¬ (x.rollapp = ra ∧ x.bonded = true ∧ x.optedIn = true) := by
  rw [choose_none]
  constructor
  · intro h x hx hc
    have : x ∈ cands s ra := mem_cands.2 ⟨hx, hc⟩
    rw [h] at this; cases this
  · intro h
    apply List.eq_nil_iff_forall_not_mem.2
    intro x hx
    have := mem_cands.1 hx
    exact h x this.1 this.2

/-- **Monotonicity of a sequencer's record** along any continuation of a reachable history: its
    rollapp never changes, a started notice is never reset, an unbonded sequencer never becomes
    bonded again. -/
theorem seq_monotone (p : Params) (hp : 0 < p.noticePeriod) (ops ops2 : List Op) (a : Addr) (q : Seq)
    (hq : getSeq (run p ops) a = some q) :
    ∃ q', getSeq (run p (ops ++ ops2)) a = some q' ∧ q'.rollapp = q.rollapp ∧
      (q.notice.isSome = true → q'.notice = q.notice) ∧ (q.bonded = false → q'.bonded = false) := by
  rw [run_append]
  exact (runFrom_roles_mono (run_roles p hp ops) ops2).2 a q hq

/-- a sequencer that has started its notice or is unbonded is never chosen (as proposer or as
    successor, for any rollapp) in any later state -/
theorem marked_never_chosen (p : Params) (hp : 0 < p.noticePeriod) (ops ops2 : List Op) (a : Addr) (q : Seq)
    (hq : getSeq (run p ops) a = some q) (hm : q.notice.isSome = true ∨ q.bonded = false) (ra : Nat) :
    choose (run p (ops ++ ops2)) ra ≠ some a := by
  rw [run_append]
  have h := runFrom_roles_mono (run_roles p hp ops) ops2
  exact choose_ne_marked h.1.core (h.2.marked ⟨q, hq, hm⟩) ra

/-- whoever stops being proposer under an accepted operation has a started notice (rotation) or has
    been unbonded (kick, fork) in the resulting state -/
theorem removed_proposer_marked (p : Params) (hp : 0 < p.noticePeriod) (ops : List Op) (o : Op) (s' : St)
    (id : Nat) (r r' : Rollapp) (a : Addr) (h : apply (run p ops) o = .ok s')
    (hr : getRa (run p ops) id = some r) (hpa : r.proposer = some a)
    (hr' : getRa s' id = some r') (hne : r'.proposer ≠ some a) :
    ∃ q', getSeq s' a = some q' ∧ (q'.notice.isSome = true ∨ q'.bonded = false) := by
  apply apply_removed_marked (run_roles p hp ops) h hr hpa
  rw [propOf_get hr']
  intro hc; injection hc with hc; exact hne hc

/-- **A sequencer that has served notice or was removed as proposer is never chosen again.**  If `a`
    is the proposer of a rollapp after `ops` and no longer after the next operation `o`, then in
    every later state the proposer choice (for filling a slot or for a successor, of any rollapp)
    never returns `a`. -/
theorem never_proposer_twice (p : Params) (hp : 0 < p.noticePeriod) (ops : List Op) (o : Op) (ops2 : List Op)
    (id : Nat) (r : Rollapp) (a : Addr)
    (hr : getRa (run p ops) id = some r) (hpa : r.proposer = some a)
    (hlost : ∀ r', getRa (run p (ops ++ [o])) id = some r' → r'.proposer ≠ some a) (ra : Nat) :
    choose (run p (ops ++ o :: ops2)) ra ≠ some a := by
  have hroles := run_roles p hp ops
  have e1 : run p (ops ++ [o]) = (step (run p ops) o).1 := by
    rw [run_append]; rfl
  -- the operation was accepted (a rejected one leaves the proposer in place)
  cases happ : apply (run p ops) o with
  | error err =>
    have : (step (run p ops) o).1 = run p ops := by unfold step; rw [happ]
    rw [e1, this] at hlost
    exact absurd hpa (hlost r hr)
  | ok s' =>
    have hs' : (step (run p ops) o).1 = s' := by unfold step; rw [happ]
    rw [e1, hs'] at hlost
    have hm : Marked s' a := by
      apply apply_removed_marked hroles happ hr hpa
      unfold propOf
      cases hg : getRa s' id with
      | none => intro hc; cases hc
      | some r' =>
        intro hc
        simp only [Option.map_some, Option.some.injEq] at hc
        exact hlost r' hg hc
    have e2 : run p (ops ++ o :: ops2) = runFrom s' ops2 := by
      rw [show ops ++ o :: ops2 = (ops ++ [o]) ++ ops2 by simp, run_append, e1, hs']
    rw [e2]
    have h2 := runFrom_roles_mono (apply_roles hroles happ) ops2
    exact choose_ne_marked h2.1.core (h2.2.marked hm) ra

/-- **... and never holds a role again.**  Under the same hypotheses, in every later state `a` is
    neither proposer nor successor of any rollapp: a rotation only promotes the successor, and a
    successor is always a bonded sequencer that has not started a notice, while `a` has a started
    notice or is unbonded from the moment it lost the slot, for ever. -/
theorem never_proposer_again (p : Params) (hp : 0 < p.noticePeriod) (ops : List Op) (o : Op) (ops2 : List Op)
    (id : Nat) (r : Rollapp) (a : Addr)
    (hr : getRa (run p ops) id = some r) (hpa : r.proposer = some a)
    (hlost : ∀ r', getRa (run p (ops ++ [o])) id = some r' → r'.proposer ≠ some a) :
    ∀ r' ∈ (run p (ops ++ o :: ops2)).ras, r'.proposer ≠ some a ∧ r'.successor ≠ some a := by
  have hroles := run_roles p hp ops
  have e1 : run p (ops ++ [o]) = (step (run p ops) o).1 := by
    rw [run_append]; rfl
  cases happ : apply (run p ops) o with
  | error err =>
    have : (step (run p ops) o).1 = run p ops := by unfold step; rw [happ]
    rw [e1, this] at hlost
    exact absurd hpa (hlost r hr)
  | ok s' =>
    have hs' : (step (run p ops) o).1 = s' := by unfold step; rw [happ]
    rw [e1, hs'] at hlost
    have hout := out_after_removal hroles happ hr hpa hlost
    have e2 : run p (ops ++ o :: ops2) = runFrom s' ops2 := by
      rw [show ops ++ o :: ops2 = (ops ++ [o]) ++ ops2 by simp, run_append, e1, hs']
    rw [e2]
    have h2 := runFrom_out (apply_roles hroles happ) hout ops2
    intro r' hr'
    exact ⟨h2.2.notProp r' hr', marked_not_successor h2.1.core h2.2.marked r' hr'⟩

/-- a successor is always a sequencer that has not started a notice (it was opted in when chosen, and
    only a proposer can start a notice) -/
theorem successor_fresh (p : Params) (hp : 0 < p.noticePeriod) (ops : List Op) (r : Rollapp)
    (hr : r ∈ (run p ops).ras) (a : Addr) (hs : r.successor = some a) (q : Seq)
    (hq : getSeq (run p ops) a = some q) : q.notice = none :=
  (run_roles p hp ops).core.succFresh r hr a hs q hq

-- ---------------------------------------------------------------- the standalone governance punishment

/-- a `PunishSequencerProposal` that does not come from the governance authority is rejected and
    changes nothing -/
theorem punish_requires_authority (s : St) (a : Addr) (rw : Option Addr) :
    (step s (.punish false a rw)).2 = some .unauthorized ∧ (step s (.punish false a rw)).1 = s := by
  constructor <;> rfl

/-- **punish_keeps_roles** — an accepted standalone `PunishSequencerProposal` (x/sequencer's legacy gov
    route → `PunishSequencer`; unlike the punishment inside a fraud proposal there is NO fork) came from
    the governance authority and changes no role at all, whatever the state: every rollapp record —
    proposer, successor, revisions, states, liveness clock — is literally unchanged, and so are the
    notice queue, the hub time and the parameters; the punished sequencer's record keeps its rollapp, its
    bonded status, its opt-in flag, its notice time and its dishonor, and its bond is exactly 0; every
    other sequencer record is unchanged.  In particular **a punished proposer stays proposer — with
    bond 0** (and a punished successor stays successor). -/
theorem punish_keeps_roles (s s' : St) (au : Bool) (a : Addr) (rw : Option Addr)
    (h : apply s (.punish au a rw) = .ok s') :
    au = true ∧ s'.ras = s.ras ∧ s'.nq = s.nq ∧ s'.t = s.t ∧ s'.h = s.h ∧ s'.p = s.p ∧
    (∃ q, getSeq s a = some q ∧ getSeq s' a = some { q with tokens := 0 }) ∧
    (∀ b, b ≠ a → getSeq s' b = getSeq s b) := by
  obtain ⟨hau, hp⟩ := punishProposal_ok (show punishProposal s au a rw = .ok s' from h)
  obtain ⟨q, _, fr, _⟩ := punish_exact hp
  exact ⟨hau, fr.ras, fr.nq, fr.t, fr.h, fr.p, punish_record hp, punish_others hp⟩

/-- **trace form**: in every reachable state, after an accepted `PunishSequencerProposal` against the
    current proposer `a` of a rollapp, `a` is still the proposer of that rollapp (the same record `r`,
    same successor), still a bonded sequencer of it, and its bond is 0. -/
theorem punished_proposer_stays_proposer (p : Params) (hp : 0 < p.noticePeriod) (ops : List Op)
    (au : Bool) (a : Addr) (rw : Option Addr) (r : Rollapp) (hr : r ∈ (run p ops).ras)
    (hpr : r.proposer = some a) (hacc : (step (run p ops) (.punish au a rw)).2 = none) :
    r ∈ (run p (ops ++ [.punish au a rw])).ras ∧
    ∃ q, getSeq (run p (ops ++ [.punish au a rw])) a = some q ∧ q.tokens = 0 ∧ q.bonded = true ∧
      q.rollapp = r.id := by
  have hrun : run p (ops ++ [.punish au a rw]) = (step (run p ops) (.punish au a rw)).1 := by
    unfold run; rw [List.foldl_append]; rfl
  rw [hrun]
  unfold step at hacc ⊢
  cases h : apply (run p ops) (.punish au a rw) with
  | error e => rw [h] at hacc; cases hacc
  | ok s' =>
    simp only
    obtain ⟨_, hras, _, _, _, _, ⟨q, hq, hq'⟩, _⟩ := punish_keeps_roles _ _ au a rw h
    obtain ⟨q0, hq0, hb, hro⟩ := (run_roles p hp ops).core.prop r hr a hpr
    rw [hq] at hq0; injection hq0 with hq0; subst hq0
    exact ⟨by rw [hras]; exact hr, _, hq', rfl, hb, hro⟩

-- ---------------------------------------------------------------- x/sequencer parameters as state

/-- **seq_params_change_only_by_authority** — an accepted x/sequencer `MsgUpdateParams` came from the
    governance authority, carries a positive notice period and a non-zero kick threshold, and replaces the
    stored x/sequencer parameter set and nothing else (records keep the notice times they were given, no
    role, bond or queue changes). -/
theorem seq_params_change_only_by_authority (s s' : St) (au : Bool) (sp : SeqParams)
    (h : apply s (.setSeqParams au sp) = .ok s') :
    au = true ∧ 0 < sp.noticePeriod ∧ 0 < sp.kickThr ∧ s' = { s with sqp := sp } :=
  setSeqParams_ok (show setSeqParams s au sp = .ok s' from h)

/-- **the notice period in force is positive in every reachable state**, whatever parameter updates the
    history contains (the initial set is validated, every update is) — the hypothesis the roles invariant
    needs of `unbond` (`run_roles` is proved with the parameters as state). -/
theorem notice_period_in_force_positive (p : Params) (hp : 0 < p.noticePeriod) (ops : List Op) :
    0 < (run p ops).sqp.noticePeriod := (run_roles p hp ops).core.np

-- ---------------------------------------------------------------- non-vacuity and the role of the parameter validation

def exParams : Params where
  dispute := 2
  lsBlocks := 5
  lsInterval := 2
  lsMul := ⟨0⟩
  lsAbs := 0
  dishonorSU := 1
  dishonorL := 1
  kickThr := 2
  noticePeriod := 10
def exBds (start n : Nat) : List BD := (List.range n).map fun i => { height := start + i, hasTs := true, drs := 1, rootOk := true }

/-- three sequencers with bonds 10 / 20 / 20; the proposer (first created) serves notice; when the
    notice expires the successor is the highest-bonded one with the smallest address (3, not 4, not 2);
    the proposer's last update hands over -/
def exRotation : List Op := [.createRollapp 0 9 10, .fund 1 100, .fund 2 100, .fund 3 100, .fund 4 100,
  .createSeq 1 0 10 true, .createSeq 2 0 10 true, .createSeq 4 0 20 true, .createSeq 3 0 20 true,
  .update { ra := 0, sender := 1, start := 1, num := 3, rev := 0, last := false, bds := exBds 1 3 },
  .bridge 0 1, .unbond 1, .begin_ 10]
example : ((run exParams exRotation).ras.map fun r => (r.proposer, r.successor)) = [(some 1, some 3)] := by decide
example : ((run exParams (exRotation ++
    [.update { ra := 0, sender := 1, start := 4, num := 2, rev := 0, last := true, bds := exBds 4 2 }])).ras.map
      fun r => (r.proposer, r.successor)) = [(some 3, none)] := by decide
-- the rotated-out proposer is still bonded but opted out for good (notice started), so the choice skips it
example : ((run exParams (exRotation ++
    [.update { ra := 0, sender := 1, start := 4, num := 2, rev := 0, last := true, bds := exBds 4 2 }])).seqs.map
      fun q => (q.addr, q.bonded, q.optedIn, q.notice)) =
    [(1, true, false, some 10), (2, true, true, none), (3, true, true, none), (4, true, true, none)] := by decide

-- ... and it cannot come back: opting in again is refused
example : (step (run exParams (exRotation ++
    [.update { ra := 0, sender := 1, start := 4, num := 2, rev := 0, last := true, bds := exBds 4 2 }])) (.optIn 1 true)).2
      = some Err.noticeStarted := by decide

/-- kick (threshold 0 for brevity): sequencer 2 kicks proposer 1; the rollapp is forked, 1 is unbonded, all
    sequencers are opted out, the kicker is opted back in and is the choice (although 3 has the larger bond) -/
def exKick : List Op := [.createRollapp 0 9 10, .fund 1 100, .fund 2 100, .fund 3 100,
  .createSeq 1 0 10 true, .createSeq 2 0 10 true, .createSeq 3 0 30 true,
  .update { ra := 0, sender := 1, start := 1, num := 3, rev := 0, last := false, bds := exBds 1 3 },
  .bridge 0 1, .kick 2]
example : (let s := run { exParams with kickThr := 0 } exKick
    (s.ras.map fun r => (r.proposer, r.successor), s.seqs.map fun q => (q.addr, q.bonded, q.optedIn))) =
    ([(some 2, none)], [(1, false, false), (2, true, true), (3, true, false)]) := by decide

/-- a `PunishSequencerProposal` against the proposer 1 (bond 10, rewardee 7): 1 stays proposer with bond 0,
    still bonded and opted in; half went to the rewardee, half was burned; without the authority nothing happens -/
def exPunished : St := run exParams (exKick.dropLast ++ [.punish true 1 (some 7)])
example : (exPunished.ras.map fun r => (r.proposer, r.successor)) = [(some 1, none)] ∧
    (exPunished.seqs.map fun q => (q.addr, q.bonded, q.optedIn, q.tokens)) =
      [(1, true, true, 0), (2, true, true, 10), (3, true, true, 30)] ∧
    getBal exPunished.bal 7 = 5 ∧ exPunished.burned = 5 ∧ exPunished.modBal = 40 := by decide
example : (step (run exParams exKick.dropLast) (.punish false 1 (some 7))).2 = some .unauthorized ∧
    (step (run exParams exKick.dropLast) (.punish true 5 none)).2 = some .unknownSeq := by decide

/-- The hypothesis `0 < noticePeriod` (enforced by the parameter validation of the real module) is
    needed: with a zero notice period the proposer's notice is elapsed the moment it is served, its
    last update forks the rollapp before any successor was chosen, its notice-queue entry survives,
    and the next begin-block makes the *new* proposer its own successor. -/
def np0Params : Params := { exParams with noticePeriod := 0 }
def np0Ops : List Op := [.createRollapp 0 9 10, .fund 1 100, .fund 2 100, .createSeq 1 0 10 true, .createSeq 2 0 10 true,
  .update { ra := 0, sender := 1, start := 1, num := 3, rev := 0, last := false, bds := exBds 1 3 },
  .bridge 0 1, .unbond 1,
  .update { ra := 0, sender := 1, start := 4, num := 2, rev := 0, last := true, bds := exBds 4 2 },
  .optIn 2 true, .begin_ 1]
theorem roles_np0_counterexample :
    ((run np0Params np0Ops).ras.map fun r => (r.proposer, r.successor)) = [(some 2, some 2)] := by decide

/-- a proposer that serves notice gets the notice period IN FORCE at that moment: a later parameter
    update does not move a notice that has started -/
def exParamUpd : St := run exParams (exRotation.dropLast.dropLast ++
      [.setSeqParams true { exParams.seq with noticePeriod := 3 }, .unbond 1, .setSeqParams true { exParams.seq with noticePeriod := 100 }])
example : (getSeq exParamUpd 1).map (·.notice) = some (some 3) ∧ exParamUpd.sqp.noticePeriod = 100 ∧ exParamUpd.nq = [(3, 1)] := by decide
example : (step (run exParams []) (.setSeqParams false exParams.seq)).2 = some .unauthorized ∧
    (step (run exParams []) (.setSeqParams true { exParams.seq with noticePeriod := 0 })).2 = some .invalid ∧
    (step (run exParams []) (.setSeqParams true { exParams.seq with kickThr := 0 })).2 = some .invalid ∧
    (step (run exParams []) (.setSeqParams true { exParams.seq with lsMul := ⟨1000000000000000001⟩ })).2 = some .invalid := by decide

end DymVerif.C07
