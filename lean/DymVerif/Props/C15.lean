/-
  Props/C15 — incentive payouts never exceed what was funded.
  Property theorems only.  Every statement is for all inputs / all operation histories / all values
  of the per-block iteration limit (no bounds).  Clauses the current code violates are kept in full
  in a comment, with `…_partial` (true under the stated extra hypothesis) and `…_counterexample`.

  Clauses of the property text and the theorems that carry them (model = the code with fixes D1, D2;
  D3 — activation in the middle of an epoch — is NOT repaired: an existing test pins it, see fixes/fix_d3.status)
    gauge never pays more than deposited ........ asset_gauge_bounded, rollapp_gauge_bounded, gauge_bounded
    stream never pays more than its total ....... stream_epoch_bounded (per epoch), stream_bounded (all admissible
                                                  histories; `Admissible` excludes governance re-targeting, see
                                                  stream_bounded_retarget_counterexample)
    module accounts hold the undistributed rest . module_solvent_incentives, module_solvent_streamer
    rewards reach only qualifying owners ........ recipients_legit, asset_rewards_proportional
    independence from the iteration limit ....... iterator level, every sequence of limits: paging_independent,
                                                  paging_exactly_once, paging_progress, paging_effect; their
                                                  hypothesis holds for what `Distribute` iterates
                                                  (distribute_data_sorted); state level: paging_never_overserves
                                                  (no EndBlock hands out more than was pending, any limit).
                                                  STATE LEVEL, one epoch (§4b): endblock_conserves_settled (distributed +
                                                  pending is conserved EXACTLY by every EndBlock, any limit),
                                                  epoch_end_realises_settled, paging_state_independent (ANY two schedules of
                                                  limits: at the epoch end every stream of the epoch has handed out the same,
                                                  a function of the state at the start of the window).  Exclusions, each with
                                                  its counterexample: mid-epoch activation D3 (paging_midepoch_counterexample),
                                                  the stream under the pointer terminated = ¬PtrsOKS
                                                  (paging_pointer_terminated_counterexample), re-targeting
                                                  (stream_bounded_retarget_counterexample); a record naming a finished /
                                                  unknown gauge is skipped by the code (LiveS).
                                                  GAUGE SIDE: FALSE of the code, inside the quantifier — a gauge that
                                                  distributes nothing in the call it is funded in is not written back, its
                                                  share is stranded; which block serves it depends on the limit:
                                                  paging_gauge_side_counterexample (known finding
                                                  C15/stream_hands_to_gauges/share-moved-gauge-not-credited).
                                                  Whole blocks: begin_block_pays_exactly, end_block_pays_exactly.
    exact amounts (state level) ................ distribute_pays_exactly, distribute_gauges_exactly, endBlock_pays_exactly, end_step_pays_exactly,
                                                  asset_due_is_sum_of_lockRewards (what an account gains in a distribution
                                                  is Σ lockReward over its qualifying locks, over the gauges distributed)
    sponsored streams (re-targeted at every epoch start from x/sponsorship's distribution, an input of the model) are
    inside `Admissible`: stream_bounded / module_solvent_streamer / streamer_endBlock_ok_reachable hold for them;
    sponsored_retarget_keeps_bound (any distribution, ANY pointer position), sponsored_epoch_start_follows_distribution,
    sponsored_zero_weight_epoch_not_filled; UpdateStreamDistributionProposal is a re-targeting (excluded like
    ReplaceStreamDistributionProposal: stream_bounded_update_counterexample); CreatePoolGauge is an ordinary op.
  Endorsement gauges are C16's (not in M-Incent).
-/
import DymVerif.Lemmas.IncentInv
import DymVerif.Lemmas.IncentStreams
import DymVerif.Lemmas.IncentBound
import DymVerif.Lemmas.IncentPaging
import DymVerif.Lemmas.IncentShare
import DymVerif.Lemmas.GenEqIncent
import DymVerif.Lemmas.IncentProp
import DymVerif.Lemmas.IncentDue
import DymVerif.Lemmas.IncentPagingState
import DymVerif.Lemmas.IncentLive
namespace DymVerif.C15
open DymVerif DymVerif.Incent DymVerif.Incent.Coins

/-! ## 1. gauges -/

/-- one distribution of an asset gauge: Σ_locks ⌊remain·l/(L·e)⌋ ≤ remain, for every lock table,
    remainder and number of remaining epochs ≥ 1 -/
theorem asset_gauge_bounded (remain e : Nat) (he : 1 ≤ e) (locks : List Lock) :
    (locks.map (fun l => lockShare remain l.amount (lockSum locks) e)).sum ≤ remain :=
  lockShare_total_le remain e he locks

example : (([⟨0, 0, 7, 1⟩, ⟨1, 0, 5, 1⟩, ⟨2, 0, 1, 1⟩] : List Lock).map
    (fun l => lockShare 100 l.amount 13 3)).sum = 31 := by decide

/-- `calculateAssetGaugeRewards` as a whole: what it hands out, added to what the gauge has already
    distributed, stays within the gauge's coins; the tracker grows by exactly that amount -/
theorem asset_gauge_payout_le (g : Gauge) (locks : List Lock) (tr tr' : Tracker) (c : Coins)
    (hb : ∀ i, amt g.distributed i ≤ amt g.coins i) (h : calcAsset g locks tr = some (tr', c)) :
    (∀ i, amt c i + amt g.distributed i ≤ amt g.coins i) ∧ (∀ i, trSum tr' i = trSum tr i + amt c i) := by
  obtain ⟨a, b, _⟩ := calcAsset_spec g locks tr tr' c h
  refine ⟨fun i => ?_, b⟩
  rcases a i with h1 | h1
  · exact h1
  · have := hb i; omega

/-- non-vacuity: a non-perpetual gauge with 100 coins, 10 already distributed, 3 epochs left, two locks -/
def exGauge : Gauge := ⟨1, .asset 0 1, false, [100], [10], 1, 4, 1, .active⟩
example : calcAsset exGauge [⟨0, 0, 2, 5⟩, ⟨1, 0, 1, 5⟩] [] = some ([(0, [20]), (1, [10])], [30]) := by decide

/-- a rollapp gauge pays its owner exactly the remainder (so never more than was deposited) -/
theorem rollapp_gauge_bounded (s : State) (g : Gauge) (r : Nat) (tr tr' : Tracker) (c : Coins)
    (hb : ∀ i, amt g.distributed i ≤ amt g.coins i) (h : calcRollapp s g r tr = .ok tr' c) :
    ∀ i, amt c i + amt g.distributed i ≤ amt g.coins i := by
  obtain ⟨a, _, _⟩ := calcRollapp_spec s g r tr tr' c h
  intro i
  rcases a i with h1 | h1
  · exact h1
  · have := hb i; omega

def exRollappGauge : Gauge := ⟨1, .rollapp 0, true, [100], [10], 0, 0, 0, .active⟩
example : (match calcRollapp { rollapps := [⟨true, 4, true⟩] } exRollappGauge 0 [] with
    | .ok tr c => tr == [(4, [90])] && c == [90]
    | _ => false) = true := by decide

/-- **for every history** of gauge creation, top-up, stream creation / termination / re-targeting, lock
    and rollapp changes, blocks, epoch boundaries and iteration limits: no gauge (asset or rollapp) has
    distributed more than was put into it -/
theorem gauge_bounded (now mi : Nat) (ops : List Op) (hw : ∀ op ∈ ops, op.wf) :
    ∀ g ∈ (run (init now mi) ops).gauges, ∀ i, amt g.distributed i ≤ amt g.coins i :=
  (run_ginv ops _ (init_ginv now mi) hw).bounded

/-- the same from any state satisfying the gauge invariant (the invariant is inductive) -/
theorem gauge_invariant_inductive (s : State) (op : Op) (h : GInv s) (hw : op.wf) : GInv (step s op).2 :=
  step_ginv s op h hw

/-! ## 2. the incentives module account covers what gauges still owe -/

/-- coins not yet distributed by the gauges that are not finished -/
def owedUnfinished (gs : List Gauge) (i : Nat) : Nat :=
  ((gs.filter (fun g => g.status != .finished)).map (owedG · i)).sum

/-- **for every history**: the incentives module account holds at least the undistributed remainder of
    all its unfinished gauges (indeed of all gauges), per denom -/
theorem module_solvent_incentives (now mi : Nat) (ops : List Op) (hw : ∀ op ∈ ops, op.wf) (i : Nat) :
    owedUnfinished (run (init now mi) ops).gauges i ≤ amt ((run (init now mi) ops).bank.get incAddr) i :=
  Nat.le_trans (sum_filter_le _ _ _) ((run_ginv ops _ (init_ginv now mi) hw).solvent i)

/-! ## 3. who is paid, and in which proportion -/

/-- **for every state satisfying the invariant and every block (begin or end)**: accounts other than the
    two module accounts are never debited, and an account whose balance changes is not a blocked
    address and owns a lock qualifying for some asset gauge, or a launched rollapp that has a gauge -/
theorem recipients_legit (s : State) (op : Op) (h : GInv s) (hop : (∃ dt, op = .begin dt) ∨ op = .end_)
    (a : Nat) (ha : a ≠ streamerAddr) (hb : a ≠ incAddr) :
    (∀ i, amt (s.bank.get a) i ≤ amt ((step s op).2.bank.get a) i) ∧
    ((∃ i, amt ((step s op).2.bank.get a) i ≠ amt (s.bank.get a) i) →
      blocked a = false ∧
      ∃ g ∈ s.gauges,
        match g.kind with
        | .asset d dur => ∃ l ∈ s.locks, l.owner = a ∧ l.denom = d ∧ dur ≤ l.duration
        | .rollapp r => ∃ ra, s.rollapps[r]? = some ra ∧ ra.launched = true ∧ ra.owner = a) := by
  have hp := step_pay s op h hop
  refine ⟨hp.mono a ha hb, ?_⟩
  intro hx
  obtain ⟨q, k, hk, hl⟩ := hp.legit a ha hb hx
  refine ⟨q, ?_⟩
  obtain ⟨g, hg, he⟩ := List.mem_map.1 hk
  refine ⟨g, hg, ?_⟩
  rw [he]
  unfold LegitFor at hl
  cases k with
  | asset d dur =>
    simp only at hl ⊢
    obtain ⟨l, h1, h2, h3⟩ := hl
    unfold qualifies at h3
    simp only [Bool.and_eq_true, beq_iff_eq, decide_eq_true_eq] at h3
    exact ⟨l, h1, h2, h3.1, h3.2⟩
  | rollapp r =>
    simp only at hl ⊢
    obtain ⟨ra, h1, _, h3, h4⟩ := hl
    exact ⟨ra, h1, h3, h4⟩

/-- the same along every history from the initial state -/
theorem recipients_legit_reachable (now mi : Nat) (ops : List Op) (hw : ∀ op ∈ ops, op.wf) (op : Op)
    (hop : (∃ dt, op = .begin dt) ∨ op = .end_) : Pay (run (init now mi) ops) (step (run (init now mi) ops) op).2 :=
  step_pay _ op (run_ginv ops _ (init_ginv now mi) hw) hop

/-- in proportion to the locked amounts: a lock's reward is ⌊remain·l/(L·e)⌋ per coin, so a larger lock
    never gets less and equal locks get equal rewards -/
theorem asset_rewards_proportional (remain : Coins) (L e l1 l2 i : Nat) (h : l1 ≤ l2) :
    amt (lockReward remain l1 L e) i = amt remain i * l1 / (L * e) ∧
    amt (lockReward remain l1 L e) i ≤ amt (lockReward remain l2 L e) i := by
  rw [amt_lockReward, amt_lockReward]
  exact ⟨rfl, lockShare_mono _ _ _ _ _ h⟩

example : amt (lockReward [100, 7] 5 13 3) 0 = 12 ∧ amt (lockReward [100, 7] 7 13 3) 0 = 17 := by decide

/-! ## 3b. exact amounts: "in proportion to the locked amounts" at state level -/

/-- **every call of x/incentives `Keeper.Distribute`, any state, any gauge list**: an account other than the
    incentives module account is credited exactly `Σ_{g ∈ gauges} dueG s g a` — for an asset gauge the sum of
    `lockReward` over the account's qualifying locks (`asset_due_is_sum_of_lockRewards`), for a rollapp gauge the
    whole remainder if the account owns the launched rollapp — nothing more, nothing less -/
theorem distribute_pays_exactly (s : State) (gs : List Gauge) (ee : Bool) (s' : State) (h : incDistribute s gs ee = .ok s')
    (a : Nat) (ha : a ≠ incAddr) (i : Nat) :
    amt (s'.bank.get a) i = amt (s.bank.get a) i + (gs.map (dueG s · a i)).sum :=
  incDistribute_exact s gs ee s' h a ha i

/-- what one gauge hands out in that call is exactly the sum of what it owes (per coin) -/
theorem gauge_hands_out_exactly (s : State) (g : Gauge) (tr tr' : Tracker) (c : Coins) (h : calcGauge s g tr = .ok tr' c) (i : Nat) :
    amt c i = dueTotal s g i :=
  (calcGauge_exact s g tr tr' c h 0 i).2

/-- ... and every gauge handed in (a copy of a stored gauge: same kind and distributed coins, coins possibly topped
    up) is stored afterwards with its distributed coins grown by exactly that amount -/
theorem distribute_gauges_exactly (s : State) (gs : List Gauge) (ee : Bool) (s' : State) (hg : GInv s)
    (hnd : (gs.map (·.id)).Nodup) (hcoh : ∀ g ∈ gs, Coh s.gauges g) (h : incDistribute s gs ee = .ok s') :
    ∀ g ∈ gs, ∃ g', getG s'.gauges g.id = some g' ∧ ∀ i, amt g'.distributed i = amt g.distributed i + dueTotal s g i :=
  incDistribute_gauges_exact s gs ee s' hg.ids hnd hcoh h

/-- for an asset gauge (with coins, qualifying locks and an epoch left) `dueG` IS the sum of `lockReward` over the
    account's locks that qualify for the gauge -/
theorem asset_due_is_sum_of_lockRewards (s : State) (g : Gauge) (d dur : Nat) (hk : g.kind = .asset d dur) (hc : g.coins.isZero = false)
    (hL : lockSum (s.locks.filter (qualifies d dur)) ≠ 0) (hre : remainEpochs g ≠ 0) (a i : Nat) :
    dueG s g a i =
      (((s.locks.filter (qualifies d dur)).filter (·.owner == a)).map (fun l =>
        amt (lockReward (Coins.sub g.coins g.distributed) l.amount (lockSum (s.locks.filter (qualifies d dur))) (remainEpochs g)) i)).sum :=
  dueG_asset s g d dur hk hc hL hre a i

/-- **state level, the streamer EndBlock in a state satisfying the gauge invariant**: the balance of every account
    other than the two module accounts grows by exactly what the gauges funded in this block owe it; those gauges
    are copies of stored gauges (same kind, same distributed coins, coins topped up by the streams), ids distinct;
    and each of them is stored afterwards with its distributed coins grown by exactly what it handed out -/
theorem endBlock_pays_exactly (s s' : State) (hg : GInv s) (h : streamerEndBlock s = .ok s') :
    ∃ gs : List Gauge, (gs.map (·.id)).Nodup ∧ (∀ g ∈ gs, Coh s.gauges g) ∧
      (∀ a, a ≠ streamerAddr → a ≠ incAddr → ∀ i,
        amt (s'.bank.get a) i = amt (s.bank.get a) i + (gs.map (dueG s · a i)).sum) ∧
      (∀ g ∈ gs, ∃ g', getG s'.gauges g.id = some g' ∧ ∀ i, amt g'.distributed i = amt g.distributed i + dueTotal s g i) :=
  strDistribute_pays_exactly s _ _ _ _ s' hg h

/-- the same **after every history** (module accounts do not sign), for the `end` step whatever its outcome -/
theorem end_step_pays_exactly (now mi : Nat) (ops : List Op) (hw : ∀ op ∈ ops, op.wf) :
    ∃ gs : List Gauge, (gs.map (·.id)).Nodup ∧ (∀ g ∈ gs, Coh (run (init now mi) ops).gauges g) ∧
      (∀ a, a ≠ streamerAddr → a ≠ incAddr → ∀ i,
        amt ((step (run (init now mi) ops) .end_).2.bank.get a) i =
          amt ((run (init now mi) ops).bank.get a) i + (gs.map (dueG (run (init now mi) ops) · a i)).sum) ∧
      (∀ g ∈ gs, ∃ g', getG (step (run (init now mi) ops) .end_).2.gauges g.id = some g' ∧
        ∀ i, amt g'.distributed i = amt g.distributed i + dueTotal (run (init now mi) ops) g i) := by
  have hg := run_ginv ops _ (init_ginv now mi) hw
  generalize run (init now mi) ops = s at hg ⊢
  have hnone : ∀ s0 : State, s0.bank = s.bank → ∃ gs : List Gauge, (gs.map (·.id)).Nodup ∧ (∀ g ∈ gs, Coh s.gauges g) ∧
      (∀ a, a ≠ streamerAddr → a ≠ incAddr → ∀ i, amt (s0.bank.get a) i = amt (s.bank.get a) i + (gs.map (dueG s · a i)).sum) ∧
      (∀ g ∈ gs, ∃ g', getG s0.gauges g.id = some g' ∧ ∀ i, amt g'.distributed i = amt g.distributed i + dueTotal s g i) :=
    fun s0 hb => ⟨[], List.nodup_nil, by simp, by intro a _ _ i; rw [hb]; simp, by simp⟩
  unfold step
  split
  · exact hnone s rfl
  · simp only
    cases h : streamerEndBlock s with
    | ok s' => exact endBlock_pays_exactly s s' hg h
    | error e => exact hnone { s with halted := true } rfl

/-- non-vacuity: two locks of account 1 and one of account 2 qualify for gauge 1 (90 coins left, 3 epochs) -/
example : (let s : State := { locks := [⟨1, 0, 2, 5⟩, ⟨2, 0, 1, 5⟩, ⟨1, 0, 3, 9⟩, ⟨1, 1, 50, 9⟩] }
    (dueG s exGauge 1 0, dueG s exGauge 2 0, dueTotal s exGauge 0)) = (25, 5, 30) := by decide

/-! ## 4. independence from the per-block iteration limit -/

/-- **one block**: with an id-sorted stream list, what was still to be visited in the epoch is what this
    block's call visits followed by what is still to be visited from the pointer it saves — for every
    budget, every callback (weights may depend on the evolving caches) and every pointer -/
theorem paging_resume {σ : Type} (data : List SView) (e : Nat) (hs : SortedData data) (p : Pointer) (max : Nat)
    (cb : σ → SView → Rec → σ × Nat) (acc : σ) :
    remaining data e p = iterVisits data e p max cb acc ++ remaining data e (iterateEpochPointer data e p max cb acc).1 :=
  iterate_resume data e hs p max cb acc

/-- the model's `IterateEpochPointer` applies the callback to exactly those positions, in that order -/
theorem paging_effect {σ : Type} (data : List SView) (e : Nat) (p : Pointer) (max : Nat)
    (cb : σ → SView → Rec → σ × Nat) (acc : σ) :
    (iterateEpochPointer data e p max cb acc).2.2 = foldCb data cb acc (iterVisits data e p max cb acc) :=
  iterate_acc data e p max cb acc

/-- **for EVERY sequence of blocks** (each with its own limit ≥ 0, callback and weights) followed by the
    unlimited call at the epoch end: the concatenation of all visits equals the visit list of a single
    unlimited call from the first pointer.  (`B` bounds a single item's weight; the epoch-end budget is
    `IterationsNoLimit = 2^64-1`.) -/
theorem paging_independent {σ : Type} (data : List SView) (e : Nat) (hs : SortedData data)
    (rounds : List (Round σ)) (flush one : Round σ) (B : Nat)
    (hBf : ∀ acc s r, (flush.cb acc s r).2 ≤ B) (hMf : B * totalRecs data < flush.max)
    (hBo : ∀ acc s r, (one.cb acc s r).2 ≤ B) (hMo : B * totalRecs data < one.max) :
    (pagedRun data e Pointer.first rounds).2 ++
        iterVisits data e (pagedRun data e Pointer.first rounds).1 flush.max flush.cb flush.acc
      = iterVisits data e Pointer.first one.max one.cb one.acc := by
  rw [(iterate_unlimited data e hs _ flush.max B flush.cb flush.acc hBf hMf).1,
      (iterate_unlimited data e hs _ one.max B one.cb one.acc hBo hMo).1]
  exact (paged_concat data e hs rounds Pointer.first).symm

/-- after the unlimited call nothing is left, and the totals of any per-pair quantity agree -/
theorem paging_totals_agree {σ : Type} (data : List SView) (e : Nat) (hs : SortedData data)
    (rounds : List (Round σ)) (flush one : Round σ) (B : Nat)
    (hBf : ∀ acc s r, (flush.cb acc s r).2 ≤ B) (hMf : B * totalRecs data < flush.max)
    (hBo : ∀ acc s r, (one.cb acc s r).2 ≤ B) (hMo : B * totalRecs data < one.max) (f : Nat × Nat → Nat) :
    (((pagedRun data e Pointer.first rounds).2 ++
        iterVisits data e (pagedRun data e Pointer.first rounds).1 flush.max flush.cb flush.acc).map f).sum
      = ((iterVisits data e Pointer.first one.max one.cb one.acc).map f).sum := by
  rw [paging_independent data e hs rounds flush one B hBf hMf hBo hMo]

/-- **exactly once**: over an epoch the visited positions are exactly the valid (stream, gauge)
    positions — streams of this epoch identifier with records — each exactly once -/
theorem paging_exactly_once (data : List SView) (e : Nat) (hs : SortedData data) :
    (remaining data e Pointer.first).Nodup ∧
    ∀ p : Nat × Nat, p ∈ remaining data e Pointer.first ↔ validAt data e p.1 p.2 = true :=
  remaining_first_exact data e hs

/-- every block whose limit is at least 1 makes progress while something is left -/
theorem paging_progress {σ : Type} (data : List SView) (e : Nat) (p : Pointer) (max : Nat)
    (cb : σ → SView → Rec → σ × Nat) (acc : σ) (hmax : 1 ≤ max) (hne : remaining data e p ≠ []) :
    iterVisits data e p max cb acc ≠ [] :=
  iterate_progress data e p max cb acc hmax hne

/-- the data used in the examples: streams 2 and 3 (hour), 5 (day), sorted by id -/
def exData : List SView := [⟨2, 1, [⟨1, 1⟩, ⟨2, 1⟩]⟩, ⟨3, 1, [⟨1, 5⟩, ⟨4, 5⟩]⟩, ⟨5, 0, [⟨1, 1⟩]⟩]
def unitCb : Unit → SView → Rec → Unit × Nat := fun _ _ _ => ((), 1)

theorem exData_sorted : SortedData exData := by
  refine ⟨strictInc_of_pairwise _ (by decide), ?_, ?_⟩
  · intro s hs
    apply strictInc_of_pairwise
    simp only [exData, List.mem_cons, List.not_mem_nil, or_false] at hs
    rcases hs with h | h | h <;> (subst h; decide)
  · intro k hk
    simp only [exData, List.length_cons, List.length_nil] at hk
    have : k = 0 ∨ k = 1 ∨ k = 2 := by omega
    rcases this with h | h | h <;> (subst h; decide)

/-- non-vacuity: three blocks with limits 1, 2, 1 and the flush visit (0,0) | (0,1),(1,0) | (1,1) | — -/
example : (pagedRun exData 1 Pointer.first [⟨1, unitCb, ()⟩, ⟨2, unitCb, ()⟩, ⟨1, unitCb, ()⟩]).2
    = [(0, 0), (0, 1), (1, 0), (1, 1)] := by decide
example : iterVisits exData 1 Pointer.first maxU64 unitCb () = [(0, 0), (0, 1), (1, 0), (1, 1)] := by decide
example : ∀ acc s r, (unitCb acc s r).2 ≤ 1 := fun _ _ _ => Nat.le_refl _

/- The hypothesis `SortedData` is necessary: `GetActiveStreams` is ordered by start time and, within one
   start time, by a swap-remove list — not by id — while `NewStreamIterator` bisects by id.  Since fix D2
   `Keeper.Distribute` sorts the list by id first (`sortById`; `sorted_sortById`, `nodup_sortById`). -/

/-- two streams created together, a third finishing earlier leaves the reference list as [3, 2]: with
    limit 1 the saved pointer (stream 3, gauge 2) is bisected to "past the end", so the pairs (3,2),
    (2,1), (2,2) are never visited, not even by the unlimited call at the epoch end -/
theorem paging_unsorted_counterexample :
    let data : List SView := [⟨3, 1, [⟨1, 1⟩, ⟨2, 1⟩]⟩, ⟨2, 1, [⟨1, 1⟩, ⟨2, 1⟩]⟩]
    (pagedRun data 1 Pointer.first [⟨1, unitCb, ()⟩]).2 ++
      iterVisits data 1 (pagedRun data 1 Pointer.first [⟨1, unitCb, ()⟩]).1 maxU64 unitCb ()
      = [(0, 0)] ∧
    iterVisits data 1 Pointer.first maxU64 unitCb () = [(0, 0), (0, 1), (1, 0), (1, 1)] := by decide

/-- the same unsorted list with limit 3: the first block visits (3,1),(3,2),(2,1) and saves the pointer
    (stream 2, gauge 2), which bisects to stream 3 again — the second block re-visits (3,2) and (2,1) -/
theorem paging_revisit_counterexample :
    let data : List SView := [⟨3, 1, [⟨1, 1⟩, ⟨2, 1⟩]⟩, ⟨2, 1, [⟨1, 1⟩, ⟨2, 1⟩]⟩]
    (pagedRun data 1 Pointer.first [⟨3, unitCb, ()⟩, ⟨3, unitCb, ()⟩]).2
      = [(0, 0), (0, 1), (1, 0), (0, 1), (1, 0), (1, 1)] := by decide

/-- **the hypothesis of the paging theorems holds for the list `Keeper.Distribute` iterates** (fix D2): in
    every state satisfying the invariant the sorted copies of the active streams form `SortedData` -/
theorem distribute_data_sorted (s : State) (hi : Inv s) :
    SortedData ((sortById (activeStreams s)).map Stream.view) := by
  have hin := sortById_good s (activeStreams s) (activeStreams_good s hi.struct)
  have hgc : GoodCache ⟨sortById (activeStreams s), [], []⟩ := by
    refine ⟨hin.1, sorted_sortById _, ?_, ?_⟩
    · intro st hm
      exact hi.stat.recs st (mem_streamsOf ((mem_sortById _ st).1 hm))
    · intro st hm
      have := id_le_length hi.struct.sid (mem_streamsOf ((mem_sortById _ st).1 hm))
      have := hi.len
      omega
  exact hgc.sortedData

/-- **state level, every value of the per-block limit**: one streamer EndBlock never makes a stream hand out
    more than what was pending for it — `distributed' + pending' ≤ distributed + pending` for every stream in
    the cache (pending = shares of its records at or after its epoch's stored pointer) -/
theorem paging_never_overserves (s s' : State) (hi : Inv s) (h : streamerEndBlock s = .ok s') :
    ∀ st' ∈ s'.streams, ∀ st0 ∈ s.streams, st0.id = st'.id → st0.id ∈ s.active.ids → ∀ i,
      amt st'.distributed i + pendId (ptrOfEpoch s' st'.epochId) st' i ≤ amt st0.distributed i + pendId (ptrOfEpoch s st0.epochId) st0 i := by
  intro st' hm' st0 hm0 hid hact i
  unfold streamerEndBlock at h
  have hin := activeStreams_good s hi.struct
  have hst : ∀ st ∈ activeStreams s, StrictInc (st.recs.map (·.gauge)) ∧ st.id < maxU64 := by
    intro st hm
    have hmem := mem_streamsOf hm
    exact ⟨hi.stat.recs st hmem, by have := id_le_length hi.struct.sid hmem; have := hi.len; omega⟩
  have hc := strDistribute_core s _ _ _ _ s' hi.ginv hi.struct hin hst h
  have hs' := (strDistribute_streams s _ _ _ _ s' hi.ginv hi.struct hin h).1
  rcases core_cases s _ _ false s' hc hi.struct hs' st' hm' with ⟨_, a2, _⟩ | ⟨v, st1, b1, _, b3, b4, b5, _⟩
  · exfalso
    apply a2
    rw [activeStreams_ids s hi.struct, ← hid]; exact hact
  · have hv : st' = v := by rw [b4]; rfl
    have h10 : st1 = st0 := by
      have e1 := getS_of_mem hi.struct.sid b1
      have e0 := getS_of_mem hi.struct.sid hm0
      have : st1.id = st0.id := by rw [hid, hv, b3]
      rw [this, e0] at e1
      exact (Option.some.inj e1).symm
    rw [hv]
    unfold ptrOfEpoch
    rw [← h10]
    exact b5 i


/-! ## 4b. state level: what a stream hands out over an epoch does not depend on the per-block limit -/

/-- **every streamer EndBlock, EVERY value of the iteration limit (0 included)**: for every active stream
    `distributed + (shares of its records at or after its epoch's stored pointer)` is the same before and after —
    EQUALITY (`paging_never_overserves` has `≤`); nothing else about the stream changes, the active list, the iterated
    list and the resumability of the pointers are kept.  Hypotheses: the invariant of the admissible histories;
    every record of an active stream names a gauge the code accepts (`LiveS`); the stored pointers are resumable
    (`PtrsOKS`: at a first gauge, or naming an active stream of their own epoch, or past every stream). -/
theorem endblock_conserves_settled (s s' : State) (hi : Inv s) (hl : LiveS s) (hp : PtrsOKS s) (h : streamerEndBlock s = .ok s') :
    (∀ st0 ∈ s.streams, st0.id ∈ s.active.ids → ∃ st', getS s'.streams st0.id = some st' ∧
        st' = { st0 with distributed := st'.distributed } ∧ ∀ i, Settled s' st' i = Settled s st0 i) ∧
    s'.active = s.active ∧ dataOf s' = dataOf s ∧ PtrsOKS s' :=
  let ⟨a, b, _, c, d⟩ := endBlock_settled s s' hi hl hp h
  ⟨a, b, c, d⟩

/-- … and the EndBlock keeps `LiveS` (a gauge's liveness reads its start, perpetual flag, filled and total epochs; the
    EndBlock writes back cached copies of live gauges with more coins / distributed coins only), so the three
    hypotheses of `endblock_conserves_settled` hold again in the next block -/
theorem endblock_keeps_live (s s' : State) (hi : Inv s) (hl : LiveS s) (hp : PtrsOKS s) (h : streamerEndBlock s = .ok s') :
    Inv s' ∧ LiveS s' ∧ PtrsOKS s' :=
  ⟨endBlock_inv s s' hi h, endBlock_live s s' hi hl hp h, (endBlock_settled s s' hi hl hp h).2.2.2.2⟩

/-- one block of a schedule IS the two operations `setMaxIter n; end` -/
theorem block_is_two_ops (s s' : State) (n : Nat) (hh : s.halted = false) (h : streamerEndBlock { s with maxIter := n } = .ok s') :
    (step (step s (.setMaxIter n)).2 .end_) = (.ok, s') := by
  have h1 : (step s (.setMaxIter n)).2 = { s with maxIter := n } := by unfold step; simp [hh]
  rw [h1]
  unfold step
  have h2 : ({ s with maxIter := n } : State).halted = false := hh
  rw [if_neg (by rw [h2]; decide)]
  simp only [h]

/-- **the epoch-end flush** hands every active stream of the ending epoch exactly what was still pending: its
    distributed coins become the settled amount -/
theorem epoch_end_realises_settled (s s' : State) (e : Nat) (he : e ≤ 2) (hi : Inv s) (hl : LiveS s) (hp : PtrsOKS s)
    (hsmall : (s.locks.length + 1) * totalRecs (dataOf s) < maxU64) (h : streamerAfterEpochEnd s e = .ok s') :
    ∀ st0 ∈ s.streams, st0.id ∈ s.active.ids → st0.epochId = e →
      ∃ D, getS s'.streams st0.id = some ({ st0 with distributed := D } : Stream).atEpochEnd ∧ ∀ i, amt D i = Settled s st0 i :=
  flush_settled s s' e he hi hl hp hsmall h

/-- **ANY two schedules of per-block iteration limits** (lists of any lengths, any values — `runBlocks s ns` runs
    `setMaxIter n; end` for each `n`), from the same state `s`, each followed by the end of epoch `e`: every stream of
    that epoch active in `s` is stored with THE SAME distributed coins in both runs (equal as coins, every other field
    equal), namely `Settled s` — a function of the starting state alone.
    The window contains blocks only: an epoch boundary of ANOTHER identifier inside it activates due streams in the
    middle of their epoch (D3, `paging_midepoch_counterexample`), termination of the stream under the pointer breaks
    `PtrsOKS` (`paging_pointer_terminated_counterexample`), re-targeting changes the shares
    (`stream_bounded_retarget_counterexample`); `hsmall`: lock count × record count below 2^64-1 (the epoch-end budget). -/
theorem paging_state_independent (s : State) (e : Nat) (he : e ≤ 2) (hi : Inv s) (hp : PtrsOKS s)
    (hsmall : (s.locks.length + 1) * totalRecs (dataOf s) < maxU64)
    (ns1 ns2 : List Nat) (t1 t2 u1 u2 : State) (hl : LiveS s)
    (h1 : runBlocks s ns1 = some t1) (h2 : runBlocks s ns2 = some t2)
    (f1 : streamerAfterEpochEnd t1 e = .ok u1) (f2 : streamerAfterEpochEnd t2 e = .ok u2) :
    ∀ st0 ∈ s.streams, st0.id ∈ s.active.ids → st0.epochId = e →
      ∃ a b, getS u1.streams st0.id = some a ∧ getS u2.streams st0.id = some b ∧
        b = { a with distributed := b.distributed } ∧
        ∀ i, amt a.distributed i = amt b.distributed i ∧ amt a.distributed i = Settled s st0 i := by
  intro st0 hm ha hep
  have side : ∀ (ns : List Nat) (t u : State), LiveAlong s ns → runBlocks s ns = some t → streamerAfterEpochEnd t e = .ok u →
      ∃ D, getS u.streams st0.id = some ({ st0 with distributed := D } : Stream).atEpochEnd ∧ ∀ i, amt D i = Settled s st0 i := by
    intro ns t u hl hr hf
    obtain ⟨r1, r2, r3, r4, r5, r6, r7⟩ := blocks_settled ns s t hi hp hl hr
    obtain ⟨st1, a1, a2, a3⟩ := r7 st0 hm ha
    have hid1 : st1.id = st0.id := by rw [a2]
    obtain ⟨D, d1, d2⟩ := flush_settled t u e he r1 r3 r2 (by rw [r5, r6]; exact hsmall) hf st1 (mem_of_getS a1)
      (by rw [hid1, r4]; exact ha) (by rw [a2]; exact hep)
    refine ⟨D, ?_, fun i => (d2 i).trans (a3 i)⟩
    rw [← hid1, d1, a2]
  obtain ⟨D1, p1, q1⟩ := side ns1 t1 u1 (liveAlong_of_live ns1 s hi hp hl) h1 f1
  obtain ⟨D2, p2, q2⟩ := side ns2 t2 u2 (liveAlong_of_live ns2 s hi hp hl) h2 f2
  refine ⟨_, _, p1, p2, ?_, ?_⟩
  · unfold Stream.atEpochEnd
    split <;> rfl
  · intro i
    have e1 : amt (({ st0 with distributed := D1 } : Stream).atEpochEnd).distributed i = amt D1 i := by
      unfold Stream.atEpochEnd; split <;> rfl
    have e2 : amt (({ st0 with distributed := D2 } : Stream).atEpochEnd).distributed i = amt D2 i := by
      unfold Stream.atEpochEnd; split <;> rfl
    rw [e1, e2, q1 i, q2 i]
    exact ⟨rfl, rfl⟩

/-- THE GAUGE SIDE of the clause —
      ∀ ops mi mi', Admissible ops → (run (init now mi) ops).gauges.map (·.coins) = (run (init now mi') ops).gauges.map (·.coins)
    (`Admissible`, §5: every op well-formed, no governance re-targeting)
    — is FALSE of the code, inside the property's quantifier (gauges, a stream, a lock arriving between two blocks,
    limits 1 and 500; no governance).  x/incentives `Distribute` writes a gauge handed in by the streamer back only
    when it distributes something in the same call; gauge 2 (denom 1) has no qualifying lock when the stream's share
    reaches it with limit 500 (first block of the epoch) — its 2000 are stranded in the incentives account and
    account 2 is never paid; with limit 1 it is served one block later, after the lock: it receives 2000 and pays
    account 2.  The stream side is the same in both runs (4000 handed out), as `paging_state_independent` says. -/
def strandedHistory (mi : Nat) : List Op :=
  [.setMaxIter mi, .begin 1, .end_, .createGauge 0 true 0 3600 true [] 101 1, .createGauge 0 true 1 3600 true [] 101 1,
   .locks [⟨1, 0, 100, 3600⟩],
   .fund streamerAddr [4000], .createStream false [4000] [⟨1, 1⟩, ⟨2, 1⟩] 101 1 2,
   .begin 3601, .end_, .begin 3601, .end_, .locks [⟨1, 0, 100, 3600⟩, ⟨2, 1, 50, 3600⟩], .begin 10, .end_, .begin 10, .end_,
   .begin 3601, .end_, .begin 3601, .end_]

theorem paging_gauge_side_counterexample :
    (run (init 100 500) (strandedHistory 1)).gauges.map (fun g => (g.coins, g.distributed)) = [([2000], [2000]), ([2000], [2000])] ∧
    (run (init 100 500) (strandedHistory 500)).gauges.map (fun g => (g.coins, g.distributed)) = [([2000], [2000]), ([], [])] ∧
    (run (init 100 500) (strandedHistory 1)).bank.get 2 = [2000] ∧ (run (init 100 500) (strandedHistory 500)).bank.get 2 = [] ∧
    (run (init 100 500) (strandedHistory 500)).bank.get incAddr = [2000] ∧
    (run (init 100 500) (strandedHistory 1)).streams.map (fun s => (s.distributed, s.filled)) = [([4000], 2)] ∧
    (run (init 100 500) (strandedHistory 500)).streams.map (fun s => (s.distributed, s.filled)) = [([4000], 2)] ∧
    (∀ op ∈ strandedHistory 1, op.wf ∧ op.wfS ∧ op.noRetarget) ∧ (∀ op ∈ strandedHistory 500, op.wf ∧ op.wfS ∧ op.noRetarget) := by
  refine ⟨by decide, by decide, by decide, by decide, by decide, by decide, by decide, by decide, by decide⟩

/-- the excluded case `¬ PtrsOKS`: stream 1 is terminated while the `hour` pointer points into it (stream 1, gauge 2);
    `NewStreamIterator` bisects to stream 2 but keeps gauge id 2, so stream 2's gauge 1 is skipped and never served:
    with limit 1 stream 2 hands out 2000 of its 4000 and the epoch still counts; with limit 500 it hands out 4000
    (known finding C15/paging_independent/pointer-stream-terminated, governance only) -/
def termHistory (mi : Nat) : List Op :=
  [.setMaxIter mi, .begin 1, .end_, .createGauge 0 true 0 1 true [] 101 1, .createGauge 0 true 0 1 true [] 101 1,
   .locks [⟨1, 0, 100, 3600⟩], .fund streamerAddr [8000],
   .createStream false [4000] [⟨1, 1⟩, ⟨2, 1⟩] 101 1 2, .createStream false [4000] [⟨1, 1⟩, ⟨2, 1⟩] 101 1 2,
   .begin 3601, .end_, .begin 3601, .end_, .terminateStream 1, .begin 10, .end_, .begin 10, .end_, .begin 3601, .end_]

theorem paging_pointer_terminated_counterexample :
    (run (init 100 1) (termHistory 1)).streams.map (fun s => (s.id, s.distributed, s.filled)) = [(1, [2000], 1), (2, [2000], 2)] ∧
    (run (init 100 1) (termHistory 500)).streams.map (fun s => (s.id, s.distributed, s.filled)) = [(1, [4000], 1), (2, [4000], 2)] ∧
    (run (init 100 1) ((termHistory 1).take 14)).ptrs.map (fun p => (p.streamId, p.gaugeId)) =
      [(maxU64, maxU64), (1, 2), (maxU64, maxU64)] ∧
    (run (init 100 1) ((termHistory 1).take 14)).active.ids = [2] := by
  refine ⟨by decide, by decide, by decide, by decide⟩

/-! ## 4c. exact amounts over WHOLE BLOCKS (the three-hook `begin` step and the `end` step) -/

/-- **the whole `begin` step** — the epochs BeginBlocker over day, hour, week; per ending epoch the streamer flush,
    the incentives hook and the streamer epoch start, each inside the error-discarding wrapper — in any state
    satisfying the gauge invariant: every account other than the two module accounts gains EXACTLY
    `Σ_{g ∈ beginGauges s dt} dueG s g a` (the gauge values the block's successful distributions were handed) -/
theorem begin_block_pays_exactly (s : State) (dt : Nat) (hg : GInv s) (a : Nat) (ha : a ≠ streamerAddr) (hb : a ≠ incAddr) (i : Nat) :
    amt ((beginBlock s dt).bank.get a) i = amt (s.bank.get a) i + blockDue s (beginGauges s dt) a i :=
  begin_pays_exactly s dt hg a ha hb i

/-- **the whole `end` step**, whatever its outcome -/
theorem end_block_pays_exactly (s : State) (hg : GInv s) (a : Nat) (ha : a ≠ streamerAddr) (hb : a ≠ incAddr) (i : Nat) :
    amt ((step s .end_).2.bank.get a) i = amt (s.bank.get a) i + (if s.halted then 0 else blockDue s (endGauges s) a i) :=
  end_pays_exactly s hg a ha hb i

/-- … along every history (module accounts do not sign): whole blocks pay exactly what the specification says -/
theorem blocks_pay_exactly_reachable (now mi : Nat) (ops : List Op) (hw : ∀ op ∈ ops, op.wf) (dt : Nat) (a : Nat)
    (ha : a ≠ streamerAddr) (hb : a ≠ incAddr) (i : Nat) :
    amt ((beginBlock (run (init now mi) ops) dt).bank.get a) i =
      amt ((run (init now mi) ops).bank.get a) i + blockDue (run (init now mi) ops) (beginGauges (run (init now mi) ops) dt) a i :=
  begin_pays_exactly _ dt (run_ginv ops _ (init_ginv now mi) hw) a ha hb i

/-! ## 5. streams -/

/-- **for every epoch coins amount, total weight and record weights adding up to at most the total**: the
    gauges' shares of one epoch never exceed the epoch's coins (share = ⌊epochCoins·w/W⌋, fix D1) -/
theorem stream_epoch_bounded (epochCoins W : Nat) (ws : List Nat) (h : ws.sum ≤ W) :
    (ws.map (fun w => streamShare epochCoins w W)).sum ≤ epochCoins :=
  streamShare_sum_le epochCoins W ws h

/-- the same about the expression **as regenerated from `CalculateGaugeRewards` on this run** -/
theorem stream_epoch_bounded_regenerated (epochCoins W : Nat) (ws : List Nat) (h : ws.sum ≤ W) :
    (ws.map (fun w => Gen.Incent.streamShare epochCoins w W)).sum ≤ epochCoins := by
  simp only [GenEq.streamShare_eq]
  exact streamShare_sum_le epochCoins W ws h

example : (([1, 1, 1, 1, 1, 1] : List Nat).map (fun w => streamShare 1000000000000000000 w 6)).sum
    = 999999999999999996 := by decide
example : (([1, 2, 5] : List Nat).map (fun w => streamShare 1000 w 8)).sum = 1000 := by decide

/-- for the record: the formula before fix D1 (ratio rounded half-even before multiplying) gave
    10^18 + 2 for six equal weights -/
theorem stream_share_before_repair_counterexample :
    (([1, 1, 1, 1, 1, 1] : List Nat).map (fun w => streamShareOld 1000000000000000000 w 6)).sum
      = 1000000000000000002 := by decide

theorem asset_gauge_bounded_regenerated (remain e : Nat) (he : 1 ≤ e) (locks : List Lock) :
    (locks.map (fun l => Gen.Incent.lockShare remain l.amount (lockSum locks) e)).sum ≤ remain := by
  simp only [GenEq.lockShare_eq]
  exact lockShare_total_le remain e he locks

def sixGauges (now : Nat) : List Op := List.replicate 6 (Op.createGauge 0 true 0 1 true [] now 1)
def sixRecs : List Rec := [⟨1, 1⟩, ⟨2, 1⟩, ⟨3, 1⟩, ⟨4, 1⟩, ⟨5, 1⟩, ⟨6, 1⟩]
def blocks (n dt : Nat) : List Op := (List.replicate n [Op.begin dt, Op.end_]).flatten

/-- history: six perpetual gauges, one lock, a 6·10^18 stream over two `hour` epochs with equal weights
    (the history that over-distributed before fix D1), a second small stream, four hours of blocks -/
def overHistory : List Op :=
  [.begin 1, .end_] ++ sixGauges 101 ++
  [.locks [⟨1, 0, 100, 3600⟩], .fund streamerAddr [6000000000000001000],
   .createStream false [6000000000000000000] sixRecs 101 1 2, .createStream false [1000] [⟨1, 1⟩] 101 2 3] ++ blocks 4 3601

/-- regression: the stream now hands out exactly its coins and the second stream stays covered -/
example : (run (init 100 500) overHistory).streams.map (fun s => (s.coins, s.distributed)) =
    [([6000000000000000000], [6000000000000000000]), ([1000], [])] ∧
    (run (init 100 500) overHistory).bank.get streamerAddr = [1000] := by decide

/-- regression: the exactly funded stream no longer stops block processing -/
example : (run (init 100 500) ([.begin 1, .end_] ++ sixGauges 101 ++
      [.locks [⟨1, 0, 100, 3600⟩], .fund streamerAddr [6000000000000000000],
       .createStream false [6000000000000000000] sixRecs 101 1 2] ++ blocks 4 3601)).halted = false := by decide

/-- what is still owed to the streams in the upcoming and active lists (as `GetModuleToDistributeCoins`
    sums them), per denom -/
def streamerOwed (s : State) (i : Nat) : Nat := owedL s i

/-- the histories the stream clauses quantify over: creation and top-up of gauges and streams, termination,
    lock and rollapp changes, blocks, epoch boundaries, iteration limits — everything except re-targeting
    a stream's records by governance (`ReplaceStreamDistributionProposal`), and module accounts do not sign -/
def Admissible (ops : List Op) : Prop := ∀ op ∈ ops, op.wf ∧ op.wfS ∧ op.noRetarget

/-- **for every admissible history: a stream never hands out more than its total** (fewer than 2^64-1
    streams created).  Rests on the invariant `distributed + shares still pending in this epoch +
    (remaining epochs − 1)·(shares of one epoch) ≤ coins` (`Incent.SBst`), kept by the paged distribution
    for every sequence of limits (`ptrLoop_window`) and re-established at every epoch start. -/
theorem stream_bounded (now mi : Nat) (ops : List Op) (hw : Admissible ops)
    (hlen : (run (init now mi) ops).streams.length < maxU64) :
    ∀ st ∈ (run (init now mi) ops).streams, ∀ i, amt st.distributed i ≤ amt st.coins i :=
  SB_noOver _ (run_inv ops _ (init_inv now mi) hw hlen).sb

/-- the invariant itself, for use by other properties -/
theorem stream_invariant (now mi : Nat) (ops : List Op) (hw : Admissible ops)
    (hlen : (run (init now mi) ops).streams.length < maxU64) : Inv (run (init now mi) ops) :=
  run_inv ops _ (init_inv now mi) hw hlen

/-- **for every admissible history: the streamer account covers all upcoming and active streams** -/
theorem module_solvent_streamer (now mi : Nat) (ops : List Op) (hw : Admissible ops)
    (hlen : (run (init now mi) ops).streams.length < maxU64) (i : Nat) :
    streamerOwed (run (init now mi) ops) i ≤ amt ((run (init now mi) ops).bank.get streamerAddr) i :=
  run_solvent ops _ (init_ginv now mi) (init_sstruct now mi) (init_solv now mi)
    (fun op ho => ⟨(hw op ho).1, (hw op ho).2.1⟩) (stream_bounded now mi ops hw hlen) i

/-- without the admissibility restriction only the conditional form holds -/
theorem module_solvent_streamer_partial (now mi : Nat) (ops : List Op) (hw : ∀ op ∈ ops, op.wf ∧ op.wfS)
    (hno : ∀ st ∈ (run (init now mi) ops).streams, ∀ i, amt st.distributed i ≤ amt st.coins i) (i : Nat) :
    streamerOwed (run (init now mi) ops) i ≤ amt ((run (init now mi) ops).bank.get streamerAddr) i :=
  run_solvent ops _ (init_ginv now mi) (init_sstruct now mi) (init_solv now mi) hw hno i

/-- re-targeting in the middle of an epoch is excluded for a reason: stream 1 (1000 coins, gauges 1 and 2,
    1000 for its last epoch) is half served with limit 1, then re-targeted to gauge 2 alone — gauge 2 now
    receives the whole epoch amount: 1500 of 1000 handed out, and the next EndBlock cannot pay stream 2
    (block processing stops) -/
def retargetHistory : List Op :=
  [.begin 1, .end_, .createGauge 0 true 0 1 true [] 101 1, .createGauge 0 true 0 1 true [] 101 1,
   .createGauge 0 true 0 1 true [] 101 1, .locks [⟨1, 0, 100, 3600⟩], .fund streamerAddr [2000],
   .createStream false [1000] [⟨1, 1⟩, ⟨2, 1⟩] 101 1 2, .createStream false [1000] [⟨3, 1⟩] 101 1 2,
   .begin 3601, .end_, .begin 3601, .end_, .replaceDistr 1 [⟨2, 1⟩], .begin 10, .end_, .begin 10, .end_]

theorem stream_bounded_retarget_counterexample :
    (run (init 100 1) retargetHistory).streams.map (fun s => (s.id, s.coins, s.distributed)) = [(1, [1000], [1500]), (2, [1000], [])] ∧
    (run (init 100 1) retargetHistory).halted = true := by decide

example : Admissible overHistory := by unfold Admissible; decide

/-! ### sponsored streams, UpdateStreamDistributionProposal, pool gauges -/

/-- **a sponsored stream's re-targeting keeps the stream bound, for EVERY distribution handed in and EVERY position
    of the epoch pointer** (reset to the first gauge, left at the last gauge, or anywhere in between — the pointer is
    not reset when the epoch had no active stream): the value `UpdateStreamAtEpochStart` stores satisfies
    `distributed + pending + (remaining epochs − 1)·(shares of one epoch) ≤ coins`, because the epoch coins are
    recomputed from what is left in the same step -/
theorem sponsored_retarget_keeps_bound (st : Stream) (d : List Rec) (p : Pointer) (htw : st.totalWeight = totalWeightOf st.recs)
    (hre : st.numEpochs - st.filled ≠ 0) (hle : ∀ i, amt st.distributed i ≤ amt st.coins i) (i : Nat) :
    amt (started (st.retarget d)).distributed i + pendId p (started (st.retarget d)) i +
      ((started (st.retarget d)).numEpochs - (started (st.retarget d)).filled - 1) *
        sharesOf (started (st.retarget d)) (started (st.retarget d)).recs i ≤ amt (started (st.retarget d)).coins i := by
  obtain ⟨_, q2, q3, _, _, q6, q7, _⟩ := retarget_static st d
  exact started_strong (st.retarget d) p (retarget_tw st d htw) (by rw [q6, q7]; exact hre) (by intro j; rw [q2, q3]; exact hle j) i

/-- at its epoch start a sponsored stream is stored with exactly the current distribution as its records and the
    sum of the powers as its total weight (`DistrInfoFromDistribution`); other streams keep their records -/
theorem sponsored_epoch_start_follows_distribution (l : List Stream) (s s' : State) (hs : SStruct s) (hnd : (l.map (·.id)).Nodup)
    (hall : ∀ st ∈ l, getS s.streams st.id = some st) (h : startStreams l s = .ok s') :
    ∀ st ∈ l, ∃ st', getS s'.streams st.id = some st' ∧ st'.sponsored = st.sponsored ∧
      (st.sponsored = true → st'.recs = s.distr ∧ st'.totalWeight = totalWeightOf s.distr) ∧
      (st.sponsored = false → st'.recs = st.recs ∧ st'.totalWeight = st.totalWeight) := by
  intro st hst
  obtain ⟨_, _, _, _, _, r⟩ := startStreams_exact l s s' hs hnd hall h
  refine ⟨_, (r st hst).1, (retarget_static st s.distr).2.2.2.2.2.2.2, ?_, ?_⟩
  · intro hsp
    show (st.retarget s.distr).recs = _ ∧ (st.retarget s.distr).totalWeight = _
    unfold Stream.retarget; rw [if_pos hsp]; exact ⟨rfl, rfl⟩
  · intro hsp
    show (st.retarget s.distr).recs = _ ∧ (st.retarget s.distr).totalWeight = _
    unfold Stream.retarget; rw [if_neg (by rw [hsp]; decide)]; exact ⟨rfl, rfl⟩

/-- `UpdateStreamAtEpochEnd`: an epoch in which the stream had no weight (empty distribution) is not counted -/
theorem sponsored_zero_weight_epoch_not_filled (st : Stream) (h : st.totalWeight = 0) : st.atEpochEnd = st := by
  unfold Stream.atEpochEnd; simp [h]

/-- history: three perpetual gauges, a sponsored stream (3000 over three `hour` epochs) created on the distribution
    {1:5, 2:5}; the distribution moves to {3:9} in the middle of the first epoch, is empty during what would be the
    third epoch, and comes back as {1:1, 3:3}; paged with limit 1 -/
def sponsoredHistory : List Op :=
  [.begin 1, .end_, .createGauge 0 true 0 1 true [] 101 1, .createGauge 0 true 0 1 true [] 101 1,
   .createGauge 0 true 0 1 true [] 101 1, .locks [⟨1, 0, 100, 3600⟩], .distribution [⟨1, 5⟩, ⟨2, 5⟩],
   .fund streamerAddr [3000], .createStream true [3000] [] 101 1 3,
   .begin 3601, .end_, .begin 10, .end_, .distribution [⟨3, 9⟩], .begin 10, .end_,
   .begin 3601, .end_, .begin 10, .end_, .distribution [],
   .begin 3601, .end_, .begin 3601, .end_, .distribution [⟨1, 1⟩, ⟨3, 3⟩],
   .begin 3601, .end_, .begin 10, .end_, .begin 10, .end_, .begin 3601, .end_]

/-- non-vacuity of the sponsored clauses: the history is admissible; the stream re-targets itself at every epoch
    start — {1,2} in its first epoch (which hands out nothing and still counts: the `hour` pointer was left at the
    last gauge because the epoch before had no active stream, D3), gauge 3 in the second (1500), the two epochs with
    an empty distribution are not counted, gauges 1 and 3 in the last (375 + 1125) — and hands out exactly its 3000 -/
example : Admissible sponsoredHistory := by unfold Admissible; decide
example : (run (init 100 1) sponsoredHistory).streams.map (fun s => (s.sponsored, s.filled, s.coins, s.distributed, s.recs)) =
    [(true, 3, [3000], [3000], [⟨1, 1⟩, ⟨3, 3⟩])] ∧
    (run (init 100 1) sponsoredHistory).gauges.map (fun g => g.coins) = [[375], [], [2625]] := by decide

/-- `UpdateStreamDistributionProposal` is a re-targeting like `ReplaceStreamDistributionProposal` and excluded from
    `Admissible` for the same reason: stream 1 (1000 coins, gauges 1 and 2, last epoch) is half served with limit 1,
    then gauge 1 is dropped by an update (weight 0) — gauge 2 now receives the whole epoch amount: 1500 of 1000 -/
def updateHistory : List Op :=
  [.begin 1, .end_, .createGauge 0 true 0 1 true [] 101 1, .createGauge 0 true 0 1 true [] 101 1,
   .createGauge 0 true 0 1 true [] 101 1, .locks [⟨1, 0, 100, 3600⟩], .fund streamerAddr [2000],
   .createStream false [1000] [⟨1, 1⟩, ⟨2, 1⟩] 101 1 2, .createStream false [1000] [⟨3, 1⟩] 101 1 2,
   .begin 3601, .end_, .begin 3601, .end_, .updateDistr 1 [⟨1, 0⟩], .begin 10, .end_, .begin 10, .end_]

theorem stream_bounded_update_counterexample :
    (run (init 100 1) updateHistory).streams.map (fun s => (s.id, s.coins, s.distributed, s.recs)) =
      [(1, [1000], [1500], [⟨2, 1⟩]), (2, [1000], [], [⟨3, 1⟩])] ∧
    (run (init 100 1) updateHistory).halted = true := by decide

/-- `Hooks.AfterPoolCreated → CreatePoolGauge` (the streamer module account creates five perpetual asset gauges with
    empty coins) is an ordinary operation of the admissible histories: it keeps the full invariant -/
theorem pool_gauges_keep_invariant (s : State) (hi : Inv s) (denom : Nat) (hasSupply : Bool) :
    Inv (step s (.poolGauges denom hasSupply)).2 := by
  have hl : (step s (.poolGauges denom hasSupply)).2.streams.length < maxU64 := by
    unfold step
    split
    · exact hi.len
    · simp only
      unfold createPoolGauges
      rw [(poolGaugesLoop_frame denom hasSupply lockableDurations s).1]; exact hi.len
  exact step_inv s _ hi trivial trivial trivial hl

example : (step (init 100 500) (.poolGauges 11 true)).2.gauges.map (fun g => (g.id, g.kind, g.perpetual, g.coins)) =
    [(1, .asset 11 1, true, []), (2, .asset 11 3600, true, []), (3, .asset 11 10800, true, []),
     (4, .asset 11 25200, true, []), (5, .asset 11 60, true, [])] ∧
    (step (init 100 500) (.poolGauges 12 false)).1 = .err := by decide

/-- **for every history**: streams are never removed, keep their coins and ids, and their distributed
    coins only grow -/
theorem streams_monotone (now mi : Nat) (ops more : List Op) (hw : ∀ op ∈ ops ++ more, op.wf ∧ op.wfS) :
    StreamsMono (run (init now mi) ops).streams (run (run (init now mi) ops) more).streams := by
  have h1 : ∀ op ∈ ops, op.wf ∧ op.wfS := fun o ho => hw o (List.mem_append_left _ ho)
  have h2 : ∀ op ∈ more, op.wf ∧ op.wfS := fun o ho => hw o (List.mem_append_right _ ho)
  have hg := run_ginv ops _ (init_ginv now mi) (fun o ho => (h1 o ho).1)
  have hs := (run_struct_mono ops _ (init_ginv now mi) (init_sstruct now mi) h1).1
  exact (run_struct_mono more _ hg hs h2).2

/-- the allocation `CreateStream` subtracts from the balance is exactly `streamerOwed` while no stream
    has over-distributed -/
theorem module_to_distribute_exact (s : State) (alloc : Coins) (h : moduleToDistribute s = some alloc)
    (hno : NoOver s.streams) (i : Nat) : amt alloc i = streamerOwed s i :=
  moduleToDistribute_amt s alloc h hno i


/-! ## 6. histories that depend(ed) on the iteration limit: D2 (repaired, regression), D3 (standing) -/

def unsortedHistory : List Op :=
  [.begin 1, .end_, .createGauge 0 true 0 1 true [] 101 1, .createGauge 0 true 0 1 true [] 101 1,
   .locks [⟨1, 0, 100, 3600⟩], .fund streamerAddr [9000],
   .createStream false [3000] [⟨1, 1⟩, ⟨2, 1⟩] 101 1 1, .createStream false [3000] [⟨1, 1⟩, ⟨2, 1⟩] 101 1 3,
   .createStream false [3000] [⟨1, 1⟩, ⟨2, 1⟩] 101 1 3, .begin 3601, .end_] ++
  blocks 2 1200 ++ blocks 1 1201 ++ blocks 2 1200 ++ [.begin 1201]

/-- the reference list is still [3, 2], but with limits 1, 3 and 500 every stream has handed out the same -/
example : (run (init 100 1) unsortedHistory).active.ids = [3, 2] ∧
    ([1, 3, 500].map (fun mi => (run (init 100 mi) unsortedHistory).streams.map (fun s => (s.id, s.distributed)))) =
      List.replicate 3 [(1, []), (2, [1500]), (3, [1500])] := by decide

def midEpochHistory : List Op :=
  [.begin 1, .end_, .createGauge 0 true 0 1 true [] 101 1, .createGauge 0 true 0 1 true [] 101 1,
   .createGauge 0 true 0 1 true [] 101 1, .locks [⟨1, 0, 100, 3600⟩], .fund streamerAddr [9000],
   .createStream false [3000] [⟨1, 1⟩, ⟨2, 1⟩, ⟨3, 1⟩] 101 0 3] ++ blocks 2 86401 ++
  [.createStream false [3000] [⟨1, 1⟩, ⟨2, 1⟩, ⟨3, 1⟩] 172903 0 2, .begin 3601, .end_, .begin 10, .end_, .begin 10, .end_, .begin 86401]

/-- D3 (not repaired): a `day` stream that becomes active at an `hour` boundary is served in its first
    (partial) day only when the `day` pointer has not yet reached the end: with limit 1 it hands out 1500,
    with limit 500 nothing — and in both runs the epoch counts as filled.  So the state-level clause
      ∀ ops mi mi', Admissible ops → (run (init now mi) ops).streams = (run (init now mi') ops).streams
    is false of the code. -/
theorem paging_midepoch_counterexample :
    (run (init 100 1) midEpochHistory).streams.map (fun s => (s.id, s.distributed, s.filled)) = [(1, [1500], 2), (2, [1500], 1)] ∧
    (run (init 100 500) midEpochHistory).streams.map (fun s => (s.id, s.distributed, s.filled)) = [(1, [1500], 2), (2, [], 1)] ∧
    Admissible midEpochHistory := by
  refine ⟨by decide, by decide, ?_⟩
  unfold Admissible; decide

/-- non-vacuity of the state-level theorems: in `overHistory` gauges have been funded and have paid out,
    and a lock owner (account 1) has been paid -/
example : (run (init 100 500) overHistory).gauges.all (fun g => !g.distributed.isZero && Coins.le g.distributed g.coins) = true := by decide
example : (run (init 100 500) overHistory).bank.get 1 = [6000000000000000000] := by decide
example : ∀ op ∈ overHistory, op.wf := by decide

/-- a window state: in the middle of an `hour` epoch of `unsortedHistory` (reference list [3, 2], stream 2 half
    served, the `hour` pointer at stream 3 gauge 1) -/
def windowState : State := run (init 100 1) (unsortedHistory.take 16)

/-- non-vacuity (executed): from that state the schedules [1,1,1], [3], [0,2,500] and [] followed by the end of the
    `hour` epoch all store the same distributed coins -/
example : ([[1, 1, 1], [3], [0, 2, 500], []].map (fun ns =>
      match runBlocks windowState ns with
      | some t => (match streamerAfterEpochEnd t 1 with
          | .ok u => u.streams.map (fun st => (st.id, st.distributed))
          | .error _ => [])
      | none => [])) = List.replicate 4 [(1, []), (2, [1500]), (3, [1500])] := by decide

/-- non-vacuity (executed): after the second `begin` of `overHistory` the pending `end` pays account 1 the whole stream
    through gauges 1..6, and so would an epoch-ending `begin` in its place (the flush) -/
example : (endGauges (run (init 100 500) (overHistory.take 15))).map (·.id) = [1, 2, 3, 4, 5, 6] ∧
    blockDue (run (init 100 500) (overHistory.take 15)) (endGauges (run (init 100 500) (overHistory.take 15))) 1 0 = 6000000000000000000 ∧
    blockDue (run (init 100 500) (overHistory.take 15)) (beginGauges (run (init 100 500) (overHistory.take 15)) 3601) 1 0 = 6000000000000000000 := by decide

end DymVerif.C15
