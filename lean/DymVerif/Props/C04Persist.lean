/-
  Props/C04Persist — C04 "while pending it remains retrievable": **pending_persists**.  For every
  operation, a pending packet is still stored afterwards under the same key, PENDING, unchanged except
  possibly for `target` / `orig` (a fulfilment), unless the operation is its own accepted finalization or
  a hard fork whose range contains it; and the corollary for whole histories.
-/
import DymVerif.Lemmas.PacketsPersist
import DymVerif.Props.C04
namespace DymVerif.C04
open DymVerif DymVerif.Keys DymVerif.Packets

theorem surv_recvAuth {p : Packet} {s0 : St} (c seq ph : Nat) (d : RecvData) (h0 : IdxInv s0)
    (hnp : ¬ pendL s0.packets (true, c, seq)) (hph : ph < 2 ^ 64) (hseq : seq < 2 ^ 64)
    (hp : p ∈ s0.packets) (hs : p.status = .pending) : Surv p (recvAuth s0 c seq ph d).1 := by
  have hfail : Surv p (recvFail s0 c seq).1 := Surv.of_mem hp hs
  unfold recvAuth
  split
  · exact hfail
  · rename_i ra hra
    split
    · exact hfail
    · split
      · exact hfail
      · rename_i tgt htgt
        split
        · unfold recvPass
          split
          · exact hfail
          · rename_i s1 hi
            exact (Surv.of_mem hp hs).of_packets (frame_icsRecv hi).packets
        · rename_i hdel
          unfold recvDelay
          split
          · exact hfail
          · split
            · exact hfail
            · rename_i s2 he
              refine Surv.of_packets (frame_eibcOnRecv he).packets ?_
              obtain ⟨rid, hrid⟩ : ∃ rid, ra = some rid := by
                cases ra with
                | none => simp at hdel
                | some r => exact ⟨r, rfl⟩
              subst hrid
              have hP : PktOk s0 (mkRecvPacket s0 c seq ph ((some rid).getD []) d tgt) := by
                refine ⟨hra, ?_, hph, hseq, by simp [mkRecvPacket]⟩
                simp [mkRecvPacket]
              apply Surv.setOther (s := addByAddr s0 _ _) (Surv.of_mem hp hs)
              intro hk
              obtain ⟨hu, hst⟩ := key_determines_uid h0.cfg hP (h0.pk p hp) hk.symm
              exact hnp ⟨p, hp, hst, hu⟩

theorem surv_recvOpen {p : Packet} {s : St} (c seq ph : Nat) (d : RecvData) (h4 : Inv04 s) (h : IdxInv s)
    (hph : ph < 2 ^ 64) (hseq : seq < 2 ^ 64) (hp : p ∈ s.packets) (hs : p.status = .pending) :
    Surv p (recvOpen s c seq ph d).1 := by
  unfold recvOpen
  split
  · exact Surv.of_mem hp hs
  · rename_i hc
    have hnr : (c, seq) ∉ s.receipts := by simpa using hc
    have hnp : ¬ pendL s.packets (true, c, seq) := fun hq => hnr (InvF.rcv h4 c seq (Or.inr hq))
    have h0 : IdxInv { s with receipts := s.receipts ++ [(c, seq)] } := IdxInv.of_frame (iframe_receipts s (c, seq)) h
    split
    · exact (Surv.of_mem (s := { s with receipts := s.receipts ++ [(c, seq)] }) hp hs).of_packets (recvForward_packets _ _ _ _ _ _)
    · exact surv_recvAuth c seq ph d h0 hnp hph hseq hp hs

theorem surv_ackOpen {p : Packet} {s s' : St} {c seq ph : Nat} {isTimeout isErr : Bool} (h4 : Inv04 s) (h : IdxInv s)
    (hph : ph < 2 ^ 64) (hseq : seq < 2 ^ 64) (hp : p ∈ s.packets) (hs : p.status = .pending)
    (ha : ackOpen s c seq ph isTimeout isErr = .ok (some s')) : Surv p s' := by
  unfold ackOpen at ha
  split at ha
  · cases ha
  · rename_i hc
    have hmem : (c, seq) ∈ s.commits := by simpa using hc
    have hnp : ¬ pendL s.packets (false, c, seq) := fun hq => (InvF.snt h4 c seq (Or.inr hq)).1 hmem
    split at ha
    · cases ha
    · rename_i x hx
      obtain ⟨rfl, rfl⟩ := getSent_some hx
      generalize hs0 : ({ s with commits := s.commits.filter (· != (x.chan, x.seq)) } : St) = s0 at ha
      have f0 : IFrame s s0 := by subst hs0; exact ⟨rfl, rfl, rfl, rfl⟩
      have h0 : IdxInv s0 := IdxInv.of_frame f0 h
      have hp0 : p ∈ s0.packets := by rw [f0.packets]; exact hp
      unfold ackAuth at ha
      split at ha
      · cases ha
      · rename_i ra hra
        split at ha
        · unfold ackPass at ha
          split at ha
          · split at ha
            · cases ha
            · rename_i s1 hi
              cases ha
              exact (Surv.of_mem hp0 hs).of_packets (frame_icsRefund hi).packets
          · cases ha
            exact (Surv.of_mem hp0 hs).of_packets rfl
        · rename_i hdel
          obtain ⟨rid, hrid⟩ : ∃ rid, ra = some rid := by
            cases ra with
            | none => simp at hdel
            | some r => exact ⟨r, rfl⟩
          subst hrid
          have hP : PktOk s0 (mkSentPacket s0 x (sentType isTimeout) ph ((some rid).getD []) (!isTimeout && isErr)) := by
            refine ⟨hra, ?_, hph, hseq, by cases isTimeout <;> simp [mkSentPacket, sentType]⟩
            simp [mkSentPacket, sentType_ne_recv]
          have key : Surv p (setPacket (addByAddr s0 (mkSentPacket s0 x (sentType isTimeout) ph ((some rid).getD []) (!isTimeout && isErr)).target
              (pkey (mkSentPacket s0 x (sentType isTimeout) ph ((some rid).getD []) (!isTimeout && isErr))))
              (mkSentPacket s0 x (sentType isTimeout) ph ((some rid).getD []) (!isTimeout && isErr))) := by
            apply Surv.setOther (s := addByAddr s0 _ _) (Surv.of_mem hp0 hs)
            intro hk
            obtain ⟨hu, hst⟩ := key_determines_uid h0.cfg hP (h0.pk p hp0) hk.symm
            rw [mkSentPacket_uid] at hu
            exact hnp ⟨p, hp, hst, hu⟩
          unfold ackDelay at ha
          split at ha
          · cases ha
          · split at ha
            · split at ha
              · cases ha
              · rename_i s2 he
                cases ha
                exact key.of_packets (frame_eibcOnRefund (eibcRefundHandler_ok he)).packets
            · cases ha
              exact key

/-- the operation is an accepted finalization of the packet stored under key `k` -/
def FinalizesKey (s : St) (op : Op) (k : Bytes) : Prop :=
  (step s op).2 = .ok ∧
  ((∃ a rid ph t src seq, op = .finalize a rid ph t src seq ∧ rollappPacketKey .pending rid ph t src seq = k) ∨
   (∃ a b, op = .finalizeByKey a b ∧ decodePacketKeyExact b = some k))

/-- the operation is a hard fork of rollapp `rid` whose range of pending keys contains `k` -/
def ForksKey (op : Op) (k : Bytes) : Prop := ∃ rid lv, op = .fork rid lv ∧ forkRange rid lv k = true

theorem surv_ofM {p : Packet} {s : St} {m : M St} (h : Surv p s) (hm : ∀ s', m = .ok s' → Surv p s') : Surv p (ofM s m).1 := by
  cases m with
  | ok s' => exact hm s' rfl
  | error e => exact h

/-- **pending_persists** — one operation -/
theorem pending_persists (s : St) (op : Op) (hb : BoundedOp op) (h4 : Inv04 s) (hi : IdxInv s)
    (p : Packet) (hp : p ∈ s.packets) (hs : p.status = .pending) :
    Surv p (step s op).1 ∨ FinalizesKey s op (pkey p) ∨ ForksKey op (pkey p) := by
  have h := Surv.of_mem hp hs
  have hk := InvF.keys h4
  cases op with
  | recv c seq ph d =>
    left
    show Surv p (recvPacket s c seq ph d).1
    rcases recvPacket_cases s c seq ph d with e | e <;> rw [e]
    · exact h
    · exact surv_recvOpen c seq ph d h4 hi hb.1 hb.2 hp hs
  | send a c d amt =>
    left
    exact surv_ofM h (fun s' e0 => h.of_packets (frame_sendOpen (sendTransfer_ok e0)).1)
  | ack c seq ph isErr =>
    left
    simp only [step]
    split
    · exact h
    · rename_i s' e; exact surv_ackOpen h4 hi hb.1 hb.2 hp hs (ackPacket_ok e)
    · exact h
  | timeout c seq ph =>
    left
    simp only [step]
    split
    · exact h
    · rename_i s' e; exact surv_ackOpen h4 hi hb.1 hb.2 hp hs (ackPacket_ok e)
    · exact h
  | finalize a rid ph t src seq =>
    by_cases hkey : rollappPacketKey .pending rid ph t src seq = pkey p
    · cases hm : msgFinalize s a rid ph t src seq with
      | error e => left; simp only [step, hm, ofM]; exact h
      | ok s' => right; left; exact ⟨by simp only [step, hm, ofM], Or.inl ⟨a, rid, ph, t, src, seq, rfl, hkey⟩⟩
    · left
      apply surv_ofM h
      intro s' e
      unfold msgFinalize at e
      split at e
      · cases e
      · exact surv_finalizePacket h hkey e
  | finalizeByKey a b =>
    by_cases hkey : decodePacketKeyExact b = some (pkey p)
    · cases hm : msgFinalizeByKey s a b with
      | error e => left; simp only [step, hm, ofM]; exact h
      | ok s' => right; left; exact ⟨by simp only [step, hm, ofM], Or.inr ⟨a, b, rfl, hkey⟩⟩
    · left
      apply surv_ofM h
      intro s' e
      unfold msgFinalizeByKey at e
      split at e
      · cases e
      · split at e
        · cases e
        · rename_i k hdk
          exact surv_finalizePacket h (fun ek => hkey (by rw [hdk, ek])) e
  | fulfill a oid fee =>
    left
    apply surv_ofM h
    intro s' e
    obtain ⟨o, _, _, hc⟩ := msgFulfill_ok e
    exact surv_fulfillCore hk h hc
  | fulfillAuth g m =>
    left
    apply surv_ofM h
    intro s' e
    obtain ⟨_, hcase⟩ := msgFulfillAuthorized_ok e
    rcases hcase with ⟨_, hc⟩ | ⟨_, gr, r, _, _, hc⟩
    · exact surv_fulfillAuthorizedCore hk h hc
    · cases r with
      | none => exact surv_fulfillAuthorizedCore (s := delGrant s m.lp g) hk h hc
      | some g' => exact surv_fulfillAuthorizedCore (s := setGrant s g') hk h hc
  | onDemand a oid perm =>
    left
    apply surv_ofM h
    intro s' e
    unfold msgOnDemand at e
    split at e
    · cases e
    · exact surv_onDemandLoop _ hk h e
  | updateFee a id fee => exact Or.inl (surv_ofM h (fun _ e => h.of_packets (frame_msgUpdateFee e).packets))
  | createLp l ok => exact Or.inl (surv_ofM h (fun _ e => h.of_packets (frame_msgCreateLp e).packets))
  | deleteLps a ids => exact Or.inl (surv_ofM h (fun _ e => h.of_packets (frame_msgDeleteLps ids e).packets))
  | grant g => exact Or.inl (surv_ofM h (fun _ e => h.of_packets (frame_msgGrant e).packets))
  | addState rid n =>
    left
    apply surv_ofM h
    intro s' e
    unfold addState at e
    split at e
    · cases e
    · split at e
      · cases e
      · cases e; exact h.of_packets rfl
  | finalizeState rid =>
    left
    apply surv_ofM h
    intro s' e
    unfold finalizeState at e
    split at e
    · cases e
    · split at e
      · cases e; exact h.of_packets rfl
      · cases e
  | fork rid lv =>
    by_cases hr : forkRange rid lv (pkey p) = true
    · exact Or.inr (Or.inr ⟨rid, lv, rfl, hr⟩)
    · left
      apply surv_ofM h
      intro s' e
      unfold forkRollapp at e
      split at e
      · cases e
      · split at e
        · cases e
        · split at e
          · cases e
          · split at e
            · cases e
            · cases e
              exact surv_onHardFork (s := setRa s _) rid lv hp hs (by simpa using hr)
  | epoch => exact Or.inl (surv_epochCleanup h)
  | block => exact Or.inl (h.of_packets rfl)
  | chanClose c => exact Or.inl (surv_ofM h (fun _ e => h.of_packets (frame_setChanClosed e).packets))
  | chanOpen c => exact Or.inl (surv_ofM h (fun _ e => h.of_packets (frame_setChanClosed e).packets))
  | timeoutOnClose c seq => exact Or.inl (surv_ofM h (fun _ e => by unfold timeoutOnClose at e; split at e <;> cases e; exact h))
  | sendBlk a c d amt =>
    exact Or.inl (surv_ofM h (fun _ e => by
      obtain ⟨s1, hs, rfl⟩ := sendBlk_ok e
      exact h.of_packets (frame_sendOpen hs).1))

theorem same_trans {p q r : Packet} (h1 : Same p q) (h2 : Same q r) : Same p r := by
  obtain ⟨a1, a2, a3⟩ := h1
  obtain ⟨b1, b2, b3⟩ := h2
  refine ⟨b1.trans a1, b2, ?_⟩
  rw [← a3, ← b3]

/-- **pending_persists (histories)** — through any history that neither finalizes the packet nor forks
    its rollapp below its proof height, a pending packet stays stored and pending (and retrievable by key
    and by its current beneficiary's address: `pending_retrievable_by_key`, `pending_retrievable_by_address`) -/
theorem pending_persists_run : ∀ (ops : List Op) (s : St), (∀ o ∈ ops, BoundedOp o) → Inv04 s → IdxInv s →
    ∀ p ∈ s.packets, p.status = .pending →
    (∀ (pre : List Op) (o : Op) (post : List Op), ops = pre ++ o :: post →
        ¬ FinalizesKey (run s pre) o (pkey p) ∧ ¬ ForksKey o (pkey p)) →
    Surv p (run s ops)
  | [], s, _, _, _, p, hp, hs, _ => Surv.of_mem hp hs
  | o :: rest, s, hb, h4, hi, p, hp, hs, hno => by
    have hbo := hb o (List.mem_cons_self ..)
    obtain ⟨n1, n2⟩ := hno [] o rest rfl
    rcases pending_persists s o hbo h4 hi p hp hs with h | h | h
    · obtain ⟨p', hp', hsm⟩ := h
      have ih := pending_persists_run rest (step s o).1 (fun x hx => hb x (List.mem_cons_of_mem _ hx))
        (inv_step o h4) (idx_step o hbo h4 hi) p' hp' hsm.2.1 (by
          intro pre o' post e
          rw [hsm.1]
          exact hno (o :: pre) o' post (by rw [e]; rfl))
      obtain ⟨p'', hp'', hsm'⟩ := ih
      exact ⟨p'', hp'', same_trans hsm hsm'⟩
    · exact absurd h n1
    · exact absurd h n2

/-- **finalizable_succeeds (histories)** — in every reachable state (well-formed channel table, uint64
    heights and sequences), once a pending packet's proof height is at or below its rollapp's latest
    finalized height, `MsgFinalizePacket` naming it succeeds, whoever sends it: the side conditions of
    `finalizable_succeeds` (unique keys, non-empty rollapp and channel ids) follow from the invariants. -/
theorem finalizable_succeeds_run (s0 : St) (h4 : Inv04 s0) (hi : IdxInv s0) (ops : List Op) (hb : ∀ o ∈ ops, BoundedOp o)
    (p : Packet) (hp : p ∈ (run s0 ops).packets) (hs : p.status = .pending)
    (f : Nat) (hf : finHeight (run s0 ops) p.rollappId = some f) (hph : p.proofHeight ≤ f) (a : Addr) :
    ∃ s', msgFinalize (run s0 ops) a p.rollappId p.proofHeight p.ptype p.srcChan p.seq = .ok s' := by
  have h4' := inv_run ops h4
  have hi' := idx_run ops hb h4 hi
  obtain ⟨hr, hc⟩ := (hi'.pk p hp).nonEmpty hi'.cfg
  exact finalizable_succeeds _ (InvF.keys h4') p hp hs f hf hph hr hc a

-- ------------------------------------------------------------------ non-vacuity

/-- the first packet of `cexOps` (to a1) after the fulfilment by a2: still stored under its key and pending, now
    naming a2 with `orig = a1` — the same packet up to the beneficiary rewrite -/
example : ((run cexInit (cexOps.take 2)).packets.map (fun p => (p.status, p.target, p.orig))) = [(.pending, 1, none), (.pending, 2, none)] ∧
    ((run cexInit (cexOps.take 3)).packets.map (fun p => (p.status, p.target, p.orig))) = [(.pending, 2, some 1), (.pending, 2, none)] := by decide
example : ∀ p ∈ (run cexInit (cexOps.take 2)).packets, ∃ p' ∈ (run cexInit (cexOps.take 3)).packets,
    pkey p' = pkey p ∧ p'.status = .pending ∧ { p' with target := p.target, orig := p.orig } = p := by decide
/-- the two exceptions occur: the last op of `cexOps` is the accepted finalization of the first packet's key … -/
example : (step (run cexInit (cexOps.take 5)) (.finalize 0 [114] 5 .onRecv [99, 55] 1)).2 = .ok ∧
    ((run cexInit cexOps).packets.map (fun p => p.status)) = [.pending, .finalized] := by decide
/-- … and a fork of the rollapp below the proof heights removes both pending packets -/
example : forkRange [114] 4 (rollappPacketKey .pending [114] 5 .onRecv [99, 55] 1) = true ∧
    (run cexInit (cexOps.take 3 ++ [.addState [114] 10, .fork [114] 4])).packets = [] := by decide

end DymVerif.C04
