/-
  Props/C08X — additions to C08 (an idle rollapp's proposer is slashed on schedule; an active one never).

  Part A: **a real proposer always has a liveness event** — in every reachable state a rollapp whose
          proposer is not the sentinel carries a non-zero event height and exactly that event is queued.
          (Every `setProposer (some _)` of the Go code goes through the rollapp hook
          `AfterSetRealProposer` → `IndicateLiveness`; a hard fork, which clears the event, also removes
          the proposer.)  A change that sets a proposer without `IndicateLiveness`, or forks without
          removing the proposer, breaks `real_proposer_has_event`.
  Part B: `C08.idle_slashed_on_schedule` restated WITHOUT its hypothesis `r.evH ≠ 0` (never
          discharged before): it follows from Part A.

  Part C: arbitrary interleavings of messages and blocks (messages inside blocks, bond increases,
          updates / forks of other rollapps, …): every scheduled event lies on the slash grid of the
          rollapp's THEN-CURRENT countdown start, a block end slashes the proposer exactly once iff the
          event is due, and never at a height off that grid.

  Proof route: the per-record invariant `PE` is closed under the ways M-Core rewrites a rollapp record
  (`QClosed`, Lemmas/CoreXWalk*.lean), for all parameters and all op sequences.
-/
import DymVerif.Props.C08
import DymVerif.Lemmas.CoreXProp
import DymVerif.Lemmas.CoreXGrid
namespace DymVerif.C08X
open DymVerif DymVerif.Core DymVerif.Core.LevNs

-- ================================================================ Part A

/-- **a real proposer has an event**: in every reachable state, a rollapp with a real (non-sentinel)
    proposer has a non-zero `LivenessEventHeight`, and exactly that event is in the liveness-event
    queue — so the schedule theorems of C08 apply to every rollapp that has a proposer to slash. -/
theorem real_proposer_has_event (p : Params) (ops : List Op) (r : Rollapp) (hr : r ∈ (run p ops).ras)
    (hp : r.proposer.isSome = true) : r.evH ≠ 0 ∧ (r.evH, r.id) ∈ (run p ops).lev := by
  have hpe := XW.run_pe p ops r hr
  have hne : r.evH ≠ 0 := by
    intro h0
    rw [hpe.2 h0] at hp
    cases hp
  rcases (run_lev p ops).ra_ev r hr with h | h
  · exact absurd h hne
  · exact ⟨hne, h⟩

/-- the same through `getRa` -/
theorem real_proposer_has_event_at (p : Params) (ops : List Op) (ra : Nat) (r : Rollapp) (a : Addr)
    (hg : getRa (run p ops) ra = some r) (hp : r.proposer = some a) :
    r.evH ≠ 0 ∧ (r.evH, ra) ∈ (run p ops).lev := by
  have := real_proposer_has_event p ops r (getRa_mem hg) (by rw [hp]; rfl)
  rw [getRa_id hg] at this
  exact this

/-- its countdown has been started at a real hub height (`LivenessCountdownStartHeight ≥ 1`), and the
    event lies at least `LivenessSlashBlocks` after it -/
theorem real_proposer_clock_started (p : Params) (ops : List Op) (r : Rollapp) (hr : r ∈ (run p ops).ras)
    (hp : r.proposer.isSome = true) : 1 ≤ r.cdStart ∧ r.cdStart + p.lsBlocks ≤ r.evH := by
  have hpe := XW.run_pe p ops r hr
  have h1 : 1 ≤ r.cdStart := by
    rcases Nat.eq_zero_or_pos r.cdStart with h0 | h0
    · rw [hpe.1 h0] at hp; cases hp
    · exact h0
  refine ⟨h1, ?_⟩
  rcases (C08.event_not_before_window p ops).2 r hr with h | h
  · exact absurd h (real_proposer_has_event p ops r hr hp).1
  · exact h

/-- contrapositive, the form a regression test reads: a rollapp without event height (fresh, or
    forked and not yet recovered) has the sentinel proposer -/
theorem no_event_no_proposer (p : Params) (ops : List Op) (r : Rollapp) (hr : r ∈ (run p ops).ras)
    (h0 : r.evH = 0) : r.proposer = none := (XW.run_pe p ops r hr).2 h0

/-- step form: whatever accepted op gives rollapp `ra` a real proposer (first sequencer, opt-in,
    hand-over by the last block of a rotation, kick) leaves it with its event scheduled -/
theorem proposer_set_schedules_event (p : Params) (ops : List Op) (o : Op) (s' : St) (ra : Nat) (r' : Rollapp) (a : Addr)
    (h : apply (run p ops) o = .ok s') (hg' : getRa s' ra = some r') (hp' : r'.proposer = some a) :
    r'.evH ≠ 0 ∧ (r'.evH, ra) ∈ s'.lev := by
  have hs : s' = run p (ops ++ [o]) := by
    rw [DymVerif.Core.LevNs.run_append]
    simp only [List.foldl_cons, List.foldl_nil]
    unfold step; rw [h]
  subst hs
  exact real_proposer_has_event_at p (ops ++ [o]) ra r' a hg' hp'

-- ================================================================ Part B

/-- **an idle rollapp's proposer is slashed on schedule** (`C08.idle_slashed_on_schedule` without the
    hypothesis that an event is scheduled): take any reachable state between blocks in which rollapp
    `ra` has a real proposer `a` (record `q`); let any number of blocks pass without a message.  Then
    the hub height advanced by that many blocks, the countdown start and the proposer are unchanged,
    the event is again at the next slash height, and the proposer's record is `idleSeq` under the
    x/sequencer parameters in force when the idle stretch begins (`(run p ops).sqp`: the history `ops`
    may contain any number of `MsgUpdateParams`; the stretch itself contains no message): slashed at the
    end of exactly the blocks whose height is a grid point `cdStart + N + j·I`. -/
theorem idle_slashed_on_schedule (p : Params) (hI : 1 ≤ p.lsInterval) (ops : List Op)
    (hph : ops.foldl phaseStep (some false) = some false)
    (ra : Nat) (r : Rollapp) (a : Addr) (q : Seq)
    (hg : getRa (run p ops) ra = some r) (hp : r.proposer = some a) (hq : getSeq (run p ops) a = some q)
    (bs : List (Nat × List (Nat × Nat))) :
    (run p (ops ++ blockOps bs)).h = (run p ops).h + bs.length ∧
    (∃ r', getRa (run p (ops ++ blockOps bs)) ra = some r' ∧ r'.cdStart = r.cdStart ∧ r'.proposer = some a ∧
      r'.evH = nextSlashHeight p.lsBlocks p.lsInterval ((run p ops).h + bs.length) r.cdStart) ∧
    getSeq (run p (ops ++ blockOps bs)) a = some (idleSeq p (run p ops).sqp r.cdStart (run p ops).h bs.length q) :=
  C08.idle_slashed_on_schedule p hI ops hph ra r a q hg hp hq (real_proposer_has_event_at p ops ra r a hg hp).1 bs


-- ================================================================ Part C: arbitrary interleavings

/-- **every scheduled event lies on the slash grid of the rollapp's current countdown start**, in
    every reachable state, whatever messages and blocks were interleaved -/
theorem event_on_grid (p : Params) (ops : List Op) (r : Rollapp) (hr : r ∈ (run p ops).ras) :
    r.evH = 0 ∨ ∃ j, r.evH = r.cdStart + p.lsBlocks + j * p.lsInterval := by
  have := (run_onGrid p ops).ev r hr
  rw [run_p] at this
  exact this

/-- between blocks the event of a rollapp with a real proposer is EXACTLY the next slash height of
    its countdown start (the `evH = 0` alternative of `C08.event_exactly_at_next_slash_height` is gone) -/
theorem real_proposer_event_exact (p : Params) (hI : 1 ≤ p.lsInterval) (ops : List Op)
    (hph : ops.foldl phaseStep (some false) = some false) (r : Rollapp) (hr : r ∈ (run p ops).ras)
    (hp : r.proposer.isSome = true) :
    r.evH = nextSlashHeight p.lsBlocks p.lsInterval (run p ops).h r.cdStart := by
  rcases C08.event_exactly_at_next_slash_height p hI ops hph r hr with h | h
  · exact absurd h (real_proposer_has_event p ops r hr hp).1
  · exact h

/-- **an idle rollapp's proposer is slashed on schedule, any interleaving**: take ANY reachable state
    (messages may have been interleaved anywhere, also inside the current block: bond increases of the
    proposer, updates and forks of other rollapps, …) in which rollapp `ra` has the real proposer `a`
    with record `q`, and end the block.  Then
    * if the rollapp's event is due (`evH` = the hub height) the proposer's record becomes exactly
      `slashOnce (run p ops).sqp q` — slashed once, on whatever its bond then is, with the x/sequencer
      parameters IN FORCE at that block end (`MsgUpdateParams` may occur anywhere in `ops`, also inside the
      current block) — and the hub height is a grid point
      `cdStart + N + j·I` of the record's then-current countdown start;
    * otherwise the record is untouched;
    * in particular at a height off that grid the proposer is never slashed. -/
theorem idle_slashed_on_schedule_interleaved (p : Params) (ops : List Op) (f : List (Nat × Nat))
    (ra : Nat) (r : Rollapp) (a : Addr) (q : Seq)
    (hg : getRa (run p ops) ra = some r) (hp : r.proposer = some a) (hq : getSeq (run p ops) a = some q) :
    (r.evH = (run p ops).h →
      getSeq (step (run p ops) (.end_ f)).1 a = some (slashOnce (run p ops).sqp q) ∧
      ∃ j, (run p ops).h = r.cdStart + p.lsBlocks + j * p.lsInterval) ∧
    (r.evH ≠ (run p ops).h → getSeq (step (run p ops) (.end_ f)).1 a = some q) ∧
    ((¬ ∃ j, (run p ops).h = r.cdStart + p.lsBlocks + j * p.lsInterval) →
      getSeq (step (run p ops) (.end_ f)).1 a = some q) := by
  have hne := (real_proposer_has_event_at p ops ra r a hg hp).1
  have hgrid : ∃ j, r.evH = r.cdStart + p.lsBlocks + j * p.lsInterval := by
    rcases event_on_grid p ops r (getRa_mem hg) with h | h
    · exact absurd h hne
    · exact h
  have hnot : r.evH ≠ (run p ops).h → getSeq (step (run p ops) (.end_ f)).1 a = some q := by
    intro h
    rw [(C08.end_before_event_height_does_not p ops f ra r hg h).2 a hp]
    exact hq
  refine ⟨?_, hnot, ?_⟩
  · intro hev
    refine ⟨C08.end_at_event_height_slashes p ops f ra r a q hg hev hp hq, ?_⟩
    obtain ⟨j, hj⟩ := hgrid
    exact ⟨j, by rw [← hev]; exact hj⟩
  · intro hoff
    apply hnot
    intro hev
    obtain ⟨j, hj⟩ := hgrid
    exact hoff ⟨j, by rw [← hev]; exact hj⟩

-- ================================================================ non-vacuity

-- after the first sequencer is created the rollapp has a proposer and its event (height 1 + N = 3)
example : let s := run C08.exParams [.createRollapp 0 9 10, .fund 1 100, .createSeq 1 0 40 true]
    s.ras.map (fun r => (r.proposer, r.evH, r.cdStart)) = [(some 1, 3, 1)] ∧ s.lev = [(3, 0)] := by decide

-- a fraud fork removes both the proposer and the event; the opt-in of a remaining sequencer restores both
example : let pre : List Op := [.createRollapp 0 9 10, .fund 1 100, .fund 2 100, .createSeq 1 0 40 true, .createSeq 2 0 20 true,
      C08.exUpd 1 3 false, .bridge 0 1]
    (run C08.exParams (pre ++ [.fraud true 0 2 0 none none])).ras.map (fun r => (r.proposer, r.evH)) = [(none, 0)] ∧
    (run C08.exParams (pre ++ [.fraud true 0 2 0 none none, .optIn 2 true])).ras.map (fun r => (r.proposer, r.evH)) = [(some 2, 3)] := by
  decide

-- an interleaved history: the proposer's bond is increased inside the block whose end slashes it
-- (event due at height 3): the slash is computed on the increased bond (40 + 20 → 30), dishonor + 2
example : let s := run C08.exParams [.createRollapp 0 9 10, .fund 1 100, .createSeq 1 0 40 true, .end_ [], .begin_ 5, .end_ [],
      .begin_ 5, .bondInc 1 20 true, .end_ []]
    s.h = 3 ∧ s.seqs.map (fun q => (q.tokens, q.dishonor)) = [(30, 2)] ∧ s.lev = [(4, 0)] := by decide

-- a `MsgUpdateParams` inside the very block whose end slashes the proposer: the slash uses the NEW values
-- (slash max(25, 40·0.5) = 25 instead of max(3, 40·0.5) = 20; liveness dishonor 7 instead of 2)
example : let sp : SeqParams := { C08.exParams.seq with lsAbs := 25, dishonorL := 7 }
    let s := run C08.exParams [.createRollapp 0 9 10, .fund 1 100, .createSeq 1 0 40 true, .end_ [], .begin_ 5, .end_ [],
      .begin_ 5, .setSeqParams true sp, .end_ []]
    s.h = 3 ∧ s.seqs.map (fun q => (q.tokens, q.dishonor)) = [(15, 7)] ∧ s.lev = [(4, 0)] := by decide

end DymVerif.C08X
