/-
  Props/C01XRev — the revision invariant of every reachable state (C01: "each update carries the
  current revision"): revision numbers are 0..k by position, the latest revision starts at most one
  block above the latest recorded height, and every STORED state was accepted under the revision its
  start height belongs to (`accRev = revForHeight r st.start` — the ghost field `SInfo.accRev` is now
  tied to an invariant: a stale- or future-revision update that slipped through, or a fork that left a
  state of the old revision above the new revision's start, breaks `stored_state_revision`).

  What does NOT hold (Appendix A7 of DESIGN.md claimed it): revision start heights are not monotone —
  a later fork may go below the start of an earlier revision while those heights are unfinalized
  (`rev_starts_not_monotone`; the Go code has no such guard either: `HardFork` → `BumpRevision`).

  Proof route: `RevQ` is `QClosed` (Lemmas/CoreXRev.lean), for all parameters and op sequences.
-/
import DymVerif.Lemmas.CoreXRev
import DymVerif.Lemmas.CoreForkSpec
namespace DymVerif.C01XRev
open DymVerif DymVerif.Core

/-- **revision numbers are 0, 1, …, k** (by position; at least revision 0 exists), so the latest
    revision number is the number of forks the rollapp went through -/
theorem revision_numbers_consecutive (p : Params) (ops : List Op) (r : Rollapp) (hr : r ∈ (run p ops).ras) :
    r.revs.map (·.1) = List.range r.revs.length ∧ latestRev r + 1 = r.revs.length := by
  have h := XW.run_rev p ops r hr
  refine ⟨?_, XW.latestRev_eq h⟩
  apply List.ext_getElem?
  intro i
  rw [List.getElem?_map]
  rcases Nat.lt_or_ge i r.revs.length with hlt | hge
  · have hx : r.revs[i]? = some r.revs[i] := List.getElem?_eq_getElem hlt
    rw [List.getElem?_range hlt, hx]
    simp only [Option.map_some]
    rw [h.num i _ hx]
  · rw [List.getElem?_eq_none hge, List.getElem?_eq_none (by rw [List.length_range]; exact hge)]
    rfl

/-- **the latest revision starts at most one block above the latest height**: `latest start ≤ latest
    height + 1` whenever a state exists (equality right after a fork), and before the first update the
    only revision is `(0, 0)` -/
theorem latest_revision_start_bound (p : Params) (ops : List Op) (r : Rollapp) (hr : r ∈ (run p ops).ras) :
    (∀ l, r.states.getLast? = some l → XW.lastRevStart r ≤ l.start + l.num) ∧ (r.states = [] → r.revs = [(0, 0)]) :=
  ⟨(XW.run_rev p ops r hr).top, (XW.run_rev p ops r hr).init⟩

/-- **every stored state carries the revision of its start height**: `accRev` (the revision the
    update was accepted under) equals `GetRevisionForHeight(start)` of the rollapp as it is NOW — after
    any number of later updates and forks -/
theorem stored_state_revision (p : Params) (ops : List Op) (r : Rollapp) (hr : r ∈ (run p ops).ras)
    (st : SInfo) (hs : st ∈ r.states) : st.accRev = revForHeight r st.start :=
  (XW.run_rev p ops r hr).acc st hs

/-- an accepted update in a reachable state carries the revision of its own start height (so a proposer
    cannot post blocks of an old revision above a fork point) -/
theorem accepted_update_revision_of_start (p : Params) (ops : List Op) (m : UpdMsg) (s' : St)
    (h : apply (run p ops) (.update m) = .ok s') :
    ∃ r, getRa (run p ops) m.ra = some r ∧ m.rev = latestRev r ∧ m.rev = revForHeight r m.start := by
  obtain ⟨r, hg, _, hrev, hstart⟩ := Fork.updateState_ok_elim (show updateState (run p ops) m = .ok s' from h)
  have hq := XW.run_rev p ops r (getRa_mem hg)
  refine ⟨r, hg, hrev.symm, ?_⟩
  rw [← hrev]
  symm
  apply XW.revForHeight_latest
  cases hl : r.states.getLast? with
  | none =>
    have : r.states = [] := List.getLast?_eq_none_iff.1 hl
    unfold XW.lastRevStart; rw [hq.init this]; exact Nat.zero_le _
  | some l => rw [hstart l hl]; exact hq.top l hl

-- ================================================================ witnesses

def exParams : Params where
  dispute := 2
  lsBlocks := 2
  lsInterval := 1
  lsMul := ⟨0⟩
  lsAbs := 0
  dishonorSU := 1
  dishonorL := 2
  kickThr := 100
  noticePeriod := 10
def exBds (start n : Nat) : List BD := (List.range n).map fun i => { height := start + i, hasTs := true, drs := 1, rootOk := true }
def exUpd (sender start n rev : Nat) : Op :=
  .update { ra := 0, sender := sender, start := start, num := n, rev := rev, last := false, bds := exBds start n }
/-- two sequencers; heights 1..6 posted under revision 0; fork at height 5 (revision 1 starts at 5);
    the second sequencer takes over and posts 5..6 under revision 1; then a fork at height 3 -/
def exOps : List Op := [.createRollapp 0 9 10, .fund 1 100, .fund 2 100, .createSeq 1 0 40 true, .createSeq 2 0 20 true,
  exUpd 1 1 3 0, exUpd 1 4 3 0, .bridge 0 1, .fraud true 0 5 0 none none, .optIn 2 true, exUpd 2 5 2 1]

-- non-vacuity: after the first fork and the take-over, states (1..3, rev 0), (4..4, rev 0), (5..6, rev 1)
example : (run exParams exOps).ras.map (fun r => (r.revs, r.states.map fun s => (s.start, s.num, s.accRev))) =
    [([(0, 0), (1, 5)], [(1, 3, 0), (4, 1, 0), (5, 2, 1)])] := by decide

/-- **revision start heights are NOT monotone**: a second fork at height 3 (still unfinalized) after
    revision 1 started at height 5 yields revisions `(0,0), (1,5), (2,3)` — accepted by the model and,
    with no guard in `HardFork` / `BumpRevision`, by the Go code.  `revForHeight` scans from the latest
    revision, so every height ≥ 3 now belongs to revision 2. -/
theorem rev_starts_not_monotone :
    (run exParams (exOps ++ [.fraud true 0 3 0 none none])).ras.map (fun r => (r.revs, r.states.map fun s => (s.start, s.num, s.accRev))) =
      [([(0, 0), (1, 5), (2, 3)], [(1, 2, 0)])] := by decide

-- a stale-revision update after the fork is refused
example : (step (run exParams exOps) (exUpd 2 7 1 0)).2 = some Err.wrongRevision := by decide

end DymVerif.C01XRev
