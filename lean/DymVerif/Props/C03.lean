/-
  Props/C03 — a fork removes everything above the fork height and nothing at or below it
  (rollapp + sequencer part, over M-Core; the packet / demand-order / light-client part lives in
  other models).

  Notation used in the statements.  `hardFork s ra lv` is `HardFork(rollapp, lastValidHeight)`;
  its first removed height is `(lv + 1) % 2 ^ 64` (the Go code computes `lastValid + 1` in uint64 and
  refuses 0).  `revertPlan r n = .ok (keep, kst)` is the decision of `RevertPendingStates` +
  `UpdateLastStateInfo`: `keep` is the (1-based) index of the state that stays the latest one and
  `kst` its new contents; the new latest height is `h' := kst.last`.
-/
import DymVerif.Lemmas.CoreForkQuiet
import DymVerif.Lemmas.CoreForkFin
namespace DymVerif.C03
open DymVerif DymVerif.Core DymVerif.Core.Fork

/-- a rejected message leaves every component of the state untouched (the model returns its input
    state on error, mirroring baseapp's per-message cache context; that the real code does so is
    checked by the harness: full observation equality after every rejected op) -/
theorem reject_unchanged (s : St) (o : Op) (e : Err) (h : (step s o).2 = some e) : (step s o).1 = s := by
  unfold step at *
  cases h' : apply s o with
  | ok s' => simp [h'] at h
  | error e' => simp [h']

-- ================================================================ refusals

/-- **A refused fork changes nothing**: whenever a fraud proposal (the message that forks at an
    arbitrary height) is refused — for whatever reason, see `fork_refusal_reasons` — the state after
    the step is the state before it, and the error is reported.  The same holds for every other op
    (`reject_unchanged`), in particular for a refused kick and a refused obsolete marking. -/
theorem fork_refused_unchanged (s : St) (au : Bool) (ra h rev : Nat) (pun rw : Option Addr) (e : Err)
    (hr : fraud s au ra h rev pun rw = .error e) :
    (step s (.fraud au ra h rev pun rw)).1 = s ∧ (step s (.fraud au ra h rev pun rw)).2 = some e := by
  simp [step, apply, hr]

/-- **Why a fork is refused** (complete list, `n := (lv + 1) % 2 ^ 64` the first height to remove):
    unknown rollapp; genesis bridge not completed or fork below the genesis-bridge height
    (`tph = 0 ∨ lv < tph`); `n = 0` (uint64 overflow); no state recorded; `n` inside a finalized
    state; `n` the first height of the first recorded state (no previous state to keep); `n` below
    the first recorded height. -/
theorem fork_refusal_reasons (s : St) (ra lv : Nat) (e : Err)
    (hc : ∀ r, getRa s ra = some r → Chain r.states) (h : hardFork s ra lv = .error e) :
    (e = .unknownRollapp ∧ getRa s ra = none) ∨ ∃ r, getRa s ra = some r ∧
      ((e = .forkNotAllowed ∧ (r.tph = 0 ∨ lv < r.tph)) ∨
       (e = .invalid ∧ (lv + 1) % 2 ^ 64 = 0) ∨
       (e = .noState ∧ r.states = []) ∨
       (e = .finalizedHeight ∧ ∃ (i : Nat) (st : SInfo), r.states[i]? = some st ∧
           st.start ≤ (lv + 1) % 2 ^ 64 ∧ (lv + 1) % 2 ^ 64 ≤ st.last ∧ st.finalized = true) ∨
       (e = .noState ∧ ∃ f, r.states[0]? = some f ∧ f.start = (lv + 1) % 2 ^ 64 ∧ f.finalized = false) ∨
       (e = .internal ∧ ∃ f, r.states[0]? = some f ∧ (lv + 1) % 2 ^ 64 < f.start)) := by
  unfold hardFork at h
  split at h
  · rename_i hg
    injection h with h; subst h
    exact Or.inl ⟨rfl, hg⟩
  · rename_i r hg
    refine Or.inr ⟨r, hg, ?_⟩
    split at h
    · rename_i ht
      injection h with h; subst h
      refine Or.inl ⟨rfl, ?_⟩
      simpa using ht
    · split at h
      · rename_i hn
        injection h with h; subst h
        exact Or.inr (Or.inl ⟨rfl, hn⟩)
      · split at h
        · rename_i e' hplan
          injection h with h; subst h
          rcases revertPlan_refusals (hc r hg) hplan with h1 | h1 | h1 | h1
          · exact Or.inr (Or.inr (Or.inl h1))
          · exact Or.inr (Or.inr (Or.inr (Or.inl h1)))
          · exact Or.inr (Or.inr (Or.inr (Or.inr (Or.inl h1))))
          · exact Or.inr (Or.inr (Or.inr (Or.inr (Or.inr h1))))
        · cases h

/-- unknown rollapp ⇒ refused -/
theorem fork_refused_unknown_rollapp (s : St) (ra lv : Nat) (hg : getRa s ra = none) :
    hardFork s ra lv = .error .unknownRollapp := by
  unfold hardFork; rw [hg]

/-- genesis bridge not completed (`tph = 0`) or fork height before the genesis-bridge height ⇒ refused -/
theorem fork_refused_before_genesis_bridge (s : St) (ra lv : Nat) (r : Rollapp) (hg : getRa s ra = some r)
    (ht : r.tph = 0 ∨ lv < r.tph) : hardFork s ra lv = .error .forkNotAllowed := by
  unfold hardFork; rw [hg]
  dsimp only
  rw [if_pos]
  simpa using ht

/-- no state recorded yet ⇒ refused (whatever the other checks say) -/
theorem fork_refused_no_state (s : St) (ra lv : Nat) (r : Rollapp) (hg : getRa s ra = some r)
    (hs : r.states = []) : ∃ e, hardFork s ra lv = .error e := by
  unfold hardFork; rw [hg]
  dsimp only
  split
  · exact ⟨_, rfl⟩
  · split
    · exact ⟨_, rfl⟩
    · rw [revertPlan_noState hs]; exact ⟨_, rfl⟩

/-- **A fork that would touch a finalized height is refused**: if the first height to remove lies
    inside a finalized state the fork is never accepted, and when the genesis-bridge check passes the
    reported reason is `finalizedHeight`. -/
theorem fork_refused_finalized (s : St) (ra lv i : Nat) (r : Rollapp) (st : SInfo) (hc : Chain r.states)
    (hg : getRa s ra = some r) (hst : r.states[i]? = some st) (h1 : st.start ≤ (lv + 1) % 2 ^ 64)
    (h2 : (lv + 1) % 2 ^ 64 ≤ st.last) (hfin : st.finalized = true) :
    (∃ e, hardFork s ra lv = .error e) ∧
    (0 < r.tph → r.tph ≤ lv → hardFork s ra lv = .error .finalizedHeight) := by
  have hplan := revertPlan_finalized hc hst h1 h2 hfin
  have hn : (lv + 1) % 2 ^ 64 ≠ 0 := by
    have := (hc.wf st (List.mem_of_getElem? hst)).start_pos
    omega
  constructor
  · unfold hardFork; rw [hg]
    dsimp only
    split
    · exact ⟨_, rfl⟩
    · first | rw [if_neg hn, hplan] | rw [hplan]
      exact ⟨_, rfl⟩
  · intro ht1 ht2
    unfold hardFork; rw [hg]
    dsimp only
    rw [if_neg (by simp; omega), if_neg hn, hplan]

/-- **A fork below any finalized height is refused** — full form, given that finalized states form
    a prefix of the recorded states (`FinPrefix`; an invariant of every reachable state, it is C02's
    "finalization proceeds in index order").  If some finalized state has a height above the last
    valid height, the fork is refused, wherever the fork height itself falls. -/
theorem fork_refused_if_finalized_above (s : St) (ra lv j : Nat) (r : Rollapp) (x : SInfo) (hc : Chain r.states)
    (hfp : FinPrefix r.states) (hg : getRa s ra = some r) (hx : r.states[j]? = some x)
    (hxf : x.finalized = true) (hlv : lv < x.last) : ∃ e, hardFork s ra lv = .error e := by
  cases h : hardFork s ra lv with
  | error e => exact ⟨e, rfl⟩
  | ok s' =>
    exfalso
    obtain ⟨r1, keep, kst, hg1, _, _, _, hplan, _⟩ := hardFork_ok_elim h
    rw [hg] at hg1; injection hg1 with hg1; subst hg1
    obtain ⟨st, l, ps⟩ := revertPlan_spec hc hplan
    have h1 := ps.no_finalized_above hc hfp j x hx hxf
    have h2 := ps.h_min
    have h3 := Nat.mod_le (lv + 1) (2 ^ 64)
    generalize (lv + 1) % 2 ^ 64 = n at *
    omega

/-- … and, the other way round, an accepted fork removes and truncates unfinalized states only: every
    removed state was unfinalized and every finalized state lies entirely at or below h'. -/
theorem fork_touches_no_finalized_state (s s' : St) (ra lv keep : Nat) (r : Rollapp) (kst : SInfo)
    (hc : Chain r.states) (hfp : FinPrefix r.states) (_hg : getRa s ra = some r)
    (hplan : revertPlan r ((lv + 1) % 2 ^ 64) = .ok (keep, kst)) (_e : hardFork s ra lv = .ok s') :
    (∀ (j : Nat) (x : SInfo), keep ≤ j → r.states[j]? = some x → x.finalized = false) ∧
    (∀ (j : Nat) (x : SInfo), r.states[j]? = some x → x.finalized = true → x.last ≤ kst.last) := by
  obtain ⟨st, l, ps⟩ := revertPlan_spec hc hplan
  exact ⟨ps.removed_unfin hc hfp, ps.no_finalized_above hc hfp⟩

/-- a fraud proposal naming a wrong revision for the fraud height is refused -/
theorem fraud_refused_wrong_revision (s : St) (ra h rev : Nat) (pun rw : Option Addr) (r : Rollapp)
    (hg : getRa s ra = some r) (hh : h ≠ 0) (hrev : revForHeight r h ≠ rev) :
    fraud s true ra h rev pun rw = .error .wrongRevision := by
  unfold fraud
  simp only [Bool.not_true, Bool.false_eq_true, if_false, hh, hg]
  rw [if_pos hrev]

-- ================================================================ accepted forks

/-- an accepted fork passed every gate: the rollapp exists, its genesis-bridge height is set and
    not above the last valid height, and the plan was accepted -/
theorem fork_accepted (s s' : St) (ra lv : Nat) (e : hardFork s ra lv = .ok s') :
    ∃ r keep kst, getRa s ra = some r ∧ 0 < r.tph ∧ r.tph ≤ lv ∧ (lv + 1) % 2 ^ 64 ≠ 0 ∧
      revertPlan r ((lv + 1) % 2 ^ 64) = .ok (keep, kst) := by
  obtain ⟨r, keep, kst, h1, h2, h3, h4, h5, _⟩ := hardFork_ok_elim e
  exact ⟨r, keep, kst, h1, h2, h3, h4, h5⟩

/-- **No recorded state refers to a height above h'; h' = min(lv, previous latest height).**
    With `r'` the forked rollapp's record after the fork and `h' := kst.last`:
    the states are the first `keep - 1` old states followed by the kept state; the latest height is
    `h'`; `h' ≤ lv` and `h'` is exactly the minimum of the requested last valid height and the
    previous latest height; no state and no block descriptor of `r'` lies above `h'`; the chain is
    still gap-free; the kept state is the old state at that index cut down to its heights ≤ h' with
    `NextProposer` cleared; every removed state lay entirely above `h'`; the state that contained
    the first removed height was not finalized. -/
theorem fork_states_above_removed (s s' : St) (ra lv keep : Nat) (r r' : Rollapp) (kst : SInfo)
    (hc : Chain r.states) (hg : getRa s ra = some r)
    (hplan : revertPlan r ((lv + 1) % 2 ^ 64) = .ok (keep, kst))
    (e : hardFork s ra lv = .ok s') (hr' : getRa s' ra = some r') :
    r'.states = r.states.take (keep - 1) ++ [kst] ∧
    latestHeight r' = some kst.last ∧
    kst.last ≤ lv ∧
    (∀ lh, latestHeight r = some lh → kst.last = min ((lv + 1) % 2 ^ 64 - 1) lh) ∧
    (lv + 1 < 2 ^ 64 → ∀ lh, latestHeight r = some lh → kst.last = min lv lh) ∧
    (∀ st ∈ r'.states, st.last ≤ kst.last ∧ ∀ b ∈ st.bds, b.height ≤ kst.last) ∧
    Chain r'.states ∧
    (∃ st, 1 ≤ keep ∧ r.states[keep - 1]? = some st ∧ st.start ≤ kst.last ∧ kst.last ≤ st.last ∧
       kst = { st with num := kst.last + 1 - st.start, bds := st.bds.take (kst.last + 1 - st.start),
                       next := NextP.empty } ∧
       (kst.last < st.last → st.finalized = false)) ∧
    (∀ (j : Nat) (x : SInfo), keep ≤ j → r.states[j]? = some x → kst.last < x.start) ∧
    (∀ (j : Nat) (x : SInfo), r.states[j]? = some x → x.start ≤ (lv + 1) % 2 ^ 64 → (lv + 1) % 2 ^ 64 ≤ x.last →
       x.finalized = false) := by
  obtain ⟨p', hr1, _⟩ := hardFork_getRa_same hg hplan e
  rw [hr'] at hr1; injection hr1 with hr1; subst hr1
  obtain ⟨st, l, ps⟩ := revertPlan_spec hc hplan
  have hchain : Chain (r.states.take (keep - 1) ++ [kst]) := forkedRollapp_chain hc hplan
  have hlast : (r.states.take (keep - 1) ++ [kst]).getLast? = some kst := by simp
  have hlat : ∀ lh, latestHeight r = some lh → lh = l.last := by
    intro lh hlh
    unfold latestHeight at hlh
    rw [ps.hl] at hlh
    injection hlh with hlh; exact hlh.symm
  have hmin := ps.h_min
  have hmod := Nat.mod_le (lv + 1) (2 ^ 64)
  refine ⟨rfl, ?_, ?_, ?_, ?_, ?_, hchain, ?_, ps.above hc, ps.hit_unfin⟩
  · show latestHeight { r with states := r.states.take (keep - 1) ++ [kst] } = some kst.last
    unfold latestHeight; dsimp only; rw [hlast]; rfl
  · generalize (lv + 1) % 2 ^ 64 = n at *
    omega
  · intro lh hlh; rw [hlat lh hlh]; exact hmin
  · intro hlt lh hlh
    rw [hlat lh hlh, hmin, Nat.mod_eq_of_lt hlt]; simp
  · intro x hx
    have hx : x ∈ r.states.take (keep - 1) ++ [kst] := hx
    obtain ⟨i, hi, rfl⟩ := List.mem_iff_getElem.1 hx
    have hxi : (r.states.take (keep - 1) ++ [kst])[i]? = some (r.states.take (keep - 1) ++ [kst])[i] := by simp
    have hwx := hchain.wf _ hx
    have hwk := hchain.wf kst (List.mem_of_getLast? hlast)
    have hle := hchain.le_last hlast i _ hxi
    have h1 : (r.states.take (keep - 1) ++ [kst])[i].last ≤ kst.last := by
      rw [hwx.last_eq, hwk.last_eq]; omega
    exact ⟨h1, fun b hb => Nat.le_trans (hwx.bd_range hb).2 h1⟩
  · exact ⟨st, ps.keep_pos, ps.hst, ps.h_lo, ps.h_hi, ps.kst_eq, ps.trunc_unfin⟩

/-- **Nothing at or below h' is removed or changed**: the states before the kept one are
    untouched, and every block descriptor at a height ≤ h' is still recorded, in the state with the
    same index, creator, start height, hub creation height and finalization status. -/
theorem fork_states_below_kept (s s' : St) (ra lv keep : Nat) (r r' : Rollapp) (kst : SInfo)
    (hc : Chain r.states) (hg : getRa s ra = some r)
    (hplan : revertPlan r ((lv + 1) % 2 ^ 64) = .ok (keep, kst))
    (e : hardFork s ra lv = .ok s') (hr' : getRa s' ra = some r') :
    (∀ i, i + 1 < keep → r'.states[i]? = r.states[i]?) ∧
    (∀ (i : Nat) (st : SInfo) (b : BD), r.states[i]? = some st → b ∈ st.bds → b.height ≤ kst.last →
      ∃ st', r'.states[i]? = some st' ∧ b ∈ st'.bds ∧ st'.creator = st.creator ∧ st'.start = st.start ∧
        st'.creationHeight = st.creationHeight ∧ st'.finalized = st.finalized ∧ st'.accRev = st.accRev ∧
        st'.finalizedAt = st.finalizedAt) := by
  obtain ⟨p', hr1, _⟩ := hardFork_getRa_same hg hplan e
  rw [hr'] at hr1; injection hr1 with hr1; subst hr1
  obtain ⟨st0, l, ps⟩ := revertPlan_spec hc hplan
  have hk := ps.keep_pos
  have hklen := getElem?_lt ps.hst
  have hpre : ∀ i, i + 1 < keep → (r.states.take (keep - 1) ++ [kst])[i]? = r.states[i]? := by
    intro i hi
    rw [List.getElem?_append_left (by rw [List.length_take]; omega), List.getElem?_take_of_lt (by omega)]
  refine ⟨hpre, ?_⟩
  intro i st b hst hb hbh
  have hw := hc.wf st (List.mem_of_getElem? hst)
  have hbr := hw.bd_range hb
  rcases Nat.lt_trichotomy (i + 1) keep with hlt | heq | hgt
  · exact ⟨st, (hpre i hlt).trans hst, hb, rfl, rfl, rfl, rfl, rfl, rfl⟩
  · have hi : i = keep - 1 := by omega
    subst hi
    rw [ps.hst] at hst; injection hst with hst; subst hst
    refine ⟨kst, ?_, ?_, ps.kst_creator, ps.kst_start, ?_, ps.kst_finalized, ?_, ?_⟩
    · rw [List.getElem?_append_right (by rw [List.length_take]; omega)]
      rw [List.length_take, Nat.min_eq_left (by omega)]; simp
    · have hkb : kst.bds = st0.bds.take (kst.last + 1 - st0.start) := by
        have := ps.kst_eq
        generalize kst.last + 1 - st0.start = m at this
        rw [this]
      rw [hkb]
      exact hw.bd_take hb _ (by omega)
    · rw [ps.kst_eq]
    · rw [ps.kst_eq]
    · rw [ps.kst_eq]
  · exfalso
    have := ps.above hc i st (by omega) hst
    omega

/-- **No finalization-queue entry of the forked rollapp references a removed index; everything
    else in the queue is untouched.**  Every index left in an entry of `ra` is ≤ `keep` and no entry
    of `ra` is left empty; the indices queued for `ra` are exactly the old ones that are ≤ `keep`, in
    the same order; the entries of every other rollapp are literally the same, in the same order; the
    (creation height, rollapp) order of the queue is preserved. -/
theorem fork_queue_pruned (s s' : St) (ra lv keep : Nat) (r : Rollapp) (kst : SInfo)
    (hg : getRa s ra = some r) (hplan : revertPlan r ((lv + 1) % 2 ^ 64) = .ok (keep, kst))
    (e : hardFork s ra lv = .ok s') :
    (∀ en ∈ s'.queue, en.ra = ra → en.idx ≠ [] ∧ ∀ i ∈ en.idx, i ≤ keep) ∧
    (∀ en ∈ s'.queue, ∃ e0 ∈ s.queue, e0.ch = en.ch ∧ e0.ra = en.ra ∧ (∀ i ∈ en.idx, i ∈ e0.idx) ∧
        (en.ra ≠ ra → en = e0)) ∧
    flat s'.queue ra = (flat s.queue ra).filter (· ≤ keep) ∧
    (∀ ra', ra' ≠ ra → s'.queue.filter (·.ra == ra') = s.queue.filter (·.ra == ra')) ∧
    (∀ ra', ra' ≠ ra → flat s'.queue ra' = flat s.queue ra') ∧
    (QSorted s.queue → QSorted s'.queue) := by
  rw [hardFork_queue hg hplan e]
  refine ⟨?_, ?_, flat_removeIdxAbove_same _ _ _, fun ra' hne => filter_removeIdxAbove_other _ _ _ _ hne,
    fun ra' hne => flat_removeIdxAbove_other _ _ _ _ hne, removeIdxAbove_sorted _ _ _⟩
  · intro en hen hra
    obtain ⟨e0, _, _, _, h3, h4, _⟩ := mem_removeIdxAbove _ _ _ _ hen
    exact ⟨h4 hra, fun i hi => (h3 i hi).2 hra⟩
  · intro en hen
    obtain ⟨e0, h0, h1, h2, h3, _, h5⟩ := mem_removeIdxAbove _ _ _ _ hen
    exact ⟨e0, h0, h1, h2, fun i hi => (h3 i hi).1, h5⟩

/-- **Sequencer liabilities above h' are removed, all others kept** (the clause that was false
    before fix da76b521e: the creator of the kept, truncated state is now included).
    `creators` are the creators of the removed states and of the kept state.  After the fork no
    pair `(a, h)` with `a` among them and `h > h'` remains; every pair with `h ≤ h'`, and every pair
    of any other sequencer, is kept; nothing is added and the order is unchanged. -/
theorem fork_liability_pruned (s s' : St) (ra lv keep : Nat) (r : Rollapp) (kst : SInfo)
    (hg : getRa s ra = some r) (hplan : revertPlan r ((lv + 1) % 2 ^ 64) = .ok (keep, kst))
    (e : hardFork s ra lv = .ok s') :
    (∀ p ∈ s'.seqH, (p.1 = kst.creator ∨ ∃ st ∈ r.states.drop keep, st.creator = p.1) → p.2 ≤ kst.last) ∧
    (∀ p ∈ s.seqH, p.2 ≤ kst.last → p ∈ s'.seqH) ∧
    (∀ p ∈ s.seqH, p.1 ≠ kst.creator → (∀ st ∈ r.states.drop keep, st.creator ≠ p.1) → p ∈ s'.seqH) ∧
    s'.seqH.Sublist s.seqH := by
  rw [hardFork_seqH hg hplan e]
  refine ⟨?_, ?_, ?_, pruneSeqHeights_sublist _ _ _⟩
  · intro p hp hc
    apply ((mem_pruneSeqHeights _ _ _ _).1 hp).2
    rcases hc with hc | ⟨st, hst, hc⟩
    · simp [hc]
    · simp only [List.mem_cons, List.mem_map]
      exact Or.inr ⟨st, hst, hc⟩
  · intro p hp hle
    exact (mem_pruneSeqHeights _ _ _ _).2 ⟨hp, fun _ => hle⟩
  · intro p hp h1 h2
    refine (mem_pruneSeqHeights _ _ _ _).2 ⟨hp, fun hc => ?_⟩
    exfalso
    simp only [List.mem_cons, List.mem_map] at hc
    rcases hc with hc | ⟨st, hst, hc⟩
    · exact h1 hc
    · exact h2 st hst hc

/-- **Everything else** (exhaustive frame of an accepted fork).
    Other rollapps: records unchanged.  The forked rollapp's record: states and revisions as
    described by the other theorems, liveness clock reset (`evH = 0`, countdown restarts at the
    current hub height), successor cleared, proposer := sentinel (`none`; the alternative — a
    recorded proposer without a sequencer record — does not occur in reachable states), all other
    fields (id, owner, minimum bond, launched, latest finalized index, genesis-bridge height) as
    before.  Sequencers: every sequencer of the rollapp is opted out, the former proposer is
    unbonded, and nothing else of any sequencer record changes — in particular no bond.  The
    rollapp's pending liveness event is removed from the event queue.  Notice queue: only entries of
    the removed proposer may disappear.  Hub clock, parameters, bank balances, module balance,
    burned total and the obsolete-version list are unchanged. -/
theorem fork_frame (s s' : St) (ra lv keep : Nat) (r : Rollapp) (kst : SInfo)
    (hg : getRa s ra = some r) (hplan : revertPlan r ((lv + 1) % 2 ^ 64) = .ok (keep, kst))
    (e : hardFork s ra lv = .ok s') :
    (∀ id, id ≠ ra → getRa s' id = getRa s id) ∧
    (∃ p', getRa s' ra = some { r with states := r.states.take (keep - 1) ++ [kst],
                                        revs := r.revs ++ [(latestRev r + 1, kst.last + 1)],
                                        evH := 0, cdStart := s.h, proposer := p', successor := none } ∧
       (p' = none ∨ (p' = r.proposer ∧ ∃ a, r.proposer = some a ∧ getSeq s a = none))) ∧
    (∀ a, getSeq s' a = (getSeq s a).map (fun q =>
        { q with optedIn := if q.rollapp == ra then false else q.optedIn,
                 bonded := if r.proposer = some a then false else q.bonded })) ∧
    TokFrame s s' ∧
    s'.lev = delEvent s.lev r.evH ra ∧
    (∀ x ∈ s'.nq, x ∈ s.nq) ∧ (∀ x ∈ s.nq, r.proposer ≠ some x.2 → x ∈ s'.nq) ∧
    s'.h = s.h ∧ s'.t = s.t ∧ s'.p = s.p ∧ s'.bal = s.bal ∧ s'.modBal = s.modBal ∧ s'.burned = s.burned ∧
    s'.obsolete = s.obsolete := by
  have hs := hardFork_ok_eq hg hplan e
  have hrest := seqOnHardFork_rest (forkMid s ra r keep kst) ra
  have hmid := forkMid_rest s ra keep r kst
  have hgm := forkMid_getRa_same (keep := keep) (kst := kst) hg
  refine ⟨fun id hne => hardFork_getRa_other e hne, hardFork_getRa_same hg hplan e, hardFork_getSeq hg e,
    hardFork_tok e, hardFork_lev hg hplan e, ?_, ?_, ?_, ?_, ?_, ?_, ?_, ?_, ?_⟩
  · subst hs; intro x hx
    have := seqOnHardFork_nq_sub _ _ x hx
    rw [hmid.2.2.2.2.2.2.2.1] at this; exact this
  · subst hs; intro x hx hne
    exact seqOnHardFork_nq_keep hgm x (by rw [hmid.2.2.2.2.2.2.2.1]; exact hx) hne
  · subst hs; rw [hrest.h]; exact hmid.1
  · subst hs; rw [hrest.t]; exact hmid.2.1
  · subst hs; rw [hrest.p]; exact hmid.2.2.1
  · subst hs; rw [hrest.bal]; exact hmid.2.2.2.1
  · subst hs; rw [hrest.modBal]; exact hmid.2.2.2.2.1
  · subst hs; rw [hrest.burned]; exact hmid.2.2.2.2.2.1
  · subst hs; rw [hrest.obsolete]; exact hmid.2.2.2.2.2.2.1

/-- **The revision is bumped to start at h' + 1.** -/
theorem fork_revision (s s' : St) (ra lv keep : Nat) (r r' : Rollapp) (kst : SInfo)
    (hg : getRa s ra = some r) (hplan : revertPlan r ((lv + 1) % 2 ^ 64) = .ok (keep, kst))
    (e : hardFork s ra lv = .ok s') (hr' : getRa s' ra = some r') :
    r'.revs = r.revs ++ [(latestRev r + 1, kst.last + 1)] ∧
    latestRev r' = latestRev r + 1 ∧
    (∀ x, kst.last < x → revForHeight r' x = latestRev r + 1) ∧
    (∀ x, x ≤ kst.last → revForHeight r' x = revForHeight r x) := by
  obtain ⟨p', hr1, _⟩ := hardFork_getRa_same hg hplan e
  rw [hr'] at hr1; injection hr1 with hr1
  have hrevs : r'.revs = r.revs ++ [(latestRev r + 1, kst.last + 1)] := by rw [hr1]
  refine ⟨hrevs, latestRev_append r _ r' hrevs, ?_, ?_⟩
  · intro x hx
    rw [revForHeight_append r r' _ hrevs, if_pos (by show kst.last + 1 ≤ x; omega)]
  · intro x hx
    rw [revForHeight_append r r' _ hrevs, if_neg (by show ¬ kst.last + 1 ≤ x; omega)]

/-- **The next accepted update must start at h' + 1 with the new revision.**  In any later state
    `s2` in which the rollapp's revisions and latest height are still those the fork left behind
    (no other update or fork of that rollapp happened in between), an accepted update of that
    rollapp has `start = h' + 1` and `rev = (old latest revision) + 1`. -/
theorem post_fork_update (s s' : St) (ra lv keep : Nat) (r r' : Rollapp) (kst : SInfo)
    (hc : Chain r.states) (hg : getRa s ra = some r)
    (hplan : revertPlan r ((lv + 1) % 2 ^ 64) = .ok (keep, kst))
    (e : hardFork s ra lv = .ok s') (hr' : getRa s' ra = some r')
    (s2 s3 : St) (r2 : Rollapp) (m : UpdMsg) (hm : m.ra = ra) (hg2 : getRa s2 ra = some r2)
    (hc2 : Chain r2.states) (hrevs : r2.revs = r'.revs) (hlat : latestHeight r2 = latestHeight r')
    (acc : apply s2 (.update m) = .ok s3) :
    m.start = kst.last + 1 ∧ m.rev = latestRev r + 1 := by
  have hrev := (fork_revision s s' ra lv keep r r' kst hg hplan e hr').2.1
  have hst := (fork_states_above_removed s s' ra lv keep r r' kst hc hg hplan e hr').2.1
  simp only [apply] at acc
  obtain ⟨r2', hg2', _, hrev2, hstart⟩ := updateState_ok_elim acc
  rw [hm, hg2] at hg2'; injection hg2' with hg2'; subst hg2'
  constructor
  · rw [hst] at hlat
    unfold latestHeight at hlat
    cases hl : r2.states.getLast? with
    | none => rw [hl] at hlat; cases hlat
    | some l2 =>
      rw [hl] at hlat
      injection hlat with hlat
      have hlat : l2.last = kst.last := hlat
      have hw := hc2.wf l2 (List.mem_of_getLast? hl)
      rw [hstart l2 hl]
      rw [hw.last_eq] at hlat
      have := hw.num_pos
      omega
  · rw [← hrev2, ← hrev]
    unfold latestRev; rw [hrevs]

-- ================================================================ entry points

/-- **Fraud proposal**: an accepted proposal for fraud height `h` (authorised, `h ≠ 0`, the named
    revision is the one recorded for `h`) punishes the named sequencer, if any, — which touches no
    rollapp record, queue entry or liability — and then forks with last valid height `h - 1`, so the
    first removed height is `h` itself. -/
theorem fraud_is_fork (s s' : St) (au : Bool) (ra h rev : Nat) (pun rw : Option Addr)
    (e : fraud s au ra h rev pun rw = .ok s') :
    au = true ∧ h ≠ 0 ∧ ∃ r s1, getRa s ra = some r ∧ revForHeight r h = rev ∧
      (∀ id, getRa s1 id = getRa s id) ∧ s1.seqH = s.seqH ∧ s1.queue = s.queue ∧
      hardFork s1 ra (h - 1) = .ok s' ∧ (h < 2 ^ 64 → (h - 1 + 1) % 2 ^ 64 = h) := by
  obtain ⟨h1, h2, r, s1, h3, h4, h5, h6⟩ := fraud_ok_elim e
  refine ⟨h1, h2, r, s1, h3, h4, ?_, ?_, ?_, h6, ?_⟩
  · intro id
    cases pun with
    | none => rw [show s1 = s from h5]
    | some a => exact punish_getRa h5 id
  · cases pun with
    | none => rw [show s1 = s from h5]
    | some a => exact (punish_seqH_queue h5).1
  · cases pun with
    | none => rw [show s1 = s from h5]
    | some a => exact (punish_seqH_queue h5).2
  · intro hlt
    rw [show h - 1 + 1 = h by omega, Nat.mod_eq_of_lt hlt]

/-- **Fork to the latest height** (kick, rotation with no successor, obsolete marking): it is
    `hardFork` at the latest height, and under the chain invariant it removes no state and no height:
    all states stay, only the latest state's `NextProposer` is cleared, `h'` is the old latest height. -/
theorem fork_to_latest (s s' : St) (ra : Nat) (e : hardForkToLatest s ra = .ok s') :
    ∃ r lh, getRa s ra = some r ∧ latestHeight r = some lh ∧ hardFork s ra lh = .ok s' ∧
      (Chain r.states → ∃ l, r.states.getLast? = some l ∧ (lh + 1) % 2 ^ 64 = lh + 1 ∧
        revertPlan r ((lh + 1) % 2 ^ 64) = .ok (r.states.length, { l with next := NextP.empty })) :=
  hardForkToLatest_plan e

/-- **Kick**: an accepted kick removes the proposer abruptly, forks to the latest height, re-opts
    the kicker in and elects a new proposer. -/
theorem kick_is_fork (s s' : St) (a : Addr) (e : kick s a = .ok s') :
    ∃ kicker r pa s3, getSeq s a = some kicker ∧ getRa s kicker.rollapp = some r ∧ r.proposer = some pa ∧ a ≠ pa ∧
      hardForkToLatest (abruptRemoveProposer s r.id) r.id = .ok s3 ∧
      recoverFromSentinel (setSeq s3 { kicker with optedIn := true }) r.id = .ok s' := kick_ok_elim e

/-- **Rotation with no successor**: the proposer's last block hands over to the sentinel and forks
    to the latest height. -/
theorem rotation_to_sentinel_is_fork (s : St) (prop : Seq) (r : Rollapp) (hn : noticeElapsed prop s.t = true)
    (hg : getRa s prop.rollapp = some r) (hs : r.successor = none) :
    onProposerLastBlock s prop = hardForkToLatest (setRa s { r with successor := none, proposer := none }) r.id :=
  onProposerLastBlock_sentinel hn hg hs

/-- **Obsolete marking**: the version list is extended and then a sequence of accepted
    forks-to-latest runs, one per affected rollapp (refused ones are dropped without effect). -/
theorem obsolete_is_forks (s s' : St) (au : Bool) (vs : List Nat) (e : markObsolete s au vs = .ok s') :
    au = true ∧ vs ≠ [] ∧
      ForkSeq { s with obsolete := vs.foldl (fun acc v => if acc.contains v then acc else acc ++ [v]) s.obsolete } s' :=
  markObsolete_ok_elim e

-- ================================================================ reachable states

/-- the three state invariants behind the clean forms below (with the chain and custody invariants of
    C01 / C06) hold in every reachable state, for every parameter set and every op sequence … -/
theorem reachable_inv (p : Params) (ops : List Op) : Inv (run p ops) := run_inv p ops

/-- … and an accepted fork preserves them -/
theorem fork_preserves_inv (s s' : St) (ra lv : Nat) (hi : Inv s) (e : hardFork s ra lv = .ok s') : Inv s' :=
  ⟨hardFork_chain hi.chain e, hardFork_cust hi.cust e, hardFork_J hi.chain hi.j e⟩

/-- **Liability invariant, every reachable state**: every (sequencer, height) liability refers to
    an unfinalized height of a recorded state of the sequencer's own rollapp, created by that
    sequencer. -/
theorem liability_inv (p : Params) (ops : List Op) :
    ∀ pr ∈ (run p ops).seqH, ∃ (q : Seq) (r : Rollapp) (i : Nat) (st : SInfo),
      getSeq (run p ops) pr.1 = some q ∧ getRa (run p ops) q.rollapp = some r ∧ r.states[i]? = some st ∧
      st.creator = pr.1 ∧ st.finalized = false ∧ st.start ≤ pr.2 ∧ pr.2 ≤ st.last := by
  intro pr hpr
  obtain ⟨ra, r, i, st, ⟨q, hq, hqr⟩, h2, h3, h4, h5, h6, h7⟩ := (run_inv p ops).j.liab pr hpr
  exact ⟨q, r, i, st, hq, by rw [hqr]; exact h2, h3, h4, h5, h6, h7⟩

/-- **Every reachable state**: the proposer and the successor of a rollapp, and the creator of each
    of its recorded states, are sequencers of that rollapp. -/
theorem roles_inv (p : Params) (ops : List Op) (id : Nat) (r : Rollapp) (hg : getRa (run p ops) id = some r) :
    (∀ a, r.proposer = some a → ∃ q, getSeq (run p ops) a = some q ∧ q.rollapp = id) ∧
    (∀ a, r.successor = some a → ∃ q, getSeq (run p ops) a = some q ∧ q.rollapp = id) ∧
    (∀ st ∈ r.states, ∃ q, getSeq (run p ops) st.creator = some q ∧ q.rollapp = id) := by
  have hj := (run_inv p ops).j
  have hid := getRa_id hg
  have hp := hj.prop id r hg
  unfold PQ at hp
  rw [hid] at hp
  exact ⟨hp.1, hp.2, hj.creators id r hg⟩

/-- **After a fork no liability of the forked rollapp lies above h'** (the clean form of
    `fork_liability_pruned`, from the liability invariant): for a fork of a state satisfying the
    invariants — every reachable state, also after the punishment / proposer removal that precede the
    fork inside a fraud proposal / kick — no pair `(a, h)` with `a` a sequencer of `ra` and `h > h'`
    remains. -/
theorem fork_no_liability_above (s s' : St) (ra lv keep : Nat) (r : Rollapp) (kst : SInfo) (hi : Inv s)
    (hg : getRa s ra = some r) (hplan : revertPlan r ((lv + 1) % 2 ^ 64) = .ok (keep, kst))
    (e : hardFork s ra lv = .ok s') :
    ∀ pr ∈ s'.seqH, ∀ q, getSeq s' pr.1 = some q → q.rollapp = ra → pr.2 ≤ kst.last := by
  intro pr hpr q hq hqr
  obtain ⟨ra0, r0, i, st, ⟨q', hq', hqr'⟩, h2, h3, _, _, _, h7⟩ := (hardFork_J hi.chain hi.j e).liab pr hpr
  rw [hq] at hq'; injection hq' with hq'; subst hq'
  rw [hqr] at hqr'; subst hqr'
  have hb := (fork_states_above_removed s s' ra lv keep r r0 kst (hi.chain.get hg) hg hplan e h2).2.2.2.2.2.1
  exact Nat.le_trans h7 (hb st (List.mem_of_getElem? h3)).1

/-- **Everything belonging to other rollapps is unchanged** (sequencer side): for a fork of a state
    satisfying the invariants, the record of every sequencer of another rollapp is literally the
    same and every liability of such a sequencer is kept.  (Rollapp records and queue entries of
    other rollapps: `fork_frame`, `fork_queue_pruned`.) -/
theorem fork_other_rollapps_untouched (s s' : St) (ra lv keep : Nat) (r : Rollapp) (kst : SInfo) (hi : Inv s)
    (hg : getRa s ra = some r) (hplan : revertPlan r ((lv + 1) % 2 ^ 64) = .ok (keep, kst))
    (e : hardFork s ra lv = .ok s') :
    (∀ a q, getSeq s a = some q → q.rollapp ≠ ra → getSeq s' a = some q) ∧
    (∀ pr ∈ s.seqH, ∀ q, getSeq s pr.1 = some q → q.rollapp ≠ ra → pr ∈ s'.seqH) := by
  have hid := getRa_id hg
  constructor
  · intro a q hq hne
    rw [hardFork_getSeq hg e a, hq]
    have h1 : (q.rollapp == ra) = false := by simp [hne]
    have h2 : ¬ r.proposer = some a := by
      intro hc
      obtain ⟨q', hq', hqr'⟩ := (hi.j.prop ra r hg).1 a hc
      rw [hq] at hq'; injection hq' with hq'; subst hq'
      exact hne (hqr'.trans hid)
    simp only [Option.map_some, h1, if_neg h2, Bool.false_eq_true, if_false]
  · intro pr hpr q hq hne
    have hcr : ∀ st ∈ r.states, st.creator ≠ pr.1 := by
      intro st hst hc
      obtain ⟨q', hq', hqr'⟩ := hi.j.creators ra r hg st hst
      rw [hc, hq] at hq'; injection hq' with hq'; subst hq'
      exact hne hqr'
    obtain ⟨stk, l, ps⟩ := revertPlan_spec (hi.chain.get hg) hplan
    refine (fork_liability_pruned s s' ra lv keep r kst hg hplan e).2.2.1 pr hpr ?_ ?_
    · rw [ps.kst_creator]
      exact fun hc => hcr stk (List.mem_of_getElem? ps.hst) hc.symm
    · intro st hst
      exact hcr st (List.mem_of_mem_drop hst)

/-- **The forked rollapp's record, reachable states**: with the invariants the proposer is always
    reset to the sentinel, so the record after the fork is exactly this one. -/
theorem fork_rollapp_record (s s' : St) (ra lv keep : Nat) (r : Rollapp) (kst : SInfo) (hi : Inv s)
    (hg : getRa s ra = some r) (hplan : revertPlan r ((lv + 1) % 2 ^ 64) = .ok (keep, kst))
    (e : hardFork s ra lv = .ok s') :
    getRa s' ra = some { r with states := r.states.take (keep - 1) ++ [kst],
                                revs := r.revs ++ [(latestRev r + 1, kst.last + 1)],
                                evH := 0, cdStart := s.h, proposer := none, successor := none } := by
  obtain ⟨p', h1, h2⟩ := hardFork_getRa_same hg hplan e
  rcases h2 with h2 | ⟨_, a, h3, h4⟩
  · rw [h2] at h1; exact h1
  · exfalso
    obtain ⟨q, hq, _⟩ := (hi.j.prop ra r hg).1 a h3
    rw [h4] at hq; cases hq

/-- **The next accepted update after a fork, any history in between**: start from any state
    satisfying the invariants (every reachable state), fork rollapp `ra`, then run any op sequence in
    which every op either is rejected or is not an update of `ra`, a fraud proposal against `ra`, a
    kick by a sequencer of `ra` or an obsolete marking (all other messages, updates and forks of other
    rollapps, block processing with finalization and liveness slashing are allowed).  Then an accepted
    update of `ra` has `start = h' + 1` and carries the bumped revision. -/
theorem post_fork_update_any_history (s s' : St) (ra lv keep : Nat) (r : Rollapp) (kst : SInfo) (hi : Inv s)
    (hg : getRa s ra = some r) (hplan : revertPlan r ((lv + 1) % 2 ^ 64) = .ok (keep, kst))
    (e : hardFork s ra lv = .ok s') (ops2 : List Op) (hq : Quiet ra s' ops2) (s3 : St) (m : UpdMsg)
    (hm : m.ra = ra) (acc : apply (ops2.foldl (fun s o => (step s o).1) s') (.update m) = .ok s3) :
    m.start = kst.last + 1 ∧ m.rev = latestRev r + 1 := by
  have hi' := fork_preserves_inv s s' ra lv hi e
  obtain ⟨k2, i2⟩ := quiet_rk hi' hq
  have hr' := fork_rollapp_record s s' ra lv keep r kst hi hg hplan e
  obtain ⟨r2, hg2, hrevs, hlat⟩ := k2 _ hr'
  exact post_fork_update s s' ra lv keep r _ kst (hi.chain.get hg) hg hplan e hr' _ s3 r2 m hm hg2
    (i2.chain.get hg2) hrevs hlat acc

-- ================================================================ non-vacuity

def exParams : Params where
  dispute := 2
  lsBlocks := 5
  lsInterval := 2
  lsMul := ⟨0⟩
  lsAbs := 0
  dishonorSU := 1
  dishonorL := 1
  kickThr := 2
  noticePeriod := 10
def exBds (start n : Nat) : List BD := (List.range n).map fun i => { height := start + i, hasTs := true, drs := 1, rootOk := true }
def exUpd (ra sender start num rev : Nat) : Op :=
  .update { ra := ra, sender := sender, start := start, num := num, rev := rev, last := false, bds := exBds start num }
/-- two rollapps sharing hub block 1; rollapp 0 has states 1–3 and 4–6 by sequencer 1 (sequencer 2
    bonded but idle), rollapp 1 has state 1–2 by sequencer 3; genesis bridge of rollapp 0 at height 1 -/
def exPre : List Op := [.createRollapp 0 9 10, .createRollapp 1 9 10, .fund 1 100, .fund 2 100, .fund 3 100,
  .createSeq 1 0 10 true, .createSeq 2 0 10 true, .createSeq 3 1 10 true,
  exUpd 0 1 1 3 0, exUpd 1 3 1 2 0, exUpd 0 1 4 3 0, .bridge 0 1]
def exStates (s : St) : List (List (Nat × Nat × Nat)) := s.ras.map fun r => r.states.map fun x => (x.start, x.num, x.creator)
def exRevs (s : St) : List (List (Nat × Nat)) := s.ras.map (·.revs)
def exProposers (s : St) : List (Option Nat) := s.ras.map (·.proposer)
def exQueue (s : St) : List (Nat × Nat × List Nat) := s.queue.map fun e => (e.ch, e.ra, e.idx)

-- before the fork
example : exStates (run exParams exPre) = [[(1, 3, 1), (4, 3, 1)], [(1, 2, 3)]] ∧
    exRevs (run exParams exPre) = [[(0, 0)], [(0, 0)]] ∧ exProposers (run exParams exPre) = [some 1, some 3] ∧
    exQueue (run exParams exPre) = [(1, 0, [1, 2]), (1, 1, [1])] ∧
    (run exParams exPre).seqH = [(1, 1), (1, 2), (1, 3), (1, 4), (1, 5), (1, 6), (3, 1), (3, 2)] := by decide
-- fork inside state 2 (fraud height 5, last valid 4): state 2 truncated to 4–4, liabilities 5, 6 gone
def exFork5 : St := run exParams (exPre ++ [.fraud true 0 5 0 none none])
example : exStates exFork5 = [[(1, 3, 1), (4, 1, 1)], [(1, 2, 3)]] ∧
    exRevs exFork5 = [[(0, 0), (1, 5)], [(0, 0)]] ∧ exProposers exFork5 = [none, some 3] ∧
    exQueue exFork5 = [(1, 0, [1, 2]), (1, 1, [1])] ∧
    exFork5.seqH = [(1, 1), (1, 2), (1, 3), (1, 4), (3, 1), (3, 2)] := by decide
-- fork on the first height of state 2 (fraud height 4): state 2 and its queue index removed
def exFork4 : St := run exParams (exPre ++ [.fraud true 0 4 0 none none])
example : exStates exFork4 = [[(1, 3, 1)], [(1, 2, 3)]] ∧
    exRevs exFork4 = [[(0, 0), (1, 4)], [(0, 0)]] ∧ exProposers exFork4 = [none, some 3] ∧
    exQueue exFork4 = [(1, 0, [1]), (1, 1, [1])] ∧
    exFork4.seqH = [(1, 1), (1, 2), (1, 3), (3, 1), (3, 2)] := by decide
-- fork beyond the latest height (fraud height 9): nothing removed, revision starts at 7
def exFork9 : St := run exParams (exPre ++ [.fraud true 0 9 0 none none])
example : exStates exFork9 = [[(1, 3, 1), (4, 3, 1)], [(1, 2, 3)]] ∧
    exRevs exFork9 = [[(0, 0), (1, 7)], [(0, 0)]] ∧ exProposers exFork9 = [none, some 3] ∧
    exQueue exFork9 = [(1, 0, [1, 2]), (1, 1, [1])] ∧
    exFork9.seqH = [(1, 1), (1, 2), (1, 3), (1, 4), (1, 5), (1, 6), (3, 1), (3, 2)] := by decide
-- obsolete marking of DRS version 1 (used by both rollapps): rollapp 0 is forked to its latest height
-- (nothing removed, revision 1 starts at 7); rollapp 1 has no genesis bridge, its fork is dropped
def exObs : St := run exParams (exPre ++ [.obsolete true [1]])
example : exStates exObs = [[(1, 3, 1), (4, 3, 1)], [(1, 2, 3)]] ∧
    exRevs exObs = [[(0, 0), (1, 7)], [(0, 0)]] ∧ exProposers exObs = [none, some 3] ∧
    exQueue exObs = [(1, 0, [1, 2]), (1, 1, [1])] ∧
    exObs.seqH = [(1, 1), (1, 2), (1, 3), (1, 4), (1, 5), (1, 6), (3, 1), (3, 2)] ∧ exObs.obsolete = [1] := by decide
-- refusals: wrong revision; last valid height below the genesis-bridge height; genesis bridge not done (rollapp 1)
example : (step (run exParams exPre) (.fraud true 0 5 1 none none)).2 = some .wrongRevision := by decide
example : (step (run exParams exPre) (.fraud true 0 1 0 none none)).2 = some .forkNotAllowed := by decide
example : (step (run exParams exPre) (.fraud true 1 2 0 none none)).2 = some .forkNotAllowed := by decide
-- refusal: the fork height lies in a finalized state (two blocks later both states of rollapp 0 are final)
def exFin : St := run exParams (exPre ++ [.begin_ 1, .begin_ 1, .end_ []])
example : (exFin.ras.map fun r => r.states.map (·.finalized)) = [[true, true], [true]] ∧ exFin.seqH = [] ∧
    (step exFin (.fraud true 0 5 0 none none)).2 = some .finalizedHeight ∧
    (step exFin (.fraud true 0 9 0 none none)).2 = none := by decide
-- refusals: first height of the first recorded state (no previous state to keep); below the first recorded height
def exLate : St := run exParams [.createRollapp 0 9 10, .fund 1 100, .createSeq 1 0 10 true, exUpd 0 1 3 2 0, .bridge 0 1]
example : (step exLate (.fraud true 0 3 0 none none)).2 = some .noState ∧
    (step exLate (.fraud true 0 2 0 none none)).2 = some .internal := by decide
-- after the fork at 5 and the election of sequencer 2: only start 5 / revision 1 is accepted
example : (step (run exParams (exPre ++ [.fraud true 0 5 0 none none, .optIn 2 true])) (exUpd 0 2 5 1 1)).2 = none := by decide
example : (step (run exParams (exPre ++ [.fraud true 0 5 0 none none, .optIn 2 true])) (exUpd 0 2 5 1 0)).2 = some .wrongRevision := by decide
example : (step (run exParams (exPre ++ [.fraud true 0 5 0 none none, .optIn 2 true])) (exUpd 0 2 6 1 1)).2 = some .wrongHeight := by decide

end DymVerif.C03
