/-
  Props/C03X — C03 (a fork removes everything above h and nothing at or below it), extensions over
  M-Core that close three gaps of Props/C03:

  (a) `C03.fork_refused_if_finalized_above` / `C03.fork_touches_no_finalized_state` assume that the
      finalized states form a prefix (`FinPrefix`) and that the chain is gap-free (`Chain`).  Here both
      hypotheses are discharged for every reachable state (`finPrefix_run`, from C02's finalization
      invariant `run_fin`), the two theorems are restated on `run p ops` with no hypothesis left, and
      they are lifted to the whole fraud-proposal op (`fraud …`), whose fork runs on the state AFTER
      the punishment (`punish` changes no rollapp record, so both invariants carry over).
  (b) `fraud_other_rollapps`: what a fraud proposal may touch when the punished sequencer belongs to
      ANOTHER rollapp than the forked one (neither `SubmitRollappFraud` nor `PunishSequencer` checks
      that the punished address is a sequencer of the rollapp named in the proposal).
  (c) `fork_refused_no_state_named`: the exact error of a fork of a rollapp without states, per guard.
-/
import DymVerif.Props.C03
import DymVerif.Lemmas.CoreXFork
namespace DymVerif.C03X
open DymVerif DymVerif.Core DymVerif.Core.Fork DymVerif.Core.XFork

-- ================================================================ (a) finalized states and forks

/-- **Finalized states form a prefix, every reachable state**: for every parameter set, every op
    sequence and every rollapp record `r` of the reached state, if the state at position `j` is
    finalized then so is every state at a position `i ≤ j` (this is the `FinPrefix` hypothesis of
    `C03.fork_refused_if_finalized_above` and `C03.fork_touches_no_finalized_state`; it is C02's
    `finalized_prefix`: "finalized ⇔ index ≤ latest finalized index"). -/
theorem finPrefix_run (p : Params) (ops : List Op) (r : Rollapp) (hr : r ∈ (run p ops).ras) :
    FinPrefix r.states :=
  finPrefix_of_finInv (Core.run_fin p ops) hr

/-- the same, unfolded (no auxiliary definition in the statement) -/
theorem finalized_prefix_run (p : Params) (ops : List Op) (r : Rollapp) (hr : r ∈ (run p ops).ras)
    (i j : Nat) (a b : SInfo) (hij : i ≤ j) (ha : r.states[i]? = some a) (hb : r.states[j]? = some b)
    (hbf : b.finalized = true) : a.finalized = true :=
  finPrefix_run p ops r hr i j a b hij ha hb hbf

/-- **A fork below any finalized height is refused** — for any state satisfying the chain invariant
    (C01) and the finalization invariant (C02): if some finalized state of the rollapp has a height
    above the last valid height, `hardFork` returns an error, wherever the fork height itself falls. -/
theorem fork_refused_if_finalized_above_inv (s : St) (hc : ChainAll s) (hf : FinInv s) (ra lv j : Nat)
    (r : Rollapp) (x : SInfo) (hg : getRa s ra = some r) (hx : r.states[j]? = some x)
    (hxf : x.finalized = true) (hlv : lv < x.last) : ∃ e, hardFork s ra lv = .error e :=
  C03.fork_refused_if_finalized_above s ra lv j r x (hc.get hg) (finPrefix_of_finInv hf (getRa_mem hg)) hg hx hxf hlv

/-- **A fork below any finalized height is refused, every reachable state** (no hypothesis left):
    in the state reached by any op sequence, a fork of rollapp `ra` with last valid height `lv` is
    refused whenever some finalized state of `ra` contains a height above `lv`. -/
theorem fork_refused_if_finalized_above_run (p : Params) (ops : List Op) (ra lv j : Nat) (r : Rollapp) (x : SInfo)
    (hg : getRa (run p ops) ra = some r) (hx : r.states[j]? = some x) (hxf : x.finalized = true)
    (hlv : lv < x.last) : ∃ e, hardFork (run p ops) ra lv = .error e :=
  fork_refused_if_finalized_above_inv _ (run_chain p ops) (Core.run_fin p ops) ra lv j r x hg hx hxf hlv

/-- what an accepted fork does to finalized states, for a state satisfying the chain and
    finalization invariants: the plan exists; every removed state (index ≥ `keep`, 0-based position
    `j ≥ keep`) was unfinalized; every finalized state lies entirely at or below `h' = kst.last`, sits
    at a position below `keep` and is still recorded at the same position, literally unchanged — except
    that when it is the kept (now latest) state its `NextProposer` is cleared. -/
theorem fork_touches_no_finalized_state_inv (s s' : St) (hc : ChainAll s) (hf : FinInv s) (ra lv : Nat)
    (e : hardFork s ra lv = .ok s') :
    ∃ r keep kst r', getRa s ra = some r ∧ revertPlan r ((lv + 1) % 2 ^ 64) = .ok (keep, kst) ∧
      getRa s' ra = some r' ∧ r'.states = r.states.take (keep - 1) ++ [kst] ∧
      (∀ (j : Nat) (x : SInfo), keep ≤ j → r.states[j]? = some x → x.finalized = false) ∧
      (∀ (j : Nat) (x : SInfo), r.states[j]? = some x → x.finalized = true →
        x.last ≤ kst.last ∧ x.last ≤ lv ∧ j < keep ∧
        r'.states[j]? = some (if j + 1 = keep then { x with next := NextP.empty } else x)) := by
  obtain ⟨r, keep, kst, hg, _, _, _, hplan, _⟩ := hardFork_ok_elim e
  have hcr : Chain r.states := hc.get hg
  have hfp : FinPrefix r.states := finPrefix_of_finInv hf (getRa_mem hg)
  obtain ⟨p', hr', _⟩ := hardFork_getRa_same hg hplan e
  have h12 := C03.fork_touches_no_finalized_state s s' ra lv keep r kst hcr hfp hg hplan e
  have hab := C03.fork_states_above_removed s s' ra lv keep r _ kst hcr hg hplan e hr'
  have hbel := (C03.fork_states_below_kept s s' ra lv keep r _ kst hcr hg hplan e hr').1
  refine ⟨r, keep, kst, _, hg, hplan, hr', rfl, h12.1, ?_⟩
  intro j x hx hxf
  have hle := h12.2 j x hx hxf
  have hjk : j < keep := by
    rcases Nat.lt_or_ge j keep with h | h
    · exact h
    · have := h12.1 j x h hx; rw [hxf] at this; cases this
  refine ⟨hle, Nat.le_trans hle hab.2.2.1, hjk, ?_⟩
  by_cases hk : j + 1 = keep
  · rw [if_pos hk]
    obtain ⟨st, hk1, hst, hlo, hhi, hkeq, _⟩ := hab.2.2.2.2.2.2.2.1
    have hj : keep - 1 = j := by omega
    rw [hj, hx] at hst
    injection hst with hst; subst hst
    have hw := hcr.wf x (List.mem_of_getElem? hx)
    have hlast := hw.last_eq
    have hnp := hw.num_pos
    have hn : kst.last + 1 - x.start = x.num := by omega
    rw [hn, List.take_of_length_le (by rw [hw.bds_len]; exact Nat.le_refl _)] at hkeq
    show (r.states.take (keep - 1) ++ [kst])[j]? = _
    have hlen := Core.getElem?_lt hx
    rw [List.getElem?_append_right (by rw [List.length_take]; omega)]
    rw [List.length_take, Nat.min_eq_left (by omega), ← hj, Nat.sub_self]
    simp only [List.getElem?_cons_zero]
    rw [hkeq]
  · rw [if_neg hk]
    exact (hbel j (by omega)).trans hx

/-- **An accepted fork touches no finalized state, every reachable state** (no hypothesis left):
    see `fork_touches_no_finalized_state_inv` for the clauses. -/
theorem fork_touches_no_finalized_state_run (p : Params) (ops : List Op) (s' : St) (ra lv : Nat)
    (e : hardFork (run p ops) ra lv = .ok s') :
    ∃ r keep kst r', getRa (run p ops) ra = some r ∧ revertPlan r ((lv + 1) % 2 ^ 64) = .ok (keep, kst) ∧
      getRa s' ra = some r' ∧ r'.states = r.states.take (keep - 1) ++ [kst] ∧
      (∀ (j : Nat) (x : SInfo), keep ≤ j → r.states[j]? = some x → x.finalized = false) ∧
      (∀ (j : Nat) (x : SInfo), r.states[j]? = some x → x.finalized = true →
        x.last ≤ kst.last ∧ x.last ≤ lv ∧ j < keep ∧
        r'.states[j]? = some (if j + 1 = keep then { x with next := NextP.empty } else x)) :=
  fork_touches_no_finalized_state_inv _ s' (run_chain p ops) (Core.run_fin p ops) ra lv e

/-- the punishment that precedes the fork inside a fraud proposal preserves the chain invariant and
    the finalization invariant (it writes no rollapp record and no queue entry) -/
theorem punish_preserves_chain_fin (s s1 : St) (a : Addr) (rw : Option Addr) (hc : ChainAll s) (hf : FinInv s)
    (e : punish s a rw = .ok s1) : ChainAll s1 ∧ FinInv s1 ∧ s1.ras = s.ras ∧ s1.queue = s.queue := by
  have hx := (punish_x e).1
  exact ⟨hc.ras_eq hx.ras,
    ⟨by unfold IdsNodup; rw [hx.ras]; exact hf.nodup, by rw [hx.queue]; exact hf.sorted,
     by rw [hx.queue, hx.h]; exact hf.ent, by rw [hx.queue, hx.ras]; exact hf.qra,
     by intro r hr; rw [hx.ras] at hr; rw [hx.queue, hx.p]; exact hf.ras r hr⟩,
    hx.ras, hx.queue⟩

/-- **A fraud proposal at or below any finalized height is refused** (whole op, any state with the
    chain and finalization invariants): if some finalized state of the rollapp contains a height
    `≥ h` (the fraud height = first height to remove), the proposal is refused — whoever it names for
    punishment, whatever authority / revision it carries — and the step leaves the state unchanged:
    in particular the named sequencer is NOT punished. -/
theorem fraud_refused_if_finalized_above_inv (s : St) (hc : ChainAll s) (hf : FinInv s) (au : Bool)
    (ra h rev j : Nat) (pun rw : Option Addr) (r : Rollapp) (x : SInfo) (hg : getRa s ra = some r)
    (hx : r.states[j]? = some x) (hxf : x.finalized = true) (hh : h ≤ x.last) :
    ∃ e, fraud s au ra h rev pun rw = .error e ∧ step s (.fraud au ra h rev pun rw) = (s, some e) := by
  cases hfr : fraud s au ra h rev pun rw with
  | error e => exact ⟨e, rfl, by simp [step, apply, hfr]⟩
  | ok s' =>
    exfalso
    obtain ⟨_, hh0, r0, s1, hg0, _, hp, nm, hg1, hfk⟩ := fraud_mid hfr
    rw [hg] at hg0; injection hg0 with hg0; subst hg0
    have hc1 : ChainAll s1 := hc.ras_eq nm.ras
    obtain ⟨e', he'⟩ := C03.fork_refused_if_finalized_above s1 ra (h - 1) j r x (hc1.get hg1)
      (finPrefix_of_finInv hf (getRa_mem hg)) hg1 hx hxf (by omega)
    rw [hfk] at he'; cases he'

/-- **A fraud proposal at or below any finalized height is refused, every reachable state** (no
    hypothesis left). -/
theorem fraud_refused_if_finalized_above_run (p : Params) (ops : List Op) (au : Bool) (ra h rev j : Nat)
    (pun rw : Option Addr) (r : Rollapp) (x : SInfo) (hg : getRa (run p ops) ra = some r)
    (hx : r.states[j]? = some x) (hxf : x.finalized = true) (hh : h ≤ x.last) :
    ∃ e, fraud (run p ops) au ra h rev pun rw = .error e ∧
      step (run p ops) (.fraud au ra h rev pun rw) = (run p ops, some e) :=
  fraud_refused_if_finalized_above_inv _ (run_chain p ops) (Core.run_fin p ops) au ra h rev j pun rw r x hg hx hxf hh

/-- **An accepted fraud proposal touches no finalized state** (whole op, any state with the chain and
    finalization invariants; `r` is the rollapp's record BEFORE the op — the punishment in between does
    not change it): every removed state was unfinalized; every finalized state lies entirely below
    the fraud height `h`, and is still recorded at the same position, literally unchanged except for
    the cleared `NextProposer` when it is the kept latest state. -/
theorem fraud_touches_no_finalized_state_inv (s s' : St) (hc : ChainAll s) (hf : FinInv s) (au : Bool)
    (ra h rev : Nat) (pun rw : Option Addr) (e : fraud s au ra h rev pun rw = .ok s') :
    ∃ r keep kst r', getRa s ra = some r ∧ revertPlan r (h % 2 ^ 64) = .ok (keep, kst) ∧
      getRa s' ra = some r' ∧ r'.states = r.states.take (keep - 1) ++ [kst] ∧
      (∀ (j : Nat) (x : SInfo), keep ≤ j → r.states[j]? = some x → x.finalized = false) ∧
      (∀ (j : Nat) (x : SInfo), r.states[j]? = some x → x.finalized = true →
        x.last ≤ kst.last ∧ x.last < h ∧ j < keep ∧
        r'.states[j]? = some (if j + 1 = keep then { x with next := NextP.empty } else x)) := by
  obtain ⟨_, hh0, r, s1, hg, _, hp, nm, hg1, hfk⟩ := fraud_mid e
  have hc1 : ChainAll s1 := hc.ras_eq nm.ras
  have hf1 : FinInv s1 :=
    ⟨by unfold IdsNodup; rw [nm.ras]; exact hf.nodup, by rw [nm.queue]; exact hf.sorted,
     by rw [nm.queue, nm.h]; exact hf.ent, by rw [nm.queue, nm.ras]; exact hf.qra,
     by intro r hr; rw [nm.ras] at hr; rw [nm.queue, nm.p]; exact hf.ras r hr⟩
  obtain ⟨r0, keep, kst, r', h1, h2, h3, h4, h5, h6⟩ := fork_touches_no_finalized_state_inv s1 s' hc1 hf1 ra (h - 1) hfk
  rw [hg1] at h1; injection h1 with h1; subst h1
  have hh1 : h - 1 + 1 = h := by omega
  rw [hh1] at h2
  refine ⟨r, keep, kst, r', hg, h2, h3, h4, h5, ?_⟩
  intro j x hx hxf
  obtain ⟨a1, a2, a3, a4⟩ := h6 j x hx hxf
  exact ⟨a1, by omega, a3, a4⟩

/-- **An accepted fraud proposal touches no finalized state, every reachable state** (no hypothesis
    left). -/
theorem fraud_touches_no_finalized_state_run (p : Params) (ops : List Op) (s' : St) (au : Bool)
    (ra h rev : Nat) (pun rw : Option Addr) (e : fraud (run p ops) au ra h rev pun rw = .ok s') :
    ∃ r keep kst r', getRa (run p ops) ra = some r ∧ revertPlan r (h % 2 ^ 64) = .ok (keep, kst) ∧
      getRa s' ra = some r' ∧ r'.states = r.states.take (keep - 1) ++ [kst] ∧
      (∀ (j : Nat) (x : SInfo), keep ≤ j → r.states[j]? = some x → x.finalized = false) ∧
      (∀ (j : Nat) (x : SInfo), r.states[j]? = some x → x.finalized = true →
        x.last ≤ kst.last ∧ x.last < h ∧ j < keep ∧
        r'.states[j]? = some (if j + 1 = keep then { x with next := NextP.empty } else x)) :=
  fraud_touches_no_finalized_state_inv _ s' (run_chain p ops) (Core.run_fin p ops) au ra h rev pun rw e

-- ================================================================ (b) punishing a sequencer of another rollapp

/-- **A fraud proposal that punishes a sequencer of ANOTHER rollapp** (`a` is a sequencer of
    `q.rollapp ≠ ra`; the Go handler `SubmitRollappFraud` passes `PunishSequencerAddress` to
    `PunishSequencer` without checking that it is a sequencer of `RollappId`, and so does the model).
    For any state satisfying the fork invariants (every reachable state, `fraud_other_rollapps_run`) an
    accepted such proposal
    * leaves the record of every rollapp other than the forked one literally unchanged — states,
      revisions, latest finalized index, liveness fields, owner, PROPOSER and SUCCESSOR;
    * leaves the finalization-queue entries of every other rollapp unchanged (same entries, same order);
    * keeps every liability `(sequencer, height)` of every sequencer of another rollapp, adds none;
    * changes of the punished sequencer's record ONLY `tokens` (to 0): it keeps `bonded`, `optedIn`,
      `rollapp`, `dishonor`, `notice` — so a punished PROPOSER of another rollapp stays bonded and
      stays that rollapp's proposer, with a bond of 0 (`fraud_punished_foreign_proposer_stays`);
    * leaves the record of every other sequencer of another rollapp literally unchanged, and the
      `tokens` of every sequencer other than the punished one unchanged;
    * keeps every liveness event of every other rollapp and adds none; keeps every notice-queue
      entry of sequencers of other rollapps and adds none;
    * leaves the hub clock, the parameters and the obsolete-version list unchanged;
    * moves money exactly as `Punished` says: the whole bond leaves the module account, at most half
      of it (truncated) goes to the rewardee, the rest is burned; no other balance changes. -/
theorem fraud_other_rollapps (s s' : St) (au : Bool) (ra h rev : Nat) (a : Addr) (rw : Option Addr) (q : Seq)
    (hi : Inv s) (e : fraud s au ra h rev (some a) rw = .ok s') (hq : getSeq s a = some q)
    (hne : q.rollapp ≠ ra) :
    (∀ id, id ≠ ra → getRa s' id = getRa s id) ∧
    (∀ ra', ra' ≠ ra → s'.queue.filter (·.ra == ra') = s.queue.filter (·.ra == ra')) ∧
    (∀ pr ∈ s.seqH, ∀ q0, getSeq s pr.1 = some q0 → q0.rollapp ≠ ra → pr ∈ s'.seqH) ∧
    s'.seqH.Sublist s.seqH ∧
    getSeq s' a = some { q with tokens := 0 } ∧
    (∀ b q0, b ≠ a → getSeq s b = some q0 → q0.rollapp ≠ ra → getSeq s' b = some q0) ∧
    (∀ b, b ≠ a → (getSeq s' b).map (·.tokens) = (getSeq s b).map (·.tokens)) ∧
    (∀ ev ∈ s.lev, ev.2 ≠ ra → ev ∈ s'.lev) ∧ (∀ ev ∈ s'.lev, ev ∈ s.lev) ∧
    (∀ x ∈ s.nq, ∀ q0, getSeq s x.2 = some q0 → q0.rollapp ≠ ra → x ∈ s'.nq) ∧ (∀ x ∈ s'.nq, x ∈ s.nq) ∧
    s'.h = s.h ∧ s'.t = s.t ∧ s'.p = s.p ∧ s'.obsolete = s.obsolete ∧
    Punished s s' a rw (punishShare rw) := by
  obtain ⟨_, _, r, s1, hg, _, hp, nm, hg1, hfk⟩ := fraud_mid e
  have hp : punish s a rw = .ok s1 := hp
  have hi1 : Inv s1 := punish_inv hi hp
  obtain ⟨_, ⟨q', hq', hq1⟩, hoth⟩ := punish_x hp
  rw [hq] at hq'; injection hq' with hq'; subst hq'
  obtain ⟨r0, keep, kst, hg0, _, _, _, hplan, _⟩ := hardFork_ok_elim hfk
  rw [hg1] at hg0; injection hg0 with hg0; subst hg0
  have fr := C03.fork_frame s1 s' ra (h - 1) keep r kst hg1 hplan hfk
  have fo := C03.fork_other_rollapps_untouched s1 s' ra (h - 1) keep r kst hi1 hg1 hplan hfk
  have fq := C03.fork_queue_pruned s1 s' ra (h - 1) keep r kst hg1 hplan hfk
  have fl := C03.fork_liability_pruned s1 s' ra (h - 1) keep r kst hg1 hplan hfk
  -- every sequencer record keeps its rollapp across the punishment
  have hsame : ∀ b q0, getSeq s b = some q0 → ∃ q1, getSeq s1 b = some q1 ∧ q1.rollapp = q0.rollapp := by
    intro b q0 hb
    by_cases hba : b = a
    · subst hba
      rw [hq] at hb; injection hb with hb; subst hb
      exact ⟨_, hq1, rfl⟩
    · exact ⟨q0, by rw [hoth b hba]; exact hb, rfl⟩
  have hpun : Punished s s' a rw (punishShare rw) := by
    rcases fraud_cases e with ⟨hn, _⟩ | ⟨a', ha', hP⟩
    · cases hn
    · injection ha' with ha'; subst ha'; exact hP
  refine ⟨?_, ?_, ?_, ?_, ?_, ?_, hpun.others, ?_, ?_, ?_, ?_, ?_, ?_, ?_, ?_, hpun⟩
  · intro id hid
    rw [fr.1 id hid, getRa_congr nm.ras]
  · intro ra' hra'
    rw [fq.2.2.2.1 ra' hra', nm.queue]
  · intro pr hpr q0 hq0 hq0r
    obtain ⟨q1, hq1', hq1r⟩ := hsame pr.1 q0 hq0
    exact fo.2 pr (by rw [nm.seqH]; exact hpr) q1 hq1' (by rw [hq1r]; exact hq0r)
  · have := fl.2.2.2; rw [nm.seqH] at this; exact this
  · exact fo.1 a _ hq1 hne
  · intro b q0 hba hb hbr
    exact fo.1 b q0 (by rw [hoth b hba]; exact hb) hbr
  · intro ev hev hevr
    rw [fr.2.2.2.2.1, nm.lev]
    unfold delEvent
    refine List.mem_filter.2 ⟨hev, ?_⟩
    have : (ev.2 == ra) = false := by simp [hevr]
    simp [this]
  · intro ev hev
    rw [fr.2.2.2.2.1, nm.lev] at hev
    unfold delEvent at hev
    exact (List.mem_filter.1 hev).1
  · intro x hx q0 hq0 hq0r
    refine fr.2.2.2.2.2.2.1 x (by rw [nm.nq]; exact hx) ?_
    intro hc
    obtain ⟨q1, hq1', hq1r⟩ := hsame x.2 q0 hq0
    obtain ⟨q2, hq2, hq2r⟩ := (hi1.j.prop ra r hg1).1 x.2 hc
    rw [hq1'] at hq2; injection hq2 with hq2; subst hq2
    exact hq0r (by rw [← hq1r, hq2r]; exact getRa_id hg1)
  · intro x hx
    have := fr.2.2.2.2.2.1 x hx
    rw [nm.nq] at this; exact this
  · rw [fr.2.2.2.2.2.2.2.1, nm.h]
  · rw [fr.2.2.2.2.2.2.2.2.1, nm.t]
  · rw [fr.2.2.2.2.2.2.2.2.2.1, nm.p]
  · rw [fr.2.2.2.2.2.2.2.2.2.2.2.2.2, nm.obsolete]

/-- `fraud_other_rollapps` for every reachable state: no hypothesis on the state left. -/
theorem fraud_other_rollapps_run (p : Params) (ops : List Op) (s' : St) (au : Bool) (ra h rev : Nat) (a : Addr)
    (rw : Option Addr) (q : Seq) (e : fraud (run p ops) au ra h rev (some a) rw = .ok s')
    (hq : getSeq (run p ops) a = some q) (hne : q.rollapp ≠ ra) :
    (∀ id, id ≠ ra → getRa s' id = getRa (run p ops) id) ∧
    (∀ ra', ra' ≠ ra → s'.queue.filter (·.ra == ra') = (run p ops).queue.filter (·.ra == ra')) ∧
    (∀ pr ∈ (run p ops).seqH, ∀ q0, getSeq (run p ops) pr.1 = some q0 → q0.rollapp ≠ ra → pr ∈ s'.seqH) ∧
    s'.seqH.Sublist (run p ops).seqH ∧
    getSeq s' a = some { q with tokens := 0 } ∧
    (∀ b q0, b ≠ a → getSeq (run p ops) b = some q0 → q0.rollapp ≠ ra → getSeq s' b = some q0) ∧
    (∀ b, b ≠ a → (getSeq s' b).map (·.tokens) = (getSeq (run p ops) b).map (·.tokens)) ∧
    (∀ ev ∈ (run p ops).lev, ev.2 ≠ ra → ev ∈ s'.lev) ∧ (∀ ev ∈ s'.lev, ev ∈ (run p ops).lev) ∧
    (∀ x ∈ (run p ops).nq, ∀ q0, getSeq (run p ops) x.2 = some q0 → q0.rollapp ≠ ra → x ∈ s'.nq) ∧
    (∀ x ∈ s'.nq, x ∈ (run p ops).nq) ∧
    s'.h = (run p ops).h ∧ s'.t = (run p ops).t ∧ s'.p = (run p ops).p ∧ s'.obsolete = (run p ops).obsolete ∧
    Punished (run p ops) s' a rw (punishShare rw) :=
  fraud_other_rollapps _ s' au ra h rev a rw q (Fork.run_inv p ops) e hq hne

/-- **A punished proposer of another rollapp stays proposer, with a bond of 0.**  If the sequencer a
    fraud proposal against rollapp `ra` punishes is the PROPOSER of another rollapp `id1`, then after
    the accepted proposal rollapp `id1`'s record is literally the same — the punished address is still
    its proposer — and the sequencer's record differs only in `tokens = 0` (same `bonded`, `optedIn`,
    `notice`): nothing removes it from the role, elects a replacement or forks `id1`.  (The same holds
    for a punished successor.)  This is what the Go code does: `PunishSequencer` slashes the whole bond
    and writes the record back; unlike `TryKickProposer` / `OnHardFork` it does not touch the roles. -/
theorem fraud_punished_foreign_proposer_stays (s s' : St) (au : Bool) (ra h rev : Nat) (a : Addr)
    (rw : Option Addr) (hi : Inv s) (e : fraud s au ra h rev (some a) rw = .ok s') (id1 : Nat) (r1 : Rollapp)
    (hg1 : getRa s id1 = some r1) (hid : id1 ≠ ra) (hp : r1.proposer = some a ∨ r1.successor = some a) :
    ∃ q, getSeq s a = some q ∧ q.rollapp = id1 ∧ getRa s' id1 = some r1 ∧
      getSeq s' a = some { q with tokens := 0 } := by
  have hpq := hi.j.prop id1 r1 hg1
  obtain ⟨q, hq, hqr⟩ : SeqOf s a r1.id := by
    rcases hp with hp | hp
    · exact hpq.1 a hp
    · exact hpq.2 a hp
  have hqr' : q.rollapp = id1 := hqr.trans (getRa_id hg1)
  have h := fraud_other_rollapps s s' au ra h rev a rw q hi e hq (by rw [hqr']; exact hid)
  exact ⟨q, hq, hqr', by rw [h.1 id1 hid]; exact hg1, h.2.2.2.2.1⟩

/-- `fraud_punished_foreign_proposer_stays` for every reachable state -/
theorem fraud_punished_foreign_proposer_stays_run (p : Params) (ops : List Op) (s' : St) (au : Bool)
    (ra h rev : Nat) (a : Addr) (rw : Option Addr) (e : fraud (run p ops) au ra h rev (some a) rw = .ok s')
    (id1 : Nat) (r1 : Rollapp) (hg1 : getRa (run p ops) id1 = some r1) (hid : id1 ≠ ra)
    (hp : r1.proposer = some a ∨ r1.successor = some a) :
    ∃ q, getSeq (run p ops) a = some q ∧ q.rollapp = id1 ∧ getRa s' id1 = some r1 ∧
      getSeq s' a = some { q with tokens := 0 } :=
  fraud_punished_foreign_proposer_stays _ s' au ra h rev a rw (Fork.run_inv p ops) e id1 r1 hg1 hid hp

-- ================================================================ (c) the refusal of a fork without states

/-- **Fork of a rollapp without any recorded state: the exact error, per guard** (`hardFork` checks,
    in this order: rollapp known; genesis bridge done and not above the last valid height; `lv + 1`
    does not overflow uint64; the revert plan — which reports "no state").  So with `states = []`:
    `forkNotAllowed` when `tph = 0 ∨ lv < tph`; else `invalid` when `(lv + 1) % 2 ^ 64 = 0`; else
    `noState`.  (Remark, not a theorem of this file: in histories of M-Core a rollapp without states
    has `tph = 0` — the `bridge` op needs a latest height and a fork never empties the state list — so
    there the first case applies, see the `decide` example at the end; the other two cases pin the
    guard order on any record.) -/
theorem fork_refused_no_state_named (s : St) (ra lv : Nat) (r : Rollapp) (hg : getRa s ra = some r)
    (hs : r.states = []) :
    (r.tph = 0 ∨ lv < r.tph → hardFork s ra lv = .error .forkNotAllowed) ∧
    (0 < r.tph → r.tph ≤ lv → (lv + 1) % 2 ^ 64 = 0 → hardFork s ra lv = .error .invalid) ∧
    (0 < r.tph → r.tph ≤ lv → (lv + 1) % 2 ^ 64 ≠ 0 → hardFork s ra lv = .error .noState) := by
  refine ⟨C03.fork_refused_before_genesis_bridge s ra lv r hg, ?_, ?_⟩
  · intro h1 h2 h3
    unfold hardFork; rw [hg]
    dsimp only
    rw [if_neg (by simp; omega), if_pos h3]
  · intro h1 h2 h3
    unfold hardFork; rw [hg]
    dsimp only
    rw [if_neg (by simp; omega), if_neg h3, revertPlan_noState hs]

/-- the same as one equation -/
theorem fork_refused_no_state_error (s : St) (ra lv : Nat) (r : Rollapp) (hg : getRa s ra = some r)
    (hs : r.states = []) :
    hardFork s ra lv = .error (if r.tph = 0 ∨ lv < r.tph then Err.forkNotAllowed
      else if (lv + 1) % 2 ^ 64 = 0 then Err.invalid else Err.noState) := by
  have h := fork_refused_no_state_named s ra lv r hg hs
  by_cases h1 : r.tph = 0 ∨ lv < r.tph
  · rw [if_pos h1]; exact h.1 h1
  · rw [if_neg h1]
    have h2 : 0 < r.tph ∧ r.tph ≤ lv := by omega
    by_cases h3 : (lv + 1) % 2 ^ 64 = 0
    · rw [if_pos h3]; exact h.2.1 h2.1 h2.2 h3
    · rw [if_neg h3]; exact h.2.2 h2.1 h2.2 h3

/-- a fraud proposal against a rollapp without states: which error the op reports, per guard of the
    handler (authority; `h = 0`; rollapp known; revision; punishment; then the fork's own guards) -/
theorem fraud_refused_no_state_named (s : St) (ra h rev : Nat) (rw : Option Addr) (r : Rollapp)
    (hg : getRa s ra = some r) (hs : r.states = []) (hh : h ≠ 0) (hrev : revForHeight r h = rev) :
    fraud s true ra h rev none rw = .error (if r.tph = 0 ∨ h - 1 < r.tph then Err.forkNotAllowed
      else if h % 2 ^ 64 = 0 then Err.invalid else Err.noState) := by
  have := fork_refused_no_state_error s ra (h - 1) r hg hs
  rw [show h - 1 + 1 = h by omega] at this
  unfold fraud
  simp only [Bool.not_true, Bool.false_eq_true, if_false, hh, hg]
  rw [if_neg (by simp [hrev])]
  exact this

-- ================================================================ non-vacuity

open DymVerif.C03 in
/-- rollapp 0 (sequencers 1 = proposer, 2) is forked at height 5 by a proposal that punishes
    sequencer 3 — the PROPOSER of rollapp 1 — with sequencer 2 as rewardee -/
def exForeign : St := run exParams (exPre ++ [.fraud true 0 5 0 (some 3) (some 2)])

def exSeqs (s : St) : List (Nat × Nat × Bool × Bool × Nat) :=
  s.seqs.map fun q => (q.addr, q.rollapp, q.bonded, q.optedIn, q.tokens)

open DymVerif.C03 in
-- before: three bonded opted-in sequencers with 10 tokens each; 3 is the proposer of rollapp 1
example : exSeqs (run exParams exPre) = [(1, 0, true, true, 10), (2, 0, true, true, 10), (3, 1, true, true, 10)] ∧
    exProposers (run exParams exPre) = [some 1, some 3] ∧ (run exParams exPre).modBal = 30 ∧
    (run exParams exPre).burned = 0 ∧ getBal (run exParams exPre).bal 2 = 90 := by decide
open DymVerif.C03 in
-- after: the proposal is accepted; rollapp 0 is forked (state 2 truncated, proposer 1 removed and
-- unbonded, 1 and 2 opted out); rollapp 1 is untouched — states, revisions, queue entry, liabilities —
-- and sequencer 3 is STILL its proposer, still bonded and opted in, with 0 tokens; 5 went to the
-- rewardee, 5 were burned
example : exStates exForeign = [[(1, 3, 1), (4, 1, 1)], [(1, 2, 3)]] ∧
    exRevs exForeign = [[(0, 0), (1, 5)], [(0, 0)]] ∧ exProposers exForeign = [none, some 3] ∧
    exQueue exForeign = [(1, 0, [1, 2]), (1, 1, [1])] ∧
    exForeign.seqH = [(1, 1), (1, 2), (1, 3), (1, 4), (3, 1), (3, 2)] ∧
    exSeqs exForeign = [(1, 0, false, false, 10), (2, 0, true, false, 10), (3, 1, true, true, 0)] ∧
    exForeign.modBal = 20 ∧ exForeign.burned = 5 ∧ getBal exForeign.bal 2 = 95 := by decide
open DymVerif.C03 in
-- the punished proposer of rollapp 1, holding no bond, still posts the next update of rollapp 1
example : (step exForeign (exUpd 1 3 3 1 0)).2 = none := by decide
open DymVerif.C03 in
-- (a) non-vacuity: after finalization of both states of rollapp 0 a proposal at height 6 (inside the
-- finalized state 4–6) is refused although it names a sequencer to punish — nobody is punished
example : (step exFin (.fraud true 0 6 0 (some 3) none)).2 = some .finalizedHeight ∧
    (step exFin (.fraud true 0 6 0 (some 3) none)).1.seqs = exFin.seqs := by decide
open DymVerif.C03 in
-- (c) non-vacuity: rollapp without states: no genesis bridge, so `forkNotAllowed`
example : (step (run exParams [.createRollapp 0 9 10]) (.fraud true 0 3 0 none none)).2 = some .forkNotAllowed := by decide
-- (c) the other two guard outcomes, on a hand-made record (states = [], tph = 1)
def errOf (x : M St) : Option Err := match x with | .error e => some e | .ok _ => none
def exEmpty (tph : Nat) : St := { init C03.exParams with ras := [{ newRollapp 0 9 10 with tph := tph }] }
example : errOf (hardFork (exEmpty 1) 0 4) = some .noState ∧
    errOf (hardFork (exEmpty 1) 0 (2 ^ 64 - 1)) = some .invalid ∧
    errOf (hardFork (exEmpty 5) 0 4) = some .forkNotAllowed := by decide

end DymVerif.C03X
