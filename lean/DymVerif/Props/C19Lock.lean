/-
  Props/C19Lock — C19 for the lockup scans that the hub CALLS and the first two passes left unproved:
  `LockIterator`, `LockIteratorAfterTime` (module balance), `AccountLockIteratorAfterTime`
  (`GetAccountUnlockingCoins`, `GetAccountLockedCoins`, `GetAccountLockedPastTime`),
  `AccountLockIteratorLongerDuration` (`GetAccountLockedLongerDuration…`),
  `AccountLockIteratorAfterTimeDenom`, `AccountLockIteratorLongerDurationDenom`
  (`GetAccountLockedPastTimeDenom`, `GetAccountLockedLongerDurationDenom`),
  `AccountLockIteratorDurationDenom` (`GetAccountLockedDurationNotUnlockingOnly`).
  Owners: any bytes (also 0xFF), equal address length; denoms: non-empty, no byte 0xFF.
-/
import DymVerif.Props.C19
import DymVerif.Lemmas.KeysLock
namespace DymVerif.C19
open DymVerif DymVerif.Keys

theorem unlockingPrefix_wf (u : Bool) : Bytes.WF (unlockingPrefix u) := by
  cases u <;> (intro x hx; simp [unlockingPrefix] at hx; omega)

/-- `LockIterator(u)` (the module-balance scan of not-unlocking locks): every family-0x07 entry of the
    same unlocking status and none of the other status -/
theorem lockup_all_locks_scan_exact (u u' : Bool) (d : Int) (id : Nat) :
    isPrefix (iterPrefix (lkFamilyPrefix u 7 [])).1 (lockRefStoreKey u' (combineKeys [[7], lkDurationKey d]) id)
      = decide (u = u') := by
  cases u <;> cases u' <;> simp [iterPrefix, lkFamilyPrefix, lockRefStoreKey, combineKeys, unlockingPrefix, isPrefix]

/-- `LockIteratorAfterTime(T)` (the module-balance scan of unlocking locks): exactly the entries whose
    end time is strictly after `T` -/
theorem lockup_after_time_scan_exact (T t : TimeF) (id : Nat) (hT : T.InRange) (ht : t.InRange) :
    inRangeO (iterAfterTime (lkFamilyPrefix true 11 []) T).1 (iterAfterTime (lkFamilyPrefix true 11 []) T).2
      (lockRefStoreKey true (combineKeys [[11], lkTimeKey t]) id) = lexLt T.fields t.fields := by
  have hstart : prefixEnd (combineKeys [lkFamilyPrefix true 11 [], lkTimeKey T]) =
      some ([4, 255, 11] ++ [] ++ 255 :: incLast (lkTimeKey T)) := by
    have := prefixEnd_incLast [4, 255, 11, 255] (lkTimeKey T) (lkTimeKey_ne_nil T) (lkTimeKey_lt255 T hT)
    simpa [combineKeys, lkFamilyPrefix, unlockingPrefix] using this
  have hp : lkFamilyPrefix true 11 [] = [4, 255, 11] ++ [] := by simp [lkFamilyPrefix, combineKeys, unlockingPrefix]
  have hk : lockRefStoreKey true (combineKeys [[11], lkTimeKey t]) id =
      [4, 255, 11] ++ [] ++ 255 :: (lkTimeKey t ++ 255 :: be64 id) := by
    simp [lockRefStoreKey, combineKeys, unlockingPrefix]
  simp only [iterAfterTime, hstart, Option.getD_some, hk]
  rw [hp, eqlen_tail_range [4, 255, 11] [] [] _ _ rfl (by intro x hx; simp at hx; omega) (by intro x hx; simp at hx)]
  simp [lexLe, timeKey_tail_lt T t hT ht]

/-- `AccountLockIteratorAfterTime(A, T)`: exactly owner `A` and end time strictly after `T` -/
theorem lockup_account_after_time_scan_exact (A B : Bytes) (T t : TimeF) (id : Nat)
    (hl : A.length = B.length) (hB : Bytes.WF B) (hT : T.InRange) (ht : t.InRange) :
    inRangeO (iterAfterTime (lkFamilyPrefix true 12 [A]) T).1 (iterAfterTime (lkFamilyPrefix true 12 [A]) T).2
      (lockRefStoreKey true (combineKeys [[12], B, lkTimeKey t]) id) =
      (decide (B = A) && lexLt T.fields t.fields) := by
  have hstart : prefixEnd (combineKeys [lkFamilyPrefix true 12 [A], lkTimeKey T]) =
      some ([4, 255, 12, 255] ++ A ++ 255 :: incLast (lkTimeKey T)) := by
    have := prefixEnd_incLast ([4, 255, 12, 255] ++ A ++ [255]) (lkTimeKey T) (lkTimeKey_ne_nil T) (lkTimeKey_lt255 T hT)
    simpa [combineKeys, lkFamilyPrefix, unlockingPrefix] using this
  have hp : lkFamilyPrefix true 12 [A] = [4, 255, 12, 255] ++ A := by simp [lkFamilyPrefix, combineKeys, unlockingPrefix]
  have hk : lockRefStoreKey true (combineKeys [[12], B, lkTimeKey t]) id =
      [4, 255, 12, 255] ++ B ++ 255 :: (lkTimeKey t ++ 255 :: be64 id) := by
    simp [lockRefStoreKey, combineKeys, unlockingPrefix]
  simp only [iterAfterTime, hstart, Option.getD_some, hk]
  rw [hp, eqlen_tail_range [4, 255, 12, 255] A B _ _ hl (by intro x hx; simp at hx; omega) hB]
  simp [lexLe, timeKey_tail_lt T t hT ht]

/-- `AccountLockIteratorLongerDuration(u, A, d)`: exactly owner `A` and duration `≥ d` -/
theorem lockup_account_longer_duration_scan_exact (u : Bool) (A B : Bytes) (d d' : Int) (id : Nat)
    (hl : A.length = B.length) (hB : Bytes.WF B) (h0 : 0 ≤ d) (h0' : 0 ≤ d') (h : d < 2 ^ 63) (h' : d' < 2 ^ 63) :
    inRangeO (iterLongerDuration (lkFamilyPrefix u 8 [A]) d).1 (iterLongerDuration (lkFamilyPrefix u 8 [A]) d).2
      (lockRefStoreKey u (combineKeys [[8], B, lkDurationKey d']) id) = (decide (B = A) && decide (d ≤ d')) := by
  have hp : lkFamilyPrefix u 8 [A] = (unlockingPrefix u ++ [255, 8, 255]) ++ A := by simp [lkFamilyPrefix, combineKeys]
  have hstart : combineKeys [lkFamilyPrefix u 8 [A], lkDurationKey d] =
      (unlockingPrefix u ++ [255, 8, 255]) ++ A ++ 255 :: lkDurationKey d := by simp [combineKeys, lkFamilyPrefix]
  have hk : lockRefStoreKey u (combineKeys [[8], B, lkDurationKey d']) id =
      (unlockingPrefix u ++ [255, 8, 255]) ++ B ++ 255 :: (lkDurationKey d' ++ 255 :: be64 id) := by
    simp [lockRefStoreKey, combineKeys]
  have hQ : Bytes.WF (unlockingPrefix u ++ [255, 8, 255]) := by
    intro x hx
    rcases List.mem_append.mp hx with h1 | h1
    · exact unlockingPrefix_wf u x h1
    · simp at h1; omega
  simp only [iterLongerDuration, hstart, hk]
  rw [hp, eqlen_tail_range _ A B _ _ hl hQ hB, durKey_tail_le d d' h0 h0' (by omega) (by omega)]

/-- `AccountLockIteratorAfterTimeDenom(A, denom, T)`: exactly owner `A`, exactly that denom (also when
    one denom extends the other), end time strictly after `T` -/
theorem lockup_account_denom_after_time_scan_exact (A B dn dn' : Bytes) (T t : TimeF) (id : Nat)
    (hl : A.length = B.length) (hne : dn ≠ []) (hd : ∀ c ∈ dn, c < 255) (hd' : ∀ c ∈ dn', c < 255)
    (hT : T.InRange) (ht : t.InRange) :
    inRangeO (iterAfterTime (lkFamilyPrefix true 14 [A, dn]) T).1 (iterAfterTime (lkFamilyPrefix true 14 [A, dn]) T).2
      (lockRefStoreKey true (combineKeys [[14], B, dn', lkTimeKey t]) id) =
      (decide (B = A) && (decide (dn' = dn) && lexLt T.fields t.fields)) := by
  have hstart : prefixEnd (combineKeys [lkFamilyPrefix true 14 [A, dn], lkTimeKey T]) =
      some ([4, 255, 14, 255] ++ (A ++ 255 :: (dn ++ 255 :: incLast (lkTimeKey T)))) := by
    have := prefixEnd_incLast ([4, 255, 14, 255] ++ A ++ [255] ++ dn ++ [255]) (lkTimeKey T) (lkTimeKey_ne_nil T) (lkTimeKey_lt255 T hT)
    simpa [combineKeys, lkFamilyPrefix, unlockingPrefix] using this
  have hend : prefixEnd (lkFamilyPrefix true 14 [A, dn]) = some ([4, 255, 14, 255] ++ (A ++ 255 :: incLast dn)) := by
    have := prefixEnd_incLast ([4, 255, 14, 255] ++ A ++ [255]) dn hne hd
    simpa [combineKeys, lkFamilyPrefix, unlockingPrefix] using this
  have hk : lockRefStoreKey true (combineKeys [[14], B, dn', lkTimeKey t]) id =
      [4, 255, 14, 255] ++ (B ++ 255 :: (dn' ++ 255 :: (lkTimeKey t ++ 255 :: be64 id))) := by
    simp [lockRefStoreKey, combineKeys, unlockingPrefix]
  simp only [iterAfterTime, inRangeO, hstart, hend, hk, Option.getD_some]
  have e0 := inRange_prefix [4, 255, 14, 255] (A ++ 255 :: (dn ++ 255 :: incLast (lkTimeKey T))) (A ++ 255 :: incLast dn)
    (B ++ 255 :: (dn' ++ 255 :: (lkTimeKey t ++ 255 :: be64 id)))
  simp only [inRange] at e0
  rw [e0]
  have e1 := eqlen_head_range A B (255 :: (dn ++ 255 :: incLast (lkTimeKey T))) (255 :: incLast dn)
    (255 :: (dn' ++ 255 :: (lkTimeKey t ++ 255 :: be64 id))) hl
  simp only [inRange] at e1
  rw [e1]
  have e2 := inRange_prefix [255] (dn ++ 255 :: incLast (lkTimeKey T)) (incLast dn) (dn' ++ 255 :: (lkTimeKey t ++ 255 :: be64 id))
  simp only [inRange, List.singleton_append] at e2
  rw [e2]
  have e := sepmax_range dn dn' (incLast (lkTimeKey T)) (lkTimeKey t ++ 255 :: be64 id) hne hd hd'
  simp only [inRange] at e
  rw [e, lexLe, timeKey_tail_lt T t hT ht]; simp

/-- `AccountLockIteratorLongerDurationDenom(u, A, denom, d)`: exactly owner `A`, exactly that denom,
    duration `≥ d` -/
theorem lockup_account_denom_longer_duration_scan_exact (u : Bool) (A B dn dn' : Bytes) (d d' : Int) (id : Nat)
    (hl : A.length = B.length) (hne : dn ≠ []) (hd : ∀ c ∈ dn, c < 255) (hd' : ∀ c ∈ dn', c < 255)
    (h0 : 0 ≤ d) (h0' : 0 ≤ d') (h : d < 2 ^ 63) (h' : d' < 2 ^ 63) :
    inRangeO (iterLongerDuration (lkFamilyPrefix u 10 [A, dn]) d).1 (iterLongerDuration (lkFamilyPrefix u 10 [A, dn]) d).2
      (lockRefStoreKey u (combineKeys [[10], B, dn', lkDurationKey d']) id) =
      (decide (B = A) && (decide (dn' = dn) && decide (d ≤ d'))) := by
  have hstart : combineKeys [lkFamilyPrefix u 10 [A, dn], lkDurationKey d] =
      (unlockingPrefix u ++ [255, 10, 255]) ++ (A ++ 255 :: (dn ++ 255 :: lkDurationKey d)) := by
    simp [combineKeys, lkFamilyPrefix]
  have hend : prefixEnd (lkFamilyPrefix u 10 [A, dn]) =
      some ((unlockingPrefix u ++ [255, 10, 255]) ++ (A ++ 255 :: incLast dn)) := by
    have := prefixEnd_incLast (unlockingPrefix u ++ [255, 10, 255] ++ A ++ [255]) dn hne hd
    simpa [combineKeys, lkFamilyPrefix] using this
  have hk : lockRefStoreKey u (combineKeys [[10], B, dn', lkDurationKey d']) id =
      (unlockingPrefix u ++ [255, 10, 255]) ++ (B ++ 255 :: (dn' ++ 255 :: (lkDurationKey d' ++ 255 :: be64 id))) := by
    simp [lockRefStoreKey, combineKeys]
  simp only [iterLongerDuration, inRangeO, hstart, hend, hk]
  have e0 := inRange_prefix (unlockingPrefix u ++ [255, 10, 255]) (A ++ 255 :: (dn ++ 255 :: lkDurationKey d)) (A ++ 255 :: incLast dn)
    (B ++ 255 :: (dn' ++ 255 :: (lkDurationKey d' ++ 255 :: be64 id)))
  simp only [inRange] at e0
  rw [e0]
  have e1 := eqlen_head_range A B (255 :: (dn ++ 255 :: lkDurationKey d)) (255 :: incLast dn)
    (255 :: (dn' ++ 255 :: (lkDurationKey d' ++ 255 :: be64 id))) hl
  simp only [inRange] at e1
  rw [e1]
  have e2 := inRange_prefix [255] (dn ++ 255 :: lkDurationKey d) (incLast dn) (dn' ++ 255 :: (lkDurationKey d' ++ 255 :: be64 id))
  simp only [inRange, List.singleton_append] at e2
  rw [e2]
  have e := sepmax_range dn dn' (lkDurationKey d) (lkDurationKey d' ++ 255 :: be64 id) hne hd hd'
  simp only [inRange] at e
  rw [e, durKey_tail_le d d' h0 h0' (by omega) (by omega)]

/-- `AccountLockIteratorDurationDenom(u, A, denom, d)`: exactly owner `A`, that denom, that duration -/
theorem lockup_account_denom_duration_scan_exact (u : Bool) (A B dn dn' : Bytes) (d d' : Int) (id : Nat)
    (hl : A.length = B.length) (hd : ∀ c ∈ dn, c < 255) (hd' : ∀ c ∈ dn', c < 255)
    (h0 : 0 ≤ d) (h0' : 0 ≤ d') (h : d < 2 ^ 63) (h' : d' < 2 ^ 63) :
    isPrefix (iterDuration (lkFamilyPrefix u 10 [A, dn]) d).1
      (lockRefStoreKey u (combineKeys [[10], B, dn', lkDurationKey d']) id) =
      (decide (A = B) && (decide (dn = dn') && decide (d = d'))) := by
  have hk : lockRefStoreKey u (combineKeys [[10], B, dn', lkDurationKey d']) id =
      (unlockingPrefix u ++ [255, 10, 255]) ++ (B ++ 255 :: (dn' ++ 255 :: ((6 :: 255 :: be64 d'.toNat) ++ 255 :: be64 id))) := by
    simp [lockRefStoreKey, combineKeys, lkDurationKey_eq d' h0']
  have hp : combineKeys [lkFamilyPrefix u 10 [A, dn], lkDurationKey d] =
      (unlockingPrefix u ++ [255, 10, 255]) ++ (A ++ 255 :: (dn ++ 255 :: (6 :: 255 :: be64 d.toNat))) := by
    simp [lkFamilyPrefix, combineKeys, lkDurationKey_eq d h0]
  simp only [iterDuration, iterPrefix, hk, hp]
  rw [isPrefix_append_left, eqlen_isPrefix_head A B _ _ hl]
  have e1 : isPrefix (255 :: (dn ++ 255 :: (6 :: 255 :: be64 d.toNat)))
      (255 :: (dn' ++ 255 :: ((6 :: 255 :: be64 d'.toNat) ++ 255 :: be64 id))) =
      isPrefix (dn ++ 255 :: (6 :: 255 :: be64 d.toNat)) (dn' ++ 255 :: ((6 :: 255 :: be64 d'.toNat) ++ 255 :: be64 id)) := by
    simp [isPrefix]
  rw [e1, sep_isPrefix dn dn' _ _ hd hd', eqlen_isPrefix (6 :: 255 :: be64 d.toNat) (6 :: 255 :: be64 d'.toNat) _ (by simp [be64_length])]
  by_cases hdd : d = d'
  · subst hdd; simp
  · have : be64 d.toNat ≠ be64 d'.toNat := fun e => hdd (by
      have := be64_inj _ _ (by omega) (by omega) e; omega)
    simp [hdd, this]

-- non-vacuity: a 20-byte owner with 0xFF bytes, denoms that extend one another
example : inRangeO (iterLongerDuration (lkFamilyPrefix false 10 [List.replicate 20 255, [112, 47, 49]]) 5).1
    (iterLongerDuration (lkFamilyPrefix false 10 [List.replicate 20 255, [112, 47, 49]]) 5).2
    (lockRefStoreKey false (combineKeys [[10], List.replicate 20 255, [112, 47, 49], lkDurationKey 7]) 3) = true ∧
  inRangeO (iterLongerDuration (lkFamilyPrefix false 10 [List.replicate 20 255, [112, 47, 49]]) 5).1
    (iterLongerDuration (lkFamilyPrefix false 10 [List.replicate 20 255, [112, 47, 49]]) 5).2
    (lockRefStoreKey false (combineKeys [[10], List.replicate 20 255, [112, 47, 49, 48], lkDurationKey 7]) 3) = false := by decide

end DymVerif.C19

namespace DymVerif.C19
open DymVerif DymVerif.Keys

/-! ### families and unlocking status do not mix -/

/-- every reference key of a lock starts with its family byte 0x07..0x0E and the separator -/
theorem lock_ref_keys_family (l : LockK) (k : Bytes) (hk : k ∈ lockRefKeys l) :
    ∃ f rest, k = f :: 255 :: rest ∧ 7 ≤ f ∧ f ≤ 14 := by
  rcases (lock_ref_keys_mem l k).mp hk with h | h | ⟨dn, _, h | h⟩ | h | h | ⟨dn, _, h | h⟩ <;>
    (subst h; simp only [combineKeys, List.cons_append, List.nil_append]) <;>
    exact ⟨_, _, rfl, by omega, by omega⟩

/-- a prefix scan of family `f` under unlocking status `u` (whatever owner / denom components follow)
    matches a stored reference key only of the same family and the same status -/
theorem lockup_family_prefix_disjoint (u u' : Bool) (f f' : Nat) (comps : List Bytes) (rest : Bytes) (id : Nat)
    (h : isPrefix (lkFamilyPrefix u f comps) (lockRefStoreKey u' (f' :: 255 :: rest) id) = true) :
    u = u' ∧ f = f' := by
  cases comps with
  | nil => cases u <;> cases u' <;>
      simp [lkFamilyPrefix, combineKeys, unlockingPrefix, lockRefStoreKey, isPrefix] at h ⊢ <;> omega
  | cons c cs => cases u <;> cases u' <;>
      simp [lkFamilyPrefix, combineKeys, unlockingPrefix, lockRefStoreKey, isPrefix] at h ⊢ <;> omega

/-- the range scans bounded above by `PrefixEndBytes(prefix)` (`iteratorAfterTime`,
    `iteratorLongerDuration`, `iteratorDuration`, `iterator`) return only keys that carry the prefix —
    hence, by `lockup_family_prefix_disjoint`, only keys of their own family and unlocking status -/
theorem lockup_scan_within_prefix (pfx s k : Bytes) (hk : Bytes.WF k)
    (h : inRangeO (pfx ++ s) (prefixEnd pfx) k = true) : isPrefix pfx k = true := by
  rw [← prefix_range_exact pfx k hk]
  simp only [inRangeO, Bool.and_eq_true] at h ⊢
  refine ⟨?_, h.2⟩
  cases hl : lexLt k pfx with
  | false => simp [lexLe, hl]
  | true =>
    have := lexLt_append_right k pfx s hl
    simp [lexLe, this] at h

end DymVerif.C19
