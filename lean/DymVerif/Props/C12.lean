/-
  Props/C12 — replicas executing the same blocks reach the same state (partial: logic proved,
  runtime observed).  In Lean every model step is a function, so determinism of the *models* is
  vacuous; the content of the property is the Go runtime's freedom (map iteration order, wall clock,
  process-local randomness, goroutines).  This file
   (1) proves, once and for all inputs, the pattern lemmas that make the iteration order of a map
       irrelevant for each way the production code uses one, with the order as an explicit,
       universally quantified permutation;
   (2) decides, over the site table regenerated from the source on every run (type-aware extractor
       /verif/sites), that every nondeterminism site of the production packages is covered by the
       reviewed allow-list below — a new `range` over a map, `time.Now`, `rand`, `go` or `select`
       in consensus code makes this theorem fail.
  The runtime part is observed by the harness (same history in several OS processes, full store
  digests and results compared after every block).
-/
import DymVerif.Gen.MapSites
namespace DymVerif.C12
open DymVerif.Det

-- ---------------------------------------------------------------- (1) pattern lemmas

/-- keys collected from a map in ANY order and then sorted give the same slice
    (`mapKeysToSlice`, `GetSortedStringKeys`, `InitializeAllLocks`, `Distinct`) -/
theorem sort_perm_invariant (keys keys' : List Nat) (h : keys'.Perm keys) :
    keys'.mergeSort (fun a b => decide (a ≤ b)) = keys.mergeSort (fun a b => decide (a ≤ b)) := by
  apply List.Perm.eq_of_pairwise (le := fun a b => decide (a ≤ b) = true)
  · intro a b _ _ h1 h2
    simp at h1 h2; omega
  · exact List.pairwise_mergeSort (fun a b c h1 h2 => by simp at *; omega) (fun a b => by simp; omega) _
  · exact List.pairwise_mergeSort (fun a b c h1 h2 => by simp at *; omega) (fun a b => by simp; omega) _
  · exact (List.mergeSort_perm _ _).trans (h.trans (List.mergeSort_perm _ _).symm)

theorem uniq_key_eq (recs : List (Nat × Nat)) (huniq : recs.Pairwise (fun a b => a.1 ≠ b.1)) :
    ∀ a b, a ∈ recs → b ∈ recs → a.1 = b.1 → a = b := by
  induction recs with
  | nil => intro a b ha; cases ha
  | cons x xs ih =>
    intro a b ha hb hab
    have hp := List.pairwise_cons.1 huniq
    rcases List.mem_cons.1 ha with h1 | h1 <;> rcases List.mem_cons.1 hb with h2 | h2
    · rw [h1, h2]
    · subst h1; exact absurd hab (hp.1 b h2)
    · subst h2; exact absurd hab.symm (hp.1 a h1)
    · exact ih hp.2 a b h1 h2 hab

/-- records keyed by a unique id, collected in ANY order and then sorted by that id, give the same
    slice (`UpdateDistrRecords`: map keyed by gauge id, `sort.SliceStable` by gauge id) -/
theorem sort_by_unique_key_perm_invariant (recs recs' : List (Nat × Nat)) (h : recs'.Perm recs)
    (huniq : recs.Pairwise (fun a b => a.1 ≠ b.1)) :
    recs'.mergeSort (fun a b => decide (a.1 ≤ b.1)) = recs.mergeSort (fun a b => decide (a.1 ≤ b.1)) := by
  have hu := uniq_key_eq recs huniq
  apply List.Perm.eq_of_pairwise (le := fun a b => decide (a.1 ≤ b.1) = true)
  · intro a b ha hb h1 h2
    have ha' : a ∈ recs := h.subset ((List.mergeSort_perm _ _).subset ha)
    have hb' : b ∈ recs := (List.mergeSort_perm _ _).subset hb
    simp at h1 h2
    exact hu a b ha' hb' (by omega)
  · exact List.pairwise_mergeSort (fun a b c h1 h2 => by simp at *; omega) (fun a b => by simp; omega) _
  · exact List.pairwise_mergeSort (fun a b c h1 h2 => by simp at *; omega) (fun a b => by simp; omega) _
  · exact (List.mergeSort_perm _ _).trans (h.trans (List.mergeSort_perm _ _).symm)

/-- a map-to-map copy / membership test does not depend on the enumeration order (`ModuleAccountAddrs`) -/
theorem membership_perm_invariant (keys keys' : List Nat) (h : keys'.Perm keys) (x : Nat) :
    x ∈ keys' ↔ x ∈ keys := h.mem_iff

/-- a commutative accumulation does not depend on the enumeration order -/
theorem commutative_fold_perm_invariant (xs xs' : List Nat) (h : xs'.Perm xs) : xs'.sum = xs.sum :=
  h.sum_nat

-- ---------------------------------------------------------------- (2) the reviewed allow-list

def allow : List Allowed := [
  -- app wiring, runs once at process start / CLI option assembly
  { kind := .maprange, file := "app/app.go", fn := "App.AutoCliOpts", reason := .appWiring },
  { kind := .maprange, file := "app/modules.go", fn := "ModuleAccountAddrs", reason := .membershipOnly },
  -- HTTP health-check handler, not consensus code
  { kind := .wallclock, file := "app/healthcheck.go", fn := "HealthcheckRequestHandlerFn", reason := .notConsensus },
  -- genesis export fallback when the context carries no block time (export is not block execution)
  { kind := .wallclock, file := "x/dymns/genesis.go", fn := "ExportGenesis", reason := .notConsensus },
  -- unique set collected from a map, sorted in a defer before returning  (sort_perm_invariant)
  { kind := .maprange, file := "x/dymns/types/reverse_resolved_dym_name_address.go", fn := "ReverseResolvedDymNameAddresses.Distinct", reason := .sortedAfter },
  { kind := .maprange, file := "x/dymns/utils/map.go", fn := "GetSortedStringKeys", reason := .sortedAfter },
  -- deterministic PRNG seeded by a message field: the shuffle is a function of (seed, list)
  { kind := .rand, file := "x/eibc/keeper/lps.go", fn := "Keeper.FulfillByOnDemandLP", reason := .notConsensus },
  -- event attributes only (events are not part of the app hash nor of the results hash)
  { kind := .maprange, file := "x/incentives/keeper/gauge_asset.go", fn := "RewardDistributionTracker.GetEvents", reason := .eventOnly },
  -- durations collected then sorted  (sort_perm_invariant)
  { kind := .maprange, file := "x/lockup/keeper/lock.go", fn := "Keeper.InitializeAllLocks", reason := .sortedAfter },
  -- proposer set of a hard fork: keys collected then sorted  (sort_perm_invariant)
  { kind := .maprange, file := "x/rollapp/keeper/hard_fork.go", fn := "mapKeysToSlice", reason := .sortedAfter },
  -- records from a map keyed by unique gauge id, then sorted by gauge id  (sort_by_unique_key_perm_invariant)
  { kind := .maprange, file := "x/streamer/keeper/keeper_replace_update_distribution.go", fn := "Keeper.UpdateDistrRecords", reason := .sortedAfter }
]

/-- **every nondeterminism site of the production packages is covered by the reviewed list**
    (re-decided on every run over the regenerated table) -/
theorem site_table_ok : covered Gen.MapSites.sites allow = true := by decide

/-- no goroutines and no `select` in the production packages at all -/
theorem no_goroutines : (Gen.MapSites.sites.filter fun s => s.kind == .go || s.kind == .select) = [] := by decide

/-- wall-clock reads only in the two non-consensus places -/
theorem wallclock_only_outside_consensus :
    ((Gen.MapSites.sites.filter fun s => s.kind == .wallclock).map (·.fn)).all
      (fun f => f == "HealthcheckRequestHandlerFn" || f == "ExportGenesis") = true := by decide

-- non-vacuity: the pattern lemma on a concrete permutation
example : [3, 1, 2].mergeSort (fun a b => decide (a ≤ b)) = [2, 3, 1].mergeSort (fun a b => decide (a ≤ b)) :=
  sort_perm_invariant [2, 3, 1] [3, 1, 2] (by decide)

end DymVerif.C12
