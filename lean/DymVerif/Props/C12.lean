/-
  Props/C12 — replicas executing the same blocks reach the same state (partial: logic proved,
  runtime observed).  In Lean every model step is a function, so determinism of the *models* is
  vacuous; the content of the property is the Go runtime's freedom (map iteration order, wall clock,
  process-local randomness, goroutines, floats, the environment, heap addresses).  This file
   (1) states, for every CLASS of site, that the executable model of its loop shape
       (Model/Determinism.lean) computes the same value for every enumeration order of the map —
       the order is an explicit, universally quantified permutation; keys of a map are unique
       (proofs in Lemmas/DetShapes.lean);
   (2) decides, over the site table regenerated from the source on every run (type-aware extractor
       /verif/sites, one row per SITE with its ordinal within the function), that every site is
       covered by exactly its own entry of the reviewed allow-list below, that the entry's reason is
       one the extracted loop class admits, and that every function has as many sites as entries —
       a second `range` over a map, a `rand.Intn`, a `time.Now`, a `%p` … added anywhere, an
       allow-listed function included, makes these theorems fail;
   (3) puts the two together: `every_site_order_independent`.
  The runtime part is observed by the harness (same history in several OS processes, full store
  digests, results and gas compared after every op).
-/
import DymVerif.Gen.MapSites
import DymVerif.Lemmas.DetShapes
namespace DymVerif.C12
open DymVerif.Det

-- ---------------------------------------------------------------- (1) one theorem per class of site

/-- `keysCollectedThenSorted` (`mapKeysToSlice`, `GetSortedStringKeys`, `InitializeAllLocks`) -/
theorem keys_collected_then_sorted (m₁ m₂ : Enum) (h : m₁.Perm m₂) :
    collectThenSort m₁ = collectThenSort m₂ :=
  collectThenSort_order_independent m₁ m₂ h

/-- values (filtered) collected, then sorted by the key of the map they came from
    (`UpdateDistrRecords`, `Distinct`): needs the keys to be unique — they are keys of a map -/
theorem values_sorted_by_map_key (keep : Nat × Nat → Bool) (m₁ m₂ : Enum) (hw : m₁.WF) (h : m₁.Perm m₂) :
    collectFilteredSortByKey keep m₁ = collectFilteredSortByKey keep m₂ :=
  collectFilteredSortByKey_order_independent keep m₁ m₂ hw h

/-- `membershipOnly` (`ModuleAccountAddrs`) -/
theorem membership_only (m₁ m₂ : Enum) (h : m₁.Perm m₂) (x : Nat) : memberTest m₁ x = memberTest m₂ x :=
  memberTest_order_independent m₁ m₂ h x

/-- `commutativeAccumulate` (no site of this class at the pinned tree) -/
theorem commutative_accumulate (m₁ m₂ : Enum) (h : m₁.Perm m₂) : foldComm m₁ = foldComm m₂ :=
  foldComm_order_independent m₁ m₂ h

/-- `seededFromTx` (`FulfillByOnDemandLP`): the shuffled order is a function of the message's seed and
    of the sorted candidate list — the same on every replica, however the candidates were enumerated -/
theorem seeded_shuffle_function_of_tx (prng : Nat → Nat → List Nat) (loc₁ loc₂ : Local) (txSeed : Nat)
    (m₁ m₂ : Enum) (h : m₁.Perm m₂) :
    seededShuffle prng .txField loc₁ txSeed (collectThenSort m₁) =
      seededShuffle prng .txField loc₂ txSeed (collectThenSort m₂) :=
  seededShuffle_order_independent prng loc₁ loc₂ txSeed m₁ m₂ h

/-- why the extractor insists on the origin of the seed: seeded from the wall clock (or from the
    global source) two replicas shuffle differently -/
theorem seeded_from_clock_counterexample :
    seededShuffle (fun s n => (List.range n).map (fun i => (i + s) % n)) .wallclock ⟨0, 0⟩ 7 [10, 20, 30] ≠
      seededShuffle (fun s n => (List.range n).map (fun i => (i + s) % n)) .wallclock ⟨1, 0⟩ 7 [10, 20, 30] := by
  decide

/-- the value every shape hands on is independent of the enumeration order … -/
theorem every_shape_order_independent (sh : Shape) (p : Params) (m₁ m₂ : Enum) (hw : m₁.WF) (h : m₁.Perm m₂) :
    sh.eval p m₁ = sh.eval p m₂ :=
  shape_order_independent sh p m₁ m₂ hw h

/-- … and of what is local to the replica -/
theorem every_shape_replica_independent (sh : Shape) (p : Params) (loc' : Local) (m : Enum) :
    sh.eval p m = sh.eval { p with loc := loc' } m :=
  shape_replica_independent sh p loc' m

/-- the two consumers whose sort key must be unique: uniqueness is DISCHARGED (the map is built by
    insertion, `mapOfList_wf`), not assumed -/
theorem update_distr_records_order_independent (old upd : List (Nat × Nat)) (e₁ e₂ : Enum)
    (h₁ : e₁.Perm (mapOfList (old ++ upd))) (h₂ : e₂.Perm (mapOfList (old ++ upd))) :
    updateDistrRecords e₁ = updateDistrRecords e₂ :=
  updateDistrRecords_order_independent old upd e₁ e₂ h₁ h₂

theorem distinct_addresses_order_independent (l : List Nat) (e₁ e₂ : Enum)
    (h₁ : e₁.Perm (mapOfList (l.map fun a => (a, a)))) (h₂ : e₂.Perm (mapOfList (l.map fun a => (a, a)))) :
    collectFilteredSortByKey (fun _ => true) e₁ = collectFilteredSortByKey (fun _ => true) e₂ :=
  distinct_order_independent l e₁ e₂ h₁ h₂

theorem module_account_addrs_order_independent (p₁ p₂ : Enum) (h : p₁.Perm p₂) (excl : List Nat) (x : Nat) :
    moduleAccountAddrs p₁ excl x = moduleAccountAddrs p₂ excl x :=
  moduleAccountAddrs_order_independent p₁ p₂ h excl x

-- ---------------------------------------------------------------- (2) the reviewed allow-list: ONE ENTRY PER SITE

def allow : List Allowed := [
  -- app wiring, runs once at process start / CLI option assembly
  { kind := .maprange, file := "app/app.go", fn := "App.AutoCliOpts", cls := "unknown", ord := 0, reason := .appWiring },
  -- HTTP health-check handler, not consensus code (two reads)
  { kind := .wallclock, file := "app/healthcheck.go", fn := "HealthcheckRequestHandlerFn", cls := "time.Now", ord := 0, reason := .notConsensus },
  { kind := .wallclock, file := "app/healthcheck.go", fn := "HealthcheckRequestHandlerFn", cls := "time.Now", ord := 1, reason := .notConsensus },
  -- map-to-map copy  (membership_only)
  { kind := .maprange, file := "app/modules.go", fn := "ModuleAccountAddrs", cls := "membership", ord := 0, reason := .membershipOnly },
  -- genesis export fallback when the context carries no block time (export is not block execution)
  { kind := .wallclock, file := "x/dymns/genesis.go", fn := "ExportGenesis", cls := "time.Now", ord := 0, reason := .notConsensus },
  -- values of a map keyed by the value's own string, sorted by that string in a defer  (values_sorted_by_map_key)
  { kind := .maprange, file := "x/dymns/types/reverse_resolved_dym_name_address.go", fn := "ReverseResolvedDymNameAddresses.Distinct", cls := "collectValues+sorted", ord := 0, reason := .sortedByUniqueKey },
  -- keys collected then sorted  (keys_collected_then_sorted)
  { kind := .maprange, file := "x/dymns/utils/map.go", fn := "GetSortedStringKeys", cls := "collectKeys+sorted", ord := 0, reason := .sortedAfter },
  -- deterministic PRNG seeded by a message field (extractor: the seed is a parameter that every
  -- production caller fills from a field of a proto `Msg…`)  (seeded_shuffle_function_of_tx)
  { kind := .rand, file := "x/eibc/keeper/lps.go", fn := "Keeper.FulfillByOnDemandLP", cls := "math/rand.New", ord := 0, reason := .seededFromTx },
  { kind := .rand, file := "x/eibc/keeper/lps.go", fn := "Keeper.FulfillByOnDemandLP", cls := "math/rand.NewSource seed=param<-msgField", ord := 1, reason := .seededFromTx },
  -- event attributes only (events are not part of the app hash nor of the results hash)
  { kind := .maprange, file := "x/incentives/keeper/gauge_asset.go", fn := "RewardDistributionTracker.GetEvents", cls := "collectValues", ord := 0, reason := .eventOnly },
  -- durations collected then sorted  (keys_collected_then_sorted)
  { kind := .maprange, file := "x/lockup/keeper/lock.go", fn := "Keeper.InitializeAllLocks", cls := "collectKeys+sorted", ord := 0, reason := .sortedAfter },
  -- proposer set of a hard fork: keys collected then sorted  (keys_collected_then_sorted)
  { kind := .maprange, file := "x/rollapp/keeper/hard_fork.go", fn := "mapKeysToSlice", cls := "collectKeys+sorted", ord := 0, reason := .sortedAfter },
  -- non-zero records of a map keyed by gauge id, then sorted by gauge id  (values_sorted_by_map_key)
  { kind := .maprange, file := "x/streamer/keeper/keeper_replace_update_distribution.go", fn := "Keeper.UpdateDistrRecords", cls := "collectFiltered+sorted", ord := 0, reason := .sortedByUniqueKey }
]

/-- **every nondeterminism site of the production packages is covered by its own reviewed entry**
    (kind, file, function, loop class, ordinal; re-decided on every run over the regenerated table) -/
theorem site_table_ok : covered Gen.MapSites.sites allow = true := by decide

/-- **every function has exactly as many extracted sites as allow entries** -/
theorem site_counts_match : countsMatch Gen.MapSites.sites allow = true := by decide

/-- … so ANY further site — whatever its kind, class and ordinal, inside an allow-listed function or
    not — breaks the table (for all sites, not only the ones tried) -/
theorem any_added_site_breaks_the_table (s : Site) : countsMatch (s :: Gen.MapSites.sites) allow = false :=
  added_site_breaks_counts Gen.MapSites.sites allow s site_counts_match

/-- the reason of every entry is one the extractor's classification of the source admits
    (`sortedAfter` only where it saw the collected slice being sorted, `seededFromTx` only where the
    seed comes from a message field, …) -/
theorem site_reasons_match_source : wellReasoned Gen.MapSites.sites allow = true := by decide

/-- no entry of the allow-list is stale -/
theorem allow_list_has_no_stale_entry :
    (allow.all fun a => Gen.MapSites.sites.any fun s => s.allowedBy a) = true := by decide

-- ---------------------------------------------------------------- (3) sites × shapes

/-- **for every extracted site**: it has a reviewed entry whose reason the source admits, and the
    value a loop of that reason's shape computes does not depend on the order in which the map is
    enumerated nor on anything local to the replica (`outside`: the site computes nothing that
    reaches consensus state — reviewed, not derived) -/
theorem every_site_order_independent :
    ∀ s ∈ Gen.MapSites.sites, ∃ a ∈ allow, s.allowedBy a = true ∧ a.reason.admits s.kind s.cls = true ∧
      ∀ (p : Params) (loc' : Local) (m₁ m₂ : Enum), m₁.WF → m₁.Perm m₂ →
        a.reason.shape.eval p m₁ = a.reason.shape.eval { p with loc := loc' } m₂ := by
  intro s hs
  obtain ⟨a, ha, h1, h2⟩ := wellReasoned_spec _ _ site_reasons_match_source s hs
  refine ⟨a, ha, h1, h2, ?_⟩
  intro p loc' m₁ m₂ hw h
  rw [shape_order_independent a.reason.shape p m₁ m₂ hw h]
  exact shape_replica_independent _ p loc' m₂

-- ---------------------------------------------------------------- kinds that do not occur at all

/-- no goroutines and no `select` in the production packages at all -/
theorem no_goroutines : (Gen.MapSites.sites.filter fun s => s.kind == .go || s.kind == .select) = [] := by decide

/-- no `maps.Keys` / `maps.Values` / `maps.All` (std or x/exp) -/
theorem no_mapkeys : (Gen.MapSites.sites.filter fun s => s.kind == .mapkeys) = [] := by decide

/-- no `reflect.Value.MapKeys` / `MapRange` -/
theorem no_reflectmap : (Gen.MapSites.sites.filter fun s => s.kind == .reflectmap) = [] := by decide

/-- no `(*sync.Map).Range` -/
theorem no_syncmap : (Gen.MapSites.sites.filter fun s => s.kind == .syncmap) = [] := by decide

/-- no float32 / float64 arithmetic outside CLI and simulation code -/
theorem no_float : (Gen.MapSites.sites.filter fun s => s.kind == .float) = [] := by decide

/-- no read of the process environment -/
theorem no_getenv : (Gen.MapSites.sites.filter fun s => s.kind == .getenv) = [] := by decide

/-- no `%p` and no capability pointer handed to a formatting call -/
theorem no_fmtptr : (Gen.MapSites.sites.filter fun s => s.kind == .fmtptr) = [] := by decide

/-- wall-clock reads (time.Now / Since / Until, cometbft's tmtime.Now, …) only in the two
    non-consensus places -/
theorem wallclock_only_outside_consensus :
    ((Gen.MapSites.sites.filter fun s => s.kind == .wallclock).map (·.fn)).all
      (fun f => f == "HealthcheckRequestHandlerFn" || f == "ExportGenesis") = true := by decide

/-- randomness only in the one seeded place, and nothing there but the seeded constructor pair -/
theorem rand_only_seeded_from_tx :
    ((Gen.MapSites.sites.filter fun s => s.kind == .rand).map (·.cls)) =
      ["math/rand.New", "math/rand.NewSource seed=param<-msgField"] := by decide

-- ---------------------------------------------------------------- non-vacuity

example : collectThenSort [(3, 0), (1, 0), (2, 0)] = collectThenSort [(2, 0), (3, 0), (1, 0)] :=
  keys_collected_then_sorted _ _ (by decide)

example : collectThenSort [(3, 0), (1, 0), (2, 0)] = [1, 2, 3] := by
  simp [collectThenSort, List.mergeSort, List.MergeSort.Internal.splitInTwo]

example : updateDistrRecords (mapOfList ([(1, 5), (2, 7), (3, 1)] ++ [(2, 0), (4, 9)])) = some [(1, 5), (3, 1), (4, 9)] := by
  simp [updateDistrRecords, mapOfList, mapInsert, collectFilteredSortByKey, List.mergeSort, List.MergeSort.Internal.splitInTwo]

/-- without unique keys the sort-by-key shape DOES depend on the order (so `WF` is not decoration) -/
example : collectFilteredSortByKey (fun _ => true) [(1, 5), (1, 6)] ≠ collectFilteredSortByKey (fun _ => true) [(1, 6), (1, 5)] := by
  simp [collectFilteredSortByKey, List.mergeSort, List.MergeSort.Internal.splitInTwo]

/-- the coarse key of the previous allow-list would have let this second, unsorted range through -/
example : countsMatch ({ kind := .maprange, file := "x/rollapp/keeper/hard_fork.go", fn := "mapKeysToSlice", cls := "unknown", ord := 1 } :: Gen.MapSites.sites) allow = false :=
  any_added_site_breaks_the_table _

end DymVerif.C12
