/-
  Props/C07X — what is (and what is NOT) true about the bond of a rollapp's proposer.

  Props/C07 proves that a real proposer is always a Bonded sequencer of its rollapp and that the
  proposer choice takes the highest-bonded Bonded ∧ opted-in sequencer.  Neither says how large that
  bond is.  This file states the facts explicitly, for the code as it is:

    * `chosen_proposer_bond` — whenever a proposer slot is (re)filled by the choice algorithm, the new
      proposer is Bonded, opted in, of that rollapp and has the MAXIMAL bond among the candidates of
      that moment.  That is the only bond guarantee there is.
    * NO positive lower bound follows, because a sequencer's bond can reach zero without its status
      leaving Bonded:
        - `punished_keeps_status`: `PunishSequencer` (fraud proposal) sets the bond to zero and changes
          nothing else — x/sequencer/keeper/fraud.go:103-125 (`PunishSequencer`) and :127-146 (`slash`)
          never call `unbond`; only `TryUnbond` (bond.go:42-44) unbonds at zero tokens;
        - `candidate_beats_sentinel`: a Bonded ∧ opted-in sequencer is preferred to the sentinel whatever
          its bond (rotation.go:125-144 `ProposerChoiceAlgo`: stable sort by tokens, sentinel appended
          last by `RollappPotentialProposers`, proposer.go:47-53, with zero tokens, sequencer.go:12-18);
        - `liveness_slash_keeps_proposer`: a liveness slash never removes the proposer, not even when it
          takes the whole bond.
      Counterexamples (concrete histories, by `decide`): `zero_bond_proposer_possible` (punished
      non-proposer opts in after the fork and is chosen), `zero_bond_proposer_by_liveness` (proposer
      slashed to zero keeps proposing), `zero_bond_proposer_by_foreign_fraud` (a fraud proposal against
      rollapp 1 names the proposer of rollapp 0 as the sequencer to punish),
      `zero_bond_proposer_by_punish_proposal` (the standalone governance punish proposal: no fork at
      all), and the summary
      `no_positive_bond_bound`.
-/
import DymVerif.Props.C07
import DymVerif.Lemmas.CoreXPunish
import DymVerif.Lemmas.CoreForkSpec
import DymVerif.Lemmas.CoreLevOwn
namespace DymVerif.C07X
open DymVerif DymVerif.Core DymVerif.Core.Roles DymVerif.Core.XPunish

-- ================================================================================================
-- the guarantee that holds
-- ================================================================================================

/-- **chosen_proposer_bond** — along every run with a valid parameter set: if an accepted operation
    makes `a` the proposer of rollapp `id` (it was not before), then either

    * it is the old proposer's LAST update and `a` is the successor recorded when the notice expired
      (itself the choice of that begin-block: `C07.successor_change_classified`), or
    * the slot was filled by the choice algorithm over the post-state (kick, sequencer creation,
      opt-in): `a` is Bonded, opted in, a sequencer of `id`, and NO Bonded opted-in sequencer of `id`
      has a larger bond (ties go to the smaller address).

    Nothing bounds the winning bond from below: the candidates may all have zero tokens
    (`zero_bond_proposer_possible`). -/
theorem chosen_proposer_bond (p : Params) (hp : 0 < p.noticePeriod) (ops : List Op) (o : Op) (s' : St)
    (id : Nat) (r r' : Rollapp) (a : Addr) (h : apply (run p ops) o = .ok s')
    (hr : getRa (run p ops) id = some r) (hr' : getRa s' id = some r') (hne : r'.proposer ≠ r.proposer)
    (hpa : r'.proposer = some a) :
    (∃ m, o = .update m ∧ m.last = true ∧ r.successor = some a) ∨
    (choose s' id = some a ∧ ∃ q, getSeq s' a = some q ∧ q.rollapp = id ∧ q.bonded = true ∧ q.optedIn = true ∧
      ∀ x ∈ s'.seqs, x.rollapp = id → x.bonded = true → x.optedIn = true →
        x.tokens ≤ q.tokens ∧ (x.tokens = q.tokens → q.addr ≤ x.addr)) := by
  have e1 : run p (ops ++ [o]) = s' := by
    have : run p (ops ++ [o]) = (step (run p ops) o).1 := by
      unfold run; rw [List.foldl_append]; rfl
    rw [this]; unfold step; rw [h]
  have fill : choose s' id = some a → ∃ q, getSeq s' a = some q ∧ q.rollapp = id ∧ q.bonded = true ∧ q.optedIn = true ∧
      ∀ x ∈ s'.seqs, x.rollapp = id → x.bonded = true → x.optedIn = true →
        x.tokens ≤ q.tokens ∧ (x.tokens = q.tokens → q.addr ≤ x.addr) := by
    intro hc
    have := C07.fill_chooses_max_bond p hp (ops ++ [o]) id a (by rw [e1]; exact hc)
    rw [e1] at this
    exact this
  rcases C07.proposer_change_classified p hp ops o s' id r r' h hr hr' hne with
    ⟨m, _, ho, _, hl, _, _, _, hs⟩ | ⟨_, _, _, _, _, _, _, _, _, _, _, _, _, hc, _⟩ | ⟨hn, _⟩ | ⟨_, hc, _, _⟩
  · exact Or.inl ⟨m, ho, hl, by rw [← hs]; exact hpa⟩
  · have hc' : choose s' id = some a := by rw [← hc]; exact hpa
    exact Or.inr ⟨hc', fill hc'⟩
  · rw [hn] at hpa; cases hpa
  · have hc' : choose s' id = some a := by rw [← hc]; exact hpa
    exact Or.inr ⟨hc', fill hc'⟩

-- ================================================================================================
-- why no positive lower bound follows
-- ================================================================================================

/-- **punished_keeps_status** — in ANY state: an accepted fraud proposal against rollapp `ra` naming
    `a` as the sequencer to punish leaves `a`'s record with ZERO tokens; its status is set to
    unbonded only if `a` was the proposer of the forked rollapp `ra` (the fork's abrupt removal), its
    opt-in flag is cleared only if it is a sequencer of `ra`; dishonor, notice and rollapp are as
    before.  So a punished sequencer that is not the proposer of `ra` is still Bonded — with a zero
    bond — and may opt in again (`MsgUpdateOptInStatus` only refuses once a notice has started). -/
theorem punished_keeps_status (s s' : St) (au : Bool) (ra hh rev : Nat) (a : Addr) (rw : Option Addr)
    (h : apply s (.fraud au ra hh rev (some a) rw) = .ok s') :
    ∃ q r, getSeq s a = some q ∧ getRa s ra = some r ∧
      getSeq s' a = some { q with tokens := 0,
                                  optedIn := if q.rollapp == ra then false else q.optedIn,
                                  bonded := if r.proposer = some a then false else q.bonded } := by
  simp only [apply] at h
  obtain ⟨_, _, r, s1, hg, _, hpun, hf⟩ := Fork.fraud_ok_elim h
  have hpun : punish s a rw = .ok s1 := hpun
  obtain ⟨q, hq, hq1, hras, _⟩ := XPunish.punish_record hpun
  have hg1 : getRa s1 ra = some r := by rw [LevNs.getRa_congr hras]; exact hg
  refine ⟨q, r, hq, hg, ?_⟩
  rw [Fork.hardFork_getSeq hg1 hf a, hq1]
  rfl

/-- **candidate_beats_sentinel** — in ANY state: as soon as a rollapp has one Bonded ∧ opted-in
    sequencer, the choice is a real sequencer, not the sentinel — whatever the bonds are (a candidate
    with zero tokens ties with the sentinel's zero tokens and the stable sort keeps it in front). -/
theorem candidate_beats_sentinel (s : St) (ra : Nat) (x : Seq) (hx : x ∈ s.seqs) (h1 : x.rollapp = ra)
    (h2 : x.bonded = true) (h3 : x.optedIn = true) : (choose s ra).isSome = true := by
  cases hc : choose s ra with
  | some _ => rfl
  | none => exact absurd ⟨h1, h2, h3⟩ ((C07.choose_none_iff s ra).1 hc x hx)

/-- with `LivenessSlashMinMultiplier = 1` the liveness slash takes the whole bond -/
theorem livSlashAmt_full (p : SeqParams) (hm : p.lsMul = ⟨1000000000000000000⟩) (t : Nat) :
    LevNs.livSlashAmt p t = t := by
  unfold LevNs.livSlashAmt
  rw [hm]
  have h : ((Dec.mulInt ⟨1000000000000000000⟩ (t : Int)).truncateInt).toNat = t := by
    unfold Dec.mulInt Dec.truncateInt chopTrunc decP
    simp only
    have : ((1000000000000000000 : Int) * (t : Int)).tdiv 1000000000000000000 = (t : Int) := by
      rw [Int.tdiv_eq_ediv_of_nonneg (by omega)]
      omega
    rw [this]; omega
  rw [h]
  omega

/-- **liveness_slash_keeps_proposer** — along every run: the block end at the event height of a
    rollapp slashes its real proposer once and LEAVES IT THE PROPOSER: the rollapp record keeps its
    proposer, the sequencer record keeps its status (Bonded), opt-in flag, notice and rollapp; only
    the bond (minus `livSlashAmt`) and the dishonor change — both computed with the x/sequencer
    parameters in force at that block end (`(run p ops).sqp`).  Nothing unbonds or replaces a proposer
    whose bond the slash has exhausted (with a multiplier of 1 the first slash takes everything:
    `livSlashAmt_full`). -/
theorem liveness_slash_keeps_proposer (p : Params) (ops : List Op) (f : List (Nat × Nat)) (ra : Nat) (r : Rollapp)
    (a : Addr) (q : Seq) (hg : getRa (run p ops) ra = some r) (hev : r.evH = (run p ops).h)
    (hp : r.proposer = some a) (hq : getSeq (run p ops) a = some q) :
    (∃ r', getRa (step (run p ops) (.end_ f)).1 ra = some r' ∧ r'.proposer = some a) ∧
    getSeq (step (run p ops) (.end_ f)).1 a =
      some { q with tokens := q.tokens - LevNs.livSlashAmt (run p ops).sqp q.tokens,
                    dishonor := q.dishonor + (run p ops).sqp.dishonorL } := by
  have hm : ((run p ops).h, ra) ∈ (run p ops).lev :=
    (LevNs.due_iff (LevNs.run_lev p ops) (LevNs.run_grid p ops).hpos hg).2 hev
  have hd := LevNs.endBlock_due (f := f) (LevNs.run_lev p ops) (run_cust p ops) hg hm
  obtain ⟨r', hr', _, _, hpr⟩ := hd.1
  have h2 := hd.2 a q (LevNs.run_uniq p ops hg hp) hp hq
  exact ⟨⟨r', hr', hpr.trans hp⟩, h2⟩

-- ================================================================================================
-- counterexamples: a real proposer with a zero bond
-- ================================================================================================

def exParams : Params := C07.exParams
def exBds (start n : Nat) : List BD := C07.exBds start n

/-- rollapp 0 (minimum bond 10) with sequencers a1 (proposer, bond 10) and a2 (bond 15); a1 posts heights
    1–2; genesis bridge at height 1; a fraud proposal at height 2 punishes the NON-proposer a2 (bond → 0,
    still Bonded) and forks: a1 is removed and unbonded, everybody is opted out; a2 opts in again -/
def exPunishedOptsIn : List Op := [.createRollapp 0 9 10, .fund 1 100, .fund 2 100,
  .createSeq 1 0 10 true, .createSeq 2 0 15 true,
  .update { ra := 0, sender := 1, start := 1, num := 2, rev := 0, last := false, bds := exBds 1 2 },
  .bridge 0 1, .fraud true 0 2 0 (some 2) none, .optIn 2 true]

/-- before the opt-in: the slot is empty, a2 is Bonded with zero tokens and opted out -/
example : ((run exParams exPunishedOptsIn.dropLast).ras.map fun r => (r.proposer, r.minBond)) = [(none, 10)] ∧
    ((run exParams exPunishedOptsIn.dropLast).seqs.map fun q => (q.addr, q.bonded, q.optedIn, q.tokens)) =
      [(1, false, false, 10), (2, true, false, 0)] := by decide

/-- **zero_bond_proposer_possible** — after that history rollapp 0, whose minimum bond is 10, has the
    real proposer a2 whose bond is 0 (and the opt-in was accepted). -/
theorem zero_bond_proposer_possible :
    ((run exParams exPunishedOptsIn).ras.map fun r => (r.id, r.minBond, r.proposer)) = [(0, 10, some 2)] ∧
    ((getSeq (run exParams exPunishedOptsIn) 2).map fun q => (q.bonded, q.optedIn, q.tokens)) = some (true, true, 0) ∧
    (step (run exParams exPunishedOptsIn.dropLast) (.optIn 2 true)).2 = none := by decide

/-- the zero-bond proposer's state updates are accepted like anybody's -/
example : (step (run exParams exPunishedOptsIn)
    (.update { ra := 0, sender := 2, start := 2, num := 1, rev := 1, last := false, bds := exBds 2 1 })).2 = none := by decide

/-- liveness route: slash multiplier 1, event every block; one idle block takes a1's whole bond -/
def exLiveParams : Params := { exParams with lsBlocks := 1, lsInterval := 1, lsMul := ⟨1000000000000000000⟩ }
def exSlashedOut : List Op := [.createRollapp 0 9 10, .fund 1 100, .createSeq 1 0 10 true, .begin_ 1, .end_ []]

/-- **zero_bond_proposer_by_liveness** — the proposer slashed to zero is still the proposer, Bonded. -/
theorem zero_bond_proposer_by_liveness :
    ((run exLiveParams exSlashedOut).ras.map fun r => (r.id, r.minBond, r.proposer)) = [(0, 10, some 1)] ∧
    ((getSeq (run exLiveParams exSlashedOut) 1).map fun q => (q.bonded, q.tokens)) = some (true, 0) ∧
    (run exLiveParams exSlashedOut).burned = 10 := by decide

/-- foreign-fraud route: a1 proposes for rollapp 0, a3 for rollapp 1; a fraud proposal against rollapp 1
    names a1 — a sequencer of ANOTHER rollapp — as the sequencer to punish (`SubmitRollappFraud` does not
    check that the punished sequencer belongs to the rollapp, x/rollapp/keeper/fraud_proposal.go:47-48) -/
def exForeignFraud : List Op := [.createRollapp 0 9 10, .createRollapp 1 9 10, .fund 1 100, .fund 3 100,
  .createSeq 1 0 10 true, .createSeq 3 1 10 true,
  .update { ra := 1, sender := 3, start := 1, num := 2, rev := 0, last := false, bds := exBds 1 2 },
  .bridge 1 1, .fraud true 1 2 0 (some 1) none]

/-- **zero_bond_proposer_by_foreign_fraud** — rollapp 0 was not forked and keeps its proposer a1, whose
    bond is now 0. -/
theorem zero_bond_proposer_by_foreign_fraud :
    ((run exParams exForeignFraud).ras.map fun r => (r.id, r.proposer, r.revs.length)) = [(0, some 1, 1), (1, none, 2)] ∧
    ((getSeq (run exParams exForeignFraud) 1).map fun q => (q.bonded, q.tokens)) = some (true, 0) := by decide

/-- punish-proposal route (the op added by the integration with agent-corea): the standalone governance
    `PunishSequencerProposal` against the sitting proposer a1 — no fork at all (`C07.punish_keeps_roles`) -/
def exPunishProposal : List Op := [.createRollapp 0 9 10, .fund 1 100, .createSeq 1 0 10 true, .punish true 1 none]

/-- **zero_bond_proposer_by_punish_proposal** — the punished proposer is still the proposer, Bonded and
    opted in, with bond 0; the rollapp keeps its one revision. -/
theorem zero_bond_proposer_by_punish_proposal :
    ((run exParams exPunishProposal).ras.map fun r => (r.id, r.minBond, r.proposer, r.revs.length)) = [(0, 10, some 1, 1)] ∧
    ((getSeq (run exParams exPunishProposal) 1).map fun q => (q.bonded, q.optedIn, q.tokens)) = some (true, true, 0) := by decide

/-- parameter-update route: the liveness multiplier is raised to 1 by an x/sequencer `MsgUpdateParams`
    in mid-history (the rollapp parameters `lsBlocks = lsInterval = 1` are the genesis ones); the next
    idle block takes a1's whole bond — `liveness_slash_keeps_proposer` with the parameters in force -/
def exLiveParams0 : Params := { exParams with lsBlocks := 1, lsInterval := 1 }
def exSlashedOutAfterUpdate : List Op := [.createRollapp 0 9 10, .fund 1 100, .createSeq 1 0 10 true,
  .setSeqParams true { exLiveParams0.seq with lsMul := ⟨1000000000000000000⟩ }, .begin_ 1, .end_ []]
example :
    ((run exLiveParams0 exSlashedOutAfterUpdate).ras.map fun r => (r.id, r.minBond, r.proposer)) = [(0, 10, some 1)] ∧
    ((getSeq (run exLiveParams0 exSlashedOutAfterUpdate) 1).map fun q => (q.bonded, q.tokens)) = some (true, 0) ∧
    (run exLiveParams0 exSlashedOutAfterUpdate).burned = 10 := by decide

/-- **no_positive_bond_bound** — there is no positive amount that every real proposer of every reachable
    state (valid parameters) has bonded: not the rollapp's minimum bond, not even 1. -/
theorem no_positive_bond_bound (b : Nat) (hb : 0 < b) :
    ∃ (p : Params) (ops : List Op), 0 < p.noticePeriod ∧ ∃ r ∈ (run p ops).ras, ∃ a q, r.proposer = some a ∧
      getSeq (run p ops) a = some q ∧ q.bonded = true ∧ 0 < r.minBond ∧ q.tokens < b := by
  have hras : (run exParams exPunishedOptsIn).ras.map (fun r => (r.id, r.minBond, r.proposer)) = [(0, 10, some 2)] :=
    zero_bond_proposer_possible.1
  have hseq : (getSeq (run exParams exPunishedOptsIn) 2).map (fun q => (q.bonded, q.optedIn, q.tokens)) = some (true, true, 0) :=
    zero_bond_proposer_possible.2.1
  refine ⟨exParams, exPunishedOptsIn, by decide, ?_⟩
  cases hl : (run exParams exPunishedOptsIn).ras with
  | nil => rw [hl] at hras; cases hras
  | cons r rest =>
    rw [hl] at hras
    simp only [List.map_cons, List.cons.injEq, Prod.mk.injEq] at hras
    cases hq : getSeq (run exParams exPunishedOptsIn) 2 with
    | none => rw [hq] at hseq; cases hseq
    | some q =>
      rw [hq] at hseq
      simp only [Option.map_some, Option.some.injEq, Prod.mk.injEq] at hseq
      exact ⟨r, List.mem_cons_self, 2, q, hras.1.2.2, hq, hseq.1, by rw [hras.1.2.1]; omega, by rw [hseq.2.2]; exact hb⟩

end DymVerif.C07X
