/-
  Props/C17Rollapp — C17 across a RollApp ownership transfer (x/rollapp `MsgTransferOwnership`).
  x/dymns never stores who owns a RollApp: `IsRollAppCreator` reads `rollapp.Owner` at the moment of
  every alias message.  The transfer therefore hands over, together with the RollApp, its aliases
  and every open sell order and buy order on them, unchanged:
  * the previous owner can no longer cancel or complete an order he placed, the new owner can
    (`rollapp_transfer_exact`, `alias_order_after_transfer`);
  * a completed sale pays exactly the winning amount to the account that owns the source RollApp
    WHEN THE SALE COMPLETES (`sale_exact_complete_alias` in Props/C17 holds in every state) — after a
    transfer that is the new owner, not the account that placed the order
    (`alias_sale_after_transfer_pays_current_owner`, witness `cxTransfer`).
  Reading "the seller" of C17 as "the owner of the asset when the sale completes", `sale_exact` holds
  across transfers; reading it as "the account that placed the order" it does not
  (`alias_order_seller_counterexample`).
-/
import DymVerif.Props.C17
import DymVerif.Lemmas.DymNSAliasSO
namespace DymVerif.C17
open DymVerif DymVerif.DymNS

/-- **what a RollApp ownership transfer changes**: the owner field of that RollApp and nothing else —
    in particular no alias, no sell order, no bid, no buy order, no balance; from then on
    `IsRollAppCreator` accepts the new owner and only him -/
theorem rollapp_transfer_exact {s s' : State} {a b : Acct} {c : Chain} (h : exec s (.transferRollapp a c b) = .ok s') :
    ∃ r, AMap.get s.al.rollapps c = some r ∧ r.owner = a ∧ a ≠ b ∧
      AMap.get s'.al.rollapps c = some { r with owner := b } ∧
      (∀ c', c' ≠ c → AMap.get s'.al.rollapps c' = AMap.get s.al.rollapps c') ∧
      s'.al.aliasTo = s.al.aliasTo ∧ s'.al.aliasesOf = s.al.aliasesOf ∧ s'.aliasSO = s.aliasSO ∧
      s'.nameSO = s.nameSO ∧ s'.bos = s.bos ∧ s'.bal = s.bal ∧ s'.modBal = s.modBal ∧ s'.ns = s.ns ∧ s'.p = s.p ∧
      (∀ x, isCreator s' c x = decide (x = b)) := by
  obtain ⟨r, hr, ho, hne, rfl⟩ := transferRollapp_ok h
  refine ⟨r, hr, ho, hne, by simp [transferRollappT], fun c' hc' => by simp [transferRollappT, AMap.get_set, hc'],
    rfl, rfl, rfl, rfl, rfl, rfl, rfl, rfl, rfl, fun x => ?_⟩
  simp only [isCreator, transferRollappT, AMap.get_set_self]
  by_cases hx : x = b
  · simp [hx]
  · have : ¬ b = x := fun e => hx e.symm
    simp [hx, this]

/-- **who may cancel, who is paid**: after the transfer of RollApp `c` from `a` to `b`, for an alias
    of `c` with an open sell order: the previous owner's cancellation is refused; and a completion that
    sells pays exactly the highest bid to `b` — whoever placed the order -/
theorem alias_order_after_transfer {s s' : State} {a b : Acct} {c : Chain} {l : AliasId}
    (h : exec s (.transferRollapp a c b) = .ok s') (hl : AMap.get s.al.aliasTo l = some c) :
    (∃ e, cancelAliasSO s' a l = .error e) ∧
    ∀ x s'', completeAliasSOMsg s' x l = .ok s'' → (reserved s'.p l || !s'.p.tradeAlias) = false →
      ∃ so bid, AMap.get s.aliasSO l = some so ∧ so.bid = some bid ∧
        ∀ y, balOf s'' y = balOf s' y + (if y = b then bid.price else 0) := by
  obtain ⟨r, hr, ho, hne, hr', _, hto, _, hso, _, _, _, _, _, _, hcr⟩ := rollapp_transfer_exact h
  constructor
  · have hna : isCreator s' c a = false := by rw [hcr]; simp [hne]
    unfold cancelAliasSO
    rw [hto, hl]
    simp [hna, chk, bind, Except.bind]
  · intro x s'' hc hsell
    obtain ⟨so, bid, hso', hb, _, _, hres⟩ := completeAliasSOMsg_ledger hc
    rw [hsell] at hres
    simp only [Bool.false_eq_true, if_false] at hres
    obtain ⟨src, r2, hsrc, hr2, _, hbal⟩ := hres
    rw [hto, hl] at hsrc
    injection hsrc with hsrc; subst hsrc
    rw [hr'] at hr2; injection hr2 with hr2; subst hr2
    exact ⟨so, bid, by rw [← hso]; exact hso', hb, hbal⟩

/-- **every open alias sell order stays attached to a registered RollApp** — in every reachable state,
    whatever was transferred, migrated or re-parametrised in between: a completion always finds the
    account to pay (`sale_exact_complete_alias`: the owner of that RollApp at that moment) -/
theorem alias_order_attached (p : Params) (t : Nat) (ops : List Op) (l : AliasId) (so : SellOrder)
    (h : AMap.get (run (State.start p t) ops).aliasSO l = some so) :
    ∃ src r, AMap.get (run (State.start p t) ops).al.aliasTo l = some src ∧
      AMap.get (run (State.start p t) ops).al.rollapps src = some r := by
  have h0 : ASOOK false (State.start p t) := by
    intro l so h; simp [State.start, State.init] at h
  obtain ⟨src, r, h1, h2, _⟩ := run_asook ops h0 (fun e => by cases e) l so h
  exact ⟨src, r, h1, h2⟩

/-- **alias_order_seller_partial**: in every history WITHOUT a RollApp ownership transfer, every open
    alias sell order was placed by the current owner of the alias' RollApp — the account a completion
    pays and the only one that may cancel.  (Full statement, for all histories: fails, see
    `alias_order_seller_counterexample` below; what holds in general is `alias_order_attached`
    together with `alias_order_after_transfer`.) -/
theorem alias_order_seller_partial (p : Params) (t : Nat) (ops : List Op)
    (hops : ∀ op ∈ ops, ∀ x c y, op ≠ .transferRollapp x c y) (l : AliasId) (so : SellOrder)
    (h : AMap.get (run (State.start p t) ops).aliasSO l = some so) :
    ∃ src r, AMap.get (run (State.start p t) ops).al.aliasTo l = some src ∧
      AMap.get (run (State.start p t) ops).al.rollapps src = some r ∧ so.seller = r.owner := by
  have h0 : ASOOK true (State.start p t) := by
    intro l so h; simp [State.start, State.init] at h
  obtain ⟨src, r, h1, h2, h3⟩ := run_asook ops h0 (fun _ => hops) l so h
  exact ⟨src, r, h1, h2, h3 rfl⟩

/-- a0 creates RollApp 1 (alias 0), a1 creates RollApp 2 (alias 1); a0 lists alias 0, a1 bids 3 for
    RollApp 2; a0 transfers RollApp 1 to a2; the order runs out and the bidder completes it -/
def cxTransfer : State := run (State.start cxParams 1000)
  [.fund 0 100, .fund 1 100, .createRollapp 0 1 1 0, .createRollapp 1 2 2 1, .sellAlias 0 0 2 0, .buyAlias 1 0 3 2,
   .transferRollapp 0 1 2, .advance 11]

/-- **alias_sale_after_transfer_pays_current_owner**: the order was placed by a0 (ghost field
    `seller`); a0's cancel and complete are refused after the transfer; the completion pays the bid
    of 3 to a2, the owner of the source RollApp at that moment, a0 receives nothing; the alias moves
    to the bidder's RollApp and the escrow is empty again -/
theorem alias_sale_after_transfer_pays_current_owner :
    (AMap.get cxTransfer.aliasSO 0).map (·.seller) = some 0 ∧
    balOf (step cxTransfer (.cancelSellAlias 0 0)) 0 = balOf cxTransfer 0 ∧
    (AMap.get (step cxTransfer (.completeAlias 0 0)).aliasSO 0).isSome = true ∧
    balOf (step cxTransfer (.completeAlias 1 0)) 2 = balOf cxTransfer 2 + 3 ∧
    balOf (step cxTransfer (.completeAlias 1 0)) 0 = balOf cxTransfer 0 ∧
    AMap.get (step cxTransfer (.completeAlias 1 0)).al.aliasTo 0 = some 2 ∧
    (step cxTransfer (.completeAlias 1 0)).modBal = 0 := by decide

/-- **alias_order_seller_counterexample**: "every open alias sell order was placed by the current
    owner of the alias' RollApp" — true of Dym-Name orders in every reachable state (`SOOK`), and of
    alias orders in histories without a RollApp transfer — fails after a transfer -/
theorem alias_order_seller_counterexample :
    ∃ so r, AMap.get cxTransfer.aliasSO 0 = some so ∧ AMap.get cxTransfer.al.aliasTo 0 = some 1 ∧
      AMap.get cxTransfer.al.rollapps 1 = some r ∧ so.seller ≠ r.owner :=
  ⟨⟨0, 1010, 2, 0, some ⟨1, 3, 2⟩⟩, ⟨2, 1⟩, by decide, by decide, by decide, by decide⟩

end DymVerif.C17
