/-
  Props/C13 — IRO plans stay solvent and the bonding curve cannot be gamed (theorems: see below).
-/
import DymVerif.Model.Iro
namespace DymVerif.C13
open DymVerif DymVerif.Iro

theorem stub : True := trivial

end DymVerif.C13
