/-
  Props/C13 — IRO plans stay solvent and the bonding curve cannot be gamed.

  Property theorems only.  Every statement is for EVERY curve oracle `I : Int → Int` (the raw value of
  `BondingCurve.integral` at a sold amount), every Newton oracle `T`, every liquidity-decimals value
  `L` (in particular 6..18), every configuration `cfg` and every list of operations — no bounds.
  `Reach I T cfg st` = `st` is the state after some list of messages from the initial state.

  What is an oracle here is exactly what is NOT proved: `BigDec.Power` and the convergence of the
  Newton iteration.  The clauses that depend on the Newton result are stated under an explicit
  contract, which the harness monitors on the real code on every exact-spend purchase and in a
  parameter sweep (monitoring, not proof).

  CHANGED (pointwise contract): `solvent_with_exact_spend`, `exact_spend_no_more`, the exact-spend half
  of `roundtrip_no_profit` and `exact_spend_tight` used to assume the GLOBAL contracts
  `NewtonUpper I T L` / `NewtonLowerDec I T tol` (every sold amount, every net spend), which the real
  Newton iteration is known to violate on dust inputs — a hypothesis no real trace satisfies.  They
  now assume the contract only AT THE EXACT-SPEND PURCHASES THE HISTORY EXECUTES
  (`NewtonUpperOn I T (besPoints I T st ops)`, `BesOkAt`, `NewtonLowerAt`), each point being decided
  by the driver (`newtonUpperAtB`, `newtonLowerAtB`) and recomputed by the harness from the real
  code on every executed purchase, so they apply to every real trace whose per-op monitor passed;
  `solvent_blame` / `roundtrip_blame` name the blame set otherwise (some executed purchase violated
  the contract).  `exact_spend_tight_step` is the step-level form with the tolerance `newtonTolRaw`
  built from the regenerated constant `Gen.Iro.epsilonPrecision`.  The former statements are kept,
  unweakened, as corollaries: `…_global`.
-/
import DymVerif.Lemmas.IroSolvent
import DymVerif.Lemmas.IroVestInv
import DymVerif.Lemmas.GenEqIro
namespace DymVerif.C13
open DymVerif DymVerif.Iro

def Reach (I : Int → Int) (T : Int → Int → Option Int) (cfg : Cfg) (st : State) : Prop :=
  ∃ ops : List Op, st = run I T (init cfg) ops

theorem reach_inv {I T cfg st} (h : Reach I T cfg st) : Inv st ∧ VInv st := by
  obtain ⟨ops, rfl⟩ := h
  exact inv_vinv_run ops _ (inv_init cfg) (vinv_init cfg)

/-! ## a concrete scenario used by the non-vacuity examples: fixed price 1 (integral(x) = x),
    exact Newton oracle, 18/18 decimals, 2 % taker fee -/

def demoCfg : Cfg where
  takerFee := ⟨20000000000000000⟩
  creationFee := 1000000000000000000
  minLiqPart := ⟨400000000000000000⟩
  minVestDur := 0
  minPlanDur := 0
  feeBase := false
  n := 3
  genAlloc := 1000000000000000000000
  liqDec := 18
def demoI : Int → Int := fun x => x
def demoT : Int → Int → Option Int := fun _ p => some p
def demoCreate : Op :=
  .create 1000000000000000000000 0 1000000000000000000 1000000000000000000 18 true 0 3600 ⟨500000000000000000⟩ 3 0
/-- funded owner and trader, plan created, trader a1 bought 100 tokens -/
def demoTrading : List Op :=
  [.fund 0 1000000000000000000000, .fund 1 1000000000000000000000, demoCreate,
   .buy 1 100000000000000000000 1000000000000000000000]
/-- … then sold 50, bought for an exact spend of 10, the plan was settled and 2 of 3 time units passed -/
def demoSettled : List Op :=
  demoTrading ++ [.sell 1 50000000000000000000 1, .bes 1 10000000000000000000 1,
                  .settle 1000000000000000000000 true, .time 2]

/-! ## sold never exceeds the sellable maximum or the allocation -/

/-- **sold_bounded**, full strength: in every reachable state `sold ≤ MaxAmountToSell ≤ allocation`
    (and `claimed ≤ sold`).  Holds since `Keeper.CreatePlan` rejects a creation fee above the sellable
    maximum (before that repair the fee was booked as sold unchecked: fee 6 tokens, allocation
    10 tokens + 1, liquidity part 1 gave sold 6 > maximum 5 right after creation). -/
theorem sold_bounded {I T cfg st} (h : Reach I T cfg st) (p : Plan) (hp : st.plan = some p) :
    p.sold ≤ p.maxSell ∧ 0 < p.maxSell ∧ p.maxSell ≤ p.alloc ∧ p.claimed ≤ p.sold := by
  obtain ⟨a1, a2, _, _, _, _, a7, a8, _⟩ := (reach_inv h).1.all p hp
  exact ⟨a7, a1, a2, a8⟩

/-- the former witness is now rejected: creation fee 6 tokens, allocation 10 tokens + 1, liquidity
    part 1 (sellable maximum 5 tokens) — no plan is created -/
example :
    let cfg : Cfg := { demoCfg with creationFee := 6000000000000000000, genAlloc := 10000000000000000001 }
    let st := run demoI demoT (init cfg) [.fund 0 1000000000000000000000]
    (step demoI demoT st
      (.create 10000000000000000001 0 1000000000000000000 1000000000000000000 18 true 0 3600 ⟨1000000000000000000⟩ 3 0)).2
      = .rej ∧ findEquilibrium 0 1000000000000000000 10000000000000000001 ⟨1000000000000000000⟩ = 5000000000000000000 := by
  decide

example : Reach demoI demoT demoCfg (run demoI demoT (init demoCfg) demoTrading) ∧
    ((run demoI demoT (init demoCfg) demoTrading).plan.map (fun p => (p.sold, p.maxSell))
      = some (101000000000000000000, 666666666666666667000)) := ⟨⟨_, rfl⟩, by decide⟩

/-! ## solvency before settlement -/

/-- rational-free core: `10^L·(I sold − I 0) < 10^18·(balance + trades + 1)` after any history of
    messages in which every exact-spend purchase obeyed the Newton contract -/
theorem solvent_core {I T cfg} (ops : List Op)
    (hN : (∃ o ∈ ops, isBes o = true) → NewtonUpper I T cfg.liqDec) :
    Solv I (run I T (init cfg) ops) := by
  have key : ∀ (ops : List Op) (st : State), Inv st → Solv I st →
      ((∃ o ∈ ops, isBes o = true) → NewtonUpper I T st.cfg.liqDec) → Solv I (run I T st ops) := by
    intro ops
    induction ops with
    | nil => intro st _ h _; exact h
    | cons o ops ih =>
      intro st hi h hN
      refine ih _ (inv_step o hi) (solv_step o h ?_) ?_
      · intro hb p hp
        rw [(hi.all p hp).2.2.2.2.2.2.2.2.2]
        exact hN ⟨o, by simp, hb⟩
      · rintro ⟨o', ho', hb⟩
        rw [step_cfg]
        exact hN ⟨o', by simp [ho'], hb⟩
  exact key ops _ (inv_init cfg) ⟨by simp [init], by intro p hp; simp [init] at hp⟩ hN

/-- the same with the contract demanded only at the exact-spend purchases the history executes -/
theorem solvent_core_at {I T cfg} (ops : List Op) (hN : NewtonUpperOn I T (besPoints I T (init cfg) ops)) :
    Solv I (run I T (init cfg) ops) := by
  have key : ∀ (ops : List Op) (st : State), Solv I st → NewtonUpperOn I T (besPoints I T st ops) →
      Solv I (run I T st ops) := by
    intro ops
    induction ops with
    | nil => intro st h _; exact h
    | cons o ops ih => intro st h hN; exact ih _ (solv_step_at o h hN.head) hN.tail
  exact key ops _ ⟨by simp [init], by intro p hp; simp [init] at hp⟩ hN

/-- floor form of the solvency invariant: `Cost(0, sold) ≤ balance + trades` -/
theorem solv_floor {I : Int → Int} {st : State} (hsolv : Solv I st) (hinv : Inv st) (p : Plan)
    (hp : st.plan = some p) (hs : p.settled = false) : cost I p.L 0 p.sold ≤ st.planLiq + st.trades := by
  have h1 := hsolv.2 p hp hs
  have hd := decP_pos
  rw [cost_eq]
  by_cases hn : 0 ≤ (I p.sold - I 0) * pow10 p.L
  · have hb := (tdiv_decP_of_nonneg _ hn).1
    have : decP * ((I p.sold - I 0) * pow10 p.L).tdiv decP < decP * (st.planLiq + st.trades + 1) := by
      have e : pow10 p.L * (I p.sold - I 0) = (I p.sold - I 0) * pow10 p.L := Int.mul_comm _ _
      rw [e] at h1; omega
    have := Int.lt_of_mul_lt_mul_left this (Int.le_of_lt hd)
    omega
  · have hpl := (hinv.pre p hp hs).2.2.2.2.1
    have := tdiv_decP_of_neg ((I p.sold - I 0) * pow10 p.L) (by omega)
    omega

/-- **solvent_buy_sell**: along every history of create / buy / sell / enable / settle / claim / … (no
    exact-spend purchase) the unsettled plan's account holds at least the curve value `Cost(0, sold)`
    of the sold tokens minus one base unit per executed trade — for every curve and every L. -/
theorem solvent_buy_sell {I T cfg} (ops : List Op) (hno : ∀ o ∈ ops, isBes o = false)
    (p : Plan) (hp : (run I T (init cfg) ops).plan = some p) (hs : p.settled = false) :
    cost I p.L 0 p.sold ≤ (run I T (init cfg) ops).planLiq + (run I T (init cfg) ops).trades := by
  have hsolv := solvent_core (I := I) (T := T) (cfg := cfg) ops
    (fun ⟨o, ho, hb⟩ => by rw [hno o ho] at hb; cases hb)
  have hinv := (reach_inv (I := I) (T := T) (cfg := cfg) ⟨ops, rfl⟩).1
  have h1 := hsolv.2 p hp hs
  have hpl := (hinv.pre p hp hs).2.2.2.2.1
  have hd := decP_pos
  rw [cost_eq]
  by_cases hn : 0 ≤ (I p.sold - I 0) * pow10 p.L
  · have hb := (tdiv_decP_of_nonneg _ hn).1
    have : decP * ((I p.sold - I 0) * pow10 p.L).tdiv decP <
        decP * ((run I T (init cfg) ops).planLiq + (run I T (init cfg) ops).trades + 1) := by
      have e : pow10 p.L * (I p.sold - I 0) = (I p.sold - I 0) * pow10 p.L := Int.mul_comm _ _
      rw [e] at h1; omega
    have := Int.lt_of_mul_lt_mul_left this (Int.le_of_lt hd)
    omega
  · have := tdiv_decP_of_neg ((I p.sold - I 0) * pow10 p.L) (by omega)
    omega

/-- **solvent_with_exact_spend**: the same including exact-spend purchases, CONDITIONAL on the Newton
    contract AT THE PURCHASES THE HISTORY EXECUTED (`besPoints`: the (L, sold, net spend) of every
    executed exact-spend purchase) — what the per-op monitor checks on the real code. -/
theorem solvent_with_exact_spend {I T cfg} (ops : List Op) (hN : NewtonUpperOn I T (besPoints I T (init cfg) ops))
    (p : Plan) (hp : (run I T (init cfg) ops).plan = some p) (hs : p.settled = false) :
    pow10 p.L * (I p.sold - I 0) <
      decP * ((run I T (init cfg) ops).planLiq + (run I T (init cfg) ops).trades + 1) ∧
    cost I p.L 0 p.sold ≤ (run I T (init cfg) ops).planLiq + (run I T (init cfg) ops).trades :=
  ⟨(solvent_core_at ops hN).2 p hp hs,
   solv_floor (solvent_core_at ops hN) (reach_inv (I := I) (T := T) (cfg := cfg) ⟨ops, rfl⟩).1 p hp hs⟩

/-- **solvent_blame**: if the plan account IS short of the curve value, then one of the executed
    exact-spend purchases violated the Newton contract — the blame set is `besPoints` -/
theorem solvent_blame {I T cfg} (ops : List Op) (p : Plan) (hp : (run I T (init cfg) ops).plan = some p)
    (hs : p.settled = false)
    (hbad : (run I T (init cfg) ops).planLiq + (run I T (init cfg) ops).trades < cost I p.L 0 p.sold) :
    ∃ pt ∈ besPoints I T (init cfg) ops, ¬ NewtonUpperAt I T pt.1 pt.2.1 pt.2.2 := by
  apply Classical.byContradiction
  intro hne
  have hN : NewtonUpperOn I T (besPoints I T (init cfg) ops) := by
    intro pt hpt
    apply Classical.byContradiction
    intro hn
    exact hne ⟨pt, hpt, hn⟩
  have := (solvent_with_exact_spend ops hN p hp hs).2
  omega

/-- the former statement (global contract for the plan's liquidity decimals), a corollary -/
theorem solvent_with_exact_spend_global {I T cfg} (ops : List Op) (hN : NewtonUpper I T cfg.liqDec)
    (p : Plan) (hp : (run I T (init cfg) ops).plan = some p) (hs : p.settled = false) :
    pow10 p.L * (I p.sold - I 0) <
      decP * ((run I T (init cfg) ops).planLiq + (run I T (init cfg) ops).trades + 1) :=
  (solvent_core ops (fun _ => hN)).2 p hp hs

example : ∀ o ∈ demoTrading, isBes o = false := by decide
example : (run demoI demoT (init demoCfg) demoTrading).plan.map (fun p => (p.settled, cost demoI p.L 0 p.sold))
      = some (false, 101000000000000000000) ∧
    (run demoI demoT (init demoCfg) demoTrading).planLiq = 101000000000000000000 := by decide

/-- the exact Newton oracle of the fixed-price curve satisfies the contract at 18 decimals -/
theorem demo_newton : NewtonUpper demoI demoT 18 := by
  intro sold net t h
  unfold tokensForExactIn at h
  simp only [demoT] at h
  split at h
  · cases h
  · split at h
    · cases h
    · simp only [Option.some.injEq] at h
      subst h
      have e1 : pow10 18 = decP := by decide
      have e0 : pow10 (18 - 18) = 1 := by decide
      simp only [demoI, scaleToBase, scaleFromBase, Dec.mulInt, Dec.truncateInt, chopTrunc, e0, e1, Int.mul_one]
      rw [Int.mul_tdiv_cancel _ (Int.ne_of_gt decP_pos)]
      have : sold + net - sold = net := by omega
      rw [this]

/-! ## round trips: buying and selling the same tokens back never returns more than was paid -/

/-- **roundtrip_no_profit**: from ANY state, any sequence of buys (either method) and sells by one
    trader `a` (in any split and any order, failed attempts included) that brings `sold` back to its
    starting value leaves the trader with no more liquidity than before — strictly less as soon as one
    trade was executed.  Exact-spend purchases are covered CONDITIONALLY on the Newton contract. -/
theorem roundtrip_no_profit {I T} (st : State) (p : Plan) (hp : st.plan = some p) (a : Nat) (ops : List Op)
    (hops : ∀ o ∈ ops, isTradeBy a o = true)
    (hN : NewtonUpperOn I T (besPoints I T st ops))
    (p' : Plan) (hp' : (run I T st ops).plan = some p') (hsold : p'.sold = p.sold) :
    (run I T st ops).liq a ≤ st.liq a ∧ (run I T st ops ≠ st → (run I T st ops).liq a < st.liq a) := by
  rcases run_potential_at (I := I) (T := T) (a := a) ops st p hp hops hN with h | ⟨q, hq, _, hlt⟩
  · rw [h]; exact ⟨Int.le_refl _, fun hne => absurd rfl hne⟩
  · rw [hp'] at hq
    cases hq
    unfold potential at hlt
    rw [hsold] at hlt
    have hd := decP_pos
    have : decP * (run I T st ops).liq a < decP * st.liq a := by omega
    have := Int.lt_of_mul_lt_mul_left this (Int.le_of_lt hd)
    exact ⟨by omega, fun _ => this⟩

/-- **roundtrip_blame**: a round trip of one trader that does NOT lose contains an executed
    exact-spend purchase that violated the Newton contract -/
theorem roundtrip_blame {I T} (st : State) (p : Plan) (hp : st.plan = some p) (a : Nat) (ops : List Op)
    (hops : ∀ o ∈ ops, isTradeBy a o = true)
    (p' : Plan) (hp' : (run I T st ops).plan = some p') (hsold : p'.sold = p.sold)
    (hbad : st.liq a < (run I T st ops).liq a) :
    ∃ pt ∈ besPoints I T st ops, ¬ NewtonUpperAt I T pt.1 pt.2.1 pt.2.2 := by
  apply Classical.byContradiction
  intro hne
  have hN : NewtonUpperOn I T (besPoints I T st ops) := by
    intro pt hpt
    apply Classical.byContradiction
    intro hn
    exact hne ⟨pt, hpt, hn⟩
  have := (roundtrip_no_profit st p hp a ops hops hN p' hp' hsold).1
  omega

/-- the former statement (global contract), a corollary -/
theorem roundtrip_no_profit_global {I T} (st : State) (p : Plan) (hp : st.plan = some p) (a : Nat) (ops : List Op)
    (hops : ∀ o ∈ ops, isTradeBy a o = true)
    (hN : (∃ o ∈ ops, isBes o = true) → NewtonUpper I T p.L)
    (p' : Plan) (hp' : (run I T st ops).plan = some p') (hsold : p'.sold = p.sold) :
    (run I T st ops).liq a ≤ st.liq a ∧ (run I T st ops ≠ st → (run I T st ops).liq a < st.liq a) := by
  rcases run_potential (I := I) (T := T) (a := a) ops st p hp hops (fun o ho hb => hN ⟨o, ho, hb⟩) with h | ⟨q, hq, _, hlt⟩
  · rw [h]; exact ⟨Int.le_refl _, fun hne => absurd rfl hne⟩
  · rw [hp'] at hq
    cases hq
    unfold potential at hlt
    rw [hsold] at hlt
    have hd := decP_pos
    have : decP * (run I T st ops).liq a < decP * st.liq a := by omega
    have := Int.lt_of_mul_lt_mul_left this (Int.le_of_lt hd)
    exact ⟨by omega, fun _ => this⟩

/-- buy 40 tokens in two pieces, sell them back in three pieces -/
def demoRoundTrip : List Op :=
  [.buy 1 30000000000000000000 1000000000000000000000, .bes 1 10200000000000000000 1,
   .sell 1 5000000000000000000 1, .sell 1 25000000000000000000 1, .sell 1 9996000000000000000 1]
example :
    let st := run demoI demoT (init demoCfg) demoTrading
    let st' := run demoI demoT st demoRoundTrip
    (∀ o ∈ demoRoundTrip, isTradeBy 1 o = true) ∧
    st.plan.map (·.sold) = st'.plan.map (·.sold) ∧ st'.trades = st.trades + 5 ∧ st'.liq 1 < st.liq 1 := by decide

/-! ## exact spend -/

/-- **exact_spend_no_more** (CONDITIONAL on the Newton contract AT THIS PURCHASE, `BesOkAt`): whenever
    an exact-spend purchase is executed, the tokens granted cost (by the plan's own `Cost`) no more than
    the spend net of the fee, hence less than the spend. -/
theorem exact_spend_no_more {I T} {st st' : State} {a : Nat} {spend mt : Int} (p : Plan) (hp : st.plan = some p)
    (hN : BesOkAt I T st (.bes a spend mt)) (h : exec I T st (.bes a spend mt) = .ok st') :
    ∃ p', st'.plan = some p' ∧ p.sold < p'.sold ∧ cost I p.L p.sold p'.sold < spend := by
  obtain ⟨q, net, fee, tokens, l1, ht, hmt, hf, htk, hmtk, _, _, _, _, rfl⟩ := doBes_ok h
  obtain ⟨hq, _, _⟩ := tradeable_ok ht
  rw [hp] at hq; cases hq
  obtain ⟨_, hfp, _, hnet⟩ := applyTakerFee_some hf
  simp only [Bool.false_eq_true, if_false] at hnet
  have hc := hN (p.L, p.sold, net) (by simp [besPoint, hp, hf]) tokens htk
  refine ⟨_, rfl, by simp only []; omega, ?_⟩
  simp only []
  rw [cost_eq]
  have hd := decP_pos
  by_cases hn : 0 ≤ (I (p.sold + tokens) - I p.sold) * pow10 p.L
  · have hb := (tdiv_decP_of_nonneg _ hn).1
    have : decP * ((I (p.sold + tokens) - I p.sold) * pow10 p.L).tdiv decP < decP * spend := by
      have e : pow10 p.L * (I (p.sold + tokens) - I p.sold) = (I (p.sold + tokens) - I p.sold) * pow10 p.L :=
        Int.mul_comm _ _
      rw [e] at hc; nlinarith
    exact Int.lt_of_mul_lt_mul_left this (Int.le_of_lt hd)
  · have := tdiv_decP_of_neg ((I (p.sold + tokens) - I p.sold) * pow10 p.L) (by omega)
    omega

/-- the former statement (global contract), a corollary -/
theorem exact_spend_no_more_global {I T} {st st' : State} {a : Nat} {spend mt : Int} (p : Plan) (hp : st.plan = some p)
    (hN : NewtonUpper I T p.L) (h : exec I T st (.bes a spend mt) = .ok st') :
    ∃ p', st'.plan = some p' ∧ p.sold < p'.sold ∧ cost I p.L p.sold p'.sold < spend :=
  exact_spend_no_more p hp (besOkAt_of_global hp _ (fun _ => hN)) h

example :
    let r := step demoI demoT (run demoI demoT (init demoCfg) demoTrading) (.bes 1 10200000000000000000 1)
    r.2 = .ok ∧ r.1.plan.map (·.sold) = some 110996000000000000000 := by decide

/-- the blame set of the demo history is one point, and the demo oracle meets the contract there -/
example : besPoints demoI demoT (init demoCfg) demoSettled = [(18, 51000000000000000000, 9800000000000000000)] ∧
    newtonUpperAtB demoI demoT 18 51000000000000000000 9800000000000000000 = true := by decide

/-- Newton contract, lower half, at the level of the Newton result itself (raw 10^-18 units of the
    decimal representation): the integral difference is within `tol` below the requested spend. -/
def NewtonLowerDec (I : Int → Int) (T : Int → Int → Option Int) (tol : Int) : Prop :=
  ∀ s p x, T s p = some x → p - tol ≤ I (s + x) - I s

theorem newtonLowerAtB_iff (I : Int → Int) (T : Int → Int → Option Int) (tol s p : Int) :
    newtonLowerAtB I T tol s p = true ↔ NewtonLowerAt I T tol s p := by
  unfold newtonLowerAtB NewtonLowerAt
  cases h : T s p with
  | none => simp
  | some x => simp

/-- the tolerance at the regenerated `epsilonPrecision` = 12 -/
example : newtonEpsRaw = 1000000 ∧ newtonTolRaw 1000000000000000000 = 13000000 := by decide

theorem lt_tdiv_succ (n : Int) : n < decP * (n.tdiv decP + 1) := by
  by_cases hn : 0 ≤ n
  · exact (tdiv_decP_of_nonneg n hn).2
  · have h1 : n = -(-n) := by omega
    rw [h1, Int.neg_tdiv, Int.tdiv_eq_ediv_of_nonneg (by omega)]
    unfold decP; omega

/-- **exact_spend_tight**, full strength, for EVERY liquidity decimals `L ≤ 18`: under the Newton lower
    contract with tolerance `tol` (raw 10^-18 units) the granted tokens cost more than
    `net − tol·10^L/10^18 − 1`, rational-free.  Holds since `TokensForExactInAmount` converts the
    Newton result with the supply decimals (finding F5 repaired). -/
theorem exact_spend_tight_at {I T} {L : Nat} {tol sold net t : Int} (hL : L ≤ 18)
    (hlow : NewtonLowerAt I T tol (scaleFromBase sold 18).raw (scaleFromBase net L).raw)
    (h : tokensForExactIn T L sold net = some t) :
    decP * net - pow10 L * tol < decP * (cost I L sold (sold + t) + 1) := by
  unfold tokensForExactIn at h
  split at h
  · cases h
  · split at h
    · cases h
    · split at h
      · cases h
      · rename_i x hx
        simp only [Option.some.injEq] at h
        subst h
        have e1 : pow10 18 = decP := by decide
        have e0 : pow10 (18 - 18) = 1 := by decide
        have hl := hlow _ hx
        simp only [scaleFromBase, e0, Int.mul_one] at hx hl
        have hpow : pow10 (18 - L) * pow10 L = decP := by
          unfold pow10 decP
          rw [← Int.natCast_mul, ← Nat.pow_add, Nat.sub_add_cancel hL]; rfl
        simp only [scaleToBase, Dec.mulInt, Dec.truncateInt, chopTrunc, e1]
        rw [Int.mul_tdiv_cancel _ (Int.ne_of_gt decP_pos), cost_eq]
        have hlt := lt_tdiv_succ ((I (sold + x) - I sold) * pow10 L)
        have hp := pow10_pos L
        have : (net * pow10 (18 - L) - tol) * pow10 L ≤ (I (sold + x) - I sold) * pow10 L :=
          Int.mul_le_mul_of_nonneg_right hl (Int.le_of_lt hp)
        have e2 : (net * pow10 (18 - L) - tol) * pow10 L = decP * net - pow10 L * tol := by
          rw [Int.sub_mul, Int.mul_assoc, hpow, Int.mul_comm net, Int.mul_comm tol]
        omega

/-- the former statement (global lower contract with a free tolerance), a corollary -/
theorem exact_spend_tight {I T} {L : Nat} {tol sold net t : Int} (hL : L ≤ 18) (hlow : NewtonLowerDec I T tol)
    (h : tokensForExactIn T L sold net = some t) :
    decP * net - pow10 L * tol < decP * (cost I L sold (sold + t) + 1) :=
  exact_spend_tight_at hL (fun x hx => hlow _ _ x hx) h

/-- **exact_spend_tight_step**: step-level form with the REAL tolerance.  In a reachable state with
    liquidity decimals ≤ 18, an EXECUTED exact-spend purchase whose Newton result meets the lower
    contract at this point with the tolerance `newtonTolRaw` (three times the iteration's absolute
    epsilon `10^-epsilonPrecision` plus the relative stop `spend·10^-(epsilonPrecision−1)`, the constant
    regenerated from the source) grants tokens whose cost is more than
    `net − newtonTolRaw·10^L/10^18 − 1`. -/
theorem exact_spend_tight_step {I T cfg st} (hr : Reach I T cfg st) (hL : cfg.liqDec ≤ 18)
    {st' : State} {a : Nat} {spend mt : Int} (h : exec I T st (.bes a spend mt) = .ok st')
    (hlow : ∀ pt, besPoint st (.bes a spend mt) = some pt →
      NewtonLowerAt I T (newtonTolRaw (scaleFromBase pt.2.2 pt.1).raw) (scaleFromBase pt.2.1 18).raw (scaleFromBase pt.2.2 pt.1).raw) :
    ∃ p p' net fee, st.plan = some p ∧ st'.plan = some p' ∧ applyTakerFee spend st.cfg.takerFee false = some (net, fee) ∧
      decP * net - pow10 p.L * newtonTolRaw (scaleFromBase net p.L).raw < decP * (cost I p.L p.sold p'.sold + 1) := by
  obtain ⟨q, net, fee, tokens, l1, ht, hmt, hf, htk, hmtk, _, _, _, _, rfl⟩ := doBes_ok h
  obtain ⟨hq, _, _⟩ := tradeable_ok ht
  have hLq : q.L ≤ 18 := by
    have e1 := ((reach_inv hr).1.all q hq).2.2.2.2.2.2.2.2.2
    have e2 : st.cfg = cfg := by obtain ⟨ops, rfl⟩ := hr; exact run_cfg I T ops _
    rw [e1, e2]; exact hL
  have hl := hlow (q.L, q.sold, net) (by simp [besPoint, hq, hf])
  exact ⟨q, _, net, fee, hq, rfl, hf, exact_spend_tight_at hLq hl htk⟩

/-- with 18-decimals liquidity the bound is simply `net − tol ≤ cost` -/
theorem exact_spend_tight_18 {I T} {tol sold net t : Int} (hlow : NewtonLowerDec I T tol)
    (h : tokensForExactIn T 18 sold net = some t) : net - tol ≤ cost I 18 sold (sold + t) := by
  have h1 := exact_spend_tight (L := 18) (by decide) hlow h
  have e1 : pow10 18 = decP := by decide
  rw [e1] at h1
  have hd := decP_pos
  have : decP * (net - tol) < decP * (cost I 18 sold (sold + t) + 1) := by
    rw [Int.mul_sub]; exact h1
  have := Int.lt_of_mul_lt_mul_left this (Int.le_of_lt hd)
  omega

/-- the same clause about the function the source CURRENTLY has (`Gen.Iro.…` is regenerated from
    `BondingCurve.TokensForExactInAmount` and `BondingCurve.Cost` on every run; 18 supply decimals) -/
theorem exact_spend_tight_current_source {I T} {L : Nat} {tol sold net t : Int} (hL : L ≤ 18)
    (hlow : NewtonLowerDec I T tol) (h : Gen.Iro.tokensForExactInAmount T 18 L sold net = some t) :
    decP * net - pow10 L * tol <
      decP * (Gen.Iro.cost (fun d => ⟨I d.raw⟩) 18 L sold (sold + t) + 1) := by
  rw [GenEq.iro_tokensForExactIn_eq] at h
  rw [GenEq.iro_cost_eq]
  exact exact_spend_tight hL hlow h

/-- the pre-repair behaviour (kept: finding F5): the Newton result converted with the LIQUIDITY decimals -/
def tokensForExactInLiqScaled (T : Int → Int → Option Int) (L : Nat) (currX spendAmt : Int) : Option Int :=
  if (scaleFromBase currX 18).raw < decP then none
  else if spendAmt ≤ 0 then none
  else match T (scaleFromBase currX 18).raw (scaleFromBase spendAmt L).raw with
    | none => none
    | some x => some (scaleToBase ⟨x⟩ L)

/-- 6-decimals liquidity, fixed price 1, exact Newton oracle (tolerance 0), net spend 1 unit (10^6):
    the pre-repair scaling granted 10^6 base tokens = 10^-12 token whose cost is 0; the current one
    grants 1 token costing exactly the spend. -/
theorem exact_spend_tight_prefix_counterexample :
    NewtonLowerDec demoI demoT 0 ∧
    tokensForExactInLiqScaled demoT 6 1000000000000000000 1000000 = some 1000000 ∧
    cost demoI 6 1000000000000000000 (1000000000000000000 + 1000000) = 0 ∧
    tokensForExactIn demoT 6 1000000000000000000 1000000 = some 1000000000000000000 ∧
    cost demoI 6 1000000000000000000 (1000000000000000000 + 1000000000000000000) = 1000000 := by
  refine ⟨?_, by decide, by decide, by decide, by decide⟩
  intro s p x h
  simp only [demoT, Option.some.injEq] at h
  subst h
  simp only [demoI]; omega

example : NewtonLowerDec demoI demoT 0 ∧ tokensForExactIn demoT 18 1000000000000000000 5 = some 5 := by
  refine ⟨exact_spend_tight_prefix_counterexample.1, by decide⟩

/-! ## what happens when the Newton result violates the contract (as the real one does)

  `TokensApproximation` stops as soon as |f(x)| < 10^-12 (absolute, decimal units).  For a spend below
  10^-12 liquidity units the FIRST GUESS (1 token per liquidity unit) already passes that test, so at
  price 1000 the result is 1000× too many tokens; for ordinary spends it overshoots by up to 10^-12.
  The oracle below is exactly what the real function returns in the harness' witness trace
  (price 1000, 18/18 decimals: `T(s, p) = p`). -/

def dustCfg : Cfg := { demoCfg with genAlloc := 1000000000000000000000000 }
def dustI : Int → Int := fun x => 1000 * x
def dustOps : List Op :=
  [.fund 0 2000000000000000000000, .fund 1 1000000000000000000000,
   .create 1000000000000000000000000 0 1000000000000000000 1000000000000000000000 18 true 0 3600 ⟨500000000000000000⟩ 3 0,
   .bes 1 1000 1]

/-- the contract really is violated by this oracle … -/
theorem dust_violates_newton : ¬ NewtonUpper dustI demoT 18 := by
  intro h
  have := h 1000000000000000000 980 980 (by decide)
  revert this
  decide

/-- … and then the three clauses that were conditional on it fail: a spend of 1000 is granted 980
    base tokens that cost 980000, the plan account is short of the curve value by 979020 (one trade),
    and selling the tokens back returns 960400 for the 1000 paid. -/
theorem exact_spend_no_more_counterexample :
    let st := run dustI demoT (init dustCfg) dustOps
    st.plan.map (fun p => (p.sold, cost dustI p.L 1000000000000000000 p.sold)) = some (1000000000000000980, 980000) := by
  decide

theorem solvent_with_exact_spend_counterexample :
    let st := run dustI demoT (init dustCfg) dustOps
    st.plan.map (fun p => (cost dustI p.L 0 p.sold, st.planLiq, st.trades)) =
      some (1000000000000000980000, 1000000000000000000980, 1) := by decide

theorem roundtrip_no_profit_counterexample :
    let st := run dustI demoT (init dustCfg) (dustOps.take 3)
    let st' := run dustI demoT st [.bes 1 1000 1, .sell 1 980 1]
    st.plan.map (·.sold) = st'.plan.map (·.sold) ∧ st'.liq 1 = st.liq 1 + 959400 := by decide

/-! ## who may trade, and when -/

theorem trade_rejected {I T} {st : State} {a : Nat} {e : Err} (he : tradeable st a = .error e) (hne : e ≠ .ok)
    (op : Op) (hop : isTradeBy a op = true) : (step I T st op).1 = st ∧ (step I T st op).2 ≠ .ok := by
  have hex : exec I T st op = .error e ∨ exec I T st op = .error .invalid := by
    cases op with
    | buy b amt mc =>
      have hba : b = a := by simpa [isTradeBy] using hop
      subst hba
      simp only [exec, doBuy]
      split
      · exact Or.inr rfl
      · rw [he]; exact Or.inl rfl
    | bes b sp mt =>
      have hba : b = a := by simpa [isTradeBy] using hop
      subst hba
      simp only [exec, doBes]
      split
      · exact Or.inr rfl
      · rw [he]; exact Or.inl rfl
    | sell b amt mi =>
      have hba : b = a := by simpa [isTradeBy] using hop
      subst hba
      simp only [exec, doSell]
      split
      · exact Or.inr rfl
      · rw [he]; exact Or.inl rfl
    | create _ _ _ _ _ _ _ _ _ _ _ => simp [isTradeBy] at hop
    | time _ => simp [isTradeBy] at hop
    | fund _ _ => simp [isTradeBy] at hop
    | enable _ => simp [isTradeBy] at hop
    | settle _ _ => simp [isTradeBy] at hop
    | claim _ => simp [isTradeBy] at hop
    | claimv _ => simp [isTradeBy] at hop
    | xfer _ _ _ => simp [isTradeBy] at hop
    | chown _ _ => simp [isTradeBy] at hop
  rcases hex with h | h
  · obtain ⟨h1, h2 | h2⟩ := step_of_exec_err h
    · exact ⟨h1, by rw [h2]; exact hne⟩
    · exact ⟨h1, by rw [h2]; decide⟩
  · obtain ⟨h1, h2 | h2⟩ := step_of_exec_err h <;> exact ⟨h1, by rw [h2]; decide⟩

/-- **trade_gating (1)**: before the start time (or while trading is not enabled) nobody but the
    rollapp's CURRENT owner (`st.owner`; it changes with MsgTransferOwnership) can buy,
    buy-exact-spend or sell; the state is untouched. -/
theorem trade_gating_before_start {I T} {st : State} {p : Plan} (hp : st.plan = some p) {a : Nat} (ha : a ≠ st.owner)
    (hpre : p.enabled = false ∨ st.now < p.startTime) (op : Op) (hop : isTradeBy a op = true) :
    (step I T st op).1 = st ∧ (step I T st op).2 ≠ .ok := by
  have : ∃ e, tradeable st a = .error e ∧ e ≠ .ok := by
    unfold tradeable
    rw [hp]
    simp only []
    by_cases hs : p.settled = true
    · exact ⟨.settled, by simp [hs], by decide⟩
    · rcases hpre with h | h
      · exact ⟨.precond, by simp [hs, ha, h], by decide⟩
      · by_cases hen : p.enabled = true
        · exact ⟨.notStarted, by simp [hs, ha, hen, h], by decide⟩
        · exact ⟨.precond, by simp [hs, ha, hen], by decide⟩
  obtain ⟨e, he, hne⟩ := this
  exact trade_rejected he hne op hop

/-- **trade_gating (2)**: after settlement nobody — not even the owner — can trade. -/
theorem trade_gating_after_settlement {I T} {st : State} {p : Plan} (hp : st.plan = some p) (hs : p.settled = true)
    (a : Nat) (op : Op) (hop : isTradeBy a op = true) :
    (step I T st op).1 = st ∧ (step I T st op).2 ≠ .ok := by
  have he : tradeable st a = .error .settled := by
    unfold tradeable; rw [hp]; simp [hs]
  exact trade_rejected he (by decide) op hop

example : (run demoI demoT (init demoCfg) demoSettled).plan.map (·.settled) = some true ∧
    (step demoI demoT (run demoI demoT (init demoCfg) demoSettled) (.buy 0 1000000000000000000 1000000000000000000000)).2 = .settled := by
  decide
/-- before the start (plan starts at time 60, now is 0) the owner's purchase is executed, a trader's is not -/
example :
    let st := run demoI demoT (init demoCfg) [.fund 0 1000000000000000000000, .fund 1 1000000000000000000000,
      .create 1000000000000000000000 0 1000000000000000000 1000000000000000000 18 true 60 3600 ⟨500000000000000000⟩ 3 0]
    (step demoI demoT st (.buy 0 1000000000000000000 1000000000000000000000)).2 = .ok ∧
    (step demoI demoT st (.buy 1 1000000000000000000 1000000000000000000000)).2 = .notStarted := by decide

/-! ## after settlement: claims -/

/-- **module_holds_unclaimed**: after settlement the module account holds exactly the rollapp tokens
    still owed: the sum of all IRO-token holdings = sold − claimed; no IRO token is left in the module. -/
theorem module_holds_unclaimed {I T cfg st} (h : Reach I T cfg st) (p : Plan) (hp : st.plan = some p)
    (hs : p.settled = true) :
    st.modRa = sumTo st.cfg.n st.iro ∧ st.modRa = p.sold - p.claimed ∧ st.modIro = 0 := by
  obtain ⟨h1, h2, h3, _, _⟩ := (reach_inv h).1.post p hp hs
  exact ⟨h2, h3, h1⟩

/-- **claim_once_1to1**: after settlement every holder of IRO tokens can claim; the claim pays exactly
    the holding in rollapp tokens, burns the IRO tokens, touches nobody else, and an immediate second
    claim is rejected (no tokens to claim). -/
theorem claim_once_1to1 {I T cfg st} (h : Reach I T cfg st) (p : Plan) (hp : st.plan = some p) (hs : p.settled = true)
    (a : Nat) (ha : a < st.cfg.n) (hb : st.iro a ≠ 0) :
    (step I T st (.claim a)).2 = .ok ∧
    (step I T st (.claim a)).1.ra a = st.ra a + st.iro a ∧ (step I T st (.claim a)).1.iro a = 0 ∧
    (∀ j, j ≠ a → (step I T st (.claim a)).1.iro j = st.iro j ∧ (step I T st (.claim a)).1.ra j = st.ra j) ∧
    (step I T (step I T st (.claim a)).1 (.claim a)).2 = .noTokens ∧
    (step I T (step I T st (.claim a)).1 (.claim a)).1 = (step I T st (.claim a)).1 := by
  have hinv := (reach_inv h).1
  obtain ⟨_, h2, _, _, _⟩ := hinv.post p hp hs
  have hle := le_sumTo st.cfg.n st.iro hinv.iro_nonneg a ha
  have hex : ∃ s, doClaim st a = .ok s := by
    simp only [doClaim, hp, hs]
    simp [hb, show ¬ st.modRa < st.iro a by omega]
  obtain ⟨s, hs1⟩ := hex
  obtain ⟨q, hq, _, _, _, hs'⟩ := doClaim_ok hs1
  rw [hp] at hq; cases hq
  have hact : opActorsOk st.cfg.n (.claim a) = true := by simp [opActorsOk, ha]
  rw [step_of_exec_ok hact (show exec I T st (.claim a) = .ok s from hs1)]
  subst hs'
  refine ⟨rfl, by simp [upd], by simp [upd], fun j hj => by simp [upd, hj], ?_⟩
  unfold step
  simp [opActorsOk, ha, exec, doClaim, hs, upd]

example : Reach demoI demoT demoCfg (run demoI demoT (init demoCfg) demoSettled) ∧
    (run demoI demoT (init demoCfg) demoSettled).iro 1 = 59800000000000000000 ∧
    (run demoI demoT (init demoCfg) demoSettled).modRa = 59800000000000000000 := ⟨⟨_, rfl⟩, by decide, by decide⟩

/-! ## after settlement: the owner's vesting -/

/-- **vesting_bounded**: the owner's cumulative claims never exceed the vesting total, and the plan
    account holds exactly the unreleased remainder. -/
theorem vesting_bounded {I T cfg st} (h : Reach I T cfg st) (p : Plan) (hp : st.plan = some p) (hs : p.settled = true) :
    0 ≤ p.vest.claimed ∧ p.vest.claimed ≤ p.vest.amount ∧ st.planLiq = p.vest.amount - p.vest.claimed := by
  obtain ⟨hi, hv⟩ := reach_inv h
  obtain ⟨h1, h2, h3, h4⟩ := hv.vest p hp hs
  have := (vestedBy_bounds p.vest st.now h1 h4).2
  exact ⟨h2, by omega, (hi.post p hp hs).2.2.2.1⟩

/-- only the rollapp's CURRENT owner can claim vested liquidity, and only after settlement -/
theorem vesting_only_owner {I T} {st : State} (a : Nat)
    (h : a ≠ st.owner ∨ ∀ p, st.plan = some p → p.settled = false) :
    (step I T st (.claimv a)).1 = st ∧ (step I T st (.claimv a)).2 ≠ .ok := by
  have hex : ∃ e, exec I T st (.claimv a) = .error e ∧ e ≠ .ok := by
    simp only [exec, doClaimVested]
    cases hp : st.plan with
    | none => exact ⟨.notFound, rfl, by decide⟩
    | some p =>
      simp only []
      by_cases hs : p.settled = true
      · rcases h with ha | hn
        · exact ⟨.denied, by simp [hs, ha], by decide⟩
        · have := hn p hp; rw [hs] at this; cases this
      · exact ⟨.notSettled, by simp [hs], by decide⟩
  obtain ⟨e, he, hne⟩ := hex
  obtain ⟨h1, h2 | h2⟩ := step_of_exec_err he
  · exact ⟨h1, by rw [h2]; exact hne⟩
  · exact ⟨h1, by rw [h2]; decide⟩

example : (step demoI demoT (run demoI demoT (init demoCfg) demoSettled) (.claimv 1)).2 = .denied ∧
    (step demoI demoT (run demoI demoT (init demoCfg) demoSettled) (.claimv 0)).2 = .ok := by decide

/-- a successful vesting claim is made by the current owner, pays exactly what is booked as claimed,
    out of the plan account, and touches nobody else's liquidity -/
theorem claimv_pays_current_owner {I T} {st st' : State} {a : Nat} (h : exec I T st (.claimv a) = .ok st') :
    a = st.owner ∧ st'.owner = st.owner ∧
    ∃ p p', st.plan = some p ∧ st'.plan = some p' ∧ 0 < p'.vest.claimed - p.vest.claimed ∧
      st'.liq a = st.liq a + (p'.vest.claimed - p.vest.claimed) ∧
      st'.planLiq = st.planLiq - (p'.vest.claimed - p.vest.claimed) ∧
      ∀ j, j ≠ a → st'.liq j = st.liq j := by
  obtain ⟨p, amt, hp, _, ha, _, hpos, _, rfl⟩ := doClaimVested_ok h
  refine ⟨ha, rfl, p, _, hp, rfl, ?_, ?_, ?_, ?_⟩
  · simp only []; omega
  · simp [upd]
  · simp only []; omega
  · intro j hj; simp [upd, hj]

/-! ## the rollapp owner can change (x/rollapp MsgTransferOwnership)

  The owner is re-read from the rollapp on every message (`GetTradeableIRO`, `EnableTrading`,
  `ClaimVested`, `CreatePlan`, the taker-fee beneficiary): `State.owner`, changed by `Op.chown`.
  Every theorem of this file quantifies over histories WITH ownership transfers (`Reach` ranges over
  all op lists): the invariants, solvency, `vesting_bounded` (the total released to ALL successive
  owners never exceeds the vesting amount, and the plan account holds exactly the unreleased rest)
  and `vesting_not_faster_than_linear` (cumulative over owners). -/

/-- only the current owner can hand the rollapp over, and not to himself -/
theorem chown_only_owner {I T} {st : State} (a b : Nat) (h : a ≠ st.owner ∨ b = st.owner) :
    (step I T st (.chown a b)).1 = st ∧ (step I T st (.chown a b)).2 ≠ .ok := by
  have hex : ∃ e, exec I T st (.chown a b) = .error e ∧ e ≠ .ok := by
    simp only [exec, doChown]
    by_cases ha : a = st.owner
    · rcases h with h | h
      · exact absurd ha h
      · exact ⟨.rej, by simp [ha, h], by decide⟩
    · exact ⟨.denied, by simp [ha], by decide⟩
  obtain ⟨e, he, hne⟩ := hex
  obtain ⟨h1, h2 | h2⟩ := step_of_exec_err he
  · exact ⟨h1, by rw [h2]; exact hne⟩
  · exact ⟨h1, by rw [h2]; decide⟩

/-- an executed transfer changes the owner and nothing else; from then on the FORMER owner is an
    ordinary trader: gated before the start like everybody else, and refused by claim-vested -/
theorem chown_hands_over {I T} {st st' : State} {a b : Nat} (h : exec I T st (.chown a b) = .ok st') :
    a = st.owner ∧ st'.owner = b ∧ b ≠ a ∧ st' = { st with owner := b } ∧
    (∀ p, st'.plan = some p → (p.enabled = false ∨ st'.now < p.startTime) → ∀ op, isTradeBy a op = true →
      (step I T st' op).1 = st' ∧ (step I T st' op).2 ≠ .ok) ∧
    ((step I T st' (.claimv a)).1 = st' ∧ (step I T st' (.claimv a)).2 ≠ .ok) := by
  obtain ⟨ha, hb, rfl⟩ := doChown_ok h
  have hne : a ≠ b := by rw [ha]; exact fun e => hb e.symm
  refine ⟨ha, rfl, fun e => hne e.symm, rfl, ?_, ?_⟩
  · intro p hp hpre op hop
    exact trade_gating_before_start (st := { st with owner := b }) hp (by simpa using hne) hpre op hop
  · exact vesting_only_owner (st := { st with owner := b }) a (Or.inl (by simpa using hne))

/-- the rollapp is handed to a2 before the start (plan starts at 60, now is 0): the former owner a0 is
    gated like any trader, a2 trades; after settlement a2 — not a0 — claims the vested liquidity, and
    the taker fee's beneficiary is re-read as well -/
example :
    let st := run demoI demoT (init demoCfg) [.fund 0 1000000000000000000000, .fund 2 1000000000000000000000,
      .create 1000000000000000000000 0 1000000000000000000 1000000000000000000 18 true 60 3600 ⟨500000000000000000⟩ 3 0,
      .chown 0 2]
    st.owner = 2 ∧ (step demoI demoT st (.chown 0 1)).2 = .denied ∧ (step demoI demoT st (.chown 2 2)).2 = .rej ∧
    (step demoI demoT st (.buy 0 1000000000000000000 1000000000000000000000)).2 = .notStarted ∧
    (step demoI demoT st (.buy 2 1000000000000000000 1000000000000000000000)).2 = .ok ∧
    (let st2 := run demoI demoT st [.buy 2 5000000000000000000 1000000000000000000000, .settle 1000000000000000000000 true, .time 2]
     (step demoI demoT st2 (.claimv 0)).2 = .denied ∧ (step demoI demoT st2 (.claimv 2)).2 = .ok ∧
     (let st3 := run demoI demoT st2 [.claimv 2, .chown 2 1, .time 1]
      (step demoI demoT st3 (.claimv 2)).2 = .denied ∧ (step demoI demoT st3 (.claimv 1)).2 = .ok ∧
      (run demoI demoT st3 [.claimv 1]).plan.map (fun p => (p.vest.amount, p.vest.claimed)) = some (3000000000000000000, 3000000000000000000))) := by
  decide

/-- nothing is released before the vesting start -/
theorem vesting_nothing_before_start {I T cfg st} (h : Reach I T cfg st) (p : Plan) (hp : st.plan = some p)
    (hs : p.settled = true) (hnow : st.now < p.vest.start) : p.vest.claimed = 0 := by
  obtain ⟨_, h2, h3, _⟩ := (reach_inv h).2.vest p hp hs
  unfold vestedBy at h3
  rw [if_pos hnow] at h3
  omega

/-- **vesting_not_faster_than_linear**, exact, no tolerance: at every time within the vesting window
    the owner's cumulative claims are at most the linear share,
    `(stop − start)·claimed ≤ amount·(now − start)`.  Holds since `VestedAmt` truncates the time ratio
    (finding F16 repaired; the half-even rounded ratio released up to amount/(2·10^18) ahead). -/
theorem vesting_not_faster_than_linear {I T cfg st} (h : Reach I T cfg st) (p : Plan) (hp : st.plan = some p)
    (hs : p.settled = true) (h1 : p.vest.start ≤ st.now) (h2 : st.now ≤ p.vest.stop) (hy : p.vest.start < p.vest.stop) :
    (p.vest.stop - p.vest.start) * p.vest.claimed ≤ p.vest.amount * (st.now - p.vest.start) := by
  obtain ⟨ha, _, h3, _⟩ := (reach_inv h).2.vest p hp hs
  unfold vestedBy at h3
  rw [if_neg (by omega), if_neg (by omega), if_neg (by omega)] at h3
  have hl := vestedTotal_linear p.vest st.now ha h1 hy
  have hy' : 0 ≤ p.vest.stop - p.vest.start := by omega
  exact Int.le_trans (Int.mul_le_mul_of_nonneg_left h3 hy') hl

/-- vesting total 3·10^18 over 3 time units; after 2 units the owner has claimed 2·10^18 − 2 ≤ 2/3 of it
    (the half-even ratio 0.666…667 of the pre-repair code paid 2·10^18 + 1) -/
def demoVesting : List Op :=
  [.fund 0 1000000000000000000000, .fund 1 1000000000000000000000, demoCreate,
   .buy 1 5000000000000000000 1000000000000000000000, .settle 1000000000000000000000 true, .time 2, .claimv 0]

example :
    let st := run demoI demoT (init demoCfg) demoVesting
    st.plan.map (fun p => (p.vest.amount, p.vest.claimed, p.vest.start, p.vest.stop, st.now)) =
      some (3000000000000000000, 1999999999999999998, 0, 3, 2) := by decide

/-- the pre-repair ratio (kept: finding F16): `Quo` rounds 2/3 up to 0.666…667, and the product with
    3·10^18 is 2·10^18 + 1 -/
theorem vesting_prefix_counterexample :
    (((Dec.ofInt 2).quo (Dec.ofInt 3)).mul (Dec.ofInt 3000000000000000000)).truncateInt = 2000000000000000001 ∧
    (((Dec.ofInt 2).quoTruncate (Dec.ofInt 3)).mul (Dec.ofInt 3000000000000000000)).truncateInt = 1999999999999999998 := by
  decide

example : Reach demoI demoT demoCfg (run demoI demoT (init demoCfg) demoVesting) := ⟨_, rfl⟩

end DymVerif.C13
