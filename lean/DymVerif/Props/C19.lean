/-
  Props/C19 — identifiers and store keys decode back to exactly what they name.
  Property theorems only.  All statements are for every value of every component (no bounds).
-/
import DymVerif.Lemmas.Keys
import DymVerif.Lemmas.Keys2
import DymVerif.Lemmas.Keys3
import DymVerif.Gen.Keys
import DymVerif.Lemmas.GenEqKeys
namespace DymVerif.C19
open DymVerif DymVerif.Keys

/-- big-endian uint64 keys sort numerically: lexicographic byte order = numeric order -/
theorem be64_lex_iff_lt (a b : Nat) (ha : a < 2 ^ 64) (hb : b < 2 ^ 64) :
    lexLt (be64 a) (be64 b) = decide (a < b) := lexLt_be64 a b ha hb

theorem be64_roundtrip (a : Nat) (ha : a < 2 ^ 64) : beVal (be64 a) = a :=
  beVal_beN 8 a (by simpa using ha)

/-- Go's `Decode(Encode b) = b` -/
theorem b64_roundtrip (k : Bytes) (h : Bytes.WF k) : b64dec (b64enc k) = some k := b64dec_enc k h

/-- **The packet-key round trip, full strength, about the decoder the source currently has**
    (`Gen.Keys.decodePacketKey` is regenerated from `DecodePacketKey` on every run): every key
    handed out by `EncodePacketKey` decodes back to exactly itself. -/
theorem packet_key_roundtrip (k : Bytes) (h : Bytes.WF k) :
    Gen.Keys.decodePacketKey (encodePacketKey k) = some k := by
  rw [GenEq.decodePacketKey_eq]; exact b64dec_enc k h

/-- what a trimming decoder does instead (kept: it is the pre-fix behaviour, finding F1) -/
theorem packet_key_roundtrip_trim (k : Bytes) (h : Bytes.WF k) :
    decodePacketKeyTrim (encodePacketKey k) = some (trimRight0 k) := by
  simp [decodePacketKeyTrim, encodePacketKey, b64dec_enc k h]

theorem packet_key_roundtrip_trim_partial (k : Bytes) (h : Bytes.WF k)
    (hl : ∀ x, k.getLast? = some x → x ≠ 0) :
    decodePacketKeyTrim (encodePacketKey k) = some k := by
  rw [packet_key_roundtrip_trim k h, trimRight0_of_last_ne k hl]

/-- counter-example for the trimming decoder: the key of packet sequence 256 -/
theorem packet_key_roundtrip_trim_counterexample :
    let k := rollappPacketKey .pending [114] 1 .onRecv [99] 256
    decodePacketKeyTrim (encodePacketKey k) ≠ some k := by decide

/-- the full key is injective in all six components (ids and channels contain no '/') -/
theorem packet_key_injective
    (st st' : Status) (r r' : Bytes) (h h' : Nat) (t t' : PType) (c c' : Bytes) (s s' : Nat)
    (hr : sep ∉ r) (hr' : sep ∉ r') (hc : sep ∉ c) (hc' : sep ∉ c')
    (hh : h < 2 ^ 64) (hh' : h' < 2 ^ 64) (hs : s < 2 ^ 64) (hs' : s' < 2 ^ 64)
    (e : rollappPacketKey st r h t c s = rollappPacketKey st' r' h' t' c' s') :
    st = st' ∧ r = r' ∧ h = h' ∧ t = t' ∧ c = c' ∧ s = s' := by
  unfold rollappPacketKey byStatusRollappHeightPrefix byStatusRollappPrefix byStatusPrefix at e
  simp only [List.append_assoc, List.singleton_append, List.cons_append, List.nil_append] at e
  have e1 := List.append_inj e (by simp [statusBytes_length])
  have hst := statusBytes_inj _ _ e1.1
  have e2 := e1.2
  simp only [List.cons.injEq, true_and] at e2
  have e3 := sep_split_unique sep r r' _ _ hr hr' e2
  have e4 := List.append_inj e3.2 (by simp [be64_length])
  have hh0 := be64_inj h h' hh hh' e4.1
  have e5 := e4.2
  simp only [List.cons.injEq, true_and] at e5
  have e6 := sep_split_unique sep _ _ _ _ (ptypeStr_no_sep t) (ptypeStr_no_sep t') e5
  have e7 := sep_split_unique sep c c' _ _ hc hc' e6.2
  exact ⟨hst, e3.1, hh0, ptypeStr_inj _ _ e6.1, e7.1, be64_inj s s' hs hs' e7.2⟩

/-- a by-status-by-rollapp prefix scan returns exactly that status' and that rollapp's packets -/
theorem scan_by_status_rollapp_exact
    (st st' : Status) (r r' : Bytes) (h : Nat) (t : PType) (c : Bytes) (s : Nat)
    (hr : sep ∉ r) (hr' : sep ∉ r') :
    isPrefix (byStatusRollappPrefix st r) (rollappPacketKey st' r' h t c s) = true ↔
      st = st' ∧ r = r' := by
  rw [isPrefix_iff]
  constructor
  · rintro ⟨rest, e⟩
    unfold rollappPacketKey byStatusRollappHeightPrefix byStatusRollappPrefix byStatusPrefix at e
    simp only [List.append_assoc, List.singleton_append, List.cons_append, List.nil_append] at e
    have e1 := List.append_inj e (by simp [statusBytes_length])
    have e2 := e1.2
    simp only [List.cons.injEq, true_and] at e2
    have e3 := sep_split_unique sep r' r _ _ hr' hr e2
    exact ⟨(statusBytes_inj _ _ e1.1).symm, e3.1.symm⟩
  · rintro ⟨rfl, rfl⟩
    exact ⟨be64 h ++ [sep] ++ ptypeStr t ++ [sep] ++ c ++ [sep] ++ be64 s, by
      simp [rollappPacketKey, byStatusRollappHeightPrefix, List.append_assoc]⟩

/-- the "pending up to height m" range selects exactly this rollapp's pending packets with
    proof height ≤ m (for m below the uint64 maximum; at the maximum `m+1` wraps, see below) -/
theorem range_max_height_exact
    (st : Status) (r r' : Bytes) (m h : Nat) (t : PType) (c : Bytes) (s : Nat)
    (hr : sep ∉ r) (hr' : sep ∉ r') (hm : m + 1 < 2 ^ 64) (hh : h < 2 ^ 64) :
    inRange (pendingByMaxHeightRange r m).1 (pendingByMaxHeightRange r m).2
        (rollappPacketKey st r' h t c s) = true ↔ st = .pending ∧ r' = r ∧ h ≤ m := by
  by_cases hp : st = .pending ∧ r' = r
  · obtain ⟨rfl, rfl⟩ := hp
    simp only [pendingByMaxHeightRange, rollappPacketKey, byStatusRollappHeightPrefix,
      List.append_assoc, inRange_prefix]
    rw [Nat.mod_eq_of_lt hm]
    rw [inRange_head _ _ (be64 h) _ (by simp [be64_length]) (by simp [be64_length])]
    simp only [lexLe, lexLt_be64 _ _ hh (by omega : 0 < 2 ^ 64), lexLt_be64 _ _ hh hm]
    simp; omega
  · have : isPrefix (byStatusRollappPrefix .pending r) (rollappPacketKey st r' h t c s) = false := by
      cases hx : isPrefix (byStatusRollappPrefix .pending r) (rollappPacketKey st r' h t c s) with
      | false => rfl
      | true =>
        have := (scan_by_status_rollapp_exact .pending st r r' h t c s hr hr').1 hx
        exact absurd ⟨this.1.symm, this.2.symm⟩ hp
    have hn := not_prefix_not_inRange _ (be64 0) (be64 ((m + 1) % 2 ^ 64)) _ this
    simp only [pendingByMaxHeightRange, byStatusRollappHeightPrefix] at hn ⊢
    rw [hn]; simp; intro a b; exact absurd ⟨a, b⟩ hp

/-- at `m = 2^64-1` the end bound wraps to 0 and the scan returns nothing (edge stated, not hidden) -/
theorem range_max_height_wrap (r : Bytes) (h : Nat) (t : PType) (c : Bytes) (s : Nat) (hh : h < 2 ^ 64) :
    inRange (pendingByMaxHeightRange r (2 ^ 64 - 1)).1 (pendingByMaxHeightRange r (2 ^ 64 - 1)).2
        (rollappPacketKey .pending r h t c s) = false := by
  simp only [pendingByMaxHeightRange, rollappPacketKey, byStatusRollappHeightPrefix,
    List.append_assoc, inRange_prefix]
  rw [inRange_head _ _ (be64 h) _ (by simp [be64_length]) (by simp [be64_length])]
  have : (2 ^ 64 - 1 + 1) % 2 ^ 64 = 0 := by decide
  rw [this]
  simp [lexLt_be64 _ _ hh (by omega : 0 < 2 ^ 64)]

/-- the fork range "from height f" selects exactly proof heights `f ≤ h < 2^64-1` of this rollapp
    (the end bound is exclusive, so the single value 2^64-1 is out of reach — part of the statement) -/
theorem range_from_height_exact
    (st : Status) (r r' : Bytes) (f h : Nat) (t : PType) (c : Bytes) (s : Nat)
    (hr : sep ∉ r) (hr' : sep ∉ r') (hf : f < 2 ^ 64) (hh : h < 2 ^ 64) :
    inRange (pendingFromHeightRange r f).1 (pendingFromHeightRange r f).2
        (rollappPacketKey st r' h t c s) = true ↔ st = .pending ∧ r' = r ∧ f ≤ h ∧ h < 2 ^ 64 - 1 := by
  by_cases hp : st = .pending ∧ r' = r
  · obtain ⟨rfl, rfl⟩ := hp
    simp only [pendingFromHeightRange, rollappPacketKey, byStatusRollappHeightPrefix,
      List.append_assoc, inRange_prefix]
    rw [inRange_head _ _ (be64 h) _ (by simp [be64_length]) (by simp [be64_length])]
    simp only [lexLe, lexLt_be64 _ _ hh hf, lexLt_be64 _ _ hh (by omega : 2 ^ 64 - 1 < 2 ^ 64)]
    simp
  · have : isPrefix (byStatusRollappPrefix .pending r) (rollappPacketKey st r' h t c s) = false := by
      cases hx : isPrefix (byStatusRollappPrefix .pending r) (rollappPacketKey st r' h t c s) with
      | false => rfl
      | true =>
        have := (scan_by_status_rollapp_exact .pending st r r' h t c s hr hr').1 hx
        exact absurd ⟨this.1.symm, this.2.symm⟩ hp
    have hn := not_prefix_not_inRange _ (be64 f) (be64 (2 ^ 64 - 1)) _ this
    simp only [pendingFromHeightRange, byStatusRollappHeightPrefix] at hn ⊢
    rw [hn]; simp; intro a b; exact absurd ⟨a, b⟩ hp

/-- registered rollapp ids (`name_eip155-rev`, name without '_') with distinct names are never
    byte-prefixes of one another, so the separator-less `SequencersByRollappKey` scan is exact -/
theorem rollapp_prefix_free (n n' rest rest' : Bytes) (hn : 95 ∉ n) (hn' : 95 ∉ n')
    (hne : n ≠ n') : isPrefix (n ++ 95 :: rest) (n' ++ 95 :: rest') = false := by
  cases hx : isPrefix (n ++ 95 :: rest) (n' ++ 95 :: rest') with
  | false => rfl
  | true =>
    obtain ⟨x, e⟩ := (isPrefix_iff _ _).1 hx
    simp only [List.append_assoc, List.cons_append] at e
    exact absurd (sep_split_unique 95 n' n _ _ hn' hn e).1.symm hne

theorem sequencers_by_rollapp_scan_exact (n n' rest rest' addr : Bytes) (st : OpStatus)
    (hn : 95 ∉ n) (hn' : 95 ∉ n') :
    isPrefix (sequencersByRollappKey (n ++ 95 :: rest))
      (sequencerByRollappByStatusKey (n' ++ 95 :: rest') addr st) = true → n = n' := by
  intro hx
  obtain ⟨x, e⟩ := (isPrefix_iff _ _).1 hx
  simp only [sequencerByRollappByStatusKey, sequencersByRollappByStatusKey, sequencersByRollappKey,
    List.append_assoc, List.cons_append, List.nil_append, List.cons.injEq, true_and] at e
  exact (sep_split_unique 95 n' n _ _ hn' hn e).1.symm

/-- liveness queue keys round-trip (height and rollapp id) -/
theorem liveness_key_roundtrip (h : Nat) (r : Bytes) (hh : h < 2 ^ 64) :
    livenessKeyToEvent (livenessKey h r) = (h, r) := by
  have hl := be64_length h
  simp only [livenessKey, livenessIterHeightKey, livenessKeyToEvent, List.append_assoc]
  simp only [List.length_cons, List.length_nil, sep]
  have e1 : ∀ (p : Bytes) (x : Bytes), p.length = 19 → (p ++ x).drop 19 = x := by
    intro p x hp; rw [← hp]; simp
  refine Prod.ext ?_ ?_
  · simp only [List.cons_append, List.nil_append, List.drop_succ_cons, List.drop_zero]
    rw [List.take_left' hl]; exact be64_roundtrip h hh
  · simp only [List.cons_append, List.nil_append, List.drop_succ_cons, List.drop_zero]
    have : List.drop (0 + 8 + 1 + 1 + 1) (be64 h ++ 47 :: 115 :: 47 :: r) = r := by
      have : (be64 h ++ 47 :: 115 :: 47 :: r) = (be64 h ++ [47, 115, 47]) ++ r := by simp
      rw [this]; rw [List.drop_left' (by simp [hl])]
    simpa using this

/-- demand-order store keys: injective in (status, id) -/
theorem demand_order_key_injective (st st' : Status) (i i' : Bytes)
    (e : demandOrderKey st i = demandOrderKey st' i') : st = st' ∧ i = i' := by
  unfold demandOrderKey at e
  simp only [List.append_assoc, List.singleton_append, List.cons_append, List.nil_append] at e
  have e1 := List.append_inj e (by simp [statusBytes_length])
  have hst := statusBytes_inj _ _ e1.1
  subst hst
  have e2 := e1.2
  simp only [List.cons.injEq, true_and] at e2
  exact ⟨rfl, (List.append_cancel_left e2 |> List.cons.inj).2⟩

-- non-vacuity: the hypotheses are met by concrete, realistic components
example : sep ∉ ([114, 111, 108, 108, 95, 49, 45, 49] : Bytes) ∧ (256 : Nat) < 2 ^ 64 := by decide
example : Bytes.WF (rollappPacketKey .pending [114] 1 .onRecv [99] 256) := by
  intro x hx; revert x; decide

/-! ## Time-sorted keys (sdk.FormatTimeBytes, the sequencer notice queue)

Width hypothesis, stated once: `TimeF.InRange` = year < 10000 and every other field within its
printed width (month, day, hour, minute, second < 100, nanosecond < 10^9).  Go's calendar gives
month 1..12, day 1..31, hour < 24, minute, second < 60, nanosecond < 10^9 (`TimeF.Calendar`), so for
real `time.Time` values the only genuine restriction is 0 ≤ year ≤ 9999. -/

/-- C19 "round-trips exactly / names one and only one object": the sortable time format is injective
    on in-range calendar fields -/
theorem time_format_injective (a b : TimeF) (ha : a.InRange) (hb : b.InRange)
    (h : fmtTime a = fmtTime b) : a = b := fmtTime_inj a b ha hb h

/-- C19 "composite store keys sort by ... time numerically": byte order of `sdk.FormatTimeBytes`
    = lexicographic order of (year, month, day, hour, minute, second, nanosecond), i.e. chronological
    order, for all in-range fields -/
theorem time_format_order (a b : TimeF) (ha : a.InRange) (hb : b.InRange) :
    lexLt (fmtTime a) (fmtTime b) = lexLt a.fields b.fields := lexLt_fmtTime a b ha hb

/-- real `time.Time` fields with year ≤ 9999 are in range -/
theorem time_calendar_in_range (t : TimeF) (h : t.Calendar) : t.InRange := h.inRange

/-- outside the width hypothesis the order breaks: 10000-01-01 sorts *before* 9999-12-31 -/
theorem time_format_order_counterexample :
    let a : TimeF := ⟨10000, 1, 1, 0, 0, 0, 0⟩
    let b : TimeF := ⟨9999, 12, 31, 23, 59, 59, 999999999⟩
    lexLt (fmtTime a) (fmtTime b) = true ∧ lexLt a.fields b.fields = false := by decide

/-- the notice-queue time keys sort chronologically -/
theorem notice_queue_time_key_order (a b : TimeF) (ha : a.InRange) (hb : b.InRange) :
    lexLt (noticeQueueByTimeKey a) (noticeQueueByTimeKey b) = lexLt a.fields b.fields := by
  simp only [noticeQueueByTimeKey, encodeTimeToKey, lexLt_append_left]
  exact lexLt_fmtTime a b ha hb

/-- full notice-queue keys (time, sequencer address): an entry with an earlier time sorts before an
    entry with a later time, whatever the two addresses are -/
theorem notice_queue_key_order (a b : TimeF) (x y : Bytes) (ha : a.InRange) (hb : b.InRange)
    (hlt : lexLt a.fields b.fields = true) :
    lexLt (noticeQueueBySeqTimeKey x a) (noticeQueueBySeqTimeKey y b) = true := by
  simp only [noticeQueueBySeqTimeKey, noticeQueueByTimeKey, encodeTimeToKey, List.append_assoc,
    lexLt_append_left]
  exact lexLt_append_of_lt _ _ _ _ (by rw [fmtTime_length a ha, fmtTime_length b hb])
    (by rw [lexLt_fmtTime a b ha hb]; exact hlt)

/-- the (time, sequencer address) key names exactly one (time, address) pair -/
theorem notice_queue_key_injective (a b : TimeF) (x y : Bytes) (ha : a.InRange) (hb : b.InRange)
    (e : noticeQueueBySeqTimeKey x a = noticeQueueBySeqTimeKey y b) : a = b ∧ x = y := by
  simp only [noticeQueueBySeqTimeKey, noticeQueueByTimeKey, encodeTimeToKey, noticePeriodQueueKey,
    List.append_assoc, List.cons_append, List.nil_append, List.cons.injEq, true_and] at e
  have e1 := List.append_inj e (by rw [fmtTime_length a ha, fmtTime_length b hb])
  exact ⟨fmtTime_inj a b ha hb e1.1, (List.cons.inj e1.2).2⟩

/-- **the notice-queue scan** `Iterator(0x42, PrefixEndBytes(NoticeQueueByTimeKey(T)))` (how
    `NoticeElapsedProposers` reads the queue) returns an entry (t, addr) exactly when t ≤ T -/
theorem notice_queue_scan_exact (T t : TimeF) (addr : Bytes) (hT : T.InRange) (ht : t.InRange) :
    inRangeO (noticeQueueRange T).1 (noticeQueueRange T).2 (noticeQueueBySeqTimeKey addr t)
      = !(lexLt T.fields t.fields) := by
  obtain ⟨q, hq, hql⟩ := fmtTime_snoc T hT
  have hd : 48 + T.ns % 10 ≠ 255 := by omega
  have hend : prefixEnd (noticeQueueByTimeKey T) = some ((0x42 :: q) ++ [48 + T.ns % 10 + 1]) := by
    simp only [noticeQueueByTimeKey, encodeTimeToKey, noticePeriodQueueKey, hq]
    exact prefixEnd_snoc (0x42 :: q) _ hd
  have hnil : ∀ s : Bytes, lexLt s [] = false := by intro s; cases s <;> rfl
  have hlo : lexLe noticePeriodQueueKey (noticeQueueBySeqTimeKey addr t) = true := by
    simp [lexLe, noticeQueueBySeqTimeKey, noticeQueueByTimeKey, encodeTimeToKey, noticePeriodQueueKey,
      lexLt, hnil]
  simp only [noticeQueueRange, inRangeO, hend, hlo, Bool.true_and]
  have hk : noticeQueueBySeqTimeKey addr t = (0x42 :: fmtTime t) ++ ([sep] ++ addr) := by
    simp [noticeQueueBySeqTimeKey, noticeQueueByTimeKey, encodeTimeToKey, noticePeriodQueueKey]
  rw [hk, lexLt_succ_last (0x42 :: q) _ (0x42 :: fmtTime t) _ (by simp [fmtTime_length t ht, hql])]
  have : (0x42 :: q) ++ [48 + T.ns % 10] = 0x42 :: fmtTime T := by rw [hq]; rfl
  rw [this]
  have : lexLt (0x42 :: fmtTime T) (0x42 :: fmtTime t) = lexLt (fmtTime T) (fmtTime t) := by simp [lexLt]
  rw [this, lexLt_fmtTime T t hT ht]

/-- the notice-queue scan never returns a key of another family of the sequencer store: everything in
    its range starts with the queue prefix 0x42 -/
theorem notice_queue_scan_only_queue (T : TimeF) (K : Bytes) (hT : T.InRange)
    (h : inRangeO (noticeQueueRange T).1 (noticeQueueRange T).2 K = true) :
    isPrefix noticePeriodQueueKey K = true := by
  obtain ⟨q, hq, _⟩ := fmtTime_snoc T hT
  have hd : 48 + T.ns % 10 ≠ 255 := by omega
  have hend : prefixEnd (noticeQueueByTimeKey T) = some ([0x42] ++ (q ++ [48 + T.ns % 10 + 1])) := by
    simp only [noticeQueueByTimeKey, encodeTimeToKey, noticePeriodQueueKey, hq]
    exact prefixEnd_snoc (0x42 :: q) _ hd
  cases hx : isPrefix noticePeriodQueueKey K with
  | true => rfl
  | false =>
    have := not_prefix_not_inRange noticePeriodQueueKey [] (q ++ [48 + T.ns % 10 + 1]) K hx
    simp only [noticeQueueRange, inRangeO, hend] at h
    simp only [inRange, List.append_nil, noticePeriodQueueKey] at this h
    rw [this] at h; exact absurd h (by decide)

/-- sequencer-by-address, proposer and successor keys: each injective in its component … -/
theorem sequencer_key_injective (a b : Bytes) (e : sequencerKey a = sequencerKey b) : a = b := by
  simpa [sequencerKey] using e
theorem proposer_key_injective (a b : Bytes) (e : proposerByRollappKey a = proposerByRollappKey b) : a = b := by
  simpa [proposerByRollappKey] using e
theorem successor_key_injective (a b : Bytes) (e : successorByRollappKey a = successorByRollappKey b) : a = b := by
  simpa [successorByRollappKey] using e

/-- … and the families (sequencer 0x00, by-rollapp 0x01, proposer 0x02, successor 0x03, notice
    queue 0x42) are pairwise disjoint for all component values -/
theorem sequencer_families_disjoint (a b c d e : Bytes) (st : OpStatus) (t : TimeF) :
    sequencerKey a ≠ proposerByRollappKey b ∧ sequencerKey a ≠ successorByRollappKey c ∧
    proposerByRollappKey b ≠ successorByRollappKey c ∧
    sequencerKey a ≠ sequencerByRollappByStatusKey d e st ∧
    proposerByRollappKey b ≠ sequencerByRollappByStatusKey d e st ∧
    successorByRollappKey c ≠ sequencerByRollappByStatusKey d e st ∧
    noticeQueueBySeqTimeKey a t ≠ sequencerKey b ∧ noticeQueueBySeqTimeKey a t ≠ proposerByRollappKey b ∧
    noticeQueueBySeqTimeKey a t ≠ successorByRollappKey b ∧
    noticeQueueBySeqTimeKey a t ≠ sequencerByRollappByStatusKey d e st := by
  simp [sequencerKey, proposerByRollappKey, successorByRollappKey, sequencerByRollappByStatusKey,
    sequencersByRollappByStatusKey, sequencersByRollappKey, noticeQueueBySeqTimeKey,
    noticeQueueByTimeKey, encodeTimeToKey, noticePeriodQueueKey]

-- non-vacuity (time keys): realistic in-range times, an entry inside and one outside a scan
example : (⟨2024, 2, 29, 23, 59, 59, 999999999⟩ : TimeF).Calendar := by unfold TimeF.Calendar; decide
example : (⟨0, 1, 1, 0, 0, 0, 0⟩ : TimeF).InRange ∧ (⟨9999, 12, 31, 23, 59, 59, 999999999⟩ : TimeF).InRange := by
  unfold TimeF.InRange; decide
example : inRangeO (noticeQueueRange ⟨2024, 3, 1, 0, 0, 0, 0⟩).1 (noticeQueueRange ⟨2024, 3, 1, 0, 0, 0, 0⟩).2
    (noticeQueueBySeqTimeKey [100] ⟨2024, 3, 1, 0, 0, 0, 0⟩) = true ∧
  inRangeO (noticeQueueRange ⟨2024, 3, 1, 0, 0, 0, 0⟩).1 (noticeQueueRange ⟨2024, 3, 1, 0, 0, 0, 0⟩).2
    (noticeQueueBySeqTimeKey [100] ⟨2024, 3, 1, 0, 0, 0, 1⟩) = false := by decide

/-! ## Buy-order ids (x/dymns): id = type prefix ("10" Dym-Name / "20" alias) ++ decimal number -/

/-- C19 "every created id is valid": for every asset type and every positive uint64 `n`,
    `CreateBuyOrderId` does not panic, returns prefix ++ decimal(n), and that id passes
    `IsValidBuyOrderId` -/
theorem buy_order_id_created_valid (t : AssetType) (n : Nat) (h0 : 0 < n) (h : n < 2 ^ 64) :
    createBuyOrderId t n = some (buyOrderIdPrefix t ++ decStr n) ∧
      isValidBuyOrderId (buyOrderIdPrefix t ++ decStr n) = true := by
  have hp := parseBuyOrderId_create t n h0 h
  simp [createBuyOrderId, isValidBuyOrderId, hp]

/-- the edge, stated: number 0 is rejected by the validator, so `CreateBuyOrderId(_, 0)` panics
    (the keeper's counter starts at 1) -/
theorem buy_order_id_zero_panics (t : AssetType) : createBuyOrderId t 0 = none := by
  cases t <;> decide

/-- C19 "round-trips exactly": the id created for (type, n) decomposes back to exactly (type, n) -/
theorem buy_order_id_roundtrip (t : AssetType) (n : Nat) (id : Bytes) (h0 : 0 < n) (h : n < 2 ^ 64)
    (hc : createBuyOrderId t n = some id) : parseBuyOrderId id = some (t, n) := by
  rw [(buy_order_id_created_valid t n h0 h).1] at hc
  cases hc; exact parseBuyOrderId_create t n h0 h

/-- C19 "names one and only one object": the id is injective over (type, number) — for every pair
    of naturals (no bound needed) -/
theorem buy_order_id_injective (t t' : AssetType) (n n' : Nat) (id : Bytes)
    (h : createBuyOrderId t n = some id) (h' : createBuyOrderId t' n' = some id) : t = t' ∧ n = n' := by
  have key : ∀ (t : AssetType) (n : Nat), createBuyOrderId t n = some id →
      buyOrderIdPrefix t ++ decStr n = id := by
    intro t n h
    simp only [createBuyOrderId] at h
    split at h
    · exact Option.some.inj h
    · exact absurd h (by simp)
  have e : buyOrderIdPrefix t ++ decStr n = buyOrderIdPrefix t' ++ decStr n' := by
    rw [key t n h, key t' n' h']
  have e1 := List.append_inj e (by rw [buyOrderIdPrefix_length, buyOrderIdPrefix_length])
  exact ⟨buyOrderIdPrefix_inj _ _ e1.1, decStr_inj _ _ e1.2⟩

/-- the type re-check of `BuyOrder.Validate` (`strings.HasPrefix(id, prefix of the order's type)`)
    accepts a created id for its own type only -/
theorem buy_order_id_type_prefix (t t' : AssetType) (n : Nat) :
    isPrefix (buyOrderIdPrefix t') (buyOrderIdPrefix t ++ decStr n) = true ↔ t' = t := by
  constructor
  · intro h
    obtain ⟨r, e⟩ := (isPrefix_iff _ _).1 h
    have := List.append_inj e (by rw [buyOrderIdPrefix_length, buyOrderIdPrefix_length])
    exact (buyOrderIdPrefix_inj _ _ this.1).symm
  · rintro rfl; exact isPrefix_append _ _

/-- every id the validator accepts is a type prefix followed by a decimal string of a positive uint64 -/
theorem buy_order_id_valid_shape (id : Bytes) (h : isValidBuyOrderId id = true) :
    ∃ t n, parseBuyOrderId id = some (t, n) ∧ id = buyOrderIdPrefix t ++ id.drop 2 ∧
      parseU64 (id.drop 2) = some n ∧ 0 < n ∧ n < 2 ^ 64 := by
  unfold isValidBuyOrderId at h
  cases hp : parseBuyOrderId id with
  | none => simp [hp] at h
  | some p =>
    obtain ⟨t, n⟩ := p
    have := parseBuyOrderId_some id t n hp
    refine ⟨t, n, rfl, this.1, this.2.1, this.2.2, ?_⟩
    have h2 := this.2.1
    unfold parseU64 at h2
    split at h2
    · simp at h2
    · split at h2
      · split at h2
        · cases h2; assumption
        · simp at h2
      · simp at h2

/-- the validator is looser than the constructor: decimal strings with leading zeros are accepted,
    so two distinct *valid* id strings can decompose to the same (type, number).  They are still two
    different store keys (`BuyOrderKey` is the raw id string, see `dymns_*` below) and only the
    canonical one is ever created, so no record is reachable under two names; recorded as a remark. -/
theorem buy_order_id_validator_not_injective_counterexample :
    let a : Bytes := [49, 48, 49]       -- "101"
    let b : Bytes := [49, 48, 48, 49]   -- "1001"
    a ≠ b ∧ isValidBuyOrderId a = true ∧ isValidBuyOrderId b = true ∧
      parseBuyOrderId a = parseBuyOrderId b ∧ createBuyOrderId .name 1 = some a := by decide

/-- … and that is the only looseness: a valid id whose number carries no leading zero IS the id
    `CreateBuyOrderId` hands out for the (type, number) it decomposes to — on canonical ids the
    decomposition is a bijection with (type, positive uint64) -/
theorem buy_order_id_canonical_partial (id : Bytes) (t : AssetType) (n : Nat)
    (hp : parseBuyOrderId id = some (t, n)) (hlead : ∀ c cs, id.drop 2 = c :: cs → c ≠ 48) :
    createBuyOrderId t n = some id := by
  obtain ⟨hshape, hnum, hpos⟩ := parseBuyOrderId_some id t n hp
  have hn : n < 2 ^ 64 ∧ id.drop 2 ≠ [] ∧ decValAux 0 (id.drop 2) = some n := by
    unfold parseU64 at hnum
    split at hnum
    · simp at hnum
    · rename_i hne
      split at hnum
      · rename_i v hv
        split at hnum
        · cases hnum
          exact ⟨by assumption, by intro e; rw [e] at hne; simp at hne, hv⟩
        · simp at hnum
      · simp at hnum
  have hc := digits_canonical (id.drop 2) n hlead hn.2.1 hn.2.2
  rw [(buy_order_id_created_valid t n hpos hn.1).1, ← hc, ← hshape]

-- non-vacuity (buy-order ids)
example : createBuyOrderId .alias 18446744073709551615 =
    some ([50, 48] ++ [49,56,52,52,54,55,52,52,48,55,51,55,48,57,53,53,49,54,49,53]) := by decide
example : isValidBuyOrderId ([49, 48] ++ [49,56,52,52,54,55,52,52,48,55,51,55,48,57,53,53,49,54,49,54]) = false := by
  decide

/-! ## IRO denoms and plan keys (x/iro) -/

/-- C19 "IRO token denoms round-trip": `RollappIDFromIRODenom(IRODenom(r)) = (r, true)` for every r -/
theorem iro_denom_roundtrip (r : Bytes) : rollappIDFromIRODenom (iroDenom r) = some r := by
  simp only [rollappIDFromIRODenom, cutPrefix, iroDenom, isPrefix_append, if_true]
  rw [List.drop_left' rfl]

/-- distinct rollapp ids have distinct IRO denoms -/
theorem iro_denom_injective (r r' : Bytes) (h : iroDenom r = iroDenom r') : r = r' := by
  simpa [iroDenom] using h

/-- a denom names a rollapp exactly when it is that rollapp's IRO denom (one and only one object) -/
theorem iro_denom_decode_iff (d r : Bytes) : rollappIDFromIRODenom d = some r ↔ d = iroDenom r := by
  constructor
  · intro h
    simp only [rollappIDFromIRODenom, cutPrefix] at h
    split at h
    · rename_i hp
      obtain ⟨x, e⟩ := (isPrefix_iff _ _).1 hp
      subst e
      simp only [Option.some.injEq] at h
      rw [List.drop_left' rfl] at h
      subst h; rfl
    · simp at h
  · rintro rfl; exact iro_denom_roundtrip r

/-- plan keys and plans-by-rollapp keys are injective in their component -/
theorem plan_key_injective (a b : Bytes) (h : planKey a = planKey b) : a = b := by
  simpa [planKey] using h
theorem plans_by_rollapp_key_injective (a b : Bytes) (h : plansByRollappKey a = plansByRollappKey b) : a = b := by
  simpa [plansByRollappKey] using h

/-- plan ids (every natural, hence every uint64) get distinct store keys -/
theorem plan_key_by_id_injective (a b : Nat) (h : planKeyById a = planKeyById b) : a = b :=
  decStr_inj a b (plan_key_injective _ _ h)

/-- the IRO store's families (plan 0x01, plans-by-rollapp 0x02, last-plan-id 0x03, params 0x04) never collide -/
theorem iro_families_disjoint (a b : Bytes) :
    planKey a ≠ plansByRollappKey b ∧ planKey a ≠ [3] ∧ planKey a ≠ [4] ∧
    plansByRollappKey b ≠ [3] ∧ plansByRollappKey b ≠ [4] := by
  simp [planKey, plansByRollappKey]

-- non-vacuity (IRO)
example : rollappIDFromIRODenom [73, 82, 79, 47, 114, 95, 49, 45, 49] = some [114, 95, 49, 45, 49] ∧
    rollappIDFromIRODenom [73, 82, 79, 120] = none := by decide

/-! ## Lockup reference keys (x/lockup): `combineKeys` joins with the separator 0xFF

A lock reference is stored under `U FF family FF [owner FF] [denom FF] subkey FF be64(lockID)` where
`U` = 0x03 (not unlocking) / 0x04 (unlocking), `subkey` = duration key `06 FF be64(d)` or time key
`05 be64(29) formatted-time`.  Scans (iterator.go) are prefix scans or ranges between such keys.
Hypotheses used, stated where needed: denoms contain no byte 0xFF (the SDK's denom regex is ASCII);
owner addresses of the two entries have equal length (all 20-byte, or all 32-byte). -/

/-- C19 "sort numerically" (duration): for non-negative int64 durations the duration keys sort as the durations -/
theorem lockup_duration_key_order (d d' : Int) (h0 : 0 ≤ d) (h0' : 0 ≤ d') (h : d < 2 ^ 63) (h' : d' < 2 ^ 63) :
    lexLt (lkDurationKey d) (lkDurationKey d') = decide (d < d') := by
  rw [lkDurationKey_eq d h0, lkDurationKey_eq d' h0']
  simp only [lexLt, Nat.lt_irrefl, if_false]
  rw [lexLt_be64 _ _ (by omega) (by omega)]
  by_cases hd : d < d'
  · have : d.toNat < d'.toNat := by omega
    simp [hd, this]
  · have : ¬ d.toNat < d'.toNat := by omega
    simp [hd, this]

/-- the edge, stated: `getDurationKey` clamps negative durations, so every negative duration shares the key of 0 -/
theorem lockup_duration_key_negative (d : Int) (h : d < 0) : lkDurationKey d = lkDurationKey 0 := by
  simp [lkDurationKey, h]

/-- C19 "sort by time" (lockup): time keys sort chronologically for in-range times -/
theorem lockup_time_key_order (a b : TimeF) (ha : a.InRange) (hb : b.InRange) :
    lexLt (lkTimeKey a) (lkTimeKey b) = lexLt a.fields b.fields := by
  rw [lkTimeKey_eq a ha, lkTimeKey_eq b hb, lexLt_append_left, lexLt_fmtTime a b ha hb]

theorem lockup_time_key_injective (a b : TimeF) (ha : a.InRange) (hb : b.InRange)
    (h : lkTimeKey a = lkTimeKey b) : a = b := by
  rw [lkTimeKey_eq a ha, lkTimeKey_eq b hb] at h
  exact fmtTime_inj a b ha hb (List.append_cancel_left h)

/-- the reference keys of a lock are exactly: the four duration-indexed families (0x07 all, 0x08 by
    owner, 0x09 by denom, 0x0A by owner and denom) and the four time-indexed ones (0x0B..0x0E) -/
theorem lock_ref_keys_mem (l : LockK) (k : Bytes) :
    k ∈ lockRefKeys l ↔
      k = combineKeys [[7], lkDurationKey l.duration] ∨
      k = combineKeys [[8], l.owner, lkDurationKey l.duration] ∨
      (∃ dn ∈ l.denoms, k = combineKeys [[9], dn, lkDurationKey l.duration] ∨
        k = combineKeys [[10], l.owner, dn, lkDurationKey l.duration]) ∨
      k = combineKeys [[11], lkTimeKey l.endTime] ∨
      k = combineKeys [[12], l.owner, lkTimeKey l.endTime] ∨
      (∃ dn ∈ l.denoms, k = combineKeys [[13], dn, lkTimeKey l.endTime] ∨
        k = combineKeys [[14], l.owner, dn, lkTimeKey l.endTime]) := by
  simp only [lockRefKeys, durationLockRefKeys, List.mem_append, List.mem_cons, List.mem_flatMap,
    List.not_mem_nil, or_false]
  constructor
  · rintro ((((h | h) | ⟨dn, hd, h⟩) | h | h) | ⟨dn, hd, h⟩)
    · exact Or.inl h
    · exact Or.inr (Or.inl h)
    · exact Or.inr (Or.inr (Or.inl ⟨dn, hd, h⟩))
    · exact Or.inr (Or.inr (Or.inr (Or.inl h)))
    · exact Or.inr (Or.inr (Or.inr (Or.inr (Or.inl h))))
    · exact Or.inr (Or.inr (Or.inr (Or.inr (Or.inr ⟨dn, hd, h⟩))))
  · rintro (h | h | ⟨dn, hd, h⟩ | h | h | ⟨dn, hd, h⟩)
    · exact Or.inl (Or.inl (Or.inl (Or.inl h)))
    · exact Or.inl (Or.inl (Or.inl (Or.inr h)))
    · exact Or.inl (Or.inl (Or.inr ⟨dn, hd, h⟩))
    · exact Or.inl (Or.inr (Or.inl h))
    · exact Or.inl (Or.inr (Or.inr h))
    · exact Or.inr ⟨dn, hd, h⟩

/-- **the end-blocker's matured-locks scan** `LockIteratorBeforeTime(ctx, T)` returns the time
    reference of an unlocking lock exactly when its end time is ≤ T -/
theorem lockup_matured_scan_exact (T t : TimeF) (id : Nat) (hT : T.InRange) (ht : t.InRange) :
    inRangeO (iterBeforeTime (lkFamilyPrefix true 11 []) T).1 (iterBeforeTime (lkFamilyPrefix true 11 []) T).2
      (lockRefStoreKey true (combineKeys [[11], lkTimeKey t]) id) = !(lexLt T.fields t.fields) := by
  have hend : prefixEnd (combineKeys [[4, 255, 11], lkTimeKey T]) =
      some ([4, 255, 11, 255] ++ incLast (lkTimeKey T)) := by
    have := prefixEnd_incLast [4, 255, 11, 255] (lkTimeKey T) (lkTimeKey_ne_nil T) (lkTimeKey_lt255 T hT)
    simpa [combineKeys] using this
  have hk : lockRefStoreKey true (combineKeys [[11], lkTimeKey t]) id =
      [4, 255, 11] ++ (255 :: (lkTimeKey t ++ 255 :: be64 id)) := by
    simp [lockRefStoreKey, combineKeys, unlockingPrefix]
  have hp : lkFamilyPrefix true 11 [] = [4, 255, 11] := by simp [lkFamilyPrefix, combineKeys, unlockingPrefix]
  simp only [iterBeforeTime, inRangeO, hk, hp, hend, lexLe, lexLt_self_append, Bool.not_false, Bool.true_and]
  have : lexLt ([4, 255, 11] ++ 255 :: (lkTimeKey t ++ 255 :: be64 id)) ([4, 255, 11, 255] ++ incLast (lkTimeKey T))
      = lexLt (lkTimeKey t ++ 255 :: be64 id) (incLast (lkTimeKey T)) := by simp [lexLt]
  rw [this, timeKey_tail_lt T t hT ht]

/-- the per-owner variant `AccountLockIteratorBeforeTime(addr, T)` (what `GetAccountUnlockableCoins`
    reads): returns an entry of owner `B` with end time `t` exactly when `B = A` and `t ≤ T` — for
    owners of equal address length -/
theorem lockup_account_before_time_scan_exact (A B : Bytes) (T t : TimeF) (id : Nat)
    (hl : A.length = B.length) (hT : T.InRange) (ht : t.InRange) :
    inRangeO (iterBeforeTime (lkFamilyPrefix true 12 [A]) T).1 (iterBeforeTime (lkFamilyPrefix true 12 [A]) T).2
      (lockRefStoreKey true (combineKeys [[12], B, lkTimeKey t]) id) =
      (decide (B = A) && !(lexLt T.fields t.fields)) := by
  have hend : prefixEnd (combineKeys [[4, 255, 12, 255] ++ A, lkTimeKey T]) =
      some ([4, 255, 12, 255] ++ (A ++ 255 :: incLast (lkTimeKey T))) := by
    have := prefixEnd_incLast ([4, 255, 12, 255] ++ A ++ [255]) (lkTimeKey T) (lkTimeKey_ne_nil T) (lkTimeKey_lt255 T hT)
    simpa [combineKeys] using this
  have hk : lockRefStoreKey true (combineKeys [[12], B, lkTimeKey t]) id =
      [4, 255, 12, 255] ++ (B ++ 255 :: (lkTimeKey t ++ 255 :: be64 id)) := by
    simp [lockRefStoreKey, combineKeys, unlockingPrefix]
  have hp : lkFamilyPrefix true 12 [A] = [4, 255, 12, 255] ++ A := by
    simp [lkFamilyPrefix, combineKeys, unlockingPrefix]
  simp only [iterBeforeTime, inRangeO, hk, hp, hend]
  have := inRange_prefix [4, 255, 12, 255] A (A ++ 255 :: incLast (lkTimeKey T)) (B ++ 255 :: (lkTimeKey t ++ 255 :: be64 id))
  simp only [inRange] at this
  rw [this]
  have e := eqlen_range A B (255 :: incLast (lkTimeKey T)) (255 :: (lkTimeKey t ++ 255 :: be64 id)) hl
  simp only [inRange] at e
  rw [e]
  simp only [lexLt, Nat.lt_irrefl, if_false, timeKey_tail_lt T t hT ht]

/-- `LockIteratorAfterTimeDenom(denom, T)` (what `GetLocksPastTimeDenom` reads): returns an entry of
    denom `dn'` with end time `t` exactly when `dn' = dn` and `t` is strictly after `T` — for every pair
    of denoms without the byte 0xFF, *including* denoms that extend one another -/
theorem lockup_denom_after_time_scan_exact (dn dn' : Bytes) (T t : TimeF) (id : Nat)
    (hne : dn ≠ []) (hd : ∀ c ∈ dn, c < 255) (hd' : ∀ c ∈ dn', c < 255) (hT : T.InRange) (ht : t.InRange) :
    inRangeO (iterAfterTime (lkFamilyPrefix true 13 [dn]) T).1 (iterAfterTime (lkFamilyPrefix true 13 [dn]) T).2
      (lockRefStoreKey true (combineKeys [[13], dn', lkTimeKey t]) id) =
      (decide (dn' = dn) && lexLt T.fields t.fields) := by
  have hstart : prefixEnd (combineKeys [lkFamilyPrefix true 13 [dn], lkTimeKey T]) =
      some ([4, 255, 13, 255] ++ (dn ++ 255 :: incLast (lkTimeKey T))) := by
    have := prefixEnd_incLast ([4, 255, 13, 255] ++ dn ++ [255]) (lkTimeKey T) (lkTimeKey_ne_nil T) (lkTimeKey_lt255 T hT)
    simpa [combineKeys, lkFamilyPrefix, unlockingPrefix] using this
  have hend : prefixEnd (lkFamilyPrefix true 13 [dn]) = some ([4, 255, 13, 255] ++ incLast dn) := by
    have := prefixEnd_incLast [4, 255, 13, 255] dn hne hd
    simpa [combineKeys, lkFamilyPrefix, unlockingPrefix] using this
  have hk : lockRefStoreKey true (combineKeys [[13], dn', lkTimeKey t]) id =
      [4, 255, 13, 255] ++ (dn' ++ 255 :: (lkTimeKey t ++ 255 :: be64 id)) := by
    simp [lockRefStoreKey, combineKeys, unlockingPrefix]
  simp only [iterAfterTime, inRangeO, hstart, hend, hk, Option.getD_some]
  have := inRange_prefix [4, 255, 13, 255] (dn ++ 255 :: incLast (lkTimeKey T)) (incLast dn)
    (dn' ++ 255 :: (lkTimeKey t ++ 255 :: be64 id))
  simp only [inRange] at this
  rw [this]
  have e := sepmax_range dn dn' (incLast (lkTimeKey T)) (lkTimeKey t ++ 255 :: be64 id) hne hd hd'
  simp only [inRange] at e
  rw [e, lexLe, timeKey_tail_lt T t hT ht]; simp

/-- `LockIteratorLongerThanDurationDenom(u, denom, d)` (what `GetLocksDenom`, the module's balance
    invariant and `GetLocksLongerThanDurationDenom` read): returns an entry of denom `dn'` with duration
    `d'` exactly when `dn' = dn` and `d ≤ d'` — for every pair of denoms without the byte 0xFF -/
theorem lockup_denom_longer_duration_scan_exact (u : Bool) (dn dn' : Bytes) (d d' : Int) (id : Nat)
    (hne : dn ≠ []) (hd : ∀ c ∈ dn, c < 255) (hd' : ∀ c ∈ dn', c < 255)
    (h0 : 0 ≤ d) (h0' : 0 ≤ d') (h : d < 2 ^ 63) (h' : d' < 2 ^ 63) :
    inRangeO (iterLongerDuration (lkFamilyPrefix u 9 [dn]) d).1 (iterLongerDuration (lkFamilyPrefix u 9 [dn]) d).2
      (lockRefStoreKey u (combineKeys [[9], dn', lkDurationKey d']) id) =
      (decide (dn' = dn) && decide (d ≤ d')) := by
  have hend : prefixEnd (lkFamilyPrefix u 9 [dn]) = some ((unlockingPrefix u ++ [255, 9, 255]) ++ incLast dn) := by
    have := prefixEnd_incLast (unlockingPrefix u ++ [255, 9, 255]) dn hne hd
    simpa [combineKeys, lkFamilyPrefix] using this
  have hstart : combineKeys [lkFamilyPrefix u 9 [dn], lkDurationKey d] =
      (unlockingPrefix u ++ [255, 9, 255]) ++ (dn ++ 255 :: lkDurationKey d) := by
    simp [combineKeys, lkFamilyPrefix]
  have hk : lockRefStoreKey u (combineKeys [[9], dn', lkDurationKey d']) id =
      (unlockingPrefix u ++ [255, 9, 255]) ++ (dn' ++ 255 :: (lkDurationKey d' ++ 255 :: be64 id)) := by
    simp [lockRefStoreKey, combineKeys]
  simp only [iterLongerDuration, inRangeO, hstart, hend, hk]
  have := inRange_prefix (unlockingPrefix u ++ [255, 9, 255]) (dn ++ 255 :: lkDurationKey d) (incLast dn)
    (dn' ++ 255 :: (lkDurationKey d' ++ 255 :: be64 id))
  simp only [inRange] at this
  rw [this]
  have e := sepmax_range dn dn' (lkDurationKey d) (lkDurationKey d' ++ 255 :: be64 id) hne hd hd'
  simp only [inRange] at e
  rw [e, durKey_tail_le d d' h0 h0' (by omega) (by omega)]

/-- C19 "a scan for one owner never returns entries of another": `AccountLockIterator(u, A)` (what
    `GetAccountPeriodLocks`, `GetAccountLockedCoins` and begin-unlock-all read) matches an entry of owner
    `B` exactly when `B = A` — for owners of equal address length -/
theorem lockup_account_scan_exact_partial (u : Bool) (A B : Bytes) (d : Int) (id : Nat) (hl : A.length = B.length) :
    isPrefix (iterPrefix (lkFamilyPrefix u 8 [A])).1 (lockRefStoreKey u (combineKeys [[8], B, lkDurationKey d]) id)
      = decide (A = B) := by
  have hk : lockRefStoreKey u (combineKeys [[8], B, lkDurationKey d]) id =
      (unlockingPrefix u ++ [255, 8, 255]) ++ (B ++ 255 :: (lkDurationKey d ++ 255 :: be64 id)) := by
    simp [lockRefStoreKey, combineKeys]
  have hp : lkFamilyPrefix u 8 [A] = (unlockingPrefix u ++ [255, 8, 255]) ++ A := by
    simp [lkFamilyPrefix, combineKeys]
  simp only [iterPrefix, hk, hp]
  rw [isPrefix_append_left, eqlen_isPrefix A B _ hl]

/-- the full statement (no length hypothesis) is false: the owner prefix carries no trailing separator,
    so the scan for a 20-byte address returns the entry of a 32-byte address that extends it (the hub's
    address verifier accepts both lengths).  This needs a 32-byte (module/ICA) address whose first 20
    bytes equal another account's 20-byte address, i.e. a 160-bit hash-prefix collision: recorded as an
    assumption, not as a finding. -/
theorem lockup_account_scan_exact_counterexample :
    let A : Bytes := List.replicate 20 1
    let B : Bytes := List.replicate 32 1
    A ≠ B ∧ isPrefix (iterPrefix (lkFamilyPrefix false 8 [A])).1
      (lockRefStoreKey false (combineKeys [[8], B, lkDurationKey 5]) 7) = true := by decide

/-- `AccountLockIteratorDuration(u, A, d)` (what `GetAccountLockedDuration` reads): exactly owner `A`
    and exactly duration `d` — for owners of equal address length -/
theorem lockup_account_duration_scan_exact (u : Bool) (A B : Bytes) (d d' : Int) (id : Nat)
    (hl : A.length = B.length) (h0 : 0 ≤ d) (h0' : 0 ≤ d') (h : d < 2 ^ 63) (h' : d' < 2 ^ 63) :
    isPrefix (iterDuration (lkFamilyPrefix u 8 [A]) d).1
      (lockRefStoreKey u (combineKeys [[8], B, lkDurationKey d']) id) = (decide (A = B) && decide (d = d')) := by
  have hk : lockRefStoreKey u (combineKeys [[8], B, lkDurationKey d']) id =
      (unlockingPrefix u ++ [255, 8, 255]) ++ ((B ++ 255 :: 6 :: 255 :: be64 d'.toNat) ++ 255 :: be64 id) := by
    simp [lockRefStoreKey, combineKeys, lkDurationKey_eq d' h0']
  have hp : combineKeys [lkFamilyPrefix u 8 [A], lkDurationKey d] =
      (unlockingPrefix u ++ [255, 8, 255]) ++ (A ++ 255 :: 6 :: 255 :: be64 d.toNat) := by
    simp [lkFamilyPrefix, combineKeys, lkDurationKey_eq d h0]
  simp only [iterDuration, iterPrefix, hk, hp]
  rw [isPrefix_append_left, eqlen_isPrefix _ _ _ (by simp [be64_length, hl])]
  by_cases hA : A = B
  · subst hA
    by_cases hd : d = d'
    · subst hd; simp
    · have : be64 d.toNat ≠ be64 d'.toNat := fun e => hd (by
        have := be64_inj _ _ (by omega) (by omega) e; omega)
      simp [hd, this]
  · have : ¬ (A ++ 255 :: 6 :: 255 :: be64 d.toNat = B ++ 255 :: 6 :: 255 :: be64 d'.toNat) := fun e =>
      hA (List.append_inj e hl).1
    simp [hA, this]

/-- the plain per-denom prefix scans `LockIteratorDenom` / `AccountLockIteratorDenom` (and the lower
    bound of `…BeforeTimeDenom`): exported keeper methods WITHOUT callers in the hub.  Their prefix
    `… FF denom` has no trailing separator, so the scan for a denom also returns the entries of every
    denom that extends it ("gamm/pool/1" returns "gamm/pool/10").  Full statement kept:
      `isPrefix (iterPrefix (lkFamilyPrefix u 9 [dn])).1 (lockRefStoreKey u (combineKeys [[9], dn', dk]) id) = decide (dn = dn')`
    holds for equal-length denoms (`…_partial`) and fails in general (`…_counterexample`). -/
theorem lockup_denom_prefix_scan_exact_partial (u : Bool) (dn dn' : Bytes) (d : Int) (id : Nat)
    (hl : dn.length = dn'.length) :
    isPrefix (iterPrefix (lkFamilyPrefix u 9 [dn])).1 (lockRefStoreKey u (combineKeys [[9], dn', lkDurationKey d]) id)
      = decide (dn = dn') := by
  have hk : lockRefStoreKey u (combineKeys [[9], dn', lkDurationKey d]) id =
      (unlockingPrefix u ++ [255, 9, 255]) ++ (dn' ++ 255 :: (lkDurationKey d ++ 255 :: be64 id)) := by
    simp [lockRefStoreKey, combineKeys]
  have hp : lkFamilyPrefix u 9 [dn] = (unlockingPrefix u ++ [255, 9, 255]) ++ dn := by
    simp [lkFamilyPrefix, combineKeys]
  simp only [iterPrefix, hk, hp]
  rw [isPrefix_append_left, eqlen_isPrefix dn dn' _ hl]

theorem lockup_denom_prefix_scan_exact_counterexample :
    let dn : Bytes := [112, 47, 49]          -- "p/1"
    let dn' : Bytes := [112, 47, 49, 48]     -- "p/10"
    isPrefix (iterPrefix (lkFamilyPrefix false 9 [dn])).1
      (lockRefStoreKey false (combineKeys [[9], dn', lkDurationKey 5]) 7) = true ∧ dn ≠ dn' := by decide

-- non-vacuity (lockup): hypotheses met by a realistic denom pair that extend one another
example : (∀ c ∈ ([112, 47, 49] : Bytes), c < 255) ∧ (∀ c ∈ ([112, 47, 49, 48] : Bytes), c < 255) := by decide
example : inRangeO (iterLongerDuration (lkFamilyPrefix false 9 [[112, 47, 49]]) 0).1
    (iterLongerDuration (lkFamilyPrefix false 9 [[112, 47, 49]]) 0).2
    (lockRefStoreKey false (combineKeys [[9], [112, 47, 49, 48], lkDurationKey 5]) 7) = false ∧
  inRangeO (iterLongerDuration (lkFamilyPrefix false 9 [[112, 47, 49]]) 0).1
    (iterLongerDuration (lkFamilyPrefix false 9 [[112, 47, 49]]) 0).2
    (lockRefStoreKey false (combineKeys [[9], [112, 47, 49], lkDurationKey 5]) 7) = true := by decide

/-! ## x/dymns store keys -/

/-- C19 "names one and only one object" for the DymNS store: the map from (family, component) to
    store key is injective — each key family is injective in its component AND no key of one family
    is a key of another, for all component values (all byte strings, including empty ones) -/
theorem dymns_key_injective (a b : DymnsKey) (h : a.bytes = b.bytes) : a = b := by
  rcases a with _ | _ | _ | _ | ⟨_, _ | _⟩ | _ | _ | _ | _ | _ | _ | _ <;> rcases b with _ | _ | _ | _ | ⟨_, _ | _⟩ | _ | _ | _ | _ | _ | _ | _ <;>
    simp_all [DymnsKey.bytes, dymNameKey, dymNamesOwnedByAccountRvlKey,
      configuredAddressToDymNamesIncludeRvlKey, fallbackAddressToDymNamesIncludeRvlKey, sellOrderKey,
      keyCountBuyOrders, buyOrderKey, buyerToOrderIdsRvlKey, dymNameToBuyOrderIdsRvlKey,
      aliasToBuyOrderIdsRvlKey, rollAppIdToAliasesKey, aliasToRollAppIdRvlKey]

/-- every key carries its family's prefix … -/
theorem dymns_key_has_family_prefix (a : DymnsKey) : isPrefix a.familyPrefix a.bytes = true := by
  rcases a with _ | _ | _ | _ | ⟨_, _ | _⟩ | _ | _ | _ | _ | _ | _ | _ <;>
    simp [DymnsKey.familyPrefix, DymnsKey.bytes, isPrefix, dymNameKey, dymNamesOwnedByAccountRvlKey,
      configuredAddressToDymNamesIncludeRvlKey, fallbackAddressToDymNamesIncludeRvlKey, sellOrderKey,
      keyCountBuyOrders, buyOrderKey, buyerToOrderIdsRvlKey, dymNameToBuyOrderIdsRvlKey,
      aliasToBuyOrderIdsRvlKey, rollAppIdToAliasesKey, aliasToRollAppIdRvlKey]

/-- … and a whole-family iteration (prefix scan with a family's `KeyPrefix…`) never returns a key of
    another family: the family prefixes are pairwise prefix-free -/
theorem dymns_family_scan_exact (a b : DymnsKey) (h : isPrefix a.familyPrefix b.bytes = true) :
    a.family = b.family := by
  rcases a with _ | _ | _ | _ | ⟨_, _ | _⟩ | _ | _ | _ | _ | _ | _ | _ <;> rcases b with _ | _ | _ | _ | ⟨_, _ | _⟩ | _ | _ | _ | _ | _ | _ | _ <;>
    simp_all [DymnsKey.bytes, DymnsKey.familyPrefix, DymnsKey.family, isPrefix, dymNameKey, dymNamesOwnedByAccountRvlKey,
      configuredAddressToDymNamesIncludeRvlKey, fallbackAddressToDymNamesIncludeRvlKey, sellOrderKey,
      keyCountBuyOrders, buyOrderKey, buyerToOrderIdsRvlKey, dymNameToBuyOrderIdsRvlKey,
      aliasToBuyOrderIdsRvlKey, rollAppIdToAliasesKey, aliasToRollAppIdRvlKey]

/-- buy-order records: distinct (type, number) pairs get distinct store keys (id creation composed
    with `BuyOrderKey`) -/
theorem dymns_buy_order_key_injective (t t' : AssetType) (n n' : Nat) (i i' : Bytes)
    (h : createBuyOrderId t n = some i) (h' : createBuyOrderId t' n' = some i')
    (e : buyOrderKey i = buyOrderKey i') : t = t' ∧ n = n' := by
  have : i = i' := by simpa [buyOrderKey] using e
  subst this
  exact buy_order_id_injective t t' n n' i h h'

-- non-vacuity (dymns): a Dym-Name "a" and an alias "a" have different sell-order keys; the empty
-- component is allowed
example : (DymnsKey.sellOrder [97] .name).bytes ≠ (DymnsKey.sellOrder [97] .alias).bytes := by decide
example : (DymnsKey.dymName []).bytes = [1] := rfl

end DymVerif.C19
