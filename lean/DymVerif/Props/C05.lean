/-
  Props/C05 — eIBC orders: fulfilled at most once, with exact and conserving payments.
  Theorems over M-Packets (Model/Packets.lean): what every accepted eIBC message implies, for all
  states, and invariants for all operation sequences.
-/
import DymVerif.Lemmas.PacketsEibc2
import DymVerif.Lemmas.GenEqEibc
import DymVerif.Lemmas.PacketsOrders
namespace DymVerif.C05
open DymVerif DymVerif.Keys DymVerif.Packets

/-- the order `id` is outstanding in `s`: pending, unfulfilled, its packet pending and not finalizable -/
def Outstanding (s : St) (id : Bytes) (o : Order) (p : Packet) : Prop :=
  getOrder s .pending id = some o ∧ o.fulfiller = none ∧ getPacket s o.trackingKey = some p ∧ p.status = .pending ∧
  NotFinalizable s o.rollappId p.proofHeight

theorem getPacket_congr {s s1 : St} (h : s1.packets = s.packets) (k : Bytes) : getPacket s1 k = getPacket s k := by
  unfold getPacket; rw [h]

theorem getOrder_congr {s s1 : St} (h : s1.orders = s.orders) (st : Status) (k : Bytes) : getOrder s1 st k = getOrder s st k := by
  unfold getOrder; rw [h]

theorem sendCoins_fields {s s1 : St} {a b d v} (h : sendCoins s a b d v = some s1) :
    s1.packets = s.packets ∧ s1.orders = s.orders ∧ s1.lps = s.lps ∧ s1.grants = s.grants ∧ s1.ras = s.ras := by
  unfold sendCoins at h
  split at h
  · cases h; exact ⟨rfl, rfl, rfl, rfl, rfl⟩
  · split at h
    · cases h
    · cases h; exact ⟨rfl, rfl, rfl, rfl, rfl⟩

theorem payOperator_fields {s s1 : St} {a b d v} (h : payOperator s a b d v = some s1) :
    s1.packets = s.packets ∧ s1.orders = s.orders ∧ s1.lps = s.lps ∧ s1.grants = s.grants ∧ s1.ras = s.ras := by
  unfold payOperator at h
  split at h
  · exact sendCoins_fields h
  · cases h; exact ⟨rfl, rfl, rfl, rfl, rfl⟩

theorem lpDel_fields {s s1 : St} (h : LpDel s s1) :
    s1.packets = s.packets ∧ s1.orders = s.orders ∧ s1.bal = s.bal ∧ s1.accts = s.accts ∧ s1.ras = s.ras ∧ s1.h = s.h := by
  rw [h.eq]; exact ⟨rfl, rfl, rfl, rfl, rfl, rfl⟩

-- ================================================================== fulfil_only_outstanding

/-- **fulfil_only_outstanding** (direct fulfilment) -/
theorem fulfil_only_outstanding {s s' : St} {a : Addr} {id : Bytes} {fee : Int} (h : msgFulfill s a id fee = .ok s') :
    ∃ o p, Outstanding s id o p := by
  obtain ⟨o, ho, _, hc⟩ := msgFulfill_ok h
  obtain ⟨h1, h2, p, hp, hn⟩ := getOutstanding_ok ho
  obtain ⟨_, _, _, _, p', hp', hst, _⟩ := fulfillCore_ok hc
  rw [hp] at hp'; cases hp'
  exact ⟨o, p, h1, h2, hp, hst, hn⟩

/-- **fulfil_only_outstanding** (on-demand LP) -/
theorem fulfil_only_outstanding_on_demand {s s' : St} {id : Bytes} {perm : List Nat} (h : msgOnDemand s id perm = .ok s') :
    ∃ o p, Outstanding s id o p := by
  obtain ⟨o, ho, l0, _, s1, s2, hd, hc, _⟩ := msgOnDemand_ok h
  obtain ⟨h1, h2, p, hp, hn⟩ := getOutstanding_ok ho
  obtain ⟨_, _, _, _, p', hp', hst, _⟩ := fulfillCore_ok hc
  rw [getPacket_congr (lpDel_fields hd).1, hp] at hp'; cases hp'
  exact ⟨o, p, h1, h2, hp, hst, hn⟩

theorem getOutstanding_congr {s s1 : St} (h1 : s1.packets = s.packets) (h2 : s1.orders = s.orders) (h3 : s1.ras = s.ras) (id : Bytes) :
    getOutstanding s1 id = getOutstanding s id := by
  unfold getOutstanding getOrder getPacket verifyHeightFinalized finHeight getRa
  rw [h1, h2, h3]

/-- the authorised path runs the handler on the state with the grant updated; everything the handler
    reads besides the grant table is as in `s` -/
theorem authorized_core {s s' : St} {g : Addr} {m : AuthMsg} (h : msgFulfillAuthorized s g m = .ok s') :
    ∃ sg : St, sg.packets = s.packets ∧ sg.orders = s.orders ∧ sg.ras = s.ras ∧ sg.bal = s.bal ∧
      fulfillAuthorizedCore sg m = .ok s' := by
  obtain ⟨_, hcase⟩ := msgFulfillAuthorized_ok h
  rcases hcase with ⟨_, hc⟩ | ⟨_, gr, r, _, _, hc⟩
  · exact ⟨s, rfl, rfl, rfl, rfl, hc⟩
  · cases r with
    | none => exact ⟨delGrant s m.lp g, rfl, rfl, rfl, rfl, hc⟩
    | some g' => exact ⟨setGrant s g', rfl, rfl, rfl, rfl, hc⟩

/-- **fulfil_only_outstanding** (authorised) -/
theorem fulfil_only_outstanding_authorized {s s' : St} {g : Addr} {m : AuthMsg} (h : msgFulfillAuthorized s g m = .ok s') :
    ∃ o p, Outstanding s m.orderId o p := by
  obtain ⟨sg, e1, e2, e3, _, hc⟩ := authorized_core h
  obtain ⟨o, ho, _, s1, s2, hs1, hs2, hf⟩ := fulfillAuthorizedCore_ok hc
  rw [getOutstanding_congr e1 e2 e3] at ho
  obtain ⟨h1, h2, p, hp, hn⟩ := getOutstanding_ok ho
  obtain ⟨p', hp', hst, _⟩ := setOrderFulfilled_ok hf
  have e : s2.packets = s.packets := ((payOperator_fields hs2).1.trans (sendCoins_fields hs1).1).trans e1
  rw [getPacket_congr e, hp] at hp'; cases hp'
  exact ⟨o, p, h1, h2, hp, hst, hn⟩

-- ================================================================== fulfil_fee_exact

/-- **fulfil_fee_exact** — only at the fee the fulfiller stated -/
theorem fulfil_fee_exact {s s' : St} {a : Addr} {id : Bytes} {fee : Int} (h : msgFulfill s a id fee = .ok s') :
    ∃ o, getOrder s .pending id = some o ∧ o.fee = fee := by
  obtain ⟨o, ho, hf, _⟩ := msgFulfill_ok h
  exact ⟨o, (getOutstanding_ok ho).1, hf⟩

theorem fulfil_fee_exact_authorized {s s' : St} {g : Addr} {m : AuthMsg} (h : msgFulfillAuthorized s g m = .ok s') :
    ∃ o, getOrder s .pending m.orderId = some o ∧ o.fee = m.expectedFee := by
  obtain ⟨sg, e1, e2, e3, _, hc⟩ := authorized_core h
  obtain ⟨o, ho, hv, _⟩ := fulfillAuthorizedCore_ok hc
  rw [getOutstanding_congr e1 e2 e3] at ho
  exact ⟨o, (getOutstanding_ok ho).1, (validateOrder_ok hv).2.2.1⟩

-- ================================================================== fulfil_at_most_once

/-- **fulfil_at_most_once** — an order that carries a fulfiller is refused by every fulfilment path
    and by the fee update -/
theorem fulfil_at_most_once {s : St} {id : Bytes} {o : Order} (ho : getOrder s .pending id = some o)
    (hf : o.fulfiller.isSome = true) :
    (∀ a fee s', msgFulfill s a id fee ≠ .ok s') ∧ (∀ perm s', msgOnDemand s id perm ≠ .ok s') ∧
    (∀ g m s', m.orderId = id → msgFulfillAuthorized s g m ≠ .ok s') ∧ (∀ a fee s', msgUpdateFee s a id fee ≠ .ok s') := by
  refine ⟨?_, ?_, ?_, ?_⟩
  · intro a fee s' h
    obtain ⟨o', ho', _⟩ := msgFulfill_ok h
    exact getOutstanding_fulfilled ho hf o' ho'
  · intro perm s' h
    obtain ⟨o', ho', _⟩ := msgOnDemand_ok h
    exact getOutstanding_fulfilled ho hf o' ho'
  · intro g m s' hid h
    subst hid
    obtain ⟨o', p, h1, h2, _⟩ := fulfil_only_outstanding_authorized h
    rw [ho] at h1; cases h1
    rw [h2] at hf; cases hf
  · intro a fee s' h
    obtain ⟨_, o', p, price, ho', _⟩ := msgUpdateFee_ok h
    exact getOutstanding_fulfilled ho hf o' ho'

/-- a successful direct fulfilment marks the order -/
theorem fulfil_marks {s s' : St} {a : Addr} {id : Bytes} {fee : Int} (h : msgFulfill s a id fee = .ok s') :
    ∃ o, getOrder s .pending id = some o ∧ getOrder s' .pending id = some { o with fulfiller := some a } := by
  obtain ⟨o, ho, _, hc⟩ := msgFulfill_ok h
  obtain ⟨h1, _, _⟩ := getOutstanding_ok ho
  obtain ⟨hs, hi⟩ := (getOrder_some h1).2
  obtain ⟨_, _, _, _, _, _, _, _, ho', _⟩ := fulfillCore_ok hc
  refine ⟨o, h1, ?_⟩
  rw [← hi, ← hs]
  exact ho'

/-- hence the same order cannot be fulfilled directly a second time -/
theorem fulfil_twice_impossible {s s' : St} {a : Addr} {id : Bytes} {fee : Int} (h : msgFulfill s a id fee = .ok s') :
    ∀ a' fee' s'', msgFulfill s' a' id fee' ≠ .ok s'' := by
  obtain ⟨o, _, ho'⟩ := fulfil_marks h
  exact (fulfil_at_most_once ho' rfl).1

-- ================================================================== payment_exact

/-- **payment_exact** (direct) — the recipient receives exactly the price from the fulfiller, who
    has it; no other balance moves -/
theorem payment_exact {s s' : St} {a : Addr} {id : Bytes} {fee : Int} (h : msgFulfill s a id fee = .ok s') :
    ∃ o, getOrder s .pending id = some o ∧ (o.price = 0 ∨ o.price ≤ getBal s.bal a o.denom) ∧
      ∀ a' d', getBal s'.bal a' d' = getBal s.bal a' d'
        - (if a' = a ∧ d' = o.denom then o.price else 0) + (if a' = o.recipient ∧ d' = o.denom then o.price else 0) := by
  obtain ⟨o, ho, _, hc⟩ := msgFulfill_ok h
  obtain ⟨_, s1, hs1, hb, _⟩ := fulfillCore_ok hc
  obtain ⟨h1, h2⟩ := sendCoins_spec hs1
  exact ⟨o, (getOutstanding_ok ho).1, h1, fun a' d' => by rw [hb]; exact h2 a' d'⟩

theorem bal_setLp (s : St) (l : LP) : (setLp s l).bal = s.bal := rfl

/-- **payment_exact** (on-demand) — one compatible LP pays exactly the price to the recipient -/
theorem payment_exact_on_demand {s s' : St} {id : Bytes} {perm : List Nat} (h : msgOnDemand s id perm = .ok s') :
    ∃ o l, getOrder s .pending id = some o ∧ l ∈ compatibleLPs s o ∧
      ∀ a' d', getBal s'.bal a' d' = getBal s.bal a' d'
        - (if a' = l.addr ∧ d' = o.denom then o.price else 0) + (if a' = o.recipient ∧ d' = o.denom then o.price else 0) := by
  obtain ⟨o, ho, l0, hl0, s1, s2, hd, hc, rfl⟩ := msgOnDemand_ok h
  obtain ⟨_, s3, hs3, hb, _⟩ := fulfillCore_ok hc
  obtain ⟨_, h2⟩ := sendCoins_spec hs3
  refine ⟨o, l0, (getOutstanding_ok ho).1, hl0, fun a' d' => ?_⟩
  rw [bal_setLp, hb, h2 a' d', (lpDel_fields hd).2.2.1]

/-- **payment_exact** (authorised) — the LP pays the price to the recipient and the operator's share
    `⌊fee · share⌋` to the operator address; no other balance moves -/
theorem payment_exact_authorized {s s' : St} {g : Addr} {m : AuthMsg} (h : msgFulfillAuthorized s g m = .ok s') :
    ∃ o, getOrder s .pending m.orderId = some o ∧
      ∀ a' d', getBal s'.bal a' d' = getBal s.bal a' d'
        - (if a' = m.lp ∧ d' = o.denom then o.price else 0) + (if a' = o.recipient ∧ d' = o.denom then o.price else 0)
        - (if a' = m.lp ∧ d' = o.denom then max (operatorFee o.fee m.share) 0 else 0)
        + (if a' = m.opAddr ∧ d' = o.denom then max (operatorFee o.fee m.share) 0 else 0) := by
  obtain ⟨sg, e1, e2, e3, e4, hc⟩ := authorized_core h
  obtain ⟨o, ho, _, s1, s2, hs1, hs2, hf⟩ := fulfillAuthorizedCore_ok hc
  rw [getOutstanding_congr e1 e2 e3] at ho
  obtain ⟨_, _, _, _, _, hb, _⟩ := setOrderFulfilled_ok hf
  refine ⟨o, (getOutstanding_ok ho).1, fun a' d' => ?_⟩
  rw [hb, payOperator_spec hs2 a' d', (sendCoins_spec hs1).2 a' d', e4]

-- ================================================================== finalize_pays_fulfiller

/-- after a direct fulfilment the packet names the fulfiller and remembers the original recipient -/
theorem fulfil_redirects_packet {s s' : St} {a : Addr} {id : Bytes} {fee : Int} (h : msgFulfill s a id fee = .ok s') :
    ∃ o p, Outstanding s id o p ∧ getPacket s' o.trackingKey = some (retarget p a) := by
  obtain ⟨o, ho, _, hc⟩ := msgFulfill_ok h
  obtain ⟨h1, h2, p, hp, hn⟩ := getOutstanding_ok ho
  obtain ⟨_, _, _, _, p', hp', hst, hr, _⟩ := fulfillCore_ok hc
  rw [hp] at hp'; cases hp'
  exact ⟨o, p, ⟨h1, h2, hp, hst, hn⟩, hr⟩

/-- after an authorised fulfilment the packet names the LP -/
theorem fulfil_authorized_redirects_packet {s s' : St} {g : Addr} {m : AuthMsg} (h : msgFulfillAuthorized s g m = .ok s') :
    ∃ o p, Outstanding s m.orderId o p ∧ getPacket s' o.trackingKey = some (retarget p m.lp) := by
  obtain ⟨sg, e1, e2, e3, _, hc⟩ := authorized_core h
  obtain ⟨o, ho, _, s1, s2, hs1, hs2, hf⟩ := fulfillAuthorizedCore_ok hc
  rw [getOutstanding_congr e1 e2 e3] at ho
  obtain ⟨h1, h2, p, hp, hn⟩ := getOutstanding_ok ho
  obtain ⟨p', hp', hst, hr, _⟩ := setOrderFulfilled_ok hf
  have e : s2.packets = s.packets := ((payOperator_fields hs2).1.trans (sendCoins_fields hs1).1).trans e1
  rw [getPacket_congr e, hp] at hp'; cases hp'
  exact ⟨o, p, ⟨h1, h2, hp, hst, hn⟩, hr⟩

theorem icsCredit_bal {s s' : St} {p : Packet} (h : icsCredit s p = some s') :
    ∀ a' d', a' ≠ p.target → a' ≠ escrowAcct p.chan → getBal s'.bal a' d' = getBal s.bal a' d' := by
  intro a' d' h1 h2
  unfold icsCredit at h
  split at h
  · rw [(sendCoins_spec h).2 a' d']
    simp [h1, h2]
  · cases h
    rw [getBal_credit]; simp [h1]

theorem chargeBridgingFee_bal (s : St) (p : Packet) :
    ∀ a' d', a' ≠ p.target → getBal (chargeBridgingFee s p).bal a' d' = getBal s.bal a' d' := by
  intro a' d' h1
  unfold chargeBridgingFee
  split
  · rfl
  · split
    · rfl
    · rw [getBal_debit]; simp [h1]

/-- **finalize_pays_fulfiller** — the release of a packet credits (and, for the bridging fee, debits)
    only the address the packet currently names, and the channel escrow: once a fulfilment has
    rewritten the packet to the fulfiller / LP, the original recipient receives nothing further. -/
theorem fwdSettle_bal {s s' : St} {p : Packet} {r : Nat × Nat} (h : fwdSettle s p r = some s') :
    ∀ a' d', a' ≠ escrowAcct p.chan → a' ≠ escrowAcct r.1 → getBal s'.bal a' d' = getBal s.bal a' d' := by
  intro a' d' h2 h3
  unfold fwdSettle at h
  split at h
  · cases h
  · rename_i s1 h1
    split at h
    · cases h
    · cases h
      show getBal s1.bal a' d' = _
      split at h1
      · cases h1; rfl
      · unfold fwdRefundFunds at h1
        split at h1
        · split at h1
          · rw [(sendCoins_spec h1).2 a' d']; simp [h2, h3]
          · split at h1
            · cases h1
            · cases h1; rw [getBal_debit]; simp [h2]
        · cases h1; rw [getBal_credit]; simp [h3]

/-- (a packet the hub sent as a packet-forward is settled between the two channel escrows: see
    `finalize_pays_fulfiller_counterexample`) -/
theorem release_touches_only_target (s : St) (p : Packet) :
    ∀ a' d', a' ≠ p.target → a' ≠ escrowAcct p.chan → (∀ r, p.fwd = some r → a' ≠ escrowAcct r.1) →
      getBal (releaseEffect s p).1.bal a' d' = getBal s.bal a' d' := by
  intro a' d' h1 h2 h3
  have hrefund : getBal (refundRelease s p).1.bal a' d' = getBal s.bal a' d' := by
    unfold refundRelease
    split
    · rename_i s1 hr
      unfold icsRefund at hr
      split at hr
      · exact icsCredit_bal hr a' d' h1 h2
      · rename_i r hfw; exact fwdSettle_bal hr a' d' h2 (h3 r hfw)
    · rfl
  have hwrite : ∀ (s1 : St) (b : Bool), (writeRecvAck s1 p b).1.bal = s1.bal := by
    intro s1 b; unfold writeRecvAck
    split
    · rfl
    · split <;> rfl
  have hrecv : getBal (recvRelease s p).1.bal a' d' = getBal s.bal a' d' := by
    unfold recvRelease
    split
    · rename_i s1 hi
      unfold icsRecv at hi
      split at hi
      · cases hi
      · split at hi
        · cases hi
        · rename_i s2 hc
          cases hi
          simp only [if_true]
          rw [chargeBridgingFee_bal _ _ a' d' h1, icsCredit_bal hc a' d' h1 h2]
    · rfl
  unfold releaseEffect
  split
  · rw [hwrite]; exact hrecv
  · split
    · exact hrefund
    · unfold ackRelease; split
      · rfl
      · exact hrefund
  · exact hrefund
  · rfl

theorem afterPacketStatusUpdated_bal (s : St) (a b : Bytes) (st : Status) : (afterPacketStatusUpdated s a b st).bal = s.bal := by
  unfold afterPacketStatusUpdated
  split <;> rfl

/-- the whole finalization moves coins only through that release -/
theorem finalize_pays_fulfiller {s s' : St} {k : Bytes} (h : finalizePacket s k = .ok s') :
    ∃ p, getPacket s k = some p ∧
      ∀ a' d', a' ≠ p.target → a' ≠ escrowAcct p.chan → (∀ r, p.fwd = some r → a' ≠ escrowAcct r.1) →
        getBal s'.bal a' d' = getBal s.bal a' d' := by
  unfold finalizePacket at h
  split at h
  · cases h
  · rename_i p hp
    split at h
    · cases h
    · unfold updateAfterFinalization at h
      split at h
      · cases h
      · cases h
        refine ⟨p, hp, fun a' d' h1 h2 h3 => ?_⟩
        rw [afterPacketStatusUpdated_bal]
        show getBal (releaseEffect s p).1.bal a' d' = _
        exact release_touches_only_target s p a' d' h1 h2 h3

-- ================================================================== price_identity

/-- **price_identity** — `CalcPriceWithBridgingFee`: price + fee + ⌊bridgingFee · amount⌋ = amount, price > 0
    (the truncation is the SDK's `LegacyDec.MulInt(..).TruncateInt()`) -/
theorem price_identity (amt fee : Int) (mult : Dec) (price : Int) (h : calcPrice amt fee mult = .ok price) :
    price + fee + (mult.mulInt amt).truncateInt = amt ∧ 0 < price := calcPrice_ok h

/-- the same about the function as regenerated from `x/eibc/types/fees.go` on this run -/
theorem price_identity_gen (amt fee : Int) (mult : Dec) (price : Int)
    (h : Gen.Eibc.calcPriceWithBridgingFee amt fee mult = some price) :
    price + fee + (mult.mulInt amt).truncateInt = amt ∧ 0 < price := by
  rw [GenEqEibc.calcPrice_eq] at h
  cases hc : calcPrice amt fee mult with
  | ok p => rw [hc] at h; cases h; exact calcPrice_ok hc
  | error e => rw [hc] at h; cases h

/-- the order created for a received packet satisfies the identity -/
theorem price_identity_on_recv {s s' : St} {p : Packet} {m : Memo} (h : eibcOnRecv s p m = .ok s') :
    ∃ o, s' = setOrder s o ∧ o.id = pkey p ∧ o.recipient = p.target ∧
      o.price + o.fee + bridgingFeeOf s p.amount = p.amount ∧ 0 < o.price ∧ 0 ≤ o.fee := by
  unfold eibcOnRecv at h
  split at h
  · cases h
  · split at h
    · cases h
    · rename_i fee hfee
      split at h
      · cases h
      · rename_i price hp
        cases h
        obtain ⟨h1, h2⟩ := calcPrice_ok hp
        refine ⟨_, rfl, rfl, rfl, h1, h2, ?_⟩
        show 0 ≤ fee
        unfold memoFee at hfee
        split at hfee
        · cases hfee; exact Int.le_refl 0
        · cases hfee; exact Int.le_refl 0
        · cases hfee
        · cases hfee
        · split at hfee
          · cases hfee
          · rename_i f hf; cases hfee; exact Int.not_lt.mp hf
        · cases hfee; exact Int.le_refl 0

/-- the order created for a refund (error acknowledgement / timeout): price + fee = amount, both positive -/
theorem price_identity_on_refund {s s' : St} {p : Packet} (h : eibcOnRefund s p = .ok s') :
    s' = s ∨ ∃ o, s' = setOrder s o ∧ o.id = pkey p ∧ o.recipient = p.target ∧ o.price + o.fee = p.amount ∧ 0 < o.price ∧ 0 < o.fee := by
  unfold eibcOnRefund at h
  split at h
  · cases h; exact Or.inl rfl
  · rename_i hf
    split at h
    · cases h
    · rename_i hp
      cases h
      refine Or.inr ⟨_, rfl, rfl, rfl, ?_, ?_, ?_⟩
      · show p.amount - refundFee s p + refundFee s p = p.amount; omega
      · show 0 < p.amount - refundFee s p; omega
      · show 0 < refundFee s p; omega

/-- the identity is preserved by the fee update (bridging fee only for received packets) -/
theorem price_identity_update {s s' : St} {a : Addr} {id : Bytes} {fee : Int} (h : msgUpdateFee s a id fee = .ok s') :
    ∃ o p price, getOrder s .pending id = some o ∧ getPacket s o.trackingKey = some p ∧
      s' = setOrder s { o with fee := fee, price := price, amount := p.amount, withBf := p.ptype == .onRecv } ∧ 0 < price ∧ 0 ≤ fee ∧
      price + fee + (if p.ptype = .onRecv then bridgingFeeOf s p.amount else 0) = p.amount := by
  obtain ⟨hf, o, p, price, ho, _, hp, hc, hs⟩ := msgUpdateFee_ok h
  obtain ⟨h1, h2⟩ := calcPrice_ok hc
  refine ⟨o, p, price, (getOutstanding_ok ho).1, hp, hs, h2, hf, ?_⟩
  by_cases ht : p.ptype = .onRecv
  · simp only [ht, if_true]
    have : (p.ptype == PType.onRecv) = true := by simp [ht]
    simpa [this, bridgingFeeOf] using h1
  · simp only [ht, if_false]
    have : (p.ptype == PType.onRecv) = false := by simpa using ht
    rw [this] at h1
    simp only [Bool.false_eq_true, if_false] at h1
    have z : (Dec.zero.mulInt p.amount).truncateInt = 0 := by
      simp [Dec.zero, Dec.mulInt, Dec.truncateInt, chopTrunc]
    omega

-- ================================================================== only_recipient_updates_fee

/-- **only_recipient_updates_fee** -/
theorem only_recipient_updates_fee {s s' : St} {a : Addr} {id : Bytes} {fee : Int} (h : msgUpdateFee s a id fee = .ok s') :
    ∃ o, getOrder s .pending id = some o ∧ a = o.recipient := by
  obtain ⟨_, o, _, _, ho, ha, _⟩ := msgUpdateFee_ok h
  exact ⟨o, (getOutstanding_ok ho).1, ha⟩

-- ================================================================== lp_limits

/-- **lp_limits** — the on-demand LP that was charged lists the order's rollapp and denom, the price
    is within its max price and its remaining spend limit, the fee at least its minimum fee, the
    order at least its minimum age; its `Spent` grows by exactly the price and stays within the limit. -/
theorem lp_limits {s s' : St} {id : Bytes} {perm : List Nat} (h : msgOnDemand s id perm = .ok s') :
    ∃ o l s2, getOrder s .pending id = some o ∧ l ∈ s.lps ∧
      l.rollappId = o.rollappId ∧ l.denom = o.denom ∧ o.price ≤ l.maxPrice ∧ o.price ≤ l.spendLimit - l.spent ∧
      l.minFee ≤ o.fee ∧ l.minAge ≤ (s.h + 2 ^ 64 - o.creationHeight) % 2 ^ 64 ∧
      s' = setLp s2 { l with spent := l.spent + o.price } ∧ l.spent + o.price ≤ l.spendLimit := by
  obtain ⟨o, ho, l0, hl0, s1, s2, _, _, hs⟩ := msgOnDemand_ok h
  obtain ⟨h1, h2, h3, h4, h5, h6, h7⟩ := compatible_spec hl0
  exact ⟨o, l0, s2, (getOutstanding_ok ho).1, h1, h2, h3, h4, h5, h6, h7, hs, by omega⟩

/-- the acceptance test as regenerated from `x/eibc/types/lp.go` on this run is the one the model's
    `compatibleLPs` applies -/
theorem lp_accepts_gen (l : LP) (now : Nat) (o : Order) :
    Gen.Eibc.accepts now o.price l.maxPrice l.spendLimit l.spent l.minFee o.fee l.minAge o.creationHeight = lpAccepts l now o :=
  GenEqEibc.accepts_eq l now o

/-- a new LP record starts unspent, within its positive limit -/
theorem lp_created_within_limit {s s' : St} {l : LP} {ok : Bool} (h : msgCreateLp s l ok = .ok s') :
    s' = { (setLp s { l with id := s.nextLp, spent := 0 }) with nextLp := s.nextLp + 1 } ∧ 0 < l.spendLimit ∧ 0 < l.maxPrice ∧ 0 ≤ l.minFee := by
  unfold msgCreateLp at h
  split at h
  · cases h
  · split at h
    · cases h
    · rename_i hv
      cases h
      simp only [Bool.or_eq_true, decide_eq_true_eq, not_or, Int.not_le, Int.not_lt] at hv
      exact ⟨rfl, hv.2, hv.1.1, hv.1.2⟩

-- ================================================================== grant_limits

theorem amountOf_ne_zero_not_isZero {c : Coins} {d : Denom} (h : coinsAmountOf c d ≠ 0) : coinsIsZero c = false := by
  unfold coinsAmountOf at h
  cases hf : c.find? (·.1 == d) with
  | none => simp [hf] at h
  | some x =>
    simp only [hf] at h
    have hx := List.mem_of_find?_eq_some hf
    cases hz : coinsIsZero c with
    | false => rfl
    | true =>
      unfold coinsIsZero at hz
      have := List.all_eq_true.mp hz x hx
      simp at this
      exact absurd this h

/-- what an accepted authorised fulfilment through a grant (`grantee ≠ lp`) respected — against the
    REAL order, because the handler compares the message's rollapp, price and fee with the order -/
structure GrantRespected (s : St) (g : Grant) (c : Criteria) (o : Order) (m : AuthMsg) : Prop where
  first : g.crit.find? (·.rollappId == o.rollappId) = some c
  share : c.opShare = m.share
  sv : c.sv = m.sv
  validated : c.sv = true → settlementValidated s o = .ok true
  denom : c.denoms.isEmpty = false → o.denom ∈ c.denoms
  maxPrice : coinsAmountOf c.maxPrice o.denom ≠ 0 → o.price ≤ coinsAmountOf c.maxPrice o.denom
  limit : coinsIsZero c.spendLimit = false → o.price ≤ coinsAmountOf c.spendLimit o.denom
  minFeeStated : grantMinFee c m.amount ≤ o.fee

theorem settlementValidated_congr {s s1 : St} (h1 : s1.packets = s.packets) (h3 : s1.ras = s.ras) (o : Order) :
    settlementValidated s1 o = settlementValidated s o := by
  unfold settlementValidated getPacket getRa
  rw [h1, h3]

/-- **grant_limits** — rollapp, denoms, max price, spend limit, operator share and the settlement
    flag of the grant are enforced against the real order; the grant is then reduced by the real price -/
theorem grant_limits {s s' : St} {grantee : Addr} {m : AuthMsg} (h : msgFulfillAuthorized s grantee m = .ok s')
    (hne : m.lp ≠ grantee) :
    ∃ g c o r, getGrant s m.lp grantee = some g ∧ getOrder s .pending m.orderId = some o ∧ GrantRespected s g c o m ∧
      acceptSpend g c { m with price := [(o.denom, o.price)] } = .ok r ∧
      fulfillAuthorizedCore (match r with | none => delGrant s m.lp grantee | some g' => setGrant s g') m = .ok s' := by
  obtain ⟨hvalid, hcase⟩ := msgFulfillAuthorized_ok h
  rcases hcase with ⟨he, _⟩ | ⟨_, g, r, hg, ha, hc⟩
  · exact absurd he hne
  · obtain ⟨c, hacc, hsp⟩ := acceptGrant_ok ha
    have hfields : ∀ sg : St, sg.packets = s.packets → sg.orders = s.orders → sg.ras = s.ras →
        fulfillAuthorizedCore sg m = .ok s' →
        ∃ o, getOrder s .pending m.orderId = some o ∧ GrantRespected s g c o m ∧ m.price = [(o.denom, o.price)] := by
      intro sg e1 e2 e3 hcore
      obtain ⟨o, ho, hv, _⟩ := fulfillAuthorizedCore_ok hcore
      rw [getOutstanding_congr e1 e2 e3] at ho
      obtain ⟨hr, hp, hf, hsv⟩ := validateOrder_ok hv
      have hpos : 0 < o.price := by
        unfold authMsgValid at hvalid
        simp only [Bool.and_eq_true, decide_eq_true_eq, List.all_eq_true] at hvalid
        have := hvalid.1.1.1.2 (o.denom, o.price) (by rw [hp]; exact List.mem_singleton.mpr rfl)
        exact this
      refine ⟨o, (getOutstanding_ok ho).1, ?_, hp⟩
      refine ⟨by rw [hr]; exact hacc.first, hacc.share, hacc.sv, ?_, ?_, ?_, ?_, by rw [hf]; exact hacc.minFee⟩
      · intro hcsv
        rw [← settlementValidated_congr e1 e3]
        exact hsv (by rw [← hacc.sv]; exact hcsv)
      · intro hd
        exact hacc.denoms hd (o.denom, o.price) (by rw [hp]; exact List.mem_singleton.mpr rfl)
      · intro hm
        have := hacc.maxPrice (amountOf_ne_zero_not_isZero hm)
        rw [hp] at this
        exact exceeds_single this hm
      · intro hz
        have := hacc.limit hz
        rw [hp] at this
        exact safeSub_single hpos this
    cases r with
    | none =>
      obtain ⟨o, ho, hgr, hp⟩ := hfields (delGrant s m.lp grantee) rfl rfl rfl hc
      refine ⟨g, c, o, none, hg, ho, hgr, ?_, hc⟩
      rw [← hp]; exact hsp
    | some g' =>
      obtain ⟨o, ho, hgr, hp⟩ := hfields (setGrant s g') rfl rfl rfl hc
      refine ⟨g, c, o, some g', hg, ho, hgr, ?_, hc⟩
      rw [← hp]; exact hsp

/- **grant_min_fee_on_real_amount** — full statement, FALSE of the current code:

     theorem grant_min_fee_on_real_amount (h : msgFulfillAuthorized s grantee m = .ok s') (hne : m.lp ≠ grantee) :
         ∃ g c o p, getGrant s m.lp grantee = some g ∧ ... ∧ getPacket s o.trackingKey = some p ∧
           grantMinFee c p.amount ≤ o.fee        -- the minimum fee as a share of the REAL transfer amount

   `FulfillOrderAuthorization.Accept` computes the minimum fee from `msg.Amount`, and `validateOrder`
   compares rollapp, price and fee with the order but never `msg.Amount` with the packet's amount.
   Below: the statement under `m.amount = p.amount`, and the witness (replayed on the real code by
   the monitor `C05/grant_min_fee_on_real_amount/fee-below-min-share-of-real-amount`). -/

theorem grant_min_fee_on_real_amount_partial {s s' : St} {grantee : Addr} {m : AuthMsg}
    (h : msgFulfillAuthorized s grantee m = .ok s') (hne : m.lp ≠ grantee) :
    ∃ g c o p, getGrant s m.lp grantee = some g ∧ g.crit.find? (·.rollappId == o.rollappId) = some c ∧
      getOrder s .pending m.orderId = some o ∧ getPacket s o.trackingKey = some p ∧
      (m.amount = p.amount → grantMinFee c p.amount ≤ o.fee) := by
  obtain ⟨g, c, o, r, hg, ho, hgr, _, _⟩ := grant_limits h hne
  obtain ⟨o', p, ⟨ho', _, hp, _⟩⟩ := fulfil_only_outstanding_authorized h
  rw [ho] at ho'; cases ho'
  exact ⟨g, c, o, p, hg, hgr.first, ho, hp, fun e => e ▸ hgr.minFeeStated⟩

def f6Chans : List Chan := [{ hubId := [99, 48], cpId := [99, 55], rollapp := some 0, canonical := true }]
def f6Init : St := initSt 3 100000 ⟨1000000000000000⟩ ⟨0⟩ ⟨0⟩ [114] [115] f6Chans
def f6Key : Bytes := rollappPacketKey .pending [114] 5 .onRecv [99, 55] 1
/-- a 1000-unit transfer with an eIBC fee of 1 (0.1 %); a grant with a 10 % minimum fee -/
def f6Ops : List Op :=
  [ .recv 0 1 5 { dref := .foreign, amount := 1000, target := some 0, memo := .eibc 1 },
    .grant { granter := 1, grantee := 2, crit := [{ rollappId := [114], denoms := [], minFeePct := ⟨100000000000000000⟩,
                                                     maxPrice := [], spendLimit := [], opShare := ⟨0⟩, sv := false }] } ]
/-- the operator states amount 10 instead of 1000 -/
def f6Msg : AuthMsg :=
  { orderId := f6Key, rollappId := [114], price := [(1, 998)], amount := 10, lp := 1, opAddr := 2, expectedFee := 1,
    share := ⟨0⟩, sv := false }

theorem grant_min_fee_on_real_amount_counterexample :
    (step (run f6Init f6Ops) (.fulfillAuth 2 f6Msg)).2 = .ok ∧
    (getOrder (run f6Init f6Ops) .pending f6Key).map (·.fee) = some 1 ∧
    (getPacket (run f6Init f6Ops) f6Key).map (·.amount) = some 1000 ∧
    ((run f6Init f6Ops).grants.flatMap (·.crit)).map (fun c => grantMinFee c 1000) = [100] := by
  decide

-- ================================================================== invariants over all histories

/-- **order_packet_bijection** — in every reachable state every demand order refers to exactly one
    stored packet (the one under its tracking key), of the order's status, whose pending key is the
    order's id; and there is at most one order per (status, id), hence per packet. -/
theorem order_packet_bijection (s0 : St) (h0 : Inv s0) (ops : List Op) :
    (∀ o ∈ (run s0 ops).orders, ∃ p, getPacket (run s0 ops) o.trackingKey = some p ∧ p.status = o.status ∧ pendKeyOf p = o.id) ∧
    OrdersNodup (run s0 ops).orders := by
  obtain ⟨h4, h5⟩ := inv_run_both ops h0
  refine ⟨fun o ho => ?_, h5.okeys⟩
  obtain ⟨p, hp, h1, h2, h3⟩ := h5.link o ho
  exact ⟨p, h1 ▸ getPacket_of_mem (InvF.keys h4) hp, h2, h3⟩

/-- an order is removed together with its packet: after `DeleteRollappPacket` (epoch clean-up, hard
    fork) no order of that packet is left -/
theorem order_removed_with_packet (s : St) (p : Packet) :
    ∀ o ∈ (deletePacket s p).orders, o.id ≠ pendKeyOf p := by
  intro o ho hid
  unfold deletePacket at ho
  obtain ⟨ho1, hf⟩ := mem_delOrder.mp ho
  obtain ⟨_, hp⟩ := mem_delOrder.mp ho1
  cases hs : o.status with
  | pending => exact hp ⟨hs, hid⟩
  | finalized => exact hf ⟨hs, hid⟩

/-- **price_identity** as an invariant — in every reachable state, for every order:
    price + fee + ⌊bridging fee · amount⌋ = amount (the bridging fee only for received packets),
    price > 0, fee ≥ 0; `amount` is the transfer amount of the packet the price was computed from -/
theorem price_identity_invariant (s0 : St) (h0 : Inv s0) (ops : List Op) :
    ∀ o ∈ (run s0 ops).orders, 0 < o.price ∧ 0 ≤ o.fee ∧
      o.price + o.fee + (if o.withBf then bridgingFeeOf (run s0 ops) o.amount else 0) = o.amount :=
  fun o ho => (inv_run_both ops h0).2.price o ho

/-- **lp_limits** as an invariant — no on-demand LP record is ever spent beyond its spend limit -/
theorem lp_spent_within_limit (s0 : St) (h0 : Inv s0) (ops : List Op) :
    ∀ l ∈ (run s0 ops).lps, l.spent ≤ l.spendLimit :=
  fun l hl => (inv_run_both ops h0).2.lps l hl

theorem init_ok (n : Nat) (fund : Int) (a b c : Dec) (r0 r1 : Bytes) (ch : List Chan) : Inv (initSt n fund a b c r0 r1 ch) :=
  inv_init_both n fund a b c r0 r1 ch

-- ================================================================== non-vacuity

def demoOps : List Op :=
  f6Ops ++ [ .recv 0 2 6 { dref := .foreign, amount := 500, target := some 0, memo := .eibc 5 },
             .createLp { id := 0, addr := 1, rollappId := [114], denom := 1, maxPrice := 600, minFee := 5, spendLimit := 1000, minAge := 0, spent := 0 } true ]
def demoKey2 : Bytes := rollappPacketKey .pending [114] 6 .onRecv [99, 55] 2

example : (step (run f6Init demoOps) (.fulfill 2 f6Key 1)).2 = .ok := by decide
example : (step (run f6Init demoOps) (.fulfill 2 f6Key 2)).2 = .err .feeMismatch := by decide
example : (step (step (run f6Init demoOps) (.fulfill 2 f6Key 1)).1 (.fulfill 1 f6Key 1)).2 = .err .fulfilled := by decide
example : getBal (step (run f6Init demoOps) (.fulfill 2 f6Key 1)).1.bal 0 1 = 100000 + 998 := by decide
example : getBal (step (run f6Init demoOps) (.fulfill 2 f6Key 1)).1.bal 2 1 = 100000 - 998 := by decide
example : (step (run f6Init demoOps) (.onDemand 0 demoKey2 [0])).2 = .ok := by decide
example : ((step (run f6Init demoOps) (.onDemand 0 demoKey2 [0])).1.lps.map (·.spent)) = [495] := by decide
example : (step (run f6Init demoOps) (.updateFee 0 demoKey2 10)).2 = .ok := by decide
example : (step (run f6Init demoOps) (.updateFee 1 demoKey2 10)).2 = .err .unauthorized := by decide
example : ((step (run f6Init demoOps) (.updateFee 0 demoKey2 10)).1.orders.map (fun o => (o.price, o.fee))) = [(998, 1), (490, 10)] := by decide
example : (step (run f6Init demoOps) (.fulfillAuth 2 { f6Msg with amount := 1000 })).2 = .err .unauthorized := by decide
example : (run f6Init demoOps).orders.length = 2 ∧ (run f6Init demoOps).packets.length = 2 := by decide
example : ((run f6Init demoOps).orders.map (fun o => (o.price, o.fee, o.amount, o.withBf))) = [(998, 1, 1000, true), (495, 5, 500, true)] := by decide

end DymVerif.C05
