/-
  Props/C05 — eIBC orders: fulfilled at most once, with exact and conserving payments.
-/
import DymVerif.Lemmas.PacketsOnceOps
namespace DymVerif.C05
open DymVerif DymVerif.Keys DymVerif.Packets

end DymVerif.C05
