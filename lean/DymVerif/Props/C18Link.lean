/-
  Props/C18Link — the module round trips of Props/C18Modules over ALL histories of the package models:
  the store invariants those theorems take as hypotheses (`LockupInv`, …) are proved for the projection
  of every reachable state of the module's own package model (Lemmas/GenesisLink), so nothing is left
  "by comment".

  x/lockup: M-Lockup's chain (messages, blocks, restarts, parameter changes — Model/LockupChain) under
  the encoding `embState` (Lemmas/LockupChainEmbed).
-/
import DymVerif.Lemmas.GenesisLink
import DymVerif.Props.C18Modules
namespace DymVerif.C18L
open DymVerif DymVerif.Genesis DymVerif.GenesisLink

/-! ## x/lockup -/

/-- **lockup_roundtrip_reachable** — after every history of an x/lockup chain, C18's export → import of
    the module state gives back the lock section and the id counter; the params are the defaults (the
    listed loss `C18/queries/params.lockup-differs`) -/
theorem lockup_roundtrip_reachable (params : Nat) (p : Lockup.Params) (bal : Lockup.Actor → Lockup.Denom → Nat)
    (now height : Nat) (ops : List Lockup.COp) :
    importLockup (exportLockup (Lockup.embState params (Lockup.crun (Lockup.cinit p bal now height) ops).s)) =
      { Lockup.embState params (Lockup.crun (Lockup.cinit p bal now height) ops).s with params := lockupDefaultParams } :=
  lockup_import_export (lockupInv_reachable params p bal now height ops)

/-- … exactly, when the params are the defaults -/
theorem lockup_roundtrip_reachable_partial (p : Lockup.Params) (bal : Lockup.Actor → Lockup.Denom → Nat)
    (now height : Nat) (ops : List Lockup.COp) :
    importLockup (exportLockup (Lockup.embState lockupDefaultParams (Lockup.crun (Lockup.cinit p bal now height) ops).s)) =
      Lockup.embState lockupDefaultParams (Lockup.crun (Lockup.cinit p bal now height) ops).s :=
  C18M.lockup_roundtrip_partial _ (lockupInv_reachable lockupDefaultParams p bal now height ops) rfl

/-- the import does not depend on the order of the exported lock list, in any reachable state -/
theorem lockup_any_order_reachable (params : Nat) (p : Lockup.Params) (bal : Lockup.Actor → Lockup.Denom → Nat)
    (now height : Nat) (ops : List Lockup.COp) (l : List Lock)
    (hp : l.Perm (exportLockup (Lockup.embState params (Lockup.crun (Lockup.cinit p bal now height) ops).s)).locks) :
    importLockup { lastLockId := (Lockup.crun (Lockup.cinit p bal now height) ops).s.lastId, locks := l } =
      importLockup (exportLockup (Lockup.embState params (Lockup.crun (Lockup.cinit p bal now height) ops).s)) :=
  C18M.lockup_any_order _ (lockupInv_reachable params p bal now height ops) l hp

/-- non-vacuity: a chain that locked, began to unlock and restarted -/
example : (Lockup.embState 7 (Lockup.crun (Lockup.cinit (Lockup.defaultParams 0) (fun _ _ => 1000) 5 1)
    [.msg (.lock 0 0 10 100), .msg (.lock 1 0 20 50), .restart]).s).locks.map (·.1) = [1, 2] := by decide

end DymVerif.C18L
