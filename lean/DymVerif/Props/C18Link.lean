/-
  Props/C18Link — the module round trips of Props/C18Modules over ALL histories of the package models:
  the store invariants those theorems take as hypotheses (`LockupInv`, …) are proved for the projection
  of every reachable state of the module's own package model (Lemmas/GenesisLink), so nothing is left
  "by comment".

  x/lockup: M-Lockup's chain (messages, blocks, restarts, parameter changes — Model/LockupChain) under
  the encoding `embState` (Lemmas/LockupChainEmbed).
  x/lightclient: M-LC (Model/LC, C09) under the projection `toLcState` (Lemmas/GenesisLinkLC): `LcInv`
  is M-LC's `MapsInv`.
  x/delayedack: M-Packets (Model/Packets, C04 / C05) under `toDaState` (Lemmas/GenesisLinkDa): `DaInv`
  from `Inv04` (`InvF.keys`) and `IdxInv` (`fwd` / `bwd`, and the new conjunct of `PktOk`: every stored
  packet has one of the three real types).
  x/sponsorship: M-Spons (Model/Spons, C16) under `toSponsState` (Lemmas/GenesisLinkSpons): `SponsInv.own`
  is M-Spons `DvpClean`, which C16 proves for slash-free histories with faithful staking ops
  (`RunFaithful`: the histories on which the recorded powers are defined at all — a slash is C16's
  listed finding); the votes' well-formedness is `WF.votes`.
  Not linked yet (still a hypothesis of Props/C18Modules, named in the registry's trusted base): dymns.
-/
import DymVerif.Lemmas.GenesisLink
import DymVerif.Lemmas.GenesisLinkLC
import DymVerif.Lemmas.GenesisLinkDa
import DymVerif.Lemmas.GenesisLinkSpons
import DymVerif.Props.C04
import DymVerif.Props.C16
import DymVerif.Props.C18Modules
namespace DymVerif.C18L
open DymVerif DymVerif.Genesis DymVerif.GenesisLink

/-! ## x/lockup -/

/-- **lockup_roundtrip_reachable** — after every history of an x/lockup chain, C18's export → import of
    the module state gives back the lock section and the id counter; the params are the defaults (the
    listed loss `C18/queries/params.lockup-differs`) -/
theorem lockup_roundtrip_reachable (params : Nat) (p : Lockup.Params) (bal : Lockup.Actor → Lockup.Denom → Nat)
    (now height : Nat) (ops : List Lockup.COp) :
    importLockup (exportLockup (Lockup.embState params (Lockup.crun (Lockup.cinit p bal now height) ops).s)) =
      { Lockup.embState params (Lockup.crun (Lockup.cinit p bal now height) ops).s with params := lockupDefaultParams } :=
  lockup_import_export (lockupInv_reachable params p bal now height ops)

/-- … exactly, when the params are the defaults -/
theorem lockup_roundtrip_reachable_partial (p : Lockup.Params) (bal : Lockup.Actor → Lockup.Denom → Nat)
    (now height : Nat) (ops : List Lockup.COp) :
    importLockup (exportLockup (Lockup.embState lockupDefaultParams (Lockup.crun (Lockup.cinit p bal now height) ops).s)) =
      Lockup.embState lockupDefaultParams (Lockup.crun (Lockup.cinit p bal now height) ops).s :=
  C18M.lockup_roundtrip_partial _ (lockupInv_reachable lockupDefaultParams p bal now height ops) rfl

/-- the import does not depend on the order of the exported lock list, in any reachable state -/
theorem lockup_any_order_reachable (params : Nat) (p : Lockup.Params) (bal : Lockup.Actor → Lockup.Denom → Nat)
    (now height : Nat) (ops : List Lockup.COp) (l : List Lock)
    (hp : l.Perm (exportLockup (Lockup.embState params (Lockup.crun (Lockup.cinit p bal now height) ops).s)).locks) :
    importLockup { lastLockId := (Lockup.crun (Lockup.cinit p bal now height) ops).s.lastId, locks := l } =
      importLockup (exportLockup (Lockup.embState params (Lockup.crun (Lockup.cinit p bal now height) ops).s)) :=
  C18M.lockup_any_order _ (lockupInv_reachable params p bal now height ops) l hp

/-- non-vacuity: a chain that locked, began to unlock and restarted -/
example : (Lockup.embState 7 (Lockup.crun (Lockup.cinit { minDur := 0, fee := 1, allowed := [], feeDenom := 0 } (fun _ _ => 1000) 5 1)
    [.msg (.lock 0 0 10 100), .msg (.lock 1 0 20 50), .restart]).s).locks.map (·.1) = [1, 2] := by decide

/-! ## x/delayedack -/

/-- **delayedack_roundtrip_reachable** — after every history of M-Packets (IBC packets received, sent,
    acknowledged, timed out; finalization; eIBC fulfilment; state updates, hard forks, epochs; any
    channel table without separator bytes in its ids) with uint64 heights and sequences, the packets and
    the pending-by-address index survive export → import exactly -/
theorem delayedack_roundtrip_reachable (params n : Nat) (fund : Int) (a b c : Dec) (r0 r1 : Bytes)
    (ch : List Packets.Chan) (hc : Packets.CfgOk (Packets.initSt n fund a b c r0 r1 ch))
    (ops : List Packets.Op) (hb : ∀ o ∈ ops, Packets.BoundedOp o) :
    importDa (exportDa (toDaState params (Packets.run (Packets.initSt n fund a b c r0 r1 ch) ops))) =
      some (toDaState params (Packets.run (Packets.initSt n fund a b c r0 r1 ch) ops)) :=
  C18M.delayedack_roundtrip _
    (daInv_run params ops hb (Packets.inv_init n fund a b c r0 r1 ch) (C04.idx_init n fund a b c r0 r1 ch hc))

/-- the projection keeps what the module's queries see: a packet is stored under its own key, and the
    index answers for an address exactly as M-Packets' index does -/
theorem toDaState_faithful (params : Nat) {s : Packets.St} (h4 : Packets.Inv04 s) :
    (∀ p ∈ s.packets, (Packets.pkey p, toDPacket p) ∈ (toDaState params s).packets) ∧
    (∀ a k, (([a], k), ()) ∈ (toDaState params s).byAddr ↔ (a, k) ∈ s.byAddr) := by
  refine ⟨fun p hp => (mem_toDa_packets params h4.keys _).2 ⟨p, hp, rfl⟩, fun a k => ?_⟩
  rw [mem_toDa_byAddr]
  constructor
  · rintro ⟨x, hx, he⟩
    have e1 : [a] = [x.1] := congrArg Prod.fst he
    have e2 : k = x.2 := congrArg Prod.snd he
    injection e1 with e1
    have : (a, k) = x := Prod.ext e1 e2
    rw [this]; exact hx
  · intro h; exact ⟨(a, k), h, rfl⟩

/-! ## x/sponsorship -/

/-- **sponsorship_roundtrip_reachable** (what survives; endorsements and the claim blacklist do not:
    `sponsorship_roundtrip_counterexample`) — after every slash-free history of M-Spons from genesis
    whose staking ops are faithful (votes, revocations, staking hooks, claims, epoch ends, gauge / rollapp
    creation, parameter changes), the votes, the per-validator power records and the params survive
    export → import, and the recomputed distribution is, gauge by gauge, the sum over the votes -/
theorem sponsorship_roundtrip_reachable (params : Nat) (ma mv : Int) (hmv : 0 ≤ mv) (ops : List Spons.Op)
    (hf : Spons.RunFaithful ops) :
    (importSpons (exportSpons (toSponsState params (Spons.run (Spons.State.init ma mv) ops)))).votes =
      (toSponsState params (Spons.run (Spons.State.init ma mv) ops)).votes ∧
    (importSpons (exportSpons (toSponsState params (Spons.run (Spons.State.init ma mv) ops)))).dvp =
      (toSponsState params (Spons.run (Spons.State.init ma mv) ops)).dvp ∧
    (importSpons (exportSpons (toSponsState params (Spons.run (Spons.State.init ma mv) ops)))).params = params ∧
    (∀ g, Spons.gget (importSpons (exportSpons (toSponsState params (Spons.run (Spons.State.init ma mv) ops)))).dist.gauges g =
      (((toSponsState params (Spons.run (Spons.State.init ma mv) ops)).votes.map (·.2)).map fun v => v.pow g).sum) ∧
    (importSpons (exportSpons (toSponsState params (Spons.run (Spons.State.init ma mv) ops)))).dist.vp =
      (((toSponsState params (Spons.run (Spons.State.init ma mv) ops)).votes.map (·.2)).map (·.vp)).sum := by
  have ht := (Props.C16.power_tracks_staking_partial _ ops (Props.C16.init_tracked ma mv) hf).1
  have hw := (Props.C16.world_from_init ma mv hmv ops).1
  refine C18M.sponsorship_roundtrip_partial _ (sponsInv_of_clean params ht.clean) ?_
  intro e he
  obtain ⟨a, v, hl, rfl⟩ := (mem_toSpons_votes params _ e).1 he
  exact hw.votes (a, v) (Spons.alookup_mem hl)

/-- … and the exported genesis is a fixed point -/
theorem sponsorship_export_import_export_reachable (params : Nat) (ma mv : Int) (ops : List Spons.Op)
    (hf : Spons.RunFaithful ops) :
    exportSpons (importSpons (exportSpons (toSponsState params (Spons.run (Spons.State.init ma mv) ops)))) =
      exportSpons (toSponsState params (Spons.run (Spons.State.init ma mv) ops)) :=
  C18M.sponsorship_export_import_export _
    (sponsInv_of_clean params (Props.C16.power_tracks_staking_partial _ ops (Props.C16.init_tracked ma mv) hf).1.clean)

/-! ## x/lightclient -/

/-- the projection answers as M-LC's first-match lookup does: it is the same map -/
theorem toLcState_canonical_faithful (s : LC.St) (r c : Nat) :
    (([r], [c]) ∈ (toLcState s).r2c ↔ LC.lookup s.r2c r = some c) ∧
    (([c], [r]) ∈ (toLcState s).c2r ↔ LC.lookup s.c2r c = some r) := by
  constructor
  · show _ ∈ kvOfAssoc s.r2c ↔ _
    rw [mem_kvOfAssoc]
    constructor
    · rintro ⟨a, b, hl, e⟩
      injection e with e1 e2
      injection e1 with e1; injection e2 with e2
      rw [e1, e2]; exact hl
    · intro hl; exact ⟨r, c, hl, rfl⟩
  · show _ ∈ kvOfAssoc s.c2r ↔ _
    rw [mem_kvOfAssoc]
    constructor
    · rintro ⟨a, b, hl, e⟩
      injection e with e1 e2
      injection e1 with e1; injection e2 with e2
      rw [e1, e2]; exact hl
    · intro hl; exact ⟨c, r, hl, rfl⟩

/-- **lightclient_canonical_and_signers_survive_reachable** — after every history of M-LC (client
    creation, updates, designation, misbehaviour, hard forks, the M-Core ops underneath) the canonical
    clients in both directions and the signer set survive export → import -/
theorem lightclient_canonical_and_signers_survive_reachable (p : Core.Params) (ops : List LC.Op) :
    ∃ t, importLc (exportLc (toLcState (LC.run (LC.init p) ops))) = some t ∧
      t.r2c = (toLcState (LC.run (LC.init p) ops)).r2c ∧ t.c2r = (toLcState (LC.run (LC.init p) ops)).c2r ∧
      t.signers = (toLcState (LC.run (LC.init p) ops)).signers :=
  C18M.lightclient_canonical_and_signers_survive _ (lcInv_reachable p ops)

/-- … and the exported genesis is a fixed point -/
theorem lightclient_export_import_export_reachable (p : Core.Params) (ops : List LC.Op) :
    (importLc (exportLc (toLcState (LC.run (LC.init p) ops)))).map exportLc =
      some (exportLc (toLcState (LC.run (LC.init p) ops))) :=
  C18M.lightclient_export_import_export _ (lcInv_reachable p ops)

/-- … the whole state when the height → signer map names exactly the recorded signers -/
theorem lightclient_roundtrip_reachable_partial (p : Core.Params) (ops : List LC.Op)
    (hex : SignersExact (toLcState (LC.run (LC.init p) ops))) :
    importLc (exportLc (toLcState (LC.run (LC.init p) ops))) = some (toLcState (LC.run (LC.init p) ops)) :=
  C18M.lightclient_roundtrip_partial _ (lcInv_reachable p ops) hex

/-- non-vacuity of the projection: shadowed entries of the association lists do not reach the sections -/
example : kvOfAssoc [(2, 7), (1, 5), (2, 9)] = [([1], [5]), ([2], [7])] := by decide

end DymVerif.C18L
