/-
  Props/C13Plans — C13 over MANY plans and across chain restarts (genesis export → import).

  Property theorems only, over M-IRO-PLANS (Model/IroPlans): the x/iro store skeleton of
  Model/Genesis (plan section in lexical key order, by-rollapp index, `LastPlanId`) + one M-IRO world
  per rollapp.  Every statement is for every curve / Newton oracle per plan, every configuration,
  every number `base` of plans that existed before, and EVERY list of multi-plan ops — messages for
  any rollapp in any interleaving, new rollapps, and restarts (`MOp.restart` = ExportGenesis →
  InitGenesis as the Go code does it: plans re-set one by one in export order, `LastPlanId` = the
  maximum id).

  * `slot_is_single_plan_history` is the bridge: each rollapp's world after a multi-plan history is
    the state after a single-plan history of M-IRO, so EVERY theorem of Props/C13 (solvency, sold
    bounds, gating, claims, vesting) holds per plan whatever happened to the other plans and however
    often the chain was restarted.
  * the store part: a restart changes nothing; the next id is fresh (for the reachable store and for
    ANY genesis file); nothing stored is ever replaced; the plan id the holders of a rollapp know always
    resolves to that rollapp's plan, so claims stay 1:1 and are never `lost`.
  * `last_of_list_counter_overwrites`: the counterexample the theorems exclude — the same history with
    `LastPlanId` taken from the LAST exported plan (export order 1,10,2,…,9) hands out id 10 again, the
    record of the old plan 10 is replaced and its holders' claim is `lost`.
-/
import DymVerif.Props.C13
import DymVerif.Lemmas.IroPlans
namespace DymVerif.C13
open DymVerif DymVerif.Iro DymVerif.Genesis DymVerif.IroPlans

def MReach (I : Nat → Int → Int) (T : Nat → Int → Int → Option Int) (cfg : Cfg) (base : Nat) (m : MState) : Prop :=
  ∃ ops : List MOp, m = mrun I T (minit cfg base) ops

theorem mreach_tab {I T cfg base m} (h : MReach I T cfg base m) : IroInv m.tab := by
  obtain ⟨ops, rfl⟩ := h
  exact tinv_run ops _ (tinv_init base)

theorem mreach_step {I T cfg base m} (h : MReach I T cfg base m) (o : MOp) : MReach I T cfg base (mstep I T m o).1 := by
  obtain ⟨ops, rfl⟩ := h
  exact ⟨ops ++ [o], by simp [mrun, List.foldl_append]⟩

/-! ## the bridge: per plan, a multi-plan history with restarts is a single-plan history -/

/-- **slot_is_single_plan_history**: the world of rollapp `k` after ANY multi-plan history (messages
    for other rollapps, creation of other plans, restarts) is the state of M-IRO after the messages that
    were addressed to it — in particular it is `Reach`able in the sense of Props/C13. -/
theorem slot_is_single_plan_history {I T cfg base} (ops : List MOp) (k : Nat) :
    (mrun I T (minit cfg base) ops).slot k = run (I k) (T k) (init cfg) (slotOps I T k (minit cfg base) ops) :=
  slot_run I T k ops (minit cfg base)

theorem mreach_slot {I T cfg base m} (h : MReach I T cfg base m) (k : Nat) : Reach (I k) (T k) cfg (m.slot k) := by
  obtain ⟨ops, rfl⟩ := h
  exact ⟨_, slot_is_single_plan_history ops k⟩

/-- **plans_keep_invariants**: every plan's bookkeeping and vesting invariant holds after any
    multi-plan history with restarts -/
theorem plans_keep_invariants {I T cfg base m} (h : MReach I T cfg base m) (k : Nat) :
    Inv (m.slot k) ∧ VInv (m.slot k) := reach_inv (mreach_slot h k)

/-- **other_plans_do_not_interfere**: an op that is not a message for rollapp `k` — a message for
    another rollapp (in particular the creation of another plan), a new rollapp, a restart — leaves the
    world of rollapp `k` exactly as it was (block time is the only thing shared) -/
theorem other_plans_do_not_interfere {I T} (m : MState) (o : MOp) (k : Nat) (h : slotOp m k o = none) :
    (mstep I T m o).1.slot k = m.slot k := mstep_other_slot I T m o k h

theorem restart_touches_no_plan {I T} (m : MState) (k : Nat) : (mstep I T m .restart).1.slot k = m.slot k :=
  mstep_other_slot I T m .restart k rfl

theorem create_touches_no_other_plan {I T} (m : MState) (k : Nat) (op : Op) (hk : m.cur ≠ k) (hc : isCreate op = true) :
    (mstep I T m (.on op)).1.slot k = m.slot k :=
  mstep_other_slot I T m _ k (slotOp_other_create m k op hk hc)

/-- per-plan clauses of Props/C13 transported to every plan of a multi-plan history -/
theorem msold_bounded {I T cfg base m} (h : MReach I T cfg base m) (k : Nat) (p : Iro.Plan) (hp : (m.slot k).plan = some p) :
    p.sold ≤ p.maxSell ∧ 0 < p.maxSell ∧ p.maxSell ≤ p.alloc ∧ p.claimed ≤ p.sold :=
  sold_bounded (mreach_slot h k) p hp

theorem mmodule_holds_unclaimed {I T cfg base m} (h : MReach I T cfg base m) (k : Nat) (p : Iro.Plan)
    (hp : (m.slot k).plan = some p) (hs : p.settled = true) :
    (m.slot k).modRa = sumTo (m.slot k).cfg.n (m.slot k).iro ∧ (m.slot k).modRa = p.sold - p.claimed ∧
    (m.slot k).modIro = 0 :=
  module_holds_unclaimed (mreach_slot h k) p hp hs

theorem mvesting_bounded {I T cfg base m} (h : MReach I T cfg base m) (k : Nat) (p : Iro.Plan)
    (hp : (m.slot k).plan = some p) (hs : p.settled = true) :
    0 ≤ p.vest.claimed ∧ p.vest.claimed ≤ p.vest.amount ∧ (m.slot k).planLiq = p.vest.amount - p.vest.claimed :=
  vesting_bounded (mreach_slot h k) p hp hs

/-- solvency of every plan along a multi-plan history without exact-spend purchases FOR THAT PLAN -/
theorem msolvent_buy_sell {I T cfg base} (ops : List MOp) (k : Nat)
    (hno : ∀ o ∈ slotOps I T k (minit cfg base) ops, isBes o = false) (p : Iro.Plan)
    (hp : ((mrun I T (minit cfg base) ops).slot k).plan = some p) (hs : p.settled = false) :
    cost (I k) p.L 0 p.sold ≤ ((mrun I T (minit cfg base) ops).slot k).planLiq + ((mrun I T (minit cfg base) ops).slot k).trades := by
  rw [slot_is_single_plan_history] at hp ⊢
  exact solvent_buy_sell _ hno p hp hs

/-! ## the store: restarts, fresh ids, nothing replaced -/

/-- **restart_changes_nothing**: in every reachable state ExportGenesis → InitGenesis rebuilds exactly
    the state it exported — plan section, by-rollapp index, `LastPlanId`, and (trivially) every world -/
theorem restart_changes_nothing {I T cfg base m} (h : MReach I T cfg base m) :
    mstep I T m .restart = (m, .r .ok) := by
  show ({ m with tab := importIro (exportIro m.tab) }, MRes.r Err.ok) = (m, MRes.r Err.ok)
  rw [restart_tab (mreach_tab h)]

/-- … and the order in which a genesis file lists the plans does not matter -/
theorem restart_any_order {I T cfg base m} (h : MReach I T cfg base m) (l : List Genesis.Plan)
    (hp : l.Perm (exportIro m.tab).plans) : importIro { params := m.tab.params, plans := l } = m.tab :=
  iro_import_perm (mreach_tab h) hp

/-- **next_plan_id_fresh_any_genesis**: whatever a genesis file lists, in whatever order, the id the
    next CreatePlan receives is larger than every imported plan's id -/
theorem next_plan_id_fresh_any_genesis (g : IroGenesis) : ∀ p ∈ g.plans, p.id < nextPlanId (importIro g) := by
  intro p hp
  have h : (importIro g).lastPlanId = maxId (g.plans.map (·.id)) := iroInitLastPlanId_eq_maxId _
  have := maxId_ge (g.plans.map (·.id)) p.id (List.mem_map.2 ⟨p, hp, rfl⟩)
  unfold nextPlanId; omega

/-- **new_plan_never_overwrites**: when a CreatePlan succeeds (after any history with restarts) the new
    plan is stored under `LastPlanId + 1`, which no stored plan uses; every plan record and every
    by-rollapp entry stored before is still there, unchanged; the new rollapp's index entry names the
    new id. -/
theorem new_plan_never_overwrites {I T cfg base m} (h : MReach I T cfg base m) (op : Op) (hc : isCreate op = true)
    (hok : (mstep I T m (.on op)).2 = .r .ok) :
    (∀ x ∈ m.tab.plans, x.2.id ≠ m.tab.lastPlanId + 1 ∧ x ∈ (mstep I T m (.on op)).1.tab.plans) ∧
    (∀ e ∈ m.tab.byRollapp, e ∈ (mstep I T m (.on op)).1.tab.byRollapp) ∧
    slotPlanId (mstep I T m (.on op)).1 m.cur = some (m.tab.lastPlanId + 1) ∧
    (mstep I T m (.on op)).1.tab.lastPlanId = m.tab.lastPlanId + 1 := by
  have hi := mreach_tab h
  have ht : isTime op = false := by cases op <;> simp_all [isTime, isCreate]
  have hkeep := mstep_keeps (I := I) (T := T) (.on op) hi
  by_cases hh : kvHas (plansByRollappKey (raKey m.cur)) m.tab.byRollapp = true
  · simp [mstep, ht, hc, hh] at hok
  · have hf : kvHas (plansByRollappKey (raKey m.cur)) m.tab.byRollapp = false := by simpa using hh
    by_cases hr : (step (I m.cur) (T m.cur) (m.slot m.cur) op).2 = .ok
    · have etab : (mstep I T m (.on op)).1.tab = iroStep m.tab (.create (raKey m.cur) m.cur) := by
        simp [mstep, ht, hc, hf, hr]
      obtain ⟨_, _, _, hnew⟩ := create_keeps hi (raKey m.cur) m.cur hf
      have hi' : IroInv (iroStep m.tab (.create (raKey m.cur) m.cur)) := iroInv_step hi _
      refine ⟨fun x hx => ⟨(next_id_fresh hi x hx).1, hkeep.1 x hx⟩, hkeep.2, ?_, ?_⟩
      · unfold slotPlanId
        rw [etab]
        exact (kvGet_eq_some_iff soBytes hi'.sr _ _).2 hnew
      · rw [etab]; simp [iroStep, hf, setPlan, nextPlanId]
    · simp [mstep, ht, hc, hf, hr] at hok

/-- **plans_never_replaced**: every plan record and index entry of a reachable state survives every
    further history (messages, other plans, restarts) -/
theorem plans_never_replaced {I T cfg base m} (h : MReach I T cfg base m) (ops : List MOp) :
    (∀ x ∈ m.tab.plans, x ∈ (mrun I T m ops).tab.plans) ∧
    (∀ e ∈ m.tab.byRollapp, e ∈ (mrun I T m ops).tab.byRollapp) := by
  induction ops generalizing m with
  | nil => exact ⟨fun _ hx => hx, fun _ hx => hx⟩
  | cons o os ih =>
    have h1 := mstep_keeps (I := I) (T := T) o (mreach_tab h)
    have h2 := ih (mreach_step h o)
    exact ⟨fun x hx => h2.1 x (h1.1 x hx), fun e he => h2.2 e (h1.2 e he)⟩

/-- **plan_always_reachable**: the plan id the holders of a rollapp know resolves to that rollapp's
    own plan, so no message is ever `lost` -/
theorem plan_always_reachable {I T cfg base m} (h : MReach I T cfg base m) (k : Nat) : routed m k = true :=
  routed_of_inv (mreach_tab h) k

theorem never_lost {I T cfg base m} (h : MReach I T cfg base m) (o : MOp) : (mstep I T m o).2 ≠ .lost := by
  cases o with
  | newra => simp [mstep]
  | sel j => simp only [mstep]; split <;> simp
  | restart => simp [mstep]
  | on op =>
    simp only [mstep]
    by_cases ht : isTime op = true
    · simp [ht]
    · by_cases hc : isCreate op = true
      · simp only [ht, hc, if_true, if_false, Bool.false_eq_true]
        split <;> simp
      · simp [ht, hc, plan_always_reachable h]

/-- **mclaim_once_1to1**: after any multi-plan history with restarts, a holder of IRO tokens of a
    settled plan claims exactly the holding in rollapp tokens, once. -/
theorem mclaim_once_1to1 {I T cfg base m} (h : MReach I T cfg base m) (p : Iro.Plan)
    (hp : (m.slot m.cur).plan = some p) (hs : p.settled = true) (a : Nat) (ha : a < (m.slot m.cur).cfg.n)
    (hb : (m.slot m.cur).iro a ≠ 0) :
    let r := mstep I T m (.on (.claim a))
    r.2 = .r .ok ∧ r.1.cur = m.cur ∧ r.1.tab = m.tab ∧
    (r.1.slot m.cur).ra a = (m.slot m.cur).ra a + (m.slot m.cur).iro a ∧ (r.1.slot m.cur).iro a = 0 ∧
    (mstep I T r.1 (.on (.claim a))).2 = .r .noTokens := by
  have hi := mreach_tab h
  have e1 := mstep_on_of_inv (I := I) (T := T) hi (.claim a) rfl rfl
  obtain ⟨c1, c2, c3, _, c5, _⟩ := claim_once_1to1 (mreach_slot h m.cur) p hp hs a ha hb
  have h' := mreach_step (I := I) (T := T) h (.on (.claim a))
  have e2 := mstep_on_of_inv (I := I) (T := T) (mreach_tab h') (.claim a) rfl rfl
  simp only []
  rw [e2, e1]
  simp only [updSlot, if_true]
  exact ⟨by rw [c1], trivial, trivial, c2, c3, by rw [c5]⟩

/-! ## non-vacuity: nine earlier plans, two rollapps (ids 10 and 11), a restart, a third rollapp (id 12) -/

def demoIs : Nat → Int → Int := fun _ => demoI
def demoTs : Nat → Int → Int → Option Int := fun _ => demoT

/-- rollapp 0: owner and trader funded, plan created, trader buys 100 tokens; rollapp 1: plan created -/
def demoTwoPlans : List MOp :=
  (demoTrading.map MOp.on) ++ [.newra, .on (.fund 0 1000000000000000000000), .on demoCreate]

/-- … restart, a third rollapp with a plan, then rollapp 0 is settled and the trader claims -/
def demoRestart : List MOp :=
  demoTwoPlans ++ [.restart, .newra, .on (.fund 0 1000000000000000000000), .on demoCreate,
                   .sel 0, .on (.settle 1000000000000000000000 true), .on (.claim 1)]

example :
    let m := mrun demoIs demoTs (minit demoCfg 9) demoTwoPlans
    (exportIro m.tab).plans.map (·.id) = [1, 10, 11, 2, 3, 4, 5, 6, 7, 8, 9] ∧
    slotPlanId m 0 = some 10 ∧ slotPlanId m 1 = some 11 ∧ m.tab.lastPlanId = 11 := by decide

example :
    let m := mrun demoIs demoTs (minit demoCfg 9) demoRestart
    slotPlanId m 2 = some 12 ∧ m.tab.lastPlanId = 12 ∧ routed m 0 = true ∧
    (m.slot 0).ra 1 = 100000000000000000000 ∧ (m.slot 0).modRa = 0 ∧
    (m.slot 1).plan.map (·.sold) = some 1000000000000000000 := by decide

example : MReach demoIs demoTs demoCfg 9 (mrun demoIs demoTs (minit demoCfg 9) demoRestart) := ⟨_, rfl⟩

/-! ## what the theorems exclude: `LastPlanId` := id of the LAST exported plan (the seeded regression) -/

/-- InitGenesis with the counter taken from the last plan of the list -/
def importIroLast (g : IroGenesis) : IroState :=
  { importIro g with lastPlanId := lastId (g.plans.map (·.id)) }

/-- the same history as `demoRestart`, but the restart uses `importIroLast`: the export lists the ids
    as 1,10,11,2,…,9, the counter becomes 9, the third rollapp's plan is stored under id 10 and REPLACES
    the plan of rollapp 0: its id now resolves to another rollapp's plan, and the trader's claim is `lost`. -/
theorem last_of_list_counter_overwrites :
    let m := mrun demoIs demoTs (minit demoCfg 9) demoTwoPlans
    let m1 : MState := { m with tab := importIroLast (exportIro m.tab) }
    let m2 := mrun demoIs demoTs m1 [.newra, .on (.fund 0 1000000000000000000000), .on demoCreate, .sel 0]
    m1.tab.lastPlanId = 9 ∧ slotPlanId m2 2 = some 10 ∧ slotPlanId m2 0 = some 10 ∧ routed m2 0 = false ∧
    (mstep demoIs demoTs m2 (.on (.claim 1))).2 = .lost := by decide

end DymVerif.C13
