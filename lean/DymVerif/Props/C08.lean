/-
  Props/C08 — an idle rollapp's proposer is slashed on schedule; an active one never.
  (Arithmetic clauses about the function regenerated from `NextSlashHeight`; the invariant clauses
  about the event queue are in progress — see DESIGN.md.)
-/
import DymVerif.Lemmas.CoreLiveness
import DymVerif.Lemmas.GenEqArith
namespace DymVerif.C08
open DymVerif DymVerif.Core

/-- a rejected message leaves the state untouched -/
theorem reject_unchanged (s : St) (o : Op) (e : Err) (h : (step s o).2 = some e) : (step s o).1 = s := by
  unfold step at *
  cases h' : apply s o with
  | ok s' => simp [h'] at h
  | error e' => simp [h']

/-- the scheduled liveness event always lies strictly in the future — for every
    `LivenessSlashBlocks` N ≥ 0 and `LivenessSlashInterval` I ≥ 1 (including 1), about the function
    the source currently has -/
theorem next_slash_future (N I hub last : Nat) (hI : 1 ≤ I) (hl : last ≤ hub) :
    hub < Gen.Arith.nextSlashHeight N I hub last := by
  rw [GenEq.nextSlashHeight_eq]; exact nextSlashHeight_future N I hub last hI hl

/-- it lies on the grid `last + N + k·I` … -/
theorem next_slash_on_grid (N I hub last : Nat) :
    ∃ k, Gen.Arith.nextSlashHeight N I hub last = last + N + k * I := by
  rw [GenEq.nextSlashHeight_eq]; exact nextSlashHeight_grid N I hub last

/-- … and is the least grid point after the current height: no slash opportunity is skipped -/
theorem next_slash_least (N I hub last k : Nat) (hI : 1 ≤ I) (hl : last ≤ hub)
    (hk : hub < last + N + k * I) : Gen.Arith.nextSlashHeight N I hub last ≤ last + N + k * I := by
  rw [GenEq.nextSlashHeight_eq]; exact nextSlashHeight_least N I hub last k hI hl hk

/-- inside the first window the event is exactly N blocks after the last update -/
theorem first_event_after_N (N I hub last : Nat) (h : hub < last + N) (hl : last ≤ hub) :
    Gen.Arith.nextSlashHeight N I hub last = last + N := by
  rw [GenEq.nextSlashHeight_eq]; exact nextSlashHeight_first N I hub last h hl

/-- when an event fires at `last + N + j·I` and the rollapp stays idle, the next one is scheduled
    exactly one interval later: "again every LivenessSlashInterval blocks" -/
theorem next_event_one_interval_later (N I last j : Nat) (hI : 1 ≤ I) :
    Gen.Arith.nextSlashHeight N I (last + N + j * I) last = last + N + (j + 1) * I := by
  rw [GenEq.nextSlashHeight_eq]; exact nextSlashHeight_step N I last j hI

/-- the slash amount `min(bond, max(abs, ⌊mul·bond⌋))` never exceeds the bond -/
theorem slash_amount_le_bond (tokens abs tm : Nat) : min tokens (max abs tm) ≤ tokens := Nat.min_le_left _ _

-- non-vacuity: N = I = 1 (the smallest accepted parameters), idle for 3 blocks
example : Gen.Arith.nextSlashHeight 1 1 10 7 = 11 := by decide

end DymVerif.C08
