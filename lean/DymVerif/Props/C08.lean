/-
  Props/C08 — property theorems over M-Core (see DESIGN.md §4 C08).
-/
import DymVerif.Model.Core
namespace DymVerif.C08
open DymVerif DymVerif.Core

/-- a rejected message leaves every component of the state untouched (the model returns its input
    state on error, mirroring baseapp's per-message cache context; that the real code does so is
    checked by the harness: full observation equality after every rejected op) -/
theorem reject_unchanged (s : St) (o : Op) (e : Err) (h : (step s o).2 = some e) : (step s o).1 = s := by
  unfold step at *
  cases h' : apply s o with
  | ok s' => simp [h'] at h
  | error e' => simp [h']

end DymVerif.C08
